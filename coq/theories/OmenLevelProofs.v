(* OmenLevelProofs.v -- lemmas for C11 (and the set-level facts about
   OmenSpec.level_strings that C18 and C10 use).

   Main results
     ol_scorer_eq_trainer   scorer_level (load_s (write T)) s = trainer_level T s
     ol_level_of_gview      level_of (gview T) s = trainer_level T s
     ol_level_strings_iff   wf_tables G -> (In s (level_strings G L) <-> level_of G s = Some L)
     ol_NoDup_level_strings wf_tables G -> NoDup (level_strings G T)
     ol_guesser_iff, ol_three_way, ol_counts, ol_counts_guesser *)
From Coq Require Import List Arith Bool NArith ZArith Lia.
From Pcfg Require Import OmenSpec OmenLevel.
Import ListNotations.

(* ---------- basic facts ---------- *)
Lemma ol_ostr_eqb_eq : forall a b, ostr_eqb a b = true <-> a = b.
Proof.
  induction a as [|x a IH]; destruct b as [|y b]; simpl; split; intro H; try easy.
  - apply andb_true_iff in H. destruct H as [H1 H2]. apply N.eqb_eq in H1. apply IH in H2. congruence.
  - inversion H; subst. apply andb_true_iff. split; [apply N.eqb_refl | apply IH; reflexivity].
Qed.

Lemma ol_ostr_eqb_refl : forall a, ostr_eqb a a = true.
Proof. intro a. apply ol_ostr_eqb_eq. reflexivity. Qed.

Lemma ol_ostr_eqb_neq : forall a b, ostr_eqb a b = false <-> a <> b.
Proof.
  intros a b. split; intro H.
  - intro E. apply ol_ostr_eqb_eq in E. congruence.
  - destruct (ostr_eqb a b) eqn:E; [apply ol_ostr_eqb_eq in E; contradiction | reflexivity].
Qed.

Lemma ol_snoc_inj : forall (a b : ostr) x y, a ++ [x] = b ++ [y] -> a = b /\ x = y.
Proof. intros. apply app_inj_tail. assumption. Qed.

Lemma ol_removelast_snoc : forall (a : ostr) x, removelast (a ++ [x]) = a.
Proof. intros. apply removelast_last. Qed.

Lemma ol_last_snoc : forall (a : ostr) x d, last (a ++ [x]) d = x.
Proof. intros. apply last_last. Qed.

Lemma ol_snoc_removelast_last : forall (s : ostr) d, s <> [] -> removelast s ++ [last s d] = s.
Proof. intros s d H. symmetry. apply app_removelast_last. assumption. Qed.

(* ---------- first_level ---------- *)
Lemma ol_first_level_app : forall s l1 l2,
  first_level s (l1 ++ l2) = match first_level s l1 with Some v => Some v | None => first_level s l2 end.
Proof.
  induction l1 as [|[l x] r IH]; intro l2; simpl; [reflexivity|].
  destruct (ostr_eqb x s); [reflexivity | apply IH].
Qed.

Lemma ol_first_level_Some_In : forall s l v, first_level s l = Some v -> In (v, s) l.
Proof.
  induction l as [|[l0 x] r IH]; intros v H; simpl in *; [discriminate|].
  destruct (ostr_eqb x s) eqn:E.
  - apply ol_ostr_eqb_eq in E. inversion H; subst. left; reflexivity.
  - right. apply IH. assumption.
Qed.

Lemma ol_first_level_None : forall s l, first_level s l = None <-> (forall v, ~ In (v, s) l).
Proof.
  induction l as [|[l0 x] r IH]; simpl.
  - split; [intros _ v [] | reflexivity].
  - destruct (ostr_eqb x s) eqn:E.
    + apply ol_ostr_eqb_eq in E. subst. split; [discriminate|]. intro H. exfalso. apply (H l0). left; reflexivity.
    + apply ol_ostr_eqb_neq in E. rewrite IH. split.
      * intros H v [H1|H1]; [inversion H1; subst; contradiction | apply (H v H1)].
      * intros H v H1. apply (H v). right; assumption.
Qed.

Lemma ol_first_level_In : forall s l v, NoDup (map snd l) -> In (v, s) l -> first_level s l = Some v.
Proof.
  induction l as [|[l0 x] r IH]; intros v ND HI; simpl in *; [contradiction|].
  inversion ND as [|? ? Hn ND']; subst.
  destruct HI as [HI|HI].
  - inversion HI; subst. rewrite ol_ostr_eqb_refl. reflexivity.
  - destruct (ostr_eqb x s) eqn:E.
    + apply ol_ostr_eqb_eq in E. subst. exfalso. apply Hn. apply (in_map snd) in HI. exact HI.
    + apply IH; assumption.
Qed.

Lemma ol_NoDup_map_rev : forall {X Y} (f : X -> Y) l, NoDup (map f l) -> NoDup (map f (rev l)).
Proof.
  intros X Y f l H. rewrite map_rev. apply NoDup_rev. exact H.
Qed.

Lemma ol_first_level_rev : forall s l, NoDup (map snd l) -> first_level s (rev l) = first_level s l.
Proof.
  intros s l ND. destruct (first_level s l) as [v|] eqn:E.
  - apply ol_first_level_In; [apply ol_NoDup_map_rev; exact ND|].
    apply in_rev. rewrite rev_involutive. apply ol_first_level_Some_In. exact E.
  - apply ol_first_level_None. intros v H. apply in_rev in H.
    apply (proj1 (ol_first_level_None s l) E v H).
Qed.

(* ---------- NoDup over app / flat_map ---------- *)
Lemma ol_NoDup_app : forall {X} (a b : list X),
  NoDup a -> NoDup b -> (forall x, In x a -> ~ In x b) -> NoDup (a ++ b).
Proof.
  induction a as [|x a IH]; intros b Ha Hb Hd; simpl; [exact Hb|].
  inversion Ha as [|? ? Hn Ha']; subst. constructor.
  - intro H. apply in_app_or in H. destruct H as [H|H]; [contradiction|]. apply (Hd x); [left; reflexivity | exact H].
  - apply IH; [exact Ha' | exact Hb |]. intros y Hy. apply Hd. right; exact Hy.
Qed.

Lemma ol_NoDup_app_inv : forall {X} (a b : list X),
  NoDup (a ++ b) -> NoDup a /\ NoDup b /\ (forall x, In x a -> ~ In x b).
Proof.
  induction a as [|x a IH]; intros b H; simpl in *.
  - split; [constructor | split; [exact H | intros x []]].
  - inversion H as [|? ? Hn H']; subst. destruct (IH _ H') as (Ha & Hb & Hd). split; [|split].
    + constructor; [|exact Ha]. intro Hx. apply Hn. apply in_or_app. left; exact Hx.
    + exact Hb.
    + intros y [Hy|Hy] Hyb; [subst; apply Hn; apply in_or_app; right; exact Hyb | apply (Hd y Hy Hyb)].
Qed.

Lemma ol_NoDup_flat_map : forall {X Y} (f : X -> list Y) (l : list X),
  NoDup l -> (forall x, In x l -> NoDup (f x)) ->
  (forall x x' y, In x l -> In x' l -> In y (f x) -> In y (f x') -> x = x') ->
  NoDup (flat_map f l).
Proof.
  induction l as [|x l IH]; intros Hl Hf Hd; simpl; [constructor|].
  inversion Hl as [|? ? Hn Hl']; subst. apply ol_NoDup_app.
  - apply Hf. left; reflexivity.
  - apply IH; [exact Hl' | intros; apply Hf; right; assumption |].
    intros x1 x2 y H1 H2. apply Hd; right; assumption.
  - intros y Hy Hy2. apply in_flat_map in Hy2. destruct Hy2 as [x' [Hx' Hy2]].
    assert (x = x') by (apply (Hd x x' y); [left; reflexivity | right; exact Hx' | exact Hy | exact Hy2]).
    subst. contradiction.
Qed.

Lemma ol_NoDup_map_inj : forall {X Y} (f : X -> Y) (l : list X),
  NoDup l -> (forall x x', In x l -> In x' l -> f x = f x' -> x = x') -> NoDup (map f l).
Proof.
  induction l as [|x l IH]; intros Hl Hi; simpl; [constructor|].
  inversion Hl as [|? ? Hn Hl']; subst. constructor.
  - intro H. apply in_map_iff in H. destruct H as [x' [H1 H2]].
    assert (x = x') by (apply Hi; [left; reflexivity | right; exact H2 | symmetry; exact H1]). subst. contradiction.
  - apply IH; [exact Hl'|]. intros; apply Hi; try (right; assumption). assumption.
Qed.

(* ---------- IP lines ---------- *)
Lemma ol_first_level_write_ip : forall g p,
  first_level p (map (fun e => (te_ip e, te_key e)) g) = option_map te_ip (find_entry p g).
Proof.
  induction g as [|e r IH]; intro p; simpl; [reflexivity|].
  destruct (ostr_eqb (te_key e) p); [reflexivity | apply IH].
Qed.

Lemma ol_find_entry_In : forall g k e, find_entry k g = Some e -> In e g /\ te_key e = k.
Proof.
  induction g as [|e0 r IH]; intros k e H; simpl in *; [discriminate|].
  destruct (ostr_eqb (te_key e0) k) eqn:E.
  - inversion H; subst. apply ol_ostr_eqb_eq in E. split; [left; reflexivity | exact E].
  - destruct (IH _ _ H) as [H1 H2]. split; [right; exact H1 | exact H2].
Qed.

Lemma ol_find_entry_None : forall g k, find_entry k g = None -> forall e, In e g -> te_key e <> k.
Proof.
  induction g as [|e0 r IH]; intros k H e HI; simpl in *; [contradiction|].
  destruct (ostr_eqb (te_key e0) k) eqn:E; [discriminate|].
  destruct HI as [HI|HI]; [subst; apply ol_ostr_eqb_neq; exact E | apply IH; assumption].
Qed.

(* ---------- CP lines ---------- *)
Lemma ol_first_level_entry_lines : forall key nl chunk,
  chunk <> [] ->
  first_level chunk (map (fun cl : N * nat => (snd cl, key ++ [fst cl])) nl) =
  if ostr_eqb key (removelast chunk) then find_letter (last chunk 0%N) nl else None.
Proof.
  intros key nl chunk Hne. induction nl as [|[c l] r IH]; simpl.
  - destruct (ostr_eqb key (removelast chunk)); reflexivity.
  - destruct (ostr_eqb (key ++ [c]) chunk) eqn:E.
    + apply ol_ostr_eqb_eq in E. subst chunk.
      rewrite ol_removelast_snoc, ol_last_snoc, ol_ostr_eqb_refl, N.eqb_refl. reflexivity.
    + rewrite IH. destruct (ostr_eqb key (removelast chunk)) eqn:E2; [|reflexivity].
      apply ol_ostr_eqb_eq in E2.
      destruct (N.eqb c (last chunk 0%N)) eqn:E3; [|reflexivity].
      apply N.eqb_eq in E3. exfalso. apply ol_ostr_eqb_neq in E. apply E.
      subst key c. apply ol_snoc_removelast_last. exact Hne.
Qed.

Lemma ol_first_level_cp_lines : forall g chunk,
  chunk <> [] -> NoDup (map te_key g) ->
  first_level chunk (flat_map entry_cp_lines g) =
  match find_entry (removelast chunk) g with
  | None => None
  | Some e => find_letter (last chunk 0%N) (te_next e)
  end.
Proof.
  induction g as [|e r IH]; intros chunk Hne ND; simpl; [reflexivity|].
  inversion ND as [|? ? Hn ND']; subst.
  rewrite ol_first_level_app. unfold entry_cp_lines at 1.
  rewrite ol_first_level_entry_lines by exact Hne.
  destruct (ostr_eqb (te_key e) (removelast chunk)) eqn:E.
  - destruct (find_letter (last chunk 0%N) (te_next e)) eqn:F; [reflexivity|].
    (* no other entry has this key *)
    rewrite IH by assumption.
    destruct (find_entry (removelast chunk) r) as [e'|] eqn:F2; [|reflexivity].
    exfalso. apply ol_find_entry_In in F2. destruct F2 as [F2 F3].
    apply ol_ostr_eqb_eq in E. apply Hn. rewrite E, <- F3. apply in_map. exact F2.
  - apply IH; assumption.
Qed.

Lemma ol_t_cp_lines : forall T chunk, chunk <> [] -> NoDup (map te_key (tt_grammar T)) ->
  first_level chunk (write_cp T) = t_cp T chunk.
Proof. intros. unfold write_cp, t_cp. apply ol_first_level_cp_lines; assumption. Qed.

(* strings of the written CP lines are distinct *)
Lemma ol_in_entry_lines : forall e l s, In (l, s) (entry_cp_lines e) ->
  exists c, In (c, l) (te_next e) /\ s = te_key e ++ [c].
Proof.
  intros e l s H. unfold entry_cp_lines in H. apply in_map_iff in H.
  destruct H as [[c l'] [H1 H2]]. simpl in H1. inversion H1; subst. exists c. split; [exact H2 | reflexivity].
Qed.

Lemma ol_NoDup_entry_lines : forall e, NoDup (map fst (te_next e)) -> NoDup (map snd (entry_cp_lines e)).
Proof.
  intros e. unfold entry_cp_lines. generalize (te_next e) as nl. induction nl as [|[c l] r IH]; simpl; intro ND.
  - constructor.
  - inversion ND as [|? ? Hn ND']; subst. constructor; [|apply IH; exact ND'].
    intro H. apply in_map_iff in H. destruct H as [[l' s'] [H1 H2]]. simpl in H1. subst s'.
    apply in_map_iff in H2. destruct H2 as [[c' l''] [H2 H3]]. simpl in H2. inversion H2; subst.
    apply ol_snoc_inj in H1. destruct H1 as [_ H1]. subst c'. apply Hn.
    apply in_map_iff. exists (c, l'). split; [reflexivity | exact H3].
Qed.

Lemma ol_NoDup_cp_lines : forall g,
  NoDup (map te_key g) -> (forall e, In e g -> NoDup (map fst (te_next e))) ->
  NoDup (map snd (flat_map entry_cp_lines g)).
Proof.
  induction g as [|e r IH]; intros ND HL; simpl; [constructor|].
  inversion ND as [|? ? Hn ND']; subst.
  rewrite map_app. apply ol_NoDup_app.
  - apply ol_NoDup_entry_lines. apply HL. left; reflexivity.
  - apply IH; [exact ND' | intros; apply HL; right; assumption].
  - intros s H1 H2. apply in_map_iff in H1. destruct H1 as [[l1 s1] [E1 H1]]. simpl in E1. subst s1.
    apply in_map_iff in H2. destruct H2 as [[l2 s2] [E2 H2]]. simpl in E2. subst s2.
    apply ol_in_entry_lines in H1. destruct H1 as [c1 [_ H1]].
    apply in_flat_map in H2. destruct H2 as [e2 [H2 H3]].
    apply ol_in_entry_lines in H3. destruct H3 as [c2 [_ H3]].
    rewrite H1 in H3. apply ol_snoc_inj in H3. destruct H3 as [H3 _].
    apply Hn. rewrite H3. apply in_map. exact H2.
Qed.

Lemma ol_write_ip_snd : forall T, map snd (write_ip T) = map te_key (tt_grammar T).
Proof. intro T. unfold write_ip. rewrite map_map. reflexivity. Qed.

(* ---------- C11: scorer = trainer ---------- *)

Lemma ol_firstn_nonempty : forall {X} n (s : list X), s <> [] -> firstn (S n) s <> [].
Proof. intros X n [|x s] H; [contradiction | simpl; discriminate]. Qed.

Lemma ol_s_trans_cons : forall Sc n1 c r,
  s_trans Sc n1 (c :: r) =
  if Nat.leb (length (c :: r)) n1 then Some 0
  else oadd (first_level (firstn (S n1) (c :: r)) (sc_cp Sc)) (s_trans Sc n1 r).
Proof. reflexivity. Qed.

Lemma ol_t_trans_cons : forall T n1 c r,
  t_trans T n1 (c :: r) =
  if Nat.leb (length (c :: r)) n1 then Some 0
  else oadd (t_cp T (firstn (S n1) (c :: r))) (t_trans T n1 r).
Proof. reflexivity. Qed.

Lemma ol_s_trans_eq : forall T n1 s,
  NoDup (map te_key (tt_grammar T)) ->
  (forall e, In e (tt_grammar T) -> NoDup (map fst (te_next e))) ->
  s_trans (load_s (write T)) n1 s = t_trans T n1 s.
Proof.
  intros T n1 s ND HL. induction s as [|c r IH]; [reflexivity|].
  rewrite ol_s_trans_cons, ol_t_trans_cons.
  destruct (Nat.leb (length (c :: r)) n1); [reflexivity|].
  rewrite IH. f_equal.
  change (sc_cp (load_s (write T))) with (rev (write_cp T)).
  rewrite ol_first_level_rev by (apply ol_NoDup_cp_lines; assumption).
  apply ol_t_cp_lines; [apply ol_firstn_nonempty; discriminate | exact ND].
Qed.

Lemma ol_t_trans_no_cp : forall T n1 s, write_cp T = [] -> NoDup (map te_key (tt_grammar T)) ->
  n1 < length s -> t_trans T n1 s = None.
Proof.
  intros T n1 s H ND Hl. destruct s as [|c r]; [simpl in Hl; lia|].
  rewrite ol_t_trans_cons. destruct (Nat.leb (length (c :: r)) n1) eqn:E; [apply Nat.leb_le in E; lia|].
  rewrite <- ol_t_cp_lines by (try (apply ol_firstn_nonempty; discriminate); exact ND). rewrite H. reflexivity.
Qed.

Lemma ol_oadd_None_r : forall a, oadd a None = None.
Proof. destruct a; reflexivity. Qed.

Lemma ol_write_cp_first_len : forall T l s r, wf_ttab T -> write_cp T = (l, s) :: r -> length s = tt_ngram T.
Proof.
  intros T l s r (Hng & _ & _ & _ & Hk) H.
  assert (HI : In (l, s) (write_cp T)) by (rewrite H; left; reflexivity).
  unfold write_cp in HI. apply in_flat_map in HI. destruct HI as [e [He HI]].
  apply ol_in_entry_lines in HI. destruct HI as [c [_ HI]]. subst s.
  rewrite app_length. simpl. destruct (Hk e He) as [Hlen _]. lia.
Qed.

Theorem ol_scorer_eq_trainer : forall T, wf_ttab T ->
  forall s, scorer_level (load_s (write T)) s = trainer_level T s.
Proof.
  intros T WF s. pose proof WF as (Hng & Hmin & Hln & ND & Hk).
  assert (HL : forall e, In e (tt_grammar T) -> NoDup (map fst (te_next e))) by (intros e He; apply (Hk e He)).
  unfold scorer_level, trainer_level.
  change (sc_ngram (load_s (write T))) with
    (match write_cp T with [] => None | e :: _ => Some (length (snd e)) end).
  destruct (write_cp T) as [|[l0 s0] r0] eqn:EC.
  - (* empty CP.level: the trainer has no transition either *)
    destruct (Nat.ltb (length s) (tt_min_len T) || Nat.ltb (tt_max_len T) (length s)) eqn:E; [reflexivity|].
    apply orb_false_iff in E. destruct E as [E1 _]. apply Nat.ltb_ge in E1.
    rewrite ol_t_trans_no_cp by (try assumption; lia).
    rewrite !ol_oadd_None_r. reflexivity.
  - simpl snd. rewrite (ol_write_cp_first_len T l0 s0 r0 WF EC).
    change (sc_ln (load_s (write T))) with (10 :: tt_ln T).
    change (sc_ip (load_s (write T))) with (rev (write_ip T)).
    simpl length. replace (S (length (tt_ln T)) - 1) with (tt_max_len T) by lia. rewrite Hmin.
    destruct (Nat.ltb (length s) (tt_ngram T) || Nat.ltb (tt_max_len T) (length s)) eqn:E; [reflexivity|].
    apply orb_false_iff in E. destruct E as [E1 _]. apply Nat.ltb_ge in E1.
    rewrite ol_s_trans_eq by assumption.
    rewrite ol_first_level_rev by (rewrite ol_write_ip_snd; exact ND).
    unfold write_ip. rewrite ol_first_level_write_ip.
    destruct (length s) as [|n] eqn:En; [lia|].
    simpl nth_error. rewrite Nat.sub_0_r. reflexivity.
Qed.


Lemma ol_levels_ok_forall : forall m ls, levels_ok m ls = true <-> (forall l s, In (l, s) ls -> l <= m).
Proof.
  intros m ls. unfold levels_ok. rewrite forallb_forall. split.
  - intros H l s HI. apply Nat.leb_le. apply (H (l, s) HI).
  - intros H [l s] HI. apply Nat.leb_le. apply (H l s HI).
Qed.

Lemma ol_load_g_write : forall T, levels_le guesser_max_level T -> load_g (write T) = Some (gview T).
Proof.
  intros T [HG HLn]. unfold load_g.
  assert (H1 : levels_ok guesser_max_level (f_ip (write T)) = true).
  { apply ol_levels_ok_forall. intros l s HI. simpl in HI. unfold write_ip in HI. apply in_map_iff in HI.
    destruct HI as [e [HE HI]]. inversion HE; subst. apply (HG e HI). }
  assert (H2 : levels_ok guesser_max_level (f_ep (write T)) = true).
  { apply ol_levels_ok_forall. intros l s HI. simpl in HI. unfold write_ep in HI. apply in_map_iff in HI.
    destruct HI as [e [HE HI]]. inversion HE; subst. apply (HG e HI). }
  assert (H3 : levels_ok guesser_max_level (f_cp (write T)) = true).
  { apply ol_levels_ok_forall. intros l s HI. simpl in HI. unfold write_cp in HI. apply in_flat_map in HI.
    destruct HI as [e [HE HI]]. apply ol_in_entry_lines in HI. destruct HI as [c [HI _]].
    destruct (HG e HE) as (_ & _ & H). apply (H c l HI). }
  assert (H4 : forallb (fun l => Nat.leb l guesser_max_level) (f_ln (write T)) = true).
  { apply forallb_forall. intros l HI. apply Nat.leb_le. apply HLn. exact HI. }
  rewrite H1, H2, H3, H4. reflexivity.
Qed.

Lemma ol_trans_level_cons : forall G n1 c r,
  trans_level G n1 (c :: r) =
  if Nat.leb (length (c :: r)) n1 then Some 0
  else oadd (cp_level G (firstn (S n1) (c :: r))) (trans_level G n1 r).
Proof. reflexivity. Qed.

Lemma ol_trans_level_gview : forall T n1 s, NoDup (map te_key (tt_grammar T)) ->
  trans_level (gview T) n1 s = t_trans T n1 s.
Proof.
  intros T n1 s ND. induction s as [|c r IH]; [reflexivity|].
  rewrite ol_trans_level_cons, ol_t_trans_cons.
  destruct (Nat.leb (length (c :: r)) n1); [reflexivity|].
  rewrite IH. f_equal. unfold cp_level. simpl og_cp.
  apply ol_t_cp_lines; [apply ol_firstn_nonempty; discriminate | exact ND].
Qed.

Theorem ol_level_of_gview : forall T, wf_ttab T -> forall s, level_of (gview T) s = trainer_level T s.
Proof.
  intros T (Hng & Hmin & Hln & ND & Hk) s. unfold level_of, trainer_level.
  rewrite ol_trans_level_gview by exact ND.
  unfold ip_level. simpl og_ip. unfold write_ip. rewrite ol_first_level_write_ip.
  unfold ln_level. simpl og_ngram. simpl og_ln. rewrite Hmin. fold (t_ip T (firstn (tt_ngram T - 1) s)).
  destruct (Nat.ltb (length s) (tt_ngram T)) eqn:E1; simpl orb; [reflexivity|].
  apply Nat.ltb_ge in E1.
  destruct (Nat.eqb (length s) 0) eqn:E2; [apply Nat.eqb_eq in E2; lia|].
  destruct (Nat.ltb (tt_max_len T) (length s)) eqn:E3; [|reflexivity].
  apply Nat.ltb_lt in E3.
  assert (HN : nth_error (tt_ln T) (length s - 1) = None) by (apply nth_error_None; lia).
  rewrite HN. reflexivity.
Qed.

(* the written directory is well-formed in the sense of OmenSpec *)
Lemma ol_wf_tables_gview : forall T, wf_ttab T -> levels_le guesser_max_level T -> wf_tables (gview T).
Proof.
  intros T (Hng & Hmin & Hln & ND & Hk) [HG HLn]. unfold wf_tables. simpl.
  split; [exact Hng|]. split; [rewrite ol_write_ip_snd; exact ND|].
  split; [apply ol_NoDup_cp_lines; [exact ND | intros e He; apply (Hk e He)]|].
  split; [|split].
  - intros l s HI. unfold write_ip in HI. apply in_map_iff in HI. destruct HI as [e [HE HI]]. inversion HE; subst.
    split; [apply (Hk e HI) | apply (HG e HI)].
  - intros l s HI. unfold write_cp in HI. apply in_flat_map in HI. destruct HI as [e [HE HI]].
    apply ol_in_entry_lines in HI. destruct HI as [c [HI Hs]]. subst s. split.
    + rewrite app_length. simpl. destruct (Hk e HE) as [Hl _]. lia.
    + destruct (HG e HE) as (_ & _ & H). apply (H c l HI).
  - exact HLn.
Qed.

(* ---------- the set-level characterisation of level_strings (C10_set) ---------- *)

(* cost of spelling the characters cs after prefix p *)
Fixpoint walk_level (G : omen) (p : ostr) (cs : ostr) : option nat :=
  match cs with
  | [] => Some 0
  | c :: r => oadd (cp_level G (p ++ [c])) (walk_level G (shift p c) r)
  end.

Lemma ol_in_down_from : forall n L, In L (down_from n) <-> L <= n.
Proof.
  induction n as [|n IH]; intro L; simpl.
  - split; [intros [H|[]]; lia | intro; left; lia].
  - rewrite IH. split; [intros [H|H]; lia | intro H; destruct (Nat.eq_dec L (S n)); [left; lia | right; lia]].
Qed.

Lemma ol_in_levels_down : forall maxl lvl L,
  In L (levels_down maxl lvl) <-> (0 <= lvl)%Z /\ (Z.of_nat L <= lvl)%Z /\ L <= maxl.
Proof.
  intros maxl lvl L. unfold levels_down. destruct (lvl <? 0)%Z eqn:E.
  - apply Z.ltb_lt in E. split; [intros [] | lia].
  - apply Z.ltb_ge in E. rewrite ol_in_down_from. split; intro H; lia.
Qed.

Lemma ol_in_combine_seq : forall {X} (l : list X) b i x,
  In (i, x) (combine (seq b (length l)) l) <-> b <= i /\ nth_error l (i - b) = Some x.
Proof.
  intros X l. induction l as [|y l IH]; intros b i x; simpl.
  - split; [intros [] | intros [_ H]; destruct (i - b); discriminate].
  - rewrite IH. split.
    + intros [H|[H1 H2]].
      * inversion H; subst. rewrite Nat.sub_diag. split; [lia | reflexivity].
      * split; [lia|]. replace (i - b) with (S (i - S b)) by lia. exact H2.
    + intros [H1 H2]. destruct (i - b) as [|n] eqn:E.
      * left. simpl in H2. inversion H2; subst. f_equal. lia.
      * right. split; [lia|]. simpl in H2. replace (i - S b) with n by lia. exact H2.
Qed.

Lemma ol_in_indexed : forall {X} (l : list X) i x, In (i, x) (indexed l) <-> nth_error l i = Some x.
Proof.
  intros X l i x. unfold indexed. rewrite ol_in_combine_seq. rewrite Nat.sub_0_r. split; [intros [_ H]; exact H | intro H; split; [lia | exact H]].
Qed.

(* membership in grammar['cp'][p][l] *)
Lemma ol_in_cp_at : forall G p l c, In c (cp_at G p l) <-> In (l, p ++ [c]) (og_cp G).
Proof.
  intros G p l c. unfold cp_at. rewrite in_map_iff. split.
  - intros [[l' s] [H1 H2]]. apply filter_In in H2. destruct H2 as [H2 H3].
    unfold cp_line_matches in H3. simpl in *. apply andb_true_iff in H3. destruct H3 as [H3 H5].
    apply andb_true_iff in H3. destruct H3 as [H3 H4].
    apply Nat.eqb_eq in H3. apply ol_ostr_eqb_eq in H5. subst l' p c.
    destruct s as [|a s]; [discriminate|].
    rewrite (ol_snoc_removelast_last (a :: s) 0%N) by discriminate. exact H2.
  - intro H. exists (l, p ++ [c]). simpl. split; [apply ol_last_snoc|].
    apply filter_In. split; [exact H|]. unfold cp_line_matches. simpl.
    rewrite Nat.eqb_refl, ol_removelast_snoc, ol_ostr_eqb_refl.
    destruct (p ++ [c]) eqn:E; [destruct p; discriminate | reflexivity].
Qed.

Lemma ol_in_ip_at : forall G l ip, In ip (ip_at G l) <-> In (l, ip) (og_ip G).
Proof.
  intros G l ip. unfold ip_at. rewrite in_map_iff. split.
  - intros [[l' s] [H1 H2]]. apply filter_In in H2. destruct H2 as [H2 H3]. simpl in *.
    apply Nat.eqb_eq in H3. subst. exact H2.
  - intro H. exists (l, ip). split; [reflexivity|]. apply filter_In. split; [exact H | simpl; apply Nat.eqb_refl].
Qed.

Lemma ol_in_ln_from : forall ngram ls len l k,
  In k (ln_from ngram len ls l) <->
  exists j, nth_error ls j = Some l /\ ngram <= len + j /\ k = len + j - (ngram - 1).
Proof.
  intros ngram ls. induction ls as [|x r IH]; intros len l k; simpl.
  - split; [intros [] | intros [j [H _]]; destruct j; discriminate].
  - rewrite in_app_iff, IH. split.
    + intros [H|[j [H1 [H2 H3]]]].
      * destruct (Nat.leb ngram len && Nat.eqb x l) eqn:E; [|destruct H].
        apply andb_true_iff in E. destruct E as [E1 E2]. apply Nat.leb_le in E1. apply Nat.eqb_eq in E2.
        destruct H as [H|[]]. exists 0. simpl. subst. split; [reflexivity | split; lia].
      * exists (S j). simpl. split; [exact H1 | split; lia].
    + intros [[|j] [H1 [H2 H3]]]; simpl in H1.
      * left. inversion H1; subst. replace (Nat.leb ngram len) with true by (symmetry; apply Nat.leb_le; lia).
        rewrite Nat.eqb_refl. simpl. left. lia.
      * right. exists j. split; [exact H1 | split; lia].
Qed.

Lemma ol_firstn_exact : forall {X} (x r : list X) n, length x = n -> firstn n (x ++ r) = x.
Proof.
  intros X x r n H. subst n. induction x as [|a x IH]; simpl; [destruct r; reflexivity | f_equal; exact IH].
Qed.

Section SetLevel.
  Variable G : omen.
  Hypothesis WF : wf_tables G.

  Let maxl := og_max_level G.

  Lemma ol_cp_level_iff : forall p c l, cp_level G (p ++ [c]) = Some l <-> In c (cp_at G p l).
  Proof.
    intros p c l. rewrite ol_in_cp_at. unfold cp_level. pose proof WF as W. unfold wf_tables in W. destruct W as (_ & _ & ND & _). split.
    - apply ol_first_level_Some_In.
    - apply ol_first_level_In. exact ND.
  Qed.

  Lemma ol_cp_level_le : forall s l, cp_level G s = Some l -> l <= maxl.
  Proof.
    intros s l H. apply ol_first_level_Some_In in H. pose proof WF as W. unfold wf_tables in W. destruct W as (_ & _ & _ & _ & H5 & _).
    apply (H5 l s H).
  Qed.

  Lemma ol_row_char_cons : forall p L i t,
    tree_chars (cp_at G) ((p, L, i) :: t) = nth i (cp_at G p L) 0%N :: tree_chars (cp_at G) t.
  Proof. reflexivity. Qed.

  Lemma ol_completions_S : forall k p lvl,
    completions G (S k) p lvl =
    flat_map (fun L =>
      flat_map (fun ic => map (cons (p, L, fst ic)) (completions G k (shift p (snd ic)) (lvl - Z.of_nat L)))
               (indexed (cp_at G p L)))
      (levels_down (og_max_level G) lvl).
  Proof. reflexivity. Qed.

  Lemma ol_completions_chars : forall k p lvl cs,
    (exists t, In t (completions G k p lvl) /\ tree_chars (cp_at G) t = cs) <->
    (length cs = k /\ exists c', walk_level G p cs = Some c' /\ lvl = Z.of_nat c').
  Proof.
    induction k as [|k IH]; intros p lvl cs.
    - unfold completions. simpl. split.
      + intros [t [H1 H2]]. destruct (lvl =? 0)%Z eqn:E; [|destruct H1].
        destruct H1 as [H1|[]]. subst t. simpl in H2. subst cs. apply Z.eqb_eq in E.
        split; [reflexivity|]. exists 0. split; [reflexivity | lia].
      + intros [H1 [c' [H2 H3]]]. destruct cs; [|discriminate]. simpl in H2. inversion H2; subst c'.
        subst lvl. exists []. simpl. split; [left; reflexivity | reflexivity].
    - rewrite ol_completions_S. split.
      + intros [t [H1 H2]]. apply in_flat_map in H1. destruct H1 as [L [HL H1]].
        apply in_flat_map in H1. destruct H1 as [[i c] [Hic H1]]. simpl in H1.
        apply in_map_iff in H1. destruct H1 as [t' [Ht Ht']]. subst t.
        rewrite ol_row_char_cons in H2. apply ol_in_indexed in Hic.
        rewrite (nth_error_nth _ _ 0%N Hic) in H2. subst cs.
        apply ol_in_levels_down in HL. destruct HL as (HL0 & HL1 & HL2).
        destruct (proj1 (IH (shift p c) (lvl - Z.of_nat L)%Z (tree_chars (cp_at G) t'))) as [Hlen [c'' [Hw Hz]]].
        { exists t'. split; [exact Ht' | reflexivity]. }
        split; [simpl; f_equal; exact Hlen|].
        exists (L + c''). split; [|lia]. simpl.
        apply nth_error_In in Hic. apply ol_cp_level_iff in Hic. rewrite Hic, Hw. reflexivity.
      + intros [Hlen [c' [Hw Hz]]]. destruct cs as [|c cs]; [discriminate|]. simpl in Hlen. assert (Hlen' : length cs = k) by lia.
        simpl in Hw. destruct (cp_level G (p ++ [c])) as [L|] eqn:EL; [|discriminate].
        destruct (walk_level G (shift p c) cs) as [c''|] eqn:EW; [|discriminate].
        simpl in Hw. inversion Hw; subst c'.
        assert (HLm := ol_cp_level_le _ _ EL).
        apply ol_cp_level_iff in EL. destruct (In_nth_error _ _ EL) as [i Hi].
        destruct (proj2 (IH (shift p c) (lvl - Z.of_nat L)%Z cs)) as [t' [Ht' Hc']].
        { split; [exact Hlen'|]. exists c''. split; [exact EW | lia]. }
        exists ((p, L, i) :: t'). split.
        * apply in_flat_map. exists L. split; [apply ol_in_levels_down; fold maxl in HLm; unfold maxl in HLm; lia|].
          apply in_flat_map. exists (i, c). split; [apply ol_in_indexed; exact Hi|].
          simpl. apply in_map. exact Ht'.
        * rewrite ol_row_char_cons. rewrite (nth_error_nth _ _ 0%N Hi). rewrite Hc'. reflexivity.
  Qed.

  Lemma ol_in_ip_strings : forall k lvl ip s,
    In s (ip_strings (cp_at G) (og_max_level G) k lvl ip) <->
    exists cs, s = ip ++ cs /\ length cs = k /\ exists c', walk_level G ip cs = Some c' /\ lvl = Z.of_nat c'.
  Proof.
    intros k lvl ip s. unfold ip_strings. rewrite in_map_iff. split.
    - intros [t [H1 H2]]. exists (tree_chars (cp_at G) t). split; [symmetry; exact H1|].
      apply ol_completions_chars. exists t. split; [exact H2 | reflexivity].
    - intros [cs [H1 H2]]. apply ol_completions_chars in H2. destruct H2 as [t [H2 H3]].
      exists t. split; [rewrite H3; symmetry; exact H1 | exact H2].
  Qed.

  (* the n-gram windows of ip ++ cs are exactly the steps of the walk *)
  Lemma ol_trans_walk : forall n1 cs ip, 1 <= n1 -> length ip = n1 ->
    trans_level G n1 (ip ++ cs) = walk_level G ip cs.
  Proof.
    intros n1 cs. induction cs as [|c r IH]; intros ip Hn Hl.
    - rewrite app_nil_r. simpl. destruct ip as [|a ip]; [reflexivity|].
      rewrite ol_trans_level_cons. replace (Nat.leb (length (a :: ip)) n1) with true; [reflexivity|].
      symmetry. apply Nat.leb_le. lia.
    - destruct ip as [|a ip]; [simpl in Hl; lia|].
      change ((a :: ip) ++ c :: r) with (a :: (ip ++ c :: r)).
      rewrite ol_trans_level_cons.
      replace (Nat.leb (length (a :: ip ++ c :: r)) n1) with false.
      2:{ symmetry. apply Nat.leb_gt. simpl. rewrite app_length. simpl in *. lia. }
      simpl walk_level. f_equal.
      + f_equal. change (a :: ip ++ c :: r) with ((a :: ip) ++ c :: r).
        replace ((a :: ip) ++ c :: r) with (((a :: ip) ++ [c]) ++ r) by (rewrite <- app_assoc; reflexivity).
        apply ol_firstn_exact. simpl. rewrite app_length. simpl in *. lia.
      + replace (ip ++ c :: r) with (shift (a :: ip) c ++ r) by (unfold shift; simpl; rewrite <- app_assoc; reflexivity).
        apply IH; [exact Hn|]. unfold shift. simpl. rewrite app_length. simpl in *. lia.
  Qed.

  Lemma ol_in_all_levels : forall L, In L (all_levels (og_max_level G)) <-> L <= og_max_level G.
  Proof. intro L. unfold all_levels. rewrite in_seq. lia. Qed.

  Lemma ol_in_level_strings : forall T s,
    In s (level_strings G T) <->
    exists Ll k Li ip, Ll <= og_max_level G /\ In k (ln_at G Ll) /\ Li <= og_max_level G /\ In ip (ip_at G Li) /\
      In s (ip_strings (cp_at G) (og_max_level G) k (T - Z.of_nat Ll - Z.of_nat Li) ip).
  Proof.
    intros T s. unfold level_strings, level_strings_f. rewrite in_flat_map. split.
    - intros [Ll [H1 H2]]. apply in_flat_map in H2. destruct H2 as [k [H2 H3]].
      apply in_flat_map in H3. destruct H3 as [Li [H3 H4]]. apply in_flat_map in H4. destruct H4 as [ip [H4 H5]].
      exists Ll, k, Li, ip. rewrite ol_in_all_levels in H1, H3. repeat split; assumption.
    - intros (Ll & k & Li & ip & H1 & H2 & H3 & H4 & H5). exists Ll. split; [apply ol_in_all_levels; exact H1|].
      apply in_flat_map. exists k. split; [exact H2|]. apply in_flat_map. exists Li. split; [apply ol_in_all_levels; exact H3|].
      apply in_flat_map. exists ip. split; assumption.
  Qed.

  Theorem ol_level_strings_iff : forall s L,
    In s (level_strings G (Z.of_nat L)) <-> level_of G s = Some L.
  Proof.
    intros s L. pose proof WF as W. unfold wf_tables in W. destruct W as (Hng & NDip & NDcp & Hip & Hcp & Hln).
    set (n1 := og_ngram G - 1).
    rewrite ol_in_level_strings. split.
    - intros (Ll & k & Li & ip & H1 & H2 & H3 & H4 & H5).
      apply ol_in_ip_strings in H5. destruct H5 as (cs & Hs & Hk & c' & Hw & Hz).
      unfold ln_at in H2. apply ol_in_ln_from in H2. destruct H2 as (j & Hj1 & Hj2 & Hj3).
      apply ol_in_ip_at in H4. destruct (Hip _ _ H4) as [Hipl _].
      assert (Hlen : length s = S j) by (subst s; rewrite app_length; lia).
      unfold level_of. fold n1.
      assert (E1 : ln_level G (length s) = Some Ll).
      { unfold ln_level. rewrite Hlen. replace (Nat.ltb (S j) (og_ngram G)) with false by (symmetry; apply Nat.ltb_ge; lia).
        simpl. rewrite Nat.sub_0_r. exact Hj1. }
      assert (E2 : ip_level G (firstn n1 s) = Some Li).
      { subst s. rewrite firstn_app. replace (n1 - length ip) with 0 by (unfold n1; lia). simpl. rewrite app_nil_r.
        rewrite firstn_all2 by (unfold n1; lia). unfold ip_level. apply ol_first_level_In; assumption. }
      assert (E3 : trans_level G n1 s = Some c').
      { subst s. rewrite ol_trans_walk; [exact Hw | unfold n1; lia | unfold n1; lia]. }
      rewrite E1, E2, E3. simpl. f_equal. lia.
    - intro H. unfold level_of in H. fold n1 in H.
      destruct (ln_level G (length s)) as [Ll|] eqn:E1; [|discriminate].
      destruct (ip_level G (firstn n1 s)) as [Li|] eqn:E2; [|discriminate].
      destruct (trans_level G n1 s) as [c'|] eqn:E3; [|discriminate].
      simpl in H. inversion H as [HL].
      unfold ln_level in E1.
      destruct (Nat.ltb (length s) (og_ngram G)) eqn:E4; [discriminate|]. apply Nat.ltb_ge in E4.
      destruct (Nat.eqb (length s) 0) eqn:E5; [discriminate|]. simpl in E1.
      unfold ip_level in E2. apply ol_first_level_Some_In in E2.
      destruct (Hip _ _ E2) as [Hipl HLi].
      assert (HLl : Ll <= og_max_level G) by (apply Hln; eapply nth_error_In; exact E1).
      exists Ll, (length s - n1), Li, (firstn n1 s).
      split; [exact HLl|]. split.
      { unfold ln_at. apply ol_in_ln_from. exists (length s - 1). split; [exact E1|]. unfold n1. split; lia. }
      split; [exact HLi|]. split; [apply ol_in_ip_at; exact E2|].
      apply ol_in_ip_strings. exists (skipn n1 s). split; [symmetry; apply firstn_skipn|].
      split; [apply skipn_length|]. exists c'. split; [|lia].
      rewrite <- E3. rewrite <- (ol_trans_walk n1 (skipn n1 s) (firstn n1 s)); [rewrite firstn_skipn; reflexivity | unfold n1; lia | exact Hipl].
  Qed.

  (* a level that is not a natural number has no strings *)
  Lemma ol_level_strings_neg : forall T s, In s (level_strings G T) -> (0 <= T)%Z.
  Proof.
    intros T s H. apply ol_in_level_strings in H. destruct H as (Ll & k & Li & ip & _ & _ & _ & _ & H5).
    apply ol_in_ip_strings in H5. destruct H5 as (cs & _ & _ & c' & _ & Hz). lia.
  Qed.
End SetLevel.

(* ---------- C11_guesser_iff ---------- *)
Theorem ol_guesser_iff : forall T, wf_ttab T -> levels_le guesser_max_level T ->
  exists G, load_g (write T) = Some G /\ wf_tables G /\
  forall s L, In s (level_strings G (Z.of_nat L)) <-> trainer_level T s = Some L.
Proof.
  intros T WF HL. exists (gview T). split; [apply ol_load_g_write; exact HL|].
  split; [apply ol_wf_tables_gview; assumption|].
  intros s L. rewrite ol_level_strings_iff by (apply ol_wf_tables_gview; assumption).
  rewrite ol_level_of_gview by exact WF. reflexivity.
Qed.

(* all three at once *)
Theorem ol_three_way : forall T, wf_ttab T -> levels_le guesser_max_level T ->
  forall s L,
    (trainer_level T s = Some L <-> scorer_level (load_s (write T)) s = Some L) /\
    (trainer_level T s = Some L <-> In s (level_strings (gview T) (Z.of_nat L))).
Proof.
  intros T WF HL s L. split.
  - rewrite ol_scorer_eq_trainer by exact WF. reflexivity.
  - rewrite ol_level_strings_iff by (apply ol_wf_tables_gview; assumption).
    rewrite ol_level_of_gview by exact WF. reflexivity.
Qed.

(* ---------- C11_counts ---------- *)
Lemma ol_olevel_eqb_eq : forall a b, olevel_eqb a b = true <-> a = b.
Proof.
  intros [a|] [b|]; simpl; split; intro H; try discriminate; try reflexivity.
  - apply Nat.eqb_eq in H. congruence.
  - inversion H. apply Nat.eqb_refl.
Qed.

Lemma ol_olevel_eqb_sym : forall a b, olevel_eqb a b = olevel_eqb b a.
Proof. intros [a|] [b|]; simpl; try reflexivity. apply Nat.eqb_sym. Qed.

Lemma ol_olevel_eqb_trans_l : forall a b c, olevel_eqb a b = true -> olevel_eqb a c = olevel_eqb b c.
Proof. intros a b c H. apply ol_olevel_eqb_eq in H. subst. reflexivity. Qed.

Lemma ol_count_at_tally_add : forall k c k',
  count_at (tally_add k c) k' = if olevel_eqb k k' then S (count_at c k') else count_at c k'.
Proof.
  intros k c k'. unfold count_at. induction c as [|[k0 n] r IH]; simpl.
  - destruct (olevel_eqb k k'); reflexivity.
  - destruct (olevel_eqb k0 k) eqn:E; simpl.
    + rewrite (ol_olevel_eqb_trans_l _ _ k' E). destruct (olevel_eqb k k'); reflexivity.
    + destruct (olevel_eqb k0 k') eqn:E2; simpl.
      * destruct (olevel_eqb k k') eqn:E3; [|reflexivity].
        apply ol_olevel_eqb_eq in E2, E3. subst. rewrite (proj2 (ol_olevel_eqb_eq k' k') eq_refl) in E. discriminate.
      * exact IH.
Qed.

Lemma ol_count_fold : forall (f : ostr -> option nat) pws c k,
  count_at (fold_left (fun c pw => tally_add (f pw) c) pws c) k =
  count_at c k + length (filter (fun pw => olevel_eqb (f pw) k) pws).
Proof.
  intros f pws. induction pws as [|pw r IH]; intros c k; simpl; [lia|].
  rewrite IH, ol_count_at_tally_add. destruct (olevel_eqb (f pw) k); simpl; lia.
Qed.

Theorem ol_counts : forall T pws k,
  count_at (levels_count T pws) k = length (filter (fun pw => olevel_eqb (trainer_level T pw) k) pws).
Proof. intros. unfold levels_count. rewrite ol_count_fold. reflexivity. Qed.

Lemma ol_existsb_In : forall s l, existsb (ostr_eqb s) l = true <-> In s l.
Proof.
  intros s l. rewrite existsb_exists. split.
  - intros [x [H1 H2]]. apply ol_ostr_eqb_eq in H2. subst. exact H1.
  - intro H. exists s. split; [exact H | apply ol_ostr_eqb_refl].
Qed.

Lemma ol_filter_ext_length : forall {X} (f g : X -> bool) l, (forall x, f x = g x) -> length (filter f l) = length (filter g l).
Proof. intros X f g l H. induction l as [|x l IH]; simpl; [reflexivity|]. rewrite H. destruct (g x); simpl; congruence. Qed.

(* the saved per-level counts are the numbers of training passwords the guesser produces at the level *)
Theorem ol_counts_guesser : forall T, wf_ttab T -> levels_le guesser_max_level T -> forall pws L,
  count_at (levels_count T pws) (Some L) =
  length (filter (fun pw => existsb (ostr_eqb pw) (level_strings (gview T) (Z.of_nat L))) pws).
Proof.
  intros T WF HL pws L. rewrite ol_counts. apply ol_filter_ext_length. intro pw.
  destruct (existsb (ostr_eqb pw) (level_strings (gview T) (Z.of_nat L))) eqn:E.
  - apply ol_existsb_In in E. apply ol_three_way in E; try assumption. apply ol_olevel_eqb_eq. exact E.
  - destruct (olevel_eqb (trainer_level T pw) (Some L)) eqn:E2; [|reflexivity].
    apply ol_olevel_eqb_eq in E2. apply (ol_three_way T WF HL) in E2. apply ol_existsb_In in E2. congruence.
Qed.

(* ---------- NoDup (level_strings G T) ---------- *)

Lemma ol_NoDup_filter : forall {X} (f : X -> bool) l, NoDup l -> NoDup (filter f l).
Proof. intros. apply NoDup_filter. assumption. Qed.

Lemma ol_NoDup_down_from : forall n, NoDup (down_from n).
Proof.
  induction n as [|n IH]; simpl.
  - constructor; [intros [] | constructor].
  - constructor; [|exact IH]. intro H. apply ol_in_down_from in H. lia.
Qed.

Lemma ol_NoDup_levels_down : forall m z, NoDup (levels_down m z).
Proof. intros. unfold levels_down. destruct (z <? 0)%Z; [constructor | apply ol_NoDup_down_from]. Qed.

Lemma ol_NoDup_indexed : forall {X} (l : list X), NoDup (indexed l).
Proof.
  intros X l. unfold indexed. apply (NoDup_map_inv fst).
  assert (H : forall (b : nat) (l : list X), map fst (combine (seq b (length l)) l) = seq b (length l)).
  { intros b l0. revert b. induction l0 as [|x l0 IH]; intro b; simpl; [reflexivity | f_equal; apply IH]. }
  rewrite H. apply seq_NoDup.
Qed.

Lemma ol_snd_functional : forall (l : list (nat * ostr)) a b s,
  NoDup (map snd l) -> In (a, s) l -> In (b, s) l -> a = b.
Proof.
  intros l a b s ND H1 H2. apply (ol_first_level_In s l a ND) in H1. apply (ol_first_level_In s l b ND) in H2. congruence.
Qed.

Lemma ol_NoDup_ln_from : forall ngram ls len l, NoDup (ln_from ngram len ls l).
Proof.
  intros ngram ls. induction ls as [|x r IH]; intros len l; simpl; [constructor|].
  destruct (Nat.leb ngram len && Nat.eqb x l) eqn:E; simpl; [|apply IH].
  constructor; [|apply IH]. intro H. apply ol_in_ln_from in H. destruct H as (j & _ & H2 & H3).
  apply andb_true_iff in E. destruct E as [E _]. apply Nat.leb_le in E. lia.
Qed.

Section NoDupLevel.
  Variable G : omen.
  Hypothesis WF : wf_tables G.

  Lemma ol_NoDup_ip_at : forall l, NoDup (ip_at G l).
  Proof.
    intro l. unfold ip_at. pose proof WF as W. unfold wf_tables in W. destruct W as (_ & ND & _).
    generalize ND. generalize (og_ip G). induction l0 as [|[a s] r IH]; simpl; intro H; [constructor|].
    inversion H as [|? ? Hn H']; subst. destruct (Nat.eqb a l); simpl; [|apply IH; exact H'].
    constructor; [|apply IH; exact H']. intro HI. apply Hn. apply in_map_iff in HI. destruct HI as [[a' s'] [E HI]].
    simpl in E. subst s'. apply filter_In in HI. destruct HI as [HI _]. apply in_map_iff. exists (a', s). split; [reflexivity | exact HI].
  Qed.

  Lemma ol_NoDup_cp_at : forall p l, NoDup (cp_at G p l).
  Proof.
    intros p l. unfold cp_at. pose proof WF as W. unfold wf_tables in W. destruct W as (_ & _ & ND & _).
    generalize ND. generalize (og_cp G). induction l0 as [|[a s] r IH]; simpl; intro H; [constructor|].
    inversion H as [|? ? Hn H']; subst. destruct (cp_line_matches p l (a, s)) eqn:E; simpl; [|apply IH; exact H'].
    constructor; [|apply IH; exact H']. intro HI. apply Hn. apply in_map_iff in HI. destruct HI as [[a' s'] [E2 HI]].
    simpl in E2. apply filter_In in HI. destruct HI as [HI E3].
    apply in_map_iff. exists (a', s'). split; [|exact HI]. simpl.
    unfold cp_line_matches in E, E3. simpl in E, E3.
    apply andb_true_iff in E. destruct E as [E E5]. apply andb_true_iff in E. destruct E as [_ E4].
    apply andb_true_iff in E3. destruct E3 as [E3 E7]. apply andb_true_iff in E3. destruct E3 as [_ E6].
    apply ol_ostr_eqb_eq in E5, E7.
    destruct s as [|x s]; [discriminate|]. destruct s' as [|x' s']; [discriminate|].
    rewrite <- (ol_snoc_removelast_last (x :: s) 0%N) by discriminate.
    rewrite <- (ol_snoc_removelast_last (x' :: s') 0%N) by discriminate.
    rewrite E5, E7, E2. reflexivity.
  Qed.

  Lemma ol_cp_at_level_unique : forall p c L L', In c (cp_at G p L) -> In c (cp_at G p L') -> L = L'.
  Proof.
    intros p c L L' H1 H2. apply (ol_cp_level_iff G WF) in H1. apply (ol_cp_level_iff G WF) in H2. congruence.
  Qed.

  Lemma ol_in_completions_S : forall k p lvl t,
    In t (completions G (S k) p lvl) <->
    exists L i c t', t = (p, L, i) :: t' /\ In L (levels_down (og_max_level G) lvl) /\
      nth_error (cp_at G p L) i = Some c /\ In t' (completions G k (shift p c) (lvl - Z.of_nat L)).
  Proof.
    intros k p lvl t. rewrite ol_completions_S, in_flat_map. split.
    - intros [L [HL H]]. apply in_flat_map in H. destruct H as [[i c] [Hic H]]. apply in_map_iff in H.
      destruct H as [t' [E H]]. simpl in *. exists L, i, c, t'. apply ol_in_indexed in Hic. repeat split; auto.
    - intros (L & i & c & t' & E & HL & Hic & H). exists L. split; [exact HL|]. apply in_flat_map.
      exists (i, c). split; [apply ol_in_indexed; exact Hic|]. simpl. subst t. apply in_map. exact H.
  Qed.

  Lemma ol_NoDup_completions : forall k p lvl, NoDup (completions G k p lvl).
  Proof.
    induction k as [|k IH]; intros p lvl.
    - unfold completions. simpl. destruct (lvl =? 0)%Z; [constructor; [intros [] | constructor] | constructor].
    - rewrite ol_completions_S. apply ol_NoDup_flat_map.
      + apply ol_NoDup_levels_down.
      + intros L _. apply ol_NoDup_flat_map.
        * apply ol_NoDup_indexed.
        * intros [i c] _. simpl. apply ol_NoDup_map_inj; [apply IH|]. intros x x' _ _ E. inversion E. reflexivity.
        * intros [i c] [i' c'] t Hic Hic' H1 H2. simpl in *. apply in_map_iff in H1, H2.
          destruct H1 as [t1 [E1 _]]. destruct H2 as [t2 [E2 _]]. subst t. inversion E2; subst.
          apply ol_in_indexed in Hic, Hic'. congruence.
      + intros L L' t _ _ H1 H2. apply in_flat_map in H1, H2. destruct H1 as [[i c] [_ H1]]. destruct H2 as [[i' c'] [_ H2]].
        simpl in *. apply in_map_iff in H1, H2. destruct H1 as [t1 [E1 _]]. destruct H2 as [t2 [E2 _]]. subst t. inversion E2. reflexivity.
  Qed.

  Lemma ol_tree_chars_inj : forall k p lvl t t',
    In t (completions G k p lvl) -> In t' (completions G k p lvl) ->
    tree_chars (cp_at G) t = tree_chars (cp_at G) t' -> t = t'.
  Proof.
    induction k as [|k IH]; intros p lvl t t' H1 H2 E.
    - unfold completions in *. simpl in *. destruct (lvl =? 0)%Z; [|destruct H1].
      destruct H1 as [H1|[]]. destruct H2 as [H2|[]]. congruence.
    - apply ol_in_completions_S in H1, H2.
      destruct H1 as (L & i & c & t1 & E1 & HL & Hic & H1). destruct H2 as (L' & i' & c' & t2 & E2 & HL' & Hic' & H2).
      subst t t'. rewrite !ol_row_char_cons in E.
      rewrite (nth_error_nth _ _ 0%N Hic), (nth_error_nth _ _ 0%N Hic') in E. inversion E as [[Ec Et]]. subst c'.
      assert (L = L') by (eapply ol_cp_at_level_unique; eapply nth_error_In; eassumption). subst L'.
      assert (i = i').
      { apply (proj1 (NoDup_nth_error (cp_at G p L)) (ol_NoDup_cp_at p L)); [|congruence].
        apply nth_error_Some. rewrite Hic. discriminate. }
      subst i'. f_equal. apply (IH _ _ _ _ H1 H2 Et).
  Qed.

  Lemma ol_NoDup_ip_strings : forall k lvl ip, NoDup (ip_strings (cp_at G) (og_max_level G) k lvl ip).
  Proof.
    intros k lvl ip. unfold ip_strings. apply ol_NoDup_map_inj; [apply (ol_NoDup_completions k ip lvl)|].
    intros t t' H1 H2 E. apply app_inv_head in E. apply (ol_tree_chars_inj k ip lvl); assumption.
  Qed.

  (* what a member of ip_strings determines *)
  Lemma ol_ip_strings_shape : forall k lvl Li ip s,
    In ip (ip_at G Li) -> In s (ip_strings (cp_at G) (og_max_level G) k lvl ip) ->
    length s = (og_ngram G - 1) + k /\ firstn (og_ngram G - 1) s = ip.
  Proof.
    intros k lvl Li ip s H1 H2. apply (ol_in_ip_strings G WF) in H2. destruct H2 as (cs & Es & Hk & _).
    apply ol_in_ip_at in H1. pose proof WF as W. unfold wf_tables in W. destruct W as (_ & _ & _ & Hip & _).
    destruct (Hip _ _ H1) as [Hl _]. subst s. split; [rewrite app_length; lia | apply ol_firstn_exact; exact Hl].
  Qed.

  Theorem ol_NoDup_level_strings : forall T, NoDup (level_strings G T).
  Proof.
    intro T. pose proof WF as W. unfold wf_tables in W. destruct W as (Hng & NDip & NDcp & Hip & Hcp & Hln).
    unfold level_strings, level_strings_f.
    (* what an element of the innermost lists determines *)
    assert (Inner : forall Ll k Li s,
      In k (ln_at G Ll) ->
      In s (flat_map (ip_strings (cp_at G) (og_max_level G) k (T - Z.of_nat Ll - Z.of_nat Li)) (ip_at G Li)) ->
      length s = (og_ngram G - 1) + k /\ In (Li, firstn (og_ngram G - 1) s) (og_ip G) /\
      nth_error (og_ln G) (length s - 1) = Some Ll).
    { intros Ll k Li s Hk Hs. apply in_flat_map in Hs. destruct Hs as [ip [Hip1 Hs]].
      destruct (ol_ip_strings_shape _ _ _ _ _ Hip1 Hs) as [Hlen Hf]. split; [exact Hlen|]. split.
      - rewrite Hf. apply ol_in_ip_at. exact Hip1.
      - unfold ln_at in Hk. apply ol_in_ln_from in Hk. destruct Hk as (j & Hj1 & Hj2 & Hj3).
        replace (length s - 1) with j by lia. exact Hj1. }
    apply ol_NoDup_flat_map.
    - apply seq_NoDup.
    - intros Ll _. apply ol_NoDup_flat_map.
      + apply ol_NoDup_ln_from.
      + intros k Hk. apply ol_NoDup_flat_map.
        * apply seq_NoDup.
        * intros Li _. apply ol_NoDup_flat_map.
          -- apply ol_NoDup_ip_at.
          -- intros ip _. apply ol_NoDup_ip_strings.
          -- intros ip ip' s H1 H2 H3 H4.
             destruct (ol_ip_strings_shape _ _ _ _ _ H1 H3) as [_ E1].
             destruct (ol_ip_strings_shape _ _ _ _ _ H2 H4) as [_ E2]. congruence.
        * intros Li Li' s _ _ H1 H2.
          destruct (Inner _ _ _ _ Hk H1) as (_ & E1 & _). destruct (Inner _ _ _ _ Hk H2) as (_ & E2 & _).
          apply (ol_snd_functional _ _ _ _ NDip E1 E2).
      + intros k k' s Hk Hk' H1 H2. apply in_flat_map in H1, H2.
        destruct H1 as [Li [_ H1]]. destruct H2 as [Li' [_ H2]].
        destruct (Inner _ _ _ _ Hk H1) as (E1 & _). destruct (Inner _ _ _ _ Hk' H2) as (E2 & _). lia.
    - intros Ll Ll' s _ _ H1 H2. apply in_flat_map in H1, H2.
      destruct H1 as [k [Hk H1]]. destruct H2 as [k' [Hk' H2]].
      apply in_flat_map in H1, H2. destruct H1 as [Li [_ H1]]. destruct H2 as [Li' [_ H2]].
      destruct (Inner _ _ _ _ Hk H1) as (_ & _ & E1). destruct (Inner _ _ _ _ Hk' H2) as (_ & _ & E2). congruence.
  Qed.
End NoDupLevel.

(* ---------- boolean checks are sound ---------- *)
Lemma ol_nodupb_sound : forall l, nodupb l = true -> NoDup l.
Proof.
  induction l as [|x r IH]; simpl; intro H; [constructor|].
  apply andb_true_iff in H. destruct H as [H1 H2]. constructor; [|apply IH; exact H2].
  intro HI. apply ol_existsb_In in HI. rewrite HI in H1. discriminate.
Qed.

Lemma ol_nodupN_sound : forall l, nodupN l = true -> NoDup l.
Proof.
  induction l as [|x r IH]; simpl; intro H; [constructor|].
  apply andb_true_iff in H. destruct H as [H1 H2]. constructor; [|apply IH; exact H2].
  intro HI. assert (E : existsb (N.eqb x) r = true) by (apply existsb_exists; exists x; split; [exact HI | apply N.eqb_refl]).
  rewrite E in H1. discriminate.
Qed.

Lemma ol_wf_ttabb_sound : forall T, wf_ttabb T = true -> wf_ttab T.
Proof.
  intros T H. unfold wf_ttabb in H. repeat (apply andb_true_iff in H; destruct H as [H ?]).
  apply Nat.leb_le in H. apply Nat.eqb_eq in H3, H2. apply ol_nodupb_sound in H1.
  split; [exact H|]. split; [exact H3|]. split; [exact H2|]. split; [exact H1|].
  intros e He. rewrite forallb_forall in H0. specialize (H0 e He). apply andb_true_iff in H0. destruct H0 as [A B].
  apply Nat.eqb_eq in A. apply ol_nodupN_sound in B. split; assumption.
Qed.

Lemma ol_levels_leb_sound : forall m T, levels_leb m T = true -> levels_le m T.
Proof.
  intros m T H. unfold levels_leb in H. apply andb_true_iff in H. destruct H as [H1 H2].
  rewrite forallb_forall in H1, H2. split.
  - intros e He. specialize (H1 e He). apply andb_true_iff in H1. destruct H1 as [H1 H3].
    apply andb_true_iff in H1. destruct H1 as [H1 H4]. apply Nat.leb_le in H1, H4. split; [exact H1|]. split; [exact H4|].
    intros c l Hcl. rewrite forallb_forall in H3. specialize (H3 (c, l) Hcl). apply Nat.leb_le in H3. exact H3.
  - intros l Hl. apply Nat.leb_le. apply H2. exact Hl.
Qed.

(* ---------- a small table on which the hypotheses hold and the levels are not all equal ---------- *)
(* n-gram 2, 'a' -> 'b' -> 'a', IP 'a' at level 0, IP 'b' at level 10, length levels [10; 1; 10; 0] *)
Definition T_r9 : ttab :=
  mk_ttab 2 2 4
    [mk_tentry [97%N] 0 0 [(98%N, 0)]; mk_tentry [98%N] 10 0 [(97%N, 0)]]
    [10; 1; 10; 0].

Lemma T_r9_wf : wf_ttab T_r9 /\ levels_le guesser_max_level T_r9.
Proof.
  split; [apply ol_wf_ttabb_sound; vm_compute; reflexivity | apply ol_levels_leb_sound; vm_compute; reflexivity].
Qed.

Example ol_three_way_example :
  wf_ttab T_r9 /\ levels_le guesser_max_level T_r9 /\
  trainer_level T_r9 [97%N; 98%N] = Some 1 /\
  scorer_level (load_s (write T_r9)) [97%N; 98%N] = Some 1 /\
  load_g (write T_r9) = Some (gview T_r9) /\
  level_strings (gview T_r9) 1 = [[97%N; 98%N]] /\
  trainer_level T_r9 [98%N; 97%N; 98%N; 97%N] = Some 10 /\
  trainer_level T_r9 [97%N] = None /\ trainer_level T_r9 [97%N; 97%N] = None /\
  trainer_level T_r9 [97%N; 98%N; 97%N; 98%N; 97%N] = None.
Proof. split; [apply T_r9_wf|]. split; [apply T_r9_wf|]. repeat split; vm_compute; reflexivity. Qed.

(* ---------- line framing: the readers get the written line lists ---------- *)
Lemma ol_has_any_false : forall bad s, has_any bad s = false <-> (forall c, In c s -> ~ In c bad).
Proof.
  intros bad s. unfold has_any. split.
  - intros H c Hc Hb. assert (E : existsb (fun c0 => existsb (N.eqb c0) bad) s = true).
    { apply existsb_exists. exists c. split; [exact Hc|]. apply existsb_exists. exists c. split; [exact Hb | apply N.eqb_refl]. }
    congruence.
  - intro H. apply not_true_is_false. intro E. apply existsb_exists in E. destruct E as [c [Hc E]].
    apply existsb_exists in E. destruct E as [b [Hb E]]. apply N.eqb_eq in E. subst. apply (H b Hc Hb).
Qed.

Lemma ol_lines_clean_true : forall bad ls,
  lines_clean bad ls = true <-> (forall l s, In (l, s) ls -> forall c, In c s -> ~ In c bad).
Proof.
  intros bad ls. unfold lines_clean. rewrite forallb_forall. split.
  - intros H l s HI. apply ol_has_any_false. specialize (H (l, s) HI). simpl in H. apply negb_true_iff in H. exact H.
  - intros H [l s] HI. simpl. apply negb_true_iff. apply ol_has_any_false. apply (H l s HI).
Qed.

Lemma ol_chars_avoidb_sound : forall bad T, chars_avoidb bad T = true -> chars_avoid bad T.
Proof.
  intros bad T H e He. unfold chars_avoidb in H. rewrite forallb_forall in H. specialize (H e He).
  apply andb_true_iff in H. destruct H as [H1 H2]. apply negb_true_iff in H1, H2.
  split; [apply ol_has_any_false; exact H1|]. intros c l Hcl. apply (proj1 (ol_has_any_false bad _) H2 c).
  apply in_map_iff. exists (c, l). split; [reflexivity | exact Hcl].
Qed.

Lemma ol_chars_avoid_sub : forall bad bad' T, (forall c, In c bad' -> In c bad) -> chars_avoid bad T -> chars_avoid bad' T.
Proof.
  intros bad bad' T Hs H e He. destruct (H e He) as [H1 H2]. split.
  - intros c Hc Hb. apply (H1 c Hc). apply Hs. exact Hb.
  - intros c l Hc Hb. apply (H2 c l Hc). apply Hs. exact Hb.
Qed.

Lemma ol_clean_write_ip : forall bad T, chars_avoid bad T -> lines_clean bad (write_ip T) = true.
Proof.
  intros bad T H. apply ol_lines_clean_true. intros l s HI c Hc. unfold write_ip in HI. apply in_map_iff in HI.
  destruct HI as [e [E He]]. inversion E; subst. apply (proj1 (H e He) c Hc).
Qed.

Lemma ol_clean_write_ep : forall bad T, chars_avoid bad T -> lines_clean bad (write_ep T) = true.
Proof.
  intros bad T H. apply ol_lines_clean_true. intros l s HI c Hc. unfold write_ep in HI. apply in_map_iff in HI.
  destruct HI as [e [E He]]. inversion E; subst. apply (proj1 (H e He) c Hc).
Qed.

Lemma ol_clean_write_cp : forall bad T, chars_avoid bad T -> lines_clean bad (write_cp T) = true.
Proof.
  intros bad T H. apply ol_lines_clean_true. intros l s HI c Hc. unfold write_cp in HI. apply in_flat_map in HI.
  destruct HI as [e [He HI]]. apply ol_in_entry_lines in HI. destruct HI as [c' [Hc' Es]]. subst s.
  apply in_app_or in Hc. destruct Hc as [Hc|[Hc|[]]]; [apply (proj1 (H e He) c Hc) | subst; apply (proj2 (H e He) c l Hc')].
Qed.

Theorem ol_read_g_write : forall breaks T, levels_le guesser_max_level T -> chars_avoid (TABc :: breaks) T ->
  read_g breaks (write T) = Some (gview T).
Proof.
  intros breaks T HL HC. unfold read_g. simpl f_ip. simpl f_ep. simpl f_cp.
  rewrite ol_clean_write_ip, ol_clean_write_ep, ol_clean_write_cp by exact HC. simpl. apply ol_load_g_write. exact HL.
Qed.

Theorem ol_read_s_write : forall breaks T, chars_avoid (TABc :: breaks) T ->
  read_s true breaks (write T) = Some (load_s (write T)).
Proof.
  intros breaks T HC. unfold read_s. simpl f_ip. simpl f_cp.
  rewrite ol_clean_write_ip, ol_clean_write_cp by exact HC. reflexivity.
Qed.

(* C11 with the readers' framing made explicit *)
Theorem ol_scorer_reads_and_agrees : forall sbreaks T, wf_ttab T -> chars_avoid (TABc :: sbreaks) T ->
  exists Sc, read_s true sbreaks (write T) = Some Sc /\ forall s, scorer_level Sc s = trainer_level T s.
Proof.
  intros sbreaks T WF HC. exists (load_s (write T)). split; [apply ol_read_s_write; exact HC | apply ol_scorer_eq_trainer; exact WF].
Qed.

Theorem ol_guesser_reads_and_agrees : forall breaks T, wf_ttab T -> levels_le guesser_max_level T ->
  chars_avoid (TABc :: breaks) T ->
  exists G, read_g breaks (write T) = Some G /\ wf_tables G /\
  forall s L, In s (level_strings G (Z.of_nat L)) <-> trainer_level T s = Some L.
Proof.
  intros breaks T WF HL HC. exists (gview T). split; [apply ol_read_g_write; assumption|].
  split; [apply ol_wf_tables_gview; assumption|]. intros s L.
  destruct (ol_three_way T WF HL s L) as [_ H]. symmetry. exact H.
Qed.

(* a table whose characters the trainer admits avoids every line end the trainer rejects *)
Lemma ol_avoid_from_rejected : forall rejected breaks T,
  forallb (fun c => existsb (N.eqb c) rejected) (TABc :: breaks) = true ->
  chars_avoid rejected T -> chars_avoid (TABc :: breaks) T.
Proof.
  intros rejected breaks T H HC. apply (ol_chars_avoid_sub rejected); [|exact HC].
  intros c Hc. rewrite forallb_forall in H. specialize (H c Hc). apply existsb_exists in H.
  destruct H as [x [Hx E]]. apply N.eqb_eq in E. subst. exact Hx.
Qed.

(* ---------- the code as found: U+2029 is admitted by check_valid and ends a line for the guesser ---------- *)
(* trained on the single password b a b U+2029, n-gram 4 *)
Definition T_u2029 : ttab :=
  mk_ttab 4 4 5
    [mk_tentry [98%N; 97%N; 98%N] 0 10 [(8233%N, 0)]; mk_tentry [97%N; 98%N; 8233%N] 10 0 []]
    [10; 10; 10; 0; 10].

Theorem ol_refuted_u2029 :
  wf_ttab T_u2029 /\ levels_le guesser_max_level T_u2029 /\
  trainer_level T_u2029 [98%N; 97%N; 98%N; 8233%N] = Some 0 /\
  (exists Sc, read_s true scorer_breaks (write T_u2029) = Some Sc /\ scorer_level Sc [98%N; 97%N; 98%N; 8233%N] = Some 0) /\
  read_g [10%N; 13%N; 8233%N] (write T_u2029) = None.
Proof.
  split; [apply ol_wf_ttabb_sound; vm_compute; reflexivity|].
  split; [apply ol_levels_leb_sound; vm_compute; reflexivity|].
  split; [vm_compute; reflexivity|]. split; [|vm_compute; reflexivity].
  eexists. split; [vm_compute; reflexivity | vm_compute; reflexivity].
Qed.

(* the scorer reading with another codec than the files were written with: nothing is loaded *)
Theorem ol_refuted_scorer_codec : forall breaks F, read_s false breaks F = None.
Proof. reflexivity. Qed.
