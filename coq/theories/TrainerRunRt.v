(* Runtime of the generated trainer orchestration (gen/TrainerRun_gen.v, written on every run by
   harness/translate_trainer_run.py from the Python text of
     lib_trainer/run_trainer.py            run_trainer (the three passes, what is reset between them,
                                           print_statistics -> save_config_file -> save_omen_rules_to_disk ->
                                           save_pcfg_data; the Markov block is T14's py_run_trainer_markov_block)
     lib_trainer/print_statistics.py       print_statistics (what it does to the parser object)
     lib_trainer/pcfg_password_parser.py   PCFGPasswordParser.__init__ (which counters exist, how they start)
     trainer.py                            parse_command_line, main).
   The translator emits lets, ifs, matches on options, tuples, record projections / updates, calls of the
   collaborators (fields of the records [collab] / [main_collab]) and the combinators below and of WriterRt.v,
   so that the generated text is a line-by-line image of the Python.  Definitions only; the hand-written
   model is TrainerRunModel.v, the lemmas are in TrainerRunProofs.v / TrainerRunGenProofs.v.

   Conventions (see the translator's docstring):
   * Statement sequences are WriterRt.out (Norm / Retn / Exc, `bind`); a function that touches the
     outside world (the training file, the rules directory) is a state transformer over an abstract
     world W ([WM W R A = W -> out R A * W], combinators with the suffix W).  The collaborators say how
     they use the world: a constructor / reader only reads it ([readW]), the save functions change it
     ([callW]); everything else is pure ([call]).
   * Everything run_trainer does not own is a COLLABORATOR: the classes it instantiates, their methods,
     the functions it imports.  A collaborator is a field of [collab]: a function from the values of the
     arguments (in the order of the callee's `def`, defaults filled in from that `def`) to [res] of its
     result; a method that updates its object returns the new object, which the translator binds to
     the same variable (Python objects are mutable: the translator refuses any use of an object that
     another object has captured and that is updated afterwards, and any alias).
   * `for x in obj.read_password(): body` is [for_gen]: the reader yields its whole sequence against the
     world, the body (which may not touch the world or the reader: checked by the translator) is folded
     over it, then the reader's own ending (exhausted / exception) takes effect and obj is the reader
     afterwards (num_passwords ...).  The interleaving of reader and body is not modelled.
   * ints that count passwords are N (as in WriterRt.v), other ints Z; numbers are a Counters.numops;
     strings are code point lists; None-or-str is option ([opt_truthy] is Python's truth test: None,
     False and '' are false); printing is not modelled (print(..) of pure arguments is dropped, and so
     are the variables that only feed prints). *)
From Coq Require Import String Ascii.
From Coq Require Import List NArith ZArith Bool.
From Pcfg Require Import TextFile Counters WriterRt.
Import ListNotations.

(* ---------------------------------------------------------------- control over a world *)

Definition WM (W R A : Type) : Type := W -> out R A * W.

Definition NormW {W R A : Type} (a : A) : WM W R A := fun w => (Norm a, w).
Definition RetnW {W R A : Type} (r : R) : WM W R A := fun w => (Retn r, w).
Definition ExcW {W R A : Type} (e : exn) : WM W R A := fun w => (Exc e, w).

Definition bindW {W R A B : Type} (m : WM W R A) (k : A -> WM W R B) : WM W R B :=
  fun w => match m w with
           | (Norm a, w') => k a w'
           | (Retn r, w') => (Retn r, w')
           | (Exc e, w') => (Exc e, w')
           end.

(* try: body / except Exception [as e]: handler *)
Definition try_exceptW {W R A : Type} (body : WM W R A) (handler : exn -> WM W R A) : WM W R A :=
  fun w => match body w with
           | (Exc e, w') => handler e w'
           | o => o
           end.

Definition run_fnW {W R : Type} (m : WM W R R) : W -> res R * W :=
  fun w => match m w with
           | (Norm a, w') => (Ok a, w')
           | (Retn r, w') => (Ok r, w')
           | (Exc e, w') => (Raise e, w')
           end.

(* a collaborator that changes the world / that only reads it / that does not touch it *)
Definition callW {W R A : Type} (f : W -> res A * W) : WM W R A :=
  fun w => match f w with
           | (Ok a, w') => (Norm a, w')
           | (Raise e, w') => (Exc e, w')
           end.
Definition readW {W R A : Type} (f : W -> res A) : WM W R A := fun w => (call (f w), w).
Definition liftW {W R A : Type} (m : out R A) : WM W R A := fun w => (m, w).

(* for x in obj.read_password(): body
   [g w] = (the passwords the generator yields, how it ends, the reader object afterwards) *)
Definition for_gen {W R X F St : Type} (g : W -> list X * option exn * F) (body : X -> St -> out R St) (s : St)
  : WM W R (F * St) :=
  fun w => let '(xs, ending, f') := g w in
           (bind (for_each xs body s)
                 (fun s' => match ending with None => Norm (f', s') | Some e => Exc e end), w).

(* the Markov block of translate_writer.py returns a bool; run_trainer returns None / True / False *)
Definition ret_some {A : Type} (m : out bool A) : out (option bool) A :=
  match m with
  | Norm a => Norm a
  | Retn b => Retn (Some b)
  | Exc e => Exc e
  end.

(* ---------------------------------------------------------------- values *)

(* `if v:` on a None-or-str (False is represented by None) *)
Definition ostr_truthy (v : option str) : bool :=
  match v with
  | Some (_ :: _) => true
  | _ => false
  end.

(* counter[k] += n on a Counter keyed by ints *)
Fixpoint zcnt_add (k : Z) (n : N) (c : list (Z * N)) : list (Z * N) :=
  match c with
  | [] => [(k, n)]
  | (k', m) :: r => if Z.eqb k k' then (k', (m + n)%N) :: r else (k', m) :: zcnt_add k n r
  end.

(* l[i] on a list: IndexError when out of range *)
Definition list_item {R X : Type} (l : list X) (i : N) : out R X :=
  match nth_error l (N.to_nat i) with
  | Some x => Norm x
  | None => Exc IndexError
  end.

(* Counter.update(other) on Counters of numbers: adds the counts, new keys at the end *)
Fixpoint num_add_key {O : numops} (k : str) (v : num O) (c : counter O) : counter O :=
  match c with
  | [] => [(k, v)]
  | (k', m) :: r => if str_eqb k k' then (k', nadd O m v) :: r else (k', m) :: num_add_key k v r
  end.
Definition cnt_update {O : numops} (c other : counter O) : counter O :=
  fold_left (fun c kv => num_add_key (fst kv) (snd kv) c) other c.

(* a decimal literal m / 10^k (both below 2^53: the quotient is the correctly rounded literal) *)
Definition num_lit {O : numops} (m p10 : N) : num O := ndiv O (nofN O m) (nofN O p10).

(* <= and >= on numbers, from Python's < (total orders only: no NaN reaches a comparison here) *)
Definition nleb (O : numops) (a b : num O) : bool := negb (nltb O b a).

(* ---------------------------------------------------------------- program_info *)

(* the dictionary main() builds and parse_command_line / run_trainer update, as a record: one field per
   key, typed by what the command line can put there *)
Record pinfo (O : numops) := {
  pi_name : str;
  pi_version : str;
  pi_author : str;
  pi_contact : str;
  pi_rule_name : str;
  pi_training_file : option str;
  pi_encoding : option str;
  pi_comments : str;
  pi_save_sensitive : bool;
  pi_prefixcount : bool;
  pi_ngram : Z;
  pi_alphabet_size : Z;
  pi_alphabet : str;
  pi_smoothing : num O;
  pi_coverage : num O;
  pi_max_len : Z;
  pi_multiword : option str
}.
Arguments pi_name {O}. Arguments pi_version {O}. Arguments pi_author {O}. Arguments pi_contact {O}. Arguments pi_rule_name {O}. Arguments pi_training_file {O}. Arguments pi_encoding {O}. Arguments pi_comments {O}. Arguments pi_save_sensitive {O}. Arguments pi_prefixcount {O}. Arguments pi_ngram {O}. Arguments pi_alphabet_size {O}. Arguments pi_alphabet {O}. Arguments pi_smoothing {O}. Arguments pi_coverage {O}. Arguments pi_max_len {O}. Arguments pi_multiword {O}. 
Definition set_pi_name {O : numops} (p : pinfo O) (v : str) : pinfo O :=
  {| pi_name := v; pi_version := pi_version p; pi_author := pi_author p; pi_contact := pi_contact p; pi_rule_name := pi_rule_name p; pi_training_file := pi_training_file p; pi_encoding := pi_encoding p; pi_comments := pi_comments p; pi_save_sensitive := pi_save_sensitive p; pi_prefixcount := pi_prefixcount p; pi_ngram := pi_ngram p; pi_alphabet_size := pi_alphabet_size p; pi_alphabet := pi_alphabet p; pi_smoothing := pi_smoothing p; pi_coverage := pi_coverage p; pi_max_len := pi_max_len p; pi_multiword := pi_multiword p |}.
Definition set_pi_version {O : numops} (p : pinfo O) (v : str) : pinfo O :=
  {| pi_name := pi_name p; pi_version := v; pi_author := pi_author p; pi_contact := pi_contact p; pi_rule_name := pi_rule_name p; pi_training_file := pi_training_file p; pi_encoding := pi_encoding p; pi_comments := pi_comments p; pi_save_sensitive := pi_save_sensitive p; pi_prefixcount := pi_prefixcount p; pi_ngram := pi_ngram p; pi_alphabet_size := pi_alphabet_size p; pi_alphabet := pi_alphabet p; pi_smoothing := pi_smoothing p; pi_coverage := pi_coverage p; pi_max_len := pi_max_len p; pi_multiword := pi_multiword p |}.
Definition set_pi_author {O : numops} (p : pinfo O) (v : str) : pinfo O :=
  {| pi_name := pi_name p; pi_version := pi_version p; pi_author := v; pi_contact := pi_contact p; pi_rule_name := pi_rule_name p; pi_training_file := pi_training_file p; pi_encoding := pi_encoding p; pi_comments := pi_comments p; pi_save_sensitive := pi_save_sensitive p; pi_prefixcount := pi_prefixcount p; pi_ngram := pi_ngram p; pi_alphabet_size := pi_alphabet_size p; pi_alphabet := pi_alphabet p; pi_smoothing := pi_smoothing p; pi_coverage := pi_coverage p; pi_max_len := pi_max_len p; pi_multiword := pi_multiword p |}.
Definition set_pi_contact {O : numops} (p : pinfo O) (v : str) : pinfo O :=
  {| pi_name := pi_name p; pi_version := pi_version p; pi_author := pi_author p; pi_contact := v; pi_rule_name := pi_rule_name p; pi_training_file := pi_training_file p; pi_encoding := pi_encoding p; pi_comments := pi_comments p; pi_save_sensitive := pi_save_sensitive p; pi_prefixcount := pi_prefixcount p; pi_ngram := pi_ngram p; pi_alphabet_size := pi_alphabet_size p; pi_alphabet := pi_alphabet p; pi_smoothing := pi_smoothing p; pi_coverage := pi_coverage p; pi_max_len := pi_max_len p; pi_multiword := pi_multiword p |}.
Definition set_pi_rule_name {O : numops} (p : pinfo O) (v : str) : pinfo O :=
  {| pi_name := pi_name p; pi_version := pi_version p; pi_author := pi_author p; pi_contact := pi_contact p; pi_rule_name := v; pi_training_file := pi_training_file p; pi_encoding := pi_encoding p; pi_comments := pi_comments p; pi_save_sensitive := pi_save_sensitive p; pi_prefixcount := pi_prefixcount p; pi_ngram := pi_ngram p; pi_alphabet_size := pi_alphabet_size p; pi_alphabet := pi_alphabet p; pi_smoothing := pi_smoothing p; pi_coverage := pi_coverage p; pi_max_len := pi_max_len p; pi_multiword := pi_multiword p |}.
Definition set_pi_training_file {O : numops} (p : pinfo O) (v : option str) : pinfo O :=
  {| pi_name := pi_name p; pi_version := pi_version p; pi_author := pi_author p; pi_contact := pi_contact p; pi_rule_name := pi_rule_name p; pi_training_file := v; pi_encoding := pi_encoding p; pi_comments := pi_comments p; pi_save_sensitive := pi_save_sensitive p; pi_prefixcount := pi_prefixcount p; pi_ngram := pi_ngram p; pi_alphabet_size := pi_alphabet_size p; pi_alphabet := pi_alphabet p; pi_smoothing := pi_smoothing p; pi_coverage := pi_coverage p; pi_max_len := pi_max_len p; pi_multiword := pi_multiword p |}.
Definition set_pi_encoding {O : numops} (p : pinfo O) (v : option str) : pinfo O :=
  {| pi_name := pi_name p; pi_version := pi_version p; pi_author := pi_author p; pi_contact := pi_contact p; pi_rule_name := pi_rule_name p; pi_training_file := pi_training_file p; pi_encoding := v; pi_comments := pi_comments p; pi_save_sensitive := pi_save_sensitive p; pi_prefixcount := pi_prefixcount p; pi_ngram := pi_ngram p; pi_alphabet_size := pi_alphabet_size p; pi_alphabet := pi_alphabet p; pi_smoothing := pi_smoothing p; pi_coverage := pi_coverage p; pi_max_len := pi_max_len p; pi_multiword := pi_multiword p |}.
Definition set_pi_comments {O : numops} (p : pinfo O) (v : str) : pinfo O :=
  {| pi_name := pi_name p; pi_version := pi_version p; pi_author := pi_author p; pi_contact := pi_contact p; pi_rule_name := pi_rule_name p; pi_training_file := pi_training_file p; pi_encoding := pi_encoding p; pi_comments := v; pi_save_sensitive := pi_save_sensitive p; pi_prefixcount := pi_prefixcount p; pi_ngram := pi_ngram p; pi_alphabet_size := pi_alphabet_size p; pi_alphabet := pi_alphabet p; pi_smoothing := pi_smoothing p; pi_coverage := pi_coverage p; pi_max_len := pi_max_len p; pi_multiword := pi_multiword p |}.
Definition set_pi_save_sensitive {O : numops} (p : pinfo O) (v : bool) : pinfo O :=
  {| pi_name := pi_name p; pi_version := pi_version p; pi_author := pi_author p; pi_contact := pi_contact p; pi_rule_name := pi_rule_name p; pi_training_file := pi_training_file p; pi_encoding := pi_encoding p; pi_comments := pi_comments p; pi_save_sensitive := v; pi_prefixcount := pi_prefixcount p; pi_ngram := pi_ngram p; pi_alphabet_size := pi_alphabet_size p; pi_alphabet := pi_alphabet p; pi_smoothing := pi_smoothing p; pi_coverage := pi_coverage p; pi_max_len := pi_max_len p; pi_multiword := pi_multiword p |}.
Definition set_pi_prefixcount {O : numops} (p : pinfo O) (v : bool) : pinfo O :=
  {| pi_name := pi_name p; pi_version := pi_version p; pi_author := pi_author p; pi_contact := pi_contact p; pi_rule_name := pi_rule_name p; pi_training_file := pi_training_file p; pi_encoding := pi_encoding p; pi_comments := pi_comments p; pi_save_sensitive := pi_save_sensitive p; pi_prefixcount := v; pi_ngram := pi_ngram p; pi_alphabet_size := pi_alphabet_size p; pi_alphabet := pi_alphabet p; pi_smoothing := pi_smoothing p; pi_coverage := pi_coverage p; pi_max_len := pi_max_len p; pi_multiword := pi_multiword p |}.
Definition set_pi_ngram {O : numops} (p : pinfo O) (v : Z) : pinfo O :=
  {| pi_name := pi_name p; pi_version := pi_version p; pi_author := pi_author p; pi_contact := pi_contact p; pi_rule_name := pi_rule_name p; pi_training_file := pi_training_file p; pi_encoding := pi_encoding p; pi_comments := pi_comments p; pi_save_sensitive := pi_save_sensitive p; pi_prefixcount := pi_prefixcount p; pi_ngram := v; pi_alphabet_size := pi_alphabet_size p; pi_alphabet := pi_alphabet p; pi_smoothing := pi_smoothing p; pi_coverage := pi_coverage p; pi_max_len := pi_max_len p; pi_multiword := pi_multiword p |}.
Definition set_pi_alphabet_size {O : numops} (p : pinfo O) (v : Z) : pinfo O :=
  {| pi_name := pi_name p; pi_version := pi_version p; pi_author := pi_author p; pi_contact := pi_contact p; pi_rule_name := pi_rule_name p; pi_training_file := pi_training_file p; pi_encoding := pi_encoding p; pi_comments := pi_comments p; pi_save_sensitive := pi_save_sensitive p; pi_prefixcount := pi_prefixcount p; pi_ngram := pi_ngram p; pi_alphabet_size := v; pi_alphabet := pi_alphabet p; pi_smoothing := pi_smoothing p; pi_coverage := pi_coverage p; pi_max_len := pi_max_len p; pi_multiword := pi_multiword p |}.
Definition set_pi_alphabet {O : numops} (p : pinfo O) (v : str) : pinfo O :=
  {| pi_name := pi_name p; pi_version := pi_version p; pi_author := pi_author p; pi_contact := pi_contact p; pi_rule_name := pi_rule_name p; pi_training_file := pi_training_file p; pi_encoding := pi_encoding p; pi_comments := pi_comments p; pi_save_sensitive := pi_save_sensitive p; pi_prefixcount := pi_prefixcount p; pi_ngram := pi_ngram p; pi_alphabet_size := pi_alphabet_size p; pi_alphabet := v; pi_smoothing := pi_smoothing p; pi_coverage := pi_coverage p; pi_max_len := pi_max_len p; pi_multiword := pi_multiword p |}.
Definition set_pi_smoothing {O : numops} (p : pinfo O) (v : num O) : pinfo O :=
  {| pi_name := pi_name p; pi_version := pi_version p; pi_author := pi_author p; pi_contact := pi_contact p; pi_rule_name := pi_rule_name p; pi_training_file := pi_training_file p; pi_encoding := pi_encoding p; pi_comments := pi_comments p; pi_save_sensitive := pi_save_sensitive p; pi_prefixcount := pi_prefixcount p; pi_ngram := pi_ngram p; pi_alphabet_size := pi_alphabet_size p; pi_alphabet := pi_alphabet p; pi_smoothing := v; pi_coverage := pi_coverage p; pi_max_len := pi_max_len p; pi_multiword := pi_multiword p |}.
Definition set_pi_coverage {O : numops} (p : pinfo O) (v : num O) : pinfo O :=
  {| pi_name := pi_name p; pi_version := pi_version p; pi_author := pi_author p; pi_contact := pi_contact p; pi_rule_name := pi_rule_name p; pi_training_file := pi_training_file p; pi_encoding := pi_encoding p; pi_comments := pi_comments p; pi_save_sensitive := pi_save_sensitive p; pi_prefixcount := pi_prefixcount p; pi_ngram := pi_ngram p; pi_alphabet_size := pi_alphabet_size p; pi_alphabet := pi_alphabet p; pi_smoothing := pi_smoothing p; pi_coverage := v; pi_max_len := pi_max_len p; pi_multiword := pi_multiword p |}.
Definition set_pi_max_len {O : numops} (p : pinfo O) (v : Z) : pinfo O :=
  {| pi_name := pi_name p; pi_version := pi_version p; pi_author := pi_author p; pi_contact := pi_contact p; pi_rule_name := pi_rule_name p; pi_training_file := pi_training_file p; pi_encoding := pi_encoding p; pi_comments := pi_comments p; pi_save_sensitive := pi_save_sensitive p; pi_prefixcount := pi_prefixcount p; pi_ngram := pi_ngram p; pi_alphabet_size := pi_alphabet_size p; pi_alphabet := pi_alphabet p; pi_smoothing := pi_smoothing p; pi_coverage := pi_coverage p; pi_max_len := v; pi_multiword := pi_multiword p |}.
Definition set_pi_multiword {O : numops} (p : pinfo O) (v : option str) : pinfo O :=
  {| pi_name := pi_name p; pi_version := pi_version p; pi_author := pi_author p; pi_contact := pi_contact p; pi_rule_name := pi_rule_name p; pi_training_file := pi_training_file p; pi_encoding := pi_encoding p; pi_comments := pi_comments p; pi_save_sensitive := pi_save_sensitive p; pi_prefixcount := pi_prefixcount p; pi_ngram := pi_ngram p; pi_alphabet_size := pi_alphabet_size p; pi_alphabet := pi_alphabet p; pi_smoothing := pi_smoothing p; pi_coverage := pi_coverage p; pi_max_len := pi_max_len p; pi_multiword := v |}.

(* ---------------------------------------------------------------- the parser object: field updates *)

Definition set_po_count_keyboard {O : numops} (p : parser_obj O) (v : list (pykey * counter O)) : parser_obj O :=
  {| po_count_keyboard := v; po_count_emails := po_count_emails p; po_count_email_providers := po_count_email_providers p; po_count_website_urls := po_count_website_urls p; po_count_website_hosts := po_count_website_hosts p; po_count_website_prefixes := po_count_website_prefixes p; po_count_years := po_count_years p; po_count_context_sensitive := po_count_context_sensitive p; po_count_alpha := po_count_alpha p; po_count_alpha_masks := po_count_alpha_masks p; po_count_digits := po_count_digits p; po_count_other := po_count_other p; po_count_base_structures := po_count_base_structures p; po_count_raw_base_structures := po_count_raw_base_structures p; po_count_prince := po_count_prince p |}.
Definition set_po_count_emails {O : numops} (p : parser_obj O) (v : counter O) : parser_obj O :=
  {| po_count_keyboard := po_count_keyboard p; po_count_emails := v; po_count_email_providers := po_count_email_providers p; po_count_website_urls := po_count_website_urls p; po_count_website_hosts := po_count_website_hosts p; po_count_website_prefixes := po_count_website_prefixes p; po_count_years := po_count_years p; po_count_context_sensitive := po_count_context_sensitive p; po_count_alpha := po_count_alpha p; po_count_alpha_masks := po_count_alpha_masks p; po_count_digits := po_count_digits p; po_count_other := po_count_other p; po_count_base_structures := po_count_base_structures p; po_count_raw_base_structures := po_count_raw_base_structures p; po_count_prince := po_count_prince p |}.
Definition set_po_count_email_providers {O : numops} (p : parser_obj O) (v : counter O) : parser_obj O :=
  {| po_count_keyboard := po_count_keyboard p; po_count_emails := po_count_emails p; po_count_email_providers := v; po_count_website_urls := po_count_website_urls p; po_count_website_hosts := po_count_website_hosts p; po_count_website_prefixes := po_count_website_prefixes p; po_count_years := po_count_years p; po_count_context_sensitive := po_count_context_sensitive p; po_count_alpha := po_count_alpha p; po_count_alpha_masks := po_count_alpha_masks p; po_count_digits := po_count_digits p; po_count_other := po_count_other p; po_count_base_structures := po_count_base_structures p; po_count_raw_base_structures := po_count_raw_base_structures p; po_count_prince := po_count_prince p |}.
Definition set_po_count_website_urls {O : numops} (p : parser_obj O) (v : counter O) : parser_obj O :=
  {| po_count_keyboard := po_count_keyboard p; po_count_emails := po_count_emails p; po_count_email_providers := po_count_email_providers p; po_count_website_urls := v; po_count_website_hosts := po_count_website_hosts p; po_count_website_prefixes := po_count_website_prefixes p; po_count_years := po_count_years p; po_count_context_sensitive := po_count_context_sensitive p; po_count_alpha := po_count_alpha p; po_count_alpha_masks := po_count_alpha_masks p; po_count_digits := po_count_digits p; po_count_other := po_count_other p; po_count_base_structures := po_count_base_structures p; po_count_raw_base_structures := po_count_raw_base_structures p; po_count_prince := po_count_prince p |}.
Definition set_po_count_website_hosts {O : numops} (p : parser_obj O) (v : counter O) : parser_obj O :=
  {| po_count_keyboard := po_count_keyboard p; po_count_emails := po_count_emails p; po_count_email_providers := po_count_email_providers p; po_count_website_urls := po_count_website_urls p; po_count_website_hosts := v; po_count_website_prefixes := po_count_website_prefixes p; po_count_years := po_count_years p; po_count_context_sensitive := po_count_context_sensitive p; po_count_alpha := po_count_alpha p; po_count_alpha_masks := po_count_alpha_masks p; po_count_digits := po_count_digits p; po_count_other := po_count_other p; po_count_base_structures := po_count_base_structures p; po_count_raw_base_structures := po_count_raw_base_structures p; po_count_prince := po_count_prince p |}.
Definition set_po_count_website_prefixes {O : numops} (p : parser_obj O) (v : counter O) : parser_obj O :=
  {| po_count_keyboard := po_count_keyboard p; po_count_emails := po_count_emails p; po_count_email_providers := po_count_email_providers p; po_count_website_urls := po_count_website_urls p; po_count_website_hosts := po_count_website_hosts p; po_count_website_prefixes := v; po_count_years := po_count_years p; po_count_context_sensitive := po_count_context_sensitive p; po_count_alpha := po_count_alpha p; po_count_alpha_masks := po_count_alpha_masks p; po_count_digits := po_count_digits p; po_count_other := po_count_other p; po_count_base_structures := po_count_base_structures p; po_count_raw_base_structures := po_count_raw_base_structures p; po_count_prince := po_count_prince p |}.
Definition set_po_count_years {O : numops} (p : parser_obj O) (v : counter O) : parser_obj O :=
  {| po_count_keyboard := po_count_keyboard p; po_count_emails := po_count_emails p; po_count_email_providers := po_count_email_providers p; po_count_website_urls := po_count_website_urls p; po_count_website_hosts := po_count_website_hosts p; po_count_website_prefixes := po_count_website_prefixes p; po_count_years := v; po_count_context_sensitive := po_count_context_sensitive p; po_count_alpha := po_count_alpha p; po_count_alpha_masks := po_count_alpha_masks p; po_count_digits := po_count_digits p; po_count_other := po_count_other p; po_count_base_structures := po_count_base_structures p; po_count_raw_base_structures := po_count_raw_base_structures p; po_count_prince := po_count_prince p |}.
Definition set_po_count_context_sensitive {O : numops} (p : parser_obj O) (v : counter O) : parser_obj O :=
  {| po_count_keyboard := po_count_keyboard p; po_count_emails := po_count_emails p; po_count_email_providers := po_count_email_providers p; po_count_website_urls := po_count_website_urls p; po_count_website_hosts := po_count_website_hosts p; po_count_website_prefixes := po_count_website_prefixes p; po_count_years := po_count_years p; po_count_context_sensitive := v; po_count_alpha := po_count_alpha p; po_count_alpha_masks := po_count_alpha_masks p; po_count_digits := po_count_digits p; po_count_other := po_count_other p; po_count_base_structures := po_count_base_structures p; po_count_raw_base_structures := po_count_raw_base_structures p; po_count_prince := po_count_prince p |}.
Definition set_po_count_alpha {O : numops} (p : parser_obj O) (v : list (pykey * counter O)) : parser_obj O :=
  {| po_count_keyboard := po_count_keyboard p; po_count_emails := po_count_emails p; po_count_email_providers := po_count_email_providers p; po_count_website_urls := po_count_website_urls p; po_count_website_hosts := po_count_website_hosts p; po_count_website_prefixes := po_count_website_prefixes p; po_count_years := po_count_years p; po_count_context_sensitive := po_count_context_sensitive p; po_count_alpha := v; po_count_alpha_masks := po_count_alpha_masks p; po_count_digits := po_count_digits p; po_count_other := po_count_other p; po_count_base_structures := po_count_base_structures p; po_count_raw_base_structures := po_count_raw_base_structures p; po_count_prince := po_count_prince p |}.
Definition set_po_count_alpha_masks {O : numops} (p : parser_obj O) (v : list (pykey * counter O)) : parser_obj O :=
  {| po_count_keyboard := po_count_keyboard p; po_count_emails := po_count_emails p; po_count_email_providers := po_count_email_providers p; po_count_website_urls := po_count_website_urls p; po_count_website_hosts := po_count_website_hosts p; po_count_website_prefixes := po_count_website_prefixes p; po_count_years := po_count_years p; po_count_context_sensitive := po_count_context_sensitive p; po_count_alpha := po_count_alpha p; po_count_alpha_masks := v; po_count_digits := po_count_digits p; po_count_other := po_count_other p; po_count_base_structures := po_count_base_structures p; po_count_raw_base_structures := po_count_raw_base_structures p; po_count_prince := po_count_prince p |}.
Definition set_po_count_digits {O : numops} (p : parser_obj O) (v : list (pykey * counter O)) : parser_obj O :=
  {| po_count_keyboard := po_count_keyboard p; po_count_emails := po_count_emails p; po_count_email_providers := po_count_email_providers p; po_count_website_urls := po_count_website_urls p; po_count_website_hosts := po_count_website_hosts p; po_count_website_prefixes := po_count_website_prefixes p; po_count_years := po_count_years p; po_count_context_sensitive := po_count_context_sensitive p; po_count_alpha := po_count_alpha p; po_count_alpha_masks := po_count_alpha_masks p; po_count_digits := v; po_count_other := po_count_other p; po_count_base_structures := po_count_base_structures p; po_count_raw_base_structures := po_count_raw_base_structures p; po_count_prince := po_count_prince p |}.
Definition set_po_count_other {O : numops} (p : parser_obj O) (v : list (pykey * counter O)) : parser_obj O :=
  {| po_count_keyboard := po_count_keyboard p; po_count_emails := po_count_emails p; po_count_email_providers := po_count_email_providers p; po_count_website_urls := po_count_website_urls p; po_count_website_hosts := po_count_website_hosts p; po_count_website_prefixes := po_count_website_prefixes p; po_count_years := po_count_years p; po_count_context_sensitive := po_count_context_sensitive p; po_count_alpha := po_count_alpha p; po_count_alpha_masks := po_count_alpha_masks p; po_count_digits := po_count_digits p; po_count_other := v; po_count_base_structures := po_count_base_structures p; po_count_raw_base_structures := po_count_raw_base_structures p; po_count_prince := po_count_prince p |}.
Definition set_po_count_base_structures {O : numops} (p : parser_obj O) (v : counter O) : parser_obj O :=
  {| po_count_keyboard := po_count_keyboard p; po_count_emails := po_count_emails p; po_count_email_providers := po_count_email_providers p; po_count_website_urls := po_count_website_urls p; po_count_website_hosts := po_count_website_hosts p; po_count_website_prefixes := po_count_website_prefixes p; po_count_years := po_count_years p; po_count_context_sensitive := po_count_context_sensitive p; po_count_alpha := po_count_alpha p; po_count_alpha_masks := po_count_alpha_masks p; po_count_digits := po_count_digits p; po_count_other := po_count_other p; po_count_base_structures := v; po_count_raw_base_structures := po_count_raw_base_structures p; po_count_prince := po_count_prince p |}.
Definition set_po_count_raw_base_structures {O : numops} (p : parser_obj O) (v : counter O) : parser_obj O :=
  {| po_count_keyboard := po_count_keyboard p; po_count_emails := po_count_emails p; po_count_email_providers := po_count_email_providers p; po_count_website_urls := po_count_website_urls p; po_count_website_hosts := po_count_website_hosts p; po_count_website_prefixes := po_count_website_prefixes p; po_count_years := po_count_years p; po_count_context_sensitive := po_count_context_sensitive p; po_count_alpha := po_count_alpha p; po_count_alpha_masks := po_count_alpha_masks p; po_count_digits := po_count_digits p; po_count_other := po_count_other p; po_count_base_structures := po_count_base_structures p; po_count_raw_base_structures := v; po_count_prince := po_count_prince p |}.
Definition set_po_count_prince {O : numops} (p : parser_obj O) (v : counter O) : parser_obj O :=
  {| po_count_keyboard := po_count_keyboard p; po_count_emails := po_count_emails p; po_count_email_providers := po_count_email_providers p; po_count_website_urls := po_count_website_urls p; po_count_website_hosts := po_count_website_hosts p; po_count_website_prefixes := po_count_website_prefixes p; po_count_years := po_count_years p; po_count_context_sensitive := po_count_context_sensitive p; po_count_alpha := po_count_alpha p; po_count_alpha_masks := po_count_alpha_masks p; po_count_digits := po_count_digits p; po_count_other := po_count_other p; po_count_base_structures := po_count_base_structures p; po_count_raw_base_structures := po_count_raw_base_structures p; po_count_prince := v |}.

(* ---------------------------------------------------------------- collaborators of run_trainer *)

Record collab (O : numops) := {
  c_W : Type;      (* the outside world: the files read and written *)
  c_FI : Type;     (* TrainerFileInput *)
  c_AG : Type;     (* omen.AlphabetGenerator *)
  c_MW : Type;     (* MultiWordDetector *)
  c_OT : Type;     (* omen.AlphabetLookup *)
  c_PP : Type;     (* PCFGPasswordParser *)
  c_KS : Type;     (* what calc_omen_keyspace returns *)
  (* constructors, arguments in the order of the `def`, defaults filled in *)
  c_TrainerFileInput : option str -> option str -> bool -> c_W -> res c_FI;   (* filename encoding prefixcount: opens the file *)
  c_AlphabetGenerator : Z -> Z -> res c_AG;                                  (* alphabet_size ngram *)
  c_MultiWordDetector : Z -> Z -> Z -> res c_MW;                             (* threshold min_len max_len *)
  c_AlphabetLookup : str -> Z -> Z -> Z -> res c_OT;                         (* alphabet ngram min_length max_length *)
  c_PCFGPasswordParser : c_MW -> res c_PP;                                   (* keeps the detector *)
  (* the reader *)
  c_read_password : c_FI -> c_W -> list str * option exn * c_FI;
  c_num_passwords : c_FI -> N;
  (* the consumers of the passes *)
  c_process_password : c_AG -> str -> res c_AG;
  c_get_alphabet : c_AG -> res str;
  c_mw_train : c_MW -> str -> bool -> res c_MW;                              (* input_password set_threshold *)
  c_ot_parse : c_OT -> str -> res c_OT;
  c_pp_parse : c_PP -> str -> res c_PP;                                      (* the returned bool is not used *)
  c_apply_smoothing : c_OT -> res c_OT;
  c_calc_omen_keyspace : c_OT -> Z -> Z -> res c_KS;                         (* omen_trainer max_level max_keyspace *)
  c_find_omen_level : c_OT -> str -> res Z;
  c_print_statistics : c_PP -> res c_PP;                                     (* instantiated with py_print_statistics *)
  (* the counters of the parser object as run_trainer (the Markov block) reads and writes them *)
  c_pp_view : c_PP -> parser_obj O;
  c_pp_update : c_PP -> parser_obj O -> c_PP;
  c_ks_counter : c_KS -> counter O;                                          (* only its emptiness is tested *)
  (* the writers *)
  c_save_config_file : path -> pinfo O -> c_FI -> c_PP -> c_W -> res bool * c_W;
  c_save_omen_rules_to_disk : c_OT -> c_KS -> list (Z * N) -> N -> path -> pinfo O -> c_W -> res bool * c_W;
  c_save_pcfg_data : path -> c_PP -> option str -> bool -> c_W -> res bool * c_W
}.
Arguments c_W {O}. Arguments c_FI {O}. Arguments c_AG {O}. Arguments c_MW {O}. Arguments c_OT {O}.
Arguments c_PP {O}. Arguments c_KS {O}.
Arguments c_TrainerFileInput {O}. Arguments c_AlphabetGenerator {O}. Arguments c_MultiWordDetector {O}.
Arguments c_AlphabetLookup {O}. Arguments c_PCFGPasswordParser {O}. Arguments c_read_password {O}.
Arguments c_num_passwords {O}. Arguments c_process_password {O}. Arguments c_get_alphabet {O}.
Arguments c_mw_train {O}. Arguments c_ot_parse {O}. Arguments c_pp_parse {O}. Arguments c_apply_smoothing {O}.
Arguments c_calc_omen_keyspace {O}. Arguments c_find_omen_level {O}. Arguments c_print_statistics {O}.
Arguments c_pp_view {O}. Arguments c_pp_update {O}. Arguments c_ks_counter {O}.
Arguments c_save_config_file {O}. Arguments c_save_omen_rules_to_disk {O}. Arguments c_save_pcfg_data {O}.

(* ---------------------------------------------------------------- the command line *)

(* what parser.parse_args() returns for the options of parse_command_line: one field per option, named
   by argparse's dest (the first long flag) *)
Record cli_args (O : numops) := {
  a_rule : str;
  a_training : option str;
  a_encoding : option str;
  a_comments : str;
  a_save_sensitive : bool;
  a_prefixcount : bool;
  a_ngram : Z;
  a_alphabet : Z;
  a_coverage : num O;
  a_multiword : option str
}.
Arguments a_rule {O}. Arguments a_training {O}. Arguments a_encoding {O}. Arguments a_comments {O}.
Arguments a_save_sensitive {O}. Arguments a_prefixcount {O}. Arguments a_ngram {O}. Arguments a_alphabet {O}.
Arguments a_coverage {O}. Arguments a_multiword {O}.

(* one parser.add_argument(...) *)
Inductive cli_type := TyStr | TyInt | TyFloat.
Inductive cli_action := ActStore | ActStoreTrue.
Inductive cli_default :=
| DNone                      (* no default: None *)
| DInfo (key : string)       (* default = program_info[key] *)
| DBool (b : bool).
Record cli_opt := {
  co_flags : list string;
  co_dest : string;
  co_type : cli_type;
  co_action : cli_action;
  co_required : bool;
  co_default : cli_default;
  co_choices : option (list Z)
}.

(* collaborators of main() *)
Record main_collab (O : numops) := {
  mc_W : Type;
  mc_parse_args : list cli_opt -> mc_W -> res (cli_args O);                  (* argparse on sys.argv; --help exits *)
  mc_detect_file_encoding : option str -> list str -> Z -> mc_W -> res (bool * list str);   (* training_file file_encoding max_passwords: appends to the list *)
  mc_create_rule_folders : path -> mc_W -> res bool * mc_W;
  mc_run_trainer : pinfo O -> path -> mc_W -> res (option bool) * mc_W         (* instantiated with py_run_trainer *)
}.
Arguments mc_W {O}. Arguments mc_parse_args {O}. Arguments mc_detect_file_encoding {O}.
Arguments mc_create_rule_folders {O}. Arguments mc_run_trainer {O}.

(* `if not f(..)` on what run_trainer returns: None (bare return) and False are false *)
Definition ob_truthy (v : option bool) : bool := match v with Some true => true | _ => false end.
