(* TrainerRunGenProofs.v - the translated orchestration of the trainer (gen/TrainerRun_gen.v, written on every
   run from lib_trainer/run_trainer.py, print_statistics.py, pcfg_password_parser.py and trainer.py) IS the
   hand-written model of TrainerRunModel.v, for every instantiation of the collaborators. *)
From Coq Require Import String Ascii.
From Coq Require Import List NArith ZArith Bool.
From Pcfg Require Import TextFile Counters WriterRt WriterSpec WriterGenProofsStruct TrainerRunRt TrainerRunModel.
From PcfgGen Require Import WriterStruct_gen TrainerRun_gen.
Import ListNotations.

(* ---------------------------------------------------------------- loops *)

(* a translated loop body that is the image of a step makes the translated loop the fold *)
Lemma for_each_fold : forall {R X S : Type} (body : X -> S -> out R S) (step : S -> X -> res S),
  (forall x s, body x s = call (step s x)) ->
  forall l s, for_each l body s = call (fold_res step l s).
Proof.
  intros R X S body step H l. induction l as [|x r IH]; intro s; cbn [for_each fold_res]; [reflexivity|].
  rewrite H. destruct (step s x) as [s'|e]; cbn [call bind]; [apply IH | reflexivity].
Qed.

Lemma markov_block_is_model : forall (O : numops) (cov : num O) (n : N) (omen c : counter O),
  py_run_trainer_markov_block cov n omen c = m_markov cov n omen c.
Proof.
  intros O cov n omen c. destruct omen as [|x r].
  - apply struct_markov_block_no_omen.
  - apply struct_markov_block_eq. discriminate.
Qed.

(* ---------------------------------------------------------------- symbolic execution *)

Ltac rt_unfold :=
  cbv beta iota zeta delta
    [run_fnW bindW try_exceptW callW readW liftW NormW RetnW ExcW for_gen bind call try_except ret_some run_fn
     rbind rlet reading pass pretrain passes finish save_all m_run_trainer fst snd negb
     to_pinfo to_reader to_omen to_keyspace to_levels to_n to_parser
     pi_name pi_version pi_author pi_contact pi_rule_name pi_training_file pi_encoding pi_comments pi_save_sensitive
     pi_prefixcount pi_ngram pi_alphabet_size pi_alphabet pi_smoothing pi_coverage pi_max_len pi_multiword
     set_pi_alphabet set_pi_encoding].

Ltac destruct_scrut :=
  match goal with
  | |- context [match ?x with _ => _ end] =>
      lazymatch x with
      | context [match _ with _ => _ end] => fail
      | _ => let E := fresh "E" in destruct x eqn:E; try discriminate E
      end
  end.

(* a collaborator called again with the same arguments (the three openings of the training file) gives what
   it gave before *)
Ltac use_known :=
  repeat match goal with
  | H : ?x = _ |- context [match ?x with _ => _ end] => rewrite H
  end.

(* the translated body of a reader loop is the image of one of the steps of the model *)
Ltac body_is_step :=
  let s := fresh "s" in
  intros ? s; try destruct s; unfold step_pre, step1, step2, step3, rbind, call, bind; cbn [fst snd];
  repeat destruct_scrut; reflexivity.

Ltac loops_to_folds C :=
  repeat match goal with
  | |- context [@for_each ?R ?X ?S ?l ?b ?s] =>
      first
        [ rewrite (@for_each_fold R X S b (step_pre C) ltac:(body_is_step))
        | rewrite (@for_each_fold R X S b (step1 C) ltac:(body_is_step))
        | rewrite (@for_each_fold R X S b (step2 C) ltac:(body_is_step))
        | match goal with ot : c_OT C |- _ => rewrite (@for_each_fold R X S b (step3 C ot) ltac:(body_is_step)) end ]
  end.

Theorem py_run_trainer_is_model : forall (O : numops) (C : collab O) (pi : pinfo O) (base : path) (w : c_W C),
  py_run_trainer C pi base w = m_run_trainer C pi base w.
Proof.
  intros O C pi base w. destruct pi. unfold py_run_trainer.
  rt_unfold.
  repeat (rewrite ?markov_block_is_model; loops_to_folds C; rt_unfold; use_known; rt_unfold; first [reflexivity | destruct_scrut]).
Qed.

(* ---------------------------------------------------------------- print_statistics only reads *)

Theorem py_print_statistics_reads_only : forall (O : numops) (p : parser_obj O), py_print_statistics p = Ok p.
Proof. intros O p. reflexivity. Qed.

(* ---------------------------------------------------------------- the parser starts with every counter empty *)

Theorem py_parser_init_is_empty : forall O : numops, @py_PCFGPasswordParser_init O = empty_parser.
Proof. intro O. reflexivity. Qed.

(* ---------------------------------------------------------------- the command line *)

Theorem py_cli_options_are_expected : py_cli_options = expected_cli_options.
Proof. reflexivity. Qed.

Ltac pi_unfold :=
  cbv beta iota zeta delta
    [run_fn bind set_pi_rule_name set_pi_training_file set_pi_encoding set_pi_comments set_pi_save_sensitive
     set_pi_prefixcount set_pi_ngram set_pi_alphabet_size set_pi_coverage set_pi_multiword
     pi_name pi_version pi_author pi_contact pi_rule_name pi_training_file pi_encoding pi_comments pi_save_sensitive
     pi_prefixcount pi_ngram pi_alphabet_size pi_alphabet pi_smoothing pi_coverage pi_max_len pi_multiword].

Theorem py_parse_command_line_is_model : forall (O : numops) (a : cli_args O) (pi : pinfo O),
  py_parse_command_line a pi = Ok (m_parse_command_line a pi).
Proof.
  intros O a pi. destruct pi. unfold py_parse_command_line, m_parse_command_line, coverage_ok, cli_pinfo.
  pi_unfold.
  destruct (nltb O (a_coverage a) (nzero O)); destruct (nltb O (none O) (a_coverage a)); reflexivity.
Qed.

Lemma set_pi_encoding_same : forall (O : numops) (pi : pinfo O), set_pi_encoding pi (pi_encoding pi) = pi.
Proof. intros O pi. destruct pi. reflexivity. Qed.

Theorem py_main_is_model : forall (O : numops) (C : main_collab O) (script_dir : path) (w : mc_W C),
  py_main C script_dir w = m_main C py_main_defaults script_dir w.
Proof.
  intros O C sd w. unfold py_main, m_main, m_encoding.
  rewrite py_cli_options_are_expected.
  cbv beta iota zeta delta [run_fnW bindW callW readW liftW NormW RetnW call rlet rbind list_item].
  destruct (mc_parse_args C expected_cli_options w) as [a|e]; [|reflexivity].
  cbv beta iota. rewrite py_parse_command_line_is_model. unfold m_parse_command_line. cbv beta iota zeta.
  destruct (coverage_ok (a_coverage a)); cbv beta iota delta [negb]; [|reflexivity].
  set (pi := cli_pinfo a py_main_defaults).
  destruct (pi_encoding pi) as [enc|] eqn:Eenc; cbv beta iota zeta.
  - rewrite <- Eenc, set_pi_encoding_same.
    destruct (mc_create_rule_folders C _ w) as [[[|]|e] w1]; cbv beta iota delta [negb]; try reflexivity.
    destruct (mc_run_trainer C pi _ w1) as [[r|e] w2]; cbv beta iota; [|reflexivity].
    destruct (ob_truthy r); reflexivity.
  - destruct (mc_detect_file_encoding C (pi_training_file pi) [] 500000 w) as [[b l]|e]; cbv beta iota delta [fst snd negb]; [|reflexivity].
    destruct b; cbv beta iota; [|reflexivity].
    destruct l as [|e0 l]; cbn [nth_error N.to_nat]; cbv beta iota; [reflexivity|].
    destruct (mc_create_rule_folders C _ w) as [[[|]|e] w1]; cbv beta iota delta [negb]; try reflexivity.
    destruct (mc_run_trainer C _ _ w1) as [[r|e] w2]; cbv beta iota; [|reflexivity].
    destruct (ob_truthy r); reflexivity.
Qed.
