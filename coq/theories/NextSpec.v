(* Specification side of the "next" algorithm: well-formed rulesets, the
   independent enumeration of all pre-terminals, queue contract.  Definitions
   only. *)
From Coq Require Import List Arith Bool Sorting.Permutation Sorting.Sorted.
From Pcfg Require Import ProbAlg Next.
Import ListNotations.

Section Spec.
Context {A : palg}.
Notation P := (P A).
Notation ruleset := (ruleset A).
Notation item := (item A).
Notation queue := (queue A).
Notation state := (state A).

(* non-increasing list of unit probabilities: what _load_from_file yields from
   a trainer-written file (values of equal probability are grouped, the file is
   sorted by the trainer) *)
Fixpoint desc (l : list P) : Prop :=
  match l with
  | [] => True
  | a :: r => match r with [] => True | b :: _ => ple b a = true end /\ desc r
  end.

Definition wf_groups (l : list P) : Prop :=
  l <> [] /\ Forall (fun p => unitb p = true) l /\ desc l.

Definition wf (rs : ruleset) : Prop :=
  Forall (fun b => okb (bprob b) = true /\
                   Forall (fun v => wf_groups (groups rs v)) (brepl b)) (bases rs).

(* boolean version, evaluated on every generated case *)
Fixpoint descb (l : list P) : bool :=
  match l with
  | [] => true
  | a :: r => match r with [] => true | b :: _ => ple b a end && descb r
  end.
Definition wf_groupsb (l : list P) : bool :=
  negb (Nat.eqb (length l) 0) && forallb unitb l && descb l.
Definition wfb (rs : ruleset) : bool :=
  forallb (fun b => okb (bprob b) && forallb (fun v => wf_groupsb (groups rs v)) (brepl b)) (bases rs).

(* Independent enumeration: for each base structure (in order), every index
   vector of the grid. *)
Fixpoint vectors (dims : list nat) : list (list nat) :=
  match dims with
  | [] => [[]]
  | d :: r => flat_map (fun i => map (cons i) (vectors r)) (seq 0 d)
  end.

Definition preterminals_of (rs : ruleset) (kb : nat * bstruct A) : list item :=
  map (fun vec => mk rs (fst kb) (combine (brepl (snd kb)) vec) (bprob (snd kb)))
      (vectors (map (fun v => length (groups rs v)) (brepl (snd kb)))).

Definition all_preterminals (rs : ruleset) : list item :=
  flat_map (preterminals_of rs) (combine (seq 0 (length (bases rs))) (bases rs)).

(* what the implementation's dictionaries hold (no ghost tag).  Duplicate
   base-structure lines give equal keys, counted with multiplicity. *)
Definition key (it : item) : pt * P * P := (ipt it, ibase it, iprob it).

(* queue contract *)
Definition pop_ok (pop : queue -> option (item * queue)) : Prop :=
  (forall q, pop q = None <-> q = []) /\
  (forall q x r, pop q = Some (x, r) ->
     Permutation q (x :: r) /\ Forall (fun y => plt (iprob x) (iprob y) = false) r).

(* emission order on an oldest-first list, i.e. on [rev (emitted s)] *)
Definition nonincreasing (l : list item) : Prop :=
  StronglySorted (fun a b => ple (iprob b) (iprob a) = true) l.

Definition total (rs : ruleset) : nat := length (all_preterminals rs).

End Spec.

(* ---- statements shared by NextProofs.v and RestoreProofs.v ---- *)
Section Spec2.
Context {A : palg}.
Notation P := (P A).
Notation ruleset := (ruleset A).
Notation item := (item A).

(* parents of a node: decrement one position whose index is positive *)
Definition parents (rs : ruleset) (it : item) : list item :=
  flat_map (fun pos =>
    match nth_error (ipt it) pos with
    | Some (_, S _) => [mk rs (itag it) (upd (ipt it) pos pred) (ibase it)]
    | _ => []
    end) (seq 0 (length (ipt it))).

(* the part of the grammar a resumed session still has to emit, and the
   frontier the restore walk has to rebuild, for a saved probability m *)
Definition below (m : P) (it : item) : bool := ple (iprob it) m.
Definition frontierb (rs : ruleset) (m : P) (it : item) : bool :=
  below m it && negb (existsb (below m) (parents rs it)).

End Spec2.
