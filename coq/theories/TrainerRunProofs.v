(* TrainerRunProofs.v - what the model of the trainer's orchestration (TrainerRunModel.v) says about the three
   passes, for every instantiation of the collaborators:
   * the three passes fold over ONE sequence, the one the reader yields for the training file (C19);
   * every password of that sequence is handed to the PCFG parser exactly once, in order, and to no other
     parser: the parser the writers get is the fold of parse over the sequence, started from a new parser,
     then print_statistics, then the Markov pseudo-count on count_base_structures (C05, C06);
   * nothing is written unless the three passes completed, N > 0 and (coverage = 1 or OMEN n-grams exist). *)
From Coq Require Import String Ascii.
From Coq Require Import List NArith ZArith Bool.
From Pcfg Require Import TextFile Counters WriterRt TrainerRunRt TrainerRunModel.
Import ListNotations.

(* ---------------------------------------------------------------- folds *)

Lemma fold_res_app : forall {S X : Type} (step : S -> X -> res S) (l1 l2 : list X) (s : S),
  fold_res step (l1 ++ l2) s = rbind (fold_res step l1 s) (fold_res step l2).
Proof.
  intros S X step l1 l2. induction l1 as [|x r IH]; intro s; cbn [fold_res app rbind]; [reflexivity|].
  destruct (step s x); [apply IH | reflexivity].
Qed.

(* a fold of total steps is fold_left *)
Lemma fold_res_total : forall {S X : Type} (f : S -> X -> S) (l : list X) (s : S),
  fold_res (fun s x => Ok (f s x)) l s = Ok (fold_left f l s).
Proof. intros S X f l. induction l as [|x r IH]; intro s; cbn [fold_res fold_left]; [reflexivity | apply IH]. Qed.

(* a loop that feeds two consumers, one after the other, feeds each of them the whole sequence in order *)
Lemma fold_res_pair : forall {S1 S2 X : Type} (f : S1 -> X -> res S1) (g : S2 -> X -> res S2) (l : list X) s1 s2 t1 t2,
  fold_res (fun s x => rbind (f (fst s) x) (fun a => rbind (g (snd s) x) (fun b => Ok (a, b)))) l (s1, s2) = Ok (t1, t2) ->
  fold_res f l s1 = Ok t1 /\ fold_res g l s2 = Ok t2.
Proof.
  intros S1 S2 X f g l. induction l as [|x r IH]; intros s1 s2 t1 t2; cbn [fold_res fst snd].
  - intro H. inversion H. split; reflexivity.
  - destruct (f s1 x) as [a|e]; cbn [rbind]; [|discriminate].
    destruct (g s2 x) as [b|e]; cbn [rbind]; [|discriminate]. apply IH.
Qed.

Section Facts.
Context {O : numops} (C : collab O).

(* what a completed run of the three passes is *)
(* what a completed run of the three passes is: pk_seq is THE password sequence.
   - the training file is opened with the file name, the encoding and the prefix option of the run and yields
     pk_seq to the end;
   - pass 1: a new alphabet generator and a new detector (pre-trained), each fed pk_seq in order; N is
     num_passwords of the exhausted reader and is not 0;
   - pass 2: a new OMEN trainer and ONE new parser made from the detector of pass 1, each fed pk_seq in order;
   - pass 3: the level of every password of pk_seq against the smoothed OMEN trainer;
   - the parser of pass 2 goes through print_statistics and nothing else *)
Inductive passes_ok (pi : pinfo O) (w : c_W C) (t : trained_objs C) : Prop :=
| passes_ok_intro : forall (pk_seq : list str) (pk_fi0 : c_FI C) (pk_fiE : c_FI C) (pk_ag0 : c_AG C) (pk_ag1 : c_AG C) (pk_mw0 : c_MW C) (pk_mw1 : c_MW C) (pk_mw2 : c_MW C) (pk_ot0 : c_OT C) (pk_ot1 : c_OT C) (pk_pp0 : c_PP C) (pk_pp1 : c_PP C),
    (c_TrainerFileInput C (pi_training_file pi) (pi_encoding pi) (pi_prefixcount pi) w = Ok pk_fi0) ->
    (c_read_password C pk_fi0 w = (pk_seq, None, pk_fiE)) ->
    (c_AlphabetGenerator C (pi_alphabet_size pi) (pi_ngram pi) = Ok pk_ag0) ->
    (c_MultiWordDetector C 5 4 21 = Ok pk_mw0) ->
    (pretrain C pi pk_mw0 w = Ok pk_mw1) ->
    (fold_res (c_process_password C) pk_seq pk_ag0 = Ok pk_ag1) ->
    (fold_res (fun m p => c_mw_train C m p false) pk_seq pk_mw1 = Ok pk_mw2) ->
    (c_get_alphabet C pk_ag1 = Ok (pi_alphabet (to_pinfo t))) ->
    (to_pinfo t = set_pi_alphabet pi (pi_alphabet (to_pinfo t))) ->
    (to_n t = c_num_passwords C pk_fiE) ->
    (to_n t <> 0%N) ->
    (c_AlphabetLookup C (pi_alphabet (to_pinfo t)) (pi_ngram pi) 1 (pi_max_len pi) = Ok pk_ot0) ->
    (c_PCFGPasswordParser C pk_mw2 = Ok pk_pp0) ->
    (fold_res (c_ot_parse C) pk_seq pk_ot0 = Ok pk_ot1) ->
    (fold_res (c_pp_parse C) pk_seq pk_pp0 = Ok pk_pp1) ->
    (c_apply_smoothing C pk_ot1 = Ok (to_omen t)) ->
    (c_calc_omen_keyspace C (to_omen t) 18 10000000000 = Ok (to_keyspace t)) ->
    (fold_res (step3 C (to_omen t)) pk_seq [] = Ok (to_levels t)) ->
    (to_reader t = pk_fiE) ->
    (c_print_statistics C pk_pp1 = Ok (to_parser t)) ->
    passes_ok pi w t.

Ltac dres H x :=
  match type of H with
  | context [match ?r with _ => _ end] => destruct r as [x|] eqn:?; cbn [rbind] in H; [|discriminate H]
  end.

Theorem passes_complete : forall (pi : pinfo O) (w : c_W C) (t : trained_objs C),
  passes C pi w = Ok (inr t) -> passes_ok pi w t.
Proof.
  intros pi w t H. unfold passes, reading in H. unfold rbind at 1 2 in H.
  destruct (c_TrainerFileInput C (pi_training_file pi) (pi_encoding pi) (pi_prefixcount pi) w) as [fi0|] eqn:E0; [|discriminate].
  destruct (c_read_password C fi0 w) as [[xs en] fiE] eqn:Er.
  unfold pass in H. cbn [fst snd] in H.
  destruct (c_AlphabetGenerator C (pi_alphabet_size pi) (pi_ngram pi)) as [ag0|] eqn:E1; cbn [rbind] in H; [|discriminate].
  destruct (c_MultiWordDetector C 5 4 21) as [mw0|] eqn:E2; cbn [rbind] in H; [|discriminate].
  destruct (pretrain C pi mw0 w) as [mw1|] eqn:E3; cbn [rbind] in H; [|discriminate].
  destruct (fold_res (step1 C) xs (ag0, mw1)) as [[ag1 mw2]|] eqn:F1; cbn [rbind] in H; [|discriminate].
  destruct en as [e|]; [discriminate|].
  destruct (c_get_alphabet C ag1) as [alpha|] eqn:E4; cbn [rbind] in H; [|discriminate].
  destruct (N.eqb (c_num_passwords C fiE) 0) eqn:En; [discriminate|].
  destruct (c_AlphabetLookup C alpha (pi_ngram pi) 1 (pi_max_len pi)) as [ot0|] eqn:E5; cbn [rbind] in H; [|discriminate].
  destruct (c_PCFGPasswordParser C mw2) as [pp0|] eqn:E6; cbn [rbind] in H; [|discriminate].
  destruct (fold_res (step2 C) xs (ot0, pp0)) as [[ot1 pp1]|] eqn:F2; cbn [rbind] in H; [|discriminate].
  destruct (c_apply_smoothing C ot1) as [ot2|] eqn:E7; cbn [rbind] in H; [|discriminate].
  destruct (c_calc_omen_keyspace C ot2 18 10000000000) as [ks|] eqn:E8; cbn [rbind] in H; [|discriminate].
  destruct (fold_res (step3 C ot2) xs []) as [lc|] eqn:F3; cbn [rbind] in H; [|discriminate].
  destruct (c_print_statistics C pp1) as [pp2|] eqn:E9; cbn [rbind] in H; [|discriminate].
  inversion H; subst t; clear H.
  apply (fold_res_pair (c_process_password C) (fun m p => c_mw_train C m p false)) in F1. destruct F1 as [F1a F1b].
  apply (fold_res_pair (c_ot_parse C) (c_pp_parse C)) in F2. destruct F2 as [F2a F2b].
  apply N.eqb_neq in En.
  econstructor; cbn [to_pinfo to_reader to_omen to_keyspace to_levels to_n to_parser]; try eassumption; try reflexivity.
Qed.

(* the writers run only after three completed passes, with the Markov pseudo-count on the parser those
   passes produced; otherwise the world is untouched *)
Theorem run_writes_only_after_passes : forall (pi : pinfo O) (base : path) (w : c_W C),
  (exists t cbs, passes C pi w = Ok (inr t) /\
     m_markov (pi_coverage (to_pinfo t)) (to_n t) (c_ks_counter C (to_keyspace t))
              (po_count_base_structures (c_pp_view C (to_parser t))) = Norm cbs /\
     m_run_trainer C pi base w =
       save_all C (to_pinfo t) base (to_reader t) (to_omen t) (to_keyspace t) (to_levels t) (to_n t)
                (c_pp_update C (to_parser t) (set_po_count_base_structures (c_pp_view C (to_parser t)) cbs)) w) \/
  (exists r, m_run_trainer C pi base w = (r, w) /\ r <> Ok (Some true)).
Proof.
  intros pi base w. unfold m_run_trainer.
  destruct (passes C pi w) as [[b|t]|e] eqn:E.
  - right. exists (Ok b). split; [reflexivity|].
    intro H. inversion H; subst b. clear H. revert E. unfold passes, rbind, pass.
    repeat match goal with
           | |- context [match ?x with _ => _ end] =>
               lazymatch x with
               | context [match _ with _ => _ end] => fail
               | _ => destruct x
               end
           end; discriminate.
  - unfold finish.
    destruct (m_markov (pi_coverage (to_pinfo t)) (to_n t) (c_ks_counter C (to_keyspace t))
                       (po_count_base_structures (c_pp_view C (to_parser t)))) as [cbs|b|e] eqn:Em.
    + left. exists t, cbs. split; [reflexivity | split; [exact Em | reflexivity]].
    + right. exists (Ok (Some b)). split; [reflexivity|]. intro H. inversion H; subst b.
      unfold m_markov in Em. destruct (c_ks_counter C (to_keyspace t)); [|discriminate].
      destruct (neqb O _ _); discriminate.
    + right. exists (Raise e). split; [reflexivity | discriminate].
  - right. exists (Raise e). split; [reflexivity | discriminate].
Qed.

(* save_all: True is returned only when the three writers ran, in the order config.ini, OMEN, PCFG data, each
   returning True, the last one on the parser and with the encoding / save_sensitive option of the run *)
Theorem save_all_true : forall pi base fi ot ks lc n pp w w',
  save_all C pi base fi ot ks lc n pp w = (Ok (Some true), w') ->
  exists w1 w2,
    c_save_config_file C base pi fi pp w = (Ok true, w1) /\
    c_save_omen_rules_to_disk C ot ks lc n base pi w1 = (Ok true, w2) /\
    c_save_pcfg_data C base pp (pi_encoding pi) (pi_save_sensitive pi) w2 = (Ok true, w').
Proof.
  intros pi base fi ot ks lc n pp w w'. unfold save_all.
  destruct (c_save_config_file C base pi fi pp w) as [[[|]|e] w1] eqn:E1; try discriminate.
  destruct (c_save_omen_rules_to_disk C ot ks lc n base pi w1) as [[[|]|e] w2] eqn:E2; try discriminate.
  destruct (c_save_pcfg_data C base pp (pi_encoding pi) (pi_save_sensitive pi) w2) as [[b|e] w3] eqn:E3; try discriminate.
  intro H. inversion H; subst. exists w1, w2. split; [reflexivity | split; [exact E2 | exact E3]].
Qed.

(* a run that returns True: three completed passes over one sequence, the Markov pseudo-count of the model on
   count_base_structures of the parser they produced, then the three writers, each returning True; the
   last one is save_pcfg_data on that parser with the encoding and the save_sensitive option of the run *)
Theorem run_true : forall (pi : pinfo O) (base : path) (w w' : c_W C),
  m_run_trainer C pi base w = (Ok (Some true), w') ->
  exists (t : trained_objs C) (w1 w2 : c_W C),
    passes C pi w = Ok (inr t) /\ passes_ok pi w t /\
    let view := c_pp_view C (to_parser t) in
    let pp := c_pp_update C (to_parser t)
                (set_po_count_base_structures view
                   (with_markov (pi_coverage pi) (to_n t) (po_count_base_structures view))) in
    (neqb O (pi_coverage pi) (none O) = true \/ c_ks_counter C (to_keyspace t) <> []) /\
    c_save_config_file C base (to_pinfo t) (to_reader t) pp w = (Ok true, w1) /\
    c_save_omen_rules_to_disk C (to_omen t) (to_keyspace t) (to_levels t) (to_n t) base (to_pinfo t) w1 = (Ok true, w2) /\
    c_save_pcfg_data C base pp (pi_encoding pi) (pi_save_sensitive pi) w2 = (Ok true, w').
Proof.
  intros pi base w w' H.
  destruct (run_writes_only_after_passes pi base w) as [(t & cbs & Hp & Hm & Hr) | (r & Hr & Hn)].
  2: { rewrite Hr in H. inversion H; subst. contradiction. }
  rewrite Hr in H. apply save_all_true in H. destruct H as (w1 & w2 & S1 & S2 & S3).
  pose proof (passes_complete pi w t Hp) as Hok.
  assert (Hpi : to_pinfo t = set_pi_alphabet pi (pi_alphabet (to_pinfo t))) by (destruct Hok; assumption).
  assert (Hcov : pi_coverage (to_pinfo t) = pi_coverage pi) by (rewrite Hpi; destruct pi; reflexivity).
  assert (Henc : pi_encoding (to_pinfo t) = pi_encoding pi) by (rewrite Hpi; destruct pi; reflexivity).
  assert (Hsens : pi_save_sensitive (to_pinfo t) = pi_save_sensitive pi) by (rewrite Hpi; destruct pi; reflexivity).
  rewrite Hcov in Hm. rewrite Henc, Hsens in S3.
  assert (Hcbs : cbs = with_markov (pi_coverage pi) (to_n t) (po_count_base_structures (c_pp_view C (to_parser t))) /\
                 (neqb O (pi_coverage pi) (none O) = true \/ c_ks_counter C (to_keyspace t) <> [])).
  { unfold m_markov in Hm. unfold with_markov. destruct (c_ks_counter C (to_keyspace t)) as [|x r].
    - destruct (neqb O (pi_coverage pi) (none O)); [|discriminate Hm]. inversion Hm. split; [reflexivity | left; reflexivity].
    - inversion Hm. split; [reflexivity | right; discriminate]. }
  destruct Hcbs as [Hc Hwhy]. subst cbs.
  exists t, w1, w2. split; [exact Hp|]. split; [exact Hok|]. cbv zeta.
  split; [exact Hwhy|]. split; [exact S1|]. split; [exact S2 | exact S3].
Qed.

End Facts.

(* the command line: over the rationals, a coverage is accepted iff it lies in [0, 1] *)
From Coq Require Import QArith.
Theorem coverage_ok_Q : forall cov : Q, @coverage_ok QNum cov = true <-> (0 <= cov /\ cov <= 1)%Q.
Proof.
  intro cov. unfold coverage_ok. cbn [nltb QNum nzero none].
  rewrite negb_true_iff, orb_false_iff, !negb_false_iff. rewrite !Qle_bool_iff. tauto.
Qed.
