(* Correspondence helper for C12: schedules on RESUMED sessions.
   The model is SessionModel.w_run with load_session = true (the hand-written image of
   CrackingSession.run, equal to the translated source for every world:
   SessionGenProofs.src_run_is_w_run) in the world of Session.v:
     - the save file that is loaded holds guessing_info/omen_guess_number = n0 (or not),
       the .omn beside it names the interrupted Markov level, pid 0, cut after its n0-th guess;
     - [head] = the guesses that level still has (restore_omen writes them BEFORE the first
       pop, reading the quit flag after each one);
     - [pts] = what the restored queue returns, pids 1, 2, ...;
     - time = atomic steps: one per guess of the restored level, then one per pop + quit
       check and one per guess, as in Session.run_session.
   Observed of the implementation: how many guesses it wrote (a prefix of the undisturbed
   resumed run: checked by the harness), every write of the save file as
   (position = pid of the pre-terminal just popped, omen_guess_number), the .omn at the end. *)
From Coq Require Import List Arith Bool ZArith.
From Pcfg Require Import Session SessionCorr SessionRt SessionModel.
Import ListNotations.

Definition save_eqb (a b : option nat * option nat) : bool :=
  onat_eqb (fst a) (fst b) && onat_eqb (snd a) (snd b).

Fixpoint saves_eqb (a b : list (option nat * option nat)) : bool :=
  match a, b with
  | [], [] => true
  | x :: a', y :: b' => save_eqb x y && saves_eqb a' b'
  | _, _ => false
  end.

Definition run_resumed (sl : list (nat * list ev)) (head : list nat) (pts : list pterm)
           (cfg0 : option nat) (om0 : option (nat * nat)) : sres unit * list nat * sworld :=
  w_run (sched_of sl) [] pts (fun _ _ => head) (length pts + 2) true None (w_init cfg0 om0).

Definition res_run :=
  (list (nat * list ev) * nat * list (option nat * option nat) * option (nat * nat))%type.

Definition check_resumed (head : list nat) (pts : list pterm) (cfg0 : option nat) (om0 : option (nat * nat))
           (r : res_run) : bool :=
  match r with (sl, n, sv, om) =>
    match run_resumed sl head pts cfg0 om0 with
    | (SOk _, o, w) => nat_list_eqb o (seq 0 n) && saves_eqb (sw_saves w) sv && opair_eqb (sw_om w) om
    | _ => false
    end
  end.

(* a level of 6 guesses was cut after its 2nd; the restored queue holds a plain pre-terminal
   and a Markov level *)
Definition ex_head : list nat := seq 0 4.
Definition ex_pts : list pterm := mk_pts [(false, 2); (true, 3)] 1 4.

(* nothing typed: the remainder, then the queue; nothing saved, the .omn untouched *)
Example resumed_quiet :
  check_resumed ex_head ex_pts (Some 2) (Some (0, 2)) ([], 9, [], Some (0, 2)) = true.
Proof. vm_compute. reflexivity. Qed.

(* status and help inside the remainder change nothing *)
Example resumed_status :
  check_resumed ex_head ex_pts (Some 2) (Some (0, 2)) ([(1, [EvStatus; EvHelp])], 9, [], Some (0, 2)) = true.
Proof. vm_compute. reflexivity. Qed.

(* 'q' while the 2nd guess of the remainder is written: the level stops there (position 4 of
   the level), the next pop sees the flag and the session is saved at pre-terminal 1 *)
Example resumed_quit_in_remainder :
  check_resumed ex_head ex_pts (Some 2) (Some (0, 2))
                ([(1, [EvQuitFlag; EvThreadEnds])], 2, [(Some 1, Some 4)], Some (0, 4)) = true.
Proof. vm_compute. reflexivity. Qed.

(* 'q' inside the later Markov level: cut after its 1st guess; it is the last pre-terminal, so
   the run returns without saving (R18) *)
Example resumed_quit_in_last_level :
  check_resumed ex_head ex_pts (Some 2) (Some (0, 2))
                ([(8, [EvQuitFlag])], 7, [], Some (2, 1)) = true.
Proof. vm_compute. reflexivity. Qed.

(* 'q' at the pop after the remainder: saved there, the guess number is forgotten *)
Example resumed_quit_at_first_pop :
  check_resumed ex_head ex_pts (Some 2) (Some (0, 2))
                ([(4, [EvQuitFlag])], 4, [(Some 1, None)], Some (0, 2)) = true.
Proof. vm_compute. reflexivity. Qed.
