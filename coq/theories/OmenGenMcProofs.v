(* The generated MarkovCracker code (gen/OmenGen_mc_gen.v: the translation of the
   Python text of MarkovCracker.__init__, _find_first_object,
   _increase_ip_for_target, _increase_len_for_target and next_guess, redone on
   every run) computes what the hand-written model of Omen.v computes (mc_starts,
   increase, mc_next), which is what the theorems of C10 / C15 are about.

   The Python object is related to the model's [mc_state] by [mc_rel]: the
   target level, the two cursors (Python ints), and - when the model says a
   GuessStructure exists - the GuessStructure object the constructor builds for
   these cursors, holding the model's parse tree.  Before the first next_guess and
   after the level is exhausted cur_guess is None and the cursors are not related
   (the Python object keeps None / the last cursors, the model keeps (0, 0) / the
   last cursors; neither is read before it is set again).

   The range _find_first_object scans is compared with the constant
   omen_first_object_extra the older extractor takes from the same source. *)
From Coq Require Import List Arith Bool NArith ZArith Lia.
From Pcfg Require Import OmenSpec Omen OmenProofs OmenProofs2 OmenProofs3 OmenProofs4 OmenGenRt OmenGenRtProofs
     OmenGenOptProofs OmenGenGsProofs OmenGenGsNextProofs.
From PcfgGen Require Import Consts_gen OmenGen_opt_gen OmenGen_gs_gen OmenGen_mc_gen.
Import ListNotations.

Lemma zrange_nat n : zrange 0 (Z.of_nat n) = map Z.of_nat (seq 0 n).
Proof.
  unfold zrange, OmenRt.zrange. rewrite Z.sub_0_r, Nat2Z.id. apply map_ext. intro i. lia.
Qed.

Section MC.
  Variable ipf : nat -> list ostr.
  Variable lnf : nat -> list nat.
  Variable cp : cp_index.
  Variable maxl optmax : nat.
  Variable ngramZ : Z.
  Hypothesis cp_ne : cp_nonempty cp.
  Hypothesis lnf_pos : forall l k, In k (lnf l) -> 1 <= k.

  Notation cpf := (cpf_of cp).
  Notation extra := omen_first_object_extra.

  (* the grammar the loader builds from the tables *)
  Definition gram : pygrammar :=
    mk_pygrammar ngramZ (Z.of_nat maxl) (Z.of_nat maxl, ipf) (Z.of_nat maxl, fun l => map Z.of_nat (lnf l)) cp.

  Lemma tbl_get_in {X} (f : nat -> list X) l : l <= maxl -> tbl_get (Z.of_nat maxl, f) (Z.of_nat l) = Ok (f l).
  Proof.
    intro H. unfold tbl_get. cbn [fst snd].
    replace (0 <=? Z.of_nat l)%Z with true by (symmetry; apply Z.leb_le; lia).
    replace (Z.of_nat l <=? Z.of_nat maxl)%Z with true by (symmetry; apply Z.leb_le; lia).
    cbn [andb]. now rewrite Nat2Z.id.
  Qed.

  (* ---------------------------------------------------------------- *)
  (* _find_first_object                                                *)

  Lemma ffo_loop {X} (f : nat -> list X) (body : Z -> unit -> res (lctl Z unit)) (kont : unit -> res Z) :
    forall n a, a + n <= S maxl ->
    (forall l, l <= maxl -> body (Z.of_nat l) tt =
                            Ok (if negb (is_nil (f l)) then Return (Z.of_nat l) else Continue tt)) ->
    mfor (map Z.of_nat (seq a n)) body tt kont =
    match find (fun l => negb (is_nil (f l))) (seq a n) with
    | Some l => Ok (Z.of_nat l)
    | None => kont tt
    end.
  Proof.
    induction n as [|n IH]; intros a Ha Hb; cbn [seq map mfor find]; [reflexivity|].
    rewrite Hb by lia. destruct (negb (is_nil (f a))); [reflexivity|]. apply IH; [lia | exact Hb].
  Qed.

  Lemma zlen_is_nil {X} (l : list X) : negb (zlen l =? 0)%Z = negb (is_nil l).
  Proof. destruct l; [reflexivity|]. unfold zlen. cbn [length is_nil]. now destruct (Z.of_nat (S (length l))) eqn:E; try lia. Qed.

  Theorem gen_find_first_object {X} fuel (m : pymc) (f : nat -> list X) :
    m_max_level m = Z.of_nat maxl -> extra <= 1 ->
    py_mc_find_first_object fuel m (Z.of_nat maxl, f) =
    match find_first_object maxl extra f with
    | Some l => Ok (Z.of_nat l)
    | None => Raise PyException
    end.
  Proof.
    intros Hm He. unfold py_mc_find_first_object, find_first_object. rewrite Hm.
    match goal with |- context[zrange 0 ?b] =>
      replace b with (Z.of_nat (maxl + extra)) by (unfold extra; lia) end.
    rewrite zrange_nat. rewrite (ffo_loop f); [reflexivity | lia |].
    intros l Hl. rewrite tbl_get_in by exact Hl. cbn [bind]. rewrite zlen_is_nil.
    destruct (negb (is_nil (f l))); reflexivity.
  Qed.
  (* ---------------------------------------------------------------- *)
  (* __init__                                                          *)

  Lemma ffo_map {X Y} (g : X -> Y) (f : nat -> list X) :
    find_first_object maxl extra (fun l => map g (f l)) = find_first_object maxl extra f.
  Proof.
    unfold find_first_object. generalize (seq 0 (maxl + extra)). intro ls.
    induction ls as [|l r IH]; cbn [find]; [reflexivity|]. rewrite IH. now destruct (f l).
  Qed.

  (* a MarkovCracker object of this grammar: everything but the cursors and the
     current GuessStructure is fixed by the constructor *)
  Definition py_obj (s_ip s_len : nat) (T : Z) (cl ci : pycursor) (g : option pygs) : pymc :=
    mk_pymc gram (Z.of_nat maxl) (ngramZ - 1)%Z (Z.of_nat s_ip) (Z.of_nat s_len) T cl ci g.

  Theorem gen_mc_init fuel T : extra <= 1 ->
    py_mc_init fuel gram T =
    match mc_starts ipf lnf maxl extra with
    | Some (a, b) => Ok (py_obj a b T None None None)
    | None => Raise PyException
    end.
  Proof.
    intro He. unfold py_mc_init, mc_starts.
    cbn [set_m_grammar set_m_max_level set_m_length_ip m_grammar m_max_level pymc_blank g_ip g_ln g_max_level g_ngram gram].
    rewrite gen_find_first_object by (try reflexivity; exact He).
    destruct (find_first_object maxl extra ipf) as [a|]; cbn [bind]; [|reflexivity].
    cbn [set_m_start_ip set_m_grammar set_m_max_level set_m_length_ip m_grammar m_max_level pymc_blank g_ip g_ln
         g_max_level g_ngram gram].
    rewrite gen_find_first_object by (try reflexivity; exact He). rewrite ffo_map.
    destruct (find_first_object maxl extra lnf) as [b|]; cbn [bind]; reflexivity.
  Qed.

  (* ---------------------------------------------------------------- *)
  (* the cursors                                                       *)

  Variable s_ip s_len : nat.
  Hypothesis Hs_ip : find_first_object maxl extra ipf = Some s_ip.
  Hypothesis Hs_len : find_first_object maxl extra lnf = Some s_len.
  Hypothesis extra_le : extra <= 1.

  Definition cvalid {X} (tbl : nat -> list X) (cur : nat * nat) : Prop :=
    fst cur <= maxl /\ snd cur < length (tbl (fst cur)).

  (* the GuessStructure the constructor builds for two cursors *)
  Definition gs_for (fg : bool) (lc ic : nat * nat) (T : Z) (pt : option pytree) : pygs :=
    mk_pygs fg cp (Z.of_nat maxl) (nth (snd ic) (ipf (fst ic)) []) (zlen (nth (snd ic) (ipf (fst ic)) []))
            (Z.of_nat (nth (snd lc) (lnf (fst lc)) 0)) (T - Z.of_nat (fst lc) - Z.of_nat (fst ic))%Z pt.

  Notation obj := (py_obj s_ip s_len).

  Lemma cur_get_fst a b : cur_get (Some (a, b)) 0%Z = Ok a.
  Proof. reflexivity. Qed.
  Lemma cur_get_snd a b : cur_get (Some (a, b)) 1%Z = Ok b.
  Proof. reflexivity. Qed.
  Lemma cur_get_cfst c : cur_get (Some (cursor_py c)) 0%Z = Ok (Z.of_nat (fst c)).
  Proof. reflexivity. Qed.
  Lemma cur_get_csnd c : cur_get (Some (cursor_py c)) 1%Z = Ok (Z.of_nat (snd c)).
  Proof. reflexivity. Qed.

  Lemma pyindex_nth {X} (l : list X) i d : i < length l -> pyindex l (Z.of_nat i) = Ok (nth i l d).
  Proof.
    intro H. destruct (nth_error l i) as [x|] eqn:E; [|apply nth_error_None in E; lia].
    rewrite (pyindex_nat _ _ _ E). now rewrite (nth_error_nth _ _ d E).
  Qed.

  Lemma pyindex_nth_map (l : list nat) i : i < length l ->
    pyindex (map Z.of_nat l) (Z.of_nat i) = Ok (Z.of_nat (nth i l 0)).
  Proof.
    intro H. rewrite (pyindex_nth _ _ 0%Z) by (now rewrite map_length).
    change 0%Z with (Z.of_nat 0). now rewrite map_nth.
  Qed.

  (* the loop shared by _increase_ip_for_target and _increase_len_for_target *)
  Lemma inc_loop {X} (tbl : nat -> list X) (bound : Z) (F : nat -> nat -> option bool * pymc) (m : pymc)
        (cond : pymc * Z * Z -> res bool)
        (body : pymc * Z * Z -> res (lctl (option bool * pymc) (pymc * Z * Z)))
        (kont : pymc * Z * Z -> res (option bool * pymc)) :
    (forall level index, cond (m, level, index) = Ok (level <=? Z.of_nat maxl)%Z) ->
    (forall level index, level <= maxl ->
       body (m, Z.of_nat level, Z.of_nat index) =
       Ok (if Nat.ltb index (length (tbl level)) then Return (F level index)
           else if (Z.of_nat maxl <? Z.of_nat (S level))%Z then Return (Some false, m)
           else if (bound <? Z.of_nat (S level))%Z then Return (Some false, m)
           else Continue (m, Z.of_nat (S level), 0%Z))) ->
    forall fuel level index, level <= maxl -> fuel > maxl - level ->
      mwhile fuel cond body (m, Z.of_nat level, Z.of_nat index) kont =
      Ok (match inc_cursor tbl (maxl - level) level index bound with
          | Some (l, i) => F l i
          | None => (Some false, m)
          end).
  Proof.
    intros Hcond Hbody. induction fuel as [|f IH]; intros level index Hl Hf; [lia|].
    cbn [mwhile]. rewrite Hcond.
    replace (Z.of_nat level <=? Z.of_nat maxl)%Z with true by (symmetry; apply Z.leb_le; lia).
    rewrite Hbody by exact Hl.
    destruct (maxl - level) as [|d'] eqn:Ed; cbn [inc_cursor];
      destruct (Nat.ltb index (length (tbl level))); try reflexivity.
    - replace (Z.of_nat maxl <? Z.of_nat (S level))%Z with true by (symmetry; apply Z.ltb_lt; lia). reflexivity.
    - replace (Z.of_nat maxl <? Z.of_nat (S level))%Z with false by (symmetry; apply Z.ltb_ge; lia).
      destruct (bound <? Z.of_nat (S level))%Z; [reflexivity|].
      change 0%Z with (Z.of_nat 0). rewrite IH by lia. now replace (maxl - S level) with d' by lia.
  Qed.

  Ltac mcn :=
    repeat first [rewrite cur_get_fst | rewrite cur_get_snd | rewrite cur_get_cfst | rewrite cur_get_csnd
                 | rewrite tbl_get_in by lia
                 | progress cbn [bind set_m_cur_ip set_m_cur_len set_m_cur_guess m_cur_ip m_cur_len m_cur_guess m_grammar
                                 m_max_level m_target_level m_start_ip m_start_length py_obj g_ip g_ln g_cp gram cursor_py fst snd]].

  Theorem gen_increase_ip fuel T lc ic g bound : cvalid lnf lc -> cvalid ipf ic -> fuel > maxl ->
    py_mc_increase_ip_for_target fuel (obj T (Some (cursor_py lc)) (Some (cursor_py ic)) g) bound =
    Ok (match increase maxl ipf ic bound with
        | Some ic' => (Some true, obj T (Some (cursor_py lc)) (Some (cursor_py ic')) (Some (gs_for true lc ic' T (Some []))))
        | None => (Some false, obj T (Some (cursor_py lc)) (Some (cursor_py ic)) g)
        end).
  Proof.
    intros [Hl1 Hl2] [Hi1 Hi2] Hf. unfold py_mc_increase_ip_for_target. mcn.
    replace (Z.of_nat (snd ic) + 1)%Z with (Z.of_nat (S (snd ic))) by lia.
    match goal with |- context[mwhile ?fu ?cond ?body ?st ?kont] =>
      pose proof (inc_loop ipf bound
                    (fun l i => (Some true, obj T (Some (cursor_py lc)) (Some (cursor_py (l, i)))
                                               (Some (gs_for true lc (l, i) T (Some [])))))
                    (obj T (Some (cursor_py lc)) (Some (cursor_py ic)) g) cond body kont) as HL end.
    feed HL. { intros level index. reflexivity. }
    feed HL.
    { clear HL. intros level index Hlv. cbv beta iota. mcn.
      unfold zlen. replace (Z.of_nat index <? Z.of_nat (length (ipf level)))%Z with (Nat.ltb index (length (ipf level)))
        by (destruct (Nat.ltb index (length (ipf level))) eqn:E;
            [apply Nat.ltb_lt in E; symmetry; apply Z.ltb_lt; lia | apply Nat.ltb_ge in E; symmetry; apply Z.ltb_ge; lia]).
      destruct (Nat.ltb index (length (ipf level))) eqn:E.
      - apply Nat.ltb_lt in E. mcn. rewrite (pyindex_nth (ipf level) index [] E). mcn.
        rewrite pyindex_nth_map by exact Hl2. mcn. reflexivity.
      - replace (Z.of_nat level + 1)%Z with (Z.of_nat (S level)) by lia.
        destruct (Z.of_nat maxl <? Z.of_nat (S level))%Z; [reflexivity|].
        destruct (bound <? Z.of_nat (S level))%Z; reflexivity. }
    unfold increase. replace (Nat.ltb maxl (fst ic)) with false by (symmetry; apply Nat.ltb_ge; lia).
    rewrite HL by lia.
    destruct (inc_cursor ipf (maxl - fst ic) (fst ic) (S (snd ic)) bound) as [[l i]|]; reflexivity.
  Qed.

  Lemma pyindex_zero {X} (l : list X) d : 0 < length l -> pyindex l 0%Z = Ok (nth 0 l d).
  Proof. exact (pyindex_nth l 0 d). Qed.

  Lemma s_ip_valid : cvalid ipf (s_ip, 0).
  Proof.
    destruct (ffo_spec maxl extra extra_le ipf s_ip Hs_ip) as (H1 & H2 & _).
    split; cbn [fst snd]; [exact H1 | destruct (ipf s_ip); [congruence | cbn; lia]].
  Qed.

  Lemma s_len_valid : cvalid lnf (s_len, 0).
  Proof.
    destruct (ffo_spec maxl extra extra_le lnf s_len Hs_len) as (H1 & H2 & _).
    split; cbn [fst snd]; [exact H1 | destruct (lnf s_len); [congruence | cbn; lia]].
  Qed.

  Theorem gen_increase_len fuel T lc ic g : cvalid lnf lc -> fuel > maxl ->
    py_mc_increase_len_for_target fuel (obj T (Some (cursor_py lc)) ic g) =
    Ok (match increase maxl lnf lc T with
        | Some lc' => (Some true, obj T (Some (cursor_py lc')) (Some (cursor_py (s_ip, 0)))
                                      (Some (gs_for true lc' (s_ip, 0) T (Some []))))
        | None => (Some false, obj T (Some (cursor_py lc)) ic g)
        end).
  Proof.
    intros [Hl1 Hl2] Hf. destruct s_ip_valid as [Hs1 Hs2]. cbn [fst snd] in Hs1, Hs2.
    unfold py_mc_increase_len_for_target. mcn.
    replace (Z.of_nat (snd lc) + 1)%Z with (Z.of_nat (S (snd lc))) by lia.
    match goal with |- context[mwhile ?fu ?cond ?body ?st ?kont] =>
      pose proof (inc_loop lnf T
                    (fun l i => (Some true, obj T (Some (cursor_py (l, i))) (Some (cursor_py (s_ip, 0)))
                                               (Some (gs_for true (l, i) (s_ip, 0) T (Some [])))))
                    (obj T (Some (cursor_py lc)) ic g) cond body kont) as HL end.
    feed HL. { intros level index. reflexivity. }
    feed HL.
    { clear HL. intros level index Hlv. cbv beta iota. mcn.
      unfold zlen. rewrite map_length.
      replace (Z.of_nat index <? Z.of_nat (length (lnf level)))%Z with (Nat.ltb index (length (lnf level)))
        by (destruct (Nat.ltb index (length (lnf level))) eqn:E;
            [apply Nat.ltb_lt in E; symmetry; apply Z.ltb_lt; lia | apply Nat.ltb_ge in E; symmetry; apply Z.ltb_ge; lia]).
      destruct (Nat.ltb index (length (lnf level))) eqn:E.
      - apply Nat.ltb_lt in E. mcn. rewrite (pyindex_zero (ipf s_ip) [] Hs2). mcn.
        rewrite pyindex_nth_map by exact E. mcn. reflexivity.
      - replace (Z.of_nat level + 1)%Z with (Z.of_nat (S level)) by lia.
        destruct (Z.of_nat maxl <? Z.of_nat (S level))%Z; [reflexivity|].
        destruct (T <? Z.of_nat (S level))%Z; reflexivity. }
    unfold increase. replace (Nat.ltb maxl (fst lc)) with false by (symmetry; apply Nat.ltb_ge; lia).
    rewrite HL by lia.
    destruct (inc_cursor lnf (maxl - fst lc) (fst lc) (S (snd lc)) T) as [[l i]|]; reflexivity.
  Qed.
End MC.
