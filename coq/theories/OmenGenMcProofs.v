(* The generated MarkovCracker code (gen/OmenGen_mc_gen.v: the translation of the
   Python text of MarkovCracker.__init__, _find_first_object,
   _increase_ip_for_target, _increase_len_for_target and next_guess, redone on
   every run) computes what the hand-written model of Omen.v computes (mc_starts,
   increase, mc_next), which is what the theorems of C10 / C15 are about.

   The Python object is related to the model's [mc_state] by [mc_rel]: the
   target level, the two cursors (Python ints), and - when the model says a
   GuessStructure exists - the GuessStructure object the constructor builds for
   these cursors, holding the model's parse tree.  Before the first next_guess and
   after the level is exhausted cur_guess is None and the cursors are not related
   (the Python object keeps None / the last cursors, the model keeps (0, 0) / the
   last cursors; neither is read before it is set again).

   The range _find_first_object scans is compared with the constant
   omen_first_object_extra the older extractor takes from the same source. *)
From Coq Require Import List Arith Bool NArith ZArith Lia.
From Pcfg Require Import OmenSpec Omen OmenProofs OmenProofs2 OmenProofs3 OmenProofs4 OmenGenRt OmenGenRtProofs
     OmenGenOptProofs OmenGenGsProofs OmenGenGsNextProofs.
From PcfgGen Require Import Consts_gen OmenGen_opt_gen OmenGen_gs_gen OmenGen_mc_gen.
Import ListNotations.

Lemma zrange_nat n : zrange 0 (Z.of_nat n) = map Z.of_nat (seq 0 n).
Proof.
  unfold zrange, OmenRt.zrange. rewrite Z.sub_0_r, Nat2Z.id. apply map_ext. intro i. lia.
Qed.

(* what the guesser does with a MarkovCracker (PcfgGrammar.omen_generate_guesses):
   next_guess until it returns None, here at most n times.  Returns the guesses,
   whether None was reached, and the final objects *)
Fixpoint py_mc_run (n fuel : nat) (m : pymc) (o : pyopt) : res (list ostr * bool * pymc * pyopt) :=
  match n with
  | 0 => Ok ([], false, m, o)
  | S n' =>
      r <- py_mc_next_guess fuel m o ;;
      match r with
      | (Some s, m', o') =>
          r' <- py_mc_run n' fuel m' o' ;;
          match r' with (l, d, m'', o'') => Ok (s :: l, d, m'', o'') end
      | (None, m', o') => Ok ([], true, m', o')
      end
  end.

Section MC.
  Variable ipf : nat -> list ostr.
  Variable lnf : nat -> list nat.
  Variable cp : cp_index.
  Variable maxl optmax : nat.
  Variable ngramZ : Z.
  Hypothesis cp_ne : cp_nonempty cp.
  Hypothesis lnf_pos : forall l k, In k (lnf l) -> 1 <= k.

  Notation cpf := (cpf_of cp).
  Notation extra := omen_first_object_extra.

  (* the grammar the loader builds from the tables *)
  Definition gram : pygrammar :=
    mk_pygrammar ngramZ (Z.of_nat maxl) (Z.of_nat maxl, ipf) (Z.of_nat maxl, fun l => map Z.of_nat (lnf l)) cp.

  Lemma tbl_get_in {X} (f : nat -> list X) l : l <= maxl -> tbl_get (Z.of_nat maxl, f) (Z.of_nat l) = Ok (f l).
  Proof.
    intro H. unfold tbl_get. cbn [fst snd].
    replace (0 <=? Z.of_nat l)%Z with true by (symmetry; apply Z.leb_le; lia).
    replace (Z.of_nat l <=? Z.of_nat maxl)%Z with true by (symmetry; apply Z.leb_le; lia).
    cbn [andb]. now rewrite Nat2Z.id.
  Qed.

  (* ---------------------------------------------------------------- *)
  (* _find_first_object                                                *)

  Lemma ffo_loop {X} (f : nat -> list X) (body : Z -> unit -> res (lctl Z unit)) (kont : unit -> res Z) :
    forall n a, a + n <= S maxl ->
    (forall l, l <= maxl -> body (Z.of_nat l) tt =
                            Ok (if negb (is_nil (f l)) then Return (Z.of_nat l) else Continue tt)) ->
    mfor (map Z.of_nat (seq a n)) body tt kont =
    match find (fun l => negb (is_nil (f l))) (seq a n) with
    | Some l => Ok (Z.of_nat l)
    | None => kont tt
    end.
  Proof.
    induction n as [|n IH]; intros a Ha Hb; cbn [seq map mfor find]; [reflexivity|].
    rewrite Hb by lia. destruct (negb (is_nil (f a))); [reflexivity|]. apply IH; [lia | exact Hb].
  Qed.

  Lemma zlen_is_nil {X} (l : list X) : negb (zlen l =? 0)%Z = negb (is_nil l).
  Proof. destruct l; [reflexivity|]. unfold zlen. cbn [length is_nil]. now destruct (Z.of_nat (S (length l))) eqn:E; try lia. Qed.

  Theorem gen_find_first_object {X} fuel (m : pymc) (f : nat -> list X) :
    m_max_level m = Z.of_nat maxl -> extra <= 1 ->
    py_mc_find_first_object fuel m (Z.of_nat maxl, f) =
    match find_first_object maxl extra f with
    | Some l => Ok (Z.of_nat l)
    | None => Raise PyException
    end.
  Proof.
    intros Hm He. unfold py_mc_find_first_object, find_first_object. rewrite Hm.
    match goal with |- context[zrange 0 ?b] =>
      replace b with (Z.of_nat (maxl + extra)) by (unfold extra; lia) end.
    rewrite zrange_nat. rewrite (ffo_loop f); [reflexivity | lia |].
    intros l Hl. rewrite tbl_get_in by exact Hl. cbn [bind]. rewrite zlen_is_nil.
    destruct (negb (is_nil (f l))); reflexivity.
  Qed.
  (* ---------------------------------------------------------------- *)
  (* __init__                                                          *)

  Lemma ffo_map {X Y} (g : X -> Y) (f : nat -> list X) :
    find_first_object maxl extra (fun l => map g (f l)) = find_first_object maxl extra f.
  Proof.
    unfold find_first_object. generalize (seq 0 (maxl + extra)). intro ls.
    induction ls as [|l r IH]; cbn [find]; [reflexivity|]. rewrite IH. now destruct (f l).
  Qed.

  (* a MarkovCracker object of this grammar: everything but the cursors and the
     current GuessStructure is fixed by the constructor *)
  Definition py_obj (s_ip s_len : nat) (T : Z) (cl ci : pycursor) (g : option pygs) : pymc :=
    mk_pymc gram (Z.of_nat maxl) (ngramZ - 1)%Z (Z.of_nat s_ip) (Z.of_nat s_len) T cl ci g.

  Theorem gen_mc_init fuel T : extra <= 1 ->
    py_mc_init fuel gram T =
    match mc_starts ipf lnf maxl extra with
    | Some (a, b) => Ok (py_obj a b T None None None)
    | None => Raise PyException
    end.
  Proof.
    intro He. unfold py_mc_init, mc_starts.
    cbn [set_m_grammar set_m_max_level set_m_length_ip m_grammar m_max_level pymc_blank g_ip g_ln g_max_level g_ngram gram].
    rewrite gen_find_first_object by (try reflexivity; exact He).
    destruct (find_first_object maxl extra ipf) as [a|]; cbn [bind]; [|reflexivity].
    cbn [set_m_start_ip set_m_grammar set_m_max_level set_m_length_ip m_grammar m_max_level pymc_blank g_ip g_ln
         g_max_level g_ngram gram].
    rewrite gen_find_first_object by (try reflexivity; exact He). rewrite ffo_map.
    destruct (find_first_object maxl extra lnf) as [b|]; cbn [bind]; reflexivity.
  Qed.

  (* ---------------------------------------------------------------- *)
  (* the cursors                                                       *)

  Variable s_ip s_len : nat.
  Hypothesis Hs_ip : find_first_object maxl extra ipf = Some s_ip.
  Hypothesis Hs_len : find_first_object maxl extra lnf = Some s_len.
  Hypothesis extra_le : extra <= 1.

  Definition cvalid {X} (tbl : nat -> list X) (cur : nat * nat) : Prop :=
    fst cur <= maxl /\ snd cur < length (tbl (fst cur)).

  (* the GuessStructure the constructor builds for two cursors *)
  Definition gs_for (fg : bool) (lc ic : nat * nat) (T : Z) (pt : option pytree) : pygs :=
    mk_pygs fg cp (Z.of_nat maxl) (nth (snd ic) (ipf (fst ic)) []) (zlen (nth (snd ic) (ipf (fst ic)) []))
            (Z.of_nat (nth (snd lc) (lnf (fst lc)) 0)) (T - Z.of_nat (fst lc) - Z.of_nat (fst ic))%Z pt.

  Notation obj := (py_obj s_ip s_len).

  Lemma cur_get_fst a b : cur_get (Some (a, b)) 0%Z = Ok a.
  Proof. reflexivity. Qed.
  Lemma cur_get_snd a b : cur_get (Some (a, b)) 1%Z = Ok b.
  Proof. reflexivity. Qed.
  Lemma cur_get_cfst c : cur_get (Some (cursor_py c)) 0%Z = Ok (Z.of_nat (fst c)).
  Proof. reflexivity. Qed.
  Lemma cur_get_csnd c : cur_get (Some (cursor_py c)) 1%Z = Ok (Z.of_nat (snd c)).
  Proof. reflexivity. Qed.

  Lemma pyindex_nth {X} (l : list X) i d : i < length l -> pyindex l (Z.of_nat i) = Ok (nth i l d).
  Proof.
    intro H. destruct (nth_error l i) as [x|] eqn:E; [|apply nth_error_None in E; lia].
    rewrite (pyindex_nat _ _ _ E). now rewrite (nth_error_nth _ _ d E).
  Qed.

  Lemma pyindex_nth_map (l : list nat) i : i < length l ->
    pyindex (map Z.of_nat l) (Z.of_nat i) = Ok (Z.of_nat (nth i l 0)).
  Proof.
    intro H. rewrite (pyindex_nth _ _ 0%Z) by (now rewrite map_length).
    change 0%Z with (Z.of_nat 0). now rewrite map_nth.
  Qed.

  (* the loop shared by _increase_ip_for_target and _increase_len_for_target *)
  Lemma inc_loop {X} (tbl : nat -> list X) (bound : Z) (F : nat -> nat -> option bool * pymc) (m : pymc)
        (cond : pymc * Z * Z -> res bool)
        (body : pymc * Z * Z -> res (lctl (option bool * pymc) (pymc * Z * Z)))
        (kont : pymc * Z * Z -> res (option bool * pymc)) :
    (forall level index, cond (m, level, index) = Ok (level <=? Z.of_nat maxl)%Z) ->
    (forall level index, level <= maxl ->
       body (m, Z.of_nat level, Z.of_nat index) =
       Ok (if Nat.ltb index (length (tbl level)) then Return (F level index)
           else if (Z.of_nat maxl <? Z.of_nat (S level))%Z then Return (Some false, m)
           else if (bound <? Z.of_nat (S level))%Z then Return (Some false, m)
           else Continue (m, Z.of_nat (S level), 0%Z))) ->
    forall fuel level index, level <= maxl -> fuel > maxl - level ->
      mwhile fuel cond body (m, Z.of_nat level, Z.of_nat index) kont =
      Ok (match inc_cursor tbl (maxl - level) level index bound with
          | Some (l, i) => F l i
          | None => (Some false, m)
          end).
  Proof.
    intros Hcond Hbody. induction fuel as [|f IH]; intros level index Hl Hf; [lia|].
    cbn [mwhile]. rewrite Hcond.
    replace (Z.of_nat level <=? Z.of_nat maxl)%Z with true by (symmetry; apply Z.leb_le; lia).
    rewrite Hbody by exact Hl.
    destruct (maxl - level) as [|d'] eqn:Ed; cbn [inc_cursor];
      destruct (Nat.ltb index (length (tbl level))); try reflexivity.
    - replace (Z.of_nat maxl <? Z.of_nat (S level))%Z with true by (symmetry; apply Z.ltb_lt; lia). reflexivity.
    - replace (Z.of_nat maxl <? Z.of_nat (S level))%Z with false by (symmetry; apply Z.ltb_ge; lia).
      destruct (bound <? Z.of_nat (S level))%Z; [reflexivity|].
      change 0%Z with (Z.of_nat 0). rewrite IH by lia. now replace (maxl - S level) with d' by lia.
  Qed.

  Ltac mcn :=
    repeat first [rewrite cur_get_fst | rewrite cur_get_snd | rewrite cur_get_cfst | rewrite cur_get_csnd
                 | rewrite tbl_get_in by lia
                 | progress cbn [bind set_m_cur_ip set_m_cur_len set_m_cur_guess m_cur_ip m_cur_len m_cur_guess m_grammar
                                 m_max_level m_target_level m_start_ip m_start_length py_obj g_ip g_ln g_cp gram cursor_py fst snd]].

  Theorem gen_increase_ip fuel T lc ic g bound : cvalid lnf lc -> cvalid ipf ic -> fuel > maxl ->
    py_mc_increase_ip_for_target fuel (obj T (Some (cursor_py lc)) (Some (cursor_py ic)) g) bound =
    Ok (match increase maxl ipf ic bound with
        | Some ic' => (Some true, obj T (Some (cursor_py lc)) (Some (cursor_py ic')) (Some (gs_for true lc ic' T (Some []))))
        | None => (Some false, obj T (Some (cursor_py lc)) (Some (cursor_py ic)) g)
        end).
  Proof.
    intros [Hl1 Hl2] [Hi1 Hi2] Hf. unfold py_mc_increase_ip_for_target. mcn.
    replace (Z.of_nat (snd ic) + 1)%Z with (Z.of_nat (S (snd ic))) by lia.
    match goal with |- context[mwhile ?fu ?cond ?body ?st ?kont] =>
      pose proof (inc_loop ipf bound
                    (fun l i => (Some true, obj T (Some (cursor_py lc)) (Some (cursor_py (l, i)))
                                               (Some (gs_for true lc (l, i) T (Some [])))))
                    (obj T (Some (cursor_py lc)) (Some (cursor_py ic)) g) cond body kont) as HL end.
    feed HL. { intros level index. reflexivity. }
    feed HL.
    { clear HL. intros level index Hlv. cbv beta iota. mcn.
      unfold zlen. replace (Z.of_nat index <? Z.of_nat (length (ipf level)))%Z with (Nat.ltb index (length (ipf level)))
        by (destruct (Nat.ltb index (length (ipf level))) eqn:E;
            [apply Nat.ltb_lt in E; symmetry; apply Z.ltb_lt; lia | apply Nat.ltb_ge in E; symmetry; apply Z.ltb_ge; lia]).
      destruct (Nat.ltb index (length (ipf level))) eqn:E.
      - apply Nat.ltb_lt in E. mcn. rewrite (pyindex_nth (ipf level) index [] E). mcn.
        rewrite pyindex_nth_map by exact Hl2. mcn. reflexivity.
      - replace (Z.of_nat level + 1)%Z with (Z.of_nat (S level)) by lia.
        destruct (Z.of_nat maxl <? Z.of_nat (S level))%Z; [reflexivity|].
        destruct (bound <? Z.of_nat (S level))%Z; reflexivity. }
    unfold increase. replace (Nat.ltb maxl (fst ic)) with false by (symmetry; apply Nat.ltb_ge; lia).
    rewrite HL by lia.
    destruct (inc_cursor ipf (maxl - fst ic) (fst ic) (S (snd ic)) bound) as [[l i]|]; reflexivity.
  Qed.

  Lemma pyindex_zero {X} (l : list X) d : 0 < length l -> pyindex l 0%Z = Ok (nth 0 l d).
  Proof. exact (pyindex_nth l 0 d). Qed.

  Lemma s_ip_valid : cvalid ipf (s_ip, 0).
  Proof.
    destruct (ffo_spec maxl extra extra_le ipf s_ip Hs_ip) as (H1 & H2 & _).
    split; cbn [fst snd]; [exact H1 | destruct (ipf s_ip); [congruence | cbn; lia]].
  Qed.

  Lemma s_len_valid : cvalid lnf (s_len, 0).
  Proof.
    destruct (ffo_spec maxl extra extra_le lnf s_len Hs_len) as (H1 & H2 & _).
    split; cbn [fst snd]; [exact H1 | destruct (lnf s_len); [congruence | cbn; lia]].
  Qed.

  Theorem gen_increase_len fuel T lc ic g : cvalid lnf lc -> fuel > maxl ->
    py_mc_increase_len_for_target fuel (obj T (Some (cursor_py lc)) ic g) =
    Ok (match increase maxl lnf lc T with
        | Some lc' => (Some true, obj T (Some (cursor_py lc')) (Some (cursor_py (s_ip, 0)))
                                      (Some (gs_for true lc' (s_ip, 0) T (Some []))))
        | None => (Some false, obj T (Some (cursor_py lc)) ic g)
        end).
  Proof.
    intros [Hl1 Hl2] Hf. destruct s_ip_valid as [Hs1 Hs2]. cbn [fst snd] in Hs1, Hs2.
    unfold py_mc_increase_len_for_target. mcn.
    replace (Z.of_nat (snd lc) + 1)%Z with (Z.of_nat (S (snd lc))) by lia.
    match goal with |- context[mwhile ?fu ?cond ?body ?st ?kont] =>
      pose proof (inc_loop lnf T
                    (fun l i => (Some true, obj T (Some (cursor_py (l, i))) (Some (cursor_py (s_ip, 0)))
                                               (Some (gs_for true (l, i) (s_ip, 0) T (Some [])))))
                    (obj T (Some (cursor_py lc)) ic g) cond body kont) as HL end.
    feed HL. { intros level index. reflexivity. }
    feed HL.
    { clear HL. intros level index Hlv. cbv beta iota. mcn.
      unfold zlen. rewrite map_length.
      replace (Z.of_nat index <? Z.of_nat (length (lnf level)))%Z with (Nat.ltb index (length (lnf level)))
        by (destruct (Nat.ltb index (length (lnf level))) eqn:E;
            [apply Nat.ltb_lt in E; symmetry; apply Z.ltb_lt; lia | apply Nat.ltb_ge in E; symmetry; apply Z.ltb_ge; lia]).
      destruct (Nat.ltb index (length (lnf level))) eqn:E.
      - apply Nat.ltb_lt in E. mcn. rewrite (pyindex_zero (ipf s_ip) [] Hs2). mcn.
        rewrite pyindex_nth_map by exact E. mcn. reflexivity.
      - replace (Z.of_nat level + 1)%Z with (Z.of_nat (S level)) by lia.
        destruct (Z.of_nat maxl <? Z.of_nat (S level))%Z; [reflexivity|].
        destruct (T <? Z.of_nat (S level))%Z; reflexivity. }
    unfold increase. replace (Nat.ltb maxl (fst lc)) with false by (symmetry; apply Nat.ltb_ge; lia).
    rewrite HL by lia.
    destruct (inc_cursor lnf (maxl - fst lc) (fst lc) (S (snd lc)) T) as [[l i]|]; reflexivity.
  Qed.

  (* ---------------------------------------------------------------- *)
  (* next_guess                                                        *)

  Notation minv := (inv cp maxl optmax).
  Notation compl := (completions_f cpf maxl).
  Notation fmt := (format_guess cpf).
  Notation gsnext := (gs_next cpf maxl optmax).
  Notation mcloop := (mc_loop ipf cpf lnf maxl optmax).
  Notation mcnext := (mc_next ipf cpf lnf maxl optmax).

  (* the Python object of a model state in the middle of a level *)
  Definition gs_of (st : mc_state) : pygs :=
    gs_for (mc_first st) (mc_len st) (mc_ip st) (mc_target st) (Some (tree_py (mc_tree st))).
  Definition mk_py (st : mc_state) : pymc :=
    obj (mc_target st) (Some (cursor_py (mc_len st))) (Some (cursor_py (mc_ip st))) (Some (gs_of st)).
  Definition mc_rel (st : mc_state) (m : pymc) : Prop :=
    if mc_started st then m = mk_py st else exists cl ci, m = obj (mc_target st) cl ci None.

  (* a state at rest between two calls of next_guess *)
  Definition st_ok (st : mc_state) : Prop :=
    mc_started st = true ->
    cvalid lnf (mc_len st) /\ cvalid ipf (mc_ip st) /\
    In (mc_tree st) (compl (cur_k lnf st) (cur_ipstr ipf st) (cur_target st)).

  Definition out_py (o : mc_out) : option ostr := match o with Guess s => Some s | _ => None end.

  (* the largest number of transitions a length asks for: bounds the fuel of the fills *)
  Definition kmax : nat := list_max (flat_map lnf (seq 0 (S maxl))).

  Lemma cur_k_le lc : cvalid lnf lc -> nth (snd lc) (lnf (fst lc)) 0 <= kmax.
  Proof.
    intros [H1 H2]. unfold kmax. apply list_max_In. apply in_flat_map. exists (fst lc). split.
    - apply in_seq. lia.
    - now apply nth_In.
  Qed.

  Lemma cur_k_ge1 lc : cvalid lnf lc -> 1 <= nth (snd lc) (lnf (fst lc)) 0.
  Proof. intros [H1 H2]. apply (lnf_pos (fst lc)). now apply nth_In. Qed.

  Definition mc_py_fuel (fuelM : nat) : nat := fuelM + fill_fuel cp maxl kmax + maxl + 3.

  (* one round of the `while guess is None` loop of the model *)
  Definition start_gs (T : Z) (lc ic : nat * nat) : mc_state := mk_mc T true lc ic [] true.

  Definition first_of (c : cache) (st : mc_state) : option tree * cache :=
    gsnext c (cur_ipstr ipf st) (cur_k lnf st) (cur_target st) [].

  Definition mc_step (c : cache) (st : mc_state) : option (mc_state * option tree * cache) :=
    match increase maxl ipf (mc_ip st) (mc_target st - Z.of_nat (fst (mc_len st)))%Z with
    | Some ipc => let st' := start_gs (mc_target st) (mc_len st) ipc in
                  Some (st', fst (first_of c st'), snd (first_of c st'))
    | None =>
        match increase maxl lnf (mc_len st) (mc_target st) with
        | Some lc => let st' := start_gs (mc_target st) lc (s_ip, 0) in
                     Some (st', fst (first_of c st'), snd (first_of c st'))
        | None => None
        end
    end.

  Lemma mc_loop_S f c st :
    mcloop (S f) s_ip c st None =
    match mc_step c st with
    | Some (st', r', c') => mcloop f s_ip c' st' r'
    | None => (Done, mk_mc (mc_target st) false (mc_len st) (mc_ip st) [] true, c)
    end.
  Proof.
    cbn [mc_loop]. unfold mc_step, first_of, start_gs.
    destruct (increase maxl ipf (mc_ip st) (mc_target st - Z.of_nat (fst (mc_len st)))) as [ipc|].
    - cbv zeta. destruct (gsnext c _ _ _ []) as [r' c']. reflexivity.
    - destruct (increase maxl lnf (mc_len st) (mc_target st)) as [lc|]; [|reflexivity].
      cbv zeta. destruct (gsnext c _ _ _ []) as [r' c']. reflexivity.
  Qed.

  (* the object while next_guess runs: the GuessStructure holds whatever its own
     next_guess left in parse_tree *)
  Definition P (st : mc_state) (pt : option pytree) : pymc :=
    obj (mc_target st) (Some (cursor_py (mc_len st))) (Some (cursor_py (mc_ip st)))
        (Some (set_gs_parse_tree (gs_of st) pt)).

  Definition link (st : mc_state) (r : option tree) (pt : option pytree) : Prop :=
    match r with
    | Some t => pt = Some (tree_py t) /\ In t (compl (cur_k lnf st) (cur_ipstr ipf st) (cur_target st))
    | None => pt = Some [] \/ pt = None
    end.

  Definition running (st : mc_state) : Prop :=
    mc_started st = true /\ cvalid lnf (mc_len st) /\ cvalid ipf (mc_ip st).

  Lemma mc_while
        (cond : pymc * option ostr * pyopt -> res bool)
        (body : pymc * option ostr * pyopt -> res (lctl (option ostr * pymc * pyopt) (pymc * option ostr * pyopt)))
        (kont : pymc * option ostr * pyopt -> res (option ostr * pymc * pyopt)) :
    (forall m g o, cond (m, g, o) = Ok (is_none g)) ->
    (forall m g o, kont (m, g, o) = Ok (g, m, o)) ->
    (forall st pt o c, running st -> minv o c -> (pt = Some [] \/ pt = None) ->
       match mc_step c st with
       | Some (st', r', c') =>
           exists o' pt', minv o' c' /\ running st' /\ link st' r' pt' /\
             body (P st pt, None, o) = Ok (Continue (P st' pt', option_map (fmt (cur_ipstr ipf st')) r', o'))
       | None =>
           body (P st pt, None, o) =
           Ok (Return (None, obj (mc_target st) (Some (cursor_py (mc_len st))) (Some (cursor_py (mc_ip st))) None, o))
       end) ->
    forall fuelM fuelP st r pt o c, fuelP > fuelM -> running st -> minv o c -> link st r pt ->
      fst (fst (mcloop fuelM s_ip c st r)) <> Omen.OutOfFuel ->
      exists o2 m2,
        mwhile fuelP cond body (P st pt, option_map (fmt (cur_ipstr ipf st)) r, o) kont =
          Ok (out_py (fst (fst (mcloop fuelM s_ip c st r))), m2, o2) /\
        minv o2 (snd (mcloop fuelM s_ip c st r)) /\
        mc_rel (snd (fst (mcloop fuelM s_ip c st r))) m2 /\
        st_ok (snd (fst (mcloop fuelM s_ip c st r))).
  Proof.
    intros Hcond Hkont Hbody. induction fuelM as [|f IH]; intros fuelP st r pt o c Hf Hrun Hinv Hlink Hnoof;
      (destruct fuelP as [|fp]; [lia|]); cbn [mwhile]; rewrite Hcond.
    - destruct r as [t|]; [|cbn [mc_loop fst] in Hnoof; congruence].
      cbn [option_map is_none mc_loop fst snd out_py]. rewrite Hkont. destruct Hlink as [-> Hin].
      exists o, (P st (Some (tree_py t))). split; [reflexivity|]. split; [exact Hinv|].
      destruct Hrun as (Hs & Hvl & Hvi). split.
      + unfold mc_rel. cbn [mc_started]. reflexivity.
      + intros _. cbn [mc_len mc_ip mc_tree]. repeat split; try apply Hvl; try apply Hvi. exact Hin.
    - destruct r as [t|].
      + cbn [option_map is_none mc_loop fst snd out_py]. rewrite Hkont. destruct Hlink as [-> Hin].
        exists o, (P st (Some (tree_py t))). split; [reflexivity|]. split; [exact Hinv|].
        destruct Hrun as (Hs & Hvl & Hvi). split.
        * unfold mc_rel. cbn [mc_started]. reflexivity.
        * intros _. cbn [mc_len mc_ip mc_tree]. repeat split; try apply Hvl; try apply Hvi. exact Hin.
      + cbn [option_map is_none]. rewrite mc_loop_S in *.
        specialize (Hbody st pt o c Hrun Hinv Hlink).
        destruct (mc_step c st) as [[[st' r'] c']|].
        * destruct Hbody as (o' & pt' & Hinv' & Hrun' & Hlink' & Hb). rewrite Hb.
          apply IH; [lia | exact Hrun' | exact Hinv' | exact Hlink' | exact Hnoof].
        * rewrite Hbody. cbn [fst snd out_py].
          eexists o, _. split; [reflexivity|]. split; [exact Hinv|]. split.
          -- unfold mc_rel. cbn [mc_started mc_target]. eauto.
          -- intro H. cbn [mc_started] in H. discriminate.
  Qed.
  (* running the GuessStructure of a state *)
  Lemma gs_ok_of st : gs_ok cp maxl (gs_of st).
  Proof. split; reflexivity. Qed.

  Lemma run_gs fuel st o c : running st -> minv o c ->
    (mc_tree st = [] \/ In (mc_tree st) (compl (cur_k lnf st) (cur_ipstr ipf st) (cur_target st))) ->
    fuel >= fill_fuel cp maxl kmax + 1 ->
    exists o' pt',
      py_gs_next_guess fuel (gs_of st) o =
        Ok (option_map (fmt (cur_ipstr ipf st))
                       (fst (gsnext c (cur_ipstr ipf st) (cur_k lnf st) (cur_target st) (mc_tree st))),
            set_gs_parse_tree (gs_of st) pt', o') /\
      minv o' (snd (gsnext c (cur_ipstr ipf st) (cur_k lnf st) (cur_target st) (mc_tree st))) /\
      link st (fst (gsnext c (cur_ipstr ipf st) (cur_k lnf st) (cur_target st) (mc_tree st))) pt'.
  Proof.
    intros (Hs & Hvl & Hvi) Hinv Ht Hf.
    pose proof (cur_k_le _ Hvl) as Hk1. pose proof (cur_k_ge1 _ Hvl) as Hk2.
    assert (length (mc_tree st) <= cur_k lnf st) as Hlen.
    { destruct Ht as [-> | Hin]; [cbn; lia|]. rewrite (compl_length cpf maxl _ _ _ _ Hin). lia. }
    destruct (gen_gs_next cp maxl optmax cp_ne (gs_of st) (gs_ok_of st) fuel (gs_of st) o c (cur_k lnf st) (mc_tree st)
                          Hinv Hk2 Ht eq_refl (or_introl eq_refl)) as (o' & pt' & E & Hinv' & Hpost).
    { unfold gs_fuel, fill_fuel in *. unfold cur_k in *. lia. }
    exists o', pt'. split; [exact E|]. split; [exact Hinv' | exact Hpost].
  Qed.

  Lemma P_link_some st t : P st (Some (tree_py t)) = mk_py (mk_mc (mc_target st) true (mc_len st) (mc_ip st) t (mc_first st)).
  Proof. reflexivity. Qed.

  Lemma mk_py_P st : mk_py st = P st (Some (tree_py (mc_tree st))).
  Proof. reflexivity. Qed.

  Lemma running_start T lc ic : cvalid lnf lc -> cvalid ipf ic -> running (start_gs T lc ic).
  Proof. intros H1 H2. repeat split; try apply H1; apply H2. Qed.

  Lemma obj_cur_len T cl ci g : m_cur_len (obj T cl ci g) = cl. Proof. reflexivity. Qed.
  Lemma obj_cur_ip T cl ci g : m_cur_ip (obj T cl ci g) = ci. Proof. reflexivity. Qed.
  Lemma obj_cur_guess T cl ci g : m_cur_guess (obj T cl ci g) = g. Proof. reflexivity. Qed.
  Lemma obj_target T cl ci g : m_target_level (obj T cl ci g) = T. Proof. reflexivity. Qed.
  Lemma obj_set_guess T cl ci g v : set_m_cur_guess (obj T cl ci g) v = obj T cl ci v. Proof. reflexivity. Qed.

  Ltac mcn2 :=
    repeat first [rewrite obj_cur_len | rewrite obj_cur_ip | rewrite obj_cur_guess | rewrite obj_target
                 | rewrite obj_set_guess | rewrite cur_get_cfst | rewrite cur_get_csnd
                 | progress cbn [bind not_none fst snd]].

  Theorem gen_mc_next fuelM fuel st m o c :
    mc_rel st m -> st_ok st -> minv o c -> fuel >= mc_py_fuel fuelM ->
    fst (fst (mcnext fuelM (s_ip, s_len) c st)) <> Omen.OutOfFuel ->
    exists o2 m2,
      py_mc_next_guess fuel m o = Ok (out_py (fst (fst (mcnext fuelM (s_ip, s_len) c st))), m2, o2) /\
      minv o2 (snd (mcnext fuelM (s_ip, s_len) c st)) /\
      mc_rel (snd (fst (mcnext fuelM (s_ip, s_len) c st))) m2 /\
      st_ok (snd (fst (mcnext fuelM (s_ip, s_len) c st))).
  Proof.
    intros Hrel Hok Hinv Hfuel Hnoof. unfold mc_py_fuel in Hfuel.
    destruct s_ip_valid as [Hsi1 Hsi2]. destruct s_len_valid as [Hsl1 Hsl2]. cbn [fst snd] in Hsi1, Hsi2, Hsl1, Hsl2.
    unfold mc_next in *. cbn [fst snd] in *.
    set (st0 := if mc_started st then st else mk_mc (mc_target st) true (s_len, 0) (s_ip, 0) [] true) in *.
    assert (Hrun0 : running st0).
    { subst st0. destruct (mc_started st) eqn:Es.
      - destruct (Hok Es) as (H1 & H2 & H3). repeat split; auto; try apply H1; try apply H2.
      - repeat split; cbn [mc_len mc_ip fst snd]; assumption. }
    assert (Htree0 : mc_tree st0 = [] \/ In (mc_tree st0) (compl (cur_k lnf st0) (cur_ipstr ipf st0) (cur_target st0))).
    { subst st0. destruct (mc_started st) eqn:Es; [right; apply (Hok Es) | now left]. }
    unfold py_mc_next_guess.
    (* the `if self.cur_guess is None:` block leaves the object of st0 *)
    match goal with |- exists o2 m2, bind ?blk ?K = _ /\ _ =>
      assert (Hblk : blk = Ok (mk_py st0)) end.
    { subst st0. unfold mc_rel in Hrel. destruct (mc_started st) eqn:Es.
      - subst m. reflexivity.
      - destruct Hrel as (cl & ci & ->). cbn [is_none m_cur_guess py_obj]. mcn.
        rewrite (pyindex_zero (ipf s_ip) [] Hsi2). mcn.
        change 0%Z with (Z.of_nat 0) at 1. rewrite pyindex_nth_map by exact Hsl2. mcn. reflexivity. }
    rewrite Hblk. cbn [bind]. clear Hblk.
    (* the first call of the GuessStructure *)
    destruct (run_gs fuel st0 o c Hrun0 Hinv Htree0 ltac:(lia)) as (o1 & pt1 & Egs & Hinv1 & Hlink1).
    change (m_cur_guess (mk_py st0)) with (Some (gs_of st0)). cbn [not_none bind].
    rewrite Egs. cbn [bind].
    change (set_m_cur_guess (mk_py st0) (Some (set_gs_parse_tree (gs_of st0) pt1))) with (P st0 pt1).
    destruct (gsnext c (cur_ipstr ipf st0) (cur_k lnf st0) (cur_target st0) (mc_tree st0)) as [r1 c1] eqn:Eg1.
    cbn [fst snd] in *.
    (* the `while guess is None` loop *)
    match goal with |- context[mwhile ?fu ?cond ?body ?st ?kont] =>
      pose proof (mc_while cond body kont) as HW end.
    feed HW. { intros m0 g0 o0. reflexivity. }
    feed HW. { intros m0 g0 o0. reflexivity. }
    feed HW.
    { clear HW. intros st1 pt o2 c2 Hrun Hinv2 Hpt. destruct Hrun as (Hs1 & Hvl1 & Hvi1).
      cbv beta iota. unfold P. mcn2.
      rewrite (gen_increase_ip fuel _ _ _ _ _ Hvl1 Hvi1) by lia. cbn [bind].
      unfold mc_step.
      destruct (increase maxl ipf (mc_ip st1) (mc_target st1 - Z.of_nat (fst (mc_len st1)))) as [ipc|] eqn:Einc.
      - (* the next IP of this length *)
        cbn [btruthy negb mblock].
        assert (Hvi' : cvalid ipf ipc).
        { unfold increase in Einc. destruct (Nat.ltb maxl (fst (mc_ip st1))); [discriminate|].
          destruct ipc as [l' i'].
          destruct (inc_cursor_some ipf (fun _ _ => @nil unit) _ _ _ _ _ _ Einc) as (A1 & A2 & A3 & _).
          destruct Hvi1 as [Hv1 _]. split; cbn [fst snd]; [lia | exact A1]. }
        set (st' := start_gs (mc_target st1) (mc_len st1) ipc).
        pose proof (running_start (mc_target st1) _ _ Hvl1 Hvi') as Hrun'. fold st' in Hrun'.
        destruct (run_gs fuel st' o2 c2 Hrun' Hinv2 (or_introl eq_refl) ltac:(lia)) as (o3 & pt3 & Egs3 & Hinv3 & Hlink3).
        mcn2. change (gs_for true (mc_len st1) ipc (mc_target st1) (Some [])) with (gs_of st').
        rewrite Egs3. mcn2.
        exists o3, pt3. split; [exact Hinv3|]. split; [exact Hrun'|]. split; [exact Hlink3 | reflexivity].
      - (* no IP left: the next length *)
        cbn [btruthy negb].
        rewrite (gen_increase_len fuel _ _ _ _ Hvl1) by lia. cbn [bind].
        destruct (increase maxl lnf (mc_len st1) (mc_target st1)) as [lc|] eqn:Einc2.
        + cbn [btruthy negb mblock].
          assert (Hvl' : cvalid lnf lc).
          { unfold increase in Einc2. destruct (Nat.ltb maxl (fst (mc_len st1))); [discriminate|].
            destruct lc as [l' i'].
            destruct (inc_cursor_some lnf (fun _ _ => @nil unit) _ _ _ _ _ _ Einc2) as (A1 & A2 & A3 & _).
            destruct Hvl1 as [Hv1 _]. split; cbn [fst snd]; [lia | exact A1]. }
          set (st' := start_gs (mc_target st1) lc (s_ip, 0)).
          pose proof (running_start (mc_target st1) _ _ Hvl' s_ip_valid) as Hrun'. fold st' in Hrun'.
          destruct (run_gs fuel st' o2 c2 Hrun' Hinv2 (or_introl eq_refl) ltac:(lia)) as (o3 & pt3 & Egs3 & Hinv3 & Hlink3).
          mcn2. change (gs_for true lc (s_ip, 0) (mc_target st1) (Some [])) with (gs_of st').
          rewrite Egs3. mcn2.
          exists o3, pt3. split; [exact Hinv3|]. split; [exact Hrun'|]. split; [exact Hlink3 | reflexivity].
        + cbn [btruthy negb mblock]. mcn2. reflexivity. }
    destruct (HW fuelM fuel st0 r1 pt1 o1 c1 ltac:(lia) Hrun0 Hinv1 Hlink1 Hnoof) as (o2 & m2 & E2 & Hinv2 & Hrel2 & Hok2).
    exists o2, m2. split; [exact E2|]. split; [exact Hinv2|]. split; [exact Hrel2 | exact Hok2].
  Qed.

  (* ---------------------------------------------------------------- *)
  (* n calls of next_guess                                             *)

  Notation mcrun := (mc_run ipf cpf lnf maxl optmax).

  Definition is_done (o : mc_out) : bool := match o with Done => true | _ => false end.

  Theorem gen_mc_run fuelM : forall n fuel st m o c,
    mc_rel st m -> st_ok st -> minv o c -> fuel >= mc_py_fuel fuelM ->
    snd (fst (fst (mcrun n fuelM (s_ip, s_len) c st))) <> Omen.OutOfFuel ->
    exists o2 m2,
      py_mc_run n fuel m o =
        Ok (fst (fst (fst (mcrun n fuelM (s_ip, s_len) c st))),
            is_done (snd (fst (fst (mcrun n fuelM (s_ip, s_len) c st)))), m2, o2) /\
      minv o2 (snd (mcrun n fuelM (s_ip, s_len) c st)) /\
      mc_rel (snd (fst (mcrun n fuelM (s_ip, s_len) c st))) m2 /\
      st_ok (snd (fst (mcrun n fuelM (s_ip, s_len) c st))).
  Proof.
    induction n as [|n IH]; intros fuel st m o c Hrel Hok Hinv Hfuel Hnoof.
    - cbn [mc_run py_mc_run fst snd is_done]. exists o, m. split; [reflexivity|]. split; [assumption|]. split; assumption.
    - cbn [mc_run py_mc_run] in *.
      pose proof (gen_mc_next fuelM fuel st m o c Hrel Hok Hinv Hfuel) as Hstep.
      destruct (mcnext fuelM (s_ip, s_len) c st) as [[out st'] c'] eqn:En. cbn [fst snd] in Hstep.
      destruct out as [s| |].
      + destruct (Hstep ltac:(discriminate)) as (o1 & m1 & E1 & Hinv1 & Hrel1 & Hok1).
        rewrite E1. cbn [bind out_py].
        specialize (IH fuel st' m1 o1 c' Hrel1 Hok1 Hinv1 Hfuel).
        destruct (mcrun n fuelM (s_ip, s_len) c' st') as [[[l o'] st''] c''] eqn:Er. cbn [fst snd] in *.
        destruct (IH Hnoof) as (o2 & m2 & E2 & Hinv2 & Hrel2 & Hok2).
        rewrite E2. cbn [bind]. exists o2, m2. split; [reflexivity|]. split; [assumption|]. split; assumption.
      + destruct (Hstep ltac:(discriminate)) as (o1 & m1 & E1 & Hinv1 & Hrel1 & Hok1).
        rewrite E1. cbn [bind out_py fst snd is_done]. exists o1, m1. split; [reflexivity|]. split; [assumption|]. split; assumption.
      + cbn [fst snd] in Hnoof. congruence.
  Qed.

End MC.
