(* The generated MarkovCracker code (gen/OmenGen_mc_gen.v: the translation of the
   Python text of MarkovCracker.__init__, _find_first_object,
   _increase_ip_for_target, _increase_len_for_target and next_guess, redone on
   every run) computes what the hand-written model of Omen.v computes (mc_starts,
   increase, mc_next), which is what the theorems of C10 / C15 are about.

   The Python object is related to the model's [mc_state] by [mc_rel]: the
   target level, the two cursors (Python ints), and - when the model says a
   GuessStructure exists - the GuessStructure object the constructor builds for
   these cursors, holding the model's parse tree.  Before the first next_guess and
   after the level is exhausted cur_guess is None and the cursors are not related
   (the Python object keeps None / the last cursors, the model keeps (0, 0) / the
   last cursors; neither is read before it is set again).

   The range _find_first_object scans is compared with the constant
   omen_first_object_extra the older extractor takes from the same source. *)
From Coq Require Import List Arith Bool NArith ZArith Lia.
From Pcfg Require Import OmenSpec Omen OmenProofs OmenProofs2 OmenProofs3 OmenProofs4 OmenGenRt OmenGenRtProofs
     OmenGenOptProofs OmenGenGsProofs OmenGenGsNextProofs.
From PcfgGen Require Import Consts_gen OmenGen_opt_gen OmenGen_gs_gen OmenGen_mc_gen.
Import ListNotations.

Lemma zrange_nat n : zrange 0 (Z.of_nat n) = map Z.of_nat (seq 0 n).
Proof.
  unfold zrange, OmenRt.zrange. rewrite Z.sub_0_r, Nat2Z.id. apply map_ext. intro i. lia.
Qed.

Section MC.
  Variable ipf : nat -> list ostr.
  Variable lnf : nat -> list nat.
  Variable cp : cp_index.
  Variable maxl optmax : nat.
  Variable ngramZ : Z.
  Hypothesis cp_ne : cp_nonempty cp.
  Hypothesis lnf_pos : forall l k, In k (lnf l) -> 1 <= k.

  Notation cpf := (cpf_of cp).
  Notation extra := omen_first_object_extra.

  (* the grammar the loader builds from the tables *)
  Definition gram : pygrammar :=
    mk_pygrammar ngramZ (Z.of_nat maxl) (Z.of_nat maxl, ipf) (Z.of_nat maxl, fun l => map Z.of_nat (lnf l)) cp.

  Lemma tbl_get_in {X} (f : nat -> list X) l : l <= maxl -> tbl_get (Z.of_nat maxl, f) (Z.of_nat l) = Ok (f l).
  Proof.
    intro H. unfold tbl_get. cbn [fst snd].
    replace (0 <=? Z.of_nat l)%Z with true by (symmetry; apply Z.leb_le; lia).
    replace (Z.of_nat l <=? Z.of_nat maxl)%Z with true by (symmetry; apply Z.leb_le; lia).
    cbn [andb]. now rewrite Nat2Z.id.
  Qed.

  (* ---------------------------------------------------------------- *)
  (* _find_first_object                                                *)

  Lemma ffo_loop {X} (f : nat -> list X) (body : Z -> unit -> res (lctl Z unit)) (kont : unit -> res Z) :
    forall n a, a + n <= S maxl ->
    (forall l, l <= maxl -> body (Z.of_nat l) tt =
                            Ok (if negb (is_nil (f l)) then Return (Z.of_nat l) else Continue tt)) ->
    mfor (map Z.of_nat (seq a n)) body tt kont =
    match find (fun l => negb (is_nil (f l))) (seq a n) with
    | Some l => Ok (Z.of_nat l)
    | None => kont tt
    end.
  Proof.
    induction n as [|n IH]; intros a Ha Hb; cbn [seq map mfor find]; [reflexivity|].
    rewrite Hb by lia. destruct (negb (is_nil (f a))); [reflexivity|]. apply IH; [lia | exact Hb].
  Qed.

  Lemma zlen_is_nil {X} (l : list X) : negb (zlen l =? 0)%Z = negb (is_nil l).
  Proof. destruct l; [reflexivity|]. unfold zlen. cbn [length is_nil]. now destruct (Z.of_nat (S (length l))) eqn:E; try lia. Qed.

  Theorem gen_find_first_object {X} fuel (m : pymc) (f : nat -> list X) :
    m_max_level m = Z.of_nat maxl -> extra <= 1 ->
    py_mc_find_first_object fuel m (Z.of_nat maxl, f) =
    match find_first_object maxl extra f with
    | Some l => Ok (Z.of_nat l)
    | None => Raise PyException
    end.
  Proof.
    intros Hm He. unfold py_mc_find_first_object, find_first_object. rewrite Hm.
    match goal with |- context[zrange 0 ?b] =>
      replace b with (Z.of_nat (maxl + extra)) by (unfold extra; lia) end.
    rewrite zrange_nat. rewrite (ffo_loop f); [reflexivity | lia |].
    intros l Hl. rewrite tbl_get_in by exact Hl. cbn [bind]. rewrite zlen_is_nil.
    destruct (negb (is_nil (f l))); reflexivity.
  Qed.
End MC.
