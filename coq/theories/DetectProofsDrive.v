(* The generic split driver (DESIGN appendix A.5): termination, and the
   relational induction principle from which tiling, label preservation,
   soundness invariants and the found-list tallies are all obtained. *)
From Coq Require Import List ZArith NArith Bool Lia Sorting.Permutation.
From Pcfg Require Import Str Multiword Detect DetectProofsStr.
Import ListNotations.

(* ---- fuel *)

Lemma drive_fuel_app a b : drive_fuel (a ++ b) = (drive_fuel a + drive_fuel b)%nat.
Proof. unfold drive_fuel. induction a as [|x a IH]; simpl; [reflexivity|]. rewrite IH. lia. Qed.

Lemma drive_fuel_cons x a : drive_fuel (x :: a) = (sec_weight x + drive_fuel a)%nat.
Proof. reflexivity. Qed.

Definition unlab_all (Inv : str -> Prop) (l : list section) : Prop :=
  Forall (fun x => snd x = None -> Inv (fst x)) l.

Section Total.
Variable F : Type.
Variable detect : str -> dres F.
Variable reex : bool.
(* an invariant of the unlabelled texts (e.g. "lower() preserves length") *)
Variable Inv : str -> Prop.
Hypothesis no_err : forall s, Inv s -> detect s <> DErr.
Hypothesis shrink : forall s p f, Inv s -> detect s = DYes p f ->
  (drive_fuel p <= 3 * length s)%nat /\ unlab_all Inv p.

Lemma drive_total : forall fuel todo, (drive_fuel todo <= fuel)%nat -> unlab_all Inv todo ->
  exists out fs, drive detect reex fuel todo = Some (out, fs).
Proof.
  induction fuel as [|f IH]; intros todo Hw Hi.
  - destruct todo as [|[s [l|]] rest]; [now exists [], []| |];
      rewrite drive_fuel_cons in Hw; unfold sec_weight in Hw; simpl in Hw; lia.
  - destruct todo as [|[s [l|]] rest]; [now exists [], []| |].
    + rewrite drive_fuel_cons in Hw. unfold sec_weight in Hw; simpl in Hw.
      inversion Hi; subst.
      destruct (IH rest ltac:(lia) ltac:(assumption)) as (out & fs & E).
      simpl. rewrite E. eauto.
    + rewrite drive_fuel_cons in Hw. unfold sec_weight in Hw; simpl in Hw.
      inversion Hi as [|? ? Hs Hrest]; subst. specialize (Hs eq_refl). simpl in Hs.
      simpl. destruct (detect s) as [| |p found] eqn:D.
      * exfalso. now apply (no_err s Hs).
      * destruct (IH rest ltac:(lia) Hrest) as (out & fs & E). rewrite E. eauto.
      * destruct (shrink s p found Hs D) as (Hp & Hpi).
        assert (Hall : unlab_all Inv (p ++ rest)) by (apply Forall_app; now split).
        assert (Hw2 : (drive_fuel (p ++ rest) <= f)%nat) by (rewrite drive_fuel_app; lia).
        destruct reex.
        -- destruct (IH (p ++ rest) Hw2 Hall) as (out & fs & E). rewrite E. eauto.
        -- destruct (p ++ rest) as [|x rest'] eqn:Epr; [eauto|].
           rewrite drive_fuel_cons in Hw2. inversion Hall; subst.
           destruct (IH rest' ltac:(lia) ltac:(assumption)) as (out & fs & E). rewrite E. eauto.
Qed.

Lemma drive_all_total todo : unlab_all Inv todo -> exists out fs, drive_all detect reex todo = Some (out, fs).
Proof. intros. apply drive_total; [apply Nat.le_refl|assumption]. Qed.

End Total.

(* ---- the induction principle *)

Section Rel.
Variable F : Type.
Variable detect : str -> dres F.
Variable reex : bool.
Variable R : list section -> list section -> list F -> Prop.
Hypothesis R_nil : R [] [] [].
Hypothesis R_lab : forall s l a b fs, R a b fs -> R ((s, Some l) :: a) ((s, Some l) :: b) fs.
Hypothesis R_no : forall s a b fs, detect s = DNo -> R a b fs -> R ((s, None) :: a) ((s, None) :: b) fs.
Hypothesis R_re : reex = true -> forall s p f rest out fs,
  detect s = DYes p f -> R (p ++ rest) out fs -> R ((s, None) :: rest) out (f :: fs).
Hypothesis R_adv : reex = false -> forall s p f rest x rest' out fs,
  detect s = DYes p f -> p ++ rest = x :: rest' -> R rest' out fs -> R ((s, None) :: rest) (x :: out) (f :: fs).
Hypothesis R_adv_nil : reex = false -> forall s f, detect s = DYes [] f -> R [(s, None)] [] [f].

Lemma drive_rel : forall fuel todo out fs, drive detect reex fuel todo = Some (out, fs) -> R todo out fs.
Proof.
  induction fuel as [|f IH]; intros todo out fs H.
  - destruct todo as [|[s [l|]] rest]; simpl in H; try discriminate.
    injection H as <- <-. exact R_nil.
  - destruct todo as [|[s [l|]] rest]; simpl in H.
    + injection H as <- <-. exact R_nil.
    + destruct (drive detect reex f rest) as [[o fs']|] eqn:E; [|discriminate].
      injection H as <- <-. apply R_lab. now apply IH.
    + destruct (detect s) as [| |p found] eqn:D; [discriminate| |].
      * destruct (drive detect reex f rest) as [[o fs']|] eqn:E; [|discriminate].
        injection H as <- <-. apply R_no; [assumption|]. now apply IH.
      * destruct reex eqn:Ere.
        -- destruct (drive detect true f (p ++ rest)) as [[o fs']|] eqn:E; [|discriminate].
           injection H as <- <-. apply (R_re eq_refl s p found); [assumption|]. now apply IH.
        -- destruct (p ++ rest) as [|x rest'] eqn:Epr.
           ++ injection H as <- <-. apply app_eq_nil in Epr. destruct Epr as (-> & ->).
              now apply R_adv_nil.
           ++ destruct (drive detect false f rest') as [[o fs']|] eqn:E; [|discriminate].
              injection H as <- <-. apply (R_adv eq_refl s p found rest x rest'); try assumption.
              now apply IH.
Qed.

End Rel.

(* the common case: R is closed under keeping any head section and under
   replacing an unlabelled head by the detector's parsing *)
Section RelSimple.
Variable F : Type.
Variable detect : str -> dres F.
Variable reex : bool.
Variable R : list section -> list section -> list F -> Prop.
Hypothesis R_nil : R [] [] [].
Hypothesis R_keep : forall x a b fs, R a b fs -> R (x :: a) (x :: b) fs.
Hypothesis R_split : forall s p f rest out fs,
  detect s = DYes p f -> R (p ++ rest) out fs -> R ((s, None) :: rest) out (f :: fs).

Lemma drive_rel_simple : forall fuel todo out fs, drive detect reex fuel todo = Some (out, fs) -> R todo out fs.
Proof.
  apply drive_rel.
  - exact R_nil.
  - intros. now apply R_keep.
  - intros. now apply R_keep.
  - intros _. exact R_split.
  - intros _ s p f rest x rest' out fs D E H. apply (R_split s p f rest); [assumption|].
    rewrite E. now apply R_keep.
  - intros _ s f D. apply (R_split s [] f []); [assumption|]. exact R_nil.
Qed.

End RelSimple.

(* ---- tilings *)

Section Tiles.
(* when does a piece of the password "match" a section: equal text, except
   that a website section holds the lower-cased piece *)
Variable pm : str -> section -> Prop.

Definition tiles (s : str) (p : list section) : Prop :=
  exists pieces, concat pieces = s /\ Forall2 pm pieces p.

Lemma tiles_nil : tiles [] [].
Proof. exists []. split; [reflexivity|constructor]. Qed.

Lemma tiles_cons piece x s p : pm piece x -> tiles s p -> tiles (piece ++ s) (x :: p).
Proof. intros H (ps & <- & Hf). exists (piece :: ps). split; [reflexivity|now constructor]. Qed.

Lemma tiles_cons_inv x s p : tiles s (x :: p) -> exists piece s', s = piece ++ s' /\ pm piece x /\ tiles s' p.
Proof.
  intros (ps & <- & Hf). inversion Hf as [|piece ? ps' ? Hpm Hrest]; subst.
  exists piece, (concat ps'). split; [reflexivity|]. split; [assumption|]. now exists ps'.
Qed.

Lemma tiles_nil_inv s : tiles s [] -> s = [].
Proof. intros (ps & <- & Hf). inversion Hf. reflexivity. Qed.

Lemma tiles_app s1 p1 s2 p2 : tiles s1 p1 -> tiles s2 p2 -> tiles (s1 ++ s2) (p1 ++ p2).
Proof.
  intros (a & <- & Ha) (b & <- & Hb). exists (a ++ b). split; [now rewrite concat_app|].
  now apply Forall2_app.
Qed.

Lemma tiles_app_inv s p1 p2 : tiles s (p1 ++ p2) -> exists s1 s2, s = s1 ++ s2 /\ tiles s1 p1 /\ tiles s2 p2.
Proof.
  revert s. induction p1 as [|x p1 IH]; intros s H; simpl in H.
  - exists [], s. split; [reflexivity|]. split; [apply tiles_nil|assumption].
  - apply tiles_cons_inv in H. destruct H as (piece & s' & -> & Hpm & H).
    destruct (IH _ H) as (s1 & s2 & -> & H1 & H2).
    exists (piece ++ s1), s2. split; [now rewrite app_assoc|]. split; [now apply tiles_cons|assumption].
Qed.

End Tiles.

(* ---- the driver theorem *)

Section DriverTheorem.
Variable F : Type.
Variable detect : str -> dres F.
Variable reex : bool.
Variable pm : str -> section -> Prop.
Hypothesis pm_unlab : forall piece s, pm piece (s, None) <-> piece = s.
(* invariant of unlabelled texts, invariant of all sections *)
Variable Inv : str -> Prop.
Variable Q : section -> Prop.

(* what a detector has to guarantee about one split *)
Definition split_ok (s : str) (p : list section) : Prop :=
  tiles pm s p /\ (drive_fuel p <= 3 * length s)%nat /\ unlab_all Inv p /\ Forall Q p.

Hypothesis no_err : forall s, Inv s -> detect s <> DErr.
Hypothesis det_ok : forall s p f, Inv s -> Q (s, None) -> detect s = DYes p f -> split_ok s p.

Let R (a b : list section) (fs : list F) : Prop :=
  unlab_all Inv a -> Forall Q a ->
  (forall x, tiles pm x a -> tiles pm x b) /\ Forall Q b /\ unlab_all Inv b.

Lemma driver_R : forall fuel todo out fs, drive detect reex fuel todo = Some (out, fs) -> R todo out fs.
Proof.
  apply drive_rel_simple; unfold R.
  - intros _ _. split; [auto|]. split; constructor.
  - intros x a b fs IH Hi Hq. inversion Hi; subst. inversion Hq; subst.
    destruct (IH ltac:(assumption) ltac:(assumption)) as (Ht & Hqb & Hib).
    repeat split.
    + intros y Hy. apply tiles_cons_inv in Hy. destruct Hy as (piece & s' & -> & Hp & Hy).
      apply tiles_cons; [assumption|]. now apply Ht.
    + now constructor.
    + now constructor.
  - intros s p f rest out fs D IH Hi Hq. inversion Hi as [|? ? Hs Hrest]; subst. inversion Hq as [|? ? Hqs Hqrest]; subst.
    specialize (Hs eq_refl). simpl in Hs.
    destruct (det_ok s p f Hs Hqs D) as (Htp & _ & Hip & Hqp).
    destruct (IH ltac:(apply Forall_app; now split) ltac:(apply Forall_app; now split)) as (Ht & Hqb & Hib).
    repeat split; try assumption.
    intros y Hy. apply tiles_cons_inv in Hy. destruct Hy as (piece & s' & -> & Hp & Hy).
    apply pm_unlab in Hp. subst piece. apply Ht. now apply tiles_app.
Qed.

(* split_driver_tiling: the driver terminates without an exception and
   preserves the tiling (concatenation), every per-section invariant (labels,
   non-emptiness, soundness of earlier labels) and the invariant of unlabelled
   texts *)
Theorem split_driver_tiling : forall todo, unlab_all Inv todo -> Forall Q todo ->
  exists out fs, drive_all detect reex todo = Some (out, fs) /\
    (forall x, tiles pm x todo -> tiles pm x out) /\ Forall Q out /\ unlab_all Inv out.
Proof.
  intros todo Hi Hq.
  assert (Hinv2 : unlab_all (fun s => Inv s /\ Q (s, None)) todo).
  { unfold unlab_all in *. rewrite Forall_forall in *. intros [s l] Hin E. simpl in *. subst l.
    split; [now apply (Hi (s, None))|now apply Hq]. }
  destruct (drive_all_total F detect reex (fun s => Inv s /\ Q (s, None))) with (todo := todo) as (out & fs & E).
  - intros s (Hs & _). now apply no_err.
  - intros s p f (Hs & Hqs) D. destruct (det_ok s p f Hs Hqs D) as (_ & Hf & Hip & Hqp). split; [assumption|].
    unfold unlab_all in *. rewrite Forall_forall in *. intros [t l] Hin E. simpl in *. subst l.
    split; [now apply (Hip (t, None))|now apply Hqp].
  - assumption.
  - exists out, fs. split; [assumption|]. now apply (driver_R _ _ _ _ E).
Qed.

End DriverTheorem.

(* ---- found lists are the tallies of the new labelled sections *)

Section Found.
Variable F : Type.
Variable detect : str -> dres F.
Variable reex : bool.
Variables (T : Type) (G : F -> list T) (g : section -> T) (isL : section -> bool).
Hypothesis isL_unlab : forall s, isL (s, None) = false.
Variable Inv : str -> Prop.
Hypothesis det_found : forall s p f, Inv s -> detect s = DYes p f ->
  Permutation (G f) (map g (filter isL p)) /\ unlab_all Inv p.

Lemma drive_found : forall fuel todo out fs, drive detect reex fuel todo = Some (out, fs) ->
  unlab_all Inv todo ->
  Permutation (flat_map G fs ++ map g (filter isL todo)) (map g (filter isL out)) /\ unlab_all Inv out.
Proof.
  apply (drive_rel_simple F detect reex
           (fun a b fs => unlab_all Inv a ->
              Permutation (flat_map G fs ++ map g (filter isL a)) (map g (filter isL b)) /\ unlab_all Inv b)).
  - intros _. split; [constructor|constructor].
  - intros x a b fs IH Hi. inversion Hi; subst. destruct (IH ltac:(assumption)) as (Hp & Hib).
    split; [|now constructor]. simpl. destruct (isL x); simpl; [|assumption].
    apply Permutation_sym. apply Permutation_cons_app. now apply Permutation_sym.
  - intros s p f rest out fs D IH Hi. inversion Hi as [|? ? Hs Hrest]; subst. specialize (Hs eq_refl). simpl in Hs.
    destruct (det_found s p f Hs D) as (Hg & Hip).
    destruct (IH ltac:(apply Forall_app; now split)) as (Hp & Hib). split; [|assumption].
    simpl. rewrite isL_unlab. rewrite filter_app, map_app in Hp.
    rewrite <- Hp. rewrite <- !app_assoc.
    apply Permutation_trans with (flat_map G fs ++ G f ++ map g (filter isL rest)).
    + rewrite !app_assoc. apply Permutation_app_tail. apply Permutation_app_comm.
    + apply Permutation_app_head. apply Permutation_app_tail. assumption.
Qed.

End Found.

(* ---- what is left unlabelled by an advancing driver: sections the
   detector declined, and leading pieces of its splits *)

Section Complete.
Variable F : Type.
Variable detect : str -> dres F.
Variables Inv P : str -> Prop.
Hypothesis det_no : forall s, Inv s -> detect s = DNo -> P s.
Hypothesis det_yes : forall s p f, Inv s -> detect s = DYes p f ->
  unlab_all Inv p /\ exists x p', p = x :: p' /\ (snd x = None -> P (fst x)).

Lemma drive_complete : forall fuel todo out fs, drive detect false fuel todo = Some (out, fs) ->
  unlab_all Inv todo -> unlab_all P out.
Proof.
  apply (drive_rel F detect false (fun a b fs => unlab_all Inv a -> unlab_all P b)).
  - intros _. constructor.
  - intros s l a b fs IH Hi. inversion Hi; subst. constructor; [discriminate|now apply IH].
  - intros s a b fs D IH Hi. inversion Hi as [|? ? Hs Hr]; subst. constructor; [|now apply IH].
    intros _. apply det_no; [now apply Hs|assumption].
  - discriminate.
  - intros _ s p f rest x rest' out fs D E IH Hi. inversion Hi as [|? ? Hs Hr]; subst.
    destruct (det_yes s p f (Hs eq_refl) D) as (Hip & x0 & p' & -> & Hx).
    simpl in E. injection E as <- <-. inversion Hip; subst.
    constructor; [assumption|]. apply IH. apply Forall_app. now split.
  - intros _ s f D Hi. inversion Hi as [|? ? Hs Hr]; subst.
    destruct (det_yes s [] f (Hs eq_refl) D) as (_ & x0 & p' & E & _). discriminate.
Qed.

End Complete.
