(* MarkovSessionProofs.v -- the two clauses of C15 that concern the queue run:
   "and then continues with the rest of the run" (then_rest) and the tied-level
   corner (tied_level_repeats), proved over the combined session model of
   MarkovSession.v from
     RestoreFacts.resume_exact            (C08: the resumed queue run)
     NextProofs.C01_sorted_okb / C02_...  (the uninterrupted run)
     OmenProofs5.continuation / enumerate_prefix (C15/C10: the OMEN generator). *)
From Coq Require Import List Arith Bool NArith ZArith Lia Sorting.Permutation Sorting.Sorted.
From Pcfg Require Import ProbAlg Next NextSpec NextProofs RestoreProofs RestoreFacts
                         Expand OmenSpec Omen OmenProofs OmenProofs4 OmenProofs5 MarkovSession.
Import ListNotations.

(* ------------------------------------------------------------------ *)
(* lists                                                                *)
Section Lists.

Lemma perm_filter {X} (f : X -> bool) l l' :
  Permutation l l' -> Permutation (filter f l) (filter f l').
Proof.
  induction 1; simpl.
  - constructor.
  - destruct (f x); [constructor|]; assumption.
  - destruct (f x), (f y); try apply Permutation_refl. apply perm_swap.
  - eapply perm_trans; eassumption.
Qed.

Lemma filter_all {X} (f : X -> bool) l :
  (forall x, In x l -> f x = true) -> filter f l = l.
Proof.
  induction l as [|a l IH]; simpl; intros H; [reflexivity|].
  rewrite (H a (or_introl eq_refl)). f_equal. apply IH. intros x Hx. apply H. right. exact Hx.
Qed.

Lemma firstn_app_exact {X} (l1 l2 : list X) : firstn (length l1) (l1 ++ l2) = l1.
Proof. induction l1; simpl; [destruct l2; reflexivity | f_equal; assumption]. Qed.

Lemma rev_inj {X} (a b : list X) : rev a = rev b -> a = b.
Proof. intros H. rewrite <- (rev_involutive a), <- (rev_involutive b). f_equal. exact H. Qed.

Lemma count_occ_flat_map_0 {X Y} (dec : forall a b : Y, {a = b} + {a <> b}) (f : X -> list Y) l s :
  (forall z, In z l -> ~ In s (f z)) -> count_occ dec (flat_map f l) s = 0.
Proof.
  intros H. apply count_occ_not_In. intros Hin. apply in_flat_map in Hin.
  destruct Hin as (z & Hz & Hs). exact (H z Hz Hs).
Qed.

End Lists.

(* ------------------------------------------------------------------ *)
(* the run: pops accumulate, a stuck run stays                           *)
Section Run.
Context {A : palg}.
Notation item := (item A).
Notation queue := (queue A).
Notation state := (state A).
Variable rs : ruleset A.
Variable pop : queue -> option (item * queue).

Lemma run_S_end n : forall s : state, run pop rs (S n) s = step pop rs (run pop rs n s).
Proof.
  induction n as [|n IH]; intros s; [reflexivity|].
  change (run pop rs (S (S n)) s) with (run pop rs (S n) (step pop rs s)).
  rewrite IH. reflexivity.
Qed.

Lemma run_add a : forall b (s : state), run pop rs (a + b) s = run pop rs b (run pop rs a s).
Proof.
  induction a as [|a IH]; intros b s; [reflexivity|].
  change (run pop rs (S a + b) s) with (run pop rs (a + b) (step pop rs s)).
  rewrite IH. reflexivity.
Qed.

Lemma step_cases (s : state) :
  (pop (pending s) = None /\ step pop rs s = s) \/
  (exists x r, pop (pending s) = Some (x, r) /\
               step pop rs s = {| emitted := x :: emitted s; pending := find_children rs x ++ r |}).
Proof.
  unfold step, step_gen. destruct (pop (pending s)) as [[x r]|]; [right; exists x, r|left]; auto.
Qed.

Lemma run_stuck n : forall s : state, pop (pending s) = None -> run pop rs n s = s.
Proof.
  induction n as [|n IH]; intros s H; [reflexivity|].
  change (run pop rs (S n) s) with (run pop rs n (step pop rs s)).
  destruct (step_cases s) as [[_ E]|(x & r & E & _)]; [rewrite E; apply IH, H | congruence].
Qed.

(* the emission list only grows, at its head *)
Lemma emitted_grows n : forall s : state, exists l, emitted (run pop rs n s) = l ++ emitted s.
Proof.
  induction n as [|n IH]; intros s; [exists []; reflexivity|].
  rewrite run_S_end. destruct (IH s) as [l El].
  destruct (step_cases (run pop rs n s)) as [[_ E]|(x & r & _ & E)]; rewrite E.
  - exists l. exact El.
  - exists (x :: l). simpl. rewrite El. reflexivity.
Qed.

End Run.

(* ------------------------------------------------------------------ *)
(* OMEN: more calls after the generator said None change nothing          *)
Section McRun.
Variable ipf : nat -> list ostr.
Variable cpf : ostr -> nat -> list N.
Variable lnf : nat -> list nat.
Variable maxl optmax fuel : nat.
Variable starts : nat * nat.

Lemma mc_run_more n : forall d c st l st' c',
  mc_run ipf cpf lnf maxl optmax n fuel starts c st = (l, Done, st', c') ->
  mc_run ipf cpf lnf maxl optmax (n + d) fuel starts c st = (l, Done, st', c').
Proof.
  induction n as [|n IH]; intros d c st l st' c' H; [discriminate H|].
  cbn [mc_run Nat.add] in *.
  destruct (mc_next ipf cpf lnf maxl optmax fuel starts c st) as [[o1 st1] c1].
  destruct o1 as [s| |]; try exact H.
  destruct (mc_run ipf cpf lnf maxl optmax n fuel starts c1 st1) as [[[l2 o2] st2] c2] eqn:E.
  injection H as <- -> <- <-.
  rewrite (IH d c1 st1 l2 st2 c2 E). reflexivity.
Qed.

End McRun.

(* ------------------------------------------------------------------ *)
Section Session.
Context {A : palg}.
Variable upper_c : N -> str.
Variable optmax ffo_extra : nat.
Hypothesis extra_le : ffo_extra <= 1.

Notation item := (item A).
Notation queue := (queue A).
Notation sgram := (sgram A).
Notation stream := (stream upper_c).
Notation pt_out := (pt_out upper_c).
Notation interrupted := (interrupted upper_c optmax ffo_extra).   (* explicit check_after_pop *)
Notation resumed_session := (resumed_session optmax ffo_extra).
Notation resumed_out := (resumed_out upper_c).                       (* explicit omen_first *)

Definition str_eq_dec : forall a b : str, {a = b} + {a <> b} := list_eq_dec N.eq_dec.

(* a Markov pre-terminal prints exactly the strings of its level *)
Lemma markov_pt_out (g : sgram) t T :
  markov_level g t = Some T -> pt_out g t = level_strings (sg_omen g) T.
Proof.
  unfold markov_level, MarkovSession.pt_out.
  destruct (slots_of_pt g t) as [|[c vs] rest]; [discriminate|].
  cbn [scat svals]. destruct c; try discriminate. destruct vs as [|lv more]; [discriminate|].
  intros H. cbn [expand scat svals]. unfold omen_emit, omen_fn. rewrite H.
  unfold level_strings_idx. exact (level_strings_fast (sg_omen g) T).
Qed.

Lemma stream_app (g : sgram) l1 l2 : stream g (l1 ++ l2) = stream g l1 ++ stream g l2.
Proof. unfold MarkovSession.stream. apply flat_map_app. Qed.

Lemma stream_cons (g : sgram) x l : stream g (x :: l) = pt_out g (ipt x) ++ stream g l.
Proof. reflexivity. Qed.

(* ---------------- the situation of the two theorems ---------------- *)
Section Cut.
Variable g : sgram.
Notation rs := (sg_rs g).
Notation G := (sg_omen g).
Hypothesis Hwf : wf rs.
Variables pop pop' : queue -> option (item * queue).
Hypothesis Hpop : pop_ok_okb pop.
Hypothesis Hpop' : pop_ok_okb pop'.

(* the uninterrupted run, cut inside the Markov pre-terminal x; y is popped next *)
Variables (U1 : list item) (x y : item) (U2 : list item).
Hypothesis HU : pops pop g (total rs) = U1 ++ x :: y :: U2.
Variable T : Z.
Hypothesis HT : markov_level g (ipt x) = Some T.
Notation L := (level_strings G T).
Variable j : nat.
Hypothesis Hj : j < length L.
(* memo tables: of the interrupted process when the level starts, of the new process *)
Variables c c2 : cache.
Hypothesis Hc : cache_ok (cp_fast G) (og_max_level G) c.
Hypothesis Hc2 : cache_ok (cp_fast G) (og_max_level G) c2.
Variable starts : nat * nat.
Hypothesis Hstarts : mc_starts (ip_at G) (ln_at G) (og_max_level G) ffo_extra = Some starts.

Notation m := (iprob y).
Notation SS := (filter (below m) (all_preterminals rs)).
Notation tiedb := (fun z : item => peq (iprob z) m).

Let Urun := run pop rs (total rs) (start rs).

Lemma U_rev : rev (emitted Urun) = U1 ++ x :: y :: U2.
Proof. exact HU. Qed.

Lemma U_perm : Permutation (U1 ++ x :: y :: U2) (all_preterminals rs).
Proof.
  rewrite <- U_rev. eapply perm_trans; [apply Permutation_sym, Permutation_rev|].
  apply (C02_exactly_once_okb rs Hwf pop Hpop).
Qed.

Lemma U_nodup : NoDup (U1 ++ x :: y :: U2).
Proof.
  eapply Permutation_NoDup; [apply Permutation_sym, U_perm|].
  apply (NoDup_all_preterminals rs).
Qed.

Lemma U_in_all z : In z (U1 ++ x :: y :: U2) -> In z (all_preterminals rs).
Proof. intros H. eapply Permutation_in; [apply U_perm | exact H]. Qed.

Lemma U_total : length (U1 ++ x :: y :: U2) = total rs.
Proof. unfold total. apply Permutation_length, U_perm. Qed.

Lemma m_ok : okb m = true.
Proof.
  apply (good_iprob_ok rs Hwf), In_all_preterminals, U_in_all.
  apply in_or_app. right. right. left. reflexivity.
Qed.

(* sortedness around the cut: everything up to x is at least as probable as y,
   everything after y at most *)
Lemma U_sorted_split :
  Forall (fun z => ple m (iprob z) = true) (U1 ++ [x]) /\ Forall (fun z => ple (iprob z) m = true) U2.
Proof.
  destruct (C01_sorted_okb rs Hwf pop (total rs) Hpop) as [Hs _].
  fold Urun in Hs. rewrite U_rev in Hs.
  replace (U1 ++ x :: y :: U2) with ((U1 ++ [x]) ++ y :: U2) in Hs by (rewrite <- app_assoc; reflexivity).
  exact (sorted_split _ _ _ _ Hs).
Qed.

(* the first k pops of the uninterrupted run, for k up to the cut *)
Lemma prefix_run k : k <= total rs ->
  rev (emitted (run pop rs k (start rs))) = firstn k (U1 ++ x :: y :: U2).
Proof.
  intros Hk. replace (total rs) with (k + (total rs - k)) in HU by lia.
  unfold pops in HU. rewrite run_add in HU.
  destruct (emitted_grows rs pop (total rs - k) (run pop rs k (start rs))) as [l El].
  rewrite El, rev_app_distr in HU. rewrite <- HU.
  rewrite <- (C02_no_early_exhaustion_okb rs Hwf pop k Hpop Hk) at 2.
  rewrite <- rev_length. symmetry. apply firstn_app_exact.
Qed.

Lemma len_le_total : S (S (length U1)) <= total rs.
Proof. rewrite <- U_total, app_length. simpl. lia. Qed.

Lemma run_k : rev (emitted (run pop rs (length U1) (start rs))) = U1.
Proof.
  rewrite prefix_run by (pose proof len_le_total; lia). apply firstn_app_exact.
Qed.

Lemma run_Sk : rev (emitted (run pop rs (S (length U1)) (start rs))) = U1 ++ [x].
Proof.
  rewrite prefix_run by (pose proof len_le_total; lia).
  replace (U1 ++ x :: y :: U2) with ((U1 ++ [x]) ++ y :: U2) by (rewrite <- app_assoc; reflexivity).
  replace (S (length U1)) with (length (U1 ++ [x])) by (rewrite app_length; simpl; lia).
  apply firstn_app_exact.
Qed.

Lemma run_SSk : rev (emitted (run pop rs (S (S (length U1))) (start rs))) = U1 ++ [x; y].
Proof.
  rewrite prefix_run by (pose proof len_le_total; lia).
  replace (U1 ++ x :: y :: U2) with ((U1 ++ [x; y]) ++ U2) by (rewrite <- app_assoc; reflexivity).
  replace (S (S (length U1))) with (length (U1 ++ [x; y])) by (rewrite app_length; simpl; lia).
  apply firstn_app_exact.
Qed.

(* the two pops around the level, as the model of the interrupted session makes them *)
Lemma pops_at_cut :
  exists r r',
    pop (pending (run pop rs (length U1) (start rs))) = Some (x, r) /\
    pop (find_children rs x ++ r) = Some (y, r').
Proof.
  pose proof run_k as E0. pose proof run_Sk as E1. pose proof run_SSk as E2.
  rewrite run_S_end in E1.
  destruct (step_cases rs pop (run pop rs (length U1) (start rs))) as [[_ E]|(x0 & r & Ep & E)].
  { rewrite E, E0 in E1. exfalso. apply (f_equal (@length _)) in E1. rewrite app_length in E1. simpl in E1. lia. }
  rewrite E in E1. cbn [emitted rev] in E1. rewrite E0 in E1.
  apply app_inv_head in E1. injection E1 as ->.
  rewrite run_S_end, run_S_end, E in E2.
  destruct (step_cases rs pop {| emitted := x :: emitted (run pop rs (length U1) (start rs));
                                 pending := find_children rs x ++ r |}) as [[_ E']|(y0 & r' & Ep' & E')].
  { rewrite E' in E2. cbn [emitted rev] in E2. rewrite E0 in E2.
    exfalso. apply (f_equal (@length _)) in E2. rewrite !app_length in E2. simpl in E2. lia. }
  rewrite E' in E2. cbn [emitted rev pending] in E2, Ep'. rewrite E0, <- app_assoc in E2.
  apply app_inv_head in E2. injection E2 as ->.
  exists r, r'. split; assumption.
Qed.

(* ---------------- the interrupted session ---------------- *)
Definition saved_file (mm : P A) (st : mc_state) : session_file A :=
  mk_sfile mm (sess_quit sess_empty true (S j) (mc_save st)).

Lemma interrupted_saves :
  exists st o c1,
    level_prefix optmax ffo_extra G (S j) c T = Some (firstn (S j) L, o, st, c1) /\
    interrupted true pop g (length U1) (S j) c =
      Saved (stream g U1 ++ firstn (S j) L) (saved_file m st) /\
    interrupted false pop g (length U1) (S j) c =
      Saved (stream g U1 ++ firstn (S j) L) (saved_file (iprob x) st).
Proof.
  destruct (enumerate_prefix G optmax ffo_extra extra_le T c (S j) starts Hc Hstarts) as (st & c1 & He & _).
  exists st, (run_status (S j) L), c1. split; [exact He|].
  destruct pops_at_cut as (r & r' & Ep & Ep').
  unfold MarkovSession.interrupted. rewrite Ep, HT.
  unfold level_prefix in He. unfold level_prefix. rewrite He.
  replace (Nat.eqb (length (firstn (S j) L)) (S j)) with true
    by (symmetry; apply Nat.eqb_eq; rewrite firstn_length; lia).
  cbn [Nat.leb andb negb]. rewrite Ep', run_k. split; reflexivity.
Qed.

(* ---------------- the resumed session ---------------- *)
Lemma resumed_queue_stops mm n : okb mm = true ->
  length (filter (below mm) (all_preterminals rs)) <= n ->
  run pop' rs n (resume_start_gen false rs mm) =
  resumed rs pop' mm (length (filter (below mm) (all_preterminals rs))).
Proof.
  intros Hmm Hn. destruct (resume_exact rs Hwf pop' mm Hpop' Hmm) as (_ & _ & _ & _ & _ & R6).
  unfold resumed in *.
  replace n with (length (filter (below mm) (all_preterminals rs)) +
                  (n - length (filter (below mm) (all_preterminals rs)))) by lia. rewrite run_add.
  apply run_stuck. rewrite R6. apply (proj1 Hpop'). reflexivity.
Qed.

(* the resumed pops, characterised against the uninterrupted run *)
Lemma resumed_pops_perm :
  Permutation (rev (emitted (resumed rs pop' m (length SS))))
              (filter tiedb (U1 ++ [x]) ++ y :: U2).
Proof.
  destruct (resume_exact rs Hwf pop' m Hpop' m_ok) as (_ & _ & _ & _ & R5 & _).
  eapply perm_trans; [apply Permutation_sym, Permutation_rev|].
  eapply perm_trans; [exact R5|].
  eapply perm_trans; [apply perm_filter, Permutation_sym, U_perm|].
  replace (U1 ++ x :: y :: U2) with ((U1 ++ [x]) ++ y :: U2) by (rewrite <- app_assoc; reflexivity).
  rewrite filter_app. destruct U_sorted_split as [Hb Ha].
  rewrite Forall_forall in Hb, Ha.
  replace (filter (below m) (y :: U2)) with (y :: U2).
  2:{ symmetry. apply filter_all. intros z [<-|Hz]; unfold below; [apply (ple_refl A), m_ok | apply Ha, Hz]. }
  replace (filter (below m) (U1 ++ [x])) with (filter tiedb (U1 ++ [x])); [apply Permutation_refl|].
  apply filter_ext_in. intros z Hz. unfold peq, below. rewrite (Hb z Hz). apply andb_true_r.
Qed.

Definition the_resumed (mm : P A) (n : nat) : resumed_run A :=
  mk_resumed (skipn (S j) L) (run pop' rs n (resume_start_gen false rs mm)).

Lemma resumed_session_runs mm st o c1 cleared calls n :
  level_prefix optmax ffo_extra G (S j) c T = Some (firstn (S j) L, o, st, c1) ->
  length (skipn (S j) L) < calls ->
  resumed_session false cleared pop' g (saved_file mm st) calls c2 n = Some (the_resumed mm n).
Proof.
  intros He Hcalls.
  destruct (continuation G optmax ffo_extra extra_le T c c2 j starts _ o st c1 Hc Hc2 Hstarts Hj He)
    as (_ & _ & st' & c' & Hrun).
  unfold MarkovSession.resumed_session, saved_file. cbn [sf_omen sf_max_prob].
  cbn [sess_quit sess_restore sv_number sv_omn fst].
  unfold omen_rest. rewrite Hstarts.
  replace calls with (S (length (skipn (S j) L)) + (calls - S (length (skipn (S j) L)))) by lia.
  rewrite (mc_run_more _ _ _ _ _ _ _ _ _ _ _ _ _ _ Hrun). reflexivity.
Qed.

(* ================= C15_then_rest ================= *)
Theorem then_rest cleared calls n :
  length (skipn (S j) L) < calls -> length SS <= n ->
  exists f r,
    (* the interrupted session: everything before the level, the first j+1
       strings of the level; the file holds the probability of the pop that followed *)
    interrupted true pop g (length U1) (S j) c = Saved (stream g U1 ++ firstn (S j) L) f /\
    sf_max_prob f = m /\
    (* the resumed session: the remaining strings of the level, then the pre-terminals B *)
    resumed_session false cleared pop' g f calls c2 n = Some r /\
    resumed_out true g r = skipn (S j) L ++ stream g (resumed_pops r) /\
    (* B = everything the uninterrupted run emits after the level, plus exactly the
       earlier pre-terminals whose probability equals the saved one; each once, in order *)
    Permutation (resumed_pops r) (filter tiedb (U1 ++ [x]) ++ y :: U2) /\
    nonincreasing (resumed_pops r) /\ NoDup (resumed_pops r) /\
    pending (rr_queue r) = [].
Proof.
  intros Hcalls Hn.
  destruct interrupted_saves as (st & o & c1 & He & Hint & _).
  exists (saved_file m st), (the_resumed m n).
  pose proof (resumed_session_runs m st o c1 cleared calls n He Hcalls) as Hres.
  destruct (resume_exact rs Hwf pop' m Hpop' m_ok) as (R1 & R2 & _ & _ & _ & R6).
  assert (Hq : rr_queue (the_resumed m n) = resumed rs pop' m (length SS))
    by (apply (resumed_queue_stops m n m_ok Hn)).
  split; [exact Hint|]. split; [reflexivity|]. split; [exact Hres|].
  unfold MarkovSession.resumed_out, resumed_pops. rewrite Hq.
  split; [reflexivity|]. split; [exact resumed_pops_perm|]. split; [apply R1|].
  split; [|exact R6].
  specialize (R2 (length SS)). rewrite R6, app_nil_r in R2.
  apply NoDup_rev. exact R2.
Qed.

(* ================= C15_tied_level_repeats ================= *)
Lemma x_not_later : ~ In x (y :: U2).
Proof.
  pose proof U_nodup as H. apply NoDup_remove_2 in H. intros Hin. apply H.
  apply in_or_app. right. exact Hin.
Qed.

Lemma x_not_earlier : ~ In x U1.
Proof.
  pose proof U_nodup as H. apply NoDup_remove_2 in H. intros Hin. apply H.
  apply in_or_app. left. exact Hin.
Qed.

Lemma level_in_resumed_iff B :
  Permutation B (filter tiedb (U1 ++ [x]) ++ y :: U2) ->
  (In x B <-> peq (iprob x) m = true).
Proof.
  intros HP. split.
  - intros Hin. apply (Permutation_in _ HP) in Hin. apply in_app_or in Hin.
    destruct Hin as [Hin|Hin]; [|exfalso; exact (x_not_later Hin)].
    apply filter_In in Hin. apply Hin.
  - intros Ht. apply (Permutation_in _ (Permutation_sym HP)). apply in_or_app. left.
    apply filter_In. split; [apply in_or_app; right; left; reflexivity | exact Ht].
Qed.

Lemma resumed_in_all B z :
  Permutation B (filter tiedb (U1 ++ [x]) ++ y :: U2) -> In z B -> In z (all_preterminals rs).
Proof.
  intros HP Hin. apply (Permutation_in _ HP) in Hin. apply U_in_all.
  apply in_app_or in Hin. destruct Hin as [Hin|Hin].
  - apply filter_In in Hin. destruct Hin as [Hin _]. apply in_app_or in Hin.
    apply in_or_app. destruct Hin as [Hin|[<-|[]]]; [left; exact Hin | right; left; reflexivity].
  - apply in_or_app. right. right. exact Hin.
Qed.

Theorem tied_level_repeats cleared calls n :
  length (skipn (S j) L) < calls -> length SS <= n ->
  exists f r,
    interrupted true pop g (length U1) (S j) c = Saved (stream g U1 ++ firstn (S j) L) f /\
    resumed_session false cleared pop' g f calls c2 n = Some r /\
    (* the level's own pre-terminal is popped again iff it ties with the saved probability *)
    (In x (resumed_pops r) <-> peq (iprob x) m = true) /\
    (* tied: regenerated in full exactly once, after its remainder *)
    (peq (iprob x) m = true ->
       exists B1 B2, resumed_pops r = B1 ++ x :: B2 /\ ~ In x B1 /\ ~ In x B2 /\
         resumed_out true g r = skipn (S j) L ++ stream g B1 ++ L ++ stream g B2) /\
    (* not tied: never again *)
    (peq (iprob x) m = false -> ~ In x (resumed_pops r)) /\
    (* the only repetition of its strings: a string no OTHER pre-terminal of the
       grammar produces occurs, over both sessions, as often as in the level --
       twice that when the level is tied *)
    (forall s, (forall z, In z (all_preterminals rs) -> z <> x -> ~ In s (pt_out g (ipt z))) ->
       count_occ str_eq_dec ((stream g U1 ++ firstn (S j) L) ++ resumed_out true g r) s =
       count_occ str_eq_dec L s + (if peq (iprob x) m then count_occ str_eq_dec L s else 0)).
Proof.
  intros Hcalls Hn.
  destruct (then_rest cleared calls n Hcalls Hn) as (f & r & Hint & _ & Hres & Hout & HP & _ & Hnd & _).
  exists f, r. split; [exact Hint|]. split; [exact Hres|].
  pose proof (level_in_resumed_iff _ HP) as Hiff.
  assert (Htied : peq (iprob x) m = true ->
            exists B1 B2, resumed_pops r = B1 ++ x :: B2 /\ ~ In x B1 /\ ~ In x B2 /\
              resumed_out true g r = skipn (S j) L ++ stream g B1 ++ L ++ stream g B2).
  { intros Ht. destruct (in_split _ _ (proj2 Hiff Ht)) as (B1 & B2 & EB).
    exists B1, B2. split; [exact EB|]. rewrite EB in Hnd.
    pose proof (NoDup_remove_2 _ _ _ Hnd) as Hno.
    split; [intros H; apply Hno, in_or_app; left; exact H|].
    split; [intros H; apply Hno, in_or_app; right; exact H|].
    rewrite Hout, EB, stream_app, stream_cons, (markov_pt_out g _ _ HT). reflexivity. }
  split; [exact Hiff|]. split; [exact Htied|].
  split; [intros Hf Hin; apply Hiff in Hin; congruence|].
  intros s Hs.
  assert (Hother : forall l, (forall z, In z l -> In z (all_preterminals rs) /\ z <> x) ->
                     count_occ str_eq_dec (stream g l) s = 0).
  { intros l Hl. apply count_occ_flat_map_0. intros z Hz. destruct (Hl z Hz) as [Ha Hne]. exact (Hs z Ha Hne). }
  rewrite !count_occ_app.
  rewrite (Hother U1).
  2:{ intros z Hz. split; [apply U_in_all, in_or_app; left; exact Hz|].
      intros ->. exact (x_not_earlier Hz). }
  assert (HL : count_occ str_eq_dec (firstn (S j) L) s + count_occ str_eq_dec (skipn (S j) L) s
               = count_occ str_eq_dec L s).
  { rewrite <- count_occ_app, firstn_skipn. reflexivity. }
  destruct (peq (iprob x) m) eqn:Ht.
  - destruct (Htied eq_refl) as (B1 & B2 & EB & N1 & N2 & Hout').
    assert (H1 : count_occ str_eq_dec (stream g B1) s = 0).
    { apply Hother. intros z Hz.
      split; [apply (resumed_in_all _ z HP); rewrite EB; apply in_or_app; left; exact Hz|].
      intros ->. exact (N1 Hz). }
    assert (H2 : count_occ str_eq_dec (stream g B2) s = 0).
    { apply Hother. intros z Hz.
      split; [apply (resumed_in_all _ z HP); rewrite EB; apply in_or_app; right; right; exact Hz|].
      intros ->. exact (N2 Hz). }
    rewrite Hout', !count_occ_app. unfold ostr, str in *. rewrite H1, H2. lia.
  - assert (H1 : count_occ str_eq_dec (stream g (resumed_pops r)) s = 0).
    { apply Hother. intros z Hz. split; [exact (resumed_in_all _ z HP Hz)|].
      intros ->. apply Hiff in Hz. congruence. }
    rewrite Hout, count_occ_app. unfold ostr, str in *. rewrite H1. lia.
Qed.

(* ================= the quit check in front of the pop ================= *)
(* Why the code pops first: were the quit flag tested at the top of the loop,
   the saved probability would be the interrupted level's own and the resumed
   run would ALWAYS pop the level's pre-terminal again and print the whole
   level once more after its remainder -- tied with anything or not. *)
Lemma x_ok : okb (iprob x) = true.
Proof.
  apply (good_iprob_ok rs Hwf), In_all_preterminals, U_in_all.
  apply in_or_app. right. left. reflexivity.
Qed.

Theorem check_before_pop_regenerates cleared calls n :
  length (skipn (S j) L) < calls ->
  length (filter (below (iprob x)) (all_preterminals rs)) <= n ->
  exists f r,
    interrupted false pop g (length U1) (S j) c = Saved (stream g U1 ++ firstn (S j) L) f /\
    sf_max_prob f = iprob x /\
    resumed_session false cleared pop' g f calls c2 n = Some r /\
    exists B1 B2, resumed_pops r = B1 ++ x :: B2 /\
      resumed_out true g r = skipn (S j) L ++ stream g B1 ++ L ++ stream g B2.
Proof.
  intros Hcalls Hn.
  destruct interrupted_saves as (st & o & c1 & He & _ & Hint).
  exists (saved_file (iprob x) st), (the_resumed (iprob x) n).
  pose proof (resumed_session_runs (iprob x) st o c1 cleared calls n He Hcalls) as Hres.
  destruct (resume_exact rs Hwf pop' (iprob x) Hpop' x_ok) as (_ & _ & _ & _ & R5 & _).
  assert (Hq : rr_queue (the_resumed (iprob x) n) =
               resumed rs pop' (iprob x) (length (filter (below (iprob x)) (all_preterminals rs))))
    by (apply (resumed_queue_stops (iprob x) n x_ok Hn)).
  split; [exact Hint|]. split; [reflexivity|]. split; [exact Hres|].
  assert (Hin : In x (resumed_pops (the_resumed (iprob x) n))).
  { unfold resumed_pops. rewrite Hq. apply in_rev. rewrite rev_involutive.
    apply (Permutation_in _ (Permutation_sym R5)). apply filter_In. split.
    - apply U_in_all. apply in_or_app. right. left. reflexivity.
    - unfold below. apply (ple_refl A), x_ok. }
  destruct (in_split _ _ Hin) as (B1 & B2 & EB). exists B1, B2. split; [exact EB|].
  unfold MarkovSession.resumed_out. rewrite EB, stream_app, stream_cons, (markov_pt_out g _ _ HT).
  reflexivity.
Qed.

End Cut.

(* ---------------- R18 inside the combined model ---------------- *)
(* the interrupted level is the LAST pre-terminal of the run: the pop that
   follows returns None, the loop returns, nothing is saved *)
Theorem last_level_not_saved (g : sgram) pop U1 x T j c starts :
  wf (sg_rs g) -> pop_ok_okb pop ->
  pops pop g (total (sg_rs g)) = U1 ++ [x] ->
  markov_level g (ipt x) = Some T ->
  j < length (level_strings (sg_omen g) T) ->
  cache_ok (cp_fast (sg_omen g)) (og_max_level (sg_omen g)) c ->
  mc_starts (ip_at (sg_omen g)) (ln_at (sg_omen g)) (og_max_level (sg_omen g)) ffo_extra = Some starts ->
  interrupted true pop g (length U1) (S j) c =
    NotSaved (stream g U1 ++ firstn (S j) (level_strings (sg_omen g) T)).
Proof.
  intros Hwf Hpop HU HT Hj Hc Hstarts.
  set (rs := sg_rs g) in *. set (G := sg_omen g) in *.
  assert (Htot : total rs = S (length U1)).
  { unfold total. rewrite <- (Permutation_length (proj1 (C02_exactly_once_okb rs Hwf pop Hpop))).
    rewrite <- rev_length. unfold pops in HU. fold rs in HU. rewrite HU, app_length. simpl. lia. }
  unfold pops in HU. fold rs in HU.
  (* the state after |U1| pops *)
  assert (E0 : rev (emitted (run pop rs (length U1) (start rs))) = U1).
  { rewrite Htot, run_S_end in HU.
    pose proof (C02_no_early_exhaustion_okb rs Hwf pop (length U1) Hpop ltac:(lia)) as Hlen.
    destruct (step_cases rs pop (run pop rs (length U1) (start rs))) as [[_ E]|(x0 & r & _ & E)]; rewrite E in HU.
    - exfalso. apply (f_equal (@length _)) in HU. rewrite rev_length, Hlen, app_length in HU. simpl in HU. lia.
    - cbn [emitted rev] in HU. apply app_inj_tail in HU. apply HU. }
  destruct (step_cases rs pop (run pop rs (length U1) (start rs))) as [[_ E]|(x0 & r & Ep & E)].
  { exfalso. rewrite Htot, run_S_end, E, E0 in HU. apply (f_equal (@length _)) in HU.
    rewrite app_length in HU. simpl in HU. lia. }
  assert (x0 = x).
  { rewrite Htot, run_S_end, E in HU. cbn [emitted rev] in HU. rewrite E0 in HU.
    apply app_inv_head in HU. congruence. }
  subst x0.
  assert (Hend : pop (find_children rs x ++ r) = None).
  { apply (proj1 Hpop).
    pose proof (proj2 (C02_exactly_once_okb rs Hwf pop Hpop)) as Hp.
    rewrite Htot, run_S_end, E in Hp. exact Hp. }
  destruct (enumerate_prefix G optmax ffo_extra extra_le T c (S j) starts Hc Hstarts) as (st & c1 & He & _).
  unfold MarkovSession.interrupted. fold rs G. rewrite Ep, HT.
  unfold level_prefix. rewrite He.
  replace (Nat.eqb (length (firstn (S j) (level_strings G T))) (S j)) with true
    by (symmetry; apply Nat.eqb_eq; rewrite firstn_length; lia).
  cbn [Nat.leb andb negb]. rewrite Hend, E0. reflexivity.
Qed.

End Session.

(* ------------------------------------------------------------------ *)
(* the order-following queue meets the queue contract, whatever the order *)
Section PopFollow.
Context {A : palg}.
Notation item := (item A).
Notation queue := (queue A).

Lemma take_first_spec (f : item -> bool) (q : queue) x r :
  take_first f q = Some (x, r) -> f x = true /\ Permutation q (x :: r).
Proof.
  revert x r. induction q as [|a q IH]; intros x r H; [discriminate|].
  cbn [take_first] in H. destruct (f a) eqn:Fa.
  - injection H as <- <-. split; [exact Fa | apply Permutation_refl].
  - destruct (take_first f q) as [[y r']|]; [|discriminate].
    injection H as <- <-. destruct (IH y r' eq_refl) as [Fy Hp]. split; [exact Fy|].
    eapply perm_trans; [apply perm_skip, Hp | apply perm_swap].
Qed.

Theorem pop_follow_ok {K} (matches : item -> K -> bool) (order : list K) :
  pop_ok_okb (pop_follow matches order).
Proof.
  induction order as [|o rest IH]; [exact pop_first_max_ok_partial|].
  destruct IH as [IH1 IH2]. split.
  - intros q. cbn [pop_follow].
    destruct (take_first (fun x => if matches x o then is_max q x else false) q) as [[x r]|] eqn:E.
    + split; [discriminate|]. intros ->. discriminate E.
    + apply IH1.
  - intros q x r Hok H. cbn [pop_follow] in H.
    destruct (take_first (fun x => if matches x o then is_max q x else false) q) as [[x0 r0]|] eqn:E.
    + injection H as -> ->. destruct (take_first_spec _ _ _ _ E) as [Fx Hp].
      split; [exact Hp|]. cbv beta in Fx. destruct (matches x o); [|discriminate].
      unfold is_max in Fx. rewrite forallb_forall in Fx. apply Forall_forall. intros z Hz.
      apply negb_true_iff. apply Fx. apply (Permutation_in _ (Permutation_sym Hp)). right. exact Hz.
    + exact (IH2 q x r Hok H).
Qed.

End PopFollow.

(* ------------------------------------------------------------------ *)
(* "Later quit/resume cycles do not replay that remainder again", inside the
   combined model: the resumed session ran the restored level to its end
   (omen_exit false), so the save config it carries on is
   snd (sess_restore true cfg false); whatever probability m' a later quit
   saves with it, the next resume restores no OMEN level. *)
Section LaterCycles.
Context {A : palg}.

Theorem later_resume_no_replay optmax ffo_extra strict cleared' pop (g : sgram A)
        (f : session_file A) (m' : P A) calls c n r :
  resumed_session optmax ffo_extra strict cleared' pop g
                  (mk_sfile m' (snd (sess_restore true (sf_omen f) false))) calls c n = Some r ->
  rr_rest r = [].
Proof.
  unfold resumed_session. cbn [sf_omen sf_max_prob].
  destruct (sf_omen f) as [[k|] o]; cbn [sess_restore sv_number sv_omn fst snd andb negb];
    intros H; injection H as <-; reflexivity.
Qed.

End LaterCycles.
