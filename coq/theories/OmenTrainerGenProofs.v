(* The generated OMEN trainer code (gen/OmenTrainer_gen.v: the translation of the Python
   text of smoothing.py and of AlphabetLookup, redone on every run) equals the hand-written
   models of OmenTrainer.v, for ALL inputs (exceptions included) and for every choice of
   the oracles math.log / math.floor.

   These proofs are meant to break when one of the Python functions changes its meaning
   and to keep checking when it is only written differently: straight-line code is
   compared after reducing the lets (renamed locals, merged or split statements), tests
   are decided by case analysis (nested ifs / elif / flipped tests), loops are matched
   from the goal by the loop lemmas of OmenTrainerRtProofs.v, whose hypotheses talk about
   the effect of one iteration only. *)
From Coq Require Import List Arith Bool NArith ZArith Floats Lia.
From Pcfg Require Import KernelRt OmenSpec OmenTrainer OmenTrainerRt OmenTrainerRtProofs.
From PcfgGen Require Import OmenTrainer_gen.
Import ListNotations.

(* decide every test in sight *)
Ltac split_ifs :=
  repeat match goal with
         | |- context [if ?c then _ else _] => destruct c eqn:?
         end.

Section Oracles.
Variable lg : float -> float.
Variable fl : float -> Z.

(* ------------------------------------------------------------------ *)
(* _calc_level                                                          *)

Theorem gen_calc_level_eq : forall base total factor max_level,
  py_calc_level lg fl base total factor max_level = calc_level lg fl base total factor max_level.
Proof.
  intros. unfold py_calc_level, calc_level, clamp_level, level_epsilon.
  destruct (int_truediv base total) as [q|e]; [|reflexivity].
  cbv beta zeta. cbn [tbind]. split_ifs; reflexivity.
Qed.

(* ------------------------------------------------------------------ *)
(* smooth_length                                                        *)

Theorem gen_smooth_length_eq : forall ln ln_counter max_level,
  py_smooth_length lg fl ln ln_counter max_level = smooth_length lg fl ln ln_counter max_level.
Proof.
  intros. unfold py_smooth_length, smooth_length.
  rewrite (tfor_index_map (smooth_ln_item lg fl ln_counter max_level)).
  - apply tbind_ret.
  - intros a x b. cbv beta. rewrite tindex_mid. cbn [tbind]. cbv zeta.
    unfold smooth_ln_item. destruct x as [n|l c]; cbn [nv_int tbind ttry ttry_else texn_eqb]; [|reflexivity].
    rewrite !gen_calc_level_eq. unfold calc_level, int_truediv.
    destruct (ln_counter =? 0)%Z; try unfold ttry; try unfold ttry_else; cbn [tbind texn_eqb nv_int]; rewrite ?tsetindex_mid; cbn [tbind]; rewrite ?tsetindex_mid; reflexivity.
Qed.

(* ------------------------------------------------------------------ *)
(* smooth_grammar                                                       *)

(* an association list that is a Python dict: keys pairwise different, on both levels *)
Definition grammar_ok (g : ggrammar) : Prop :=
  NoDup (map fst g) /\ forall k e, In (k, e) g -> NoDup (map fst (ge_next e)).

(* the next_letter dict of the entry at key k0, seen from the grammar *)
Definition next_get (k0 : ostr) (g : ggrammar) : list (N * nval) :=
  match afind ostr_eqb k0 g with Some e => ge_next e | None => [] end.
Definition next_put (k0 : ostr) (g : ggrammar) (d : list (N * nval)) : ggrammar :=
  match afind ostr_eqb k0 g with Some e => aset ostr_eqb k0 (ge_set_next e d) g | None => g end.

Lemma ge_set_next_next e : ge_set_next e (ge_next e) = e.
Proof. destruct e; reflexivity. Qed.
Lemma ge_set_next_twice e d d' : ge_set_next (ge_set_next e d) d' = ge_set_next e d'.
Proof. destruct e; reflexivity. Qed.

Ltac dict_norm :=
  repeat first [ rewrite (afind_aset_same ostr_eqb ostr_eqb_eq)
               | rewrite (aset_aset_same ostr_eqb ostr_eqb_eq)
               | rewrite (afind_aset_same N.eqb N.eqb_eq)
               | rewrite (aset_aset_same N.eqb N.eqb_eq) ].

Theorem gen_smooth_grammar_eq : forall g ip_total ep_total, grammar_ok g ->
  py_smooth_grammar lg fl g ip_total ep_total = smooth_grammar lg fl g ip_total ep_total.
Proof.
  intros g ipt ept [Hnd Hnx]. unfold py_smooth_grammar, smooth_grammar.
  rewrite (tfor_keys_map ostr_eqb ostr_eqb_eq (fun _ e => smooth_entry lg fl ipt ept e)); [apply tbind_ret | exact Hnd |].
  intros k d e Hin Hk. cbv beta zeta. rewrite !Hk. cbn [tget tbind]. dict_norm. cbn [tget tbind].
  rewrite !gen_calc_level_eq. unfold smooth_entry.
  destruct (calc_level lg fl (ge_ip_count e) ipt _ _) as [il|x]; [|reflexivity]. cbn [tbind].
  dict_norm. cbn [tget tbind].
  rewrite ?gen_calc_level_eq.
  replace (ge_ep_count (ge_set_ip_level e il)) with (ge_ep_count e) by (destruct e; reflexivity).
  destruct (calc_level lg fl (ge_ep_count e) ept _ _) as [el|x]; [|reflexivity]. cbn [tbind].
  dict_norm. cbn [tget tbind].
  set (e2 := ge_set_ep_level (ge_set_ip_level e il) el).
  set (g2 := aset ostr_eqb k e2 d).
  assert (Hn2 : ge_next e2 = ge_next e) by (destruct e; reflexivity).
  assert (Hc2 : ge_cp_count e2 = ge_cp_count e) by (destruct e; reflexivity).
  assert (Hg2 : afind ostr_eqb k g2 = Some e2) by (apply (afind_aset_same ostr_eqb ostr_eqb_eq)).
  replace (ge_next e2) with (next_get k g2) by (unfold next_get; rewrite Hg2; reflexivity).
  rewrite (tfor_keys_lens N.eqb N.eqb_eq (next_get k) (next_put k)
             (fun s => exists es, afind ostr_eqb k s = Some es /\ ge_cp_count es = ge_cp_count e)
             (fun _ v => smooth_leaf lg fl (ge_cp_count e) v)).
  - unfold next_get at 1. rewrite Hg2, Hn2.
    destruct (tmapM _ (ge_next e)) as [nx|x]; [|reflexivity]. cbn [tbind].
    unfold next_put. rewrite Hg2. unfold g2. dict_norm.
    destruct e; reflexivity.
  - intros s dd (es & Hs & Hc). unfold next_put. rewrite Hs. exists (ge_set_next es dd). split; [dict_norm; reflexivity | destruct es; exact Hc].
  - intros s dd (es & Hs & Hc). unfold next_get, next_put. rewrite Hs. dict_norm. destruct es; reflexivity.
  - intros s dd dd' (es & Hs & Hc). unfold next_put. rewrite Hs. dict_norm. rewrite ge_set_next_twice. reflexivity.
  - intros s (es & Hs & Hc). unfold next_get, next_put. rewrite Hs, ge_set_next_next.
    apply aset_same_id. exact Hs.
  - exists e2. split; [exact Hg2 | exact Hc2].
  - unfold next_get. rewrite Hg2, Hn2. apply (Hnx k e Hin).
  - intros c s v (es & Hs & Hc) _ Hv. unfold next_get in Hv. rewrite Hs in Hv.
    cbv beta zeta. rewrite !Hs. cbn [tget tbind]. rewrite !Hv. cbn [tget tbind].
    unfold smooth_leaf. destruct (nv_int v) as [n|x]; [|reflexivity]. cbn [tbind].
    rewrite gen_calc_level_eq, Hc. destruct (calc_level lg fl n _ _ _) as [l|x]; [|reflexivity]. cbn [tbind].
    unfold next_put, next_get. rewrite Hs. reflexivity.
Qed.

(* ------------------------------------------------------------------ *)
(* AlphabetLookup                                                       *)

Theorem gen_alookup_init_eq : forall alphabet ngram min_length max_length,
  py_alookup_init lg fl alphabet ngram min_length max_length = TOk (alookup_init alphabet ngram min_length max_length).
Proof.
  intros. unfold py_alookup_init, alookup_init, al_blank. cbv zeta.
  cbn [al_min_length al_set_alphabet al_set_ngram al_set_max_length al_set_min_length al_alphabet al_ngram al_max_length
       al_grammar al_ip_counter al_ep_counter al_ln_counter al_ln_lookup].
  destruct (min_length <? ngram)%Z; reflexivity.
Qed.

Theorem gen_alookup_apply_smoothing_eq : forall A, grammar_ok (al_grammar A) ->
  py_alookup_apply_smoothing lg fl A = apply_smoothing lg fl A.
Proof.
  intros A H. unfold py_alookup_apply_smoothing, apply_smoothing. rewrite gen_smooth_length_eq.
  destruct (smooth_length lg fl _ _ _) as [ln|x]; [|reflexivity]. cbn [tbind]. cbv zeta.
  destruct A as [a1 a2 a3 a4 a5 a6 a7 a8 a9]; cbn [al_grammar al_ip_counter al_ep_counter al_set_ln_lookup] in *.
  rewrite gen_smooth_grammar_eq by exact H.
  destruct (smooth_grammar lg fl _ _ _) as [g|x]; reflexivity.
Qed.

Theorem gen_alookup_is_in_alphabet_eq : forall A s,
  py_alookup_is_in_alphabet lg fl A s = TOk (in_alphabet (al_alphabet A) s).
Proof.
  intros. unfold py_alookup_is_in_alphabet, in_alphabet.
  first [ reflexivity
        | rewrite (tfor_forallb (fun c => existsb (N.eqb c) (al_alphabet A)) _ false);
          [ match goal with |- context [forallb ?p ?l] => destruct (forallb p l) end; reflexivity
          | intros x u; destruct (existsb (N.eqb x) (al_alphabet A)); reflexivity ] ].
Qed.

Ltac al_proj :=
  cbn [al_alphabet al_ngram al_max_length al_min_length al_grammar al_ip_counter al_ep_counter al_ln_counter al_ln_lookup
       al_set_alphabet al_set_ngram al_set_max_length al_set_min_length al_set_grammar al_set_ip_counter
       al_set_ep_counter al_set_ln_counter al_set_ln_lookup].

Ltac step := repeat (dict_norm; al_proj; cbn [tget tbind negb]).

(* one position never changes the n-gram size *)
Lemma parse_pos_ngram pw S i S' : parse_pos pw S i = TOk S' -> al_ngram S' = al_ngram S.
Proof.
  unfold parse_pos. cbv zeta. destruct S as [a1 ng a3 a4 g a6 a7 a8 a9]. al_proj.
  destruct (afind ostr_eqb _ g); [|destruct (in_alphabet a1 _)];
    try (match goal with |- context [tbind ?m _] => destruct m end; cbn [tbind]; [|discriminate]);
    intro H; inversion H; repeat match goal with |- context [if ?c then _ else _] => destruct c end; reflexivity.
Qed.

(* decide an equation between boolean combinations of integer comparisons *)
Ltac zbool :=
  repeat match goal with
         | |- context [(?a <? ?b)%Z] => destruct (Z.ltb_spec a b)
         | |- context [(?a <=? ?b)%Z] => destruct (Z.leb_spec a b)
         end; cbn [negb andb orb]; first [reflexivity | exfalso; lia].

Theorem gen_alookup_parse_eq : forall A pw, py_alookup_parse lg fl A pw = parse A pw.
Proof.
  intros A pw. unfold py_alookup_parse, parse. cbv zeta.
  match goal with |- (if ?c then _ else _) = (if ?c' then _ else _) => replace c with c' by zbool end.
  destruct ((tlen pw <? al_min_length A)%Z || (al_max_length A <? tlen pw)%Z); [reflexivity|].
  destruct (tindex (al_ln_lookup A) (tlen pw - 1)) as [v|x]; [|reflexivity]. cbn [tbind].
  destruct (nv_int v) as [c|x]; [|reflexivity]. cbn [tbind].
  destruct (tsetindex (al_ln_lookup A) (tlen pw - 1) (NCount (c + 1))) as [ln|x]; [|reflexivity]. cbn [tbind].
  destruct A as [alpha ng maxl minl g ipc epc lnc lnl]. al_proj.
  match goal with |- context [tfor (trange _ ?b) _ _ _] => first [replace b with (tlen pw - ng + 2)%Z by lia | idtac] end.
  rewrite (tfor_fold_inv (parse_pos pw) (fun S => al_ngram S = ng)); [apply tbind_ret | | | reflexivity].
  { intros i S S' _ HP HS. rewrite (parse_pos_ngram _ _ _ _ HS). exact HP. }
  intros i S _ HP. destruct S as [alpha' ng' maxl' minl' g' ipc' epc' lnc' lnl']. cbn [al_ngram] in HP. subst ng'.
  unfold parse_pos. cbv zeta. al_proj. rewrite ?Z.add_sub_assoc.
  rewrite !gen_alookup_is_in_alphabet_eq. al_proj.
  set (k := tslice pw (Some i) (Some (i + ng - 1)%Z)). unfold amem.
  unfold bump_next, new_entry.
  repeat (step; rewrite ?gen_alookup_is_in_alphabet_eq;
          repeat match goal with H : ?l = _ |- context [?l] => rewrite H end; step;
          match goal with
          | |- context [match afind ?q ?a ?b with _ => _ end] => destruct (afind q a b) eqn:?
          | |- context [if ?c then _ else _] => destruct c eqn:?
          | |- context [tbind (tindex ?a ?b) _] => destruct (tindex a b) eqn:?
          | |- context [tbind (nv_int ?a) _] => destruct (nv_int a) eqn:?
          | |- context [match in_alphabet ?a ?b with _ => _ end] => destruct (in_alphabet a b) eqn:?
          end); step; try reflexivity; try discriminate;
  repeat match goal with H : afind ?q ?k ?d = Some ?v |- context [aset ?q ?k ?v ?d] => rewrite (aset_same_id q k v d H) end;
  al_proj; try reflexivity.
Qed.

(* pass 2: every password of the list *)
Theorem gen_alookup_parse_all_eq : forall pws A,
  tfoldM (py_alookup_parse lg fl) pws A = parse_all A pws.
Proof.
  unfold parse_all. induction pws as [|pw pws IH]; intro A; simpl; [reflexivity|].
  rewrite gen_alookup_parse_eq. destruct (parse A pw); simpl; [apply IH | reflexivity].
Qed.


End Oracles.
