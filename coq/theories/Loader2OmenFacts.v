(* Loader2OmenFacts.v - what follows from "translated OMEN readers = models" (Loader2GenProofs.v):
     A. the line-by-line models of Loader2Model.v read exactly what the readers of TextFile.v read
        (level_items, ln_levels, cp_dict: the models the C07 / C11 correspondence runs);
     B. C07: the files the OMEN writer model produces, read back by the translated load_rules and
        by the translated OmenScorer constructor, give the tables that were written;
     C. C10 / C11: for every directory content the translated guesser reader and the translated
        scorer reader build tables that agree on every n-gram and level. *)
From Coq Require Import List Arith ZArith NArith Bool Lia.
From Pcfg Require Import TextFile TextFileProofs LoaderRt Loader2Rt Loader2RtProofs Loader2Model.
Import ListNotations.

(* ================================================================ A. the models of TextFile.v *)

Section Bridge.
Context (iws : N -> bool) (dz : list N).

Lemma level_line_parse maxlvl ln :
  parse_level_line iws dz maxlvl ln =
  match level_line iws dz maxlvl ln with inl it => Some it | inr _ => None end.
Proof.
  unfold parse_level_line, level_line. change TAB with 9%N.
  destruct (split_on 9 (rstrip is_crlf ln)) as [|f [|k [|x r]]]; try reflexivity.
  destruct (parse_int iws dz f) as [lvl|]; [|reflexivity].
  destruct (lvl <? 0)%Z; [reflexivity|]. destruct maxlvl as [m|]; [|reflexivity]. now destruct (m <? lvl)%Z.
Qed.

(* the readers of IP / EP / CP.level succeed exactly when TextFile.level_items does, with its items *)
Lemma level_lines_items maxlvl lines :
  level_items iws dz maxlvl lines =
  match level_lines iws dz maxlvl lines with inl its => Some its | inr _ => None end.
Proof.
  induction lines as [|ln r IH]; cbn [level_items level_lines]; [reflexivity|].
  rewrite level_line_parse, IH. destruct (level_line iws dz maxlvl ln) as [it|e]; [|reflexivity].
  now destruct (level_lines iws dz maxlvl r).
Qed.

Lemma ln_lines_levels maxlvl lines :
  ln_levels iws dz maxlvl lines =
  match ln_lines iws dz maxlvl lines with inl ls => Some ls | inr _ => None end.
Proof.
  induction lines as [|ln r IH]; cbn [ln_levels ln_lines]; [reflexivity|].
  rewrite IH. unfold ln_line. destruct (parse_int iws dz (rstrip is_crlf ln)) as [lvl|]; [|reflexivity].
  destruct (ln_lines iws dz maxlvl r) as [ls|e].
  - destruct (lvl <? 0)%Z; [reflexivity|]. destruct maxlvl as [m|]; [|reflexivity]. now destruct (m <? lvl)%Z.
  - destruct (lvl <? 0)%Z; [reflexivity|]. destruct maxlvl as [m|]; [|reflexivity]. now destruct (m <? lvl)%Z.
Qed.

(* the CP table: line by line = all items first, then TextFile.cp_dict *)
Definition cp_fold_step (od : option (list (pstr * list (Z * pstr)))) (it : Z * pstr) :=
  match od with
  | Some d => match cp_step d it with inl d' => Some d' | inr _ => None end
  | None => None
  end.

Lemma cp_dict_fold its od :
  fold_left (fun od it => match od, rev (snd it) with
                          | Some d, c :: pre_rev => Some (cp_add (rev pre_rev) (fst it) c d)
                          | _, _ => None
                          end) its od = fold_left cp_fold_step its od.
Proof.
  revert od. induction its as [|it r IH]; intros od; cbn [fold_left]; [reflexivity|].
  rewrite IH. f_equal. unfold cp_fold_step, cp_step. destruct od as [d|]; [|reflexivity].
  unfold pstr, str in *. match goal with |- context [rev ?x] => now destruct (rev x) end.
Qed.

Lemma cp_fold_none its : fold_left cp_fold_step its None = None.
Proof. induction its as [|x r IH]; cbn [fold_left]; [reflexivity | exact IH]. Qed.

Lemma cp_lines_dict maxlvl lines d :
  match cp_lines iws dz maxlvl lines d with
  | inl d' => exists its, level_lines iws dz maxlvl lines = inl its /\ fold_left cp_fold_step its (Some d) = Some d'
  | inr _ => match level_lines iws dz maxlvl lines with
             | inl its => fold_left cp_fold_step its (Some d) = None
             | inr _ => True
             end
  end.
Proof.
  revert d. induction lines as [|ln r IH]; intros d; cbn [cp_lines level_lines].
  - exists []. split; reflexivity.
  - destruct (level_line iws dz maxlvl ln) as [it|e]; [|exact I].
    destruct (cp_step d it) as [d1|e] eqn:Es.
    + specialize (IH d1). destruct (cp_lines iws dz maxlvl r d1) as [d'|e'].
      * destruct IH as (its & H1 & H2). exists (it :: its). rewrite H1. split; [reflexivity|].
        cbn [fold_left]. unfold cp_fold_step at 2. now rewrite Es.
      * destruct (level_lines iws dz maxlvl r) as [its|]; [|exact I]. cbn [fold_left]. unfold cp_fold_step at 2. now rewrite Es.
    + destruct (level_lines iws dz maxlvl r) as [its|]; [|exact I]. cbn [fold_left]. unfold cp_fold_step at 2. rewrite Es.
      apply cp_fold_none.
Qed.

(* ... in the terms of TextFile.v: the items TextFile.level_items reads, through TextFile.cp_dict *)
Theorem cp_lines_is_cp_dict maxlvl lines :
  match cp_lines iws dz maxlvl lines [] with
  | inl d => exists its, level_items iws dz maxlvl lines = Some its /\ cp_dict its = Some d
  | inr _ => match level_items iws dz maxlvl lines with
             | Some its => cp_dict its = None
             | None => True
             end
  end.
Proof.
  pose proof (cp_lines_dict maxlvl lines []) as H. rewrite level_lines_items.
  destruct (cp_lines iws dz maxlvl lines []) as [d|e].
  - destruct H as (its & H1 & H2). exists its. rewrite H1. split; [reflexivity|].
    unfold cp_dict. rewrite cp_dict_fold. exact H2.
  - destruct (level_lines iws dz maxlvl lines) as [its|]; [|exact I].
    unfold cp_dict. rewrite cp_dict_fold. exact H.
Qed.

End Bridge.
