(* Loader2OmenFacts.v - what follows from "translated OMEN readers = models" (Loader2GenProofs.v):
     A. the line-by-line models of Loader2Model.v read exactly what the readers of TextFile.v read
        (level_items, ln_levels, cp_dict: the models the C07 / C11 correspondence runs);
     B. C07: the files the OMEN writer model produces, read back by the translated load_rules and
        by the translated OmenScorer constructor, give the tables that were written;
     C. C10 / C11: for every directory content the translated guesser reader and the translated
        scorer reader build tables that agree on every n-gram and level. *)
From Coq Require Import List Arith ZArith NArith Bool Lia.
From Pcfg Require Import TextFile TextFileProofs LoaderRt Loader2Rt Loader2RtProofs Loader2Model Loader2GenProofs.
Import ListNotations.

(* ================================================================ A. the models of TextFile.v *)

Section Bridge.
Context (iws : N -> bool) (dz : list N).

Lemma level_line_parse maxlvl ln :
  parse_level_line iws dz maxlvl ln =
  match level_line iws dz maxlvl ln with inl it => Some it | inr _ => None end.
Proof.
  unfold parse_level_line, level_line. change TAB with 9%N.
  destruct (split_on 9 (rstrip is_crlf ln)) as [|f [|k [|x r]]]; try reflexivity.
  destruct (parse_int iws dz f) as [lvl|]; [|reflexivity].
  destruct (lvl <? 0)%Z; [reflexivity|]. destruct maxlvl as [m|]; [|reflexivity]. now destruct (m <? lvl)%Z.
Qed.

(* the readers of IP / EP / CP.level succeed exactly when TextFile.level_items does, with its items *)
Lemma level_lines_items maxlvl lines :
  level_items iws dz maxlvl lines =
  match level_lines iws dz maxlvl lines with inl its => Some its | inr _ => None end.
Proof.
  induction lines as [|ln r IH]; cbn [level_items level_lines]; [reflexivity|].
  rewrite level_line_parse, IH. destruct (level_line iws dz maxlvl ln) as [it|e]; [|reflexivity].
  now destruct (level_lines iws dz maxlvl r).
Qed.

Lemma ln_lines_levels maxlvl lines :
  ln_levels iws dz maxlvl lines =
  match ln_lines iws dz maxlvl lines with inl ls => Some ls | inr _ => None end.
Proof.
  induction lines as [|ln r IH]; cbn [ln_levels ln_lines]; [reflexivity|].
  rewrite IH. unfold ln_line. destruct (parse_int iws dz (rstrip is_crlf ln)) as [lvl|]; [|reflexivity].
  destruct (ln_lines iws dz maxlvl r) as [ls|e].
  - destruct (lvl <? 0)%Z; [reflexivity|]. destruct maxlvl as [m|]; [|reflexivity]. now destruct (m <? lvl)%Z.
  - destruct (lvl <? 0)%Z; [reflexivity|]. destruct maxlvl as [m|]; [|reflexivity]. now destruct (m <? lvl)%Z.
Qed.

(* the CP table: line by line = all items first, then TextFile.cp_dict *)
Definition cp_fold_step (od : option (list (pstr * list (Z * pstr)))) (it : Z * pstr) :=
  match od with
  | Some d => match cp_step d it with inl d' => Some d' | inr _ => None end
  | None => None
  end.

Lemma cp_dict_fold its od :
  fold_left (fun od it => match od, rev (snd it) with
                          | Some d, c :: pre_rev => Some (cp_add (rev pre_rev) (fst it) c d)
                          | _, _ => None
                          end) its od = fold_left cp_fold_step its od.
Proof.
  revert od. induction its as [|it r IH]; intros od; cbn [fold_left]; [reflexivity|].
  rewrite IH. f_equal. unfold cp_fold_step, cp_step. destruct od as [d|]; [|reflexivity].
  unfold pstr, str in *. match goal with |- context [rev ?x] => now destruct (rev x) end.
Qed.

Lemma cp_fold_none its : fold_left cp_fold_step its None = None.
Proof. induction its as [|x r IH]; cbn [fold_left]; [reflexivity | exact IH]. Qed.

Lemma cp_lines_dict maxlvl lines d :
  match cp_lines iws dz maxlvl lines d with
  | inl d' => exists its, level_lines iws dz maxlvl lines = inl its /\ fold_left cp_fold_step its (Some d) = Some d'
  | inr _ => match level_lines iws dz maxlvl lines with
             | inl its => fold_left cp_fold_step its (Some d) = None
             | inr _ => True
             end
  end.
Proof.
  revert d. induction lines as [|ln r IH]; intros d; cbn [cp_lines level_lines].
  - exists []. split; reflexivity.
  - destruct (level_line iws dz maxlvl ln) as [it|e]; [|exact I].
    destruct (cp_step d it) as [d1|e] eqn:Es.
    + specialize (IH d1). destruct (cp_lines iws dz maxlvl r d1) as [d'|e'].
      * destruct IH as (its & H1 & H2). exists (it :: its). rewrite H1. split; [reflexivity|].
        cbn [fold_left]. unfold cp_fold_step at 2. now rewrite Es.
      * destruct (level_lines iws dz maxlvl r) as [its|]; [|exact I]. cbn [fold_left]. unfold cp_fold_step at 2. now rewrite Es.
    + destruct (level_lines iws dz maxlvl r) as [its|]; [|exact I]. cbn [fold_left]. unfold cp_fold_step at 2. rewrite Es.
      apply cp_fold_none.
Qed.

(* ... in the terms of TextFile.v: the items TextFile.level_items reads, through TextFile.cp_dict *)
Theorem cp_lines_is_cp_dict maxlvl lines :
  match cp_lines iws dz maxlvl lines [] with
  | inl d => exists its, level_items iws dz maxlvl lines = Some its /\ cp_dict its = Some d
  | inr _ => match level_items iws dz maxlvl lines with
             | Some its => cp_dict its = None
             | None => True
             end
  end.
Proof.
  pose proof (cp_lines_dict maxlvl lines []) as H. rewrite level_lines_items.
  destruct (cp_lines iws dz maxlvl lines []) as [d|e].
  - destruct H as (its & H1 & H2). exists its. rewrite H1. split; [reflexivity|].
    unfold cp_dict. rewrite cp_dict_fold. exact H2.
  - destruct (level_lines iws dz maxlvl lines) as [its|]; [|exact I].
    unfold cp_dict. rewrite cp_dict_fold. exact H.
Qed.

End Bridge.

(* ================================================================ C. the two readers agree *)

(* Both readers are functions of the ITEMS of the level files (Loader2Model.omen_guesser_load /
   omen_scorer_load: level_lines of IP / CP.level, ln_lines of LN.level).  For the same items the
   guesser's bucketed tables and the scorer's dicts say the same about every n-gram and level. *)

Lemma dict_get_set {V : Type} (s k : str) (v : V) d :
  dict_get s (dict_set k v d) = if str_eqb s k then Some v else dict_get s d.
Proof.
  induction d as [|[k' v'] r IH]; cbn [dict_set dict_get]; [reflexivity|].
  destruct (str_eqb k k') eqn:E; cbn [dict_get].
  - apply str_eqb_eq in E. subst k'. now destruct (str_eqb s k).
  - rewrite IH. destruct (str_eqb s k') eqn:E2; [|reflexivity].
    apply str_eqb_eq in E2. subst k'. rewrite str_eqb_sym, E. reflexivity.
Qed.

Lemma ep_dict_app its it : ep_dict (its ++ [it]) = dict_set (snd it) (fst it) (ep_dict its).
Proof. unfold ep_dict. now rewrite fold_left_app. Qed.

(* the scorer's dict: the level of an n-gram is the level of its line (no n-gram twice) *)
Lemma ep_dict_get (its : list (Z * str)) s z :
  NoDup (map snd its) -> (dict_get s (ep_dict its) = Some z <-> In (z, s) its).
Proof.
  induction its as [|it r IH] using rev_ind; intros Hnd.
  - cbn. split; [discriminate | contradiction].
  - rewrite ep_dict_app, dict_get_set. rewrite map_app in Hnd. cbn [map] in Hnd.
    apply NoDup_remove in Hnd. rewrite app_nil_r in Hnd. destruct Hnd as [Hnd Hnot].
    destruct (str_eqb s (snd it)) eqn:E.
    + apply str_eqb_eq in E. subst s. split.
      * intros H. inversion H. subst z. apply in_or_app. right. left. now destruct it.
      * intros H. apply in_app_or in H. destruct H as [H|[H|[]]].
        -- exfalso. apply Hnot. apply in_map_iff. now exists (z, snd it).
        -- destruct it. inversion H. reflexivity.
    + rewrite (IH Hnd). split.
      * intros H. apply in_or_app. now left.
      * intros H. apply in_app_or in H. destruct H as [H|[H|[]]]; [exact H|].
        destruct it. inversion H. subst. cbn in E. now rewrite str_eqb_refl in E.
Qed.

(* the guesser's buckets: grammar['ip'][l] lists the n-grams of the lines of level l *)
Lemma ip_bucket_in (its : list (Z * str)) s l :
  (l < 11)%nat -> (In s (nth l (ip_buckets its) []) <-> In (Z.of_nat l, s) its).
Proof.
  intros Hl. unfold ip_buckets.
  rewrite (nth_indep _ [] (map snd (filter (fun it => Z.eqb (fst it) (Z.of_nat 0%nat)) its))) by (now rewrite map_length, seq_length).
  rewrite (map_nth (fun lvl => map snd (filter (fun it : Z * str => Z.eqb (fst it) (Z.of_nat lvl)) its)) (seq 0 11) 0%nat l).
  rewrite seq_nth by exact Hl. cbn [Nat.add]. rewrite in_map_iff. split.
  - intros ((z & s') & Hs & Hin). apply filter_In in Hin. destruct Hin as [Hin Hz]. cbn in Hs, Hz. subst s'.
    apply Z.eqb_eq in Hz. now subst z.
  - intros Hin. exists (Z.of_nat l, s). split; [reflexivity|]. apply filter_In. split; [exact Hin|]. cbn. apply Z.eqb_refl.
Qed.

(* C10 / C11, IP.level: the generator finds an initial n-gram at level l exactly when the scorer
   gives it level l *)
Theorem ip_tables_agree (ip : list (Z * str)) :
  NoDup (map snd ip) ->
  forall s l, (l < 11)%nat ->
    (In s (nth l (ip_buckets ip) []) <-> dict_get s (ep_dict ip) = Some (Z.of_nat l)).
Proof. intros Hnd s l Hl. rewrite ip_bucket_in by exact Hl. symmetry. now apply ep_dict_get. Qed.

(* LN.level: grammar['ln'][l] holds len - (ngram - 1) exactly for the lengths len >= ngram whose line
   says l, which is self.ln[len] of the scorer (line len of the file; self.ln starts with '10') *)
Lemma ln_idx_in (lv : list Z) len l :
  In (len, l) (combine (map Z.of_nat (seq 1 (length lv))) lv) <->
  exists i, (i < length lv)%nat /\ len = Z.of_nat (S i) /\ nth_error lv i = Some l.
Proof.
  assert (G : forall (lv : list Z) start, In (len, l) (combine (map Z.of_nat (seq start (length lv))) lv) <->
              exists i, (i < length lv)%nat /\ len = Z.of_nat (start + i) /\ nth_error lv i = Some l).
  { clear lv. induction lv as [|x r IH]; intros start; cbn [length seq map combine].
    - split; [contradiction | intros (i & Hi & _); lia].
    - cbn [In]. rewrite IH. split.
      + intros [H|(i & Hi & Hl & Hn)].
        * inversion H. subst. exists 0%nat. split; [lia|]. split; [f_equal; lia | reflexivity].
        * exists (S i). split; [lia|]. split; [rewrite Hl; f_equal; lia | exact Hn].
      + intros (i & Hi & Hl & Hn). destruct i as [|i].
        * left. cbn in Hn. inversion Hn. subst. f_equal. f_equal. lia.
        * right. exists i. split; [lia|]. split; [rewrite Hl; f_equal; lia | exact Hn]. }
  rewrite (G lv 1%nat). split; intros (i & Hi & Hl & Hn); exists i; (split; [exact Hi|]); (split; [|exact Hn]); rewrite Hl; f_equal.
Qed.

Theorem ln_tables_agree (n : Z) (lv : list Z) :
  forall i l, (i < length lv)%nat -> (l < 11)%nat -> (n <= Z.of_nat (S i))%Z ->
    (In (Z.of_nat (S i) - (n - 1))%Z (nth l (ln_guesser n lv) []) <-> nth_error lv i = Some (Z.of_nat l)).
Proof.
  intros i l Hi Hl Hn. unfold ln_guesser. cbv zeta.
  set (idx := combine (map Z.of_nat (seq 1 (length lv))) lv).
  set (f := fun lvl : nat => map (fun p : Z * Z => (fst p - (n - 1))%Z)
                             (filter (fun p : Z * Z => Z.eqb (snd p) (Z.of_nat lvl) && (n <=? fst p)%Z) idx)).
  rewrite (nth_indep _ [] (f 0%nat)) by (now rewrite map_length, seq_length).
  rewrite (map_nth f (seq 0 11) 0%nat l). rewrite seq_nth by exact Hl. cbn [Nat.add]. unfold f.
  rewrite in_map_iff. split.
  - intros ((len & x) & Hk & Hin). apply filter_In in Hin. destruct Hin as [Hin Hc]. cbn [fst snd] in Hk, Hc.
    apply andb_true_iff in Hc. destruct Hc as [Hx _]. apply Z.eqb_eq in Hx. subst x.
    apply ln_idx_in in Hin. destruct Hin as (j & Hj & Hlen & Hnth). assert (j = i) by lia. now subst j.
  - intros Hnth. exists (Z.of_nat (S i), Z.of_nat l). split; [reflexivity|]. apply filter_In. split.
    + apply ln_idx_in. now exists i.
    + cbn [fst snd]. rewrite Z.eqb_refl. cbn [andb]. now apply Z.leb_le.
Qed.

(* CP.level: grammar['cp'][prefix][l] lists the last characters of the n-grams prefix + c of the lines
   of level l; the scorer's self.cp[prefix + c] is that level *)
Definition cp_chars (d : list (pstr * list (Z * pstr))) (p : pstr) (l : Z) : pstr :=
  match cget p d with
  | Some m => match zget l m with Some cs => cs | None => [] end
  | None => []
  end.

Lemma cget_cset_other p q m d : str_eqb p q = false -> cget p (cset q m d) = cget p d.
Proof.
  intros Hn. induction d as [|[k m'] r IH]; cbn [cset cget]; [now rewrite Hn|].
  destruct (str_eqb q k) eqn:E; cbn [cget].
  - destruct (str_eqb p k) eqn:E2; [|reflexivity]. apply str_eqb_eq in E, E2. subst. now rewrite str_eqb_refl in Hn.
  - now rewrite IH.
Qed.

Lemma zget_zset_other l l' cs m : Z.eqb l l' = false -> zget l (zset l' cs m) = zget l m.
Proof.
  intros Hn. induction m as [|[k cs'] r IH]; cbn [zset zget]; [now rewrite Hn|].
  destruct (Z.eqb l' k) eqn:E; cbn [zget].
  - destruct (Z.eqb l k) eqn:E2; [|reflexivity]. apply Z.eqb_eq in E, E2. subst. now rewrite Z.eqb_refl in Hn.
  - now rewrite IH.
Qed.

Lemma cp_chars_add pre lvl ch d p l :
  cp_chars (cp_add pre lvl ch d) p l = cp_chars d p l ++ (if str_eqb p pre && Z.eqb l lvl then [ch] else []).
Proof.
  rewrite cp_add_spec, zdict_add_spec. unfold cp_chars.
  destruct (str_eqb p pre) eqn:Ep.
  - apply str_eqb_eq in Ep. subst p. rewrite cget_cset. cbn [andb].
    destruct (cget pre d) as [m|]; cbn [zget].
    + destruct (Z.eqb l lvl) eqn:El.
      * apply Z.eqb_eq in El. subst l. rewrite zget_zset. now destruct (zget lvl m).
      * rewrite zget_zset_other by exact El. now rewrite app_nil_r.
    + destruct (Z.eqb l lvl) eqn:El.
      * apply Z.eqb_eq in El. subst l. cbn [zset zget]. now rewrite Z.eqb_refl.
      * cbn [zset zget]. now rewrite El.
  - rewrite cget_cset_other by exact Ep. cbn [andb]. now rewrite app_nil_r.
Qed.

Lemma cp_fold_in (its : list (Z * pstr)) d :
  fold_left cp_fold_step its (Some []) = Some d ->
  forall p l c, In c (cp_chars d p l) <-> In (l, p ++ [c]) its.
Proof.
  revert d. induction its as [|it r IH] using rev_ind; intros d H p l c.
  - cbn in H. inversion H. subst d. cbn. tauto.
  - rewrite fold_left_app in H. cbn [fold_left] in H.
    destruct (fold_left cp_fold_step r (Some [])) as [d0|] eqn:E0; [|discriminate H].
    cbn [cp_fold_step] in H. unfold cp_step in H. destruct it as [lvl k]. cbn [fst snd] in H.
    destruct (list_last_cases k) as [->|(pre & ch & ->)]; [discriminate H|].
    rewrite rev_app_distr in H. cbn [rev app] in H. rewrite rev_involutive in H. inversion H. subst d. clear H.
    rewrite cp_chars_add, in_app_iff, (IH d0 eq_refl). split.
    + intros [Hin|Hin]; [apply in_or_app; now left|].
      destruct (str_eqb p pre) eqn:Ep; destruct (Z.eqb l lvl) eqn:El; cbn [andb] in Hin; try contradiction.
      destruct Hin as [<-|[]]. apply str_eqb_eq in Ep. apply Z.eqb_eq in El. subst. apply in_or_app. right. now left.
    + intros Hin. apply in_app_or in Hin. destruct Hin as [Hin|[Hin|[]]]; [now left|].
      inversion Hin as [[Hl Hk]]. apply app_inj_tail in Hk. destruct Hk as [-> ->]. right.
      now rewrite str_eqb_refl, Z.eqb_refl; left.
Qed.

Theorem cp_tables_agree (cp : list (Z * pstr)) d :
  cp_dict cp = Some d -> NoDup (map snd cp) ->
  forall p l c, In c (cp_chars d p l) <-> dict_get (p ++ [c]) (ep_dict cp) = Some l.
Proof.
  intros Hd Hnd p l c. unfold cp_dict in Hd. rewrite cp_dict_fold in Hd.
  rewrite (cp_fold_in cp d Hd). symmetry. now apply ep_dict_get.
Qed.

(* ---------------------------------------------------------------- both readers read the same items *)

Section SameItems.
Context (fo : fops) {C SS : Type} (W : world fo C SS) (iws : N -> bool) (dz : list N).

(* the two ways of opening a file (codecs.open with the encoding of Omen/config.txt and
   errors='strict' for the guesser, builtin open with the ruleset encoding for the scorer) yield
   the same lines up to their line ends *)
Definition same_lines (a b : list pstr) : Prop := map (rstrip is_crlf) a = map (rstrip is_crlf) b.

Lemma level_line_rstrip m a b : rstrip is_crlf a = rstrip is_crlf b -> level_line iws dz m a = level_line iws dz m b.
Proof. intros H. unfold level_line. now rewrite H. Qed.

Lemma level_lines_same m a b : same_lines a b -> level_lines iws dz m a = level_lines iws dz m b.
Proof.
  unfold same_lines. revert b. induction a as [|x a IH]; destruct b as [|y b]; cbn [map level_lines]; intros H;
    try discriminate; [reflexivity|].
  inversion H as [[H1 H2]]. now rewrite (level_line_rstrip m x y H1), (IH b H2).
Qed.

Lemma level_line_mono a it : level_line iws dz (Some 10%Z) a = inl it -> level_line iws dz None a = inl it.
Proof.
  unfold level_line. destruct (split_on 9 (rstrip is_crlf a)) as [|f [|k [|x r]]]; try discriminate.
  destruct (parse_int iws dz f) as [lvl|]; [|discriminate]. destruct (lvl <? 0)%Z; [discriminate|].
  now destruct (10 <? lvl)%Z.
Qed.

Lemma level_lines_mono a its : level_lines iws dz (Some 10%Z) a = inl its -> level_lines iws dz None a = inl its.
Proof.
  revert its. induction a as [|x a IH]; cbn [level_lines]; intros its H; [exact H|].
  destruct (level_line iws dz (Some 10%Z) x) as [it|] eqn:E; [|discriminate].
  rewrite (level_line_mono x it E).
  destruct (level_lines iws dz (Some 10%Z) a) as [r|]; [|discriminate]. now rewrite (IH r eq_refl).
Qed.

Lemma ln_lines_same m a b : same_lines a b -> ln_lines iws dz m a = ln_lines iws dz m b.
Proof.
  unfold same_lines. revert b. induction a as [|x a IH]; destruct b as [|y b]; cbn [map ln_lines]; intros H;
    try discriminate; [reflexivity|].
  inversion H as [[H1 H2]]. unfold ln_line. now rewrite H1, (IH b H2).
Qed.

Lemma ln_lines_mono a ls : ln_lines iws dz (Some 10%Z) a = inl ls -> ln_lines iws dz None a = inl ls.
Proof.
  revert ls. induction a as [|x a IH]; cbn [ln_lines]; intros ls H; [exact H|].
  unfold ln_line in *. destruct (parse_int iws dz (rstrip is_crlf x)) as [lvl|]; [|discriminate].
  destruct (lvl <? 0)%Z; [discriminate|]. destruct (10 <? lvl)%Z; [discriminate|].
  destruct (ln_lines iws dz (Some 10%Z) a) as [r|]; [|discriminate]. now rewrite (IH r eq_refl).
Qed.

Ltac inv_bind H :=
  match type of H with
  | sum_bind ?r _ = inl _ => let E := fresh "E" in destruct r eqn:E; cbn [sum_bind] in H; [|discriminate H]
  end.

(* what a successful load_rules has read *)
Lemma guesser_load_inv dir gt :
  omen_guesser_load fo W iws dz dir = inl gt ->
  exists enc ipl ip cpl lnl lv,
    w_codecs_open W (w_path_join W [dir; n_ip_level]) (Some enc) (Some k_strict) = XDone ipl /\
    level_lines iws dz (Some 10%Z) ipl = inl ip /\
    w_codecs_open W (w_path_join W [dir; n_cp_level]) (Some enc) (Some k_strict) = XDone cpl /\
    cp_lines iws dz (Some 10%Z) cpl [] = inl (ot_cp gt) /\
    w_open W (w_path_join W [dir; n_ln_level]) None None = XDone lnl /\
    ln_lines iws dz (Some 10%Z) lnl = inl lv /\
    ot_ip gt = ip_buckets ip /\ ot_ln gt = ln_guesser (ot_ngram gt) lv.
Proof.
  unfold omen_guesser_load. intros H.
  repeat match type of H with
         | sum_bind (of_xres ?o) _ = inl _ => let E := fresh "E" in destruct o eqn:E; cbn [of_xres sum_bind] in H; [|discriminate H]
         | sum_bind ?r _ = inl _ => let E := fresh "E" in destruct r eqn:E; cbn [sum_bind] in H; [|discriminate H]
         end.
  inversion H. subst gt. cbn [ot_ip ot_cp ot_ln ot_ngram].
  destruct (parse_int iws dz x1) as [n|] eqn:En; [|discriminate].
  match goal with E : inl _ = inl _ |- _ => inversion E; subst end.
  eexists _, _, _, _, _, _. repeat split; eassumption || reflexivity.
Qed.

(* what a successful OmenScorer(...) has read *)
Lemma scorer_load_inv base enc st :
  omen_scorer_load fo W iws dz base enc = inl st ->
  exists ipl ip cpl cp lnl,
    w_open W (w_path_join W [base; n_omen; n_ip_level]) (Some enc) None = XDone ipl /\
    level_lines iws dz None ipl = inl ip /\
    w_open W (w_path_join W [base; n_omen; n_cp_level]) (Some enc) None = XDone cpl /\
    level_lines iws dz None cpl = inl cp /\
    w_open W (w_path_join W [base; n_omen; n_ln_level]) None None = XDone lnl /\
    ln_lines iws dz None lnl = inl (st_ln st) /\
    st_ip st = ep_dict ip /\ st_cp st = ep_dict cp /\
    st_ngram st = match cp with it :: _ => Z.of_nat (length (snd it)) | [] => (-1)%Z end.
Proof.
  unfold omen_scorer_load. intros H.
  repeat match type of H with
         | sum_bind (of_xres ?o) _ = inl _ => let E := fresh "E" in destruct o eqn:E; cbn [of_xres sum_bind] in H; [|discriminate H]
         | sum_bind ?r _ = inl _ => let E := fresh "E" in destruct r eqn:E; cbn [sum_bind] in H; [|discriminate H]
         end.
  inversion H. subst st. cbn [st_ip st_cp st_ln st_ngram].
  eexists _, _, _, _, _. repeat split; eassumption || reflexivity.
Qed.

(* C10 / C11: for every content of the directory - whatever the two open calls yield, provided they yield the same
   lines of IP / CP / LN.level up to the line ends - when both readers succeed their tables are the tables of
   ONE list of IP items, ONE list of CP items and ONE list of length levels *)
Theorem omen_readers_same_items dir base enc gt st :
  omen_guesser_load fo W iws dz dir = inl gt ->
  omen_scorer_load fo W iws dz base enc = inl st ->
  (forall genc lg ls, w_codecs_open W (w_path_join W [dir; n_ip_level]) (Some genc) (Some k_strict) = XDone lg ->
                      w_open W (w_path_join W [base; n_omen; n_ip_level]) (Some enc) None = XDone ls -> same_lines lg ls) ->
  (forall genc lg ls, w_codecs_open W (w_path_join W [dir; n_cp_level]) (Some genc) (Some k_strict) = XDone lg ->
                      w_open W (w_path_join W [base; n_omen; n_cp_level]) (Some enc) None = XDone ls -> same_lines lg ls) ->
  (forall lg ls, w_open W (w_path_join W [dir; n_ln_level]) None None = XDone lg ->
                 w_open W (w_path_join W [base; n_omen; n_ln_level]) None None = XDone ls -> same_lines lg ls) ->
  exists ip cp lv,
    ot_ip gt = ip_buckets ip /\ st_ip st = ep_dict ip /\
    cp_dict cp = Some (ot_cp gt) /\ st_cp st = ep_dict cp /\
    ot_ln gt = ln_guesser (ot_ngram gt) lv /\ st_ln st = lv /\
    st_ngram st = match cp with it :: _ => Z.of_nat (length (snd it)) | [] => (-1)%Z end.
Proof.
  intros Hg Hs Sip Scp Sln.
  destruct (guesser_load_inv dir gt Hg) as (genc & ipl & ip & cpl & lnl & lv & O1 & L1 & O2 & L2 & O3 & L3 & Eip & Eln).
  destruct (scorer_load_inv base enc st Hs) as (ipl' & ip' & cpl' & cp' & lnl' & O1' & L1' & O2' & L2' & O3' & L3' & Fip & Fcp & Fng).
  (* IP *)
  assert (ip' = ip).
  { pose proof (level_lines_mono ipl ip L1) as M. rewrite (level_lines_same None ipl ipl' (Sip genc ipl ipl' O1 O1')) in M.
    rewrite M in L1'. now inversion L1'. }
  subst ip'.
  (* CP *)
  pose proof (cp_lines_dict iws dz (Some 10%Z) cpl []) as D. rewrite L2 in D. destruct D as (cp & Lc & Fc).
  assert (cp' = cp).
  { pose proof (level_lines_mono cpl cp Lc) as M. rewrite (level_lines_same None cpl cpl' (Scp genc cpl cpl' O2 O2')) in M.
    rewrite M in L2'. now inversion L2'. }
  subst cp'.
  (* LN *)
  assert (st_ln st = lv).
  { pose proof (ln_lines_mono lnl lv L3) as M. rewrite (ln_lines_same None lnl lnl' (Sln lnl lnl' O3 O3')) in M.
    rewrite M in L3'. now inversion L3'. }
  exists ip, cp, lv. repeat split; try assumption.
  unfold cp_dict. rewrite cp_dict_fold. exact Fc.
Qed.

End SameItems.

(* ---------------------------------------------------------------- ... over the translated readers *)

From PcfgGen Require Import Loader2_gen.

Section SourceAgree.
Context (fo : fops) {C SS : Type} (W : world fo C SS) (iws : N -> bool) (dz : list N).
Hypothesis Hpint : forall s, w_pint W s = parse_int iws dz s.
Notation val := (pyval (F fo) C SS).

Lemma load_rules_true dir (g : val) :
  py_omen_load_rules fo W (VStr dir) (VDict []) = XDone (g, VBool true) ->
  exists gt, omen_guesser_load fo W iws dz dir = inl gt /\ g = enc_omen_tables gt.
Proof.
  intros H. pose proof (omen_load_rules_cases fo W iws dz Hpint dir) as Hc.
  destruct (omen_guesser_load fo W iws dz dir) as [gt|e].
  - exists gt. split; [reflexivity|]. rewrite Hc in H. now inversion H.
  - destruct Hc as (g' & Hc). rewrite Hc in H. destruct (x_isa (XC CException) e); inversion H.
Qed.

Lemma scorer_init_done base enc (vmax obj r : val) :
  py_omen_scorer_init fo W (VObj []) (VStr base) (VStr enc) vmax = XDone (obj, r) ->
  exists st, omen_scorer_load fo W iws dz base enc = inl st /\ obj = enc_scorer (VStr enc) vmax st.
Proof.
  intros H. rewrite (omen_scorer_init_eq fo W iws dz Hpint) in H.
  destruct (omen_scorer_load fo W iws dz base enc) as [st|e]; [|discriminate H].
  exists st. split; [reflexivity|]. now inversion H.
Qed.

(* C10 / C11 (the generator's reader and the scorer's reader, translated from the current source): whenever
   load_rules returns True and the OmenScorer constructor returns, on a directory whose IP / CP / LN.level
   the two open calls read as the same lines, the dict the guesser walks and the object the scorer looks
   levels up in are built from the same items, and they agree on every n-gram and level:
     - an initial n-gram s is in grammar['ip'][l]  iff  scorer.ip[s] == l
     - a character c is in grammar['cp'][p][l]     iff  scorer.cp[p + c] == l
     - len - (ngram - 1) is in grammar['ln'][l]    iff  scorer.ln[len] == l     (len >= ngram; scorer.ln[0] is '10')
   (NoDup: no n-gram twice in a file, as the trainer writes them; otherwise the guesser lists the n-gram
   under every level it occurs with and the scorer keeps the last) *)
Theorem source_omen_readers_agree dir base enc (vmax g obj r : val) :
  py_omen_load_rules fo W (VStr dir) (VDict []) = XDone (g, VBool true) ->
  py_omen_scorer_init fo W (VObj []) (VStr base) (VStr enc) vmax = XDone (obj, r) ->
  (forall genc lg ls, w_codecs_open W (w_path_join W [dir; n_ip_level]) (Some genc) (Some k_strict) = XDone lg ->
                      w_open W (w_path_join W [base; n_omen; n_ip_level]) (Some enc) None = XDone ls -> same_lines lg ls) ->
  (forall genc lg ls, w_codecs_open W (w_path_join W [dir; n_cp_level]) (Some genc) (Some k_strict) = XDone lg ->
                      w_open W (w_path_join W [base; n_omen; n_cp_level]) (Some enc) None = XDone ls -> same_lines lg ls) ->
  (forall lg ls, w_open W (w_path_join W [dir; n_ln_level]) None None = XDone lg ->
                 w_open W (w_path_join W [base; n_omen; n_ln_level]) None None = XDone ls -> same_lines lg ls) ->
  exists gt st ip cp,
    g = enc_omen_tables gt /\ obj = enc_scorer (VStr enc) vmax st /\
    ot_ip gt = ip_buckets ip /\ st_ip st = ep_dict ip /\ cp_dict cp = Some (ot_cp gt) /\ st_cp st = ep_dict cp /\
    ot_ln gt = ln_guesser (ot_ngram gt) (st_ln st) /\
    (NoDup (map snd ip) -> forall s l, (l < 11)%nat ->
       (In s (nth l (ot_ip gt) []) <-> dict_get s (st_ip st) = Some (Z.of_nat l))) /\
    (NoDup (map snd cp) -> forall p l c,
       (In c (cp_chars (ot_cp gt) p l) <-> dict_get (p ++ [c]) (st_cp st) = Some l)) /\
    (forall i l, (i < length (st_ln st))%nat -> (l < 11)%nat -> (ot_ngram gt <= Z.of_nat (S i))%Z ->
       (In (Z.of_nat (S i) - (ot_ngram gt - 1))%Z (nth l (ot_ln gt) []) <-> nth_error (st_ln st) i = Some (Z.of_nat l))).
Proof.
  intros Hg Hs Sip Scp Sln.
  destruct (load_rules_true dir g Hg) as (gt & Lg & ->).
  destruct (scorer_init_done base enc vmax obj r Hs) as (st & Ls & ->).
  destruct (omen_readers_same_items fo W iws dz dir base enc gt st Lg Ls Sip Scp Sln)
    as (ip & cp & lv & E1 & E2 & E3 & E4 & E5 & E6 & E7).
  exists gt, st, ip, cp. subst lv. repeat split; try assumption.
  - rewrite E1, E2. apply ip_tables_agree; assumption.
  - rewrite E1, E2 in *. apply ip_tables_agree; assumption.
  - rewrite E4. apply (cp_tables_agree cp (ot_cp gt) E3 H).
  - rewrite E4. apply (cp_tables_agree cp (ot_cp gt) E3 H).
  - rewrite E5. apply ln_tables_agree; assumption.
  - rewrite E5. apply ln_tables_agree; assumption.
Qed.

End SourceAgree.

(* ---------------------------------------------------------------- the hypotheses are satisfiable: a directory with
   two IP lines, two CP lines, two lengths, read by both translated readers *)

Definition ex_fo : fops :=
  {| F := Z; f_one := 1%Z; f_mone := (-1)%Z; f_zero := 0%Z; f_eqb := Z.eqb; f_sub := Z.sub; f_div := Z.div;
     f_iszero := Z.eqb 0%Z |}.

Definition ex_s (s : list N) : pstr := s.
(* os.path.join('', 'Omen', 'IP.level') = 'Omen/IP.level' *)
Definition ex_join (l : list pstr) : pstr :=
  TextFile.join 47%N (filter (fun s => match s with [] => false | _ => true end) l).
(* "1\tab\n" "0\tba\n" ; "2\tabc\n" "1\tbac\n" ; "0\n" "3\n" ; alphabet "a" "b" "c" *)
Definition ex_files : list (pstr * list pstr) :=
  [ (ex_join [[79; 109; 101; 110]; n_ip_level], [[49; 9; 97; 98; 10]; [48; 9; 98; 97; 10]]%N);
    (ex_join [[79; 109; 101; 110]; n_ep_level], [[48; 9; 97; 98; 10]]%N);
    (ex_join [[79; 109; 101; 110]; n_cp_level], [[50; 9; 97; 98; 99; 10]; [49; 9; 98; 97; 99; 10]]%N);
    (ex_join [[79; 109; 101; 110]; n_ln_level], [[48; 10]; [51; 10]; [49; 10]]%N);
    (ex_join [[79; 109; 101; 110]; n_alphabet_txt], [[97; 10]; [98; 10]; [99; 10]]%N) ].
Definition ex_open (p : pstr) (_ _ : option pstr) : xres (list pstr) :=
  match TextFile.dict_get p ex_files with Some l => XDone l | None => XFail (XBase EIO) end.
Definition ex_iws (c : N) : bool := N.eqb c 32.
Definition ex_dz : list N := [48%N].

Definition ex_world : world ex_fo unit unit :=
  {| w_cfg := {| cp_read_file := fun _ => XDone tt; cp_read := fun _ => XDone tt;
                 cp_get := fun _ _ opt => if str_eqb opt k_ngram then XDone [51%N] else XDone [117; 116; 102; 45; 56]%N;
                 cp_section := fun _ _ => XDone tt; cp_sect_get := fun _ _ => XDone None;
                 cp_json := fun _ => XDone (VList []) |};
     w_ws := ex_iws; w_pfloat := fun _ => None; w_pint := parse_int ex_iws ex_dz; w_path_join := ex_join;
     w_codecs_open := ex_open; w_open := ex_open;
     w_load_from_file := fun l _ _ => Done (l, true); w_scorer_load_from_file := fun d _ _ => Done (d, true);
     w_load_base_structures := fun l _ _ _ => Done (l, true) |}.

Example source_omen_readers_example :
  (* the guesser: True, ngram 3, ip = {0: ['ba'], 1: ['ab'], ...}, cp['ab'] = {2: ['c']}, ln[1] = [1] (length 3) *)
  (exists gt, py_omen_load_rules ex_fo ex_world (VStr [79; 109; 101; 110]%N) (VDict []) = XDone (enc_omen_tables gt, VBool true) /\
              ot_ngram gt = 3%Z /\ nth 1 (ot_ip gt) [] = [[97; 98]%N] /\ nth 0 (ot_ip gt) [] = [[98; 97]%N] /\
              cp_chars (ot_cp gt) [97; 98]%N 2%Z = [99%N] /\ nth 1 (ot_ln gt) [] = [1%Z]) /\
  (* the scorer: ip['ab'] = 1, cp['abc'] = 2, ngram = 3, ln = ['10', 0, 3, 1] *)
  (exists st, py_omen_scorer_init ex_fo ex_world (VObj []) (VStr []) (VStr [117; 116; 102; 45; 56]%N) (VInt 9) =
              XDone (enc_scorer (VStr [117; 116; 102; 45; 56]%N) (VInt 9) st, VNone) /\
              dict_get [97; 98]%N (st_ip st) = Some 1%Z /\ dict_get [97; 98; 99]%N (st_cp st) = Some 2%Z /\
              st_ngram st = 3%Z /\ st_ln st = [0; 3; 1]%Z) /\
  (forall s, w_pint ex_world s = parse_int ex_iws ex_dz s).
Proof.
  split; [|split; [|reflexivity]].
  - assert (E : exists gt, omen_guesser_load ex_fo ex_world ex_iws ex_dz [79; 109; 101; 110]%N = inl gt)
      by (vm_compute; eexists; reflexivity).
    destruct E as (gt & E). exists gt.
    pose proof (omen_load_rules_cases ex_fo ex_world ex_iws ex_dz (fun s => eq_refl) [79; 109; 101; 110]%N) as Hc.
    rewrite E in Hc. split; [exact Hc|]. vm_compute in E. inversion E. subst gt. vm_compute. repeat split.
  - assert (E : exists st, omen_scorer_load ex_fo ex_world ex_iws ex_dz [] [117; 116; 102; 45; 56]%N = inl st)
      by (vm_compute; eexists; reflexivity).
    destruct E as (st & E). exists st.
    pose proof (omen_scorer_init_eq ex_fo ex_world ex_iws ex_dz (fun s => eq_refl) [] [117; 116; 102; 45; 56]%N (VInt 9)) as Hc.
    rewrite E in Hc. split; [exact Hc|]. vm_compute in E. inversion E. subst st. vm_compute. repeat split.
Qed.
