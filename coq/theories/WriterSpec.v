(* WriterSpec.v - what the generated ruleset writers (gen/Writer*_gen.v) are compared with:
   the glue between the data of the generated functions (section lists, the parser object,
   the file system of WriterRt.v) and the hand-written models of Counters.v / TextFile.v.
   Definitions only; the proofs are in WriterRtProofs.v and WriterGenProofs*.v. *)
From Coq Require Import String Ascii.
From Coq Require Import List NArith Bool.
From Pcfg Require Import TextFile Counters WriterRt.
Import ListNotations.
Open Scope N_scope.

(* ---------------------------------------------------------------- section lists *)

(* the labels of a section list, as the Counters model takes them *)
Definition labels_of (sl : list section) : list str := map (fun s => key_of_opt (snd s)) sl.

(* after other_detection every section carries a non-empty label (DetectGenProofs) *)
Definition labelled (s : section) : Prop := exists l, snd s = Some l /\ l <> [].
Definition labelledb (s : section) : bool :=
  match snd s with Some (_ :: _) => true | _ => false end.

Definition sections_of (labels : list str) : list section := map (fun l => ([] : str, Some l)) labels.

(* the parser's three structure Counters after parsing the passwords in order, through the
   generated tail of PCFGPasswordParser.parse ([tail] = py_parse_tail); an exception ends the
   training: the fold stops changing *)
Definition fold_tail
    (tail : list (str * N) -> list (str * N) -> list (str * N) -> list section ->
            res (bool * list (str * N) * list (str * N) * list (str * N)))
    (pws : list (list section)) : scounts :=
  fold_left (fun s sl =>
               match tail (sc_prince s) (sc_base s) (sc_raw s) sl with
               | Ok (_, p, b, r) => {| sc_base := b; sc_raw := r; sc_prince := p |}
               | Raise _ => s
               end) pws {| sc_base := []; sc_raw := []; sc_prince := [] |}.

(* ---------------------------------------------------------------- the order of the calls of run_trainer *)

Fixpoint count_ev (e : string) (l : list string) : nat :=
  match l with
  | [] => 0%nat
  | x :: r => if String.eqb e x then S (count_ev e r) else count_ev e r
  end.

Fixpoint index_ev (e : string) (l : list string) : nat :=
  match l with
  | [] => 0%nat
  | x :: r => if String.eqb e x then 0%nat else S (index_ev e r)
  end.

(* scanning backwards from the place where num_valid_passwords is read: the loop over
   file_input.read_password() comes before the next (re)creation of a TrainerFileInput *)
Fixpoint first_of_two (a b : string) (l : list string) : option string :=
  match l with
  | [] => None
  | x :: r => if String.eqb a x then Some a else if String.eqb b x then Some b else first_of_two a b r
  end.

Definition ev_count : string := "count:=file_input.num_passwords".
Definition ev_save_pcfg : string :=
  "save:pcfg(base_directory,pcfg_parser,program_info['encoding'],program_info['save_sensitive'])".
Definition ev_save_config : string := "save:config(base_directory,program_info,file_input,pcfg_parser)".

(* - num_valid_passwords is bound once, to file_input.num_passwords, after a pass over the training
     file and before the file is opened again;
   - pcfg_parser is bound once, to a new PCFGPasswordParser; one pass feeds it, then the Markov block,
     then save_pcfg_data with the parser, the ruleset encoding and the save_sensitive option;
   - config.ini is written from the same parser object *)
(* events that start with the prefix p *)
Fixpoint count_pre (p : string) (l : list string) : nat :=
  match l with
  | [] => 0%nat
  | x :: r => if String.prefix p x then S (count_pre p r) else count_pre p r
  end.
Fixpoint index_pre (p : string) (l : list string) : nat :=
  match l with
  | [] => 0%nat
  | x :: r => if String.prefix p x then 0%nat else S (index_pre p r)
  end.

Definition events_ok (l : list string) : bool :=
  let once e := Nat.eqb (count_ev e l) 1 in
  let before a b := Nat.ltb (index_ev a l) (index_ev b l) in
  let parser := index_pre "parser:=PCFGPasswordParser(" l in
  once ev_count && Nat.eqb (count_pre "count:=" l) 1 &&
  Nat.eqb (count_pre "parser:=PCFGPasswordParser(" l) 1 && Nat.eqb (count_pre "parser:=" l) 1 &&
  once "pass:pcfg"%string && once "markov"%string && once ev_save_pcfg && once ev_save_config &&
  Nat.ltb parser (index_ev "pass:pcfg" l) && before "pass:pcfg"%string "markov"%string &&
  before "markov"%string ev_save_pcfg && Nat.ltb parser (index_ev ev_save_config l) &&
  match first_of_two "input" "loop:file_input" (rev (firstn (index_ev ev_count l) l)) with
  | Some s => String.eqb s "loop:file_input"
  | None => false
  end.

(* ---------------------------------------------------------------- the file system *)

(* unique paths: what a file system is *)
Definition fs_wf (fs : fsys) : Prop := NoDup (map fst fs).

(* the folder emptied (at every depth) *)
Definition fs_clean (folder : path) (fs : fsys) : fsys :=
  filter (fun e => negb (is_under folder (fst e))) fs.

(* the named files written into the folder, in order *)
Definition fs_write_all (folder : path) (files : list (str * str)) (fs : fsys) : fsys :=
  fold_left (fun fs nt => fs_set (path_join folder (fst nt)) (snd nt) fs) files fs.

Definition fs_install (folder : path) (files : list (str * str)) (fs : fsys) : fsys :=
  fs_write_all folder files (fs_clean folder fs).

(* the files directly in the folder: (name, text) in the order of the map *)
Definition fs_list (folder : path) (fs : fsys) : list (str * str) :=
  map (fun e => (basename (fst e), snd e))
      (filter (fun e => nonempty (fst e) && path_eqb (parent (fst e)) folder) fs).

(* ---------------------------------------------------------------- text of a list *)

(* TextFile.write_file for any number structure: str(value) TAB str(prob) LF per item *)
Definition write_item {O : numops} (repr : num O -> str) (it : str * num O) : str :=
  fst it ++ TAB :: repr (snd it) ++ [LF].
Definition write_text {O : numops} (repr : num O -> str) (l : counter O) : str :=
  flat_map (write_item repr) l.

(* every line can be encoded *)
Definition encodable {O : numops} (repr : num O -> str) (encb : str -> N -> bool) (enc : str) (l : counter O) : bool :=
  forallb (fun it => forallb (encb enc) (write_item repr it)) l.

(* the lines before the first one the codec refuses *)
Fixpoint encodable_prefix {O : numops} (repr : num O -> str) (encb : str -> N -> bool) (enc : str) (l : counter O)
  : counter O :=
  match l with
  | [] => []
  | it :: r => if forallb (encb enc) (write_item repr it) then it :: encodable_prefix repr encb enc r else []
  end.

(* ---------------------------------------------------------------- the parser object *)

Definition klkeys {O : numops} (d : list (N * list (str * N))) : list (pykey * counter O) :=
  map (fun lc => (KInt (fst lc), of_counts (snd lc))) d.

(* the parser object holding the counters P, with [base] as count_base_structures (the
   trained structures after the Markov block) *)
Definition parser_of (O : numops) (P : pcounters) (base : counter O) : parser_obj O :=
  let C := @of_counts O in
  {| po_count_keyboard := klkeys (pc_keyboard P);
     po_count_emails := C (pc_emails P);
     po_count_email_providers := C (pc_email_providers P);
     po_count_website_urls := C (pc_website_urls P);
     po_count_website_hosts := C (pc_website_hosts P);
     po_count_website_prefixes := C (pc_website_prefixes P);
     po_count_years := C (pc_years P);
     po_count_context_sensitive := C (pc_context P);
     po_count_alpha := klkeys (pc_alpha P);
     po_count_alpha_masks := klkeys (pc_masks P);
     po_count_digits := klkeys (pc_digits P);
     po_count_other := klkeys (pc_other P);
     po_count_base_structures := base;
     po_count_raw_base_structures := C (sc_raw (pc_structs P));
     po_count_prince := C (sc_prince (pc_structs P)) |}.

(* a dict of counters with its keys as the strings str() gives *)
Definition str_keys {V : Type} (d : list (pykey * V)) : list (str * V) := map (fun kv => (py_str (fst kv), snd kv)) d.

(* the files of one folder of the model, as (name, text) *)
Definition folder_texts {O : numops} (repr : num O -> str) (f : folder O) : list (str * str) :=
  map (fun nf => (fst nf, write_text repr (snd nf))) f.

(* the whole ruleset of the model installed below [base] *)
Definition install_all {O : numops} (repr : num O -> str) (base : path) (dirs : list (str * folder O)) (fs : fsys) : fsys :=
  fold_left (fun fs df => fs_install (path_join base (fst df)) (folder_texts repr (snd df)) fs) dirs fs.

(* ---------------------------------------------------------------- what the theorems about the writers assume / state *)

(* every line of every counter of a folder can be encoded *)
Definition all_encodable {O : numops} (repr : num O -> str) (encb : str -> N -> bool) (enc : str)
    (cl : list (pykey * counter O)) : bool :=
  forallb (fun kc => encodable repr encb enc (calc_probs (snd kc))) cl.

(* Grammar and Prince are written as ASCII, the other folders with the training encoding *)
Definition enc_of (enc dir : str) : str :=
  if str_eqb dir (str_of_string "Grammar"%string) || str_eqb dir (str_of_string "Prince"%string) then str_of_string "ASCII"%string else enc.

Definition ruleset_encodable {O : numops} (repr : num O -> str) (encb : str -> N -> bool) (enc : str)
    (dirs : list (str * folder O)) : bool :=
  forallb (fun df => forallb (fun nf => encodable repr encb (enc_of enc (fst df)) (snd nf)) (snd df)) dirs.

(* the length-indexed counters are dicts: their keys are distinct *)
Definition pcounters_wf (P : pcounters) : Prop :=
  NoDup (map fst (pc_alpha P)) /\ NoDup (map fst (pc_digits P)) /\ NoDup (map fst (pc_other P)) /\
  NoDup (map fst (pc_keyboard P)) /\ NoDup (map fst (pc_masks P)).

(* str(key) + '.txt' for every key, as json.dumps will list it *)
Definition name_list {V : Type} (d : list (pykey * V)) : list pykey :=
  map (fun kv => KStr (file_name (py_str (fst kv)))) d.

(* what the model expects of the configuration built for a parser object: section -> names of its files
   (Counters.config_lists, and START -> grammar.txt) and section -> directory *)
Definition expected_names {O : numops} (pp : parser_obj O) : list (str * list pykey) :=
  let s_ := str_of_string in
  [ (s_ "START"%string, [KStr (s_ "grammar.txt"%string)]);
    (s_ "BASE_A"%string, name_list (po_count_alpha pp));
    (s_ "BASE_D"%string, name_list (po_count_digits pp));
    (s_ "BASE_O"%string, name_list (po_count_other pp));
    (s_ "BASE_K"%string, name_list (po_count_keyboard pp));
    (s_ "BASE_X"%string, [KStr (s_ "1.txt"%string)]);
    (s_ "BASE_Y"%string, [KStr (s_ "1.txt"%string)]);
    (s_ "CAPITALIZATION"%string, name_list (po_count_alpha_masks pp)) ].

Definition expected_dirs : list (str * str) :=
  (str_of_string "START"%string, str_of_string "Grammar"%string) :: config_dirs.
