(* Lemmas about the runtime of the generated OMEN generator code (OmenGenRt.v):
   what Python's subscripts, slices, dict operations and the table lookups
   compute on the values the equality proofs meet. *)
From Coq Require Import List Arith Bool NArith ZArith Lia.
From Pcfg Require Import OmenSpec Omen OmenProofs OmenGenRt.
From Pcfg Require OmenRt OmenRtProofs.
Import ListNotations.

(* ------------------------------------------------------------------ *)
(* subscripts                                                           *)

Lemma py_pos_nat n k : k < n -> py_pos n (Z.of_nat k) = Some k.
Proof.
  intro H. unfold py_pos. cbv zeta.
  replace (Z.of_nat k <? 0)%Z with false by (symmetry; apply Z.ltb_ge; lia). cbv iota.
  replace (Z.of_nat k <? 0)%Z with false by (symmetry; apply Z.ltb_ge; lia).
  replace (Z.of_nat n <=? Z.of_nat k)%Z with false by (symmetry; apply Z.leb_gt; lia).
  cbn [orb]. now rewrite Nat2Z.id.
Qed.

Lemma py_pos_nat_out n k : n <= k -> py_pos n (Z.of_nat k) = None.
Proof.
  intro H. unfold py_pos. cbv zeta.
  replace (Z.of_nat k <? 0)%Z with false by (symmetry; apply Z.ltb_ge; lia). cbv iota.
  replace (Z.of_nat k <? 0)%Z with false by (symmetry; apply Z.ltb_ge; lia).
  replace (Z.of_nat n <=? Z.of_nat k)%Z with true by (symmetry; apply Z.leb_le; lia).
  reflexivity.
Qed.

Lemma py_pos_last n : py_pos (S n) (-1)%Z = Some n.
Proof.
  unfold py_pos. cbv zeta. replace (-1 <? 0)%Z with true by reflexivity. cbv iota.
  replace (-1 + Z.of_nat (S n))%Z with (Z.of_nat n) by lia.
  replace (Z.of_nat n <? 0)%Z with false by (symmetry; apply Z.ltb_ge; lia).
  replace (Z.of_nat (S n) <=? Z.of_nat n)%Z with false by (symmetry; apply Z.leb_gt; lia).
  cbn [orb]. now rewrite Nat2Z.id.
Qed.

Lemma pyindex_nat {X} (l : list X) k x : nth_error l k = Some x -> pyindex l (Z.of_nat k) = Ok x.
Proof.
  intro H. unfold pyindex. rewrite py_pos_nat.
  - now rewrite H.
  - apply nth_error_Some. congruence.
Qed.

Lemma pyindex_nat_out {X} (l : list X) k : length l <= k -> pyindex l (Z.of_nat k) = Raise IndexError.
Proof. intro H. unfold pyindex. now rewrite py_pos_nat_out. Qed.

Lemma nth_error_snoc {X} (l : list X) y : nth_error (l ++ [y]) (length l) = Some y.
Proof. rewrite nth_error_app2 by lia. now rewrite Nat.sub_diag. Qed.

Lemma pyindex_snoc {X} (l : list X) y : pyindex (l ++ [y]) (-1)%Z = Ok y.
Proof.
  unfold pyindex. rewrite app_length. cbn [length]. rewrite Nat.add_1_r, py_pos_last.
  now rewrite nth_error_snoc.
Qed.

Lemma pyindex_last {X} (l : list X) d : l <> [] -> pyindex l (-1)%Z = Ok (last l d).
Proof.
  intro H. destruct (exists_last H) as [l' [y ->]]. now rewrite pyindex_snoc, last_last.
Qed.

Lemma set_nth_length {X} (l : list X) i x : length (set_nth l i x) = length l.
Proof. revert i. induction l as [|y r IH]; intros [|i]; cbn [set_nth length]; auto. Qed.

Lemma nth_error_set_nth {X} (l : list X) i x j : i < length l ->
  nth_error (set_nth l i x) j = if Nat.eqb i j then Some x else nth_error l j.
Proof.
  revert i j. induction l as [|y r IH]; intros i j H; [cbn in H; lia|].
  destruct i as [|i], j as [|j]; cbn [set_nth nth_error Nat.eqb]; auto.
  apply IH. cbn in H. lia.
Qed.

Lemma set_nth_last {X} (l : list X) y x : set_nth (l ++ [y]) (length l) x = l ++ [x].
Proof. induction l as [|z r IH]; cbn [app length set_nth]; [reflexivity | now rewrite IH]. Qed.

Lemma pysetindex_nat {X} (l : list X) k x : k < length l -> pysetindex l (Z.of_nat k) x = Ok (set_nth l k x).
Proof. intro H. unfold pysetindex. now rewrite py_pos_nat. Qed.

Lemma pysetindex_last {X} (l : list X) y x : pysetindex (l ++ [y]) (-1)%Z x = Ok (l ++ [x]).
Proof.
  unfold pysetindex. rewrite app_length. cbn [length]. rewrite Nat.add_1_r, py_pos_last.
  now rewrite set_nth_last.
Qed.

Lemma zlen_nat {X} (l : list X) : zlen l = Z.of_nat (length l).
Proof. reflexivity. Qed.

(* ------------------------------------------------------------------ *)
(* slices                                                               *)

Lemma pyslice_tl {X} (s : list X) : pyslice s (Some 1%Z) None = tl s.
Proof. apply OmenRtProofs.pyslice_tl. Qed.

Lemma pyslice_removelast0 {X} (s : list X) : pyslice s (Some 0%Z) (Some (-1)%Z) = removelast s.
Proof.
  unfold pyslice. rewrite <- OmenRtProofs.pyslice_no_lower. apply OmenRtProofs.pyslice_removelast.
Qed.

Lemma pyslice_removelast {X} (s : list X) : pyslice s None (Some (-1)%Z) = removelast s.
Proof. apply OmenRtProofs.pyslice_removelast. Qed.

(* ------------------------------------------------------------------ *)
(* dicts                                                                *)

Section DictFacts.
Context {K V : Type} (eqb : K -> K -> bool).
Hypothesis eqb_eq : forall a b, eqb a b = true <-> a = b.

Lemma deqb_refl a : eqb a a = true.
Proof. now apply eqb_eq. Qed.

Lemma deqb_neq a b : a <> b -> eqb a b = false.
Proof. intro H. destruct (eqb a b) eqn:E; [apply eqb_eq in E; contradiction | reflexivity]. Qed.

Lemma dfind_dset (k k' : K) (v : V) d :
  dfind eqb k' (dset eqb k v d) = if eqb k k' then Some v else dfind eqb k' d.
Proof.
  unfold dfind, dset.
  induction d as [|[k0 v0] r IH]; cbn [OmenRt.dset OmenRt.dfind].
  - reflexivity.
  - destruct (eqb k0 k) eqn:E; cbn [OmenRt.dfind].
    + apply eqb_eq in E. subst k0. destruct (eqb k k'); reflexivity.
    + destruct (eqb k0 k') eqn:E2.
      * apply eqb_eq in E2. subst k0.
        destruct (eqb k k') eqn:E3; [|reflexivity].
        apply eqb_eq in E3. subst k'. rewrite deqb_refl in E. discriminate.
      * exact IH.
Qed.

Lemma dmem_dfind (k : K) (d : list (K * V)) : dmem eqb k d = negb (is_none (dfind eqb k d)).
Proof. unfold dmem, dfind, OmenRt.dmem. destruct (OmenRt.dfind eqb k d); reflexivity. Qed.
End DictFacts.

Lemma Zeqb_eq a b : Z.eqb a b = true <-> a = b.
Proof. apply Z.eqb_eq. Qed.

Lemma Nateqb_eq a b : Nat.eqb a b = true <-> a = b.
Proof. apply Nat.eqb_eq. Qed.

(* ------------------------------------------------------------------ *)
(* grammar['cp'] as the model's indexed table                           *)

Lemma dfind_lvl_lookup l m : lvl_lookup l m = match dfind Nat.eqb l m with Some cs => cs | None => [] end.
Proof.
  unfold dfind. induction m as [|[l' cs] r IH]; cbn [lvl_lookup OmenRt.dfind]; [reflexivity|].
  destruct (Nat.eqb l' l); [reflexivity | exact IH].
Qed.

Lemma dfind_idx_lookup (t : cp_index) p l :
  idx_lookup t p l = match dfind ostr_eqb p t with Some m => lvl_lookup l m | None => [] end.
Proof.
  unfold dfind. induction t as [|[p' m] r IH]; cbn [idx_lookup OmenRt.dfind]; [reflexivity|].
  destruct (ostr_eqb p' p); [reflexivity | exact IH].
Qed.

(* no level of the table holds an empty list (the loader creates a level when
   it appends the first character) *)
Definition lvls_nonempty (m : list (nat * list N)) : Prop := Forall (fun e => snd e <> []) m.
Definition cp_nonempty (t : cp_index) : Prop := Forall (fun e => lvls_nonempty (snd e)) t.

Lemma dfind_In {K V} (eqb : K -> K -> bool) k (d : list (K * V)) v :
  dfind eqb k d = Some v -> exists k', In (k', v) d.
Proof.
  unfold dfind. induction d as [|[k0 v0] r IH]; cbn [OmenRt.dfind]; [discriminate|].
  destruct (eqb k0 k).
  - intro E. injection E as <-. exists k0. now left.
  - intro E. destruct (IH E) as [k' H]. exists k'. now right.
Qed.

Lemma cp_nonempty_get t p m l cs : cp_nonempty t ->
  dfind ostr_eqb p t = Some m -> dfind Nat.eqb l m = Some cs -> cs <> [].
Proof.
  intros H E1 E2. destruct (dfind_In _ _ _ _ E1) as [p' Hin]. destruct (dfind_In _ _ _ _ E2) as [l' Hin2].
  unfold cp_nonempty in H. rewrite Forall_forall in H. specialize (H _ Hin). cbn [snd] in H.
  unfold lvls_nonempty in H. rewrite Forall_forall in H. exact (H _ Hin2).
Qed.

Lemma lvl_insert_nonempty l ch m : lvls_nonempty m -> lvls_nonempty (lvl_insert l ch m).
Proof.
  unfold lvls_nonempty. induction m as [|[l0 cs] r IH]; cbn [lvl_insert]; intro H.
  - constructor; [discriminate | constructor].
  - inversion H; subst. destruct (Nat.eqb l0 l); constructor; auto. discriminate.
Qed.

Lemma idx_insert_nonempty p l ch t : cp_nonempty t -> cp_nonempty (idx_insert p l ch t).
Proof.
  unfold cp_nonempty. induction t as [|[p0 m0] r IH]; cbn [idx_insert]; intro H.
  - constructor; [|constructor]. cbn [snd]. constructor; [discriminate | constructor].
  - inversion H; subst. destruct (ostr_eqb p0 p); constructor; auto.
    cbn [snd] in *. now apply lvl_insert_nonempty.
Qed.

Lemma build_cp_nonempty lines : cp_nonempty (build_cp lines).
Proof.
  unfold build_cp. induction lines as [|e r IH]; cbn [fold_right]; [constructor|].
  destruct e as [l0 [|c0 s0]]; cbn [snd fst]; [exact IH | apply idx_insert_nonempty; exact IH].
Qed.

(* the function the model works with *)
Definition cpf_of (t : cp_index) : ostr -> nat -> list N := idx_lookup t.

Lemma cp_fast_cpf_of G : cp_fast G = cpf_of (build_cp (og_cp G)).
Proof. reflexivity. Qed.

(* p in self.cp is false: every level is empty *)
Lemma cp_absent t p : dmem ostr_eqb p t = false -> forall l, cpf_of t p l = [].
Proof.
  intros H l. unfold cpf_of. rewrite dfind_idx_lookup.
  rewrite dmem_dfind in H. destruct (dfind ostr_eqb p t); [discriminate | reflexivity].
Qed.

(* self.cp[p] exists: a level is a key iff the model's list is non-empty, and
   then self.cp[p][l] is that list *)
Lemma cp_level_find t p m (l : nat) : cp_nonempty t -> dfind ostr_eqb p t = Some m ->
  lvl_find m (Z.of_nat l) = match cpf_of t p l with [] => None | cs => Some cs end.
Proof.
  intros Hne E. unfold lvl_find, cpf_of.
  destruct (Z.of_nat l <? 0)%Z eqn:E0; [apply Z.ltb_lt in E0; lia|].
  rewrite Nat2Z.id, dfind_idx_lookup, E, dfind_lvl_lookup.
  destruct (dfind Nat.eqb l m) as [cs|] eqn:E2; [|reflexivity].
  pose proof (cp_nonempty_get _ _ _ _ _ Hne E E2). destruct cs; [congruence | reflexivity].
Qed.

Lemma lvl_find_neg m l : (l < 0)%Z -> lvl_find m l = None.
Proof. intro H. unfold lvl_find. apply Z.ltb_lt in H. now rewrite H. Qed.
