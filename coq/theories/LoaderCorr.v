(* Correspondence helpers for C14 (binary64 instance of the loader model). *)
From Coq Require Import List Arith Bool NArith Floats.
From Pcfg Require Import Expand ExpandCorr Loader.
Import ListNotations.

Definition isalpha_ascii (c : N) : bool :=
  (N.leb 65 c && N.leb c 90) || (N.leb 97 c && N.leb c 122).

Definition load_bases_F (rewinds skip : bool) (ls : list (str * float)) : option (list (float * list str)) :=
  load_bases 1%float PrimFloat.sub PrimFloat.div (fun x => PrimFloat.eqb x 0) isalpha_ascii rewinds skip ls.

Definition base_eqb (a b : float * list str) : bool :=
  PrimFloat.eqb (fst a) (fst b) && leqb str_eqb (snd a) (snd b).

Definition check_bases (rewinds : bool) (x : bool * list (str * float) * option (list (float * list str))) : bool :=
  match x with (skip, ls, impl) =>
    match load_bases_F rewinds skip ls, impl with
    | None, None => true
    | Some m, Some i => leqb base_eqb m i
    | _, _ => false
    end
  end.

(* the division by 1.0 of the plain load is exact on the lines of a case *)
Definition div_one_exact (ls : list (str * float)) : bool :=
  forallb (fun l => PrimFloat.eqb (PrimFloat.div (snd l) 1) (snd l)) ls.
