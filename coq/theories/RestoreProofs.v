(* Session restore (pcfg_grammar.py:787-896, priority_queue.py restore_base_item):
   the repaired walk (is_parent_around with `<=`) rebuilds exactly the frontier.
   The refutation of the walk as found (`<`) is in RestoreRefuted.v (needs F64). *)
From Coq Require Import List Arith Bool Lia Sorting.Permutation.
From Pcfg Require Import ProbAlg Next NextSpec.
Import ListNotations.

(* ------------------------------------------------------------------ *)
(* generic list lemmas                                                 *)
(* ------------------------------------------------------------------ *)
Section ListLemmas.

Lemma existsb_false_In {X} (f : X -> bool) l x :
  existsb f l = false -> In x l -> f x = false.
Proof.
  induction l as [|a l IH]; simpl; intros H Hi.
  - destruct Hi.
  - apply orb_false_iff in H. destruct H as [H1 H2]. destruct Hi as [->|Hi]; auto.
Qed.

Lemma existsb_flat_map {X Y} (f : Y -> bool) (g : X -> list Y) l :
  existsb f (flat_map g l) = existsb (fun x => existsb f (g x)) l.
Proof.
  induction l as [|a l IH]; simpl; auto.
  rewrite existsb_app, IH. reflexivity.
Qed.

Lemma existsb_ext_in {X} (f g : X -> bool) l :
  (forall x, In x l -> f x = g x) -> existsb f l = existsb g l.
Proof.
  induction l as [|a l IH]; simpl; intros H; auto.
  rewrite H by auto. rewrite IH; auto.
Qed.

Lemma flat_map_ext_in {X Y} (f g : X -> list Y) l :
  (forall x, In x l -> f x = g x) -> flat_map f l = flat_map g l.
Proof.
  induction l as [|a l IH]; simpl; intros H; auto.
  rewrite H by auto. rewrite IH; auto.
Qed.

Lemma flat_map_map {X Y Z} (f : Y -> list Z) (g : X -> Y) l :
  flat_map f (map g l) = flat_map (fun x => f (g x)) l.
Proof. induction l as [|a l IH]; simpl; auto. now rewrite IH. Qed.

Lemma NoDup_app_intro {X} (l1 l2 : list X) :
  NoDup l1 -> NoDup l2 -> (forall x, In x l1 -> In x l2 -> False) -> NoDup (l1 ++ l2).
Proof.
  induction l1 as [|a l1 IH]; simpl; intros H1 H2 H; auto.
  inversion H1; subst. constructor.
  - rewrite in_app_iff. intros [Hi|Hi]; auto. apply (H a); auto.
  - apply IH; auto. intros x Hx1 Hx2. apply (H x); auto.
Qed.

Lemma NoDup_flat_map {X Y} (f : X -> list Y) l :
  NoDup l -> (forall a, In a l -> NoDup (f a)) ->
  (forall a b y, In a l -> In b l -> In y (f a) -> In y (f b) -> a = b) ->
  NoDup (flat_map f l).
Proof.
  induction 1 as [|a l Hn Hnd IH]; simpl; intros H1 H2.
  - constructor.
  - apply NoDup_app_intro.
    + apply H1; auto.
    + apply IH; intros; eauto.
    + intros y Hy1 Hy2. apply in_flat_map in Hy2. destruct Hy2 as (b & Hb & Hy2).
      assert (a = b) by (eapply H2; eauto). subst b. contradiction.
Qed.

Lemma NoDup_map_inj_in {X Y} (f : X -> Y) l a b :
  NoDup (map f l) -> In a l -> In b l -> f a = f b -> a = b.
Proof.
  induction l as [|c l IH]; simpl; intros Hn Ha Hb E.
  - destruct Ha.
  - inversion Hn; subst.
    destruct Ha as [->|Ha], Hb as [->|Hb]; auto.
    + exfalso. apply H1. rewrite E. apply in_map; auto.
    + exfalso. apply H1. rewrite <- E. apply in_map; auto.
Qed.

Lemma NoDup_map_inj_on {X Y} (g : X -> Y) l :
  NoDup l -> (forall a b, In a l -> In b l -> g a = g b -> a = b) -> NoDup (map g l).
Proof.
  induction 1 as [|a l Hn Hnd IH]; simpl; intros H.
  - constructor.
  - constructor.
    + intros Hi. apply in_map_iff in Hi. destruct Hi as (b & E & Hb).
      assert (b = a) by (apply H; auto). subst b. contradiction.
    + apply IH. intros; apply H; auto.
Qed.

Lemma nth_error_firstn_lt {X} k : forall (l : list X) pos,
  pos < k -> nth_error (firstn k l) pos = nth_error l pos.
Proof.
  induction k as [|k IH]; intros l pos H; [lia|].
  destruct l as [|a l]; simpl; auto.
  destruct pos as [|pos]; simpl; auto. apply IH. lia.
Qed.

Lemma map_fst_combine {X Y} (l1 : list X) : forall (l2 : list Y),
  length l1 = length l2 -> map fst (combine l1 l2) = l1.
Proof.
  induction l1 as [|a l1 IH]; intros [|b l2] H; simpl in *; try discriminate; auto.
  f_equal. apply IH. lia.
Qed.

Lemma map_snd_combine {X Y} (l1 : list X) : forall (l2 : list Y),
  length l1 = length l2 -> map snd (combine l1 l2) = l2.
Proof.
  induction l1 as [|a l1 IH]; intros [|b l2] H; simpl in *; try discriminate; auto.
  f_equal. apply IH. lia.
Qed.

Lemma combine_fst_snd {X Y} (l : list (X * Y)) : combine (map fst l) (map snd l) = l.
Proof. induction l as [|[a b] l IH]; simpl; auto. now rewrite IH. Qed.

End ListLemmas.

(* ------------------------------------------------------------------ *)
(* vectors                                                             *)
(* ------------------------------------------------------------------ *)
Section Vectors.

Lemma in_vectors dims : forall vec,
  In vec (vectors dims) <-> Forall2 (fun i d => i < d) vec dims.
Proof.
  induction dims as [|d r IH]; intros vec; simpl.
  - split.
    + intros [<-|[]]. constructor.
    + intros H. inversion H. auto.
  - rewrite in_flat_map. split.
    + intros (i & Hi & Hv). apply in_seq in Hi. apply in_map_iff in Hv.
      destruct Hv as (w & <- & Hw). constructor; [lia|]. apply IH; auto.
    + intros H. inversion H as [|i d' w r' Hi Hw]; subst.
      exists i. split; [apply in_seq; lia|]. apply in_map. apply IH; auto.
Qed.

Lemma vectors_length dims vec : In vec (vectors dims) -> length vec = length dims.
Proof. intros H. apply in_vectors in H. eapply Forall2_length; eauto. Qed.

Lemma NoDup_vectors dims : NoDup (vectors dims).
Proof.
  induction dims as [|d r IH]; simpl.
  - constructor; [intros []|constructor].
  - apply NoDup_flat_map.
    + apply seq_NoDup.
    + intros i _. apply NoDup_map_inj_on; auto. intros a b _ _ E. congruence.
    + intros a b y _ _ Ha Hb. apply in_map_iff in Ha. apply in_map_iff in Hb.
      destruct Ha as (w & <- & _). destruct Hb as (w' & E & _). congruence.
Qed.

End Vectors.

(* ------------------------------------------------------------------ *)
(* the walk                                                            *)
(* ------------------------------------------------------------------ *)
Section Restore.
Context {A : palg}.
Notation P := (P A).
Notation ruleset := (ruleset A).
Notation item := (item A).

Variable rs : ruleset.

Local Notation dim v := (length (groups rs v)).

(* in the grid, over variables with well-formed group lists *)
Definition okpt (t : pt) : Prop :=
  Forall (fun vi => wf_groups (groups rs (fst vi)) /\ snd vi < dim (fst vi)) t.

(* componentwise order on the index vectors of one base structure *)
Definition le_pt (t u : pt) : Prop :=
  Forall2 (fun a b : var * nat => fst a = fst b /\ snd a <= snd b) t u.

Lemma le_pt_refl t : le_pt t t.
Proof. induction t; constructor; auto. Qed.

Lemma le_pt_trans t u w : le_pt t u -> le_pt u w -> le_pt t w.
Proof.
  intros H; revert w. induction H as [|a b t u [H1 H2] H IH]; intros w Hw; inversion Hw; subst.
  - constructor.
  - constructor; [|apply IH; auto]. destruct H4. split; [congruence|lia].
Qed.

Lemma le_pt_fst t u : le_pt t u -> map fst t = map fst u.
Proof. induction 1 as [|a b t u [H1 H2] H IH]; simpl; congruence. Qed.

Lemma le_pt_okpt a u : le_pt a u -> okpt u -> okpt a.
Proof.
  induction 1 as [|x y t u [H1 H2] H IH]; intros Hu; [constructor|].
  inversion Hu as [|? ? [Hw Hd] Hu']; subst. constructor; [|apply IH; auto].
  rewrite H1. split; auto. lia.
Qed.

Lemma le_pt_nth a b : le_pt a b -> forall p v i, nth_error a p = Some (v, i) ->
  exists i', nth_error b p = Some (v, i') /\ i <= i'.
Proof.
  induction 1 as [|[v0 i0] [v1 i1] t u [H1 H2] H IH]; intros p v i Hn.
  - destruct p; discriminate.
  - simpl in H1, H2. subst v1. destruct p as [|p]; simpl in *.
    + inversion Hn; subst. eauto.
    + eauto.
Qed.

Lemma okpt_nth t pos v i : okpt t -> nth_error t pos = Some (v, i) ->
  wf_groups (groups rs v) /\ i < dim v.
Proof.
  intros H Hn. apply nth_error_In in Hn. unfold okpt in H. rewrite Forall_forall in H.
  apply (H _ Hn).
Qed.

(* upd *)
Lemma length_upd t : forall pos f, length (upd t pos f) = length t.
Proof.
  induction t as [|[v i] t IH]; intros [|pos] f; simpl; auto.
Qed.

Lemma nth_error_upd_same t : forall pos f v i,
  nth_error t pos = Some (v, i) -> nth_error (upd t pos f) pos = Some (v, f i).
Proof.
  induction t as [|[v0 i0] t IH]; intros [|pos] f v i H; simpl in *; try discriminate.
  - inversion H; subst; auto.
  - auto.
Qed.

Lemma firstn_upd t : forall k pos f, k <= pos -> firstn k (upd t pos f) = firstn k t.
Proof.
  induction t as [|[v0 i0] t IH]; intros k [|pos] f H; simpl.
  - reflexivity.
  - reflexivity.
  - assert (k = 0) by lia. subst. reflexivity.
  - destruct k as [|k]; simpl; auto. f_equal. apply IH. lia.
Qed.

Lemma le_pt_upd_S t : forall pos, le_pt t (upd t pos S).
Proof.
  induction t as [|[v0 i0] t IH]; intros [|pos]; simpl; try constructor; simpl; auto.
  apply le_pt_refl.
Qed.

Lemma le_pt_upd_l t u : le_pt t u -> forall pos v i v' i',
  nth_error t pos = Some (v, i) -> nth_error u pos = Some (v', i') -> i < i' ->
  le_pt (upd t pos S) u.
Proof.
  induction 1 as [|[v0 i0] [v1 i1] t u [H1 H2] H IH]; intros pos v i v' i' Ht Hu Hlt.
  - destruct pos; discriminate.
  - destruct pos as [|pos]; simpl in *.
    + inversion Ht; inversion Hu; subst. constructor; auto. simpl. split; auto.
    + constructor; auto. eapply IH; eauto.
Qed.

Lemma le_pt_upd_r a u : le_pt a u -> forall pos v i v' i',
  nth_error a pos = Some (v, i) -> nth_error u pos = Some (v', i') -> i < i' ->
  le_pt a (upd u pos pred).
Proof.
  induction 1 as [|[v0 i0] [v1 i1] t u [H1 H2] H IH]; intros pos v i v' i' Ht Hu Hlt.
  - destruct pos; discriminate.
  - destruct pos as [|pos]; simpl in *.
    + inversion Ht; inversion Hu; subst. constructor; auto. simpl. split; auto. lia.
    + constructor; auto. eapply IH; eauto.
Qed.

Lemma okpt_upd_S t : forall pos v i, okpt t -> nth_error t pos = Some (v, i) -> S i < dim v ->
  okpt (upd t pos S).
Proof.
  induction t as [|[v0 i0] t IH]; intros [|pos] v i Hok Hn Hlt; simpl in *; try discriminate.
  - inversion Hn; subst. inversion Hok as [|? ? [Hw Hd] Hok']; subst. constructor; auto.
  - inversion Hok; subst. constructor; auto. eapply IH; eauto.
Qed.

Lemma okpt_upd_pred t : forall pos, okpt t -> okpt (upd t pos pred).
Proof.
  induction t as [|[v0 i0] t IH]; intros [|pos] Hok; simpl in *; auto.
  - inversion Hok as [|? ? [Hw Hd] Hok']; subst. constructor; auto. simpl in *. split; auto. lia.
  - inversion Hok; subst. constructor; auto.
Qed.

(* first position where two comparable vectors differ *)
Lemma first_diff t u : le_pt t u -> t <> u ->
  exists pos v i i', firstn pos u = firstn pos t /\
    nth_error t pos = Some (v, i) /\ nth_error u pos = Some (v, i') /\ i < i'.
Proof.
  induction 1 as [|[v i] [v' i'] t u [Hv Hi] H IH]; intros Hne.
  - congruence.
  - simpl in Hv, Hi. subst v'.
    destruct (Nat.eq_dec i i') as [->|Hd].
    + destruct IH as (pos & w & j & j' & H1 & H2 & H3 & H4); [congruence|].
      exists (S pos), w, j, j'. simpl. rewrite H1. auto.
    + exists 0, v, i, i'. simpl. repeat split; auto. lia.
Qed.

Lemma pt_eq_dec (t u : pt) : {t = u} + {t <> u}.
Proof. decide equality. decide equality; apply Nat.eq_dec. Qed.

(* remaining depth of the walk below a node *)
Definition rem (t : pt) : nat :=
  fold_right (fun vi a => (dim (fst vi) - S (snd vi)) + a) 0 t.

Lemma rem_upd_S t : forall pos v i, nth_error t pos = Some (v, i) -> S i < dim v ->
  rem (upd t pos S) < rem t.
Proof.
  induction t as [|[v0 i0] t IH]; intros [|pos] v i Hn Hlt; simpl in *; try discriminate.
  - inversion Hn; subst. lia.
  - specialize (IH _ _ _ Hn Hlt). unfold rem in IH. lia.
Qed.

Lemma rem_lt_fuel (it : item) : rem (ipt it) < restore_fuel rs it.
Proof.
  unfold restore_fuel. apply Nat.lt_succ_r.
  induction (ipt it) as [|[v i] t IH]; simpl; lia.
Qed.

(* ---------------- R2: fuel ---------------- *)

Lemma fuel_irrel strict m f1 : forall f2 (it : item) k,
  okpt (ipt it) -> rem (ipt it) < f1 -> rem (ipt it) < f2 ->
  restore_gen strict f1 rs it m k = restore_gen strict f2 rs it m k.
Proof.
  induction f1 as [|f1 IH]; intros f2 it k Hok H1 H2; [lia|].
  destruct f2 as [|f2]; [lia|].
  cbn [restore_gen].
  destruct (ple (iprob it) m); [reflexivity|].
  apply flat_map_ext_in. intros pos _.
  destruct (nth_error (ipt it) pos) as [[v i]|] eqn:En; [|reflexivity].
  destruct (Nat.eqb (dim v) (i + 1)) eqn:Ed; [reflexivity|].
  apply Nat.eqb_neq in Ed.
  destruct (okpt_nth _ _ _ _ Hok En) as [_ Hd].
  assert (Hlt : S i < dim v) by lia.
  pose proof (rem_upd_S _ _ _ _ En Hlt).
  apply IH; cbn [ipt mk]; [eapply okpt_upd_S; eauto|lia|lia].
Qed.

Theorem restore_fuel_enough_okpt strict m (it : item) k fuel :
  okpt (ipt it) -> restore_fuel rs it <= fuel ->
  restore_gen strict fuel rs it m k = restore_gen strict (restore_fuel rs it) rs it m k.
Proof.
  intros Hok Hf. pose proof (rem_lt_fuel it). apply fuel_irrel; auto; lia.
Qed.

End Restore.
