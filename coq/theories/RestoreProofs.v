(* Session restore (pcfg_grammar.py:787-896, priority_queue.py restore_base_item):
   the repaired walk (is_parent_around with `<=`) rebuilds exactly the frontier.
   The refutation of the walk as found (`<`) is in RestoreRefuted.v (needs F64).

   Findings: no defect of the model or of the statements was found; nothing is
   proved in a weakened `_partial` form.  Main results (all closed under the
   global context, hypotheses [wf rs] and, for R1 only, [okb m = true]):
     restore_frontier            (R1)  Permutation (restored_gen false rs m)
                                         (filter (frontierb rs m) (all_preterminals rs))
     restored_NoDup / restored_nodup   NoDup (restored_gen strict rs m), both comparisons
     NoDup_all_preterminals            NoDup (all_preterminals rs)
     restore_fuel_enough_okpt,
     restore_fuel_enough_root,
     restore_fuel_enough         (R2)  more fuel than restore_fuel changes nothing (both comparisons)
     restore_fuel_never_exhausted      the fuel = 0 branch is not taken (on the mirror [fuel_hit])
     restored_items              (R3)  iprob = find_prob, In all_preterminals, ple (iprob x) m (both comparisons)
   Proof idea: [walk_sound]/[walk_complete] characterise the result of the walk
   from node t with [left = k] as the frontier nodes u with t <= u componentwise
   and firstn k u = firstn k t; [anc_above] (every vector strictly below a
   frontier node is below one of its parents, hence has probability > m) shows
   the cut never hides a frontier node. *)
From Coq Require Import List Arith Bool Lia Sorting.Permutation.
From Pcfg Require Import ProbAlg Next NextSpec.
Import ListNotations.

(* ------------------------------------------------------------------ *)
(* generic list lemmas                                                 *)
(* ------------------------------------------------------------------ *)
Section ListLemmas.

Lemma existsb_false_In {X} (f : X -> bool) l x :
  existsb f l = false -> In x l -> f x = false.
Proof.
  induction l as [|a l IH]; simpl; intros H Hi.
  - destruct Hi.
  - apply orb_false_iff in H. destruct H as [H1 H2]. destruct Hi as [->|Hi]; auto.
Qed.

Lemma existsb_flat_map {X Y} (f : Y -> bool) (g : X -> list Y) l :
  existsb f (flat_map g l) = existsb (fun x => existsb f (g x)) l.
Proof.
  induction l as [|a l IH]; simpl; auto.
  rewrite existsb_app, IH. reflexivity.
Qed.

Lemma existsb_ext_in {X} (f g : X -> bool) l :
  (forall x, In x l -> f x = g x) -> existsb f l = existsb g l.
Proof.
  induction l as [|a l IH]; simpl; intros H; auto.
  rewrite H by auto. rewrite IH; auto.
Qed.

Lemma flat_map_ext_in {X Y} (f g : X -> list Y) l :
  (forall x, In x l -> f x = g x) -> flat_map f l = flat_map g l.
Proof.
  induction l as [|a l IH]; simpl; intros H; auto.
  rewrite H by auto. rewrite IH; auto.
Qed.

Lemma flat_map_map {X Y Z} (f : Y -> list Z) (g : X -> Y) l :
  flat_map f (map g l) = flat_map (fun x => f (g x)) l.
Proof. induction l as [|a l IH]; simpl; auto. now rewrite IH. Qed.

Lemma NoDup_app_intro {X} (l1 l2 : list X) :
  NoDup l1 -> NoDup l2 -> (forall x, In x l1 -> In x l2 -> False) -> NoDup (l1 ++ l2).
Proof.
  induction l1 as [|a l1 IH]; simpl; intros H1 H2 H; auto.
  inversion H1; subst. constructor.
  - rewrite in_app_iff. intros [Hi|Hi]; auto. apply (H a); auto.
  - apply IH; auto. intros x Hx1 Hx2. apply (H x); auto.
Qed.

Lemma NoDup_flat_map {X Y} (f : X -> list Y) l :
  NoDup l -> (forall a, In a l -> NoDup (f a)) ->
  (forall a b y, In a l -> In b l -> In y (f a) -> In y (f b) -> a = b) ->
  NoDup (flat_map f l).
Proof.
  induction 1 as [|a l Hn Hnd IH]; simpl; intros H1 H2.
  - constructor.
  - apply NoDup_app_intro.
    + apply H1; auto.
    + apply IH; intros; eauto.
    + intros y Hy1 Hy2. apply in_flat_map in Hy2. destruct Hy2 as (b & Hb & Hy2).
      assert (a = b) by (eapply H2; eauto). subst b. contradiction.
Qed.

Lemma NoDup_map_inj_in {X Y} (f : X -> Y) l a b :
  NoDup (map f l) -> In a l -> In b l -> f a = f b -> a = b.
Proof.
  induction l as [|c l IH]; simpl; intros Hn Ha Hb E.
  - destruct Ha.
  - inversion Hn; subst.
    destruct Ha as [->|Ha], Hb as [->|Hb]; auto.
    + exfalso. apply H1. rewrite E. apply in_map; auto.
    + exfalso. apply H1. rewrite <- E. apply in_map; auto.
Qed.

Lemma NoDup_map_inj_on {X Y} (g : X -> Y) l :
  NoDup l -> (forall a b, In a l -> In b l -> g a = g b -> a = b) -> NoDup (map g l).
Proof.
  induction 1 as [|a l Hn Hnd IH]; simpl; intros H.
  - constructor.
  - constructor.
    + intros Hi. apply in_map_iff in Hi. destruct Hi as (b & E & Hb).
      assert (b = a) by (apply H; auto). subst b. contradiction.
    + apply IH. intros; apply H; auto.
Qed.

Lemma nth_error_firstn_lt {X} k : forall (l : list X) pos,
  pos < k -> nth_error (firstn k l) pos = nth_error l pos.
Proof.
  induction k as [|k IH]; intros l pos H; [lia|].
  destruct l as [|a l]; simpl; auto.
  destruct pos as [|pos]; simpl; auto. apply IH. lia.
Qed.

Lemma map_fst_combine {X Y} (l1 : list X) : forall (l2 : list Y),
  length l1 = length l2 -> map fst (combine l1 l2) = l1.
Proof.
  induction l1 as [|a l1 IH]; intros [|b l2] H; simpl in *; try discriminate; auto.
  f_equal. apply IH. lia.
Qed.

Lemma map_snd_combine {X Y} (l1 : list X) : forall (l2 : list Y),
  length l1 = length l2 -> map snd (combine l1 l2) = l2.
Proof.
  induction l1 as [|a l1 IH]; intros [|b l2] H; simpl in *; try discriminate; auto.
  f_equal. apply IH. lia.
Qed.

Lemma Forall2_len {X Y} (R : X -> Y -> Prop) l1 l2 : Forall2 R l1 l2 -> length l1 = length l2.
Proof. induction 1; simpl; auto. Qed.

Lemma combine_fst_snd {X Y} (l : list (X * Y)) : combine (map fst l) (map snd l) = l.
Proof. induction l as [|[a b] l IH]; simpl; auto. now rewrite IH. Qed.

End ListLemmas.

(* ------------------------------------------------------------------ *)
(* vectors                                                             *)
(* ------------------------------------------------------------------ *)
Section Vectors.

Lemma in_vectors dims : forall vec,
  In vec (vectors dims) <-> Forall2 (fun i d => i < d) vec dims.
Proof.
  induction dims as [|d r IH]; intros vec; simpl.
  - split.
    + intros [<-|[]]. constructor.
    + intros H. inversion H. auto.
  - rewrite in_flat_map. split.
    + intros (i & Hi & Hv). apply in_seq in Hi. apply in_map_iff in Hv.
      destruct Hv as (w & <- & Hw). constructor; [lia|]. apply IH; auto.
    + intros H. inversion H as [|i d' w r' Hi Hw]; subst.
      exists i. split; [apply in_seq; lia|]. apply in_map. apply IH; auto.
Qed.

Lemma vectors_length dims vec : In vec (vectors dims) -> length vec = length dims.
Proof. intros H. apply in_vectors in H. eapply Forall2_len; eauto. Qed.

Lemma NoDup_vectors dims : NoDup (vectors dims).
Proof.
  induction dims as [|d r IH]; simpl.
  - constructor; [intros []|constructor].
  - apply NoDup_flat_map.
    + apply seq_NoDup.
    + intros i _. apply NoDup_map_inj_on; auto. intros a b _ _ E. congruence.
    + intros a b y _ _ Ha Hb. apply in_map_iff in Ha. apply in_map_iff in Hb.
      destruct Ha as (w & <- & _). destruct Hb as (w' & E & _). congruence.
Qed.

End Vectors.

(* ------------------------------------------------------------------ *)
(* the walk                                                            *)
(* ------------------------------------------------------------------ *)
Section Restore.
Context {A : palg}.
Notation P := (P A).
Notation ruleset := (ruleset A).
Notation item := (item A).

Variable rs : ruleset.

Local Notation dim v := (length (groups rs v)).

(* in the grid, over variables with well-formed group lists *)
Definition okpt (t : pt) : Prop :=
  Forall (fun vi => wf_groups (groups rs (fst vi)) /\ snd vi < dim (fst vi)) t.

(* componentwise order on the index vectors of one base structure *)
Definition le_pt (t u : pt) : Prop :=
  Forall2 (fun a b : var * nat => fst a = fst b /\ snd a <= snd b) t u.

Lemma le_pt_refl t : le_pt t t.
Proof. induction t; constructor; auto. Qed.

Lemma le_pt_trans t u w : le_pt t u -> le_pt u w -> le_pt t w.
Proof.
  intros H; revert w. induction H as [|a b t u [H1 H2] H IH]; intros w Hw; inversion Hw; subst.
  - constructor.
  - constructor; [|apply IH; auto]. destruct H4. split; [congruence|lia].
Qed.

Lemma le_pt_fst t u : le_pt t u -> map fst t = map fst u.
Proof. induction 1 as [|a b t u [H1 H2] H IH]; simpl; congruence. Qed.

Lemma le_pt_okpt a u : le_pt a u -> okpt u -> okpt a.
Proof.
  induction 1 as [|x y t u [H1 H2] H IH]; intros Hu; [constructor|].
  inversion Hu as [|? ? [Hw Hd] Hu']; subst. constructor; [|apply IH; auto].
  rewrite H1. split; auto. lia.
Qed.

Lemma le_pt_nth a b : le_pt a b -> forall p v i, nth_error a p = Some (v, i) ->
  exists i', nth_error b p = Some (v, i') /\ i <= i'.
Proof.
  induction 1 as [|[v0 i0] [v1 i1] t u [H1 H2] H IH]; intros p v i Hn.
  - destruct p; discriminate.
  - simpl in H1, H2. subst v1. destruct p as [|p]; simpl in *.
    + inversion Hn; subst. eauto.
    + eauto.
Qed.

Lemma okpt_nth t pos v i : okpt t -> nth_error t pos = Some (v, i) ->
  wf_groups (groups rs v) /\ i < dim v.
Proof.
  intros H Hn. apply nth_error_In in Hn. unfold okpt in H. rewrite Forall_forall in H.
  apply (H _ Hn).
Qed.

(* upd *)
Lemma length_upd t : forall pos f, length (upd t pos f) = length t.
Proof.
  induction t as [|[v i] t IH]; intros [|pos] f; simpl; auto.
Qed.

Lemma nth_error_upd_same t : forall pos f v i,
  nth_error t pos = Some (v, i) -> nth_error (upd t pos f) pos = Some (v, f i).
Proof.
  induction t as [|[v0 i0] t IH]; intros [|pos] f v i H; simpl in *; try discriminate.
  - inversion H; subst; auto.
  - auto.
Qed.

Lemma firstn_upd t : forall k pos f, k <= pos -> firstn k (upd t pos f) = firstn k t.
Proof.
  induction t as [|[v0 i0] t IH]; intros k [|pos] f H; simpl.
  - reflexivity.
  - reflexivity.
  - assert (k = 0) by lia. subst. reflexivity.
  - destruct k as [|k]; simpl; auto. f_equal. apply IH. lia.
Qed.

Lemma le_pt_upd_S t : forall pos, le_pt t (upd t pos S).
Proof.
  induction t as [|[v0 i0] t IH]; intros [|pos]; simpl.
  - constructor.
  - constructor.
  - constructor; [simpl; auto|apply le_pt_refl].
  - constructor; [simpl; auto|apply IH].
Qed.

Lemma le_pt_upd_l t u : le_pt t u -> forall pos v i v' i',
  nth_error t pos = Some (v, i) -> nth_error u pos = Some (v', i') -> i < i' ->
  le_pt (upd t pos S) u.
Proof.
  induction 1 as [|[v0 i0] [v1 i1] t u [H1 H2] H IH]; intros pos v i v' i' Ht Hu Hlt.
  - destruct pos; discriminate.
  - destruct pos as [|pos]; simpl in *.
    + inversion Ht; inversion Hu; subst. constructor; [simpl; split; auto; lia|auto].
    + constructor; auto. eapply IH; eauto.
Qed.

Lemma le_pt_upd_r a u : le_pt a u -> forall pos v i v' i',
  nth_error a pos = Some (v, i) -> nth_error u pos = Some (v', i') -> i < i' ->
  le_pt a (upd u pos pred).
Proof.
  induction 1 as [|[v0 i0] [v1 i1] t u [H1 H2] H IH]; intros pos v i v' i' Ht Hu Hlt.
  - destruct pos; discriminate.
  - destruct pos as [|pos]; simpl in *.
    + inversion Ht; inversion Hu; subst. constructor; [simpl; split; auto; lia|auto].
    + constructor; auto. eapply IH; eauto.
Qed.

Lemma okpt_upd_S t : forall pos v i, okpt t -> nth_error t pos = Some (v, i) -> S i < dim v ->
  okpt (upd t pos S).
Proof.
  induction t as [|[v0 i0] t IH]; intros [|pos] v i Hok Hn Hlt; simpl in *; try discriminate.
  - inversion Hn; subst. inversion Hok as [|? ? [Hw Hd] Hok']; subst. constructor; [simpl in *; split; auto|auto].
  - inversion Hok; subst. constructor; [auto|eapply IH; eauto].
Qed.

Lemma okpt_upd_pred t : forall pos, okpt t -> okpt (upd t pos pred).
Proof.
  induction t as [|[v0 i0] t IH]; intros [|pos] Hok; simpl in *; auto.
  - inversion Hok as [|? ? [Hw Hd] Hok']; subst. constructor; [simpl in *; split; auto; lia|auto].
  - inversion Hok; subst. constructor; [auto|apply IH; auto].
Qed.

(* first position where two comparable vectors differ *)
Lemma first_diff t u : le_pt t u -> t <> u ->
  exists pos v i i', firstn pos u = firstn pos t /\
    nth_error t pos = Some (v, i) /\ nth_error u pos = Some (v, i') /\ i < i'.
Proof.
  induction 1 as [|[v i] [v' i'] t u [Hv Hi] H IH]; intros Hne.
  - congruence.
  - simpl in Hv, Hi. subst v'.
    destruct (Nat.eq_dec i i') as [->|Hd].
    + destruct IH as (pos & w & j & j' & H1 & H2 & H3 & H4); [congruence|].
      exists (S pos), w, j, j'. simpl. rewrite H1. auto.
    + exists 0, v, i, i'. simpl. repeat split; auto. lia.
Qed.

Lemma pt_eq_dec (t u : pt) : {t = u} + {t <> u}.
Proof. decide equality. decide equality; apply Nat.eq_dec. Qed.

(* remaining depth of the walk below a node *)
Definition rem (t : pt) : nat :=
  fold_right (fun vi a => (dim (fst vi) - S (snd vi)) + a) 0 t.

Lemma rem_upd_S t : forall pos v i, nth_error t pos = Some (v, i) -> S i < dim v ->
  rem (upd t pos S) < rem t.
Proof.
  induction t as [|[v0 i0] t IH]; intros [|pos] v i Hn Hlt; simpl in *; try discriminate.
  - inversion Hn; subst. lia.
  - specialize (IH _ _ _ Hn Hlt). unfold rem in *. simpl. lia.
Qed.

Lemma rem_lt_fuel (it : item) : rem (ipt it) < restore_fuel rs it.
Proof.
  unfold restore_fuel. apply Nat.lt_succ_r.
  induction (ipt it) as [|[v i] t IH]; simpl; lia.
Qed.

(* ---------------- R2: fuel ---------------- *)

Lemma fuel_irrel strict m f1 : forall f2 (it : item) k,
  okpt (ipt it) -> rem (ipt it) < f1 -> rem (ipt it) < f2 ->
  restore_gen strict f1 rs it m k = restore_gen strict f2 rs it m k.
Proof.
  induction f1 as [|f1 IH]; intros f2 it k Hok H1 H2; [lia|].
  destruct f2 as [|f2]; [lia|].
  cbn [restore_gen].
  destruct (ple (iprob it) m); [reflexivity|].
  apply flat_map_ext_in. intros pos _.
  destruct (nth_error (ipt it) pos) as [[v i]|] eqn:En; [|reflexivity].
  destruct (Nat.eqb (dim v) (i + 1)) eqn:Ed; [reflexivity|].
  apply Nat.eqb_neq in Ed.
  destruct (okpt_nth _ _ _ _ Hok En) as [_ Hd].
  assert (Hlt : S i < dim v) by lia.
  pose proof (rem_upd_S _ _ _ _ En Hlt).
  apply IH; cbn [ipt mk]; [eapply okpt_upd_S; eauto|lia|lia].
Qed.

Theorem restore_fuel_enough_okpt strict m (it : item) k fuel :
  okpt (ipt it) -> restore_fuel rs it <= fuel ->
  restore_gen strict fuel rs it m k = restore_gen strict (restore_fuel rs it) rs it m k.
Proof.
  intros Hok Hf. pose proof (rem_lt_fuel it). apply fuel_irrel; auto; lia.
Qed.

(* "fuel = 0 is never reached", stated on a copy of the walk that only records
   whether the fuel-exhausted branch is taken (same recursion as restore_gen). *)
Fixpoint fuel_hit (fuel : nat) (it : item) (m : P) (left : nat) : bool :=
  match fuel with
  | O => true
  | S f =>
    if ple (iprob it) m then false
    else existsb (fun pos =>
      match nth_error (ipt it) pos with
      | Some (v, i) =>
          if Nat.eqb (dim v) (i + 1) then false else
          fuel_hit f (mk rs (itag it) (upd (ipt it) pos S) (ibase it)) m pos
      | None => false
      end) (seq left (length (ipt it) - left))
  end.

Lemma fuel_never_hit m fuel : forall (it : item) k,
  okpt (ipt it) -> rem (ipt it) < fuel -> fuel_hit fuel it m k = false.
Proof.
  induction fuel as [|f IH]; intros it k Hok H; [lia|].
  cbn [fuel_hit]. destruct (ple (iprob it) m); [reflexivity|].
  destruct (existsb _ _) eqn:E; auto. exfalso.
  apply existsb_exists in E. destruct E as (pos & _ & E).
  destruct (nth_error (ipt it) pos) as [[v i]|] eqn:En; [|discriminate].
  destruct (Nat.eqb (dim v) (i + 1)) eqn:Ed; [discriminate|].
  apply Nat.eqb_neq in Ed.
  destruct (okpt_nth _ _ _ _ Hok En) as [_ Hd].
  assert (Hlt : S i < dim v) by lia.
  pose proof (rem_upd_S _ _ _ _ En Hlt).
  rewrite IH in E; [discriminate| |]; cbn [ipt mk]; [eapply okpt_upd_S; eauto|lia].
Qed.

(* ---------------- probabilities ---------------- *)

Lemma desc_head a r : desc (a :: r) -> Forall (fun p : P => unitb p = true) (a :: r) ->
  Forall (fun b => ple b a = true) r.
Proof.
  revert a. induction r as [|b r IH]; intros a Hd Hu; [constructor|].
  destruct Hd as [Hba Hd]. inversion Hu as [|? ? Ha Hu']; subst.
  inversion Hu' as [|? ? Hb Hu'']; subst.
  constructor; auto.
  specialize (IH b Hd Hu'). rewrite Forall_forall in *. intros c Hc.
  apply (ple_trans A c b a); auto using (unit_ok A).
Qed.

Lemma desc_nth (d : P) l : desc l -> Forall (fun p : P => unitb p = true) l ->
  forall i j, i <= j -> j < length l -> ple (nth j l d) (nth i l d) = true.
Proof.
  induction l as [|a r IH]; intros Hd Hu i j Hij Hj; simpl in Hj; [lia|].
  pose proof (desc_head a r Hd Hu) as Hh.
  inversion Hu as [|? ? Ha Hu']; subst. destruct Hd as [_ Hd].
  destruct j as [|j]; destruct i as [|i]; try lia; simpl.
  - apply (ple_refl A). apply (unit_ok A); auto.
  - rewrite Forall_forall in Hh. apply Hh. apply nth_In. lia.
  - apply IH; auto; lia.
Qed.

Section Base.
Variable base : P.
Hypothesis base_ok : okb base = true.

Local Notation F := (fun (a : P) (vi : var * nat) => pmul a (gp rs base vi)).

Lemma gp_unit v i : wf_groups (groups rs v) -> i < dim v -> unitb (gp rs base (v, i)) = true.
Proof.
  intros (_ & Hu & _) Hi. unfold gp; simpl. rewrite Forall_forall in Hu. apply Hu. apply nth_In; auto.
Qed.

Lemma gp_mono v i i' : wf_groups (groups rs v) -> i <= i' -> i' < dim v ->
  ple (gp rs base (v, i')) (gp rs base (v, i)) = true.
Proof.
  intros (_ & Hu & Hd) Hi Hi'. unfold gp; simpl. apply desc_nth; auto.
Qed.

Lemma fold_ok t : okpt t -> forall a, okb a = true -> okb (fold_left F t a) = true.
Proof.
  induction 1 as [|[v i] t [Hw Hd] H IH]; intros a Ha; simpl; auto.
  apply IH. apply (pmul_ok A); auto. apply gp_unit; auto.
Qed.

Lemma pr_ok t : okpt t -> okb (find_prob rs t base) = true.
Proof. intros H. unfold find_prob. apply fold_ok; auto. Qed.

Lemma fold_mono t u : le_pt t u -> okpt u -> forall a a', okb a = true -> okb a' = true ->
  ple a' a = true -> ple (fold_left F u a') (fold_left F t a) = true.
Proof.
  induction 1 as [|[v i] [v' i'] t u [Hv Hi] H IH]; intros Hok a a' Ha Ha' Hle; simpl; auto.
  simpl in Hv, Hi. subst v'.
  inversion Hok as [|? ? [Hw Hd] Hok']; subst. simpl in Hw, Hd.
  assert (U1 : unitb (gp rs base (v, i)) = true) by (apply gp_unit; auto; lia).
  assert (U2 : unitb (gp rs base (v, i')) = true) by (apply gp_unit; auto).
  apply IH; auto.
  - apply (pmul_ok A); auto.
  - apply (pmul_ok A); auto.
  - apply (pmul_mono A); auto. apply gp_mono; auto.
Qed.

(* Fact 1, general form: a componentwise larger index vector is not more probable *)
Lemma pr_mono t u : le_pt t u -> okpt u ->
  ple (find_prob rs u base) (find_prob rs t base) = true.
Proof.
  intros H Hok. unfold find_prob. apply fold_mono; auto. apply (ple_refl A); auto.
Qed.

End Base.

(* ---------------- parents / is_parent_around ---------------- *)

Lemma parents_around (it : item) m :
  existsb (below m) (parents rs it) = parent_around_gen false rs it m.
Proof.
  unfold parents, parent_around_gen. rewrite existsb_flat_map.
  apply existsb_ext_in. intros pos _.
  destruct (nth_error (ipt it) pos) as [[v [|i]]|]; simpl; auto.
  rewrite orb_false_r. reflexivity.
Qed.

Lemma frontierb_alt (it : item) m :
  frontierb rs m it = ple (iprob it) m && negb (parent_around_gen false rs it m).
Proof. unfold frontierb. rewrite parents_around. reflexivity. Qed.

(* ---------------- the walk from one node ---------------- *)
Section Walk.
Variable tag : nat.
Variable base : P.
Hypothesis base_ok : okb base = true.
Variable m : P.
Hypothesis m_ok : okb m = true.

Local Notation node t := (mk rs tag t base).
Local Notation pr t := (find_prob rs t base).

Definition childw (strict : bool) (f : nat) (t : pt) (pos : nat) : list item :=
  match nth_error t pos with
  | Some (v, i) =>
      if Nat.eqb (dim v) (i + 1) then [] else
      restore_gen strict f rs (node (upd t pos S)) m pos
  | None => []
  end.

Lemma restore_gen_S strict f t k :
  restore_gen strict (S f) rs (node t) m k =
  if ple (pr t) m then (if parent_around_gen strict rs (node t) m then [] else [node t])
  else flat_map (childw strict f t) (seq k (length t - k)).
Proof. reflexivity. Qed.

(* a node of the frontier lies strictly below (in probability) every other
   vector that is componentwise below it *)
Lemma anc_above a u : okpt u ->
  parent_around_gen false rs (node u) m = false ->
  le_pt a u -> a <> u -> ple (pr a) m = false.
Proof.
  intros Hok Hpa Hle Hne.
  destruct (first_diff a u Hle Hne) as (pos & v & i & i' & _ & Ha & Hu & Hlt).
  destruct i' as [|i'']; [lia|].
  unfold parent_around_gen in Hpa. cbn [ipt ibase mk] in Hpa.
  assert (Hpos : In pos (seq 0 (length u))).
  { apply in_seq. split; [lia|]. simpl. apply nth_error_Some. congruence. }
  pose proof (existsb_false_In _ _ _ Hpa Hpos) as Hp. cbv beta in Hp. rewrite Hu in Hp.
  destruct (ple (pr a) m) eqn:E; auto.
  rewrite <- Hp. symmetry.
  assert (Hokp : okpt (upd u pos pred)) by (apply okpt_upd_pred; auto).
  assert (Hlep : le_pt a (upd u pos pred)) by (eapply le_pt_upd_r; eauto).
  apply (ple_trans A _ (pr a) _); auto.
  - apply pr_ok; auto.
  - apply pr_ok; auto. eapply le_pt_okpt; eauto.
  - apply pr_mono; auto.
Qed.

Lemma walk_sound strict fuel : forall t k x, okpt t ->
  In x (restore_gen strict fuel rs (node t) m k) ->
  exists u, x = node u /\ le_pt t u /\ firstn k u = firstn k t /\ okpt u /\
            ple (pr u) m = true /\ parent_around_gen strict rs x m = false.
Proof.
  induction fuel as [|f IH]; intros t k x Ht Hx.
  - destruct Hx.
  - rewrite restore_gen_S in Hx.
    destruct (ple (pr t) m) eqn:Ecut.
    + destruct (parent_around_gen strict rs (node t) m) eqn:Epa; [destruct Hx|].
      destruct Hx as [<-|[]]. exists t. repeat split; auto using le_pt_refl.
    + apply in_flat_map in Hx. destruct Hx as (pos & Hpos & Hx).
      apply in_seq in Hpos. unfold childw in Hx.
      destruct (nth_error t pos) as [[v i]|] eqn:En; [|destruct Hx].
      destruct (Nat.eqb (dim v) (i + 1)) eqn:Ed; [destruct Hx|].
      apply Nat.eqb_neq in Ed.
      destruct (okpt_nth _ _ _ _ Ht En) as [_ Hd].
      assert (Hi : S i < dim v) by lia.
      apply IH in Hx; [|eapply okpt_upd_S; eauto].
      destruct Hx as (u & -> & Hle & Hfn & Hok & Hp & Hpa).
      exists u. repeat split; auto.
      * eapply le_pt_trans; [apply le_pt_upd_S|exact Hle].
      * rewrite firstn_upd in Hfn by lia.
        replace k with (min k pos) by lia. rewrite <- !firstn_firstn. rewrite Hfn. reflexivity.
Qed.

Lemma childw_sound strict f t pos x : okpt t -> In x (childw strict f t pos) ->
  exists v i u, nth_error t pos = Some (v, i) /\ S i < dim v /\
    x = node u /\ le_pt (upd t pos S) u /\ firstn pos u = firstn pos t /\ okpt u.
Proof.
  intros Ht Hx. unfold childw in Hx.
  destruct (nth_error t pos) as [[v i]|] eqn:En; [|destruct Hx].
  destruct (Nat.eqb (dim v) (i + 1)) eqn:Ed; [destruct Hx|].
  apply Nat.eqb_neq in Ed.
  destruct (okpt_nth _ _ _ _ Ht En) as [_ Hd].
  assert (Hi : S i < dim v) by lia.
  apply walk_sound in Hx; [|eapply okpt_upd_S; eauto].
  destruct Hx as (u & -> & Hle & Hfn & Hok & _).
  rewrite firstn_upd in Hfn by lia.
  exists v, i, u. repeat split; auto.
Qed.

Lemma walk_nodup strict fuel : forall t k, okpt t ->
  NoDup (restore_gen strict fuel rs (node t) m k).
Proof.
  induction fuel as [|f IH]; intros t k Ht; [constructor|].
  rewrite restore_gen_S.
  destruct (ple (pr t) m).
  { destruct (parent_around_gen strict rs (node t) m); repeat constructor. intros []. }
  apply NoDup_flat_map.
  - apply seq_NoDup.
  - intros pos _. unfold childw.
    destruct (nth_error t pos) as [[v i]|] eqn:En; [|constructor].
    destruct (Nat.eqb (dim v) (i + 1)) eqn:Ed; [constructor|].
    apply Nat.eqb_neq in Ed. destruct (okpt_nth _ _ _ _ Ht En) as [_ Hd].
    apply IH. eapply okpt_upd_S; eauto. lia.
  - assert (D : forall a b y, a < b -> In y (childw strict f t a) -> In y (childw strict f t b) -> False).
    { intros a b y Hab Ha Hb.
      apply childw_sound in Ha; auto. apply childw_sound in Hb; auto.
      destruct Ha as (v & i & u & En & Hi & -> & Hle & Hfn & Hok).
      destruct Hb as (v' & i' & u' & En' & Hi' & E & Hle' & Hfn' & Hok').
      assert (u' = u) by (apply (f_equal (@ipt A)) in E; simpl in E; auto). subst u'.
      destruct (le_pt_nth _ _ Hle a v (S i)) as (j & Hj & Hlt).
      { apply nth_error_upd_same; auto. }
      assert (Hj' : nth_error u a = nth_error t a).
      { rewrite <- (nth_error_firstn_lt b u a Hab), Hfn'. apply nth_error_firstn_lt; auto. }
      rewrite Hj, En in Hj'. inversion Hj'. lia. }
    intros a b y _ _ Ha Hb.
    destruct (lt_eq_lt_dec a b) as [[Hlt|He]|Hlt]; auto; exfalso; eauto.
Qed.

Lemma walk_complete fuel : forall t k u, okpt t -> rem t < fuel ->
  le_pt t u -> firstn k u = firstn k t -> okpt u ->
  ple (pr u) m = true -> parent_around_gen false rs (node u) m = false ->
  In (node u) (restore_gen false fuel rs (node t) m k).
Proof.
  induction fuel as [|f IH]; intros t k u Ht Hf Hle Hfn Hu Hp Hpa; [lia|].
  rewrite restore_gen_S.
  destruct (pt_eq_dec t u) as [->|Hne].
  - rewrite Hp, Hpa. left; reflexivity.
  - rewrite (anc_above t u Hu Hpa Hle Hne).
    destruct (first_diff t u Hle Hne) as (pos & v & i & i' & Hfp & Hnt & Hnu & Hlt).
    assert (Hk : k <= pos).
    { destruct (le_lt_dec k pos) as [|Hc]; auto. exfalso.
      assert (E : nth_error u pos = nth_error t pos).
      { rewrite <- (nth_error_firstn_lt k u pos Hc), Hfn. apply nth_error_firstn_lt; auto. }
      rewrite Hnt, Hnu in E. inversion E. lia. }
    assert (Hlen : pos < length t) by (apply nth_error_Some; congruence).
    destruct (okpt_nth _ _ _ _ Hu Hnu) as [_ Hd'].
    apply in_flat_map. exists pos. split; [apply in_seq; lia|].
    unfold childw. rewrite Hnt.
    replace (Nat.eqb (dim v) (i + 1)) with false by (symmetry; apply Nat.eqb_neq; lia).
    apply IH; auto.
    + eapply okpt_upd_S; eauto. lia.
    + assert (rem (upd t pos S) < rem t) by (eapply rem_upd_S; eauto; lia). lia.
    + eapply le_pt_upd_l; eauto.
    + rewrite firstn_upd by lia. auto.
Qed.

End Walk.

(* ---------------- all base structures ---------------- *)
Section Top.
Hypothesis Hwf : wf rs.

Local Notation kbs := (combine (seq 0 (length (bases rs))) (bases rs)).

Definition root (kb : nat * bstruct A) : pt := map (fun v => (v, 0)) (brepl (snd kb)).

Lemma init_items_eq :
  init_items rs = map (fun kb => mk rs (fst kb) (root kb) (bprob (snd kb))) kbs.
Proof. reflexivity. Qed.

Lemma kbs_wf kb : In kb kbs ->
  okb (bprob (snd kb)) = true /\ Forall (fun v => wf_groups (groups rs v)) (brepl (snd kb)).
Proof.
  intros H. destruct kb as [k b]. apply in_combine_r in H.
  unfold wf in Hwf. rewrite Forall_forall in Hwf. apply (Hwf b); auto.
Qed.

Lemma map_fst_kbs : map fst kbs = seq 0 (length (bases rs)).
Proof. apply map_fst_combine. apply seq_length. Qed.

Lemma NoDup_kbs : NoDup kbs.
Proof. apply (NoDup_map_inv fst). rewrite map_fst_kbs. apply seq_NoDup. Qed.

Lemma kbs_fst_inj a b : In a kbs -> In b kbs -> fst a = fst b -> a = b.
Proof.
  apply NoDup_map_inj_in. rewrite map_fst_kbs. apply seq_NoDup.
Qed.

Lemma map_fst_root (vs : list var) : map fst (map (fun v => (v, 0)) vs) = vs.
Proof. induction vs; simpl; congruence. Qed.

Lemma okpt_root vs : Forall (fun v => wf_groups (groups rs v)) vs ->
  okpt (map (fun v => (v, 0)) vs).
Proof.
  induction 1 as [|v vs Hv H IH]; simpl; constructor; auto.
  simpl. split; auto. destruct Hv as [Hne _]. destruct (groups rs v); [congruence|simpl; lia].
Qed.

Lemma grid_of_vec vs : Forall (fun v => wf_groups (groups rs v)) vs -> forall vec,
  Forall2 (fun i d => i < d) vec (map (fun v => dim v) vs) ->
  okpt (combine vs vec) /\ le_pt (map (fun v => (v, 0)) vs) (combine vs vec).
Proof.
  induction 1 as [|v vs Hv H IH]; intros vec Hvec; simpl in *; inversion Hvec; subst; simpl.
  - split; constructor.
  - destruct (IH _ H4) as [I1 I2]. split; constructor; simpl; auto. lia.
Qed.

Lemma vec_of_grid u : okpt u ->
  Forall2 (fun i d => i < d) (map snd u) (map (fun v => dim v) (map fst u)).
Proof.
  induction 1 as [|[v i] u [Hw Hd] H IH]; simpl; constructor; auto.
Qed.

Lemma in_preterminals x :
  In x (all_preterminals rs) <->
  exists kb u, In kb kbs /\ x = mk rs (fst kb) u (bprob (snd kb)) /\ le_pt (root kb) u /\ okpt u.
Proof.
  unfold all_preterminals. rewrite in_flat_map. split.
  - intros (kb & Hkb & Hx). unfold preterminals_of in Hx. apply in_map_iff in Hx.
    destruct Hx as (vec & <- & Hvec). apply in_vectors in Hvec.
    destruct (kbs_wf kb Hkb) as [_ Hvs].
    destruct (grid_of_vec _ Hvs _ Hvec) as [H1 H2].
    exists kb, (combine (brepl (snd kb)) vec). auto.
  - intros (kb & u & Hkb & -> & Hle & Hok). exists kb. split; auto.
    unfold preterminals_of. apply in_map_iff. exists (map snd u).
    apply le_pt_fst in Hle. unfold root in Hle. rewrite map_fst_root in Hle.
    rewrite Hle. rewrite combine_fst_snd. split; auto.
    apply in_vectors. apply vec_of_grid; auto.
Qed.

Lemma preterminal_prob x : In x (all_preterminals rs) ->
  iprob x = find_prob rs (ipt x) (ibase x).
Proof. intros H. apply in_preterminals in H. destruct H as (kb & u & _ & -> & _). reflexivity. Qed.

Lemma NoDup_all_preterminals : NoDup (all_preterminals rs).
Proof.
  unfold all_preterminals. apply NoDup_flat_map.
  - apply NoDup_kbs.
  - intros kb _. unfold preterminals_of. apply NoDup_map_inj_on; [apply NoDup_vectors|].
    intros a b Ha Hb E. apply vectors_length in Ha. apply vectors_length in Hb.
    rewrite map_length in Ha, Hb.
    apply (f_equal (@ipt A)) in E. simpl in E.
    apply (f_equal (map snd)) in E. rewrite !map_snd_combine in E by lia. exact E.
  - intros a b y Ha Hb Hya Hyb. apply kbs_fst_inj; auto.
    unfold preterminals_of in *. apply in_map_iff in Hya. apply in_map_iff in Hyb.
    destruct Hya as (w & <- & _). destruct Hyb as (w' & E & _).
    apply (f_equal (@itag A)) in E. simpl in E. auto.
Qed.

Variable m : P.
Hypothesis m_ok : okb m = true.

Lemma in_restored strict x : In x (restored_gen strict rs m) ->
  exists kb u, In kb kbs /\ x = mk rs (fst kb) u (bprob (snd kb)) /\ le_pt (root kb) u /\ okpt u /\
    ple (iprob x) m = true /\ parent_around_gen strict rs x m = false.
Proof.
  unfold restored_gen. rewrite init_items_eq, flat_map_map, in_flat_map.
  intros (kb & Hkb & Hx). destruct (kbs_wf kb Hkb) as [Hb Hvs].
  apply walk_sound in Hx; [|apply okpt_root; auto].
  destruct Hx as (u & -> & Hle & _ & Hok & Hp & Hpa).
  exists kb, u. repeat split; auto.
Qed.

Lemma restored_nodup strict : NoDup (restored_gen strict rs m).
Proof.
  unfold restored_gen. rewrite init_items_eq, flat_map_map.
  apply NoDup_flat_map.
  - apply NoDup_kbs.
  - intros kb Hkb. destruct (kbs_wf kb Hkb) as [Hb Hvs]. apply walk_nodup. apply okpt_root; auto.
  - intros a b y Ha Hb Hya Hyb. apply kbs_fst_inj; auto.
    destruct (kbs_wf a Ha) as [_ Hva]. destruct (kbs_wf b Hb) as [_ Hvb].
    apply walk_sound in Hya; [|apply okpt_root; auto].
    apply walk_sound in Hyb; [|apply okpt_root; auto].
    destruct Hya as (u & -> & _). destruct Hyb as (u' & E & _).
    apply (f_equal (@itag A)) in E. simpl in E. auto.
Qed.

Lemma restored_in_iff x :
  In x (restored_gen false rs m) <-> In x (filter (frontierb rs m) (all_preterminals rs)).
Proof.
  rewrite filter_In. split.
  - intros H. apply in_restored in H.
    destruct H as (kb & u & Hkb & -> & Hle & Hok & Hp & Hpa). split.
    + apply in_preterminals. exists kb, u. auto.
    + rewrite frontierb_alt, Hp, Hpa. reflexivity.
  - intros [Hin Hf]. apply in_preterminals in Hin.
    destruct Hin as (kb & u & Hkb & -> & Hle & Hok).
    rewrite frontierb_alt in Hf. apply andb_true_iff in Hf. destruct Hf as [Hp Hpa].
    apply negb_true_iff in Hpa. cbn [iprob mk] in Hp.
    destruct (kbs_wf kb Hkb) as [Hb Hvs].
    unfold restored_gen. rewrite init_items_eq, flat_map_map, in_flat_map.
    exists kb. split; auto.
    apply walk_complete; auto.
    + apply okpt_root; auto.
    + apply (rem_lt_fuel (mk rs (fst kb) (root kb) (bprob (snd kb)))).
Qed.

(* R1 *)
Theorem restore_frontier :
  Permutation (restored_gen false rs m) (filter (frontierb rs m) (all_preterminals rs)).
Proof.
  apply NoDup_Permutation.
  - apply restored_nodup.
  - apply NoDup_filter. apply NoDup_all_preterminals.
  - apply restored_in_iff.
Qed.

Corollary restored_NoDup : NoDup (restored_gen false rs m).
Proof. apply restored_nodup. Qed.

(* R3 (for both comparisons) *)
Theorem restored_items strict x : In x (restored_gen strict rs m) ->
  iprob x = find_prob rs (ipt x) (ibase x) /\ In x (all_preterminals rs) /\
  ple (iprob x) m = true.
Proof.
  intros H. apply in_restored in H.
  destruct H as (kb & u & Hkb & -> & Hle & Hok & Hp & _).
  split; [reflexivity|]. split; auto.
  apply in_preterminals. exists kb, u. auto.
Qed.

Lemma init_item_okpt it : In it (init_items rs) -> okpt (ipt it).
Proof.
  intros Hit. rewrite init_items_eq in Hit. apply in_map_iff in Hit.
  destruct Hit as (kb & <- & Hkb).
  destruct (kbs_wf kb Hkb) as [_ Hvs]. apply okpt_root; auto.
Qed.

(* R2, per root item and for any [left] *)
Theorem restore_fuel_enough_root strict it fuel left :
  In it (init_items rs) -> restore_fuel rs it <= fuel ->
  restore_gen strict fuel rs it m left = restore_gen strict (restore_fuel rs it) rs it m left.
Proof. intros Hit Hf. apply restore_fuel_enough_okpt; auto. apply init_item_okpt; auto. Qed.

Theorem restore_fuel_never_exhausted it left :
  In it (init_items rs) -> fuel_hit (restore_fuel rs it) it m left = false.
Proof. intros Hit. apply fuel_never_hit; [apply init_item_okpt; auto|apply rem_lt_fuel]. Qed.

(* R2 at the roots: any fuel >= restore_fuel gives the same queue *)
Theorem restore_fuel_enough strict (fuel : item -> nat) :
  (forall it, restore_fuel rs it <= fuel it) ->
  flat_map (fun it => restore_gen strict (fuel it) rs it m 0) (init_items rs) =
  restored_gen strict rs m.
Proof.
  intros Hf. unfold restored_gen. apply flat_map_ext_in. intros it Hit.
  apply restore_fuel_enough_root; auto.
Qed.

End Top.

End Restore.

Check @restore_frontier.
Check @restored_NoDup.
Check @restored_items.
Check @restore_fuel_enough.
Check @restore_fuel_enough_root.
Check @restore_fuel_enough_okpt.
Check @restore_fuel_never_exhausted.
Print Assumptions restore_frontier.
Print Assumptions restored_items.
Print Assumptions restore_fuel_enough.
