(* Correspondence helpers for C05 / C13: the trainer's segmentation model
   instantiated with the constants regenerated from the source
   (gen/Consts_gen.v) and the Unicode facts of the running interpreter
   (gen/Unicode_gen.v), and the comparison of what the model computes with
   what PCFGPasswordParser returned.  Everything here is evaluated by
   vm_compute in the generated case files. *)
From Coq Require Import List ZArith NArith Bool.
From Pcfg Require Import Str Multiword Detect Segment.
From PcfgGen Require Import Consts_gen Unicode_gen.
Import ListNotations.
Open Scope Z_scope.

(* ---- instance *)

Fixpoint chunks (per n : nat) (l : list str) : list (list str) :=
  match n with
  | O => []
  | S n' => firstn per l :: chunks per n' (skipn per l)
  end.

Definition c_isalpha := uni_alpha unicode_table.
Definition c_isdigit := uni_digit unicode_table.
Definition c_isupper := uni_upper unicode_table.
Definition c_lower := uni_lower unicode_table.
Definition c_upper := uni_upperc unicode_table.

Definition c_kbs : list board := chunks 8 kb_layouts kb_rows_flat.
Definition c_min_run : Z := Z.of_nat kb_min_run.
Definition c_threshold : Z := Z.of_nat mw_threshold.
Definition c_min_len : Z := Z.of_nat mw_min_len.
Definition c_max_len : Z := Z.of_nat mw_max_len.

Definition parse_gen (aligned : bool) : mwmap -> str -> presult :=
  parse c_isalpha c_isdigit c_isupper c_lower aligned c_kbs kb_false_positive_words c_min_run tld_list
        year_prefixes context_strings c_threshold c_min_len c_max_len.
(* the pipeline as the current source has it *)
Definition parse_c : mwmap -> str -> presult := parse_gen seg_lower_aligned.
Definition train_c : mwmap -> bool -> str -> mwmap :=
  train c_isalpha c_lower c_threshold c_min_len c_max_len.
Definition mwparse_c : mwmap -> str -> option (bool * list str) :=
  mwparse c_lower c_threshold c_min_len c_max_len.
Definition mwcount_c : mwmap -> str -> Z := mw_count c_lower.

(* ---- comparison *)

Fixpoint leqb {X Y} (e : X -> Y -> bool) (a : list X) (b : list Y) : bool :=
  match a, b with
  | [], [] => true
  | x :: a', y :: b' => e x y && leqb e a' b'
  | _, _ => false
  end.

Definition olabel_eqb (a b : option label) : bool :=
  match a, b with
  | None, None => true
  | Some x, Some y => label_eqb x y
  | _, _ => false
  end.
Definition section_eqb (a b : section) : bool := str_eqb (fst a) (fst b) && olabel_eqb (snd a) (snd b).

(* a Counter as the sorted list of (key, count) *)
Fixpoint tally_ins (k : str) (t : list (str * nat)) : list (str * nat) :=
  match t with
  | [] => [(k, 1%nat)]
  | (k', n) :: r =>
      if str_eqb k k' then (k', S n) :: r
      else if str_ltb k k' then (k, 1%nat) :: t
      else (k', n) :: tally_ins k r
  end.
Definition tally (l : list str) : list (str * nat) := fold_right tally_ins [] l.
Definition tally_len (l : list str) : list (Z * str * nat) :=
  map (fun kn => (len (fst kn), fst kn, snd kn)) (tally l).

Definition kn_eqb (a b : str * nat) : bool := str_eqb (fst a) (fst b) && Nat.eqb (snd a) (snd b).
Definition lkn_eqb (a b : Z * str * nat) : bool :=
  (fst (fst a) =? fst (fst b)) && str_eqb (snd (fst a)) (snd (fst b)) && Nat.eqb (snd a) (snd b).

(* keys that are not strings, encoded as code-point lists the same way by the harness *)
Definition enc_label (l : label) : str :=
  match l with
  | LK n => [75%N; Z.to_N n] | LA n => [65%N; Z.to_N n] | LD n => [68%N; Z.to_N n] | LO n => [79%N; Z.to_N n]
  | LE => [69%N] | LW => [87%N] | LY => [89%N; 1%N] | LX => [88%N; 1%N]
  end.
Definition enc_base (b : list label) : str := flat_map enc_label b.
Definition enc_opt (o : option str) : str := match o with None => [0%N] | Some s => 1%N :: s end.

Record counters := {
  k_keyboard : list (Z * str * nat);
  k_emails : list (str * nat);
  k_providers : list (str * nat);
  k_urls : list (str * nat);
  k_hosts : list (str * nat);
  k_prefixes : list (str * nat);
  k_years : list (str * nat);
  k_context : list (str * nat);
  k_alpha : list (Z * str * nat);
  k_masks : list (Z * str * nat);
  k_digits : list (Z * str * nat);
  k_other : list (Z * str * nat);
  k_prince : list (str * nat);
  k_base : list (str * nat);
  k_raw_base : list (str * nat)
}.

Definition counters_of (rs : list parsed) : counters :=
  let cat {X} (f : parsed -> list X) := flat_map f rs in
  {| k_keyboard := tally_len (cat p_walks);
     k_emails := tally (cat p_emails);
     k_providers := tally (cat p_providers);
     k_urls := tally (cat p_urls);
     k_hosts := tally (cat p_hosts);
     k_prefixes := tally (map enc_opt (cat p_prefixes));
     k_years := tally (cat p_years);
     k_context := tally (cat p_context);
     k_alpha := tally_len (cat p_alpha);
     k_masks := tally_len (cat p_masks);
     k_digits := tally_len (cat p_digits);
     k_other := tally_len (cat p_other);
     k_prince := tally (map enc_label (cat p_prince));
     k_base := tally (map (fun r => enc_base (p_base r)) (filter p_supported rs));
     k_raw_base := tally (map (fun r => enc_base (p_base r)) rs) |}.

Definition counters_eqb (a b : counters) : bool :=
  leqb lkn_eqb (k_keyboard a) (k_keyboard b) && leqb kn_eqb (k_emails a) (k_emails b) &&
  leqb kn_eqb (k_providers a) (k_providers b) && leqb kn_eqb (k_urls a) (k_urls b) &&
  leqb kn_eqb (k_hosts a) (k_hosts b) && leqb kn_eqb (k_prefixes a) (k_prefixes b) &&
  leqb kn_eqb (k_years a) (k_years b) && leqb kn_eqb (k_context a) (k_context b) &&
  leqb lkn_eqb (k_alpha a) (k_alpha b) && leqb lkn_eqb (k_masks a) (k_masks b) &&
  leqb lkn_eqb (k_digits a) (k_digits b) && leqb lkn_eqb (k_other a) (k_other b) &&
  leqb kn_eqb (k_prince a) (k_prince b) && leqb kn_eqb (k_base a) (k_base b) &&
  leqb kn_eqb (k_raw_base a) (k_raw_base b).

(* The cases of one shard share a table of training histories (pre-training
   words, training passwords); [hmaps] is the detector state after each.
   CParse: the passwords parsed in order by one parser object, per password
   the section list handed to base_structure_creation (None = parse raised),
   and the counters afterwards (None = some parse raised).
   CMw: a direct query of the multi-word detector: word, _get_count, parse. *)
Inductive ccase :=
| CParse (h : nat) (pws : list str) (secs : list (option (list section))) (k : option counters)
| CMw (h : nat) (w : str) (cnt : Z) (b : bool) (ws : list str).

Definition history_map (h : list str * list str) : mwmap :=
  fold_left (fun m w => train_c m false w) (snd h) (fold_left (fun m w => train_c m true w) (fst h) []).

Definition secs_match (r : presult) (o : option (list section)) : bool :=
  match r, o with
  | PErr, None => true
  | POk p, Some sl => leqb section_eqb (p_sections p) sl
  | _, _ => false
  end.

Fixpoint all_ok (rs : list presult) : option (list parsed) :=
  match rs with
  | [] => Some []
  | PErr :: _ => None
  | POk p :: r => match all_ok r with None => None | Some l => Some (p :: l) end
  end.

Definition check_ccase (hmaps : list mwmap) (c : ccase) : bool :=
  match c with
  | CParse h pws secs k =>
      let m := nth h hmaps [] in
      let rs := map (parse_c m) pws in
      leqb secs_match rs secs &&
      match all_ok rs, k with
      | Some ps, Some k => counters_eqb (counters_of ps) k
      | None, None => true
      | _, _ => false
      end
  | CMw h w cnt b ws =>
      let m := nth h hmaps [] in
      (mwcount_c m w =? cnt) &&
      match mwparse_c m w with
      | None => false
      | Some (b', ws') => Bool.eqb b b' && leqb str_eqb ws ws'
      end
  end.

Definition failing {X} (f : X -> bool) (l : list X) : list nat :=
  map fst (filter (fun kx => negb (f (snd kx))) (combine (seq 0 (length l)) l)).
