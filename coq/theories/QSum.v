(* "The probabilities of all emitted guesses sum to 1" (C03 / C06) over exact
   rational arithmetic.

   The Next.v ruleset keeps, per variable, only the probabilities of its
   GROUPS (values sharing a probability).  The number of values in each group
   is supplied here as a separate table  sizes : list (list nat)  of the same
   shape as  tbl rs .  A pre-terminal  it  stands for  count_it sizes it
   guesses (product of the sizes of the groups it selects), each of
   probability  iprob it .

   Hypotheses (what a trainer-written grammar satisfies in exact arithmetic):
     - every variable v used by a (selected) base structure has
         var_mass rs sizes v  =  sum_i p_{v,i} * size_{v,i}  ==  1
       (the lines of the variable's file sum to 1: one line per value);
     - the base-structure probabilities sum to s (s = 1 for a complete
       grammar; s < 1 when part of the mass is held elsewhere).

   Results:
     vec_sum        per base structure, the sum over all index vectors of
                    (product of group probs) * (product of sizes) == 1
     QSum_base      sum over preterminals_of rs (k,b)  == bprob b
     QSum_sel       sum over the pre-terminals of the SELECTED base structures
                    == sum of the selected base probabilities (hypothesis on
                    variables only for selected structures)
     QSum_sub       total over all_preterminals == s   (sub-distribution)
     QSum_one       total over all_preterminals == 1
     QSum_emitted   the same for the list emitted by a complete run of the
                    "next" algorithm (any pop with pop_ok_okb), via
                    C02_exactly_once_okb.
   No finding: all statements hold as planned. *)
From Coq Require Import List Arith Bool Lia QArith Setoid Sorting.Permutation.
From Pcfg Require Import ProbAlg Next NextSpec NextProofs QProb.
Import ListNotations.

Local Open Scope Q_scope.

(* ------------------------------------------------------------------ *)
(* finite sums over Q                                                  *)
(* ------------------------------------------------------------------ *)

Definition Qsum (l : list Q) : Q := fold_right Qplus 0 l.

Lemma Qsum_app l l' : Qsum (l ++ l') == Qsum l + Qsum l'.
Proof. induction l as [|a l IH]; simpl; [ring|]. rewrite IH. ring. Qed.

Lemma Qsum_map_ext_in {X} (f g : X -> Q) l :
  (forall x, In x l -> f x == g x) -> Qsum (map f l) == Qsum (map g l).
Proof.
  induction l as [|a l IH]; intros H; simpl; [reflexivity|].
  rewrite (H a (or_introl eq_refl)). rewrite IH; [reflexivity|].
  intros x Hx. apply H. right; auto.
Qed.

Lemma Qsum_map_ext {X} (f g : X -> Q) l :
  (forall x, f x == g x) -> Qsum (map f l) == Qsum (map g l).
Proof. intros H. apply Qsum_map_ext_in. auto. Qed.

Lemma Qsum_scal {X} (c : Q) (f : X -> Q) l :
  Qsum (map (fun x => c * f x) l) == c * Qsum (map f l).
Proof. induction l as [|a l IH]; simpl; [ring|]. rewrite IH. ring. Qed.

Lemma Qsum_flat_map {X Y} (F : Y -> Q) (g : X -> list Y) l :
  Qsum (map F (flat_map g l)) == Qsum (map (fun x => Qsum (map F (g x))) l).
Proof.
  induction l as [|a l IH]; simpl; [reflexivity|].
  rewrite map_app, Qsum_app, IH. reflexivity.
Qed.

Lemma Qsum_perm l l' : Permutation l l' -> Qsum l == Qsum l'.
Proof.
  induction 1; simpl.
  - reflexivity.
  - rewrite IHPermutation. reflexivity.
  - ring.
  - rewrite IHPermutation1. auto.
Qed.

(* ------------------------------------------------------------------ *)
(* group sizes, number of guesses behind a pre-terminal                *)
(* ------------------------------------------------------------------ *)

Definition Qn (n : nat) : Q := inject_Z (Z.of_nat n).

Definition gsize (sizes : list (list nat)) (vi : var * nat) : nat :=
  nth (snd vi) (nth (fst vi) sizes []) 0%nat.

Definition count_pt (sizes : list (list nat)) (t : pt) : Q :=
  fold_right (fun vi acc => Qn (gsize sizes vi) * acc) 1 t.

Definition count_it (sizes : list (list nat)) (it : Qitem) : Q :=
  count_pt sizes (ipt it).

(* the natural-number count, and its agreement with count_pt *)
Definition count_pt_nat (sizes : list (list nat)) (t : pt) : nat :=
  fold_right (fun vi acc => (gsize sizes vi * acc)%nat) 1%nat t.

Lemma count_pt_nat_Q sizes t : count_pt sizes t == Qn (count_pt_nat sizes t).
Proof.
  induction t as [|vi t IH]; simpl; [reflexivity|].
  rewrite IH. unfold Qn. rewrite Nat2Z.inj_mul, inject_Z_mult. reflexivity.
Qed.

(* total probability mass of a variable: sum over its groups of
   (group probability) * (number of values in the group) *)
Definition var_mass (rs : Qruleset) (sizes : list (list nat)) (v : var) : Q :=
  Qsum (map (fun i => nth i (@groups QProb rs v) 0 * Qn (gsize sizes (v, i)))
            (seq 0 (length (@groups QProb rs v)))).

(* the same sum written over the zipped lists, when the shapes agree *)
Lemma var_mass_combine_aux (l : list Q) (sz : list nat) k :
  length l = length sz ->
  Qsum (map (fun i => nth (i - k) l 0 * Qn (nth (i - k) sz 0%nat)) (seq k (length l)))
  == Qsum (map (fun ps => fst ps * Qn (snd ps)) (combine l sz)).
Proof.
  revert sz k. induction l as [|a l IH]; intros [|n sz] k H; simpl in *; try lia; [reflexivity|].
  rewrite Nat.sub_diag. apply Qplus_comp; [reflexivity|].
  rewrite <- (IH sz (S k)); [|lia].
  apply Qsum_map_ext_in. intros i Hi. apply in_seq in Hi.
  replace (i - k)%nat with (S (i - S k)) by lia. reflexivity.
Qed.

Lemma var_mass_combine (rs : Qruleset) sizes v :
  length (@groups QProb rs v) = length (nth v sizes []) ->
  var_mass rs sizes v
  == Qsum (map (fun ps => fst ps * Qn (snd ps)) (combine (@groups QProb rs v) (nth v sizes []))).
Proof.
  intros H. rewrite <- (var_mass_combine_aux _ _ 0%nat H).
  unfold var_mass. apply Qsum_map_ext. intros i. unfold gsize. simpl.
  rewrite Nat.sub_0_r. reflexivity.
Qed.

(* ------------------------------------------------------------------ *)
(* factorisation per base structure                                    *)
(* ------------------------------------------------------------------ *)

Section Sum.
Variable rs : Qruleset.
Variable sizes : list (list nat).

Notation dims vs := (map (fun v => length (@groups QProb rs v)) vs).

(* the sum over all index vectors of a product = product of the sums = 1 *)
Lemma vec_sum (d : Q) (vs : list var) :
  (forall v, In v vs -> var_mass rs sizes v == 1) ->
  Qsum (map (fun vec => gprod rs d (combine vs vec) * count_pt sizes (combine vs vec))
            (vectors (dims vs))) == 1.
Proof.
  induction vs as [|v vs IH]; intros Hv.
  - simpl. ring.
  - assert (IH' := IH (fun w Hw => Hv w (or_intror Hw))). clear IH.
    change (vectors (dims (v :: vs)))
      with (flat_map (fun i => map (cons i) (vectors (dims vs)))
                     (seq 0 (length (@groups QProb rs v)))).
    rewrite Qsum_flat_map.
    rewrite <- (Hv v (or_introl eq_refl)). unfold var_mass.
    apply Qsum_map_ext_in. intros i Hi. apply in_seq in Hi.
    rewrite map_map. simpl combine.
    transitivity (Qsum (map (fun w =>
        (nth i (@groups QProb rs v) 0 * Qn (gsize sizes (v, i))) *
        (gprod rs d (combine vs w) * count_pt sizes (combine vs w))) (vectors (dims vs)))).
    + apply Qsum_map_ext. intros w. simpl.
      replace (@gp QProb rs d (v, i)) with (nth i (@groups QProb rs v) 0).
      * change (P QProb) with Q. ring.
      * unfold gp. simpl. apply nth_indep. exact (proj2 Hi).
    + rewrite Qsum_scal, IH'. ring.
Qed.

Notation weight := (fun it : Qitem => iprob it * count_it sizes it).

Lemma QSum_base (k : nat) (b : Qbstruct) :
  (forall v, In v (brepl b) -> var_mass rs sizes v == 1) ->
  Qsum (map weight (@preterminals_of QProb rs (k, b))) == bprob b.
Proof.
  intros Hv. unfold preterminals_of. rewrite map_map. simpl.
  transitivity (Qsum (map (fun vec =>
      bprob b * (gprod rs (bprob b) (combine (brepl b) vec) *
                 count_pt sizes (combine (brepl b) vec)))
      (vectors (dims (brepl b))))).
  - apply Qsum_map_ext. intros vec. unfold count_it. simpl.
    rewrite find_prob_Q_factor. ring.
  - rewrite Qsum_scal, (vec_sum (bprob b) (brepl b) Hv). ring.
Qed.

(* selected base structures only: the variables of unselected structures
   (e.g. the Markov structure "M", whose mass is not enumerated) need not
   satisfy the hypothesis *)
Theorem QSum_sel (sel : nat * Qbstruct -> bool) :
  (forall kb, In kb (combine (seq 0 (length (bases rs))) (bases rs)) -> sel kb = true ->
     forall v, In v (brepl (snd kb)) -> var_mass rs sizes v == 1) ->
  Qsum (map weight
         (flat_map (@preterminals_of QProb rs)
                   (filter sel (combine (seq 0 (length (bases rs))) (bases rs)))))
  == Qsum (map (fun kb => bprob (snd kb))
               (filter sel (combine (seq 0 (length (bases rs))) (bases rs)))).
Proof.
  intros Hv. rewrite Qsum_flat_map. apply Qsum_map_ext_in.
  intros [k b] Hkb. apply filter_In in Hkb. destruct Hkb as [Hin Hs].
  apply QSum_base. intros v Hvb. apply (Hv (k, b)); auto.
Qed.

Section Whole.
Hypothesis Hvar : forall b, In b (bases rs) -> forall v, In v (brepl b) ->
                  var_mass rs sizes v == 1.

(* sub-distribution: the base probabilities sum to s *)
Theorem QSum_sub (s : Q) :
  Qsum (map (@bprob QProb) (bases rs)) == s ->
  Qsum (map weight (@all_preterminals QProb rs)) == s.
Proof.
  intros Hs. unfold all_preterminals.
  pose proof (QSum_sel (fun _ => true)) as H.
  rewrite filter_true in H. rewrite H.
  - rewrite <- Hs. rewrite <- (map_map snd (@bprob QProb)).
    rewrite map_snd_combine; [reflexivity|]. rewrite seq_length. reflexivity.
  - intros [k b] Hin _ v Hvb. apply (Hvar b); auto.
    apply in_combine_r in Hin. auto.
Qed.

Theorem QSum_one :
  Qsum (map (@bprob QProb) (bases rs)) == 1 ->
  Qsum (map weight (@all_preterminals QProb rs)) == 1.
Proof. apply QSum_sub. Qed.

(* the same for what a complete run of the algorithm emits *)
Theorem QSum_emitted (s : Q) pop :
  @wf QProb rs -> @pop_ok_okb QProb pop ->
  Qsum (map (@bprob QProb) (bases rs)) == s ->
  Qsum (map weight (emitted (@run QProb pop rs (@total QProb rs) (@start QProb rs)))) == s.
Proof.
  intros Hwf Hpop Hs.
  destruct (@C02_exactly_once_okb QProb rs Hwf pop Hpop) as [Hperm _].
  rewrite (Qsum_perm _ _ (Permutation_map weight Hperm)).
  apply QSum_sub; auto.
Qed.

End Whole.
End Sum.

(* a closed instance, evaluated: two structures over three variables *)
Example QSum_example :
  let rs : Qruleset :=
    @Build_ruleset QProb ([[1#2; 1#4]; [1#3]; [3#5; 1#5]] : list (list Q))
       [ @Build_bstruct QProb (3#4) [0%nat; 1%nat];
         @Build_bstruct QProb (1#4) [2%nat; 0%nat; 2%nat] ] in
  let sizes := [[1%nat; 2%nat]; [3%nat]; [1%nat; 2%nat]] in
  Qsum (map (fun it : Qitem => iprob it * count_it sizes it) (@all_preterminals QProb rs)) == 1.
Proof. vm_compute. reflexivity. Qed.

Print Assumptions vec_sum.
Print Assumptions QSum_base.
Print Assumptions QSum_sel.
Print Assumptions QSum_sub.
Print Assumptions QSum_one.
Print Assumptions QSum_emitted.
