(* Runtime of the generated OMEN generator code (gen/OmenGen_opt_gen.v,
   gen/OmenGen_gs_gen.v, gen/OmenGen_mc_gen.v, written on every run by
   harness/translate_omen_gen.py from the Python text of the classes Optimizer
   (lib_guesser/omen/optimizer.py), GuessStructure (guess_structure.py) and
   MarkovCracker (markov_cracker.py)).  The translator emits nothing but lets,
   ifs, matches on None / not None, monadic binds, calls of previously generated
   functions and the operations below, so that the generated text is a
   line-by-line image of the Python.  Definitions only; lemmas are in
   OmenGenRtProofs.v and the OmenGen*Proofs.v files.

   Conventions of the translation (see the translator's docstring):
   * Python ints are [Z]; strings are [ostr] (code points); an element of a
     grammar['cp'][p][l] list (a one-character string) is a code point [N].
   * A Python expression that can raise is a computation in the exception monad
     [res]: KeyError (dict subscript), IndexError (list subscript / pop),
     TypeError (subscript / len / iteration / arithmetic on None),
     PyException (`raise Exception`).  Slices never raise.
     `try: ... except KeyError: ...` is [catch KeyError].
   * `while` loops and the recursion of _fill_out_parse_tree get a fuel argument
     (no counterpart in Python); running out of fuel is the pseudo exception
     [OutOfFuel], which no handler catches.
   * Objects are records; a method is a function from the record(s) it may
     change to the new record(s), beside its value.  The Optimizer is shared
     by the MarkovCracker and every GuessStructure it creates (the translator
     checks that `optimizer = self.optimizer` is what is handed on), so it is
     threaded separately ([opt]) and never stored inside the other records.
   * A parse tree is a list of rows [ip, level, index]; rows are reachable
     through GuessStructure.parse_tree only (local names for
     `self.parse_tree[-1]` are resolved by the translator to that path; what is
     stored into / read from the Optimizer goes through custom_copy), so lists
     of rows have value semantics. *)
From Coq Require Import List Arith Bool NArith ZArith.
From Pcfg Require Import OmenSpec Omen.
From Pcfg Require OmenRt.
Import ListNotations.

(* ------------------------------------------------------------------ *)
(* exceptions                                                           *)

Inductive exn := KeyError | IndexError | TypeError | PyException | OutOfFuel.

Definition exn_eqb (a b : exn) : bool :=
  match a, b with
  | KeyError, KeyError | IndexError, IndexError | TypeError, TypeError
  | PyException, PyException | OutOfFuel, OutOfFuel => true
  | _, _ => false
  end.

Inductive res (X : Type) : Type :=
| Ok (x : X)
| Raise (e : exn).
Arguments Ok {X} x.
Arguments Raise {X} e.

Definition bind {X Y : Type} (r : res X) (f : X -> res Y) : res Y :=
  match r with
  | Ok x => f x
  | Raise e => Raise e
  end.

Notation "x <- e ;; k" := (bind e (fun x => k)) (at level 61, e at next level, right associativity).
Notation "' p <- e ;; k" := (bind e (fun p => k)) (at level 61, p pattern, e at next level, right associativity).

(* try: body  except e: handler   (both leave the function) *)
Definition catch {X : Type} (e : exn) (body handler : res X) : res X :=
  match body with
  | Ok x => Ok x
  | Raise e' => if exn_eqb e e' then handler else Raise e'
  end.

(* try: x = body  except e: handler (leaves the function) ; what follows is k x:
   only the evaluation of body is guarded *)
Definition mtry {X R : Type} (body : res X) (e : exn) (handler : res R) (k : X -> res R) : res R :=
  match body with
  | Ok x => k x
  | Raise e' => if exn_eqb e e' then handler else Raise e'
  end.

(* d[k] where the dict is modelled by a lookup: None = KeyError *)
Definition dict_get {X : Type} (o : option X) : res X :=
  match o with
  | Some x => Ok x
  | None => Raise KeyError
  end.

(* using a value that may be None where Python needs an object (subscript,
   len, attribute, iteration, arithmetic): None raises TypeError *)
Definition not_none {X : Type} (o : option X) : res X :=
  match o with
  | Some x => Ok x
  | None => Raise TypeError
  end.

Definition is_none {X : Type} (o : option X) : bool :=
  match o with Some _ => false | None => true end.

(* ------------------------------------------------------------------ *)
(* ints, sequences (Python index / slice semantics as in OmenRt.v)       *)

Definition zlen {X : Type} (l : list X) : Z := Z.of_nat (length l).

(* s[a:b]; None = bound left out *)
Definition pyslice {X : Type} (s : list X) (a b : option Z) : list X := OmenRt.pyslice s a b.

(* position meant by the index i in a sequence of length n; None = IndexError *)
Definition py_pos (n : nat) (i : Z) : option nat :=
  let j := if (i <? 0)%Z then (i + Z.of_nat n)%Z else i in
  if (j <? 0)%Z || (Z.of_nat n <=? j)%Z then None else Some (Z.to_nat j).

(* l[i] *)
Definition pyindex {X : Type} (l : list X) (i : Z) : res X :=
  match py_pos (length l) i with
  | Some j => match nth_error l j with Some x => Ok x | None => Raise IndexError end
  | None => Raise IndexError
  end.

Fixpoint set_nth {X : Type} (l : list X) (i : nat) (x : X) : list X :=
  match l, i with
  | [], _ => []
  | _ :: r, O => x :: r
  | y :: r, S j => y :: set_nth r j x
  end.

(* l[i] = x *)
Definition pysetindex {X : Type} (l : list X) (i : Z) (x : X) : res (list X) :=
  match py_pos (length l) i with
  | Some j => Ok (set_nth l j x)
  | None => Raise IndexError
  end.

(* enumerate(l) *)
Definition zenumerate {X : Type} (l : list X) : list (Z * X) := OmenRt.zenumerate l.

(* range(a, b) *)
Definition zrange (a b : Z) : list Z := OmenRt.zrange a b.

(* ------------------------------------------------------------------ *)
(* control flow                                                         *)

(* what one iteration of a loop body says: next iteration with the loop-carried
   variables s (also `continue`), `break` with s, or the enclosing block is left
   with r (`return`) *)
Inductive lctl (R St : Type) : Type :=
| Continue (s : St)
| Break (s : St)
| Return (r : R).
Arguments Continue {R St} s.
Arguments Break {R St} s.
Arguments Return {R St} r.

(* for x in l: body ; what follows the loop is k *)
Fixpoint mfor {X R St : Type} (l : list X) (body : X -> St -> res (lctl R St)) (s : St) (k : St -> res R) : res R :=
  match l with
  | [] => k s
  | x :: r =>
      match body x s with
      | Ok (Continue s') => mfor r body s' k
      | Ok (Break s') => k s'
      | Ok (Return v) => Ok v
      | Raise e => Raise e
      end
  end.

(* while cond: body   (the test may raise) *)
Fixpoint mwhile {R St : Type} (fuel : nat) (cond : St -> res bool) (body : St -> res (lctl R St)) (s : St)
         (k : St -> res R) : res R :=
  match fuel with
  | O => Raise OutOfFuel
  | S fuel' =>
      match cond s with
      | Ok true =>
          match body s with
          | Ok (Continue s') => mwhile fuel' cond body s' k
          | Ok (Break s') => k s'
          | Ok (Return v) => Ok v
          | Raise e => Raise e
          end
      | Ok false => k s
      | Raise e => Raise e
      end
  end.

(* a statement (an `if` containing return / continue / break on some paths)
   followed by more statements: the statement says Fall s (go on with the
   variables s) or Leave r (the enclosing block is left with r) *)
Inductive bctl (R St : Type) : Type :=
| Fall (s : St)
| Leave (r : R).
Arguments Fall {R St} s.
Arguments Leave {R St} r.

Definition mblock {R St : Type} (stmt : res (bctl R St)) (k : St -> res R) : res R :=
  match stmt with
  | Ok (Fall s) => k s
  | Ok (Leave v) => Ok v
  | Raise e => Raise e
  end.

(* ------------------------------------------------------------------ *)
(* Python dicts: association lists in insertion order                    *)

Definition dfind {K V : Type} (eqb : K -> K -> bool) (k : K) (d : list (K * V)) : option V := OmenRt.dfind eqb k d.
Definition dmem {K V : Type} (eqb : K -> K -> bool) (k : K) (d : list (K * V)) : bool := OmenRt.dmem eqb k d.
(* d[k] = v : in place when the key exists, else appended *)
Definition dset {K V : Type} (eqb : K -> K -> bool) (k : K) (v : V) (d : list (K * V)) : list (K * V) :=
  OmenRt.dset eqb k v d.

(* ------------------------------------------------------------------ *)
(* parse trees                                                          *)

(* a row [ip, level, index] *)
Definition pyrow := (ostr * Z * Z)%type.
Definition pytree := list pyrow.

Definition row_ip (r : pyrow) : ostr := fst (fst r).        (* r[0] *)
Definition row_lvl (r : pyrow) : Z := snd (fst r).          (* r[1] *)
Definition row_idx (r : pyrow) : Z := snd r.                (* r[2] *)
Definition row_set_lvl (r : pyrow) (v : Z) : pyrow := (row_ip r, v, row_idx r).   (* r[1] = v *)
Definition row_set_idx (r : pyrow) (v : Z) : pyrow := (row_ip r, row_lvl r, v).   (* r[2] = v *)

(* truth value of a list-or-None: None and [] are false *)
Definition truthy {X : Type} (o : option (list X)) : bool :=
  match o with
  | Some (_ :: _) => true
  | _ => false
  end.

(* truth value of True / False / None *)
Definition btruthy (o : option bool) : bool :=
  match o with
  | Some true => true
  | _ => false
  end.

(* GuessStructure.parse_tree is a list of rows or None (after a first guess
   that found nothing).  self.parse_tree[-1] *)
Definition pt_last (o : option pytree) : res pyrow :=
  t <- not_none o ;; pyindex t (-1)%Z.

(* a store into a field of self.parse_tree[-1]: the row is replaced by the
   updated row (rows are reachable through the parse tree only) *)
Definition pt_set_last (o : option pytree) (r : pyrow) : res (option pytree) :=
  t <- not_none o ;; t' <- pysetindex t (-1)%Z r ;; Ok (Some t').

(* self.parse_tree.pop() -> (the row, the shorter list) *)
Definition pt_pop (o : option pytree) : res (pyrow * option pytree) :=
  t <- not_none o ;;
  match t with
  | [] => Raise IndexError
  | _ => Ok (last t ([], 0%Z, 0%Z), Some (removelast t))
  end.

(* self.parse_tree += new *)
Definition pt_extend (o : option pytree) (new : pytree) : res (option pytree) :=
  t <- not_none o ;; Ok (Some (t ++ new)).

(* ------------------------------------------------------------------ *)
(* the tables of the loaded grammar                                     *)

(* grammar['ip'] / grammar['ln']: a dict whose keys are exactly 0..max (the
   loader creates every level), read as (max, level |-> list) *)
Definition pytbl (X : Type) := (Z * (nat -> list X))%type.

Definition tbl_get {X : Type} (t : pytbl X) (l : Z) : res (list X) :=
  if (0 <=? l)%Z && (l <=? fst t)%Z then Ok (snd t (Z.to_nat l)) else Raise KeyError.

(* grammar['cp']: prefix -> (level -> characters), nested dicts in insertion
   order; this is the model's own indexed table [cp_index] (Omen.v) *)
Definition pycp := cp_index.

(* p in self.cp *)
Definition cp_mem1 (cp : pycp) (p : ostr) : bool := dmem ostr_eqb p cp.
(* self.cp[p] *)
Definition cp_get1 (cp : pycp) (p : ostr) : res (list (nat * list N)) := dict_get (dfind ostr_eqb p cp).
Definition lvl_find (m : list (nat * list N)) (l : Z) : option (list N) :=
  if (l <? 0)%Z then None else dfind Nat.eqb (Z.to_nat l) m.
(* l in self.cp[p] *)
Definition cp_mem2 (cp : pycp) (p : ostr) (l : Z) : res bool :=
  m <- cp_get1 cp p ;; Ok (negb (is_none (lvl_find m l))).
(* self.cp[p][l] *)
Definition cp_get2 (cp : pycp) (p : ostr) (l : Z) : res (list N) :=
  m <- cp_get1 cp p ;; dict_get (lvl_find m l).

Record pygrammar := mk_pygrammar {
  g_ngram : Z;                 (* grammar['ngram'] *)
  g_max_level : Z;             (* grammar['max_level'] *)
  g_ip : pytbl ostr;           (* grammar['ip'] *)
  g_ln : pytbl Z;              (* grammar['ln'] *)
  g_cp : pycp                  (* grammar['cp'] *)
}.

(* ------------------------------------------------------------------ *)
(* Optimizer                                                            *)

(* tmto_lookup: a list indexed by the length of dicts ip_ngram -> (target_level -> value),
   a value being None or a (copied) parse tree *)
Definition pytm2 := list (Z * option pytree).
Definition pytm1 := list (ostr * pytm2).
Definition pytmto := list pytm1.

Record pyopt := mk_pyopt {
  o_max_length : Z;            (* Optimizer.max_length *)
  o_tmto_lookup : pytmto              (* Optimizer.tmto_lookup *)
}.
Definition set_o_max_length (o : pyopt) (v : Z) : pyopt := mk_pyopt v (o_tmto_lookup o).
Definition set_o_tmto_lookup (o : pyopt) (v : pytmto) : pyopt := mk_pyopt (o_max_length o) v.
Definition pyopt_blank : pyopt := mk_pyopt 0%Z [].

(* self.tmto_lookup[len] , ...[len][ip] , ...[len][ip][lvl] *)
Definition tm_get1 (tm : pytmto) (len : Z) : res pytm1 := pyindex tm len.
Definition tm_get2 (tm : pytmto) (len : Z) (ip : ostr) : res pytm2 :=
  d <- tm_get1 tm len ;; dict_get (dfind ostr_eqb ip d).
Definition tm_get3 (tm : pytmto) (len : Z) (ip : ostr) (lvl : Z) : res (option pytree) :=
  d <- tm_get2 tm len ip ;; dict_get (dfind Z.eqb lvl d).

(* ip in self.tmto_lookup[len] , lvl in self.tmto_lookup[len][ip] *)
Definition tm_mem2 (tm : pytmto) (len : Z) (ip : ostr) : res bool :=
  d <- tm_get1 tm len ;; Ok (dmem ostr_eqb ip d).
Definition tm_mem3 (tm : pytmto) (len : Z) (ip : ostr) (lvl : Z) : res bool :=
  d <- tm_get2 tm len ip ;; Ok (dmem Z.eqb lvl d).

(* the stores.  A store into a nested container reads the containers on the way
   (IndexError / KeyError when one is missing) and rebuilds them: a container is
   only ever created where missing (`if k not in P: P[k] = {}`, enforced by the
   translator) or appended to the list, never replaced, so the functional
   update is the mutation *)
Definition tm_set2 (tm : pytmto) (len : Z) (ip : ostr) (v : pytm2) : res pytmto :=
  d <- tm_get1 tm len ;; pysetindex tm len (dset ostr_eqb ip v d).
Definition tm_set3 (tm : pytmto) (len : Z) (ip : ostr) (lvl : Z) (v : option pytree) : res pytmto :=
  d1 <- tm_get1 tm len ;;
  d2 <- dict_get (dfind ostr_eqb ip d1) ;;
  pysetindex tm len (dset ostr_eqb ip (dset Z.eqb lvl v d2) d1).

(* self.tmto_lookup[len].setdefault(ip, {}) : the inner dict is created where missing *)
Definition tm_setdefault2 (tm : pytmto) (len : Z) (ip : ostr) : res pytmto :=
  d <- tm_get1 tm len ;;
  if dmem ostr_eqb ip d then Ok tm else pysetindex tm len (dset ostr_eqb ip [] d).

(* [x[:] for x in l] : a new list of new rows; value semantics make it the
   identity on the rows (iterating over None raises) *)
Definition copy_rows (o : option pytree) : res pytree := not_none o.

(* ------------------------------------------------------------------ *)
(* GuessStructure                                                       *)

Record pygs := mk_pygs {
  gs_first_guess : bool;
  gs_cp : pycp;
  gs_max_level : Z;
  gs_ip : ostr;
  gs_ip_length : Z;
  gs_cp_length : Z;
  gs_target_level : Z;
  gs_parse_tree : option pytree
}.
Definition set_gs_first_guess (g : pygs) (v : bool) : pygs :=
  mk_pygs v (gs_cp g) (gs_max_level g) (gs_ip g) (gs_ip_length g) (gs_cp_length g) (gs_target_level g) (gs_parse_tree g).
Definition set_gs_cp (g : pygs) (v : pycp) : pygs :=
  mk_pygs (gs_first_guess g) v (gs_max_level g) (gs_ip g) (gs_ip_length g) (gs_cp_length g) (gs_target_level g) (gs_parse_tree g).
Definition set_gs_max_level (g : pygs) (v : Z) : pygs :=
  mk_pygs (gs_first_guess g) (gs_cp g) v (gs_ip g) (gs_ip_length g) (gs_cp_length g) (gs_target_level g) (gs_parse_tree g).
Definition set_gs_ip (g : pygs) (v : ostr) : pygs :=
  mk_pygs (gs_first_guess g) (gs_cp g) (gs_max_level g) v (gs_ip_length g) (gs_cp_length g) (gs_target_level g) (gs_parse_tree g).
Definition set_gs_ip_length (g : pygs) (v : Z) : pygs :=
  mk_pygs (gs_first_guess g) (gs_cp g) (gs_max_level g) (gs_ip g) v (gs_cp_length g) (gs_target_level g) (gs_parse_tree g).
Definition set_gs_cp_length (g : pygs) (v : Z) : pygs :=
  mk_pygs (gs_first_guess g) (gs_cp g) (gs_max_level g) (gs_ip g) (gs_ip_length g) v (gs_target_level g) (gs_parse_tree g).
Definition set_gs_target_level (g : pygs) (v : Z) : pygs :=
  mk_pygs (gs_first_guess g) (gs_cp g) (gs_max_level g) (gs_ip g) (gs_ip_length g) (gs_cp_length g) v (gs_parse_tree g).
Definition set_gs_parse_tree (g : pygs) (v : option pytree) : pygs :=
  mk_pygs (gs_first_guess g) (gs_cp g) (gs_max_level g) (gs_ip g) (gs_ip_length g) (gs_cp_length g) (gs_target_level g) v.
(* the object before __init__ has run; the translator checks that no attribute is
   read before __init__ has stored it, so these values are never observed *)
Definition pygs_blank : pygs := mk_pygs false [] 0%Z [] 0%Z 0%Z 0%Z None.

(* ------------------------------------------------------------------ *)
(* MarkovCracker                                                        *)

(* cur_len / cur_ip: None or a two-element list [level, index] *)
Definition pycursor := option (Z * Z).
(* c[i] *)
Definition cur_get (c : pycursor) (i : Z) : res Z :=
  p <- not_none c ;; pyindex [fst p; snd p] i.

Record pymc := mk_pymc {
  m_grammar : pygrammar;
  m_max_level : Z;
  m_length_ip : Z;
  m_start_ip : Z;
  m_start_length : Z;
  m_target_level : Z;
  m_cur_len : pycursor;
  m_cur_ip : pycursor;
  m_cur_guess : option pygs
}.
Definition set_m_grammar (m : pymc) (v : pygrammar) : pymc :=
  mk_pymc v (m_max_level m) (m_length_ip m) (m_start_ip m) (m_start_length m) (m_target_level m) (m_cur_len m) (m_cur_ip m) (m_cur_guess m).
Definition set_m_max_level (m : pymc) (v : Z) : pymc :=
  mk_pymc (m_grammar m) v (m_length_ip m) (m_start_ip m) (m_start_length m) (m_target_level m) (m_cur_len m) (m_cur_ip m) (m_cur_guess m).
Definition set_m_length_ip (m : pymc) (v : Z) : pymc :=
  mk_pymc (m_grammar m) (m_max_level m) v (m_start_ip m) (m_start_length m) (m_target_level m) (m_cur_len m) (m_cur_ip m) (m_cur_guess m).
Definition set_m_start_ip (m : pymc) (v : Z) : pymc :=
  mk_pymc (m_grammar m) (m_max_level m) (m_length_ip m) v (m_start_length m) (m_target_level m) (m_cur_len m) (m_cur_ip m) (m_cur_guess m).
Definition set_m_start_length (m : pymc) (v : Z) : pymc :=
  mk_pymc (m_grammar m) (m_max_level m) (m_length_ip m) (m_start_ip m) v (m_target_level m) (m_cur_len m) (m_cur_ip m) (m_cur_guess m).
Definition set_m_target_level (m : pymc) (v : Z) : pymc :=
  mk_pymc (m_grammar m) (m_max_level m) (m_length_ip m) (m_start_ip m) (m_start_length m) v (m_cur_len m) (m_cur_ip m) (m_cur_guess m).
Definition set_m_cur_len (m : pymc) (v : pycursor) : pymc :=
  mk_pymc (m_grammar m) (m_max_level m) (m_length_ip m) (m_start_ip m) (m_start_length m) (m_target_level m) v (m_cur_ip m) (m_cur_guess m).
Definition set_m_cur_ip (m : pymc) (v : pycursor) : pymc :=
  mk_pymc (m_grammar m) (m_max_level m) (m_length_ip m) (m_start_ip m) (m_start_length m) (m_target_level m) (m_cur_len m) v (m_cur_guess m).
Definition set_m_cur_guess (m : pymc) (v : option pygs) : pymc :=
  mk_pymc (m_grammar m) (m_max_level m) (m_length_ip m) (m_start_ip m) (m_start_length m) (m_target_level m) (m_cur_len m) (m_cur_ip m) v.
Definition pymc_blank : pymc :=
  mk_pymc (mk_pygrammar 0%Z 0%Z (0%Z, fun _ => []) (0%Z, fun _ => []) []) 0%Z 0%Z 0%Z 0%Z 0%Z None None None.

(* ------------------------------------------------------------------ *)
(* how the model's values appear in Python                              *)

Definition row_py (r : row) : pyrow := (row_prefix r, Z.of_nat (row_level r), Z.of_nat (row_index r)).
Definition tree_py (t : tree) : pytree := map row_py t.
Definition otree_py (o : option tree) : option pytree := option_map tree_py o.
Definition cursor_py (c : nat * nat) : Z * Z := (Z.of_nat (fst c), Z.of_nat (snd c)).
