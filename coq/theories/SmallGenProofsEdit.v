(* The generated filter passes of edit_rules.py (gen/Small_edit_gen.v: the
   translation of the Python text of check_regex, edit_terminal_set, edit_length
   and of the run of passes in edit_rules, redone on every run) equal the
   hand-written model of EditRules.v that the theorems of C20 are about.

   The Python functions work on the TEXT of Grammar/grammar.txt, the model on the
   list of its lines (structure, probability text).  The equalities are stated
   on [render ls], the text of a list of lines as the trainer writes them
   (structure TAB probability LF), for every list of lines without TAB / LF
   inside the two fields and with a probability text that str.strip() leaves
   alone ([line_ok]); for every regex oracle, every isspace predicate and every
   choice of the "undefined" value of a subscript that raises in Python.

   These proofs are meant to break when one of the Python functions changes its
   meaning: the body lemmas compare the translated loop bodies with the model's
   per-line functions, test by test. *)
From Coq Require Import List Arith NArith Bool Lia.
From Pcfg Require Import KernelRt SmallRt SmallGenProofs EditRules.
From PcfgGen Require Import Small_edit_gen.
Import ListNotations.

Definition LF : N := 10%N.
Definition render_line (l : gline) : str := whole l ++ [LF].
Definition render (ls : list gline) : str := flat_map render_line ls.

(* ---------------------------------------------------------------- split *)
Lemma split_on_notin (c : N) (a : str) : ~ In c a -> split_on c a = [a].
Proof.
  induction a as [|x r IH]; intros H; simpl; [reflexivity|].
  destruct (N.eqb x c) eqn:E; [apply N.eqb_eq in E; subst; exfalso; apply H; now left|].
  rewrite IH; [reflexivity|]. intros Hc. apply H. now right.
Qed.

Lemma split_on_app (c : N) (a b : str) : ~ In c a -> split_on c (a ++ c :: b) = a :: split_on c b.
Proof.
  induction a as [|x r IH]; intros H; simpl.
  - now rewrite N.eqb_refl.
  - destruct (N.eqb x c) eqn:E; [apply N.eqb_eq in E; subst; exfalso; apply H; now left|].
    rewrite IH; [reflexivity|]. intros Hc. apply H. now right.
Qed.

Lemma split_render (ls : list gline) :
  Forall (fun l => ~ In LF (whole l)) ls -> split_on LF (render ls) = map whole ls ++ [[]].
Proof.
  induction 1 as [|l r Hl Hr IH]; simpl; [reflexivity|].
  unfold render_line at 1. rewrite <- app_assoc. simpl.
  rewrite split_on_app by exact Hl. now rewrite IH.
Qed.

(* ---------------------------------------------------------------- lines *)
Section Lines.
Context (isspace : N -> bool).

(* a line as the trainer writes it and the reader splits it *)
Definition line_ok (l : gline) : Prop :=
  ~ In TAB (gstruct l) /\ ~ In LF (gstruct l) /\ ~ In TAB (gprob l) /\ ~ In LF (gprob l) /\
  strip isspace (gprob l) = gprob l.

Lemma line_ok_no_lf l : line_ok l -> ~ In LF (whole l).
Proof.
  intros (_ & H2 & _ & H4 & _) H. unfold whole in H. apply in_app_or in H. destruct H as [H|H]; [auto|].
  simpl in H. destruct H as [H|H]; [discriminate|auto].
Qed.

Lemma line_ok_fields (d : str) l : line_ok l ->
  nonempty (whole l) = true /\
  sub d (split_on 9 (whole l)) 0 = gstruct l /\
  strip isspace (sub d (split_on 9 (whole l)) 1) = gprob l.
Proof.
  intros (H1 & _ & H3 & _ & H5). unfold whole. simpl app.
  change 9%N with TAB. rewrite split_on_app by exact H1. rewrite split_on_notin by exact H3.
  split; [destruct (gstruct l); reflexivity|]. split; [reflexivity|exact H5].
Qed.

End Lines.

(* ---------------------------------------------------------------- tokens *)
Lemma take_digits_digits : forall k s d rest, take_digits k s = (d, rest) -> Forall (fun c => is_digit c = true) d.
Proof.
  induction k as [|k IH]; intros s d rest H; simpl in H.
  - inversion H. constructor.
  - destruct s as [|c r]; [inversion H; constructor|].
    destruct (is_digit c) eqn:E; [|inversion H; constructor].
    destruct (take_digits k r) as [d' rest'] eqn:Et. inversion H; subst.
    constructor; [exact E|]. eapply IH. exact Et.
Qed.

Lemma tokens_fuel_shape : forall f s t, In t (tokens_fuel f s) ->
  exists c d, t = c :: d /\ is_upper c = true /\ Forall (fun x => is_digit x = true) d.
Proof.
  induction f as [|f IH]; intros s t H; [contradiction|].
  destruct s as [|c r]; [contradiction|].
  cbn -[take_digits] in H.
  destruct (is_upper c) eqn:E.
  - destruct (take_digits 3 r) as [d rest] eqn:Et. destruct H as [<-|H].
    + exists c, d. split; [reflexivity|]. split; [exact E|]. eapply take_digits_digits. exact Et.
    + eapply IH. exact H.
  - eapply IH. exact H.
Qed.

Lemma tokens_shape s t : In t (tokens s) ->
  exists c d, t = c :: d /\ is_upper c = true /\ Forall (fun x => is_digit x = true) d.
Proof. apply tokens_fuel_shape. Qed.

Lemma concat_tokens_clean s (c : N) :
  is_upper c = false -> is_digit c = false -> ~ In c (concat (tokens s)).
Proof.
  intros Hu Hd H. apply in_concat in H. destruct H as (t & Ht & Hc).
  destruct (tokens_shape s t Ht) as (c0 & d & -> & Hc0 & Hdd).
  destruct Hc as [<-|Hc]; [congruence|].
  rewrite Forall_forall in Hdd. specialize (Hdd c Hc). congruence.
Qed.

(* ---------------------------------------------------------------- the loop over the lines *)
Section LinesLoop.
Context {R : Type}.

(* what one line does to the text built so far: nothing, one more line, or the
   function raises; the last, empty field of the split does nothing *)
Lemma lines_loop (fin : str -> R) (err : R) (out : gline -> res (option gline)) (ls : list gline) :
  forall i (body : str -> str -> ctl3 R str) acc kbrk,
  (forall l acc, In l ls ->
     body (whole l) acc = match out l with
                          | Ok (Some l') => Cont (acc ++ render_line l')
                          | Ok None => Cont acc
                          | Raise => Ret err
                          end) ->
  (forall acc, body [] acc = Cont acc) ->
  loop_from i (map whole ls ++ [[]]) (fun _ => body) acc fin kbrk =
  match map_res out ls with Ok ls' => fin (acc ++ render ls') | Raise => err end.
Proof.
  induction ls as [|l r IH]; intros i body acc kbrk H H0; simpl.
  - rewrite H0. now rewrite app_nil_r.
  - rewrite (H l acc (or_introl eq_refl)).
    assert (Hr : forall l0 acc0, In l0 r -> body (whole l0) acc0 =
              match out l0 with Ok (Some l') => Cont (acc0 ++ render_line l') | Ok None => Cont acc0 | Raise => Ret err end)
      by (intros l0 acc0 Hin; apply H; now right).
    destruct (out l) as [[l'|]|].
    + rewrite (IH (S i) body _ kbrk Hr H0). destruct (map_res out r); [|reflexivity].
      simpl. now rewrite app_assoc.
    + rewrite (IH (S i) body _ kbrk Hr H0). destruct (map_res out r); reflexivity.
    + reflexivity.
Qed.

End LinesLoop.

Lemma map_res_total {X Y} (f : X -> option Y) (l : list X) :
  map_res (fun x => Ok (f x)) l = Ok (flat_map (fun x => match f x with Some y => [y] | None => [] end) l).
Proof.
  induction l as [|x r IH]; simpl; [reflexivity|]. rewrite IH. destruct (f x); reflexivity.
Qed.

(* ---------------------------------------------------------------- label arithmetic *)
Lemma s_eqb_single (c k : N) : s_eqb [c] [k] = N.eqb c k.
Proof. unfold s_eqb. simpl. now rewrite andb_true_r. Qed.

(* the inner loop of edit_length: sum of the label lengths, ValueError of int('') *)
Lemma total_loop {R : Type} (err : R) (ts : list str) :
  forall i (body : str -> nat -> ctl3 R nat) acc kelse kbrk,
  (forall t acc, In t ts -> body t acc = match label_len t with Some a => Cont (acc + a) | None => Ret err end) ->
  loop_from i ts (fun _ => body) acc kelse kbrk =
  match total_len ts with Some n => kelse (acc + n) | None => err end.
Proof.
  induction ts as [|t r IH]; intros i body acc kelse kbrk H; simpl.
  - now rewrite Nat.add_0_r.
  - rewrite (H t acc (or_introl eq_refl)).
    assert (Hr : forall t0 acc0, In t0 r -> body t0 acc0 =
              match label_len t0 with Some a => Cont (acc0 + a) | None => Ret err end)
      by (intros t0 acc0 Hin; apply H; now right).
    destruct (label_len t) as [a|].
    + rewrite (IH (S i) body _ kelse kbrk Hr). destruct (total_len r); [|reflexivity].
      now rewrite Nat.add_assoc.
    + destruct (total_len r); reflexivity.
Qed.

Lemma flat_map_filter {X} (f : X -> bool) (l : list X) :
  flat_map (fun x => match (if f x then Some x else None) with Some y => [y] | None => [] end) l = filter f l.
Proof. induction l as [|x r IH]; simpl; [reflexivity|]. rewrite IH. destruct (f x); reflexivity. Qed.

(* the inner loop of check_regex: stop at the first regex that does not match *)
Lemma regex_loop {R : Type} (re_search : str -> str -> bool) (s : str) (rs : list str) :
  forall i (body : str -> bool -> ctl3 R bool) stop0 kelse kbrk,
  (forall r stop, body r stop = if re_search r s then Cont stop else Brk true) ->
  loop_from i rs (fun _ => body) stop0 kelse kbrk =
  if forallb (fun r => re_search r s) rs then kelse stop0 else kbrk true.
Proof.
  induction rs as [|r rr IH]; intros i body stop0 kelse kbrk H; simpl; [reflexivity|].
  rewrite H. destruct (re_search r s); simpl; [now apply IH|reflexivity].
Qed.

Lemma existsb_ext' {X} (f g : X -> bool) (l : list X) : (forall x, f x = g x) -> existsb f l = existsb g l.
Proof. intros H. induction l as [|x r IH]; simpl; [reflexivity|]. now rewrite H, IH. Qed.

(* x[0] in terminal_set, for a one-letter x[0]: the model's membership test *)
Lemma s_in_single (c : N) (set : list str) :
  s_in [c] set = existsb (fun s => match s with [x] => N.eqb x c | _ => false end) set.
Proof.
  unfold s_in. apply existsb_ext'. intros [|x [|y s']]; try reflexivity.
  - rewrite s_eqb_single. apply N.eqb_sym.
  - unfold s_eqb. simpl. now rewrite andb_false_r.
Qed.

(* the inner loop of edit_terminal_set: a label whose letter is not in the set *)
Lemma skip_fold (ud : str) (set : list str) (ts : list str) :
  Forall (fun t => t <> []) ts -> forall acc,
  fold_left (fun skip x => if negb (s_in (char0 ud x) set) then true else skip) ts acc
  = acc || negb (set_keeps set ts).
Proof.
  induction 1 as [|t r Ht Hr IH]; intros acc; simpl; [now rewrite orb_false_r|].
  rewrite IH. destruct t as [|c d]; [contradiction|]. simpl char0. rewrite s_in_single.
  destruct (existsb (fun s => match s with [x] => N.eqb x c | _ => false end) set); simpl.
  - reflexivity.
  - now rewrite orb_true_r.
Qed.

(* the same test written all(x[0] in terminal_set for x in line) *)
Lemma forallb_set_keeps (ud : str) (set : list str) (ts : list str) :
  Forall (fun t => t <> []) ts -> forallb (fun x => s_in (char0 ud x) set) ts = set_keeps set ts.
Proof.
  induction 1 as [|t r Ht Hr IH]; [reflexivity|]. cbn [forallb set_keeps]. fold (set_keeps set r). rewrite IH.
  destruct t as [|c d]; [contradiction|]. cbn [char0]. now rewrite s_in_single.
Qed.

Lemma tokens_nonempty s : Forall (fun t => t <> []) (tokens s).
Proof.
  apply Forall_forall. intros t Ht. destruct (tokens_shape s t Ht) as (c & d & -> & _). discriminate.
Qed.

Section EditEq.
Context (re_search : str -> str -> bool) (isspace : N -> bool).
(* the undefined value of a subscript that raises: arbitrary *)
Context (ud : str).

Notation py_check_regex := (py_check_regex re_search isspace ud).
Notation py_edit_terminal_set := (py_edit_terminal_set re_search isspace ud).
Notation py_edit_length := (py_edit_length re_search isspace ud).
Notation py_edit_passes := (py_edit_passes re_search isspace ud).
Notation line_ok := (line_ok isspace).

Lemma Forall_no_lf ls : Forall line_ok ls -> Forall (fun l => ~ In LF (whole l)) ls.
Proof. intros H. eapply Forall_impl; [|exact H]. intros l. apply line_ok_no_lf. Qed.

(* The per-line steps below do not follow one fixed generated text: a loop with a flag and the all(...)
   spelling of the same test are both rewritten to the model's test, the letter tests are decided by case
   analysis on the letter, the keep-conditions by case analysis on the four comparisons, and the text
   that is appended is compared modulo associativity of ++ (concatenation with + and f-strings). *)
Ltac line_text_tac :=
  unfold render_line, whole; cbn [gstruct gprob]; change [9%N] with [TAB]; change [10%N] with [LF];
  rewrite <- ?app_assoc; reflexivity.

(* ---- check_regex ---- *)
Theorem small_check_regex_eq (rs : list str) (ls : list gline) :
  Forall line_ok ls ->
  py_check_regex (render ls) rs = render (filter (regex_keeps re_search rs) ls).
Proof.
  intros Hok. unfold Small_edit_gen.py_check_regex. cbv zeta.
  change 10%N with LF. rewrite (split_render ls (Forall_no_lf ls Hok)).
  unfold for_each at 1.
  rewrite (lines_loop _ (@nil N) (fun l => Ok (if regex_keeps re_search rs l then Some l else None))).
  - rewrite map_res_total, flat_map_filter. reflexivity.
  - intros l acc Hin. rewrite Forall_forall in Hok.
    destruct (line_ok_fields isspace ud l (Hok l Hin)) as (Hne & Hs & Hp).
    rewrite Hne, Hs. cbn [negb]. cbv iota.
    try (unfold for_each; rewrite (regex_loop re_search (gstruct l) rs) by reflexivity).
    unfold regex_keeps. destruct (forallb (fun r => re_search r (gstruct l)) rs); cbn [negb]; cbv beta iota.
    + line_text_tac.
    + reflexivity.
  - intros acc. reflexivity.
Qed.

(* ---- edit_terminal_set ---- *)
Theorem small_edit_terminal_set_eq (set : list str) (ls : list gline) :
  Forall line_ok ls ->
  py_edit_terminal_set (render ls) set = render (opt_filter (edit_set_line set) ls).
Proof.
  intros Hok. unfold Small_edit_gen.py_edit_terminal_set. cbv zeta.
  change 10%N with LF. rewrite (split_render ls (Forall_no_lf ls Hok)).
  unfold for_each at 1.
  rewrite (lines_loop _ (@nil N) (fun l => Ok (edit_set_line set l))).
  - rewrite map_res_total. reflexivity.
  - intros l acc Hin. rewrite Forall_forall in Hok.
    destruct (line_ok_fields isspace ud l (Hok l Hin)) as (Hne & Hs & Hp).
    rewrite Hne, Hp. cbn [negb]. cbv iota. unfold edit_set_line.
    pose proof (tokens_nonempty (whole l)) as Hts.
    destruct (tokens (whole l)) as [|t ts] eqn:Et; [reflexivity|].
    cbn [nonempty negb]. cbv iota.
    first
      [ rewrite (for_each_fold (t :: ts) _
                   (fun skip x => if negb (s_in (char0 ud x) set) then true else skip))
          by (intros x s _; destruct (negb (s_in (char0 ud x) set)); reflexivity);
        rewrite (skip_fold ud set (t :: ts) Hts), orb_false_l, negb_involutive
      | rewrite (forallb_set_keeps ud set (t :: ts) Hts) ].
    destruct (set_keeps set (t :: ts)); [|reflexivity]. cbv beta iota. line_text_tac.
  - intros acc. reflexivity.
Qed.

(* ---- edit_length ---- *)
Theorem small_edit_length_eq (mn mx : nat) (ls : list gline) :
  Forall line_ok ls ->
  py_edit_length (render ls) mn mx =
  match map_res (edit_length_line mn mx) ls with Ok ls' => Ok (render ls') | Raise => Raise end.
Proof.
  intros Hok. unfold Small_edit_gen.py_edit_length. cbv zeta.
  change 10%N with LF. rewrite (split_render ls (Forall_no_lf ls Hok)).
  unfold for_each at 1.
  rewrite (lines_loop _ Raise (edit_length_line mn mx)).
  - destruct (map_res (edit_length_line mn mx) ls); reflexivity.
  - intros l acc Hin. rewrite Forall_forall in Hok.
    destruct (line_ok_fields isspace ud l (Hok l Hin)) as (Hne & Hs & Hp).
    rewrite Hne, Hp. cbn [negb]. cbv iota. unfold edit_length_line.
    pose proof (tokens_nonempty (whole l)) as Hts.
    destruct (tokens (whole l)) as [|t ts] eqn:Et; [reflexivity|].
    cbn [nonempty negb]. cbv iota.
    unfold for_each.
    rewrite (total_loop (Ret Raise) (t :: ts)).
    + destruct (total_len (t :: ts)) as [n|]; [|reflexivity].
      rewrite Nat.add_0_l. unfold length_keeps.
      (* the keep-condition, however it is spelled: decide the four comparisons *)
      destruct (Nat.eqb n 0), (Nat.leb n mx), (Nat.leb mn n), (Nat.eqb mx 0); cbn [andb orb]; cbv iota;
        first [reflexivity | line_text_tac].
    + intros x a Hx. rewrite Forall_forall in Hts. specialize (Hts x Hx).
      destruct x as [|c d]; [contradiction|].
      cbn [char0 skipn s_in existsb]. rewrite ?s_eqb_single. unfold label_len.
      (* the letter tests, in whatever order and grouping: decide the letter *)
      repeat match goal with
             | |- context [N.eqb c ?k] => destruct (N.eqb_spec c k); [subst c|]
             end;
        cbv [N.eqb Pos.eqb orb andb]; rewrite ?Nat.add_0_r;
        first [reflexivity | destruct (int_of d); reflexivity].
  - intros acc. reflexivity.
Qed.

(* ---- the passes keep the lines well-shaped ---- *)
Lemma rewritten_line_ok (l : gline) : line_ok l ->
  line_ok {| gstruct := concat (tokens (whole l)); gprob := gprob l |}.
Proof.
  intros (_ & _ & H3 & H4 & H5). unfold SmallGenProofsEdit.line_ok. cbn [gstruct gprob].
  repeat split; try assumption; apply concat_tokens_clean; reflexivity.
Qed.

Lemma edit_length_line_ok mn mx l l' : line_ok l -> edit_length_line mn mx l = Ok (Some l') -> line_ok l'.
Proof.
  intros Hl. unfold edit_length_line.
  pose proof (rewritten_line_ok l Hl) as Hr.
  destruct (tokens (whole l)) as [|t ts]; [discriminate|].
  destruct (total_len (t :: ts)) as [n|]; [|discriminate].
  destruct (length_keeps mn mx n); [|discriminate]. intros H. inversion H; subst. exact Hr.
Qed.

Lemma edit_set_line_ok set l l' : line_ok l -> edit_set_line set l = Some l' -> line_ok l'.
Proof.
  intros Hl. unfold edit_set_line.
  pose proof (rewritten_line_ok l Hl) as Hr.
  destruct (tokens (whole l)) as [|t ts]; [discriminate|].
  destruct (set_keeps set (t :: ts)); [|discriminate]. intros H. inversion H; subst. exact Hr.
Qed.

Lemma map_res_Forall {X Y} (P : X -> Prop) (Q : Y -> Prop) (f : X -> res (option Y)) :
  (forall x y, P x -> f x = Ok (Some y) -> Q y) ->
  forall l l', Forall P l -> map_res f l = Ok l' -> Forall Q l'.
Proof.
  intros Hf. induction l as [|x r IH]; intros l' Hl H; simpl in H.
  - inversion H. constructor.
  - inversion Hl as [|? ? Hx Hr]; subst.
    destruct (f x) as [[y|]|] eqn:Ef; [| |discriminate];
      destruct (map_res f r) as [ys|] eqn:Er; try discriminate; inversion H; subst.
    + constructor; [eapply Hf; eassumption|now apply IH].
    + now apply IH.
Qed.

Lemma opt_filter_Forall {X} (P : X -> Prop) (f : X -> option X) :
  (forall x y, P x -> f x = Some y -> P y) -> forall l, Forall P l -> Forall P (opt_filter f l).
Proof.
  intros Hf. induction 1 as [|x r Hx Hr IH]; simpl; [constructor|].
  destruct (f x) as [y|] eqn:Ef; simpl; [constructor; [eapply Hf; eassumption|exact IH]|exact IH].
Qed.

(* ---- the run of passes in edit_rules ---- *)
Theorem small_edit_passes_eq (c : config) (ls : list gline) :
  Forall line_ok ls -> terminal_set c <> Some [] ->
  py_edit_passes c (render ls) =
  match edit re_search c ls with Ok ls' => Ok (render ls') | Raise => Raise end.
Proof.
  intros Hok Hset. unfold Small_edit_gen.py_edit_passes, edit.
  assert (Hrest : forall l1, Forall line_ok l1 ->
    (let grammar :=
       if nonempty (cfg_list (terminal_set c))
       then let grammar := py_edit_terminal_set (render l1) (cfg_list (terminal_set c)) in grammar
       else render l1 in
     if nonempty (regexes c)
     then let grammar0 := py_check_regex grammar (regexes c) in Ok grammar0
     else Ok grammar) =
    Ok (render (match regexes c with
                | [] => match terminal_set c with Some s => opt_filter (edit_set_line s) l1 | None => l1 end
                | rs => filter (regex_keeps re_search rs)
                          (match terminal_set c with Some s => opt_filter (edit_set_line s) l1 | None => l1 end)
                end))).
  { intros l1 H1. cbv zeta.
    assert (E2 : (if nonempty (cfg_list (terminal_set c))
                  then py_edit_terminal_set (render l1) (cfg_list (terminal_set c)) else render l1)
                 = render (match terminal_set c with Some s => opt_filter (edit_set_line s) l1 | None => l1 end)).
    { destruct (terminal_set c) as [set|]; [|reflexivity]. simpl cfg_list.
      destruct set as [|s0 sr]; [contradiction|]. simpl nonempty. cbv iota.
      now apply small_edit_terminal_set_eq. }
    rewrite E2.
    assert (H2 : Forall line_ok (match terminal_set c with Some s => opt_filter (edit_set_line s) l1 | None => l1 end)).
    { destruct (terminal_set c) as [set|]; [|exact H1].
      apply opt_filter_Forall; [|exact H1]. intros x y. apply edit_set_line_ok. }
    destruct (regexes c) as [|r0 rr]; [reflexivity|]. simpl nonempty. cbv iota.
    now rewrite small_check_regex_eq. }
  destruct (negb (Nat.eqb (min_length c) 0) || negb (Nat.eqb (max_length c) 0)).
  - rewrite small_edit_length_eq by exact Hok.
    destruct (map_res (edit_length_line (min_length c) (max_length c)) ls) as [l1|] eqn:E1; [|reflexivity].
    cbv zeta. apply Hrest.
    eapply (map_res_Forall line_ok line_ok); [|exact Hok|exact E1].
    intros x y. apply edit_length_line_ok.
  - apply Hrest. exact Hok.
Qed.

(* ---- C20's main theorem about the text the source computes ---- *)
Theorem small_edit_passes_filter (c : config) (ls : list gline) :
  Forall line_ok ls -> terminal_set c <> Some [] ->
  Forall well_formed ls -> Forall (fun l => total_len (tokens (gstruct l)) <> None) ls ->
  py_edit_passes c (render ls) = Ok (render (filter (keep re_search c) ls)).
Proof.
  intros Hok Hset Hwf Hint. rewrite (small_edit_passes_eq c ls Hok Hset).
  now rewrite (edit_is_filter re_search c ls Hwf Hint).
Qed.

End EditEq.

(* the hypotheses are satisfiable and the generated functions run: three lines,
   --min_length 5 --max_length 9 --terminal_set A,D --regex <one the table knows> *)
Definition ex_isspace (c : N) : bool := N.eqb c 32 || (N.leb 9 c && N.leb c 13).
Definition ex_lines : list gline :=
  [ {| gstruct := [65; 52; 68; 50]%N; gprob := [48; 46; 53]%N |};          (* A4D2  0.5  *)
    {| gstruct := [65; 50]%N; gprob := [48; 46; 50; 53]%N |};               (* A2    0.25 *)
    {| gstruct := [65; 52; 79; 49; 68; 50]%N; gprob := [48; 46; 50; 53]%N |} (* A4O1D2 0.25 *) ].
Definition ex_config : config :=
  {| min_length := 5; max_length := 9; terminal_set := Some [[65%N]; [68%N]]; regexes := [[65%N]] |}.

Lemma small_edit_example :
  Forall (line_ok ex_isspace) ex_lines /\ terminal_set ex_config <> Some [] /\
  Forall well_formed ex_lines /\ Forall (fun l => total_len (tokens (gstruct l)) <> None) ex_lines /\
  py_edit_passes (fun _ _ => true) ex_isspace [] ex_config (render ex_lines)
  = Ok (render [ {| gstruct := [65; 52; 68; 50]%N; gprob := [48; 46; 53]%N |} ]).
Proof.
  split; [|split; [discriminate|split; [|split]]].
  - repeat constructor; cbn; intuition discriminate.
  - repeat constructor; try discriminate.
  - repeat constructor; discriminate.
  - vm_compute. reflexivity.
Qed.
