(* Executable model of PCFGPasswordParser.parse
   (lib_trainer/pcfg_password_parser.py:86-177): the ordered pipeline of
   detectors over one section list, base_structure_creation
   (lib_trainer/base_structure.py) and the counter updates.  Definitions only. *)
From Coq Require Import List ZArith NArith Bool.
From Pcfg Require Import Str Multiword Detect.
Import ListNotations.
Open Scope Z_scope.

(* everything one call of parse() adds to the parser's counters, as the lists
   the source iterates over (a Counter is the multiset of what was added) *)
Record parsed := {
  p_sections : list section;            (* section_list passed to base_structure_creation *)
  p_walks : list str;                   (* count_keyboard[len(x)][x] *)
  p_emails : list str;                  (* count_emails *)
  p_providers : list str;               (* count_email_providers *)
  p_urls : list str;                    (* count_website_urls *)
  p_hosts : list str;                   (* count_website_hosts *)
  p_prefixes : list (option str);       (* count_website_prefixes (None is a key) *)
  p_years : list str;                   (* count_years *)
  p_context : list str;                 (* count_context_sensitive *)
  p_alpha : list str;                   (* count_alpha[len(x)][x] *)
  p_masks : list str;                   (* count_alpha_masks[len(x)][x] *)
  p_digits : list str;                  (* count_digits[len(x)][x] *)
  p_other : list str;                   (* count_other[len(x)][x] *)
  p_prince : list label;                (* count_prince[label] *)
  p_supported : bool;                   (* is_supported *)
  p_base : list label                   (* the base structure: labels in order *)
}.

Inductive presult :=
| PErr                                  (* parse() raised (IndexError / ValueError / RecursionError) *)
| POk (r : parsed).

(* base_structure_creation: None = `raise ValueError` on an unlabelled section *)
Fixpoint base_structure (sl : list section) : option (bool * list label) :=
  match sl with
  | [] => Some (true, [])
  | (_, None) :: _ => None
  | (_, Some l) :: r =>
      match base_structure r with
      | None => None
      | Some (sup, ls) =>
          Some ((match l with LW | LE => false | _ => sup end), l :: ls)
      end
  end.

Section Parse.
Variables isalpha isdigit isupper : N -> bool.
Variable lower_c : N -> str.
(* does the source search the length-preserving lower-casing (Detect.working) *)
Variable aligned : bool.
(* data constants of the detectors (gen/Consts_gen.v) *)
Variable kbs : list board.
Variable fp_words : list str.
Variable min_run : Z.
Variable tlds : list str.
Variable year_prefixes : list str.
Variable context_strings : list str.
Variables mw_threshold mw_min_len mw_max_len : Z.

Definition mwparse (m : mwmap) : str -> option (bool * list str) :=
  mw_parse lower_c mw_threshold mw_min_len mw_max_len m.

Definition train (m : mwmap) (set_threshold : bool) (pw : str) : mwmap :=
  mw_train isalpha lower_c mw_threshold mw_min_len mw_max_len m set_threshold pw.

Definition parse (m : mwmap) (pw : str) : presult :=
  match detect_keyboard_walk isalpha isdigit lower_c kbs fp_words min_run (length pw) pw with
  | None => PErr
  | Some (sl0, walks) =>
  match drive_all (detect_email lower_c aligned tlds) false sl0 with
  | None => PErr
  | Some (sl1, emails) =>
  match drive_all (detect_website isalpha lower_c aligned tlds) false sl1 with
  | None => PErr
  | Some (sl2, webs) =>
  match drive_all (detect_year isdigit year_prefixes) true sl2 with
  | None => PErr
  | Some (sl3, years) =>
  match drive_all (detect_context isdigit context_strings) true sl3 with
  | None => PErr
  | Some (sl4, ctx) =>
  match drive_all (detect_alpha isalpha isupper lower_c aligned (mwparse m)) false sl4 with
  | None => PErr
  | Some (sl5, alphas) =>
  match drive_all (detect_digits isdigit) false sl5 with
  | None => PErr
  | Some (sl6, digits) =>
      let (sl7, others) := other_detection sl6 in
      match base_structure sl7 with
      | None => PErr
      | Some (sup, base) =>
          POk {| p_sections := sl7;
                 p_walks := walks;
                 p_emails := map fst emails;
                 p_providers := map snd emails;
                 p_urls := map (fun x => fst (fst x)) webs;
                 p_hosts := map (fun x => snd (fst x)) webs;
                 p_prefixes := map snd webs;
                 p_years := years;
                 p_context := ctx;
                 p_alpha := flat_map fst alphas;
                 p_masks := flat_map snd alphas;
                 p_digits := digits;
                 p_other := others;
                 p_prince := base;
                 p_supported := sup;
                 p_base := base |}
      end
  end end end end end end end.

End Parse.
