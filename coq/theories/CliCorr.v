(* Correspondence checks for the guesser's command line / save-file glue: the harness
   (harness/cli_tie.py) runs the real parse_command_line / create_save_config / load_save / main of
   pcfg_guesser.py, writes the inputs and what happened as Gallina literals, and these functions
   compare with what the model CliModel.v computes (evaluated by vm_compute). *)
From Coq Require Import List NArith ZArith Bool String.
From Pcfg Require Import Str CliModel.
Import ListNotations.

Fixpoint leqb {X} (e : X -> X -> bool) (a b : list X) : bool :=
  match a, b with
  | [], [] => true
  | x :: a', y :: b' => e x y && leqb e a' b'
  | _, _ => false
  end.
Definition oeqb {X} (e : X -> X -> bool) (a b : option X) : bool :=
  match a, b with
  | None, None => true
  | Some x, Some y => e x y
  | _, _ => false
  end.

Definition kv_same (a b : list (str * str)) : bool :=
  leqb (fun x y => str_eqb (fst x) (fst y) && str_eqb (snd x) (snd y)) a b.
Definition cfg_same (a b : config) : bool :=
  leqb (fun x y => str_eqb (fst x) (fst y) && kv_same (snd x) (snd y)) a b.

(* structural equality of observed values (True is not 1 here) *)
Fixpoint val_same (a b : pyval) : bool :=
  match a, b with
  | VNone, VNone => true
  | VBool x, VBool y => Bool.eqb x y
  | VInt x, VInt y => Z.eqb x y
  | VStr x, VStr y => str_eqb x y
  | VList x, VList y =>
    (fix go (x y : list pyval) : bool :=
       match x, y with
       | [], [] => true
       | a :: x', b :: y' => val_same a b && go x' y'
       | _, _ => false
       end) x y
  | VCfg x, VCfg y => cfg_same x y
  | _, _ => false
  end.

(* ---- parse_command_line: argv -> None (SystemExit) | Some (returned, the eight options) *)
Definition parse_obs := option (bool * (str * str * bool * option Z * bool * bool * str * bool))%type.

Definition parse_obs_of (int_of : str -> option Z) (argv : list str) : parse_obs :=
  match m_parse int_of argv with
  | None => None
  | Some (b, o) => Some (b, (o_rule o, o_session o, o_load o, o_limit o, o_skip_brute o, o_skip_case o, o_mode o, o_debug o))
  end.

Definition parse_obs_eqb (a b : parse_obs) : bool :=
  oeqb (fun x y =>
          match x, y with
          | (b1, (r1, s1, l1, n1, sb1, sc1, m1, d1)), (b2, (r2, s2, l2, n2, sb2, sc2, m2, d2)) =>
            Bool.eqb b1 b2 && str_eqb r1 r2 && str_eqb s1 s2 && Bool.eqb l1 l2 && oeqb Z.eqb n1 n2 &&
            Bool.eqb sb1 sb2 && Bool.eqb sc1 sc2 && str_eqb m1 m2 && Bool.eqb d1 d2
          end) a b.

Definition check_parse (c : list str * parse_obs) : bool :=
  parse_obs_eqb (parse_obs_of int_ascii (fst c)) (snd c).

(* ---- create_save_config: (now, rule, sb, sc) -> the config *)
Definition check_create (c : str * str * bool * bool * config) : bool :=
  match c with
  | (now, rule, sb, sc, got) => cfg_same (m_create_save_config now rule sb sc) got
  end.

(* ---- load_save: what the file holds -> 0 None | 1 ValueError | 2 (rule, sb, sc) and the config returned *)
Inductive load_obs := OFail | OCrash (e : exn) | OOk (c : config) (rule : str) (sb sc : bool).

Definition exn_same (a b : exn) : bool :=
  match a, b with
  | SystemExit, SystemExit | TypeError, TypeError | ValueError, ValueError | KeyError, KeyError
  | AttributeError, AttributeError | IOError, IOError | ConfigError, ConfigError
  | ArgumentError, ArgumentError | ExternalError, ExternalError | NotModelled, NotModelled => true
  | _, _ => false
  end.

Definition check_load (c : fread * load_obs) : bool :=
  match m_load_save (fst c), snd c with
  | LFail, OFail => true
  | LCrash e, OCrash e' => exn_same e e'
  | LOk c1 r1 b1 b2, OOk c2 r2 b3 b4 => cfg_same c1 c2 && str_eqb r1 r2 && Bool.eqb b1 b3 && Bool.eqb b2 b4
  | _, _ => false
  end.

(* ---- main: the environment as tables, and what was observed *)
Definition gcall_same (a b : gcall) : bool :=
  val_same (gc_rule_name a) (gc_rule_name b) && val_same (gc_base_directory a) (gc_base_directory b) &&
  val_same (gc_version a) (gc_version b) && val_same (gc_save_file a) (gc_save_file b) &&
  val_same (gc_skip_brute a) (gc_skip_brute b) && val_same (gc_skip_case a) (gc_skip_case b) &&
  val_same (gc_debug a) (gc_debug b).
Definition gobj_same (a b : gobj) : bool := gcall_same (g_call a) (g_call b) && val_same (g_uuid a) (g_uuid b).

Definition event_same (a b : event) : bool :=
  match a, b with
  | EStdout, EStdout => true
  | EGrammar x, EGrammar y => gcall_same x y
  | ECrackRun s l n, ECrackRun s' l' n' =>
    gobj_same (cs_pcfg s) (cs_pcfg s') && val_same (cs_save_config s) (cs_save_config s') &&
    val_same (cs_save_filename s) (cs_save_filename s') && val_same l l' && val_same n n'
  | EHoneyRun s n, EHoneyRun s' n' =>
    gobj_same (hs_pcfg s) (hs_pcfg s') && val_same (hs_mode s) (hs_mode s') && val_same n n'
  | _, _ => false
  end.

Definition end_same (a b : main_end) : bool :=
  match a, b with
  | MDone, MDone => true
  | MRaise e, MRaise e' => exn_same e e'
  | _, _ => false
  end.

Fixpoint intercalate (sep : str) (l : list str) : str :=
  match l with
  | [] => []
  | [a] => a
  | a :: r => a ++ sep ++ intercalate sep r
  end.

Fixpoint files_lookup (fs : list (str * fread)) (n : str) : fread :=
  match fs with
  | [] => FMissing
  | (k, f) :: r => if str_eqb k n then f else files_lookup r n
  end.

(* the stub PcfgGrammar of the harness: None = it raises, Some u = its ruleset uuid (whatever it is built with) *)
Definition corr_env (argv : list str) (now dir : str) (fs : list (str * fread)) (uuid : option pyval) : env :=
  {| e_argv := argv; e_int_of := int_ascii; e_now := now; e_fs := files_lookup fs; e_script_dir := dir;
     e_pjoin := intercalate [47%N]; e_grammar := fun _ => uuid |}.

Definition main_case := (list str * str * str * list (str * fread) * option pyval * pyval * (main_end * list event))%type.

Definition check_main (c : main_case) : bool :=
  match c with
  | (argv, now, dir, fs, uuid, version, (e, log)) =>
    let r := m_main (corr_env argv now dir fs uuid) version in
    end_same (fst r) e && leqb event_same (snd r) log
  end.
