(* Runtime of the generated "remaining readers of a ruleset" (gen/Loader2_gen.v, written on
   every run by harness/translate_loader2.py from the Python text of
     lib_guesser/omen/input_file_io.py  load_rules, _load_config, _load_alphabet, _load_ngrams, _load_length
     lib_scorer/omen_scorer.py          OmenScorer.__init__, OmenScorer._load_omen
     lib_scorer/grammar_io.py           load_grammar, _load_from_multiple_files
     lib_guesser/grammar_io.py          load_grammar, _load_terminals, _load_config, _load_from_multiple_files).
   Definitions only; the lemmas about them are in Loader2RtProofs.v / Loader2GenProofs.v.

   These functions build dicts whose keys are added one by one, whose values have
   different shapes under different keys (grammar['ngram'] is an int, grammar['cp'] a
   dict of dicts of lists) and which are indexed by a PARAMETER (grammar[name]); they set
   attributes on objects and use configparser / json.  The translation is therefore
   DYNAMICALLY typed: every Python value is a [pyval], every operation checks the
   shape of its operands at run time and raises what Python raises (TypeError,
   KeyError, IndexError, AttributeError, ValueError) - or [XUnmodelled] where this
   runtime gives the operation no meaning (caught by no `except` clause, so a theorem
   "the generated function returns ..." excludes it).

   What is reused from LoaderRt.v: strings as code point lists, [pyexn] / [pyclass] /
   [rt_isa], the continuation-passing control flow ([rt_join], [rt_for], [lctl], files as
   line lists with a cursor [rt_file] / [rt_for_file] / [fctl]), indices and slices
   ([rt_pos], [rt_index], [rt_slice]), [rt_item] / [rt_base] of the typed readers that the
   dynamic code calls ([call_load_from_file] ... below convert at the boundary).

   Conventions of the translation (see the translator's docstring):
   * A mutable value is owned by the variable it is reachable from; a mutation through a
     path `a[i].b[k].append(x)` is the nested update [dy_upd_item a i (fun t => dy_upd_attr
     t "b" (fun t0 => dy_upd_item t0 k (fun t1 => dy_append t1 x)))]: read on the way down
     (a missing key / attribute raises), write back on the way up.
   * A function returns [XDone (out parameters ..., result)] or [XFail e]; when a callee
     raises, the mutations it made to its out arguments before raising are dropped (the
     handler of the caller sees the value from before the call): the theorems say
     nothing about the content of an object after a failed load. *)
From Coq Require Import List Arith ZArith NArith Bool.
From Pcfg Require Import TextFile LoaderRt.
Import ListNotations.

(* ---------------------------------------------------------------- exceptions *)

Inductive xexn :=
| XBase (e : pyexn)      (* the exceptions of LoaderRt.v: IOError, IndexError, KeyError, ValueError, ... *)
| XType                  (* TypeError *)
| XAttr                  (* AttributeError *)
| XConfig                (* configparser.Error: NoSectionError, NoOptionError, ParsingError, Interpolation*Error *)
| XPlain                 (* raise Exception *)
| XUnmodelled.           (* no counterpart in Python: an operation this runtime gives no meaning to *)

(* the class named in an `except` clause *)
Inductive xclass :=
| XC (c : pyclass)       (* the classes of LoaderRt.v *)
| CTypeError | CAttributeError | CConfigError.

(* isinstance(e, c) *)
Definition x_isa (c : xclass) (e : xexn) : bool :=
  match e with
  | XUnmodelled => false
  | XBase b => match c with XC k => rt_isa k b | _ => false end
  | XType => match c with XC CException | CTypeError => true | _ => false end
  | XAttr => match c with XC CException | CAttributeError => true | _ => false end
  | XConfig => match c with XC CException | CConfigError => true | _ => false end
  | XPlain => match c with XC CException => true | _ => false end
  end.

Inductive xres (X : Type) : Type :=
| XDone (x : X)
| XFail (e : xexn).
Arguments XDone {X} x.
Arguments XFail {X} e.

(* evaluate r; on an exception run the handler h of the enclosing context, else go on with k *)
Definition xbind {X Y : Type} (r : xres X) (h : xexn -> Y) (k : X -> Y) : Y :=
  match r with XDone x => k x | XFail e => h e end.

(* the same inside an expression / an update function: an exception is passed on *)
Definition xthen {X Y : Type} (r : xres X) (k : X -> xres Y) : xres Y :=
  match r with XDone x => k x | XFail e => XFail e end.

Definition x_of_outcome {X : Type} (r : outcome X) : xres X :=
  match r with Done x => XDone x | Fail e => XFail (XBase e) end.

Definition x_opt {X : Type} (e : xexn) (o : option X) : xres X :=
  match o with Some x => XDone x | None => XFail e end.

(* lexicographic order on code points: str < str *)
Fixpoint str_ltb (a b : pstr) : bool :=
  match a, b with
  | _, [] => false
  | [], _ :: _ => true
  | x :: a', y :: b' => if N.ltb x y then true else if N.eqb x y then str_ltb a' b' else false
  end.

(* the ints of range(a, b) *)
Definition zrange (a b : Z) : list Z := map (fun i => (a + Z.of_nat i)%Z) (seq 0 (Z.to_nat (b - a))).

(* ---------------------------------------------------------------- values *)

Section Values.
(* T: floats (the carrier of LoaderRt.fops); C: a ConfigParser that has read a file;
   S: one of its sections (config['NAME']) *)
Context {T C S : Type}.

Inductive pyval : Type :=
| VNone
| VBool (b : bool)
| VInt (z : Z)
| VFloat (f : T)
| VStr (s : pstr)
| VList (l : list pyval)
| VTuple (l : list pyval)            (* built by `return a, b, c` only; no operation is modelled on it *)
| VDict (d : list (pyval * pyval))   (* insertion order; the keys are VStr / VInt values *)
| VObj (a : list (pstr * pyval))     (* an instance: attribute name -> value, in order of first assignment *)
| VCfgNew                            (* configparser.ConfigParser() before it has read anything *)
| VCfg (c : C)                       (* ... after read_file / read *)
| VSect (s : S).                     (* config['NAME'] *)

(* ---------------------------------------------------------------- truth, equality, order *)

(* bool(v) *)
Definition dy_truth (v : pyval) : xres bool :=
  match v with
  | VNone => XDone false
  | VBool b => XDone b
  | VInt z => XDone (negb (Z.eqb z 0))
  | VStr s => XDone (match s with [] => false | _ => true end)
  | VList l => XDone (match l with [] => false | _ => true end)
  | VDict d => XDone (match d with [] => false | _ => true end)
  | VFloat _ => XFail XUnmodelled
  | VTuple _ | VObj _ | VCfgNew | VCfg _ | VSect _ => XFail XUnmodelled
  end.

(* a == b on None / bool / int / str (bool is an int in Python: True == 1); values of
   different kinds among these are unequal; floats are compared by the caller's float
   equality; containers and objects are not modelled *)
Definition b2z (b : bool) : Z := if b then 1%Z else 0%Z.
Definition dy_eq (feqb : T -> T -> bool) (a b : pyval) : xres bool :=
  match a with
  | VNone => match b with
             | VNone => XDone true
             | VStr _ | VInt _ | VBool _ => XDone false
             | _ => XFail XUnmodelled
             end
  | VStr x => match b with
              | VStr y => XDone (str_eqb x y)
              | VNone | VInt _ | VBool _ => XDone false
              | _ => XFail XUnmodelled
              end
  | VInt x => match b with
              | VInt y => XDone (Z.eqb x y)
              | VBool y => XDone (Z.eqb x (b2z y))
              | VNone | VStr _ => XDone false
              | _ => XFail XUnmodelled
              end
  | VBool x => match b with
               | VInt y => XDone (Z.eqb (b2z x) y)
               | VBool y => XDone (Bool.eqb x y)
               | VNone | VStr _ => XDone false
               | _ => XFail XUnmodelled
               end
  | VFloat x => match b with
                | VFloat y => XDone (feqb x y)
                | _ => XFail XUnmodelled
                end
  | _ => XFail XUnmodelled
  end.

(* the kinds an ordering / arithmetic operator raises TypeError on when they are mixed *)
Definition plain (v : pyval) : bool :=
  match v with VInt _ | VStr _ | VNone => true | _ => false end.
Definition type_or_unmodelled {X : Type} (a b : pyval) : xres X :=
  if plain a && plain b then XFail XType else XFail XUnmodelled.

(* a < b: int with int, str with str; an int against a str (or None, or a list) is a TypeError *)
Definition dy_lt (a b : pyval) : xres bool :=
  match a, b with
  | VInt x, VInt y => XDone (Z.ltb x y)
  | VStr x, VStr y => XDone (str_ltb x y)
  | _, _ => type_or_unmodelled a b
  end.
Definition dy_le (a b : pyval) : xres bool :=
  match a, b with
  | VInt x, VInt y => XDone (Z.leb x y)
  | VStr x, VStr y => XDone (negb (str_ltb y x))
  | _, _ => type_or_unmodelled a b
  end.
Definition dy_gt (a b : pyval) : xres bool := dy_lt b a.
Definition dy_ge (a b : pyval) : xres bool := dy_le b a.

(* ---------------------------------------------------------------- arithmetic *)

Definition dy_add (a b : pyval) : xres pyval :=
  match a, b with
  | VInt x, VInt y => XDone (VInt (x + y))
  | VStr x, VStr y => XDone (VStr (x ++ y))
  | VList x, VList y => XDone (VList (x ++ y))
  | _, _ => type_or_unmodelled a b
  end.

Definition dy_sub (a b : pyval) : xres pyval :=
  match a, b with
  | VInt x, VInt y => XDone (VInt (x - y))
  | _, _ => type_or_unmodelled a b
  end.

(* list * int is not modelled *)
Definition dy_mul (a b : pyval) : xres pyval :=
  match a, b with
  | VInt x, VInt y => XDone (VInt (x * y))
  | VStr s, VInt n => XDone (VStr (rt_repeat s n))
  | VInt n, VStr s => XDone (VStr (rt_repeat s n))
  | VList _, _ | _, VList _ => XFail XUnmodelled
  | _, _ => type_or_unmodelled a b
  end.

(* ---------------------------------------------------------------- dicts *)

(* the keys this runtime models *)
Definition is_key (k : pyval) : bool := match k with VStr _ | VInt _ => true | _ => false end.
Definition key_eqb (a b : pyval) : bool :=
  match a, b with
  | VStr x, VStr y => str_eqb x y
  | VInt x, VInt y => Z.eqb x y
  | _, _ => false
  end.

Fixpoint dfind (k : pyval) (d : list (pyval * pyval)) : option pyval :=
  match d with
  | [] => None
  | (k', v) :: r => if key_eqb k k' then Some v else dfind k r
  end.

(* d[k] = v: in place when the key exists, else appended *)
Fixpoint dput (k v : pyval) (d : list (pyval * pyval)) : list (pyval * pyval) :=
  match d with
  | [] => [(k, v)]
  | (k', v') :: r => if key_eqb k k' then (k', v) :: r else (k', v') :: dput k v r
  end.

(* ---------------------------------------------------------------- oracles: configparser, json *)

(* what configparser and json decide *)
Record cfg_oracles := {
  (* config.read_file(open(name)) on a fresh parser: IOError of open, configparser.Error of the parse *)
  cp_read_file : pstr -> xres C;
  (* config.read(name) on a fresh parser: a file that cannot be opened is skipped silently *)
  cp_read : pstr -> xres C;
  (* config.get(section, option): NoSectionError / NoOptionError / interpolation errors are configparser.Error *)
  cp_get : C -> pstr -> pstr -> xres pstr;
  (* config[section]: KeyError *)
  cp_section : C -> pstr -> xres S;
  (* config[section].get(option): None when the option is missing *)
  cp_sect_get : S -> pstr -> xres (option pstr);
  (* json.loads(text): any value; ValueError (JSONDecodeError) *)
  cp_json : pstr -> xres pyval;
}.

(* ---------------------------------------------------------------- subscripts *)

(* c[k]; on a ConfigParser: config[section] *)
Definition dy_getitem (O : cfg_oracles) (c k : pyval) : xres pyval :=
  match c with
  | VCfg x => match k with
              | VStr s => xthen (cp_section O x s) (fun r => XDone (VSect r))
              | _ => XFail XUnmodelled
              end
  | VDict d => if is_key k then x_opt (XBase EKey) (dfind k d) else XFail XUnmodelled
  | VList l => match k with
               | VInt i => x_of_outcome (rt_index l i)
               | VStr _ | VNone => XFail XType
               | _ => XFail XUnmodelled
               end
  | VStr s => match k with
              | VInt i => xthen (x_of_outcome (rt_index s i)) (fun ch => XDone (VStr [ch]))
              | VStr _ | VNone => XFail XType
              | _ => XFail XUnmodelled
              end
  | VNone | VInt _ | VBool _ => XFail XType
  | _ => XFail XUnmodelled
  end.

(* c[k] = v, the new value of c *)
Definition dy_setitem (c k v : pyval) : xres pyval :=
  match c with
  | VDict d => if is_key k then XDone (VDict (dput k v d)) else XFail XUnmodelled
  | VList l => match k with
               | VInt i => match rt_pos (length l) i with
                           | Some j => XDone (VList (rt_set_nth l j v))
                           | None => XFail (XBase EIndex)
                           end
               | VStr _ | VNone => XFail XType
               | _ => XFail XUnmodelled
               end
  | VNone | VInt _ | VBool _ | VStr _ => XFail XType
  | _ => XFail XUnmodelled
  end.

(* c[k] = f(c[k]): read, compute, write back *)
Definition dy_upd_item (O : cfg_oracles) (c k : pyval) (f : pyval -> xres pyval) : xres pyval :=
  xthen (dy_getitem O c k) (fun old => xthen (f old) (fun new => dy_setitem c k new)).

(* a slice bound: None or an int *)
Definition dy_bound (b : option pyval) : xres (option Z) :=
  match b with
  | None | Some VNone => XDone None
  | Some (VInt i) => XDone (Some i)
  | Some (VStr _) => XFail XType
  | Some _ => XFail XUnmodelled
  end.

(* c[a:b] *)
Definition dy_slice (c : pyval) (a b : option pyval) : xres pyval :=
  xthen (dy_bound a) (fun lo => xthen (dy_bound b) (fun hi =>
  match c with
  | VStr s => XDone (VStr (rt_slice s lo hi))
  | VList l => XDone (VList (rt_slice l lo hi))
  | VNone | VInt _ | VBool _ | VDict _ => XFail XType
  | _ => XFail XUnmodelled
  end)).

(* k in c: a key of a dict; membership in a list / a str is not modelled *)
Definition dy_contains (c k : pyval) : xres bool :=
  match c with
  | VDict d => if is_key k then XDone (match dfind k d with Some _ => true | None => false end) else XFail XUnmodelled
  | VNone | VInt _ | VBool _ => XFail XType
  | _ => XFail XUnmodelled
  end.

(* len(c) *)
Definition dy_len (c : pyval) : xres pyval :=
  match c with
  | VStr s => XDone (VInt (rt_len s))
  | VList l => XDone (VInt (rt_len l))
  | VDict d => XDone (VInt (rt_len d))
  | VNone | VInt _ | VBool _ => XFail XType
  | _ => XFail XUnmodelled
  end.

(* ---------------------------------------------------------------- attributes *)

Fixpoint afind (n : pstr) (a : list (pstr * pyval)) : option pyval :=
  match a with
  | [] => None
  | (n', v) :: r => if str_eqb n n' then Some v else afind n r
  end.

Fixpoint aput (n : pstr) (v : pyval) (a : list (pstr * pyval)) : list (pstr * pyval) :=
  match a with
  | [] => [(n, v)]
  | (n', v') :: r => if str_eqb n n' then (n', v) :: r else (n', v') :: aput n v r
  end.

(* o.name on an instance; attributes of other values (methods apart, which the
   translator turns into the functions below) are not modelled *)
Definition dy_getattr (o : pyval) (n : pstr) : xres pyval :=
  match o with
  | VObj a => x_opt XAttr (afind n a)
  | VNone | VInt _ | VBool _ | VStr _ | VList _ | VDict _ => XFail XAttr
  | _ => XFail XUnmodelled
  end.

(* o.name = v *)
Definition dy_setattr (o : pyval) (n : pstr) (v : pyval) : xres pyval :=
  match o with
  | VObj a => XDone (VObj (aput n v a))
  | VNone | VInt _ | VBool _ | VStr _ | VList _ | VDict _ => XFail XAttr
  | _ => XFail XUnmodelled
  end.

Definition dy_upd_attr (o : pyval) (n : pstr) (f : pyval -> xres pyval) : xres pyval :=
  xthen (dy_getattr o n) (fun old => xthen (f old) (fun new => dy_setattr o n new)).

(* ---------------------------------------------------------------- methods of list / str *)

(* l.append(x) *)
Definition dy_append (l x : pyval) : xres pyval :=
  match l with
  | VList e => XDone (VList (e ++ [x]))
  | VNone | VInt _ | VBool _ | VStr _ | VDict _ => XFail XAttr
  | _ => XFail XUnmodelled
  end.

(* s.rstrip(chars) / s.lstrip(chars) / s.strip(chars) with a str of characters; with
   no argument ([chars] = None) the white space [ws] of the interpreter *)
Definition strip_pred (ws : N -> bool) (chars : option pyval) : xres (N -> bool) :=
  match chars with
  | None | Some VNone => XDone ws
  | Some (VStr cs) => XDone (fun c => memN c cs)
  | Some (VInt _ | VBool _ | VList _ | VDict _) => XFail XType
  | Some _ => XFail XUnmodelled
  end.

Definition dy_rstrip (ws : N -> bool) (s : pyval) (chars : option pyval) : xres pyval :=
  match s with
  | VStr x => xthen (strip_pred ws chars) (fun p => XDone (VStr (rstrip p x)))
  | VNone | VInt _ | VBool _ | VList _ | VDict _ => XFail XAttr
  | _ => XFail XUnmodelled
  end.
Definition dy_lstrip (ws : N -> bool) (s : pyval) (chars : option pyval) : xres pyval :=
  match s with
  | VStr x => xthen (strip_pred ws chars) (fun p => XDone (VStr (lstrip p x)))
  | VNone | VInt _ | VBool _ | VList _ | VDict _ => XFail XAttr
  | _ => XFail XUnmodelled
  end.
Definition dy_strip (ws : N -> bool) (s : pyval) (chars : option pyval) : xres pyval :=
  match s with
  | VStr x => xthen (strip_pred ws chars) (fun p => XDone (VStr (rstrip p (lstrip p x))))
  | VNone | VInt _ | VBool _ | VList _ | VDict _ => XFail XAttr
  | _ => XFail XUnmodelled
  end.

(* s.split(sep) for a separator that is a constant of one character *)
Definition dy_split (s : pyval) (sep : N) : xres pyval :=
  match s with
  | VStr x => XDone (VList (map VStr (split_on sep x)))
  | VNone | VInt _ | VBool _ | VList _ | VDict _ => XFail XAttr
  | _ => XFail XUnmodelled
  end.

(* ---------------------------------------------------------------- builtins *)

(* int(v): [pint] is the interpreter's int() on text, None = ValueError *)
Definition dy_int (pint : pstr -> option Z) (v : pyval) : xres pyval :=
  match v with
  | VStr s => xthen (x_opt (XBase EValue) (pint s)) (fun z => XDone (VInt z))
  | VInt z => XDone (VInt z)
  | VBool b => XDone (VInt (if b then 1 else 0))
  | VNone | VList _ | VDict _ => XFail XType
  | _ => XFail XUnmodelled      (* int(float): truncation is not modelled *)
  end.

(* float(v) *)
Definition dy_float (pfloat : pstr -> option T) (v : pyval) : xres pyval :=
  match v with
  | VStr s => xthen (x_opt (XBase EValue) (pfloat s)) (fun f => XDone (VFloat f))
  | VFloat f => XDone (VFloat f)
  | VNone | VList _ | VDict _ => XFail XType
  | _ => XFail XUnmodelled
  end.

(* range(a, b) *)
Definition dy_range (a b : pyval) : xres pyval :=
  match a, b with
  | VInt x, VInt y => XDone (VList (map VInt (zrange x y)))
  | _, _ => type_or_unmodelled a b
  end.

(* the elements `for x in v` visits *)
Definition dy_iter (v : pyval) : xres (list pyval) :=
  match v with
  | VList l => XDone l
  | VStr s => XDone (map (fun c => VStr [c]) s)
  | VDict d => XDone (map fst d)
  | VNone | VInt _ | VBool _ => XFail XType
  | _ => XFail XUnmodelled
  end.

(* os.path.join(a, b, ...): [pjoin] is the interpreter's function on str arguments *)
Fixpoint strs_of (l : list pyval) : option (list pstr) :=
  match l with
  | [] => Some []
  | VStr s :: r => option_map (cons s) (strs_of r)
  | _ :: _ => None
  end.
Definition dy_path_join (pjoin : list pstr -> pstr) (l : list pyval) : xres pyval :=
  match strs_of l with
  | Some ss => XDone (VStr (pjoin ss))
  | None => if forallb (fun v => match v with VStr _ | VNone | VInt _ | VBool _ | VList _ | VDict _ => true | _ => false end) l
            then XFail XType else XFail XUnmodelled
  end.

(* ---------------------------------------------------------------- files *)

(* open(name, 'r'[, encoding=e]) / codecs.open(name, 'r', encoding=e[, errors=x]): the
   oracle gives the lines the iteration yields, or the exception (IOError when the file
   cannot be opened; a decoding error in the middle of the file counts as an error at
   open, as in LoaderRt.v) *)
Definition dy_open (o : pstr -> option pstr -> option pstr -> xres (list pstr))
           (name : pyval) (encoding : option pyval) (errors : option pstr) : xres rt_file :=
  match name with
  | VStr n =>
      match encoding with
      | None => xthen (o n None errors) (fun l => XDone (rt_fopen l))
      | Some (VStr e) => xthen (o n (Some e) errors) (fun l => XDone (rt_fopen l))
      | Some (VNone) => xthen (o n None errors) (fun l => XDone (rt_fopen l))
      | Some (VInt _ | VBool _ | VList _ | VDict _) => XFail XType
      | Some _ => XFail XUnmodelled
      end
  | VNone | VList _ | VDict _ => XFail XType
  | _ => XFail XUnmodelled
  end.

(* ---------------------------------------------------------------- configparser, json *)

(* config.read_file(open(name)) *)
Definition dy_cfg_read_file (O : cfg_oracles) (c name : pyval) : xres pyval :=
  match c, name with
  | VCfgNew, VStr n => xthen (cp_read_file O n) (fun x => XDone (VCfg x))
  | _, _ => XFail XUnmodelled
  end.
(* config.read(name) *)
Definition dy_cfg_read (O : cfg_oracles) (c name : pyval) : xres pyval :=
  match c, name with
  | VCfgNew, VStr n => xthen (cp_read O n) (fun x => XDone (VCfg x))
  | _, _ => XFail XUnmodelled
  end.
(* config.get(section, option) *)
Definition dy_cfg_get (O : cfg_oracles) (c sec opt : pyval) : xres pyval :=
  match c, sec, opt with
  | VCfg x, VStr s, VStr o => xthen (cp_get O x s o) (fun v => XDone (VStr v))
  | _, _, _ => XFail XUnmodelled
  end.
(* config.getint(section, option) = int(config.get(section, option)) *)
Definition dy_cfg_getint (O : cfg_oracles) (pint : pstr -> option Z) (c sec opt : pyval) : xres pyval :=
  xthen (dy_cfg_get O c sec opt) (dy_int pint).
(* x.get(option) on a section; on a dict: d.get(k) *)
Definition dy_get1 (O : cfg_oracles) (x k : pyval) : xres pyval :=
  match x, k with
  | VSect s, VStr o => xthen (cp_sect_get O s o) (fun r => XDone (match r with Some v => VStr v | None => VNone end))
  | VDict d, _ => if is_key k then XDone (match dfind k d with Some v => v | None => VNone end) else XFail XUnmodelled
  | _, _ => XFail XUnmodelled
  end.
(* json.loads(text) *)
Definition dy_json_loads (O : cfg_oracles) (v : pyval) : xres pyval :=
  match v with
  | VStr s => cp_json O s
  | VNone | VInt _ | VBool _ | VList _ | VDict _ => XFail XType
  | _ => XFail XUnmodelled
  end.

(* ---------------------------------------------------------------- the typed readers of Loader_gen.v *)

(* a list of dicts {'values': [...], 'prob': p} is the list of LoaderRt.rt_item the
   translated _load_from_file works on *)
Definition val_of_item (i : rt_item T) : pyval :=
  VDict [(VStr [118; 97; 108; 117; 101; 115]%N, VList (map VStr (it_values i)));
         (VStr [112; 114; 111; 98]%N, VFloat (it_prob i))].
Definition val_of_items (l : list (rt_item T)) : pyval := VList (map val_of_item l).

Fixpoint strs_of_vals (l : list pyval) : option (list pstr) :=
  match l with
  | [] => Some []
  | VStr s :: r => option_map (cons s) (strs_of_vals r)
  | _ :: _ => None
  end.
Definition item_of_val (v : pyval) : option (rt_item T) :=
  match v with
  | VDict [(VStr k1, VList vs); (VStr k2, VFloat p)] =>
      if str_eqb k1 [118; 97; 108; 117; 101; 115]%N && str_eqb k2 [112; 114; 111; 98]%N then
        match strs_of_vals vs with Some ss => Some {| it_values := ss; it_prob := p |} | None => None end
      else None
  | _ => None
  end.
Fixpoint items_of_vals (l : list pyval) : option (list (rt_item T)) :=
  match l with
  | [] => Some []
  | v :: r => match item_of_val v, items_of_vals r with
              | Some i, Some is' => Some (i :: is')
              | _, _ => None
              end
  end.
Definition items_of_val (v : pyval) : option (list (rt_item T)) :=
  match v with VList l => items_of_vals l | _ => None end.

(* _load_from_file(section, filename, encoding) of lib_guesser/grammar_io.py: [f] is the
   translated function of Loader_gen.v; arguments of another shape are not modelled *)
Definition call_load_from_file (f : list (rt_item T) -> pstr -> pstr -> outcome (list (rt_item T) * bool))
           (sec name enc : pyval) : xres (pyval * pyval) :=
  match items_of_val sec, name, enc with
  | Some l, VStr n, VStr e =>
      xthen (x_of_outcome (f l n e)) (fun r => XDone (val_of_items (fst r), VBool (snd r)))
  | _, _, _ => XFail XUnmodelled
  end.

(* a Counter / dict {value: probability} is the association list the translated scorer
   reader works on *)
Definition val_of_counter (d : list (pstr * T)) : pyval :=
  VDict (map (fun kv => (VStr (fst kv), VFloat (snd kv))) d).
Fixpoint counter_of_vals (d : list (pyval * pyval)) : option (list (pstr * T)) :=
  match d with
  | [] => Some []
  | (VStr k, VFloat p) :: r => option_map (cons (k, p)) (counter_of_vals r)
  | _ :: _ => None
  end.
Definition counter_of_val (v : pyval) : option (list (pstr * T)) :=
  match v with VDict d => counter_of_vals d | _ => None end.

(* _load_from_file(counter, filename, encoding) of lib_scorer/grammar_io.py *)
Definition call_scorer_load_from_file (f : list (pstr * T) -> pstr -> pstr -> outcome (list (pstr * T) * bool))
           (cnt name enc : pyval) : xres (pyval * pyval) :=
  match counter_of_val cnt, name, enc with
  | Some d, VStr n, VStr e =>
      xthen (x_of_outcome (f d n e)) (fun r => XDone (val_of_counter (fst r), VBool (snd r)))
  | _, _, _ => XFail XUnmodelled
  end.

(* the list of dicts {'prob': p, 'replacements': [...]} _load_base_structures fills *)
Definition val_of_base (b : rt_base T) : pyval :=
  VDict [(VStr [112; 114; 111; 98]%N, VFloat (bs_prob b));
         (VStr [114; 101; 112; 108; 97; 99; 101; 109; 101; 110; 116; 115]%N, VList (map VStr (bs_repl b)))].
Definition val_of_bases (l : list (rt_base T)) : pyval := VList (map val_of_base l).

(* _load_base_structures(base_structures, base_directory, skip_brute, folder): the list
   passed in is the empty list the caller has just created *)
Definition call_load_base_structures (f : list (rt_base T) -> pstr -> bool -> pstr -> outcome (list (rt_base T) * bool))
           (bs dir skip folder : pyval) : xres (pyval * pyval) :=
  match bs, dir, skip, folder with
  | VList [], VStr d, VBool s, VStr fo =>
      xthen (x_of_outcome (f [] d s fo)) (fun r => XDone (val_of_bases (fst r), VBool (snd r)))
  | _, _, _, _ => XFail XUnmodelled
  end.

(* x = P[k] / x = P.a where the variable P is rooted at is mutated elsewhere in the function: the value gets a second
   name.  For an immutable value (None, bool, int, float, str) a copy is exactly what Python does; a mutable value
   would be shared, which this runtime does not model *)
Definition dy_scalar (v : pyval) : xres pyval :=
  match v with
  | VNone | VBool _ | VInt _ | VFloat _ | VStr _ => XDone v
  | _ => XFail XUnmodelled
  end.

(* d.update(...) / d.setdefault(...) are translated as the stores they stand for, after this test that d is a
   dict (a value without these methods raises AttributeError before anything else happens) *)
Definition dy_require_dict (v : pyval) : xres pyval :=
  match v with
  | VDict _ => XDone VNone
  | VNone | VBool _ | VInt _ | VFloat _ | VStr _ | VList _ => XFail XAttr
  | _ => XFail XUnmodelled
  end.

(* ---------------------------------------------------------------- comprehensions *)

(* [f(x) for x in l] where f can raise *)
Fixpoint x_mapM {X Y : Type} (f : X -> xres Y) (l : list X) : xres (list Y) :=
  match l with
  | [] => XDone []
  | x :: r => xthen (f x) (fun y => xthen (x_mapM f r) (fun ys => XDone (y :: ys)))
  end.
(* [... for x in l for y in g(x)] : the lists the inner loops build, concatenated *)
Definition x_concat {Y : Type} (r : xres (list (list Y))) : xres (list Y) :=
  xthen r (fun ll => XDone (concat ll)).

(* v is None / v is not None *)
Definition is_none (v : pyval) : bool := match v with VNone => true | _ => false end.

End Values.

Arguments pyval : clear implicits.
Arguments cfg_oracles : clear implicits.

(* ---------------------------------------------------------------- the world *)

(* everything the interpreter, the file system and the already translated readers decide;
   ONE parameter of every generated function, so that the signatures do not depend on
   which of them a function happens to use *)
Record world (fo : fops) (C S : Type) := {
  w_cfg : cfg_oracles (F fo) C S;                 (* configparser, json *)
  w_ws : N -> bool;                               (* what str.strip() / rstrip() / lstrip() remove *)
  w_pfloat : pstr -> option (F fo);               (* float(text); None = ValueError *)
  w_pint : pstr -> option Z;                      (* int(text); None = ValueError *)
  w_path_join : list pstr -> pstr;                (* os.path.join *)
  (* codecs.open(name, 'r', encoding=e, errors=x): arguments name, Some e, Some x / None *)
  w_codecs_open : pstr -> option pstr -> option pstr -> xres (list pstr);
  (* open(name, 'r'[, encoding=e]): arguments name, Some e / None, None *)
  w_open : pstr -> option pstr -> option pstr -> xres (list pstr);
  (* the readers translated by harness/translate_loader.py (gen/Loader_gen.v) *)
  w_load_from_file : list (rt_item (F fo)) -> pstr -> pstr -> outcome (list (rt_item (F fo)) * bool);
  w_scorer_load_from_file : list (pstr * F fo) -> pstr -> pstr -> outcome (list (pstr * F fo) * bool);
  w_load_base_structures : list (rt_base (F fo)) -> pstr -> bool -> pstr -> outcome (list (rt_base (F fo)) * bool);
}.
Arguments w_cfg {fo C S} _.
Arguments w_ws {fo C S} _.
Arguments w_pfloat {fo C S} _.
Arguments w_pint {fo C S} _.
Arguments w_path_join {fo C S} _.
Arguments w_codecs_open {fo C S} _.
Arguments w_open {fo C S} _.
Arguments w_load_from_file {fo C S} _.
Arguments w_scorer_load_from_file {fo C S} _.
Arguments w_load_base_structures {fo C S} _.
