(* The generated website detector (gen/DetectWeb_gen.v: the translation of the Python
   text of detect_website / website_detection, redone on every run) equals the
   hand-written model of Detect.v (detect_website with the length-preserving
   lower-casing, driven by Detect.drive) that website_split_ok and the C05 pipeline
   theorems are about, on all sections / section lists, for the oracles isalpha, lower_c
   any functions and every TLD list without an empty string (with an empty TLD the
   Python loop `while end_index != -1` does not terminate; the model's fuel - and the
   translated loop's, the same amount - suffices otherwise: DetectProofsWeb.web_scan_fuel). *)
From Coq Require Import List ZArith NArith Bool Lia.
From Pcfg Require Import Str Multiword Detect DetectRt DetectRt2 DetectProofsStr DetectProofsDrive DetectProofsWeb
     DetectGenProofs DetectGenProofsEmail.
From PcfgGen Require Import DetectWeb_gen.
Import ListNotations.
Open Scope Z_scope.

(* the model's result for what the generated detect_website returns, as
   website_detection reads it: `if url:`, then the parsing is spliced in and the three
   values are recorded *)
Definition dres_web (r : option (pv * option str * option str * option str)) : dres (str * str * option str) :=
  match r with
  | None => DErr
  | Some (p, None, _, _) => DNo
  | Some (p, Some u, h, pre) =>
      if nonempty u then match p, h with PList l, Some hh => DYes l (u, hh, pre) | _, _ => DErr end else DNo
  end.

(* a statement that ends the function: what the caller reads is the model's result d *)
Definition ends_as {L St : Type} (c : ctl (pv * option str * option str * option str) L St)
           (d : dres (str * str * option str)) : Prop :=
  match c with
  | Return x => dres_web (Some x) = d
  | Raise => d = DErr
  | _ => False
  end.

(* case analysis along the paths of the accepting part of the loop body; comparisons of
   constants are computed, so that no impossible path is followed *)
Ltac fold_consts :=
  change (-1 =? -1) with true; change (0 =? -1) with false; change (0 =? 0) with true; cbv iota.
Ltac inner_cond c k :=
  lazymatch c with
  | context [if ?c2 then _ else _] => inner_cond c2 k
  | _ => bool_atom c k
  end.
Ltac web_if_step :=
  match goal with |- context [if ?c then _ else _] =>
    inner_cond c ltac:(fun a => lazymatch a with true => fail | false => fail | _ => destruct a eqn:? end) end.
Ltac web_norm := repeat (progress (cbn [negb bind run append extend app fst snd]; fold_consts)).
Ltac web_cases :=
  repeat (web_norm;
          first [ web_if_step
                | match goal with |- context [match getc ?s ?i with _ => _ end] => destruct (getc s i) eqn:? end ]).

Section Web.
Variable isalpha : N -> bool.
Variable lower_c : N -> str.
Variable tlds : list str.

Lemma lower_aligned_length (s : str) : length (lower_aligned lower_c s) = length s.
Proof.
  unfold lower_aligned. destruct (len (lower lower_c s) =? len s) eqn:E; [|apply map_length].
  apply Z.eqb_eq in E. unfold len in E. lia.
Qed.

Lemma rfind_succ_not_m1 (a b : str) : (rfind a b + 1 =? -1) = false.
Proof. apply Z.eqb_neq. destruct (rfind_bounds a b); lia. Qed.

(* the model's start of the host and prefix search without their dead alternatives
   (rfind(...) + 1 is never -1) *)
Lemma web_start_index_live ws T : web_start_index ws T = rfind (sto ws T) [c_dot] + 1.
Proof. unfold web_start_index. cbv zeta. now rewrite !rfind_succ_not_m1. Qed.

Lemma web_prefix_live ws si : (si =? -1) = false ->
  web_prefix ws si =
  if rfind (sto ws (si + 1)) s_http_www =? -1 then
    if rfind (sto ws si) s_http =? -1 then
      if rfind (sto ws si) s_www =? -1 then (None, -1) else (Some s_www, rfind (sto ws si) s_www)
    else (Some s_http, rfind (sto ws si) s_http)
  else (Some s_http_www, rfind (sto ws (si + 1)) s_http_www).
Proof.
  intros H. unfold web_prefix. cbv zeta. rewrite H.
  destruct (rfind (sto ws (si + 1)) s_http_www =? -1) eqn:E1; destruct (rfind (sto ws si) s_http =? -1) eqn:E2;
    destruct (rfind (sto ws si) s_www =? -1) eqn:E3;
    do 4 (cbn [snd]; rewrite ?E1, ?E2, ?E3; change (-1 =? -1) with true; cbv iota); reflexivity.
Qed.

(* the accepting part of the loop body against Detect.web_accept *)
Ltac web_leaf :=
  web_norm; cbn [ends_as dres_web fst snd];
  repeat match goal with H : nonempty _ = _ |- _ => rewrite H end;
  reflexivity || congruence.
Ltac web_accept_tac :=
  unfold web_accept; rewrite web_start_index_live; rewrite web_prefix_live by apply rfind_succ_not_m1;
  unfold web_end_of_url, sub_s, c_slash, c_colon, c_space, c_dot, s_http_www, s_http, s_www;
  lazymatch goal with
  | |- ends_as (bind ?B ?K) (match ?W with Some x => @?M x | None => DErr end) =>
      let HK := fresh "HK" in let HB := fresh "HB" in
      (* everything after "Identify the end of the URL", for any end_of_url *)
      assert (HK : forall v, ends_as (K v) (M v));
      [ intro v; cbv beta zeta;
        (* the start of the host: the alternatives for start_index == -1 are dead *)
        do 5 (web_norm; rewrite ?rfind_succ_not_m1);
        repeat match goal with |- context [rfind ?a ?b] => let x := fresh "rf" in set (x := rfind a b); clearbody x end;
        web_cases; web_leaf
      | (* the end of the URL *)
        assert (HB : match W with Some v => B = Next v | None => B = Raise end) by (web_cases; reflexivity);
        destruct W as [v|]; rewrite HB; [exact (HK v)|reflexivity] ]
  end.

(* one iteration of `while end_index != -1` in the model *)
Inductive wstep := StepErr | StepCont (e T : Z) | StepAcc.
Definition web_step (ws tld : str) (T : Z) : wstep :=
  if negb (T =? len ws - len tld) then
    match getc ws (T + len tld) with
    | None => StepErr
    | Some c =>
        if isalpha c || N.eqb c c_dot then
          StepCont (find (sfrom ws (T + len tld)) tld) (T + len tld + find (sfrom ws (T + len tld)) tld)
        else StepAcc
    end
  else StepAcc.

Lemma web_scan_unfold fuel ws tld e T :
  web_scan isalpha (S fuel) ws tld e T =
  if e =? -1 then Some None
  else match web_step ws tld T with
       | StepErr => None
       | StepCont e' T' => web_scan isalpha fuel ws tld e' T'
       | StepAcc => Some (Some T)
       end.
Proof.
  cbn [web_scan]. unfold web_step. destruct (e =? -1); [reflexivity|].
  destruct (negb (T =? len ws - len tld)); [|reflexivity].
  destruct (getc ws (T + len tld)) as [c|]; [|reflexivity].
  destruct (isalpha c || N.eqb c c_dot); reflexivity.
Qed.

(* the loop, for loop-carried variables (end_index, total_index, parsing), parsing = [] *)
Section While.
Context {L' : Type}.
Notation R := (pv * option str * option str * option str)%type.
Notation St := (Z * Z * list section)%type.
Variables (s ws tld : str).
Variable wcond : St -> bool.
Variable wbody : St -> ctl R St St.
Hypothesis cond_spec : forall e T p, wcond (e, T, p) = negb (e =? -1).
Hypothesis body_spec : forall e T,
  match web_step ws tld T with
  | StepErr => wbody (e, T, []) = Raise
  | StepCont e' T' => wbody (e, T, []) = Continue (e', T', [])
  | StepAcc => ends_as (wbody (e, T, [])) (web_accept s ws tld T)
  end.

Lemma web_while_sim : forall f e T r, web_scan isalpha f ws tld e T = Some r ->
  forall f', (f <= f')%nat ->
  match r with
  | None => exists e' T', while_ (L' := L') f' (e, T, []) wcond wbody = Next (e', T', [])
  | Some T' => ends_as (while_ (L' := L') f' (e, T, []) wcond wbody) (web_accept s ws tld T')
  end.
Proof.
  induction f as [|f IH]; intros e T r H f' Hf; [discriminate|].
  rewrite web_scan_unfold in H.
  destruct (e =? -1) eqn:Ee.
  - injection H as <-. exists e, T. destruct f'; cbn [while_]; now rewrite cond_spec, Ee.
  - destruct f' as [|f']; [lia|]. cbn [while_]. rewrite cond_spec, Ee. cbn [negb].
    pose proof (body_spec e T) as Hb. destruct (web_step ws tld T) as [|e' T'|].
    + discriminate.
    + rewrite Hb. apply IH; [assumption|lia].
    + injection H as <-. destruct (wbody (e, T, [])); cbn [ends_as] in Hb |- *; tauto.
Qed.
End While.

Theorem py_detect_website_eq (sec : section) : Forall (fun t => 1 <= len t) tlds ->
  dres_web (py_detect_website isalpha lower_c tlds sec) = detect_website isalpha lower_c true tlds (fst sec).
Proof.
  intros Htl.
  unfold py_detect_website, detect_website, working, for_each. cbv zeta.
  rewrite <- (lower_aligned_length (fst sec)). unfold lower_aligned.
  (* the working string *)
  match goal with |- dres_web (run (bind ?c _)) = _ =>
    replace c with (Next (R := pv * option str * option str * option str) (L := Empty_set)
                      (if len (lower lower_c (fst sec)) =? len (fst sec) then lower lower_c (fst sec)
                       else map (lower1 lower_c) (fst sec)))
      by (destruct (len (lower lower_c (fst sec)) =? len (fst sec)); cbn [negb]; [|rewrite join_lower1]; reflexivity)
  end.
  cbn [bind].
  set (ws := if len (lower lower_c (fst sec)) =? len (fst sec) then _ else _).
  change [c_dot] with [46%N].
  destruct (contains ws [46%N]); cbn [negb bind run dres_web]; [|reflexivity].
  match goal with |- context [for_from 0 ?l _ ?b] => set (body := b) end.
  generalize 0 as pos. induction Htl as [|tld tl Ht Htl IH]; intros pos; cbn [for_from web_go]; [reflexivity|].
  unfold body at 1. cbv beta.
  match goal with |- context [while_ _ _ ?c ?b] => set (wcond := c); set (wbody := b) end.
  assert (Hc : forall e T p, wcond (e, T, p) = negb (e =? -1)) by (intros; first [reflexivity | cbn; f_equal; apply Z.eqb_sym]).
  assert (Hb : forall e T,
    match web_step ws tld T with
    | StepErr => wbody (e, T, []) = Raise
    | StepCont e' T' => wbody (e, T, []) = Continue (e', T', [])
    | StepAcc => ends_as (wbody (e, T, [])) (web_accept (fst sec) ws tld T)
    end).
  { intros e T. unfold web_step, wbody. cbv beta iota zeta.
    match goal with |- context [bind (if negb (T =? len ws - len tld) then _ else _) ?K] => set (K0 := K) end.
    assert (Hacc : ends_as (K0 (e, T)) (web_accept (fst sec) ws tld T)).
    { unfold K0. cbv beta iota zeta. clear. web_accept_tac. }
    destruct (negb (T =? len ws - len tld)); cbn [bind]; [|exact Hacc].
    unfold sub_s. destruct (getc ws (T + len tld)) as [c|]; [|reflexivity].
    destruct (isalpha c); cbn [orb]; [reflexivity|].
    change c_dot with 46%N. destruct (N.eqb c 46%N); [reflexivity|]. cbn [bind]. exact Hacc. }
  (* the occurrence the loop starts from is in range, so the fuel suffices *)
  assert (Hocc : find ws tld <> -1 -> occ_ok ws tld (find ws tld))
    by (intros Hne; destruct (find_bounds _ _ _ eq_refl Hne); split; assumption).
  pose proof (web_while_sim (L' := list section) (fst sec) ws tld wcond wbody Hc Hb
                (S (S (length ws))) (find ws tld) (find ws tld)) as Hw.
  destruct (web_scan isalpha (S (S (length ws))) ws tld (find ws tld) (find ws tld)) as [r|] eqn:Es.
  - specialize (Hw r eq_refl (S (S (length ws))) (le_n _)). destruct r as [T'|].
    + match goal with |- context [@while_ ?R ?L ?L' ?f ?st wcond wbody] =>
        let w := constr:(@while_ R L L' f st wcond wbody) in
        change (ends_as w (web_accept (fst sec) ws tld T')) in Hw; revert Hw; destruct w
      end; cbn [ends_as]; intros Hw; try tauto; cbn [bind run dres_web]; first [exact Hw | now rewrite Hw].
    + destruct Hw as (e' & T' & Hw).
      match goal with |- context [@while_ ?R ?L ?L' ?f ?st wcond wbody] =>
        let w := constr:(@while_ R L L' f st wcond wbody) in
        change (w = Next (e', T', [])) in Hw; rewrite Hw
      end. cbn [bind]. apply IH.
  - exfalso. revert Es. apply web_scan_fuel; [assumption|assumption|lia|].
    intros Hne. destruct (Hocc Hne). unfold len in *. lia.
Qed.

Lemma detect_website_never_err s : Forall (fun t => 1 <= len t) tlds -> detect_website isalpha lower_c true tlds s <> DErr.
Proof.
  intros Htl. unfold detect_website. destruct (negb _); [discriminate|]. now apply web_go_no_err.
Qed.

(* website_detection: the loop `while index < len(section_list)` against Detect.drive; what
   it returns is the final section list, the URLs, the hosts and the prefixes found *)
Theorem py_website_detection_eq (sl : list section) : Forall (fun t => 1 <= len t) tlds ->
  py_website_detection isalpha lower_c tlds sl =
  match drive_all (detect_website isalpha lower_c true tlds) false sl with
  | None => None
  | Some (out, fs) => Some (out, map (fun f => fst (fst f)) fs, map (fun f => Some (snd (fst f))) fs, map snd fs)
  end.
Proof.
  intros Htl. unfold py_website_detection, drive_all. cbv zeta.
  match goal with |- context [while_ _ _ ?c ?b] => set (wcond := c); set (wbody := b) end.
  pose proof (driver_sim (str * str * option str) (list str * list (option str) * list (option str)) _ _ Empty_set
                (detect_website isalpha lower_c true tlds) false
                (fun a f => (fst (fst a) ++ [fst (fst f)], snd (fst a) ++ [Some (snd (fst f))], snd a ++ [snd f]))
                (fun '(idx, sl, ul, hl, pl) =>
                   (sl : list section, (ul : list str, hl : list (option str), pl : list (option str)), idx : Z)) wcond wbody) as H.
  match type of H with ?A -> ?B -> _ => assert (Hc : A); [|assert (Hb : B)] end.
  { unfold wcond. intros [[[[idx sl0] ul] hl] pl] ? ? ? E. injection E as E1 E2 E3. subst. reflexivity. }
  { unfold wbody. intros [[[[idx sl0] ul] hl] pl] done x rest acc Hg. cbn in Hg. injection Hg as E1 E2 E3. subst sl0 acc idx.
    unfold goes_on. cbv beta iota zeta. unfold sub_l. rewrite !lget_mid.
    destruct x as [s [l|]]; cbn [snd fst is_none bind]; [goes_on_now|].
    pose proof (py_detect_website_eq (s, None) Htl) as E. cbn [fst] in E.
    pose proof (detect_website_never_err s Htl) as Hne. rewrite <- E in Hne |- *. clear E.
    destruct (py_detect_website isalpha lower_c tlds (s, None)) as [[[[pvv [[|c f]|]] h] pr]|];
      cbn [dres_web nonempty call truthy] in Hne |- *; [goes_on_now| |goes_on_now|reflexivity].
    rewrite ldel_mid. destruct pvv as [x|l]; cbn [call pv_list bind]; [reflexivity|].
    destruct h as [q|]; [|now elim Hne]. rewrite lins_mid. goes_on_now. }
  specialize (H Hc Hb (drive_fuel sl) sl [] (0, sl, [], [], []) ([], [], []) eq_refl).
  destruct (drive (detect_website isalpha lower_c true tlds) false (drive_fuel sl) sl) as [[out fs]|].
  - destruct H as (st' & i & -> & Hg). destruct st' as [[[[idx sl'] ul] hl] pl]. cbn [bind run app].
    assert (Hf : forall fs a b c,
      fold_left (fun (a : list str * list (option str) * list (option str)) (f : str * str * option str) =>
                   (fst (fst a) ++ [fst (fst f)], snd (fst a) ++ [Some (snd (fst f))], snd a ++ [snd f])) fs (a, b, c) =
      (a ++ map (fun f => fst (fst f)) fs, b ++ map (fun f => Some (snd (fst f))) fs, c ++ map snd fs)).
    { clear. induction fs as [|f fs IH]; intros a b c; cbn [fold_left map fst snd]; [now rewrite !app_nil_r|].
      rewrite IH, <- !app_assoc. reflexivity. }
    rewrite Hf in Hg. injection Hg as E1 E2 E3 E4 E5. subst. reflexivity.
  - now rewrite H.
Qed.

End Web.
