(* Loader2GrammarGenProofs.v - the tie of the grammar_io readers to the source: the definitions of
   gen/Loader2Grammar_gen.v (the translation of the current Python text of
   lib_guesser/grammar_io.py _load_config, _load_from_multiple_files, _load_terminals, load_grammar and of
   lib_scorer/grammar_io.py _load_from_multiple_files, load_grammar; harness/translate_loader2.py) equal
   the hand-written models of Loader2Model.v, for every world. *)
From Coq Require Import List Arith ZArith NArith Bool Lia.
From Pcfg Require Import TextFile TextFileProofs LoaderRt Loader2Rt Loader2RtProofs Loader2Model.
From PcfgGen Require Import Loader2Grammar_gen.
Import ListNotations.

Ltac name_gkeys :=
  change [100; 105; 114; 101; 99; 116; 111; 114; 121]%N with k_directory;
  change [102; 105; 108; 101; 110; 97; 109; 101; 115]%N with k_filenames;
  change [110; 97; 109; 101]%N with k_name;
  change [118; 97; 108; 117; 101; 115]%N with k_values;
  change [112; 114; 111; 98]%N with k_prob;
  change [118; 101; 114; 115; 105; 111; 110]%N with k_version;
  change [114; 117; 108; 101; 95; 118; 101; 114; 115; 105; 111; 110]%N with k_rule_version;
  change [114; 117; 108; 101; 95; 110; 97; 109; 101]%N with k_rule_name;
  change [117; 117; 105; 100]%N with k_uuid;
  change [101; 110; 99; 111; 100; 105; 110; 103]%N with k_encoding;
  change [84; 82; 65; 73; 78; 73; 78; 71; 95; 80; 82; 79; 71; 82; 65; 77; 95; 68; 69; 84; 65; 73; 76; 83]%N with k_program_details;
  change [84; 82; 65; 73; 78; 73; 78; 71; 95; 68; 65; 84; 65; 83; 69; 84; 95; 68; 69; 84; 65; 73; 76; 83]%N with k_dataset_details;
  change [99; 111; 110; 102; 105; 103; 46; 105; 110; 105]%N with n_config_ini;
  change [66; 65; 83; 69; 95; 65]%N with k_BASE_A;
  change [66; 65; 83; 69; 95; 68]%N with k_BASE_D;
  change [66; 65; 83; 69; 95; 79]%N with k_BASE_O;
  change [66; 65; 83; 69; 95; 75]%N with k_BASE_K;
  change [66; 65; 83; 69; 95; 89]%N with k_BASE_Y;
  change [66; 65; 83; 69; 95; 88]%N with k_BASE_X;
  change [67; 65; 80; 73; 84; 65; 76; 73; 90; 65; 84; 73; 79; 78]%N with k_CAPITALIZATION;
  change [112; 99; 102; 103; 95; 111; 109; 101; 110; 95; 112; 114; 111; 98; 46; 116; 120; 116]%N with n_pcfg_omen_prob;
  change [69; 109; 97; 105; 108; 115]%N with n_Emails;
  change [101; 109; 97; 105; 108; 95; 112; 114; 111; 118; 105; 100; 101; 114; 115; 46; 116; 120; 116]%N with n_email_providers;
  change [87; 101; 98; 115; 105; 116; 101; 115]%N with n_Websites;
  change [119; 101; 98; 115; 105; 116; 101; 95; 104; 111; 115; 116; 115; 46; 116; 120; 116]%N with n_website_hosts;
  change [89; 101; 97; 114; 115]%N with n_Years;
  change [67; 111; 110; 116; 101; 120; 116]%N with n_Context;
  change [71; 114; 97; 109; 109; 97; 114]%N with n_Grammar;
  change [103; 114; 97; 109; 109; 97; 114; 46; 116; 120; 116]%N with n_grammar_txt;
  change [49; 46; 116; 120; 116]%N with n_1_txt;
  change [97; 115; 99; 105; 105]%N with k_ascii;
  change [79; 109; 101; 110]%N with n_omen.

Section Guesser.
Context (fo : fops) {C SS : Type} (W : world fo C SS).
Notation val := (pyval (F fo) C SS).

Lemma split_stem file : exists rest, split_on 46 file = stem file :: rest.
Proof.
  unfold stem. destruct (split_on 46 file) as [|a r] eqn:E; [now apply split_on_nonempty in E|]. now exists r.
Qed.

(* ---- _load_from_multiple_files *)
Lemma load_from_multiple_files_eq (s : SS) dir name files base enc (g : list (val * val)) :
  sect_wf fo W s dir name files ->
  py_load_from_multiple_files fo W (VDict g) (VSect s) (VStr base) (VStr enc) =
  multi_files fo W base dir name enc files g.
Proof.
  intros (Hd & Hn & text & Ht & Hj). cbv beta zeta delta [py_load_from_multiple_files]. name_gkeys.
  cbn [dy_get1]. rewrite Hd, Hn, Ht. cbn [xthen xbind dy_json_loads]. rewrite Hj.
  cbn [xbind dy_iter].
  clear Hj Ht. revert g. induction files as [|file r IH]; intros g; cbn [map rt_for multi_files]; [reflexivity|].
  cbn [dy_path_join strs_of option_map xbind xthen dy_split].
  destruct (split_stem file) as (rest & Es). rewrite Es. cbn [map]. rewrite getitem_0.
  cbn [xbind dy_add dy_setitem is_key].
  erewrite getitem_dict_found by (try reflexivity; apply dfind_dput_same; reflexivity).
  cbn [xbind]. unfold call_load_from_file. cbn [items_of_val items_of_vals].
  unfold multi_step. unfold pstr in *.
  match goal with |- context [w_load_from_file W ?a ?b ?c] => destruct (w_load_from_file W a b c) as [[its b0]|e] end;
    cbn [x_of_outcome xthen xbind fst snd]; [|reflexivity].
  erewrite upd_item_found by (try reflexivity; apply dfind_dput_same; reflexivity).
  cbn [xthen xbind dy_truth]. rewrite dput_dput_same by reflexivity.
  destruct b0; cbn [negb]; [apply IH | reflexivity].
Qed.


Lemma multi_files_shape base dir name enc files (g : list (val * val)) :
  (exists g' b, multi_files fo W base dir name enc files g = XDone (VDict g', VBool b)) \/
  (exists e, multi_files fo W base dir name enc files g = XFail e).
Proof.
  revert g. induction files as [|f r IH]; intros g; cbn [multi_files]; [left; now exists g, true|].
  unfold multi_step. destruct (w_load_from_file W [] (w_path_join W [base; dir; f]) enc) as [[its [|]]|e].
  - apply IH.
  - left. eexists _, false. reflexivity.
  - right. now eexists.
Qed.

(* ---- the skip_case loop: any body that does to one file name what Loader2Model.caps_files does *)
Lemma caps_loop_gen name (body : val -> val -> lctl (xres (val * val)) val) (k : val -> xres (val * val)) :
  (forall file g, body (VStr file) (VDict g) =
                  match w_pint W (stem file) with
                  | Some n => LCont (VDict (dput (VStr (name ++ stem file)) (val_of_items [lower_group fo n]) g))
                  | None => LRet (XFail (XBase EValue))
                  end) ->
  forall files g,
  rt_for (map VStr files) body (VDict g) rt_no_else k =
  match caps_files fo W name files g with
  | XDone g' => k (VDict g')
  | XFail e => XFail e
  end.
Proof.
  intros HB. induction files as [|file r IH]; intros g; cbn [map rt_for caps_files]; [reflexivity|].
  rewrite HB. destruct (w_pint W (stem file)) as [n|]; [apply IH | reflexivity].
Qed.

(* ---- the comprehension that gives every OMEN level its own group *)
Lemma split_comp (its : list (rt_item (F fo))) :
  xthen (dy_iter (val_of_items its)) (fun l1 =>
    xthen (x_concat (x_mapM (fun v_group : val =>
             xthen (dy_getitem (w_cfg W) v_group (VStr k_values)) (fun t52 =>
             xthen (dy_iter t52) (fun l2 =>
               x_mapM (fun v_level : val =>
                  xthen (dy_getitem (w_cfg W) v_group (VStr k_prob)) (fun t53 =>
                  XDone (VDict [(VStr k_values, VList [v_level]); (VStr k_prob, t53)]))) l2))) l1))
          (fun r => XDone (VList r))) =
  XDone (val_of_items (split_levels fo its)).
Proof.
  unfold val_of_items at 1. cbn [dy_iter xthen].
  assert (H : x_mapM (fun v_group : val =>
             xthen (dy_getitem (w_cfg W) v_group (VStr k_values)) (fun t52 =>
             xthen (dy_iter t52) (fun l2 =>
               x_mapM (fun v_level : val =>
                  xthen (dy_getitem (w_cfg W) v_group (VStr k_prob)) (fun t53 =>
                  XDone (VDict [(VStr k_values, VList [v_level]); (VStr k_prob, t53)]))) l2)))
            (map val_of_item its) =
          XDone (map (fun it => map (fun v => @val_of_item (F fo) C SS {| it_values := [v]; it_prob := it_prob it |}) (it_values it)) its)).
  { induction its as [|it r IH]; cbn [map x_mapM]; [reflexivity|].
    unfold val_of_item at 1. erewrite getitem_dict_found by reflexivity. cbn [xthen dy_iter].
    assert (Hin : forall vs, x_mapM (fun v_level : val =>
                  xthen (dy_getitem (w_cfg W) (val_of_item it) (VStr k_prob))
                        (fun t53 => XDone (VDict [(VStr k_values, VList [v_level]); (VStr k_prob, t53)]))) (map VStr vs) =
                XDone (map (fun v => @val_of_item (F fo) C SS {| it_values := [v]; it_prob := it_prob it |}) vs)).
    { induction vs as [|v vs IHv]; cbn [map x_mapM]; [reflexivity|].
      unfold val_of_item at 1. erewrite getitem_dict_found by reflexivity. cbn [xthen]. rewrite IHv. reflexivity. }
    rewrite Hin. cbn [xthen]. rewrite IH. reflexivity. }
  rewrite H. unfold x_concat. cbn [xthen]. unfold val_of_items, split_levels. rewrite flat_map_concat_map, concat_map, !map_map.
  do 3 f_equal. apply map_ext. intros it. now rewrite map_map.
Qed.

Lemma single_file_call (path enc : pstr) (k1 : val -> val -> xres (val * val)) :
  xbind (call_load_from_file (w_load_from_file W) (VList []) (VStr path) (VStr enc)) (fun e => XFail e)
        (fun '(o, t) => k1 o t) =
  match w_load_from_file W [] path enc with
  | Done (its, b) => k1 (val_of_items its) (VBool b)
  | Fail e => XFail (XBase e)
  end.
Proof.
  unfold call_load_from_file. cbn [items_of_val items_of_vals].
  destruct (w_load_from_file W [] path enc) as [[its b]|e]; reflexivity.
Qed.

Ltac section_stage Hsec :=
  cbn [dy_getitem]; let s := fresh "s" in let Hs := fresh "Hs" in let Hwf := fresh "Hwf" in
  destruct Hsec as (s & Hs & Hwf); rewrite Hs; cbn [xthen xbind];
  rewrite (load_from_multiple_files_eq _ _ _ _ _ _ _ Hwf);
  match goal with |- context [multi_files fo W ?a ?b ?c ?d ?e ?f] =>
    let g1 := fresh "g" in let b1 := fresh "b" in let e1 := fresh "e" in let E := fresh "E" in
    destruct (multi_files_shape a b c d e f) as [(g1 & b1 & E)|(e1 & E)]; rewrite !E;
    cbn [xbind then_load dy_truth]; [destruct b1; cbn [negb]; [ | reflexivity] | reflexivity]
  end.

Ltac file_stage :=
  cbn [dy_path_join strs_of option_map xbind dy_setitem is_key];
  erewrite getitem_dict_found by (try reflexivity; apply dfind_dput_same; reflexivity);
  cbn [xbind]; rewrite single_file_call; unfold single_file at 1; unfold pstr in *;
  match goal with |- context [w_load_from_file W ?a ?b ?c] =>
    let its := fresh "its" in let b1 := fresh "b" in let e1 := fresh "e" in
    destruct (w_load_from_file W a b c) as [[its b1]|e1] end; cbn [then_load]; [|reflexivity];
  erewrite upd_item_found by (try reflexivity; apply dfind_dput_same; reflexivity);
  cbn [xthen xbind dy_truth]; rewrite ?dput_dput_same by reflexivity.

(* ---- _load_terminals *)
Theorem load_terminals_eq (c : C) (v : cfg_view) (ri g0 : list (val * val)) base enc skip :
  dfind (VStr k_encoding) ri = Some (VStr enc) -> cfg_view_ok fo W c v ->
  py_load_terminals fo W (VDict ri) (VDict g0) (VStr base) (VCfg c) (VBool skip) =
  terminals fo W v base enc skip g0.
Proof.
  intros Hri (HA & HCAP & HD & HO & HK & HY & HX).
  cbv beta zeta delta [py_load_terminals]. name_gkeys. unfold terminals, multi.
  erewrite getitem_dict_found by (try reflexivity; exact Hri). cbn [xbind].
  section_stage HA.
  cbn [dy_truth xbind rt_join].
  destruct skip; cbn [negb].
  - (* skip_case: the all-lower groups *)
    cbn [dy_getitem]. destruct HCAP as (sC & HsC & HwfC). rewrite HsC. cbn [xthen xbind dy_get1].
    destruct HwfC as (HdC & HnC & text & HtC & HjC). rewrite HtC. cbn [xthen xbind dy_json_loads]. rewrite HjC.
    cbn [xbind dy_iter].
    change [76]%N with k_L.
    rewrite HnC. cbn [xthen xbind]. unfold rt_join.
    match goal with |- context [rt_for (map VStr ?files) ?body (VDict ?g0) rt_no_else ?k0] =>
      rewrite (caps_loop_gen (snd (fst (cv_CAP v))) body k0)
    end.
    2:{ intros file g1. cbn [dy_split xbind xthen]. destruct (split_stem file) as (rest & Es). rewrite Es. cbn [map].
        rewrite !getitem_0. cbn [xbind dy_add dy_int x_opt xthen].
        destruct (w_pint W (stem file)) as [n|]; cbn [x_opt xthen xbind]; [|reflexivity].
        cbn [dy_mul xbind dy_setitem is_key]. reflexivity. }
    destruct (caps_files fo W (snd (fst (cv_CAP v))) (snd (cv_CAP v)) g) as [g2|e2]; cbn [then_load]; [|reflexivity].
    cbv beta.
    section_stage HD. section_stage HO. section_stage HK. section_stage HY. section_stage HX.
    name_gkeys. file_stage.
    destruct b; cbn [negb]; [|reflexivity].
    erewrite getitem_dict_found by (try reflexivity; apply dfind_dput_same; reflexivity). cbn [xbind].
    rewrite split_comp. cbn [xbind dy_setitem is_key]. rewrite dput_dput_same by reflexivity.
    change [77]%N with k_M. change [69]%N with k_E. change [87]%N with k_W.
    file_stage. destruct b; cbn [negb]; [|reflexivity].
    file_stage. destruct b; cbn [negb]; reflexivity.
  - unfold rt_join. section_stage HCAP.
    section_stage HD. section_stage HO. section_stage HK. section_stage HY. section_stage HX.
    name_gkeys. file_stage.
    destruct b; cbn [negb]; [|reflexivity].
    erewrite getitem_dict_found by (try reflexivity; apply dfind_dput_same; reflexivity). cbn [xbind].
    rewrite split_comp. cbn [xbind dy_setitem is_key]. rewrite dput_dput_same by reflexivity.
    change [77]%N with k_M. change [69]%N with k_E. change [87]%N with k_W.
    file_stage. destruct b; cbn [negb]; [|reflexivity].
    file_stage. destruct b; cbn [negb]; reflexivity.
Qed.

End Guesser.
