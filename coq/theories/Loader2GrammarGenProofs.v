(* Loader2GrammarGenProofs.v - the tie of the grammar_io readers to the source: the definitions of
   gen/Loader2Grammar_gen.v (the translation of the current Python text of
   lib_guesser/grammar_io.py _load_config, _load_from_multiple_files, _load_terminals, load_grammar and of
   lib_scorer/grammar_io.py _load_from_multiple_files, load_grammar; harness/translate_loader2.py) equal
   the hand-written models of Loader2Model.v, for every world. *)
From Coq Require Import List Arith ZArith NArith Bool Lia.
From Pcfg Require Import TextFile TextFileProofs LoaderRt Loader2Rt Loader2RtProofs Loader2Model.
From PcfgGen Require Import Loader2Grammar_gen.
Import ListNotations.

Ltac name_gkeys :=
  change [100; 105; 114; 101; 99; 116; 111; 114; 121]%N with k_directory;
  change [102; 105; 108; 101; 110; 97; 109; 101; 115]%N with k_filenames;
  change [118; 97; 108; 117; 101; 115]%N with k_values;
  change [112; 114; 111; 98]%N with k_prob;
  change [114; 117; 108; 101; 95; 118; 101; 114; 115; 105; 111; 110]%N with k_rule_version;
  change [118; 101; 114; 115; 105; 111; 110]%N with k_version;
  change [114; 117; 108; 101; 95; 110; 97; 109; 101]%N with k_rule_name;
  change [110; 97; 109; 101]%N with k_name;
  change [117; 117; 105; 100]%N with k_uuid;
  change [101; 110; 99; 111; 100; 105; 110; 103]%N with k_encoding;
  change [84; 82; 65; 73; 78; 73; 78; 71; 95; 80; 82; 79; 71; 82; 65; 77; 95; 68; 69; 84; 65; 73; 76; 83]%N with k_program_details;
  change [84; 82; 65; 73; 78; 73; 78; 71; 95; 68; 65; 84; 65; 83; 69; 84; 95; 68; 69; 84; 65; 73; 76; 83]%N with k_dataset_details;
  change [99; 111; 110; 102; 105; 103; 46; 105; 110; 105]%N with n_config_ini;
  change [66; 65; 83; 69; 95; 65]%N with k_BASE_A;
  change [66; 65; 83; 69; 95; 68]%N with k_BASE_D;
  change [66; 65; 83; 69; 95; 79]%N with k_BASE_O;
  change [66; 65; 83; 69; 95; 75]%N with k_BASE_K;
  change [66; 65; 83; 69; 95; 89]%N with k_BASE_Y;
  change [66; 65; 83; 69; 95; 88]%N with k_BASE_X;
  change [67; 65; 80; 73; 84; 65; 76; 73; 90; 65; 84; 73; 79; 78]%N with k_CAPITALIZATION;
  change [112; 99; 102; 103; 95; 111; 109; 101; 110; 95; 112; 114; 111; 98; 46; 116; 120; 116]%N with n_pcfg_omen_prob;
  change [69; 109; 97; 105; 108; 115]%N with n_Emails;
  change [101; 109; 97; 105; 108; 95; 112; 114; 111; 118; 105; 100; 101; 114; 115; 46; 116; 120; 116]%N with n_email_providers;
  change [87; 101; 98; 115; 105; 116; 101; 115]%N with n_Websites;
  change [119; 101; 98; 115; 105; 116; 101; 95; 104; 111; 115; 116; 115; 46; 116; 120; 116]%N with n_website_hosts;
  change [89; 101; 97; 114; 115]%N with n_Years;
  change [67; 111; 110; 116; 101; 120; 116]%N with n_Context;
  change [71; 114; 97; 109; 109; 97; 114]%N with n_Grammar;
  change [103; 114; 97; 109; 109; 97; 114; 46; 116; 120; 116]%N with n_grammar_txt;
  change [49; 46; 116; 120; 116]%N with n_1_txt;
  change [97; 115; 99; 105; 105]%N with k_ascii;
  change [79; 109; 101; 110]%N with n_omen.

Section Guesser.
Context (fo : fops) {C SS : Type} (W : world fo C SS).
Notation val := (pyval (F fo) C SS).

Lemma split_stem file : exists rest, split_on 46 file = stem file :: rest.
Proof.
  unfold stem. destruct (split_on 46 file) as [|a r] eqn:E; [now apply split_on_nonempty in E|]. now exists r.
Qed.

(* ---- _load_from_multiple_files *)
Lemma load_from_multiple_files_eq (s : SS) dir name files base enc (g : list (val * val)) :
  sect_wf fo W s dir name files ->
  py_load_from_multiple_files fo W (VDict g) (VSect s) (VStr base) (VStr enc) =
  multi_files fo W base dir name enc files g.
Proof.
  intros (Hd & Hn & text & Ht & Hj). cbv beta zeta delta [py_load_from_multiple_files]. name_gkeys.
  cbn [dy_get1]. rewrite Hd, Hn, Ht. cbn [xthen xbind dy_json_loads]. rewrite Hj.
  cbn [xbind dy_iter].
  clear Hj Ht. revert g. induction files as [|file r IH]; intros g; cbn [map rt_for multi_files]; [reflexivity|].
  cbn [dy_path_join strs_of option_map xbind xthen dy_split].
  destruct (split_stem file) as (rest & Es). rewrite Es. cbn [map]. rewrite getitem_0.
  cbn [xbind dy_add dy_setitem is_key].
  erewrite getitem_dict_found by (try reflexivity; apply dfind_dput_same; reflexivity).
  cbn [xbind]. unfold call_load_from_file. cbn [items_of_val items_of_vals].
  unfold multi_step. unfold pstr in *.
  match goal with |- context [w_load_from_file W ?a ?b ?c] => destruct (w_load_from_file W a b c) as [[its b0]|e] end;
    cbn [x_of_outcome xthen xbind fst snd]; [|reflexivity].
  erewrite upd_item_found by (try reflexivity; apply dfind_dput_same; reflexivity).
  cbn [xthen xbind dy_truth]. rewrite dput_dput_same by reflexivity.
  destruct b0; cbn [negb]; [apply IH | reflexivity].
Qed.


Lemma multi_files_shape base dir name enc files (g : list (val * val)) :
  (exists g' b, multi_files fo W base dir name enc files g = XDone (VDict g', VBool b)) \/
  (exists e, multi_files fo W base dir name enc files g = XFail e).
Proof.
  revert g. induction files as [|f r IH]; intros g; cbn [multi_files]; [left; now exists g, true|].
  unfold multi_step. destruct (w_load_from_file W [] (w_path_join W [base; dir; f]) enc) as [[its [|]]|e].
  - apply IH.
  - left. eexists _, false. reflexivity.
  - right. now eexists.
Qed.

(* ---- the skip_case loop: any body that does to one file name what Loader2Model.caps_files does *)
Lemma caps_loop_gen name (body : val -> val -> lctl (xres (val * val)) val) (k : val -> xres (val * val)) :
  (forall file g, body (VStr file) (VDict g) =
                  match w_pint W (stem file) with
                  | Some n => LCont (VDict (dput (VStr (name ++ stem file)) (val_of_items [lower_group fo n]) g))
                  | None => LRet (XFail (XBase EValue))
                  end) ->
  forall files g,
  rt_for (map VStr files) body (VDict g) rt_no_else k =
  match caps_files fo W name files g with
  | XDone g' => k (VDict g')
  | XFail e => XFail e
  end.
Proof.
  intros HB. induction files as [|file r IH]; intros g; cbn [map rt_for caps_files]; [reflexivity|].
  rewrite HB. destruct (w_pint W (stem file)) as [n|]; [apply IH | reflexivity].
Qed.

(* ---- the comprehension that gives every OMEN level its own group *)
Lemma split_comp (its : list (rt_item (F fo))) :
  xthen (dy_iter (val_of_items its)) (fun l1 =>
    xthen (x_concat (x_mapM (fun v_group : val =>
             xthen (dy_getitem (w_cfg W) v_group (VStr k_values)) (fun t52 =>
             xthen (dy_iter t52) (fun l2 =>
               x_mapM (fun v_level : val =>
                  xthen (dy_getitem (w_cfg W) v_group (VStr k_prob)) (fun t53 =>
                  XDone (VDict [(VStr k_values, VList [v_level]); (VStr k_prob, t53)]))) l2))) l1))
          (fun r => XDone (VList r))) =
  XDone (val_of_items (split_levels fo its)).
Proof.
  unfold val_of_items at 1. cbn [dy_iter xthen].
  assert (H : x_mapM (fun v_group : val =>
             xthen (dy_getitem (w_cfg W) v_group (VStr k_values)) (fun t52 =>
             xthen (dy_iter t52) (fun l2 =>
               x_mapM (fun v_level : val =>
                  xthen (dy_getitem (w_cfg W) v_group (VStr k_prob)) (fun t53 =>
                  XDone (VDict [(VStr k_values, VList [v_level]); (VStr k_prob, t53)]))) l2)))
            (map val_of_item its) =
          XDone (map (fun it => map (fun v => @val_of_item (F fo) C SS {| it_values := [v]; it_prob := it_prob it |}) (it_values it)) its)).
  { induction its as [|it r IH]; cbn [map x_mapM]; [reflexivity|].
    unfold val_of_item at 1. erewrite getitem_dict_found by reflexivity. cbn [xthen dy_iter].
    assert (Hin : forall vs, x_mapM (fun v_level : val =>
                  xthen (dy_getitem (w_cfg W) (val_of_item it) (VStr k_prob))
                        (fun t53 => XDone (VDict [(VStr k_values, VList [v_level]); (VStr k_prob, t53)]))) (map VStr vs) =
                XDone (map (fun v => @val_of_item (F fo) C SS {| it_values := [v]; it_prob := it_prob it |}) vs)).
    { induction vs as [|v vs IHv]; cbn [map x_mapM]; [reflexivity|].
      unfold val_of_item at 1. erewrite getitem_dict_found by reflexivity. cbn [xthen]. rewrite IHv. reflexivity. }
    rewrite Hin. cbn [xthen]. rewrite IH. reflexivity. }
  rewrite H. unfold x_concat. cbn [xthen]. unfold val_of_items, split_levels. rewrite flat_map_concat_map, concat_map, !map_map.
  do 3 f_equal. apply map_ext. intros it. now rewrite map_map.
Qed.

Lemma single_file_call (path enc : pstr) (k1 : val -> val -> xres (val * val)) :
  xbind (call_load_from_file (w_load_from_file W) (VList []) (VStr path) (VStr enc)) (fun e => XFail e)
        (fun '(o, t) => k1 o t) =
  match w_load_from_file W [] path enc with
  | Done (its, b) => k1 (val_of_items its) (VBool b)
  | Fail e => XFail (XBase e)
  end.
Proof.
  unfold call_load_from_file. cbn [items_of_val items_of_vals].
  destruct (w_load_from_file W [] path enc) as [[its b]|e]; reflexivity.
Qed.

Ltac section_stage Hsec :=
  cbn [dy_getitem]; let s := fresh "s" in let Hs := fresh "Hs" in let Hwf := fresh "Hwf" in
  destruct Hsec as (s & Hs & Hwf); rewrite Hs; cbn [xthen xbind];
  rewrite (load_from_multiple_files_eq _ _ _ _ _ _ _ Hwf);
  match goal with |- context [multi_files fo W ?a ?b ?c ?d ?e ?f] =>
    let g1 := fresh "g" in let b1 := fresh "b" in let e1 := fresh "e" in let E := fresh "E" in
    destruct (multi_files_shape a b c d e f) as [(g1 & b1 & E)|(e1 & E)]; rewrite !E;
    cbn [xbind then_load dy_truth]; [destruct b1; cbn [negb]; [ | reflexivity] | reflexivity]
  end.

Ltac file_stage :=
  cbn [dy_path_join strs_of option_map xbind dy_setitem is_key];
  erewrite getitem_dict_found by (try reflexivity; apply dfind_dput_same; reflexivity);
  cbn [xbind]; rewrite single_file_call; unfold single_file at 1; unfold pstr in *;
  match goal with |- context [w_load_from_file W ?a ?b ?c] =>
    let its := fresh "its" in let b1 := fresh "b" in let e1 := fresh "e" in
    destruct (w_load_from_file W a b c) as [[its b1]|e1] end; cbn [then_load]; [|reflexivity];
  erewrite upd_item_found by (try reflexivity; apply dfind_dput_same; reflexivity);
  cbn [xthen xbind dy_truth]; rewrite ?dput_dput_same by reflexivity.

(* ---- _load_terminals *)
Theorem load_terminals_eq (c : C) (v : cfg_view) (ri g0 : list (val * val)) base enc skip :
  dfind (VStr k_encoding) ri = Some (VStr enc) -> cfg_view_ok fo W c v ->
  py_load_terminals fo W (VDict ri) (VDict g0) (VStr base) (VCfg c) (VBool skip) =
  terminals fo W v base enc skip g0.
Proof.
  intros Hri (HA & HCAP & HD & HO & HK & HY & HX).
  cbv beta zeta delta [py_load_terminals]. name_gkeys. unfold terminals, multi.
  erewrite getitem_dict_found by (try reflexivity; exact Hri). cbn [xbind].
  section_stage HA.
  cbn [dy_truth xbind rt_join].
  destruct skip; cbn [negb].
  - (* skip_case: the all-lower groups *)
    cbn [dy_getitem]. destruct HCAP as (sC & HsC & HwfC). rewrite HsC. cbn [xthen xbind dy_get1].
    destruct HwfC as (HdC & HnC & text & HtC & HjC). rewrite HtC. cbn [xthen xbind dy_json_loads]. rewrite HjC.
    cbn [xbind dy_iter].
    change [76]%N with k_L.
    rewrite HnC. cbn [xthen xbind]. unfold rt_join.
    match goal with |- context [rt_for (map VStr ?files) ?body (VDict ?g0) rt_no_else ?k0] =>
      rewrite (caps_loop_gen (snd (fst (cv_CAP v))) body k0)
    end.
    2:{ intros file g1. cbn [dy_split xbind xthen]. destruct (split_stem file) as (rest & Es). rewrite Es. cbn [map].
        rewrite !getitem_0. cbn [xbind dy_add dy_int x_opt xthen].
        destruct (w_pint W (stem file)) as [n|]; cbn [x_opt xthen xbind]; [|reflexivity].
        cbn [dy_mul xbind dy_setitem is_key]. reflexivity. }
    destruct (caps_files fo W (snd (fst (cv_CAP v))) (snd (cv_CAP v)) g) as [g2|e2]; cbn [then_load]; [|reflexivity].
    cbv beta.
    section_stage HD. section_stage HO. section_stage HK. section_stage HY. section_stage HX.
    name_gkeys. file_stage.
    destruct b; cbn [negb]; [|reflexivity].
    erewrite getitem_dict_found by (try reflexivity; apply dfind_dput_same; reflexivity). cbn [xbind].
    rewrite split_comp. cbn [xbind dy_setitem is_key]. rewrite dput_dput_same by reflexivity.
    change [77]%N with k_M. change [69]%N with k_E. change [87]%N with k_W.
    file_stage. destruct b; cbn [negb]; [|reflexivity].
    file_stage. destruct b; cbn [negb]; reflexivity.
  - unfold rt_join. section_stage HCAP.
    section_stage HD. section_stage HO. section_stage HK. section_stage HY. section_stage HX.
    name_gkeys. file_stage.
    destruct b; cbn [negb]; [|reflexivity].
    erewrite getitem_dict_found by (try reflexivity; apply dfind_dput_same; reflexivity). cbn [xbind].
    rewrite split_comp. cbn [xbind dy_setitem is_key]. rewrite dput_dput_same by reflexivity.
    change [77]%N with k_M. change [69]%N with k_E. change [87]%N with k_W.
    file_stage. destruct b; cbn [negb]; [|reflexivity].
    file_stage. destruct b; cbn [negb]; reflexivity.
Qed.


(* ---- _load_config *)
Theorem load_config_eq (ri : list (val * val)) base ver :
  dfind (VStr k_version) ri = Some (VStr ver) ->
  py_load_config fo W (VDict ri) (VStr base) VCfgNew = load_config_model fo W ri base ver.
Proof.
  intros Hver. cbv beta zeta delta [py_load_config]. name_gkeys. unfold load_config_model.
  cbn [dy_path_join strs_of option_map xbind dy_cfg_read_file]. unfold pstr in *.
  match goal with |- _ = match ?o with _ => _ end => destruct o as [c|e] end; cbn [xthen xbind]; [|reflexivity].
  cbn [dy_cfg_get]. unfold pstr in *.
  match goal with |- _ = match ?o with _ => _ end => destruct o as [rv|e] end; cbn [xthen xbind]; [|reflexivity].
  cbn [dy_setitem is_key xbind].
  erewrite getitem_dict_found by (try reflexivity; rewrite dfind_dput_other by reflexivity; exact Hver).
  cbn [xbind dy_split]. destruct (split_stem ver) as (r1 & E1). rewrite E1. cbn [map]. rewrite getitem_0. cbn [xbind].
  erewrite getitem_dict_found by (try reflexivity; apply dfind_dput_same; reflexivity).
  cbn [xbind dy_split]. destruct (split_stem rv) as (r2 & E2). rewrite E2. cbn [map]. rewrite getitem_0.
  cbn [xbind dy_gt dy_lt].
  destruct (str_ltb (stem rv) (stem ver)); [reflexivity|].
  cbn [dy_cfg_get]. unfold pstr in *.
  match goal with |- _ = match ?o with _ => _ end => destruct o as [enc|e] end; cbn [xthen xbind]; [|reflexivity].
  cbn [dy_setitem is_key xbind dy_cfg_get]. unfold pstr in *.
  match goal with |- _ = match ?o with _ => _ end => destruct o as [u|e] end; cbn [xthen xbind]; reflexivity.
Qed.

Lemma load_config_shape ri base ver :
  (exists ri' cfg b, load_config_model fo W ri base ver = XDone (VDict ri', cfg, VBool b) /\
                     (b = true -> exists c, cfg = VCfg c)) \/
  (exists e, load_config_model fo W ri base ver = XFail e).
Proof.
  unfold load_config_model, config_fail.
  repeat match goal with
         | |- context [match ?o with XDone _ => _ | XFail _ => _ end] => destruct o
         | |- context [if ?b then _ else _] => destruct b
         end;
    first [ right; eexists; reflexivity
          | left; eexists _, _, _; split; [reflexivity | intros H; try discriminate H; eexists; reflexivity] ].
Qed.

(* ---- load_grammar *)
Theorem load_grammar_eq (rn base ver sb sc folder : val) :
  py_load_grammar fo W rn base ver sb sc folder =
  load_grammar_seq fo W (py_load_config fo W) (py_load_terminals fo W) rn base ver sb sc folder.
Proof.
  cbv beta zeta delta [py_load_grammar]. name_gkeys. unfold load_grammar_seq.
  destruct (py_load_config fo W (VDict [(VStr k_rule_name, rn); (VStr k_version, ver)]) base VCfgNew) as [[[o1 o2] t3]|e];
    cbn [xbind xthen fst snd]; [|reflexivity].
  destruct (dy_truth t3) as [b1|e]; cbn [xbind xthen]; [|reflexivity]. destruct b1; cbn [negb]; [|reflexivity].
  destruct (py_load_terminals fo W o1 (VDict []) base o2 sc) as [[o5 t6]|e]; cbn [xbind xthen fst snd]; [|reflexivity].
  destruct (dy_truth t6) as [b2|e]; cbn [xbind xthen]; [|reflexivity]. destruct b2; cbn [negb]; [|reflexivity].
  destruct (call_load_base_structures (w_load_base_structures W) (VList []) base sb folder) as [[o8 t9]|e];
    cbn [xbind xthen fst snd]; [|reflexivity].
  destruct (dy_truth t9) as [b3|e]; cbn [xbind xthen]; [|reflexivity]. destruct b3; reflexivity.
Qed.

End Guesser.

(* ================================================================ the scorer: lib_scorer/grammar_io.py *)

Ltac name_akeys :=
  change [99; 111; 117; 110; 116; 95; 121; 101; 97; 114; 115]%N with a_count_years;
  change [99; 111; 117; 110; 116; 95; 99; 111; 110; 116; 101; 120; 116; 95; 115; 101; 110; 115; 105; 116; 105; 118; 101]%N
    with a_count_context_sensitive;
  change [99; 111; 117; 110; 116; 95; 98; 97; 115; 101; 95; 115; 116; 114; 117; 99; 116; 117; 114; 101; 115]%N
    with a_count_base_structures;
  change [99; 111; 117; 110; 116; 95; 107; 101; 121; 98; 111; 97; 114; 100]%N with a_count_keyboard;
  change [99; 111; 117; 110; 116; 95; 97; 108; 112; 104; 97; 95; 109; 97; 115; 107; 115]%N with a_count_alpha_masks;
  change [99; 111; 117; 110; 116; 95; 97; 108; 112; 104; 97]%N with a_count_alpha;
  change [99; 111; 117; 110; 116; 95; 100; 105; 103; 105; 116; 115]%N with a_count_digits;
  change [99; 111; 117; 110; 116; 95; 111; 116; 104; 101; 114]%N with a_count_other.

Section Scorer.
Context (fo : fops) {C SS : Type} (W : world fo C SS).
Notation val := (pyval (F fo) C SS).

Lemma scorer_load_from_multiple_files_eq (s : SS) dir name files base enc (gc : list (val * val)) :
  sect_wf fo W s dir name files ->
  py_scorer_load_from_multiple_files fo W (VDict gc) (VSect s) (VStr base) (VStr enc) =
  smulti_files fo W base dir enc files gc.
Proof.
  intros (Hd & Hn & text & Ht & Hj). cbv beta zeta delta [py_scorer_load_from_multiple_files]. name_gkeys.
  cbn [dy_get1]. rewrite Hd, Ht. cbn [xthen xbind dy_json_loads]. rewrite Hj.
  cbn [xbind dy_iter].
  clear Hj Ht. revert gc. induction files as [|file r IH]; intros gc; cbn [map rt_for smulti_files]; [reflexivity|].
  cbn [dy_path_join strs_of option_map xbind xthen dy_split].
  destruct (split_stem file) as (rest & Es). rewrite Es. cbn [map]. rewrite getitem_0.
  cbn [xbind dy_int x_opt xthen]. unfold smulti_step.
  destruct (w_pint W (stem file)) as [n|]; cbn [x_opt xthen xbind]; [|reflexivity].
  cbn [dy_setitem is_key xbind].
  erewrite getitem_dict_found by (try reflexivity; apply dfind_dput_same; reflexivity).
  cbn [xbind]. unfold call_scorer_load_from_file. cbn [counter_of_val counter_of_vals]. unfold pstr in *.
  match goal with |- context [w_scorer_load_from_file W ?a ?b ?c] => destruct (w_scorer_load_from_file W a b c) as [[d b0]|e] end;
    cbn [x_of_outcome xthen xbind fst snd]; [|reflexivity].
  erewrite upd_item_found by (try reflexivity; apply dfind_dput_same; reflexivity).
  cbn [xthen xbind dy_truth]. rewrite dput_dput_same by reflexivity.
  destruct b0; cbn [negb]; [apply IH | reflexivity].
Qed.

Lemma smulti_files_shape base dir enc files (gc : list (val * val)) :
  (exists g' b, smulti_files fo W base dir enc files gc = XDone (VDict g', VBool b)) \/
  (exists e, smulti_files fo W base dir enc files gc = XFail e).
Proof.
  revert gc. induction files as [|f r IH]; intros gc; cbn [smulti_files]; [left; now exists gc, true|].
  unfold smulti_step. destruct (w_pint W (stem f)) as [n|]; [|right; now eexists].
  destruct (w_scorer_load_from_file W [] (w_path_join W [base; dir; f]) enc) as [[d [|]]|e].
  - apply IH.
  - left. eexists _, false. reflexivity.
  - right. now eexists.
Qed.


(* the attributes PCFGPasswordScorer.__init__ gives the object that load_grammar fills (empty dicts /
   Counters), in the order of their assignment *)
Definition scorer_obj0 : list (pstr * val) :=
  [ (a_count_keyboard, VDict []); (a_count_years, VDict []); (a_count_context_sensitive, VDict []);
    (a_count_alpha, VDict []); (a_count_alpha_masks, VDict []); (a_count_digits, VDict []);
    (a_count_other, VDict []); (a_count_base_structures, VDict []) ].

Definition ssection_ok (c : C) (sec : pstr) (df : pstr * list pstr) : Prop :=
  exists s name, cp_section (w_cfg W) c sec = XDone s /\ sect_wf fo W s (fst df) name (snd df).

Definition sviews_ok (c : C) (v : sviews) : Prop :=
  ssection_ok c k_BASE_K (sv_K v) /\ ssection_ok c k_BASE_A (sv_A v) /\ ssection_ok c k_CAPITALIZATION (sv_CAP v) /\
  ssection_ok c k_BASE_D (sv_D v) /\ ssection_ok c k_BASE_O (sv_O v).

(* no `cbn` on the whole goal here: every step is a rewrite with a small lemma (cheap to re-check) *)
Ltac sstep := first [rewrite xbind_done | rewrite xthen_done]; cbv beta iota.

Ltac sfile_stage :=
  match goal with |- context [dy_path_join ?pj [VStr ?a; VStr ?b; VStr ?c]] =>
    rewrite (path_join_strs pj [a; b; c] : dy_path_join pj [VStr a; VStr b; VStr c] = _) end; sstep;
  erewrite getattr_found by reflexivity; sstep;
  try (erewrite getattr_found by reflexivity; sstep);
  rewrite call_scorer_empty; unfold sfile_load at 1; unfold pstr in *;
  match goal with |- context [w_scorer_load_from_file W ?a ?b ?c] =>
    let d := fresh "d" in let b1 := fresh "b" in let e1 := fresh "e" in
    destruct (w_scorer_load_from_file W a b c) as [[d b1]|e1];
    [ sstep; erewrite upd_attr_set by reflexivity; sstep; rewrite truth_bool; sstep;
      destruct b1; cbv beta iota delta [negb]; [|reflexivity]
    | rewrite xbind_fail; reflexivity ]
  end.

Ltac smulti_stage Hsec :=
  erewrite getattr_found by reflexivity; sstep;
  rewrite getitem_cfg;
  let s := fresh "s" in let nm := fresh "nm" in let Hs := fresh "Hs" in let Hwf := fresh "Hwf" in
  destruct Hsec as (s & nm & Hs & Hwf); rewrite Hs; sstep; sstep;
  erewrite getattr_found by reflexivity; sstep;
  rewrite (scorer_load_from_multiple_files_eq _ _ _ _ _ _ _ Hwf); unfold smulti_load at 1;
  match goal with |- context [smulti_files fo W ?a ?b ?c ?d ?e] =>
    let g1 := fresh "g" in let b1 := fresh "b" in let e1 := fresh "e" in let E := fresh "E" in
    destruct (smulti_files_shape a b c d e) as [(g1 & b1 & E)|(e1 & E)]; rewrite !E;
    [ sstep; erewrite upd_attr_set by reflexivity; sstep; rewrite truth_bool; sstep;
      destruct b1; cbv beta iota delta [negb]; [|reflexivity]
    | rewrite xbind_fail; reflexivity ]
  end.

Theorem scorer_load_grammar_eq (v : sviews) base :
  (forall c, cp_read_file (w_cfg W) (w_path_join W [base; n_config_ini]) = XDone c -> sviews_ok c v) ->
  py_scorer_load_grammar fo W (VObj scorer_obj0) (VStr base) =
  scorer_grammar_model fo W v scorer_obj0 base.
Proof.
  intros Hv. cbv beta zeta delta [py_scorer_load_grammar]. name_gkeys. name_akeys. unfold scorer_grammar_model, sfail.
  rewrite (path_join_strs (w_path_join W) [base; n_config_ini] : dy_path_join _ [VStr base; VStr n_config_ini] = _).
  sstep. rewrite cfg_read_file_new. unfold pstr in *.
  match goal with |- _ = match ?o with _ => _ end => destruct o as [c|e] eqn:Ec end;
    [sstep; sstep | rewrite xthen_fail, xbind_fail; reflexivity].
  destruct (Hv c eq_refl) as (HK & HA & HCAP & HD & HO).
  rewrite cfg_get_str. unfold pstr in *.
  match goal with |- _ = match ?o with _ => _ end => destruct o as [enc|e] end;
    [sstep; sstep | rewrite xthen_fail, xbind_fail; reflexivity].
  rewrite setattr_obj. sstep.
  sfile_stage. sfile_stage. sfile_stage.
  smulti_stage HK. smulti_stage HA. smulti_stage HCAP. smulti_stage HD. smulti_stage HO.
  reflexivity.
Qed.

End Scorer.
