(* Loader2GrammarGenProofs.v - the tie of the grammar_io readers to the source: the definitions of
   gen/Loader2Grammar_gen.v (the translation of the current Python text of
   lib_guesser/grammar_io.py _load_config, _load_from_multiple_files, _load_terminals, load_grammar and of
   lib_scorer/grammar_io.py _load_from_multiple_files, load_grammar; harness/translate_loader2.py) equal
   the hand-written models of Loader2Model.v, for every world. *)
From Coq Require Import List Arith ZArith NArith Bool Lia.
From Pcfg Require Import TextFile TextFileProofs LoaderRt Loader2Rt Loader2RtProofs Loader2Model.
From PcfgGen Require Import Loader2Grammar_gen.
Import ListNotations.

Ltac name_gkeys :=
  change [100; 105; 114; 101; 99; 116; 111; 114; 121]%N with k_directory;
  change [102; 105; 108; 101; 110; 97; 109; 101; 115]%N with k_filenames;
  change [110; 97; 109; 101]%N with k_name;
  change [118; 97; 108; 117; 101; 115]%N with k_values;
  change [112; 114; 111; 98]%N with k_prob;
  change [118; 101; 114; 115; 105; 111; 110]%N with k_version;
  change [114; 117; 108; 101; 95; 118; 101; 114; 115; 105; 111; 110]%N with k_rule_version;
  change [114; 117; 108; 101; 95; 110; 97; 109; 101]%N with k_rule_name;
  change [117; 117; 105; 100]%N with k_uuid;
  change [101; 110; 99; 111; 100; 105; 110; 103]%N with k_encoding;
  change [84; 82; 65; 73; 78; 73; 78; 71; 95; 80; 82; 79; 71; 82; 65; 77; 95; 68; 69; 84; 65; 73; 76; 83]%N with k_program_details;
  change [84; 82; 65; 73; 78; 73; 78; 71; 95; 68; 65; 84; 65; 83; 69; 84; 95; 68; 69; 84; 65; 73; 76; 83]%N with k_dataset_details;
  change [99; 111; 110; 102; 105; 103; 46; 105; 110; 105]%N with n_config_ini;
  change [66; 65; 83; 69; 95; 65]%N with k_BASE_A;
  change [66; 65; 83; 69; 95; 68]%N with k_BASE_D;
  change [66; 65; 83; 69; 95; 79]%N with k_BASE_O;
  change [66; 65; 83; 69; 95; 75]%N with k_BASE_K;
  change [66; 65; 83; 69; 95; 89]%N with k_BASE_Y;
  change [66; 65; 83; 69; 95; 88]%N with k_BASE_X;
  change [67; 65; 80; 73; 84; 65; 76; 73; 90; 65; 84; 73; 79; 78]%N with k_CAPITALIZATION;
  change [112; 99; 102; 103; 95; 111; 109; 101; 110; 95; 112; 114; 111; 98; 46; 116; 120; 116]%N with n_pcfg_omen_prob;
  change [69; 109; 97; 105; 108; 115]%N with n_Emails;
  change [101; 109; 97; 105; 108; 95; 112; 114; 111; 118; 105; 100; 101; 114; 115; 46; 116; 120; 116]%N with n_email_providers;
  change [87; 101; 98; 115; 105; 116; 101; 115]%N with n_Websites;
  change [119; 101; 98; 115; 105; 116; 101; 95; 104; 111; 115; 116; 115; 46; 116; 120; 116]%N with n_website_hosts;
  change [89; 101; 97; 114; 115]%N with n_Years;
  change [67; 111; 110; 116; 101; 120; 116]%N with n_Context;
  change [71; 114; 97; 109; 109; 97; 114]%N with n_Grammar;
  change [103; 114; 97; 109; 109; 97; 114; 46; 116; 120; 116]%N with n_grammar_txt;
  change [49; 46; 116; 120; 116]%N with n_1_txt;
  change [97; 115; 99; 105; 105]%N with k_ascii;
  change [79; 109; 101; 110]%N with n_omen.

Section Guesser.
Context (fo : fops) {C SS : Type} (W : world fo C SS).
Notation val := (pyval (F fo) C SS).

Lemma split_stem file : exists rest, split_on 46 file = stem file :: rest.
Proof.
  unfold stem. destruct (split_on 46 file) as [|a r] eqn:E; [now apply split_on_nonempty in E|]. now exists r.
Qed.

(* ---- _load_from_multiple_files *)
Lemma load_from_multiple_files_eq (s : SS) dir name files base enc (g : list (val * val)) :
  sect_wf fo W s dir name files ->
  py_load_from_multiple_files fo W (VDict g) (VSect s) (VStr base) (VStr enc) =
  multi_files fo W base dir name enc files g.
Proof.
  intros (Hd & Hn & text & Ht & Hj). cbv beta zeta delta [py_load_from_multiple_files]. name_gkeys.
  cbn [dy_get1]. rewrite Hd, Hn, Ht. cbn [xthen xbind dy_json_loads]. rewrite Hj.
  cbn [xbind dy_iter].
  clear Hj Ht. revert g. induction files as [|file r IH]; intros g; cbn [map rt_for multi_files]; [reflexivity|].
  cbn [dy_path_join strs_of option_map xbind xthen dy_split].
  destruct (split_stem file) as (rest & Es). rewrite Es. cbn [map]. rewrite getitem_0.
  cbn [xbind dy_add dy_setitem is_key].
  erewrite getitem_dict_found by (try reflexivity; apply dfind_dput_same; reflexivity).
  cbn [xbind]. unfold call_load_from_file. cbn [items_of_val items_of_vals].
  unfold multi_step. unfold pstr in *.
  match goal with |- context [w_load_from_file W ?a ?b ?c] => destruct (w_load_from_file W a b c) as [[its b0]|e] end;
    cbn [x_of_outcome xthen xbind fst snd]; [|reflexivity].
  erewrite upd_item_found by (try reflexivity; apply dfind_dput_same; reflexivity).
  cbn [xthen xbind dy_truth]. rewrite dput_dput_same by reflexivity.
  destruct b0; cbn [negb]; [apply IH | reflexivity].
Qed.

End Guesser.
