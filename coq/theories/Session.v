(* Model of the guessing session loop and of the keyboard/status thread
     lib_guesser/cracking_session.py  CrackingSession.run (51-160), keypress (198-251)
     lib_guesser/pcfg_grammar.py      omen_generate_guesses (423-471)
     lib_princeling/wordlist_generation.py create_prince_wordlist (20-70)
   as a deterministic function of a SCHEDULE: which events the helper thread has
   consumed before each atomic step of the main loop.  Guesses are abstract
   (nat ids).  Definitions only; proofs in SessionProofs.v. *)
From Coq Require Import List Arith Bool.
Import ListNotations.

(* what happens in the helper thread, as seen by the main loop.  A line 'q' is
   two events: the flag is set (EvQuitFlag), later the thread has returned
   (EvThreadEnds) - the main loop can run in between.  EOF on stdin, any other
   exception of input(), and a failing print to stderr are EvThreadEnds alone. *)
Inductive ev :=
  | EvStatus        (* [ENTER]: status report on stderr *)
  | EvHelp          (* 'h' *)
  | EvQuitFlag      (* 'q' read: pcfg.should_exit = True *)
  | EvThreadEnds.   (* the thread is no longer alive *)

(* one popped pre-terminal: its probability is abstract (an id into the run),
   its guesses in order, and whether it is a Markov level (the quit flag is then
   polled after every guess) *)
Record pterm := { pid : nat; markov : bool; guesses : list nat }.

(* helper thread + shared flag *)
Record hstate := { alive : bool; should_exit : bool }.

Definition h_step (h : hstate) (e : ev) : hstate :=
  if negb (alive h) then h else
  match e with
  | EvStatus | EvHelp => h
  | EvQuitFlag => {| alive := true; should_exit := true |}
  | EvThreadEnds => {| alive := false; should_exit := should_exit h |}
  end.

Definition h_steps (h : hstate) (es : list ev) : hstate := fold_left h_step es h.

(* how the main loop decides that the user asked to quit:
   polls_flag = true  : `if self.pcfg.should_exit`          (repaired code)
   polls_flag = false : `if not user_thread.is_alive()`      (code as found)
   extracted from the source into Consts_gen.session_polls_quit_flag *)
Definition quit_seen (polls_flag : bool) (h : hstate) : bool :=
  if polls_flag then should_exit h else negb (alive h).

(* A schedule gives, for every atomic step of the main loop (numbered from 0 in
   execution order), the events the thread consumes just before it.  Atomic
   steps: one "pop + quit check" per pre-terminal, one per emitted guess. *)
Definition schedule := nat -> list ev.

(* observable outcome *)
Record outcome := {
  out : list nat;                 (* stdout: guess ids in order *)
  saved_at : option nat;          (* Some pid: session saved with that pre-terminal's probability *)
  omen_saved : option (nat * nat);(* Some (pid, j): Markov level pid interrupted after its j-th guess *)
  finished : bool                 (* ran to exhaustion (queue empty) *)
}.

(* emit the guesses of a Markov level, polling the flag after each guess;
   returns (emitted, steps used, Some j if interrupted after j guesses, thread state) *)
Fixpoint emit_markov (sch : schedule) (t : nat) (h : hstate) (gs : list nat) (j : nat)
  : list nat * nat * option nat * hstate :=
  match gs with
  | [] => ([], t, None, h)
  | g :: r =>
      let h' := h_steps h (sch t) in      (* events before this guess is printed *)
      if should_exit h' then ([g], S t, Some (S j), h')   (* omen loop reads the flag itself *)
      else let '(o, t', i, h'') := emit_markov sch (S t) h' r (S j) in (g :: o, t', i, h'')
  end.

(* plain pre-terminal: guesses are emitted without looking at the flag *)
Fixpoint emit_plain (sch : schedule) (t : nat) (h : hstate) (gs : list nat) : nat * hstate :=
  match gs with
  | [] => (t, h)
  | _ :: r => emit_plain sch (S t) (h_steps h (sch t)) r
  end.

(* the main loop over the pre-terminals in pop order *)
Fixpoint loop (polls_flag : bool) (sch : schedule) (t : nat) (h : hstate) (pts : list pterm)
         (acc : list nat) (om : option (nat * nat)) : outcome :=
  match pts with
  | [] => {| out := acc; saved_at := None; omen_saved := om; finished := true |}
  | p :: rest =>
      let h1 := h_steps h (sch t) in              (* events before the pop + check *)
      if quit_seen polls_flag h1
      then {| out := acc; saved_at := Some (pid p); omen_saved := om; finished := false |}
      else if markov p then
        let '(o, t', i, h2) := emit_markov sch (S t) h1 (guesses p) 0 in
        loop polls_flag sch t' h2 rest (acc ++ o)
             (match i with Some j => Some (pid p, j) | None => om end)
      else
        let '(t', h2) := emit_plain sch (S t) h1 (guesses p) in
        loop polls_flag sch t' h2 rest (acc ++ guesses p) om
  end.

Definition h0 : hstate := {| alive := true; should_exit := false |}.

Definition run_session (polls_flag : bool) (sch : schedule) (pts : list pterm) : outcome :=
  loop polls_flag sch 0 h0 pts [] None.

Definition full_stream (pts : list pterm) : list nat := flat_map guesses pts.

Definition quiet : schedule := fun _ => [].

(* ---------------- --limit ---------------- *)

(* the session loop with a limit: every pre-terminal emits the first [l] of its
   guesses (C04_limit / omen_emit), the loop subtracts the count and stops at <= 0.
   None and Some 0 mean "no limit" (Python's `if limit:`). *)
Fixpoint limited (pts : list (list nat)) (l : option nat) : list nat :=
  match pts with
  | [] => []
  | gs :: rest =>
      match l with
      | Some (S k) =>
          let o := firstn (S k) gs in
          if Nat.leb (S k) (length o) then o else o ++ limited rest (Some (S k - length o))
      | _ => gs ++ limited rest l
      end
  end.

(* PRINCE-LING: `while max_size is None or generated < max_size`, with the
   remaining size passed (or not) to create_guesses.
   passes_limit = Consts_gen.prince_passes_remaining_size *)
Fixpoint prince (passes_limit : bool) (pts : list (list nat)) (generated : nat) (size : option nat) : list nat :=
  match pts with
  | [] => []
  | gs :: rest =>
      match size with
      | None => gs ++ prince passes_limit rest (generated + length gs) size
      | Some n =>
          if Nat.ltb generated n then
            let o := if passes_limit then firstn (n - generated) gs else gs in
            o ++ prince passes_limit rest (generated + length o) size
          else []
      end
  end.
