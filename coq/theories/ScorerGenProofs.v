(* Translator tie of the scorer (C13): gen/Scorer_gen.v `py_pcfg_scorer_parse` - the
   line-by-line image of PCFGPasswordScorer.parse, regenerated from the Python
   source on every run by harness/translate_scorer.py - equals the hand-written
   model Scorer.score over Segment.parse, for every probability type, every
   choice of the character predicates and data constants, every scorer object
   and every string.

   The proofs are written against what the generated definition COMPUTES, not
   against its text: the detector calls are resolved with the stage equations
   of Segment.parse, every loop is rewritten with a lemma whose side condition
   (the loop body, for all items and accumulators) is closed by conversion,
   tests are decided by case analysis.  Renamed locals, `x = x * e`, early
   returns instead of the category variable, an inlined helper, another form of
   the classification cut-off keep checking; a dropped / duplicated / reordered
   factor, another table, a detector called at another point of the pipeline, a
   changed return value do not.

     gen_ok         the segmentation returns r  ->  the translated parse returns
                    ScorerRt.parse_result b self s r for some outcome b of the
                    cut-off test (which only chooses the letter o / p)
     gen_err        the segmentation raises  ->  so does the translated parse,
                    unless it had already returned for an e-mail / website
     gen_is_score   (category as e / w / other, probability) = Scorer.score *)
From Coq Require Import List ZArith NArith Bool Lia.
From Pcfg Require Import Str Multiword Detect Segment Scorer ScorerRt.
From PcfgGen Require Import Scorer_gen.
Import ListNotations.
Open Scope Z_scope.

(* ---- the loops: for_each with the body the translator emits is the fold of
   the model (the hypothesis is about the body as a function: any text that
   computes the same thing fits) *)
Section Loops.
Variable P : Type.
Variable pmul : P -> P -> P.
Variables p0 p1 : P.
Variable upper_c : N -> str.
Context {R : Type}.

Lemma for_each_len t (body : str -> P -> out R P) :
  (forall item a, body item a = bind (getitem_len t (len item)) (fun e => Norm (pmul a (getitem_counter p0 e item)))) ->
  forall l acc, for_each l body acc = match mul_len P pmul p0 t l acc with Some v => Norm v | None => Exc KeyError end.
Proof.
  intros Hb l. induction l as [|i l IH]; intros acc; [reflexivity|].
  cbn [for_each mul_len]. rewrite Hb. unfold getitem_len, lookup_len, getitem_counter.
  destruct (by_len P t (len i)); cbn [bind]; [apply IH|reflexivity].
Qed.

Lemma for_each_flat d (body : str -> P -> out R P) :
  (forall item a, body item a = Norm (pmul a (getitem_counter p0 d item))) ->
  forall l acc, for_each l body acc = Norm (mul_flat P pmul p0 d l acc).
Proof.
  intros Hb l. induction l as [|i l IH]; intros acc; [reflexivity|].
  cbn [for_each mul_flat]. rewrite Hb. cbn [bind]. apply IH.
Qed.

Lemma rebuild_concat : forall word mask,
  concat (map (fun cm : N * N => let '(c, m) := cm in if N.eqb m 85%N then upper_c c else [c]) (combine word mask))
  = rebuild upper_c word mask.
Proof.
  induction word as [|c w IH]; intros [|m mk]; try reflexivity. cbn [combine map concat rebuild]. now rewrite IH.
Qed.

Lemma for_each_rebuild (body : str * str * str -> P -> out R P) :
  (forall t w m a, body (t, w, m) a = Norm (if str_eqb (rebuild upper_c w m) t then a else p0)) ->
  forall ts ws ms acc, for_each (zip3 ts ws ms) body acc = Norm (if rebuild_all upper_c ts ws ms then acc else p0).
Proof.
  intros Hb ts. induction ts as [|t ts IH]; intros [|w ws] [|m ms] acc; try reflexivity.
  cbn [zip3 for_each rebuild_all]. rewrite Hb. cbn [bind]. rewrite IH.
  destruct (str_eqb (rebuild upper_c w m) t); cbn [andb]; [reflexivity|]. now destruct (rebuild_all upper_c ts ws ms).
Qed.

Lemma nonempty_map {X Y} (f : X -> Y) l : nonempty (map f l) = nonempty l.
Proof. now destruct l. Qed.

Lemma alpha_sections_filter (f : section -> bool) :
  (forall x, f x = match snd x with Some (LA _) => true | _ => false end) ->
  forall sl, map (fun x : section => fst x) (filter f sl) = alpha_sections sl.
Proof.
  intros Hf sl. unfold alpha_sections. f_equal. apply filter_ext. exact Hf.
Qed.
End Loops.

(* evaluates tests on literals (category in ['e', 'w'], category == 'e') *)
Ltac closed_bools :=
  repeat match goal with
  | |- context [mem_str ?a ?b] =>
      let v := eval vm_compute in (mem_str a b) in
      match v with true => idtac | false => idtac end; change (mem_str a b) with v
  | |- context [str_eqb ?a ?b] =>
      let v := eval vm_compute in (str_eqb a b) in
      match v with true => idtac | false => idtac end; change (str_eqb a b) with v
  end.

(* ---- the translated parse against Scorer.score over Segment.parse *)
Section Generic.
Variable P : Type.
Variable pmul : P -> P -> P.
Variables p0 p1 : P.
Variables pltb pleb peqb : P -> P -> bool.
Variable upper_c : N -> str.
Variables isalpha isdigit isupper : N -> bool.
Variable lower_c : N -> str.
Variable aligned : bool.
Variable kbs : list board.
Variable fp_words : list str.
Variable min_run : Z.
Variable tlds : list str.
Variable year_prefixes : list str.
Variable context_strings : list str.
Variables mw_threshold mw_min_len mw_max_len : Z.

Notation MD := (model_detectors isalpha isdigit isupper lower_c aligned kbs fp_words min_run tlds year_prefixes
                                context_strings mw_threshold mw_min_len mw_max_len).
Notation PARSE := (parse isalpha isdigit isupper lower_c aligned kbs fp_words min_run tlds year_prefixes context_strings
                         mw_threshold mw_min_len mw_max_len).
Notation GEN := (py_pcfg_scorer_parse P pmul p0 p1 pltb pleb peqb upper_c MD).
Notation parse_result := (ScorerRt.parse_result P pmul p0 p1 upper_c).
Notation is_result := (ScorerRt.is_result P pmul p0 p1 upper_c).
Notation view := (ScorerRt.view P).

Lemma gen_ok self s r : PARSE (multiword_detector self) s = POk r -> is_result self s r (GEN self s).
Proof.
  unfold parse. intros H.
  destruct (detect_keyboard_walk _ _ _ _ _ _ _ _) as [[sl0 walks]|] eqn:E0; [|discriminate].
  destruct (drive_all (detect_email _ _ _) false sl0) as [[sl1 emails]|] eqn:E1; [|discriminate].
  destruct (drive_all (detect_website _ _ _ _) false sl1) as [[sl2 webs]|] eqn:E2; [|discriminate].
  destruct (drive_all (detect_year _ _) true sl2) as [[sl3 years]|] eqn:E3; [|discriminate].
  destruct (drive_all (detect_context _ _) true sl3) as [[sl4 ctx]|] eqn:E4; [|discriminate].
  destruct (drive_all (detect_alpha _ _ _ _ _) false sl4) as [[sl5 alphas]|] eqn:E5; [|discriminate].
  destruct (drive_all (detect_digits _) false sl5) as [[sl6 digits]|] eqn:E6; [|discriminate].
  destruct (other_detection sl6) as [sl7 others] eqn:E7.
  destruct (base_structure sl7) as [[sup base]|] eqn:E8; [|discriminate].
  injection H as <-.
  match goal with |- is_result _ _ ?rr _ => set (r := rr) end.
  unfold py_pcfg_scorer_parse.
  cbn [model_detectors d_detect_keyboard_walk d_email_detection d_website_detection d_year_detection
       d_context_sensitive_detection d_alpha_detection d_digit_detection d_other_detection d_base_structure_creation].
  rewrite E0. cbn [call bind]. rewrite E1. cbn [call bind]. rewrite E2. cbn [call bind].
  rewrite !nonempty_map.
  assert (Eem : nonempty (p_emails r) = nonempty emails) by apply nonempty_map.
  assert (Eur : nonempty (p_urls r) = nonempty webs) by apply nonempty_map.
  assert (Esu : p_supported r = sup) by reflexivity.
  destruct (nonempty emails); [exists false; unfold ScorerRt.parse_result; rewrite Eem; reflexivity|].
  destruct (nonempty webs); [exists false; unfold ScorerRt.parse_result; rewrite Eem, Eur; reflexivity|].
  cbn [bind]. closed_bools. cbn iota.
  rewrite E3. cbn [call bind]. rewrite E4. cbn [call bind]. rewrite E5. cbn [call bind]. rewrite E6. cbn [call bind].
  rewrite E7, E8. cbn [call bind].
  destruct sup; [|exists false; unfold ScorerRt.parse_result; rewrite Eem, Eur, Esu; reflexivity]. cbn [negb].
  (* the try block is Scorer.product *)
  match goal with |- is_result _ _ _ (run_fn (bind (@try_keyerror ?RR ?AA ?b ?h) ?k)) =>
    assert (Hp : @try_keyerror RR AA b h = Norm (product P pmul p0 p1 (rs_of self) r)) end.
  { unfold product. cbn [rs_of r_keyboard r_years r_context r_alpha r_masks r_digits r_other r_bases
                         r p_walks p_years p_context p_alpha p_masks p_digits p_other p_base].
    rewrite (for_each_len P pmul p0 (count_keyboard self)) by (intros; reflexivity).
    destruct (mul_len P pmul p0 (count_keyboard self) walks p1) as [a1|]; cbn [bind try_keyerror]; [|reflexivity].
    rewrite (for_each_flat P pmul p0 (count_years self)) by (intros; reflexivity). cbn [bind].
    rewrite (for_each_flat P pmul p0 (count_context_sensitive self)) by (intros; reflexivity). cbn [bind].
    rewrite (for_each_len P pmul p0 (count_alpha self)) by (intros; reflexivity).
    destruct (mul_len P pmul p0 (count_alpha self) _ _) as [a4|]; cbn [bind try_keyerror]; [|reflexivity].
    rewrite (for_each_len P pmul p0 (count_alpha_masks self)) by (intros; reflexivity).
    destruct (mul_len P pmul p0 (count_alpha_masks self) _ _) as [a5|]; cbn [bind try_keyerror]; [|reflexivity].
    rewrite (for_each_len P pmul p0 (count_digits self)) by (intros; reflexivity).
    destruct (mul_len P pmul p0 (count_digits self) _ _) as [a6|]; cbn [bind try_keyerror]; [|reflexivity].
    rewrite (for_each_len P pmul p0 (count_other self)) by (intros; reflexivity).
    destruct (mul_len P pmul p0 (count_other self) _ _) as [a7|]; cbn [bind try_keyerror]; [|reflexivity].
    reflexivity. }
  rewrite Hp. cbn [bind]. clear Hp.
  (* the rebuild check and the cut-off *)
  rewrite (alpha_sections_filter _) by (intros [t [[]|]]; reflexivity).
  rewrite (for_each_rebuild P p0 upper_c)
    by (intros t w m a; cbn [bind]; cbv beta; rewrite rebuild_concat; destruct (str_eqb _ t); reflexivity).
  cbn [bind].
  (* the classification: whatever the test is, it only chooses the letter *)
  assert (Erb : rebuild_ok upper_c r = rebuild_all upper_c (alpha_sections sl7) (flat_map fst alphas) (flat_map snd alphas))
    by reflexivity.
  unfold ScorerRt.is_result, ScorerRt.parse_result. rewrite Eem, Eur, Esu, Erb. cbn [negb]. cbv zeta.
  destruct (rebuild_all upper_c _ _ _); cbn [negb];
    repeat match goal with |- context [if ?c then _ else _] => destruct c; cbn [bind] end;
    first [exists true; reflexivity | exists false; reflexivity].
Qed.

(* when the segmentation raises: either the translated parse raises too, or it
   had already returned for an e-mail / website before the detector that
   raises was called (the model runs all detectors first) *)
Lemma gen_err self s : PARSE (multiword_detector self) s = PErr ->
  GEN self s = Raise OtherError \/
  GEN self s = Ok (s, s_e, p0, omen_parse (omen self) s) \/ GEN self s = Ok (s, s_w, p0, omen_parse (omen self) s).
Proof.
  unfold parse. intros H. unfold py_pcfg_scorer_parse.
  cbn [model_detectors d_detect_keyboard_walk d_email_detection d_website_detection d_year_detection
       d_context_sensitive_detection d_alpha_detection d_digit_detection d_other_detection d_base_structure_creation].
  destruct (detect_keyboard_walk _ _ _ _ _ _ _ _) as [[sl0 walks]|] eqn:E0; [|now left]. cbn [call bind].
  destruct (drive_all (detect_email _ _ _) false sl0) as [[sl1 emails]|] eqn:E1; [|now left]. cbn [call bind].
  destruct (drive_all (detect_website _ _ _ _) false sl1) as [[sl2 webs]|] eqn:E2; [|now left]. cbn [call bind].
  rewrite !nonempty_map.
  destruct (nonempty emails); [right; left; reflexivity|]. destruct (nonempty webs); [right; right; reflexivity|].
  left. cbn [bind]. closed_bools. cbn iota.
  destruct (drive_all (detect_year _ _) true sl2) as [[sl3 years]|] eqn:E3; [|reflexivity]. cbn [call bind].
  destruct (drive_all (detect_context _ _) true sl3) as [[sl4 ctx]|] eqn:E4; [|reflexivity]. cbn [call bind].
  destruct (drive_all (detect_alpha _ _ _ _ _) false sl4) as [[sl5 alphas]|] eqn:E5; [|reflexivity]. cbn [call bind].
  destruct (drive_all (detect_digits _) false sl5) as [[sl6 digits]|] eqn:E6; [|reflexivity]. cbn [call bind].
  destruct (other_detection sl6) as [sl7 others] eqn:E7.
  destruct (base_structure sl7) as [[sup base]|] eqn:E8; [discriminate|reflexivity].
Qed.

Lemma parse_result_view (seg : str -> presult) b self s r : seg s = POk r ->
  score P pmul p0 p1 true upper_c seg (rs_of self) s = Some (view (parse_result b self s r)).
Proof.
  intros E. unfold score, ScorerRt.parse_result. rewrite E.
  destruct (nonempty (p_emails r)); [reflexivity|]. destruct (nonempty (p_urls r)); [reflexivity|].
  destruct (negb (p_supported r)); [reflexivity|]. cbn [andb view].
  destruct b; reflexivity.
Qed.

Theorem gen_is_score self s : PARSE (multiword_detector self) s <> PErr ->
  res_map view (GEN self s) = lift (score P pmul p0 p1 true upper_c (PARSE (multiword_detector self)) (rs_of self) s).
Proof.
  intros H. destruct (PARSE (multiword_detector self) s) as [|r] eqn:E; [congruence|].
  destruct (gen_ok self s r E) as (b & ->). rewrite (parse_result_view _ b self s r E). reflexivity.
Qed.

(* the first and last components are the input and the OMEN score, the
   category is one of e w o p *)
Lemma parse_result_shape b self s r :
  let '(pw, c, p, o) := parse_result b self s r in
  pw = s /\ o = omen_parse (omen self) s /\ (c = s_e \/ c = s_w \/ c = s_o \/ c = s_p).
Proof using Type.
  unfold ScorerRt.parse_result.
  destruct (nonempty (p_emails r)); [repeat split; auto|]. destruct (nonempty (p_urls r)); [repeat split; auto|].
  destruct (negb (p_supported r)); [repeat split; auto|]. cbv zeta.
  destruct b; repeat split; auto.
Qed.

End Generic.
