(* PipelineProofs.v - property C03 over the ONE pipeline model of Pipeline.v:
   every supported training password (letters with a one-to-one case mapping)
   is printed by a complete session of the guesser on the ruleset the trainer
   saved, with skip_brute.

   reproduced_core     generic arithmetic, ideal disk: the loaded ruleset has a
                       pre-terminal whose expansion prints the password
   reproduced_emitted  ... which every complete session (any queue with
                       pop_ok_okb) emits, when the loaded ruleset is wf
   The instances (exact rationals, binary64 with the text files) are in
   PipelineQ.v / PipelineF64.v. *)
From Coq Require Import String List NArith ZArith Bool Lia Sorting.Permutation FinFun.
From Pcfg Require Import ProbAlg Str Multiword Detect Segment TextFile TextFileProofs Counters CountersProofs LtallyProofs
     Reader Loader Next NextSpec NextProofs Expand ExpandProofs EndToEnd
     DetectProofsDrive DetectProofsSeg DetectProofsPipe
     Pipeline PipelineStr PipelineTrain PipelineLoad.
Import ListNotations.
Local Open Scope nat_scope.

(* what the theorems assume of the environment (Python runtime oracles and
   constants of the source); discharged for the concrete environment of the
   current run in PipelineInst.v *)
Record env_ok (E : env) : Prop := {
  ok_aligned : e_aligned E = true;
  ok_good : forall c, goodc (e_isalpha E) (e_isdigit E) (e_lower E) c;
  ok_min_len : (1 <= e_mw_min_len E)%Z;
  ok_year : Forall (fun q => len q = 2%Z) (e_year_prefixes E);
  ok_tlds : Forall (fun t => (1 <= len t)%Z) (e_tlds E);
  ok_min_run : (4 <= e_min_run E)%Z;
  ok_rej_empty : e_rej_empty E = true;
  ok_rewinds : e_rewinds E = true;
  ok_letters : forallb (e_isalpha E) [75; 69; 87; 89; 88; 65; 68; 79; 77]%N = true;
  ok_digits : forall d, is_digit d = true -> e_isalpha E d = false
}.

(* the property's domain: every letter of the password is the upper case of
   its lower case (one character each) or is unchanged by lower() *)
Definition case_ok_pw (E : env) (pw : Str.str) : Prop :=
  Forall (fun c => e_isalpha E c = true ->
                   if e_isupper E c then e_upper E (lower1 (e_lower E) c) = [c] else lower1 (e_lower E) c = c) pw.

(* ------------------------------------------------------------------ *)
(* small list facts                                                    *)
(* ------------------------------------------------------------------ *)

Lemma NoDup_app_intro {X} (a b : list X) :
  NoDup a -> NoDup b -> (forall x, In x a -> ~ In x b) -> NoDup (a ++ b).
Proof.
  induction a as [|x a IH]; intros Ha Hb Hd; [assumption|]. simpl. inversion Ha; subst. constructor.
  - rewrite in_app_iff. intros [H|H]; [contradiction|]. apply (Hd x); [now left|assumption].
  - apply IH; [assumption|assumption|]. intros y Hy. apply Hd. now right.
Qed.

Lemma in_combine_seq {X} (l : list X) k x : nth_error l k = Some x -> In (k, x) (combine (seq 0 (length l)) l).
Proof.
  assert (G : forall s, nth_error l k = Some x -> In (s + k, x) (combine (seq s (length l)) l)).
  { revert k. induction l as [|a l IH]; intros k s H; [destruct k; discriminate|].
    destruct k; simpl in *.
    - injection H as ->. left. now rewrite Nat.add_0_r.
    - right. replace (s + S k) with (S s + k) by lia. now apply IH. }
  exact (G 0).
Qed.

Lemma slen_length a b : slen a = slen b -> length a = length b.
Proof. unfold slen. intros H. now apply Nat2N.inj. Qed.

(* ------------------------------------------------------------------ *)
(* the generic grouping keeps every value, in order                    *)
(* ------------------------------------------------------------------ *)

Section Group.
Context {A : palg}.
Variable R : parith A.

Lemma ggroups_values : forall l p vs, flat_map fst (ggroups R p vs l) = rev vs ++ map fst l.
Proof.
  induction l as [|[v q] r IH]; intros p vs; simpl.
  - now rewrite app_nil_r.
  - destruct (a_eqb R q p); simpl; rewrite IH; simpl; now rewrite <- ?app_assoc.
Qed.

Lemma ggroup_values l : flat_map fst (ggroup R l) = map fst l.
Proof. destruct l as [|[v p] r]; [reflexivity|]. simpl. now rewrite ggroups_values. Qed.

Lemma groups_of_values (c : list (TextFile.str * N)) v :
  In v (flat_map fst (groups_of R c)) <-> In v (map fst c).
Proof.
  unfold groups_of. rewrite ggroup_values.
  etransitivity; [exact (calc_probs_keys_in (ops_of R) (@of_counts (ops_of R) c) v)|].
  unfold of_counts. rewrite map_map. simpl. tauto.
Qed.

Lemma groups_of_pick (c : list (TextFile.str * N)) v d :
  In v (map fst c) -> exists i, i < length (groups_of R c) /\ In v (fst (nth i (groups_of R c) d)).
Proof.
  intros H. apply groups_of_values in H. apply in_flat_map in H. destruct H as (g & Hg & Hv).
  destruct (In_nth _ _ d Hg) as (i & Hi & E). exists i. split; [assumption|]. now rewrite E.
Qed.

Lemma groups_of_member (c : list (TextFile.str * N)) i d w :
  i < length (groups_of R c) -> In w (fst (nth i (groups_of R c) d)) -> In w (map fst c).
Proof.
  intros Hi Hw. apply groups_of_values. apply in_flat_map. exists (nth i (groups_of R c) d). split; [now apply nth_In|assumption].
Qed.
End Group.

(* ------------------------------------------------------------------ *)
(* variables by name                                                   *)
(* ------------------------------------------------------------------ *)

Section Vars.
Context {A : palg}.

Lemma var_of_nodup (g : grammar A) name v :
  NoDup (map fst g) -> In (name, v) g -> exists i, var_of g name = Some i /\ nth_error g i = Some (name, v).
Proof.
  induction g as [|[k w] g IH]; intros Hn Hin; [contradiction|]. simpl in *. inversion Hn as [|? ? Hk Hn']; subst.
  destruct Hin as [Hin|Hin].
  - injection Hin as -> ->. rewrite str_eqb_same. now exists 0.
  - destruct (TextFile.str_eqb name k) eqn:Ek.
    + apply str_eqb_true_iff in Ek. subst. exfalso. apply Hk. apply in_map_iff. now exists (k, v).
    + destruct (IH Hn' Hin) as (i & Hi & Hnth). exists (S i). rewrite Hi. now split.
Qed.

Lemma vars_of_app (g : grammar A) a b va vb :
  vars_of g a = Some va -> vars_of g b = Some vb -> vars_of g (a ++ b) = Some (va ++ vb).
Proof.
  revert va. induction a as [|n a IH]; intros va Ha Hb; simpl in *.
  - injection Ha as <-. assumption.
  - destruct (var_of g n) as [v|]; [|discriminate]. destruct (vars_of g a) as [vs|]; [|discriminate].
    injection Ha as <-. now rewrite (IH vs eq_refl Hb).
Qed.

Lemma bases_of_all (g : grammar A) bs :
  Forall (fun b => vars_of g (snd b) <> None) bs ->
  exists bl, bases_of g bs = Some bl /\
             Forall2 (fun b x => bprob x = fst b /\ vars_of g (snd b) = Some (brepl x)) bs bl.
Proof.
  induction 1 as [|[p names] bs Hb _ (bl & Hbl & HF)]; [exists []; split; [reflexivity|constructor]|].
  simpl in Hb. destruct (vars_of g names) as [vs|] eqn:Ev; [|congruence].
  exists ({| bprob := p; brepl := vs |} :: bl). simpl. rewrite Ev, Hbl. split; [reflexivity|].
  constructor; [simpl; now split|assumption].
Qed.
End Vars.

(* ------------------------------------------------------------------ *)
(* the core                                                            *)
(* ------------------------------------------------------------------ *)

Lemma map_eq_Forall2 {X Y Z} (f : X -> Z) (g : Y -> Z) : forall a b,
  map f a = map g b -> Forall2 (fun x y => f x = g y) a b.
Proof.
  induction a as [|x a IH]; destruct b as [|y b]; simpl; intros H; try discriminate; [constructor|].
  injection H as H1 H2. constructor; [assumption|now apply IH].
Qed.

Lemma nth_error_map_nth {X Y} (f : X -> Y) (l : list X) i e d : nth_error l i = Some e -> nth i (map f l) d = f e.
Proof. intros H. apply nth_error_nth. now apply map_nth_error. Qed.

Section Core.
Context {A : palg}.
Variable R : parith A.
Variable E : env.
Hypothesis HE : env_ok E.

Notation e_pm := (pm (e_lower E)).
Notation e_sound := (sound (e_isalpha E) (e_isdigit E) (e_kbs E) (e_min_run E) (e_year_prefixes E) (e_context E)).
Notation e_counters_ok := (counters_ok (e_isupper E) (e_lower E)).
Notation L1 := (lower1 (e_lower E)).

Definition parsed_ok (r : parsed) : Prop :=
  Forall e_sound (p_sections r) /\ Forall (fun y => snd y <> None) (p_sections r) /\ e_counters_ok r.

Lemma parse_pw_facts m pw : pw <> [] ->
  exists r, parse_pw E m pw = POk r /\ tiles e_pm pw (p_sections r) /\ parsed_ok r.
Proof.
  intros Hne.
  destruct (parse_pw_full E (ok_aligned E HE) (ok_good E HE) (ok_min_len E HE) (ok_year E HE) (ok_tlds E HE)
              (ok_min_run E HE) m pw Hne) as (r & H1 & H2 & H3 & H4 & H5).
  exists r. unfold parsed_ok. auto.
Qed.

Definition trained_of (o : options A) (raw : list Str.str) (rs : list parsed) : trained A :=
  {| t_counters := counters_of rs; t_n := N.of_nat (length (train_pws E raw)); t_cov := o_cov o; t_sens := o_sensitive o |}.

Lemma train_facts o raw tr : train E o raw = Some tr ->
  exists rs, tr = trained_of o raw rs /\ Forall parsed_ok rs /\
    forall pw, In pw raw -> accepted_pw E pw = true ->
      exists r, In r rs /\ segments E o raw pw = POk r /\ tiles e_pm pw (p_sections r).
Proof.
  intros H. destruct (train_inv E o raw tr H) as (rs & HF & _ & ->). exists rs. split; [reflexivity|].
  assert (Hne : Forall (fun pw => pw <> []) (train_pws E raw)).
  { apply Forall_forall. intros pw Hpw. apply (accepted_nonempty E pw (ok_rej_empty E HE)).
    apply filter_In in Hpw. tauto. }
  split.
  - clear H. induction HF as [|pw r pws rs Hpr _ IH]; [constructor|]. inversion Hne; subst.
    constructor; [|now apply IH].
    destruct (parse_pw_facts (train_map E o raw) pw ltac:(assumption)) as (r' & Er' & _ & Hok). congruence.
  - intros pw Hin Hacc. destruct (train_parsed E o raw rs pw HF Hin Hacc) as (r & Hr & Er).
    exists r. split; [assumption|]. split; [exact Er|].
    destruct (parse_pw_facts (train_map E o raw) pw (accepted_nonempty E pw (ok_rej_empty E HE) Hacc)) as (r' & Er' & Ht & _).
    congruence.
Qed.

(* sections and labels *)
Lemma sections_labels r : parsed_ok r -> Forall2 (fun x l => snd x = Some l) (p_sections r) (p_base r).
Proof.
  intros (_ & _ & Hc). destruct Hc as (_ & _ & _ & _ & _ & _ & _ & _ & _ & Hm & Hb & _).
  rewrite Hb. now apply map_eq_Forall2.
Qed.

Lemma sound_nonneg x l : e_sound x -> snd x = Some l -> label_nonneg l.
Proof.
  intros (_ & Hs) El. rewrite El in Hs. unfold len in Hs.
  destruct l; simpl; try exact I; destruct Hs as (-> & _); apply Nat2Z.is_nonneg.
Qed.

Lemma base_nonneg r : parsed_ok r -> Forall label_nonneg (p_base r).
Proof.
  intros Hok. pose proof (sections_labels r Hok) as HF. destruct Hok as (Hs & _).
  induction HF as [|x l sl ls Hx _ IH]; [constructor|]. inversion Hs; subst.
  constructor; [eapply sound_nonneg; eassumption|now apply IH].
Qed.

Lemma sec_names x l : e_sound x -> snd x = Some l -> supported_label' l = true ->
  map fst (sec_entries E x) = names_of_label l.
Proof.
  intros (_ & Hs) El Hsup. unfold sec_entries. rewrite El in *. unfold slen.
  destruct l; try discriminate; simpl; try reflexivity; destruct Hs as (-> & _); unfold len; now rewrite dec_of_Z_of_nat.
Qed.

(* ---- the grammar *)

Lemma term_counters_nodup P :
  NoDup (map fst (pc_alpha P)) -> NoDup (map fst (pc_masks P)) -> NoDup (map fst (pc_digits P)) ->
  NoDup (map fst (pc_other P)) -> NoDup (map fst (pc_keyboard P)) -> NoDup (map fst (term_counters P)).
Proof.
  intros NA NC ND NO NK. unfold term_counters. rewrite !map_app.
  assert (Hd : forall letter d (rest : list TextFile.str), (forall k, In k rest -> hd 0%N k <> letter) ->
             forall k, In k (map fst (lnamed letter d)) -> ~ In k rest).
  { intros letter d rest Hr k Hk Hin. apply lnamed_hd in Hk. now apply (Hr k). }
  assert (Hh : forall letter d k, In k (map fst (lnamed letter d)) -> hd 0%N k = letter) by (intros; eapply lnamed_hd; eassumption).
  repeat (apply NoDup_app_intro; [now apply lnamed_nodup| |
            apply Hd; intros k Hk; rewrite ?in_app_iff in Hk; simpl in Hk;
            repeat (destruct Hk as [Hk|Hk]; [try (apply Hh in Hk; rewrite Hk; discriminate); try (subst k; discriminate)|]);
            try contradiction; try (apply Hh in Hk; rewrite Hk; discriminate)]).
  simpl. constructor; [simpl; intros [H|[]]; discriminate|constructor; [intros []|constructor]].
Qed.

Lemma counters_nodup rs : NoDup (map fst (term_counters (counters_of rs))).
Proof. apply term_counters_nodup; apply ltally_keys_nodup. Qed.

Lemma grammar_keys P : map fst (grammar_of R P) = map fst (term_counters P).
Proof. unfold grammar_of. rewrite map_map. reflexivity. Qed.

Definition gdef : list TextFile.str * P A := ([], a_zero R).
Definition bound_in (g : grammar A) (vi : var * nat) : Prop :=
  snd vi < length (nth (fst vi) (map (fun e => map snd (snd e)) g) []).

Lemma entry_resolved rs r x name v :
  In r rs -> parsed_ok r -> In x (p_sections r) -> In (name, v) (sec_entries E x) ->
  exists var i cnt, var_of (grammar_of R (counters_of rs)) name = Some var /\
     nth_error (grammar_of R (counters_of rs)) var = Some (name, groups_of R cnt) /\
     i < length (groups_of R cnt) /\ In v (fst (nth i (groups_of R cnt) gdef)) /\
     (forall w, In w (fst (nth i (groups_of R cnt) gdef)) -> In w (map fst cnt)) /\
     (length_indexed name = true -> forall k, In k (map fst cnt) -> slen k = slen v).
Proof.
  intros Hr (_ & _ & Hc) Hx He.
  destruct (section_counted E rs r x name v Hr Hc Hx He) as (cnt & Hin & Hv & _ & Hlen & _).
  assert (Hg : In (name, groups_of R cnt) (grammar_of R (counters_of rs))).
  { unfold grammar_of. apply in_map_iff. exists (name, cnt). split; [reflexivity|assumption]. }
  destruct (var_of_nodup _ name _ ltac:(rewrite grammar_keys; apply counters_nodup) Hg) as (var & Hvar & Hnth).
  destruct (groups_of_pick R cnt v gdef Hv) as (i & Hi & Hvi).
  exists var, i, cnt. repeat split; try assumption. intros w Hw. eapply groups_of_member; eassumption.
Qed.

Lemma bound_of g var i name gs : nth_error g var = Some (name, gs) -> i < length gs -> bound_in g (var, i).
Proof.
  intros Hn Hi. unfold bound_in. cbn [fst snd].
  rewrite (nth_error_map_nth (fun e : TextFile.str * list (list TextFile.str * P A) => map snd (snd e)) g var (name, gs) [] Hn).
  cbn [snd]. now rewrite map_length.
Qed.

Lemma slot_of_resolved g var i name gs :
  nth_error g var = Some (name, gs) ->
  slot_of R g (var, i) = {| scat := cat_of_name name; svals := fst (nth i gs gdef) |}.
Proof. intros Hn. unfold slot_of. cbn [fst snd]. now rewrite Hn. Qed.

Notation tile := (tile_in (e_upper E) L1 (e_isupper E)).
Definition case_cond (c : N) : Prop :=
  e_isalpha E c = true -> if e_isupper E c then e_upper E (L1 c) = [c] else L1 c = c.

Lemma plain_resolved rs r x name :
  In r rs -> parsed_ok r -> In x (p_sections r) -> sec_entries E x = [(name, fst x)] -> cat_of_name name = CatPlain ->
  exists ptx sx, vars_of (grammar_of R (counters_of rs)) [name] = Some (map fst ptx) /\
     Forall (bound_in (grammar_of R (counters_of rs))) ptx /\
     map (slot_of R (grammar_of R (counters_of rs))) ptx = slots_of sx /\ seg_ok' sx /\ tile (fst x) sx.
Proof.
  intros Hr Hok Hx He Hcat.
  destruct (entry_resolved rs r x name (fst x) Hr Hok Hx ltac:(rewrite He; now left))
    as (var & i & cnt & Hvar & Hnth & Hi & Hv & _ & _).
  exists [(var, i)], (SegPlain (fst (nth i (groups_of R cnt) gdef))). repeat split.
  - simpl. now rewrite Hvar.
  - constructor; [|constructor]. eapply bound_of; eassumption.
  - simpl. rewrite (slot_of_resolved _ _ _ _ _ Hnth), Hcat. reflexivity.
  - simpl. intros Hnil. rewrite Hnil in Hv. exact Hv.
  - now constructor.
Qed.

Lemma alpha_resolved rs r x n :
  In r rs -> parsed_ok r -> In x (p_sections r) -> snd x = Some (LA n) -> Forall case_cond (fst x) ->
  exists ptx sx, vars_of (grammar_of R (counters_of rs)) (names_of_label (LA n)) = Some (map fst ptx) /\
     Forall (bound_in (grammar_of R (counters_of rs))) ptx /\
     map (slot_of R (grammar_of R (counters_of rs))) ptx = slots_of sx /\ seg_ok' sx /\ tile (fst x) sx.
Proof.
  intros Hr Hok Hx El Hcase. destruct x as [t l]. simpl in El. subst l. cbn [fst].
  assert (Hs : e_sound (t, Some (LA n))) by (destruct Hok as (Hs & _); rewrite Forall_forall in Hs; now apply Hs).
  pose proof (sec_names _ _ Hs eq_refl eq_refl) as Hnames.
  destruct Hs as (Hne & Hn & Halpha). cbn [fst snd] in *.
  unfold sec_entries in Hnames. cbn [fst snd map] in Hnames.
  destruct (entry_resolved rs r (t, Some (LA n)) (65%N :: dec_of_N (slen t)) (map L1 t) Hr Hok Hx ltac:(simpl; tauto))
    as (va & ia & ca & Hva & Hna & Hia & Hwa & Hma & Hla).
  destruct (entry_resolved rs r (t, Some (LA n)) (67%N :: dec_of_N (slen t)) (case_mask (e_isupper E) t) Hr Hok Hx ltac:(simpl; tauto))
    as (vc & ic & cc & Hvc & Hnc & Hic & Hwc & Hmc & Hlc).
  exists [(va, ia); (vc, ic)], (SegAlpha (fst (nth ia (groups_of R ca) gdef)) (fst (nth ic (groups_of R cc) gdef))).
  repeat split.
  - rewrite <- Hnames. simpl. now rewrite Hva, Hvc.
  - constructor; [eapply bound_of; eassumption|]. constructor; [eapply bound_of; eassumption|constructor].
  - simpl. rewrite (slot_of_resolved _ _ _ _ _ Hna), (slot_of_resolved _ _ _ _ _ Hnc). reflexivity.
  - intros Hnil. rewrite Hnil in Hwa. exact Hwa.
  - intros Hnil. rewrite Hnil in Hwc. exact Hwc.
  - exists (length t). split; [destruct t; [congruence|simpl; lia]|]. split; apply Forall_forall; intros w Hw.
    + apply slen_length. rewrite (Hla eq_refl w (Hma w Hw)). unfold slen. now rewrite map_length.
    + apply slen_length. rewrite (Hlc eq_refl w (Hmc w Hw)). unfold slen, case_mask. now rewrite map_length.
  - apply tile_alpha; [exact Hwa|exact Hwc|].
    unfold case_ok. rewrite forallb_forall in Halpha. rewrite Forall_forall in *. intros c Hc. apply (Hcase c Hc). now apply Halpha.
Qed.

Lemma section_resolved rs r x l :
  In r rs -> parsed_ok r -> In x (p_sections r) -> snd x = Some l -> supported_label' l = true ->
  Forall case_cond (fst x) ->
  exists ptx sx, vars_of (grammar_of R (counters_of rs)) (names_of_label l) = Some (map fst ptx) /\
     Forall (bound_in (grammar_of R (counters_of rs))) ptx /\
     map (slot_of R (grammar_of R (counters_of rs))) ptx = slots_of sx /\ seg_ok' sx /\ tile (fst x) sx.
Proof.
  intros Hr Hok Hx El Hsup Hcase.
  assert (Hs : e_sound x) by (destruct Hok as (Hs & _); rewrite Forall_forall in Hs; now apply Hs).
  pose proof (sec_names x l Hs El Hsup) as Hnames.
  destruct l as [n| | | | |n|n|n]; try discriminate; try (now apply (alpha_resolved rs r x n));
    (unfold sec_entries in Hnames; rewrite El in Hnames; cbn [map fst] in Hnames; rewrite <- Hnames;
     apply (plain_resolved rs r x); [assumption|assumption|assumption|unfold sec_entries; now rewrite El|reflexivity]).
Qed.

Lemma sections_resolved rs r : In r rs -> parsed_ok r ->
  forall sl ls, (forall x, In x sl -> In x (p_sections r)) -> Forall2 (fun x l => snd x = Some l) sl ls ->
  forallb supported_label' ls = true -> Forall case_cond (concat (map fst sl)) ->
  exists pt segs, vars_of (grammar_of R (counters_of rs)) (flat_map names_of_label ls) = Some (map fst pt) /\
     Forall (bound_in (grammar_of R (counters_of rs))) pt /\
     map (slot_of R (grammar_of R (counters_of rs))) pt = flat_map slots_of segs /\ Forall seg_ok' segs /\
     Forall2 tile (map fst sl) segs.
Proof.
  intros Hr Hok sl ls Hsub HF. induction HF as [|x l sl ls Hx _ IH]; intros Hsup Hcase.
  - exists [], []. repeat split; constructor.
  - simpl in Hsup. apply andb_true_iff in Hsup. destruct Hsup as (Hl & Hls).
    simpl in Hcase. apply Forall_app in Hcase. destruct Hcase as (Hc1 & Hc2).
    destruct (section_resolved rs r x l Hr Hok (Hsub x (or_introl eq_refl)) Hx Hl Hc1) as (ptx & sx & V1 & B1 & S1 & O1 & T1).
    destruct (IH (fun y Hy => Hsub y (or_intror Hy)) Hls Hc2) as (pt & segs & V2 & B2 & S2 & O2 & T2).
    exists (ptx ++ pt), (sx :: segs). split; [|split; [|split; [|split]]].
    + simpl. rewrite map_app. now apply vars_of_app.
    + now apply Forall_app.
    + rewrite map_app. change (flat_map slots_of (sx :: segs)) with (slots_of sx ++ flat_map slots_of segs).
      apply (f_equal2 (@app _)); [exact S1|exact S2].
    + now constructor.
    + simpl. now constructor.
Qed.

End Core.

(* ------------------------------------------------------------------ *)
(* base structures and the assembled statement                         *)
(* ------------------------------------------------------------------ *)

Lemma combine_fst_snd {X Y} (l : list (X * Y)) : combine (map fst l) (map snd l) = l.
Proof. induction l as [|[a b] l IH]; simpl; congruence. Qed.

Lemma Forall2_nth_error_l {X Y} (P : X -> Y -> Prop) l l' k x :
  Forall2 P l l' -> nth_error l k = Some x -> exists y, nth_error l' k = Some y /\ P x y.
Proof.
  intros HF. revert k. induction HF as [|a b l l' Hab _ IH]; intros k Hk; [destruct k; discriminate|].
  destruct k; simpl in *; [injection Hk as ->; eauto|now apply IH].
Qed.

Lemma map_app_nil (l : list Expand.str) : map (app []) l = l.
Proof. rewrite (map_ext (app []) (fun x => x)) by reflexivity. apply map_id. Qed.

Section Assembly.
Context {A : palg}.
Variable R : parith A.
Variable E : env.
Hypothesis HE : env_ok E.
Notation OPS := (ops_of R).
Notation e_pm := (pm (e_lower E)).
Notation L1 := (lower1 (e_lower E)).

Definition structure_of (r : parsed) : TextFile.str := structure (map label_str (p_base r)).
Definition r_supported (r : parsed) : bool := forallb supported_label' (p_base r).

Notation loaded_bases := (PipelineSpec.loaded_bases R E).
Notation no_zero_div := (PipelineSpec.no_zero_div R).

Lemma base_file_keys o raw rs k :
  In k (map fst (base_file R (trained_of E o raw rs))) ->
  k = M_key \/ exists r, In r rs /\ r_supported r = true /\ k = structure_of r.
Proof.
  unfold base_file. rewrite (calc_probs_keys_in OPS). unfold base_counter. intros H.
  apply with_markov_keys_sub in H. destruct H as [H|H]; [now left|right].
  unfold of_counts in H. rewrite map_map in H. simpl in H. cbn [trained_of t_counters counters_of pc_structs] in H.
  change (In k (map fst (sc_base (count_structs (map (fun r => map label_str (p_base r)) rs))))) in H.
  apply count_structs_base in H. destruct H as (ls & Hls & Hsup & ->).
  apply in_map_iff in Hls. destruct Hls as (r & <- & Hr). exists r. split; [assumption|]. split; [|reflexivity].
  unfold r_supported. now rewrite <- supported_labels.
Qed.

Lemma base_file_has o raw rs r :
  a_eqb R (o_cov o) (a_zero R) = false -> In r rs -> r_supported r = true ->
  In (structure_of r) (map fst (base_file R (trained_of E o raw rs))).
Proof.
  intros Hcov Hr Hs. unfold base_file. rewrite (calc_probs_keys_in OPS). unfold base_counter.
  apply with_markov_keys_sup; [exact Hcov|].
  unfold of_counts. rewrite map_map. simpl. cbn [trained_of t_counters counters_of pc_structs].
  change (In (structure_of r) (map fst (sc_base (count_structs (map (fun r => map label_str (p_base r)) rs))))).
  apply count_structs_base_all; [apply in_map_iff; now exists r|]. rewrite supported_labels. exact Hs.
Qed.

Lemma toks_structure r : parsed_ok E r -> toks (e_isalpha E) (structure_of r) = map label_str (p_base r).
Proof.
  intros Hok. unfold toks, structure_of.
  rewrite (tokenize_labels (e_isalpha E) (ok_letters E HE) (ok_digits E HE) (p_base r) (base_nonneg E r Hok)). reflexivity.
Qed.

Lemma toks_M : toks (e_isalpha E) M_key = [[77%N]].
Proof. unfold toks, M_key. now rewrite (tokenize_M (e_isalpha E) (ok_letters E HE)). Qed.

Lemma base_file_tokenizes o raw rs : Forall (parsed_ok E) rs ->
  Forall (fun l => Loader.tokenize (e_isalpha E) (fst l) <> None) (base_file R (trained_of E o raw rs)).
Proof.
  intros Hrs. apply Forall_forall. intros [k p] Hl.
  assert (Hk : In k (map fst (base_file R (trained_of E o raw rs)))) by (apply in_map_iff; now exists (k, p)).
  destruct (base_file_keys o raw rs k Hk) as [->|(r & Hr & _ & ->)]; cbn [fst].
  - unfold M_key. now rewrite (tokenize_M (e_isalpha E) (ok_letters E HE)).
  - rewrite Forall_forall in Hrs. unfold structure_of.
    now rewrite (tokenize_labels (e_isalpha E) (ok_letters E HE) (ok_digits E HE) (p_base r) (base_nonneg E r (Hrs r Hr))).
Qed.

Lemma load_bases_saved o raw rs : Forall (parsed_ok E) rs -> no_zero_div (trained_of E o raw rs) ->
  load_base_structures R E (@disk_base_ideal A) (save R (trained_of E o raw rs)) = Some (loaded_bases (trained_of E o raw rs)).
Proof.
  intros Hrs Hz. rewrite load_base_structures_saved, (ok_rewinds E HE).
  apply (load_bases_spec (a_one R) (a_sub R) (a_div R) (fun x => a_eqb R x (a_zero R)) (e_isalpha E)).
  - intros _. exact Hz.
  - now apply base_file_tokenizes.
Qed.

(* every kept base structure resolves against the grammar *)
Lemma loaded_bases_resolve o raw rs : Forall (parsed_ok E) rs ->
  Forall (fun b => vars_of (grammar_of R (counters_of rs)) (snd b) <> None) (loaded_bases (trained_of E o raw rs)).
Proof.
  intros Hrs. apply Forall_forall. intros b Hb. unfold loaded_bases in Hb. apply in_map_iff in Hb.
  destruct Hb as ([k p] & <- & Hl). apply filter_In in Hl. destruct Hl as (Hl & HnM). cbn [fst snd].
  assert (Hk : In k (map fst (base_file R (trained_of E o raw rs)))) by (apply in_map_iff; now exists (k, p)).
  destruct (base_file_keys o raw rs k Hk) as [->|(r & Hr & Hsup & ->)].
  - unfold nonM in HnM. cbn [fst] in HnM. rewrite toks_M in HnM. discriminate.
  - rewrite Forall_forall in Hrs. pose proof (Hrs r Hr) as Hok.
    rewrite (toks_structure r Hok), insert_caps_labels.
    (* case_cond is irrelevant for resolving names: use the trivially true instance via section-wise resolution *)
    assert (Hnames : forall sl ls, (forall x, In x sl -> In x (p_sections r)) -> Forall2 (fun x l => snd x = Some l) sl ls ->
              forallb supported_label' ls = true ->
              vars_of (grammar_of R (counters_of rs)) (flat_map names_of_label ls) <> None).
    { intros sl ls Hsub HF. induction HF as [|x l sl ls Hx _ IH]; intros Hs; [discriminate|].
      simpl in Hs. apply andb_true_iff in Hs. destruct Hs as (Hl' & Hls).
      assert (Hsx : sound (e_isalpha E) (e_isdigit E) (e_kbs E) (e_min_run E) (e_year_prefixes E) (e_context E) x).
      { destruct Hok as (Hs & _). rewrite Forall_forall in Hs. apply Hs. apply Hsub. now left. }
      assert (H1 : vars_of (grammar_of R (counters_of rs)) (names_of_label l) <> None).
      { rewrite <- (sec_names E x l Hsx Hx Hl').
        assert (G : forall ents, (forall nv, In nv ents -> In nv (sec_entries E x)) ->
                      vars_of (grammar_of R (counters_of rs)) (map fst ents) <> None).
        { induction ents as [|[name v] ents IHe]; intros Hsub'; [discriminate|]. simpl.
          destruct (entry_resolved R E rs r x name v Hr Hok (Hsub x (or_introl eq_refl)) (Hsub' _ (or_introl eq_refl)))
            as (var & _ & _ & Hvar & _). rewrite Hvar.
          specialize (IHe (fun nv Hnv => Hsub' nv (or_intror Hnv))).
          destruct (vars_of (grammar_of R (counters_of rs)) (map fst ents)); [discriminate|congruence]. }
        apply G. auto. }
      specialize (IH (fun y Hy => Hsub y (or_intror Hy)) Hls). simpl.
      destruct (vars_of (grammar_of R (counters_of rs)) (names_of_label l)) as [va|] eqn:Ea; [|congruence].
      destruct (vars_of (grammar_of R (counters_of rs)) (flat_map names_of_label ls)) as [vb|] eqn:Eb; [|congruence].
      rewrite (vars_of_app _ _ _ va vb Ea Eb). discriminate. }
    apply (Hnames (p_sections r) (p_base r)); [auto|now apply (sections_labels E)|exact Hsup].
Qed.


(* every variable of a kept base structure is a non-empty tally of the counters *)
Lemma names_entries r : parsed_ok E r -> r_supported r = true ->
  forall name, In name (flat_map names_of_label (p_base r)) ->
  exists x v, In x (p_sections r) /\ In (name, v) (sec_entries E x).
Proof.
  intros Hok Hsup. pose proof (sections_labels E r Hok) as HF. destruct Hok as (Hs & _). unfold r_supported in Hsup.
  induction HF as [|x l sl ls Hx _ IH]; intros name Hn; [contradiction|].
  inversion Hs as [|? ? Hsx Hss]; subst. simpl in Hsup. apply andb_true_iff in Hsup. destruct Hsup as (Hl & Hls).
  simpl in Hn. apply in_app_iff in Hn. destruct Hn as [Hn|Hn].
  - rewrite <- (sec_names E x l Hsx Hx Hl) in Hn. apply in_map_iff in Hn. destruct Hn as ([nm v] & <- & Hin).
    exists x, v. split; [now left|exact Hin].
  - destruct (IH Hss Hls name Hn) as (y & v & Hy & Hv). exists y, v. split; [now right|assumption].
Qed.

Lemma loaded_bases_names o raw rs : Forall (parsed_ok E) rs ->
  Forall (fun b => Forall (fun name => exists items, items <> [] /\
                             In (name, Counters.tally items) (term_counters (counters_of rs))) (snd b))
         (loaded_bases (trained_of E o raw rs)).
Proof.
  intros Hrs. apply Forall_forall. intros b Hb. unfold loaded_bases in Hb. apply in_map_iff in Hb.
  destruct Hb as ([k p] & <- & Hl). apply filter_In in Hl. destruct Hl as (Hl & HnM). cbn [fst snd].
  assert (Hk : In k (map fst (base_file R (trained_of E o raw rs)))) by (apply in_map_iff; now exists (k, p)).
  destruct (base_file_keys o raw rs k Hk) as [->|(r & Hr & Hsup & ->)].
  - unfold nonM in HnM. cbn [fst] in HnM. rewrite toks_M in HnM. discriminate.
  - rewrite Forall_forall in Hrs. pose proof (Hrs r Hr) as Hok.
    rewrite (toks_structure r Hok), insert_caps_labels. apply Forall_forall. intros name Hn.
    destruct (names_entries r Hok Hsup name Hn) as (x & v & Hx & Hv). destruct Hok as (_ & _ & Hc).
    destruct (section_counted E rs r x name v Hr Hc Hx Hv) as (cnt & Hin & _ & Hne & _ & items & ->).
    exists items. split; [|assumption]. intros ->. now apply Hne.
Qed.

(* the groups and group sizes of a variable, by name *)
Lemma loaded_var_groups rs bl name cnt var :
  In (name, cnt) (term_counters (counters_of rs)) -> var_of (grammar_of R (counters_of rs)) name = Some var ->
  groups {| tbl := map (fun e => map snd (snd e)) (grammar_of R (counters_of rs)); bases := bl |} var
    = map snd (groups_of R cnt) /\
  nth var (sizes_of (grammar_of R (counters_of rs))) [] = map (fun gr => length (fst gr)) (groups_of R cnt).
Proof.
  intros Hin Hvar.
  assert (Hg : In (name, groups_of R cnt) (grammar_of R (counters_of rs))).
  { unfold grammar_of. apply in_map_iff. exists (name, cnt). split; [reflexivity|assumption]. }
  destruct (var_of_nodup _ name _ ltac:(rewrite grammar_keys; apply counters_nodup) Hg) as (var' & Hvar' & Hnth).
  rewrite Hvar in Hvar'. injection Hvar' as <-. unfold groups, sizes_of. cbn [tbl]. split.
  - now rewrite (nth_error_map_nth _ _ _ _ [] Hnth).
  - now rewrite (nth_error_map_nth _ _ _ _ [] Hnth).
Qed.

(* the closed form of what the guesser holds after loading the saved ruleset *)
Theorem load_saved o raw rs : Forall (parsed_ok E) rs -> no_zero_div (trained_of E o raw rs) ->
  exists bl, load R E (disk_ideal R) (@disk_base_ideal A) (save R (trained_of E o raw rs)) =
             Some {| l_grammar := grammar_of R (counters_of rs);
                     l_rs := {| tbl := map (fun e => map snd (snd e)) (grammar_of R (counters_of rs)); bases := bl |} |} /\
    Forall2 (fun b x => bprob x = fst b /\ vars_of (grammar_of R (counters_of rs)) (snd b) = Some (brepl x))
            (loaded_bases (trained_of E o raw rs)) bl.
Proof.
  intros Hrs Hz. unfold load.
  rewrite (load_sections_saved R (trained_of E o raw rs)) by (cbn [trained_of t_counters counters_of pc_alpha pc_masks pc_digits pc_other pc_keyboard]; apply ltally_keys_nodup).
  rewrite (load_bases_saved o raw rs Hrs Hz). cbn [trained_of t_counters].
  destruct (bases_of_all (grammar_of R (counters_of rs)) _ (loaded_bases_resolve o raw rs Hrs)) as (bl & Hbl & HF).
  exists bl. cbn [trained_of t_counters] in Hbl. rewrite Hbl. split; [reflexivity|exact HF].
Qed.

(* a tiling without website section is the list of the section texts *)
Lemma tiles_texts pw sl : tiles e_pm pw sl -> Forall (fun x => snd x <> Some LW) sl -> concat (map fst sl) = pw.
Proof.
  intros (pieces & <- & HF) Hn. f_equal. induction HF as [|pc x ps xs Hpm _ IH]; [reflexivity|].
  inversion Hn as [|? ? Hx Hxs]; subst. simpl. rewrite (IH Hxs). f_equal.
  unfold pm in Hpm. destruct (snd x) as [[]|]; congruence.
Qed.

(* THE CORE: the loaded ruleset has a pre-terminal whose expansion prints the password *)
Theorem reproduced_core o raw tr pw :
  train E o raw = Some tr -> In pw raw -> accepted_pw E pw = true -> supported_pw E o raw pw = true ->
  case_ok_pw E pw -> a_eqb R (o_cov o) (a_zero R) = false -> no_zero_div tr ->
  exists L, load R E (disk_ideal R) (@disk_base_ideal A) (save R tr) = Some L /\
    exists it, In it (all_preterminals (l_rs L)) /\
      exists out k, guesses_of R E L it = Some (out, k) /\ In pw out.
Proof.
  intros Htr Hin Hacc Hsup Hcase Hcov Hz.
  destruct (train_facts E HE o raw tr Htr) as (rs & -> & Hrs & Hpw).
  destruct (Hpw pw Hin Hacc) as (r & Hr & Eseg & Htiles).
  destruct (load_saved o raw rs Hrs Hz) as (bl & Hload & HF).
  eexists. split; [exact Hload|]. cbn [l_rs l_grammar].
  set (g := grammar_of R (counters_of rs)) in *.
  set (rsx := {| tbl := map (fun e => map snd (snd e)) g; bases := bl |}).
  rewrite Forall_forall in Hrs. pose proof (Hrs r Hr) as Hok.
  (* supportedness *)
  assert (Hrsup : r_supported r = true).
  { unfold supported_pw in Hsup. rewrite Eseg in Hsup. destruct Hok as (_ & _ & Hc).
    destruct Hc as (_ & _ & _ & _ & _ & _ & _ & _ & _ & _ & _ & Hps & _). rewrite Hps in Hsup. exact Hsup. }
  pose proof (sections_labels E r Hok) as Hlab.
  assert (HnoW : Forall (fun x => snd x <> Some LW) (p_sections r)).
  { unfold r_supported in Hrsup. clear -Hlab Hrsup. induction Hlab as [|x l sl ls Hx _ IH]; [constructor|].
    simpl in Hrsup. apply andb_true_iff in Hrsup. destruct Hrsup as (H1 & H2). constructor; [|now apply IH].
    rewrite Hx. intros H. injection H as ->. discriminate. }
  pose proof (tiles_texts pw (p_sections r) Htiles HnoW) as Hconcat.
  (* the sections resolve *)
  destruct (sections_resolved R E rs r Hr Hok (p_sections r) (p_base r) (fun x H => H) Hlab Hrsup
              ltac:(rewrite Hconcat; exact Hcase)) as (pt & segs & Hvars & Hbound & Hslots & Hsegok & Htile).
  (* its base structure is loaded *)
  pose proof (base_file_has o raw rs r Hcov Hr Hrsup) as Hkey. apply in_map_iff in Hkey.
  destruct Hkey as ([k p] & Ek & Hline). cbn [fst] in Ek. subst k.
  assert (Hb : In (a_div R p (skip_total (a_one R) (a_sub R) (base_file R (trained_of E o raw rs))),
                   flat_map names_of_label (p_base r)) (loaded_bases (trained_of E o raw rs))).
  { unfold loaded_bases. apply in_map_iff. exists (structure_of r, p). cbn [fst snd]. split.
    - now rewrite (toks_structure r Hok), insert_caps_labels.
    - apply filter_In. split; [assumption|]. unfold nonM. cbn [fst]. rewrite (toks_structure r Hok), has_M_labels. reflexivity. }
  destruct (In_nth_error _ _ Hb) as (kpos & Hk).
  assert (Hx : exists x, nth_error bl kpos = Some x /\ brepl x = map fst pt).
  { destruct (Forall2_nth_error_l _ _ _ _ _ HF Hk) as (x & Hnx & _ & Hv). exists x. split; [assumption|].
    cbn [snd] in Hv. unfold g in Hv. rewrite Hvars in Hv. now injection Hv. }
  destruct Hx as (x & Hnx & Hrepl).
  exists (mk rsx kpos pt (bprob x)). split.
  - unfold all_preterminals. apply in_flat_map. exists (kpos, x). split; [now apply in_combine_seq|].
    unfold preterminals_of. cbn [fst snd]. apply in_map_iff. exists (map snd pt). split.
    + rewrite Hrepl, combine_fst_snd. reflexivity.
    + apply In_vectors. rewrite Hrepl. clear -Hbound. induction Hbound as [|[v i] pt Hvi _ IH]; [constructor|].
      simpl. constructor; [exact Hvi|exact IH].
  - assert (Hne : segs <> []).
    { intros ->. inversion Htile as [Hnil|]. symmetry in Hnil. apply map_eq_nil in Hnil. rewrite Hnil in Hconcat. simpl in Hconcat.
      apply (accepted_nonempty E pw (ok_rej_empty E HE) Hacc). now symmetry. }
    exists (denote (e_upper E) segs), (length (denote (e_upper E) segs)). split.
    + unfold guesses_of. cbn [l_grammar ipt mk]. unfold g.
      replace (map (slot_of R (grammar_of R (counters_of rs))) pt) with (flat_map slots_of segs) by (symmetry; exact Hslots).
      rewrite (C04_expand_is_product_cur (e_upper E) (e_omen E) segs [] Hne Hsegok). now rewrite map_app_nil.
    + rewrite <- Hconcat. exact (password_in_denote (e_upper E) L1 (e_isupper E) _ _ Htile).
Qed.

(* ... which every complete session emits, when the loaded ruleset is well formed *)
Theorem reproduced_emitted o raw tr pw :
  train E o raw = Some tr -> In pw raw -> accepted_pw E pw = true -> supported_pw E o raw pw = true ->
  case_ok_pw E pw -> a_eqb R (o_cov o) (a_zero R) = false -> no_zero_div tr ->
  exists L, load R E (disk_ideal R) (@disk_base_ideal A) (save R tr) = Some L /\
    (wf (l_rs L) -> forall pop, pop_ok_okb pop ->
       (exists it, In it (session pop L) /\ exists out k, guesses_of R E L it = Some (out, k) /\ In pw out) /\
       In pw (printed R E pop L)).
Proof.
  intros Htr Hin Hacc Hsup Hcase Hcov Hz.
  destruct (reproduced_core o raw tr pw Htr Hin Hacc Hsup Hcase Hcov Hz) as (L & HL & it & Hit & out & k & Hg & Hout).
  exists L. split; [assumption|]. intros Hwf pop Hpop.
  assert (Hs : In it (session pop L)).
  { unfold session. rewrite <- in_rev. destruct (C02_exactly_once_okb (l_rs L) Hwf pop Hpop) as (Hperm & _).
    eapply Permutation_in; [apply Permutation_sym; exact Hperm|exact Hit]. }
  split.
  - exists it. split; [assumption|]. eauto.
  - unfold printed. apply in_flat_map. exists it. split; [assumption|]. now rewrite Hg.
Qed.

End Assembly.
