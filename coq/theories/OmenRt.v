(* Runtime of the generated OMEN level / keyspace code (gen/OmenLevel_gen.v,
   written on every run by harness/translate_omen_level.py from the Python text
   of find_omen_level, _rec_calc_keyspace, calc_omen_keyspace
   (lib_trainer/omen/evaluate_password.py) and OmenScorer.parse
   (lib_scorer/omen_scorer.py)).  The translator emits nothing but lets, ifs,
   monadic binds, calls of previously generated functions and the operations
   below, so that the generated text is a line-by-line image of the Python.
   Definitions only; the lemmas about them are in OmenLevelGenProofs.v.

   Conventions of the translation (see the translator's docstring):
   * Python ints are [Z] (they do become negative: `level - ip_level`, the
     scorer's ngram = -1, `return -1`); strings are [ostr] (code points), a
     one-character string that is a key of a 'next_letter' dict or the value of
     `s[i]` is a code point [N].
   * A Python expression that can raise is a computation in the exception monad
     [res]: KeyError of a dict subscript ([dict_get] of the model's lookup
     function: [find_entry], [find_letter], [first_level]), IndexError of a list
     / string subscript ([pyindex], with Python's negative indices).  Slices
     never raise ([pyslice], Python's clamping and negative bounds).
     `try: ... except KeyError: ...` is [catch KeyError].
   * A `while` loop and the recursion of _rec_calc_keyspace get a fuel argument
     (no counterpart in Python); running out of fuel is the pseudo exception
     [OutOfFuel], which no handler catches.
   * The trainer object is the model's table record [ttab] (immutable) plus the
     only thing the translated functions mutate, the memo cache
     grammar[ip]['keyspace_cache'][length][level], threaded explicitly as [kcache]:
     nested Python dicts as association lists in insertion order.  The ip key
     being present in [kcache] stands for 'keyspace_cache' being a key of
     grammar[ip].
   * collections.Counter is an association list with default 0 on reads. *)
From Coq Require Import List Arith Bool NArith ZArith.
From Pcfg Require Import KernelRt OmenSpec OmenLevel.
Import ListNotations.

(* ------------------------------------------------------------------ *)
(* exceptions                                                           *)

Inductive exn := KeyError | IndexError | OutOfFuel.

Definition exn_eqb (a b : exn) : bool :=
  match a, b with
  | KeyError, KeyError | IndexError, IndexError | OutOfFuel, OutOfFuel => true
  | _, _ => false
  end.

Inductive res (X : Type) : Type :=
| Ok (x : X)
| Raise (e : exn).
Arguments Ok {X} x.
Arguments Raise {X} e.

Definition bind {X Y : Type} (r : res X) (f : X -> res Y) : res Y :=
  match r with
  | Ok x => f x
  | Raise e => Raise e
  end.

Notation "x <- e ;; k" := (bind e (fun x => k)) (at level 61, e at next level, right associativity).
Notation "' p <- e ;; k" := (bind e (fun p => k)) (at level 61, p pattern, e at next level, right associativity).

(* try: body  except e: handler   (both leave the function) *)
Definition catch {X : Type} (e : exn) (body handler : res X) : res X :=
  match body with
  | Ok x => Ok x
  | Raise e' => if exn_eqb e e' then handler else Raise e'
  end.

(* d[k] where the dict is modelled by a lookup function: None = KeyError *)
Definition dict_get {X : Type} (o : option X) : res X :=
  match o with
  | Some x => Ok x
  | None => Raise KeyError
  end.

(* ------------------------------------------------------------------ *)
(* ints, sequences                                                      *)

Definition zlen {X : Type} (l : list X) : Z := Z.of_nat (length l).

(* a slice bound i on a sequence of length n: negative counts from the end, then clamped to 0..n *)
Definition slice_bound (n i : Z) : Z :=
  if (i <? 0)%Z then Z.max 0 (i + n) else Z.min i n.

(* s[a:b]; None = bound left out *)
Definition pyslice {X : Type} (s : list X) (a b : option Z) : list X :=
  let n := zlen s in
  let lo := match a with None => 0%Z | Some i => slice_bound n i end in
  let hi := match b with None => n | Some i => slice_bound n i end in
  firstn (Z.to_nat (hi - lo)) (skipn (Z.to_nat lo) s).

(* l[i] *)
Definition pyindex {X : Type} (l : list X) (i : Z) : res X :=
  let n := zlen l in
  let j := if (i <? 0)%Z then (i + n)%Z else i in
  if (j <? 0)%Z || (n <=? j)%Z then Raise IndexError
  else match nth_error l (Z.to_nat j) with
       | Some x => Ok x
       | None => Raise IndexError
       end.

(* range(a, b) *)
Definition zrange (a b : Z) : list Z :=
  map (fun i => (a + Z.of_nat i)%Z) (seq 0 (Z.to_nat (b - a))).

(* enumerate(l) *)
Definition zenumerate {X : Type} (l : list X) : list (Z * X) :=
  combine (map Z.of_nat (seq 0 (length l))) l.

(* ------------------------------------------------------------------ *)
(* loops                                                                *)

(* for x in l: body.  The body says, per iteration, Continue s (next iteration
   with the loop-carried variables s; also `continue`) or Return r (the
   enclosing block is left with r), or raises; what follows the loop is k *)
Fixpoint mfor {X R St : Type} (l : list X) (body : X -> St -> res (ctl R St)) (s : St) (k : St -> res R) : res R :=
  match l with
  | [] => k s
  | x :: r =>
      match body x s with
      | Ok (Continue s') => mfor r body s' k
      | Ok (Return v) => Ok v
      | Raise e => Raise e
      end
  end.

(* while cond: body *)
Fixpoint mwhile {R St : Type} (fuel : nat) (cond : St -> bool) (body : St -> res (ctl R St)) (s : St)
         (k : St -> res R) : res R :=
  match fuel with
  | O => Raise OutOfFuel
  | S fuel' =>
      if cond s then
        match body s with
        | Ok (Continue s') => mwhile fuel' cond body s' k
        | Ok (Return v) => Ok v
        | Raise e => Raise e
        end
      else k s
  end.

(* ------------------------------------------------------------------ *)
(* Python dicts that are mutated: association lists in insertion order   *)

Section Dict.
Context {K V : Type} (eqb : K -> K -> bool).

Fixpoint dfind (k : K) (d : list (K * V)) : option V :=
  match d with
  | [] => None
  | (k', v) :: r => if eqb k' k then Some v else dfind k r
  end.

Definition dmem (k : K) (d : list (K * V)) : bool :=
  match dfind k d with Some _ => true | None => false end.

(* d[k] = v : in place when the key exists, else appended *)
Fixpoint dset (k : K) (v : V) (d : list (K * V)) : list (K * V) :=
  match d with
  | [] => [(k, v)]
  | (k', v') :: r => if eqb k' k then (k', v) :: r else (k', v') :: dset k v r
  end.
End Dict.

(* collections.Counter keyed and valued by ints *)
Definition counter := list (Z * Z).
Definition cnt_get (c : counter) (k : Z) : Z :=
  match dfind Z.eqb k c with Some v => v | None => 0%Z end.
Definition cnt_set (c : counter) (k v : Z) : counter := dset Z.eqb k v c.

(* the memo cache: ip -> (length -> (level -> count)) *)
Definition kc2 := list (Z * Z).
Definition kc1 := list (Z * kc2).
Definition kcache := list (ostr * kc1).

(* grammar[ip]['keyspace_cache'] , ...[length] , ...[length][level] *)
Definition kc_get1 (kc : kcache) (ip : ostr) : res kc1 := dict_get (dfind ostr_eqb ip kc).
Definition kc_get2 (kc : kcache) (ip : ostr) (len : Z) : res kc2 :=
  d <- kc_get1 kc ip ;; dict_get (dfind Z.eqb len d).
Definition kc_get3 (kc : kcache) (ip : ostr) (len lvl : Z) : res Z :=
  d <- kc_get2 kc ip len ;; dict_get (dfind Z.eqb lvl d).

(* 'keyspace_cache' in grammar[ip] , length in ...['keyspace_cache'] , level in ...[length] *)
Definition kc_mem1 (kc : kcache) (ip : ostr) : res bool := Ok (dmem ostr_eqb ip kc).
Definition kc_mem2 (kc : kcache) (ip : ostr) (len : Z) : res bool :=
  d <- kc_get1 kc ip ;; Ok (dmem Z.eqb len d).
Definition kc_mem3 (kc : kcache) (ip : ostr) (len lvl : Z) : res bool :=
  d <- kc_get2 kc ip len ;; Ok (dmem Z.eqb lvl d).

(* the three stores.  A store into a nested dict reads the containers on the
   way (KeyError when one is missing) and rebuilds them: the containers are
   only ever created where missing (`if k not in P: P[k] = {}`, enforced by the
   translator), never replaced, so the functional update is the mutation *)
Definition kc_set1 (kc : kcache) (ip : ostr) (v : kc1) : res kcache := Ok (dset ostr_eqb ip v kc).
Definition kc_set2 (kc : kcache) (ip : ostr) (len : Z) (v : kc2) : res kcache :=
  d <- kc_get1 kc ip ;; Ok (dset ostr_eqb ip (dset Z.eqb len v d) kc).
Definition kc_set3 (kc : kcache) (ip : ostr) (len lvl : Z) (v : Z) : res kcache :=
  d1 <- kc_get1 kc ip ;;
  d2 <- dict_get (dfind Z.eqb len d1) ;;
  Ok (dset ostr_eqb ip (dset Z.eqb len (dset Z.eqb lvl v d2) d1) kc).

(* ------------------------------------------------------------------ *)
(* how the model's values appear in Python                              *)

(* a level or -1 *)
Definition levelZ (o : option nat) : Z :=
  match o with Some n => Z.of_nat n | None => (-1)%Z end.

(* OmenScorer.ngram: -1 until the first CP line is read *)
Definition sc_ngramZ (Sc : scorer) : Z := levelZ (sc_ngram Sc).

(* the Counter calc_omen_keyspace returns, for the model's list of listed levels *)
Definition counter_of (l : list (nat * N)) : counter :=
  map (fun e => (Z.of_nat (fst e), Z.of_N (snd e))) l.
