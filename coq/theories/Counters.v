(* Counters.v - from the counters the trainer's parser holds to the lists that
   reach disk: Python Counter as an insertion-ordered association list,
   most_common = stable sort by count descending, calculate_probabilities,
   the coverage arithmetic of run_trainer, E/W exclusion, save_indexed_counters
   and the set of files save_pcfg_data writes.  Definitions only.

   The arithmetic is generic in a small structure of number operations and is
   instantiated twice: QNum (exact, for the theorems "count / total", "sums to
   1") and FNum (binary64, what the code computes; compared hex-exactly with
   the files in the correspondence). *)
From Coq Require Import String Ascii.
From Coq Require Import List NArith ZArith QArith Bool Floats Uint63.
From Pcfg Require Import TextFile.
Import ListNotations.
Open Scope N_scope.

Record numops := {
  num : Type;
  nzero : num;
  none : num;
  nadd : num -> num -> num;
  nsub : num -> num -> num;
  ndiv : num -> num -> num;
  nltb : num -> num -> bool;     (* Python <  *)
  neqb : num -> num -> bool;     (* Python == *)
  nofN : N -> num;               (* int -> number *)
}.

Definition QNum : numops := {|
  num := Q; nzero := 0%Q; none := 1%Q;
  nadd := Qplus; nsub := Qminus; ndiv := Qdiv;
  nltb := fun a b => negb (Qle_bool b a);
  neqb := Qeq_bool;
  nofN := fun n => inject_Z (Z.of_N n) |}.

Definition float_of_N (n : N) : float := PrimFloat.of_uint63 (Uint63.of_Z (Z.of_N n)).

Definition FNum : numops := {|
  num := float; nzero := 0%float; none := 1%float;
  nadd := PrimFloat.add; nsub := PrimFloat.sub; ndiv := PrimFloat.div;
  nltb := PrimFloat.ltb;
  neqb := PrimFloat.eqb;
  nofN := float_of_N |}.

Definition str_of_string (s : string) : str :=
  map (fun a => N_of_ascii a) (list_ascii_of_string s).

(* ---------------------------------------------------------------- Counter *)

(* counter[k] += 1 *)
Fixpoint incr (k : str) (c : list (str * N)) : list (str * N) :=
  match c with
  | [] => [(k, 1)]
  | (k', n) :: r => if str_eqb k k' then (k', n + 1) :: r else (k', n) :: incr k r
  end.

Definition tally (l : list str) : list (str * N) := fold_left (fun c k => incr k c) l [].

(* _update_counter_len_indexed: counter[len(item)][item] += 1 *)
Fixpoint lincr (len : N) (k : str) (d : list (N * list (str * N))) : list (N * list (str * N)) :=
  match d with
  | [] => [(len, [(k, 1)])]
  | (l, c) :: r => if N.eqb l len then (l, incr k c) :: r else (l, c) :: lincr len k r
  end.

Definition ltally (l : list str) : list (N * list (str * N)) :=
  fold_left (fun d k => lincr (N.of_nat (List.length k)) k d) l [].

(* ---------------------------------------------------------------- first occurrences, collapsing *)

Definition count_str (x : str) (l : list str) : nat := List.length (filter (str_eqb x) l).

(* first occurrences, in order *)
Fixpoint nodup_first (l : list str) : list str :=
  match l with
  | [] => []
  | x :: r => x :: filter (fun y => negb (str_eqb x y)) (nodup_first r)
  end.

(* `sort | uniq -c` keeping first-occurrence order, and its expansion back
   into a sequence (what --prefixcount reads) *)
Definition collapse (l : list str) : list (str * nat) := map (fun p => (p, count_str p l)) (nodup_first l).
Definition expand (cl : list (str * nat)) : list str := flat_map (fun pn => repeat (fst pn) (snd pn)) cl.

Section Generic.
  Variable O : numops.
  Definition counter := list (str * num O).

  Definition of_counts (c : list (str * N)) : counter := map (fun kv => (fst kv, nofN O (snd kv))) c.

  (* Counter.most_common(): sorted(items, key=count, reverse=True); Python's
     sort is stable and reverse=True keeps the original order of equal keys *)
  Fixpoint ins_desc (x : str * num O) (l : counter) : counter :=
    match l with
    | [] => [x]
    | y :: r => if nltb O (snd x) (snd y) then y :: ins_desc x r else x :: l
    end.
  Definition most_common (c : counter) : counter := fold_right ins_desc [] c.

  (* sum(counter.values()) *)
  Definition total (c : counter) : num O := fold_left (nadd O) (map snd c) (nzero O).

  (* calculate_probabilities *)
  Definition calc_probs (c : counter) : counter :=
    let t := total c in map (fun kv => (fst kv, ndiv O (snd kv) t)) (most_common c).

  (* run_trainer.py:250-274.  [n] = num_valid_passwords of the first pass *)
  Definition M_key : str := [77].
  Definition with_markov (cov : num O) (n : N) (c : counter) : counter :=
    if neqb O cov (none O) then c
    else if neqb O cov (nzero O) then [(M_key, none O)]
    else dict_set M_key (nsub O (ndiv O (nofN O n) cov) (nofN O n)) c.

  (* save_indexed_counters: the folder is wiped, then one file per key *)
  Definition folder := list (str * counter).          (* file name, lines *)
  Definition save_indexed (old : folder) (cs : list (str * counter)) : folder :=
    map (fun kc => (file_name (fst kc), calc_probs (snd kc))) cs.

  Definition lkeys (d : list (N * list (str * N))) : list (str * counter) :=
    map (fun lc => (dec_of_N (fst lc), of_counts (snd lc))) d.
End Generic.

Arguments most_common {O}. Arguments total {O}. Arguments calc_probs {O}.
Arguments with_markov {O}. Arguments ins_desc {O}. Arguments of_counts {O}.
Arguments save_indexed {O}. Arguments lkeys {O}.

(* config_file.create_filename_list *)
Definition filename_list {V} (d : list (str * V)) : list str := map (fun kv => file_name (fst kv)) d.

(* ---------------------------------------------------------------- base structures *)

(* base_structure_creation over the labels of a section list *)
Definition unsupported_label (l : str) : bool :=
  match l with c :: _ => N.eqb c 87 || N.eqb c 69 | [] => false end.
Definition supported (labels : list str) : bool := forallb (fun l => negb (unsupported_label l)) labels.
Definition structure (labels : list str) : str := concat labels.

(* pcfg_password_parser.parse, lines 167-176, folded over the passwords:
   prince counts every label, base counts supported structures, raw all *)
Record scounts := { sc_base : list (str * N); sc_raw : list (str * N); sc_prince : list (str * N) }.

Definition count_one (s : scounts) (labels : list str) : scounts :=
  {| sc_prince := fold_left (fun c l => incr l c) labels (sc_prince s);
     sc_base := if supported labels then incr (structure labels) (sc_base s) else sc_base s;
     sc_raw := incr (structure labels) (sc_raw s) |}.

Definition count_structs (pws : list (list str)) : scounts :=
  fold_left count_one pws {| sc_base := []; sc_raw := []; sc_prince := [] |}.

(* ---------------------------------------------------------------- the files of a ruleset *)

Record pcounters := {
  pc_keyboard : list (N * list (str * N));
  pc_emails : list (str * N);
  pc_email_providers : list (str * N);
  pc_website_urls : list (str * N);
  pc_website_hosts : list (str * N);
  pc_website_prefixes : list (str * N);
  pc_years : list (str * N);
  pc_context : list (str * N);
  pc_alpha : list (N * list (str * N));
  pc_masks : list (N * list (str * N));
  pc_digits : list (N * list (str * N));
  pc_other : list (N * list (str * N));
  pc_structs : scounts;
}.

Section Save.
  Variable O : numops.
  Let s_ := str_of_string.

  (* save_pcfg_data: (folder name, files) in the order they are written.
     [cov], [n]: coverage and number of valid passwords (Markov pseudo-count) *)
  Definition save_pcfg_data (P : pcounters) (save_sensitive : bool) (cov : num O) (n : N)
    : list (str * folder O) :=
    let C := @of_counts O in
    [ (s_ "Keyboard", save_indexed [] (lkeys (pc_keyboard P)));
      (s_ "Emails", save_indexed [] ((s_ "email_providers", C (pc_email_providers P)) ::
                                    (if save_sensitive then [(s_ "full_emails", C (pc_emails P))] else [])));
      (s_ "Websites", save_indexed [] ((s_ "website_hosts", C (pc_website_hosts P)) ::
                                      (s_ "website_prefixes", C (pc_website_prefixes P)) ::
                                      (if save_sensitive then [(s_ "website_urls", C (pc_website_urls P))] else [])));
      (s_ "Years", save_indexed [] [(s_ "1", C (pc_years P))]);
      (s_ "Context", save_indexed [] [(s_ "1", C (pc_context P))]);
      (s_ "Alpha", save_indexed [] (lkeys (pc_alpha P)));
      (s_ "Capitalization", save_indexed [] (lkeys (pc_masks P)));
      (s_ "Digits", save_indexed [] (lkeys (pc_digits P)));
      (s_ "Other", save_indexed [] (lkeys (pc_other P)));
      (s_ "Grammar", save_indexed [] [(s_ "grammar", with_markov cov n (C (sc_base (pc_structs P))));
                                     (s_ "raw_grammar", C (sc_raw (pc_structs P)))]);
      (s_ "Prince", save_indexed [] [(s_ "grammar", C (sc_prince (pc_structs P)))]) ].

  (* the filename lists config.ini records (config_file.create_config_file) *)
  Definition config_lists (P : pcounters) : list (str * list str) :=
    [ (s_ "BASE_A", filename_list (@lkeys O (pc_alpha P)));
      (s_ "BASE_D", filename_list (@lkeys O (pc_digits P)));
      (s_ "BASE_O", filename_list (@lkeys O (pc_other P)));
      (s_ "BASE_K", filename_list (@lkeys O (pc_keyboard P)));
      (s_ "BASE_X", [s_ "1.txt"]);
      (s_ "BASE_Y", [s_ "1.txt"]);
      (s_ "CAPITALIZATION", filename_list (@lkeys O (pc_masks P))) ].

  (* section of config.ini -> directory it points to *)
  Definition config_dirs : list (str * str) :=
    [ (s_ "BASE_A", s_ "Alpha"); (s_ "BASE_D", s_ "Digits"); (s_ "BASE_O", s_ "Other");
      (s_ "BASE_K", s_ "Keyboard"); (s_ "BASE_X", s_ "Context"); (s_ "BASE_Y", s_ "Years");
      (s_ "CAPITALIZATION", s_ "Capitalization") ].
End Save.
