(* The generated honeyword loop (gen/SessionHoney_gen.v: the translation of the Python text
   of lib_guesser/honeyword_session.py HoneywordSession.run, redone on every run by
   harness/translate_session.py) equals the hand-written model Honey.honey_loop the theorem
   C16_exactly_N is about.

   The world: self.random_seed ([cur_seed]), what the random generator was last seeded with
   ([rng]), and [words s] = the honeywords create_guesses(.., is_honeyword=True, ..) writes
   for the structure random_walk() returns right after random.seed(s).  Iteration i of the
   loop therefore produces [words (s0 + i)]: the model's list of iterations is
   [map words (seeds s0 k)].  The contract [honey_world] says what each operation does to
   these observations; create_guesses meets [limit_take] (the first l words, all for None / 0).

   Main names: honey_eq (generated = model for every limit n >= 1, every world meeting the
   contract, at most one word per iteration, the first k iterations holding at least n words,
   fuel > k), honey_unlimited (limit None / 0: the loop never stops by itself: after any
   number k of iterations it has written honey_loop iters 0 = all their words and goes on),
   source_exactly_N (C16_exactly_N transported), seed_world_* (the hypotheses are satisfiable;
   the generated code computes).

   The proof symbolically executes one iteration of the generated body against the model's
   step ([honey_step]) and does not mention the generated text. *)
From Coq Require Import List Arith ZArith NArith Bool Lia.
From Pcfg Require Import KernelRt ExpandRt Honey SessionRt SessionRtProofs.
From PcfgGen Require Import SessionHoney_gen.
Import ListNotations.

(* the seeds of k successive iterations *)
Fixpoint seeds (s : Z) (k : nat) : list Z :=
  match k with O => [] | S k' => s :: seeds (s + 1)%Z k' end.

Lemma honey_loop_0 (l : list (list nat)) : honey_loop l 0 = concat l.
Proof. destruct l; reflexivity. Qed.

Section HoneyEq.
Context {W Item Pt : Type}.
Context (item_pt : Item -> Pt).
Context (create_guesses : Pt -> bool -> option Z -> W -> sres Z * list nat * W).
Context (random_walk : W -> Item * W).
Context (get_random_seed : W -> Z) (set_random_seed : Z -> W -> W) (seed_random : Z -> W -> W).
(* observations of the world *)
Context (cur_seed : W -> Z) (rng : W -> option Z) (expansion : Pt -> list nat) (words : Z -> list nat).

Definition honey_world : Prop :=
  (forall w, get_random_seed w = cur_seed w) /\
  (forall z w, cur_seed (set_random_seed z w) = z) /\
  (forall z w, rng (seed_random z w) = Some z /\ cur_seed (seed_random z w) = cur_seed w) /\
  (forall w z, rng w = Some z ->
     expansion (item_pt (fst (random_walk w))) = words z /\ cur_seed (snd (random_walk w)) = cur_seed w) /\
  (forall pt l w,
     fst (create_guesses pt true l w) = (SOk (len (limit_take l (expansion pt))), limit_take l (expansion pt)) /\
     cur_seed (snd (create_guesses pt true l w)) = cur_seed w).

Context (Hw : honey_world).
Context (Hone : forall s, length (words s) <= 1).

Definition iterations (s : Z) (k : nat) : list (list nat) := map words (seeds s k).

Section Loop.
Context (body : W * list nat * Z * option Z -> lctl (sres unit * list nat * W) (W * list nat * Z * option Z)).
Context (k oof : W * list nat * Z * option Z -> sres unit * list nat * W).

(* one iteration against the model *)
Definition honey_step : Prop := forall w printed num,
  (forall n, n >= 1 ->
     if Nat.leb n (length (words (cur_seed w)))
     then exists w' num' l', body (w, printed, num, Some (Z.of_nat n)) = LBreak (w', printed ++ words (cur_seed w), num', l')
     else exists w' num', cur_seed w' = (cur_seed w + 1)%Z /\
            body (w, printed, num, Some (Z.of_nat n)) =
            LContinue (w', printed ++ words (cur_seed w), num', Some (Z.of_nat (n - length (words (cur_seed w)))))) /\
  (forall l, l = None \/ l = Some 0%Z ->
     exists w' num', cur_seed w' = (cur_seed w + 1)%Z /\
       body (w, printed, num, l) = LContinue (w', printed ++ words (cur_seed w), num', l)).

Hypothesis Hs : honey_step.
Hypothesis Hk : forall w printed num l, k (w, printed, num, l) = (SOk tt, printed, w).
Hypothesis Ho : forall w printed num l, oof (w, printed, num, l) = (SExc OutOfFuel, printed, w).

Lemma honey_loop_limited : forall iters fuel w printed num n,
  n >= 1 -> length (concat (iterations (cur_seed w) iters)) >= n -> iters < fuel ->
  exists w', while_loop fuel body (w, printed, num, Some (Z.of_nat n)) k oof =
             (SOk tt, printed ++ honey_loop (iterations (cur_seed w) iters) n, w').
Proof.
  induction iters as [|iters IH]; intros fuel w printed num n Hn Hlen Hf.
  - cbn in Hlen. lia.
  - destruct fuel as [|fuel]; [lia|]. rewrite while_loop_S.
    destruct (Hs w printed num) as [S1 _]. specialize (S1 n Hn).
    unfold iterations in *. cbn [seeds map concat] in *. rewrite app_length in Hlen.
    destruct n as [|n']; [lia|]. cbn [honey_loop].
    destruct (Nat.leb (S n') (length (words (cur_seed w)))) eqn:El.
    + destruct S1 as [w' [num' [l' ->]]]. rewrite Hk. exists w'. now rewrite app_nil_r.
    + destruct S1 as [w' [num' [Hseed ->]]]. apply Nat.leb_gt in El.
      destruct (IH fuel w' (printed ++ words (cur_seed w)) num' (S n' - length (words (cur_seed w)))) as [w'' ->];
        [lia | rewrite Hseed; lia | lia |].
      exists w''. rewrite Hseed, app_assoc. reflexivity.
Qed.

Lemma honey_loop_unlimited : forall iters w printed num l, l = None \/ l = Some 0%Z ->
  exists w', while_loop iters body (w, printed, num, l) k oof =
             (SExc OutOfFuel, printed ++ honey_loop (iterations (cur_seed w) iters) 0, w').
Proof.
  induction iters as [|iters IH]; intros w printed num l Hl.
  - cbn [while_loop]. rewrite Ho. exists w. cbn. now rewrite app_nil_r.
  - rewrite while_loop_S. destruct (Hs w printed num) as [_ S2].
    destruct (S2 l Hl) as [w' [num' [Hseed ->]]].
    destruct (IH w' (printed ++ words (cur_seed w)) num' l Hl) as [w'' ->].
    exists w''. unfold iterations. rewrite !honey_loop_0. cbn [seeds map concat]. rewrite Hseed, app_assoc. reflexivity.
Qed.
End Loop.

(* run the collaborators symbolically *)
Ltac world := destruct Hw as [Hget [Hset [Hseedr [Hwalk Hcreate]]]].

Lemma honey_body_step : forall fuel (limit : option Z) w,
  exists body k oof,
    py_honeyword_run item_pt create_guesses random_walk get_random_seed set_random_seed seed_random fuel limit w =
    while_loop fuel body (w, [], 0%Z, limit) k oof /\
    honey_step body /\
    (forall w printed num l, k (w, printed, num, l) = (SOk tt, printed, w)) /\
    (forall w printed num l, oof (w, printed, num, l) = (SExc OutOfFuel, printed, w)).
Proof.
  intros fuel limit w. unfold py_honeyword_run.
  match goal with |- context [while_loop fuel ?b _ ?k ?o] => exists b, k, o end.
  split; [reflexivity|]. split; [|split; reflexivity].
  (* one iteration of the generated body against the model *)
  world. intros w0 printed num. cbv beta iota.
  rewrite Hget.
  destruct (Hseedr (cur_seed w0) w0) as [Hr1 Hs1]. set (w1 := seed_random (cur_seed w0) w0) in *.
  destruct (Hwalk w1 (cur_seed w0) Hr1) as [Hx Hs2]. destruct (random_walk w1) as [it w2]. cbn [fst snd] in Hx, Hs2.
  split.
  - intros n Hn.
    destruct (Hcreate (item_pt it) (Some (Z.of_nat n)) w2) as [Hc Hs3].
    destruct (create_guesses (item_pt it) true (Some (Z.of_nat n)) w2) as [[r o] w3]. cbn [fst snd] in Hc, Hs3.
    injection Hc as -> ->. cbn [sbind]. rewrite Hx.
    rewrite limit_take_pos by exact Hn. pose proof (Hone (cur_seed w0)) as H1.
    rewrite firstn_all2 by lia.
    unfold if_truthy. destruct (Z.eqb_spec (Z.of_nat n) 0) as [E0|E0]; [lia|].
    destruct (Nat.leb n (length (words (cur_seed w0)))) eqn:El; zb El.
    + split_test; [|unfold len in *; lia]. do 3 eexists. reflexivity.
    + split_test; [unfold len in *; lia|]. rewrite Hget.
      eexists. eexists. split; [|unfold extend, len; repeat f_equal; lia].
      rewrite Hset. congruence.
  - intros l Hl.
    destruct (Hcreate (item_pt it) l w2) as [Hc Hs3].
    destruct (create_guesses (item_pt it) true l w2) as [[r o] w3]. cbn [fst snd] in Hc, Hs3.
    injection Hc as -> ->. cbn [sbind]. rewrite Hx.
    replace (limit_take l (words (cur_seed w0))) with (words (cur_seed w0)) by (destruct Hl as [-> | ->]; reflexivity).
    destruct Hl as [-> | ->]; cbn [if_truthy Z.eqb]; rewrite Hget;
      (eexists; eexists; split; [|reflexivity]; rewrite Hset; congruence).
Qed.

Theorem honey_eq : forall (n iters fuel : nat) (w : W),
  n >= 1 -> length (concat (iterations (cur_seed w) iters)) >= n -> iters < fuel ->
  exists w', py_honeyword_run item_pt create_guesses random_walk get_random_seed set_random_seed seed_random
                              fuel (Some (Z.of_nat n)) w =
             (SOk tt, honey_loop (iterations (cur_seed w) iters) n, w').
Proof.
  intros n iters fuel w Hn Hlen Hf.
  destruct (honey_body_step fuel (Some (Z.of_nat n)) w) as [body [k [oof [-> [Hs [Hk Ho]]]]]].
  destruct (honey_loop_limited body k oof Hs Hk iters fuel w [] 0%Z n Hn Hlen Hf) as [w' H].
  exists w'. exact H.
Qed.

(* limit None / 0 (`if limit:` is false): the loop has no exit of its own *)
Theorem honey_unlimited : forall (l : option Z) (iters : nat) (w : W), l = None \/ l = Some 0%Z ->
  exists w', py_honeyword_run item_pt create_guesses random_walk get_random_seed set_random_seed seed_random iters l w =
             (SExc OutOfFuel, honey_loop (iterations (cur_seed w) iters) 0, w').
Proof.
  intros l iters w Hl.
  destruct (honey_body_step iters l w) as [body [k [oof [-> [Hs [Hk Ho]]]]]].
  destruct (honey_loop_unlimited body k oof Hs Ho iters w [] 0%Z l Hl) as [w' H].
  exists w'. exact H.
Qed.

(* C16_exactly_N for the translated source *)
Corollary source_exactly_N : forall (n iters fuel : nat) (w : W),
  n >= 1 -> length (concat (iterations (cur_seed w) iters)) >= n -> iters < fuel ->
  let out := snd (fst (py_honeyword_run item_pt create_guesses random_walk get_random_seed set_random_seed seed_random
                                        fuel (Some (Z.of_nat n)) w)) in
  out = firstn n (concat (iterations (cur_seed w) iters)) /\ length out = n.
Proof.
  intros n iters fuel w Hn Hlen Hf. destruct (honey_eq n iters fuel w Hn Hlen Hf) as [w' H].
  cbv zeta. rewrite H. cbn [fst snd]. apply honey_exactly_N; [exact Hn | | exact Hlen].
  unfold iterations. apply Forall_forall. intros x Hx. apply in_map_iff in Hx. destruct Hx as [s [<- _]]. apply Hone.
Qed.
End HoneyEq.

(* ---- the hypotheses are satisfiable: a world that is (self.random_seed, last seed given to
   the generator), with the words of a seed given by a function ---- *)
Section SeedWorld.
Context (words : Z -> list nat).
Definition sw_item := list nat.
Definition sw_world := (Z * option Z)%type.
Definition sw_create (pt : list nat) (_ : bool) (l : option Z) (w : sw_world) : sres Z * list nat * sw_world :=
  (SOk (len (limit_take l pt)), limit_take l pt, w).
Definition sw_walk (w : sw_world) : sw_item * sw_world :=
  (match snd w with Some z => words z | None => [] end, w).
Definition sw_get (w : sw_world) : Z := fst w.
Definition sw_set (z : Z) (w : sw_world) : sw_world := (z, snd w).
Definition sw_seed (z : Z) (w : sw_world) : sw_world := (fst w, Some z).

Lemma seed_world_ok :
  honey_world (fun it : sw_item => it) sw_create sw_walk sw_get sw_set sw_seed (fun w => fst w) (fun w => snd w)
              (fun pt => pt) words.
Proof.
  unfold honey_world. repeat split; try reflexivity.
  - match goal with H : _ = Some _ |- _ => cbn; now rewrite H end.
Qed.
End SeedWorld.

Example seed_world_example :
  let words := fun z : Z => if Z.eqb (z mod 3) 0 then @nil nat else [Z.to_nat z] in
  py_honeyword_run (fun it : sw_item => it) sw_create (sw_walk words) sw_get sw_set sw_seed 10 (Some 4%Z) (1%Z, None)
  = (SOk tt, [1; 2; 4; 5], (5%Z, Some 5%Z)) /\
  honey_loop (iterations words 1 6) 4 = [1; 2; 4; 5].
Proof. split; vm_compute; reflexivity. Qed.
