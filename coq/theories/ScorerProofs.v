(* C13: a non-zero score is a promise the guesser keeps (over exact
   rationals: the scorer multiplies class by class, the guesser position by
   position; the products differ only in order). *)
From Coq Require Import List ZArith NArith Bool Lia QArith Sorting.Permutation Setoid.
From Pcfg Require Import Str Multiword Detect Segment Scorer DetectProofsStr DetectProofsDrive DetectProofsSimple
     DetectProofsSeg DetectProofsCount DetectProofsPipe.
Import ListNotations.
Open Scope Z_scope.

Notation rsQ := (ruleset Q).
Notation scoreQ := (score Q Qmult 0%Q 1%Q).   (* then: rebuild_check upper_c seg rs s *)
Notation lookupQ := (lookup_len Q 0%Q).
Notation getQ := (counter_get Q 0%Q).

(* ---- products of rationals *)

Definition qprod (l : list Q) : Q := fold_right Qmult 1%Q l.

Lemma qprod_cons x l : (qprod (x :: l) == x * qprod l)%Q.
Proof. reflexivity. Qed.

Lemma qprod_app a b : (qprod (a ++ b) == qprod a * qprod b)%Q.
Proof. induction a as [|x a IH]; simpl; [ring|]. rewrite IH. ring. Qed.

Lemma qprod_perm a b : Permutation a b -> (qprod a == qprod b)%Q.
Proof.
  induction 1; simpl; try reflexivity.
  - now rewrite IHPermutation.
  - ring.
  - now rewrite IHPermutation1.
Qed.

Lemma qprod_nonzero l : ~ (qprod l == 0)%Q -> Forall (fun x => ~ (x == 0)%Q) l.
Proof.
  induction l as [|x l IH]; intros H; [constructor|]. simpl in H. constructor.
  - intros E. apply H. rewrite E. ring.
  - apply IH. intros E. apply H. rewrite E. ring.
Qed.

Lemma str_eqb_eq a b : str_eqb a b = true -> a = b.
Proof.
  revert b. induction a as [|x a IH]; intros [|y b] H; simpl in H; try discriminate; [reflexivity|].
  apply andb_true_iff in H. destruct H as (H1 & H2). apply N.eqb_eq in H1. f_equal; [assumption|now apply IH].
Qed.

Lemma dict_get_In (d : entries Q) k v : dict_get Q d k = Some v -> In (k, v) d.
Proof.
  induction d as [|[k' v'] r IH]; simpl; [discriminate|].
  destruct (str_eqb k' k) eqn:E.
  - intros H. injection H as <-. apply str_eqb_eq in E. subst. now left.
  - intros H. right. now apply IH.
Qed.

Lemma getQ_nonzero d k : ~ (getQ d k == 0)%Q -> In (k, getQ d k) d.
Proof.
  unfold counter_get. destruct (dict_get Q d k) as [v|] eqn:E; [intros _; now apply dict_get_In|].
  intros H. exfalso. apply H. reflexivity.
Qed.

(* the value a length-indexed lookup multiplies in; 0 for a KeyError *)
Definition lenval (t : list (Z * entries Q)) (item : str) : Q :=
  match lookupQ t item with Some v => v | None => 0%Q end.

Lemma mul_flat_spec d items acc :
  (mul_flat Q Qmult 0%Q d items acc == acc * qprod (map (getQ d) items))%Q.
Proof.
  revert acc. induction items as [|i r IH]; intros acc; simpl; [ring|]. rewrite IH. ring.
Qed.

Lemma mul_len_spec t items : forall acc v, mul_len Q Qmult 0%Q t items acc = Some v ->
  (v == acc * qprod (map (lenval t) items))%Q.
Proof.
  induction items as [|i r IH]; intros acc v H; simpl in H.
  - injection H as <-. simpl. ring.
  - simpl. destruct (lookupQ t i) as [w|] eqn:E; [|discriminate].
    rewrite (IH _ _ H). assert (Ei : lenval t i = w) by (unfold lenval; now rewrite E). rewrite Ei. ring.
Qed.

Lemma lenval_nonzero t item : ~ (lenval t item == 0)%Q ->
  exists e, by_len Q t (len item) = Some e /\ In (item, lenval t item) e.
Proof.
  unfold lenval, lookup_len. destruct (by_len Q t (len item)) as [e|] eqn:E.
  - intros H. exists e. split; [reflexivity|]. now apply getQ_nonzero.
  - intros H. exfalso. apply H. reflexivity.
Qed.

(* ---- the guesser's language with probabilities *)

Section Guesser.
Variable upper_c : N -> str.
Definition chL : N := 76%N.

(* PcfgGrammar._recursive_guesses, category 'C': 'L' keeps the letter, anything
   else upper-cases it *)
Fixpoint apply_mask (mask word : str) : str :=
  match mask, word with
  | m :: mr, c :: wr => (if N.eqb m chL then [c] else upper_c c) ++ apply_mask mr wr
  | _, _ => []
  end.

(* one position of a base structure: the text a terminal of that variable
   contributes to the guess and its probability (for an alpha variable: the
   word and the capitalisation mask that follows it) *)
Inductive pick_ok (rs : rsQ) : label -> str -> Q -> Prop :=
| pk_K n e v p : by_len Q (r_keyboard Q rs) n = Some e -> In (v, p) e -> pick_ok rs (LK n) v p
| pk_Y v p : In (v, p) (r_years Q rs) -> pick_ok rs LY v p
| pk_X v p : In (v, p) (r_context Q rs) -> pick_ok rs LX v p
| pk_A n e em w pw mask pmk : by_len Q (r_alpha Q rs) n = Some e -> In (w, pw) e ->
    by_len Q (r_masks Q rs) n = Some em -> In (mask, pmk) em ->
    pick_ok rs (LA n) (apply_mask mask w) (pw * pmk)%Q
| pk_D n e v p : by_len Q (r_digits Q rs) n = Some e -> In (v, p) e -> pick_ok rs (LD n) v p
| pk_O n e v p : by_len Q (r_other Q rs) n = Some e -> In (v, p) e -> pick_ok rs (LO n) v p.

(* s is a guess of a pre-terminal of probability p: a base structure and one
   terminal (probability group) per position *)
Definition generates (rs : rsQ) (s : str) (p : Q) : Prop :=
  exists ls bp picks, In (ls, bp) (r_bases Q rs) /\
    Forall2 (fun l tp => pick_ok rs l (fst tp) (snd tp)) ls picks /\
    s = concat (map fst picks) /\ (p == bp * qprod (map snd picks))%Q.

End Guesser.

(* ---- the promise *)

Section Promise.
Variables isalpha isdigit isupper : N -> bool.
Variables lower_c upper_c : N -> str.
Variable kbs : list board.
Variable fp_words : list str.
Variable min_run : Z.
Variable tlds : list str.
Variable year_prefixes : list str.
Variable context_strings : list str.
Variables mw_threshold mw_min_len mw_max_len : Z.
Hypothesis min_len_pos : 1 <= mw_min_len.
Hypothesis year_prefix_len : Forall (fun q => len q = 2) year_prefixes.
Hypothesis tlds_nonempty : Forall (fun t => 1 <= len t) tlds.
Hypothesis min_run_4 : 4 <= min_run.

Notation L := (map (lower1 lower_c)).
Notation good := (good isalpha isdigit lower_c).
Notation sound := (sound isalpha isdigit kbs min_run year_prefixes context_strings).
Notation pm := (pm lower_c).
Notation PARSE := (parse isalpha isdigit isupper lower_c true kbs fp_words min_run tlds year_prefixes context_strings
                         mw_threshold mw_min_len mw_max_len).
Notation cmask := (case_mask isupper).

(* the guesser re-creates a letter from the lower-cased word and the mask:
   'U' -> upper(), 'L' -> unchanged.  That gives back the original character
   when its case mapping is one-to-one *)
Definition case_okc (c : N) : Prop :=
  if isupper c then upper_c (lower1 lower_c c) = [c] else lower1 lower_c c = c.
Definition case_ok (s : str) : Prop := Forall case_okc s.

Lemma apply_mask_case t : case_ok t -> apply_mask upper_c (cmask t) (L t) = t.
Proof.
  induction 1 as [|c t Hc _ IH]; [reflexivity|]. simpl. unfold case_okc in Hc.
  destruct (isupper c); simpl.
  - rewrite Hc. simpl. now rewrite IH.
  - rewrite Hc. simpl. now rewrite IH.
Qed.

Lemma cmask_len t : len (cmask t) = len t.
Proof. unfold len, case_mask. now rewrite map_length. Qed.

(* the factors the scorer multiplies in for one section *)
Definition facs (rs : rsQ) (x : section) : list Q :=
  match snd x with
  | Some (LK _) => [lenval (r_keyboard Q rs) (fst x)]
  | Some LY => [getQ (r_years Q rs) (fst x)]
  | Some LX => [getQ (r_context Q rs) (fst x)]
  | Some (LA _) => [lenval (r_alpha Q rs) (L (fst x)); lenval (r_masks Q rs) (cmask (fst x))]
  | Some (LD _) => [lenval (r_digits Q rs) (fst x)]
  | Some (LO _) => [lenval (r_other Q rs) (fst x)]
  | _ => []
  end.

Lemma facs_partition rs sl :
  (qprod (flat_map (facs rs) sl) ==
   qprod (map (lenval (r_keyboard Q rs)) (texts 0 sl)) *
   qprod (map (getQ (r_years Q rs)) (texts 3 sl)) *
   qprod (map (getQ (r_context Q rs)) (texts 4 sl)) *
   qprod (map (lenval (r_alpha Q rs)) (map L (texts 5 sl))) *
   qprod (map (lenval (r_masks Q rs)) (map cmask (texts 5 sl))) *
   qprod (map (lenval (r_digits Q rs)) (texts 6 sl)) *
   qprod (map (lenval (r_other Q rs)) (texts 7 sl)))%Q.
Proof.
  induction sl as [|[t [l|]] r IH]; simpl.
  - ring.
  - rewrite qprod_app, IH. unfold texts, facs. destruct l; simpl; ring.
  - exact IH.
Qed.

Lemma product_spec rs r :
  ~ (product Q Qmult 0%Q 1%Q rs r == 0)%Q ->
  exists bp, base_get Q (r_bases Q rs) (p_base r) = Some bp /\
  (product Q Qmult 0%Q 1%Q rs r ==
   qprod (map (lenval (r_keyboard Q rs)) (p_walks r)) *
   qprod (map (getQ (r_years Q rs)) (p_years r)) *
   qprod (map (getQ (r_context Q rs)) (p_context r)) *
   qprod (map (lenval (r_alpha Q rs)) (p_alpha r)) *
   qprod (map (lenval (r_masks Q rs)) (p_masks r)) *
   qprod (map (lenval (r_digits Q rs)) (p_digits r)) *
   qprod (map (lenval (r_other Q rs)) (p_other r)) * bp)%Q.
Proof.
  unfold product. intros H.
  destruct (mul_len Q Qmult 0%Q (r_keyboard Q rs) (p_walks r) 1%Q) as [a1|] eqn:E1; [|exfalso; apply H; reflexivity].
  destruct (mul_len Q Qmult 0%Q (r_alpha Q rs) (p_alpha r) _) as [a4|] eqn:E4; [|exfalso; apply H; reflexivity].
  destruct (mul_len Q Qmult 0%Q (r_masks Q rs) (p_masks r) a4) as [a5|] eqn:E5; [|exfalso; apply H; reflexivity].
  destruct (mul_len Q Qmult 0%Q (r_digits Q rs) (p_digits r) a5) as [a6|] eqn:E6; [|exfalso; apply H; reflexivity].
  destruct (mul_len Q Qmult 0%Q (r_other Q rs) (p_other r) a6) as [a7|] eqn:E7; [|exfalso; apply H; reflexivity].
  destruct (base_get Q (r_bases Q rs) (p_base r)) as [bp|] eqn:Eb; [|exfalso; apply H; ring].
  exists bp. split; [reflexivity|].
  apply mul_len_spec in E1, E4, E5, E6, E7. rewrite E7, E6, E5, E4, !mul_flat_spec, E1. ring.
Qed.

Lemma base_get_In (b : list (list label * Q)) k v : base_get Q b k = Some v -> exists k', In (k', v) b /\ labels_eqb k' k = true.
Proof.
  induction b as [|[k' v'] r IH]; simpl; [discriminate|].
  destruct (base_get Q r k) as [w|] eqn:E.
  - intros H. injection H as <-. destruct (IH eq_refl) as (k2 & Hin & He). exists k2. split; [now right|assumption].
  - destruct (labels_eqb k' k) eqn:El; [|discriminate]. intros H. injection H as <-. exists k'. split; [now left|assumption].
Qed.

Lemma label_eqb_eq a b : label_eqb a b = true -> a = b.
Proof. destruct a, b; simpl; try discriminate; try reflexivity; intros H; apply Z.eqb_eq in H; now subst. Qed.

Lemma labels_eqb_eq a b : labels_eqb a b = true -> a = b.
Proof.
  revert b. induction a as [|x a IH]; intros [|y b] H; simpl in H; try discriminate; [reflexivity|].
  apply andb_true_iff in H. destruct H as (H1 & H2). apply label_eqb_eq in H1. f_equal; [assumption|now apply IH].
Qed.

Lemma build_picks rs : forall sl ls,
  map snd sl = map Some ls -> forallb supported_label ls = true -> Forall sound sl ->
  Forall (fun q => ~ (q == 0)%Q) (flat_map (facs rs) sl) ->
  Forall (fun x => isC 5 x = true -> apply_mask upper_c (cmask (fst x)) (L (fst x)) = fst x) sl ->
  exists picks, Forall2 (fun l tp => pick_ok upper_c rs l (fst tp) (snd tp)) ls picks /\
                map fst picks = map fst sl /\ (qprod (map snd picks) == qprod (flat_map (facs rs) sl))%Q.
Proof.
  induction sl as [|[t lab] r IH]; intros ls Hl Hsup Hs Hnz Hc.
  - destruct ls; [|simpl in Hl; discriminate]. exists []. split; [constructor|split; reflexivity].
  - destruct ls as [|l ls]; [simpl in Hl; discriminate|]. simpl in Hl. injection Hl as -> Hl.
    simpl in Hsup. apply andb_true_iff in Hsup. destruct Hsup as (Hsl & Hsup).
    inversion Hs as [|? ? Hst Hsr]; subst. simpl in Hnz. apply Forall_app in Hnz. destruct Hnz as (Hn1 & Hnr).
    inversion Hc as [|? ? Hct Hcr]; subst.
    destruct (IH ls Hl Hsup Hsr Hnr Hcr) as (picks & Hp & Hf & Hq).
    destruct Hst as (_ & Hst). simpl in Hst.
    destruct l as [n| | | | |n|n|n]; try discriminate; unfold facs in Hn1; simpl in Hn1.
    + (* K *) destruct Hst as (-> & _). inversion Hn1 as [|? ? Hv _]; subst.
      destruct (lenval_nonzero _ _ Hv) as (e & He & Hin).
      exists ((t, lenval (r_keyboard Q rs) t) :: picks). split; [|split].
      * constructor; [|assumption]. simpl. now apply pk_K with (e := e).
      * simpl. now rewrite Hf.
      * simpl. unfold facs at 1. simpl. rewrite Hq. reflexivity.
    + (* Y *) inversion Hn1 as [|? ? Hv _]; subst. apply getQ_nonzero in Hv.
      exists ((t, getQ (r_years Q rs) t) :: picks). split; [|split].
      * constructor; [|assumption]. simpl. now apply pk_Y.
      * simpl. now rewrite Hf.
      * simpl. unfold facs at 1. simpl. rewrite Hq. reflexivity.
    + (* X *) inversion Hn1 as [|? ? Hv _]; subst. apply getQ_nonzero in Hv.
      exists ((t, getQ (r_context Q rs) t) :: picks). split; [|split].
      * constructor; [|assumption]. simpl. now apply pk_X.
      * simpl. now rewrite Hf.
      * simpl. unfold facs at 1. simpl. rewrite Hq. reflexivity.
    + (* A *) destruct Hst as (-> & _). inversion Hn1 as [|? ? Hv Hn2]; subst. inversion Hn2 as [|? ? Hm _]; subst.
      destruct (lenval_nonzero _ _ Hv) as (e & He & Hin). destruct (lenval_nonzero _ _ Hm) as (em & Hem & Hinm).
      rewrite (L_len lower_c t) in He. rewrite cmask_len in Hem.
      exists ((t, (lenval (r_alpha Q rs) (L t) * lenval (r_masks Q rs) (cmask t))%Q) :: picks). split; [|split].
      * constructor; [|assumption]. simpl.
        assert (Hpk : pick_ok upper_c rs (LA (len t)) (apply_mask upper_c (cmask t) (L t))
                        (lenval (r_alpha Q rs) (L t) * lenval (r_masks Q rs) (cmask t))%Q)
          by (now apply pk_A with (e := e) (em := em)).
        pose proof (Hct eq_refl) as Hrt1. simpl in Hrt1. now rewrite Hrt1 in Hpk.
      * simpl. now rewrite Hf.
      * cbn [map snd].
        change (flat_map (facs rs) ((t, Some (LA (len t))) :: r))
          with ([lenval (r_alpha Q rs) (L t); lenval (r_masks Q rs) (cmask t)] ++ flat_map (facs rs) r).
        rewrite qprod_app, !qprod_cons, Hq. simpl. ring.
    + (* D *) destruct Hst as (-> & _). inversion Hn1 as [|? ? Hv _]; subst.
      destruct (lenval_nonzero _ _ Hv) as (e & He & Hin).
      exists ((t, lenval (r_digits Q rs) t) :: picks). split; [|split].
      * constructor; [|assumption]. simpl. now apply pk_D with (e := e).
      * simpl. now rewrite Hf.
      * simpl. unfold facs at 1. simpl. rewrite Hq. reflexivity.
    + (* O *) destruct Hst as (-> & _). inversion Hn1 as [|? ? Hv _]; subst.
      destruct (lenval_nonzero _ _ Hv) as (e & He & Hin).
      exists ((t, lenval (r_other Q rs) t) :: picks). split; [|split].
      * constructor; [|assumption]. simpl. now apply pk_O with (e := e).
      * simpl. now rewrite Hf.
      * simpl. unfold facs at 1. simpl. rewrite Hq. reflexivity.
Qed.

Lemma tiles_noW s sl : Forall (fun x => snd x <> Some LW) sl -> tiles pm s sl -> s = concat (map fst sl).
Proof.
  intros Hw (pieces & <- & Hf). induction Hf as [|pc x ps xs Hpm _ IH]; [reflexivity|].
  inversion Hw as [|? ? Hx Hxs]; subst. simpl. rewrite (IH Hxs). f_equal.
  unfold DetectProofsSeg.pm in Hpm. destruct (snd x) as [[]|]; try assumption. congruence.
Qed.

Lemma alpha_sections_texts sl : alpha_sections sl = texts 5 sl.
Proof.
  unfold alpha_sections, texts. f_equal. apply filter_ext. intros [t [l|]]; [|reflexivity]. now destruct l.
Qed.

Lemma rebuild_apply_mask : forall t w, rebuild upper_c w (cmask t) = apply_mask upper_c (cmask t) w.
Proof.
  induction t as [|c t IH]; intros w; simpl.
  - destruct w; reflexivity.
  - destruct w as [|x w]; [reflexivity|]. simpl. rewrite IH. now destruct (isupper c).
Qed.

Lemma rebuild_all_spec : forall ts, rebuild_all upper_c ts (map L ts) (map cmask ts) = true ->
  Forall (fun t => apply_mask upper_c (cmask t) (L t) = t) ts.
Proof.
  induction ts as [|t ts IH]; intros H; [constructor|]. simpl in H. apply andb_true_iff in H. destruct H as (H1 & H2).
  constructor; [|now apply IH]. apply str_eqb_eq in H1. now rewrite <- rebuild_apply_mask.
Qed.

(* the common part: a non-zero product whose alpha sections are re-created by
   their masks is a guess of a pre-terminal with that probability *)
Lemma promise_core : forall rs m s r, s <> [] -> good s -> PARSE m s = POk r ->
  (forall r', PARSE m s = POk r' -> tiles pm s (p_sections r') /\ Forall sound (p_sections r') /\
                                   counters_ok isupper lower_c r') ->
  p_supported r = true -> ~ (product Q Qmult 0%Q 1%Q rs r == 0)%Q ->
  Forall (fun x => isC 5 x = true -> apply_mask upper_c (cmask (fst x)) (L (fst x)) = fst x) (p_sections r) ->
  generates upper_c rs s (product Q Qmult 0%Q 1%Q rs r).
Proof.
  intros rs m s r Hne Hg Er Hfacts Esup Hp Hrt.
  destruct (Hfacts r Er) as (Ht & Hs & Hcnt).
  destruct (product_spec rs r Hp) as (bp & Eb & Eprod).
  destruct Hcnt as (C0 & _ & _ & C3 & C4 & C5 & C5m & C6 & C7 & Hlabs & Hbase & Hsupp & _).
  rewrite Hbase in *. rewrite Hsupp in Esup.
  assert (Esec : (product Q Qmult 0%Q 1%Q rs r == qprod (flat_map (facs rs) (p_sections r)) * bp)%Q).
  { rewrite Eprod, facs_partition.
    rewrite (qprod_perm _ _ (Permutation_map (lenval (r_keyboard Q rs)) C0)).
    rewrite (qprod_perm _ _ (Permutation_map (getQ (r_years Q rs)) C3)).
    rewrite (qprod_perm _ _ (Permutation_map (getQ (r_context Q rs)) C4)).
    rewrite (qprod_perm _ _ (Permutation_map (lenval (r_alpha Q rs)) C5)).
    rewrite (qprod_perm _ _ (Permutation_map (lenval (r_masks Q rs)) C5m)).
    rewrite (qprod_perm _ _ (Permutation_map (lenval (r_digits Q rs)) C6)).
    rewrite (qprod_perm _ _ (Permutation_map (lenval (r_other Q rs)) C7)). reflexivity. }
  assert (Hnz : ~ (qprod (flat_map (facs rs) (p_sections r)) == 0)%Q).
  { intros E. apply Hp. rewrite Esec, E. ring. }
  assert (HnoW : Forall (fun x => snd x <> Some LW) (p_sections r)).
  { apply Forall_forall. intros [t lab] Hin Elab. simpl in Elab. subst lab.
    assert (Hin2 : In (Some LW) (map snd (p_sections r))) by (apply in_map_iff; now exists (t, Some LW)).
    rewrite Hlabs in Hin2. apply in_map_iff in Hin2. destruct Hin2 as (l & El & Hinl). injection El as ->.
    rewrite forallb_forall in Esup. specialize (Esup _ Hinl). discriminate. }
  pose proof (tiles_noW s _ HnoW Ht) as Es.
  destruct (build_picks rs (p_sections r) (p_prince r) Hlabs Esup Hs (qprod_nonzero _ Hnz) Hrt) as (picks & Hpk & Hf & Hq).
  destruct (base_get_In _ _ _ Eb) as (k' & Hin & Hk). apply labels_eqb_eq in Hk. subst k'.
  exists (p_prince r), bp, picks. split; [assumption|]. split; [assumption|]. split.
  - now rewrite Hf.
  - rewrite Esec, Hq. ring.
Qed.

Lemma parse_facts m s : s <> [] -> good s ->
  exists r, PARSE m s = POk r /\ tiles pm s (p_sections r) /\ Forall sound (p_sections r) /\ counters_ok isupper lower_c r.
Proof.
  intros Hne Hg.
  destruct (parse_full isalpha isdigit isupper lower_c kbs fp_words min_run tlds year_prefixes context_strings
              mw_threshold mw_min_len mw_max_len min_len_pos year_prefix_len tlds_nonempty min_run_4 m s Hg Hne)
    as (r & Er & Ht & Hs & _ & Hcnt & _). eauto.
Qed.

(* with the rebuild check of the repaired scorer: for EVERY string *)
Theorem promise : forall rs m s cat p, s <> [] -> good s ->
  scoreQ true upper_c (PARSE m) rs s = Some (cat, p) -> ~ (p == 0)%Q -> generates upper_c rs s p.
Proof.
  intros rs m s cat p Hne Hg Hsc Hp. unfold score in Hsc.
  destruct (parse_facts m s Hne Hg) as (r & Er & Ht & Hs & Hcnt). rewrite Er in Hsc.
  destruct (nonempty (p_emails r)); [injection Hsc as _ <-; exfalso; apply Hp; reflexivity|].
  destruct (nonempty (p_urls r)); [injection Hsc as _ <-; exfalso; apply Hp; reflexivity|].
  destruct (p_supported r) eqn:Esup; [|injection Hsc as _ <-; exfalso; apply Hp; reflexivity].
  simpl in Hsc. destruct (rebuild_ok upper_c r) eqn:Erb; simpl in Hsc; injection Hsc as _ <-; [|exfalso; apply Hp; reflexivity].
  apply (promise_core rs m s r Hne Hg Er); try assumption.
  - intros r' Er'. rewrite Er in Er'. injection Er' as <-. auto.
  - (* the rebuild check is the mask round trip of every alpha section *)
    destruct Hcnt as (_ & _ & _ & _ & _ & _ & _ & _ & _ & _ & _ & _ & _ & _ & _ & OA & OM).
    unfold rebuild_ok in Erb. rewrite alpha_sections_texts, OA, OM in Erb. apply rebuild_all_spec in Erb.
    unfold texts in Erb. rewrite Forall_map in Erb. apply Forall_forall. intros x Hin Hc.
    rewrite Forall_forall in Erb. apply Erb. apply filter_In. now split.
Qed.

(* without it (the scorer as it was): only for strings whose case mapping is
   one-to-one *)
Theorem promise_unchecked : forall rs m s cat p, s <> [] -> good s ->
  scoreQ false upper_c (PARSE m) rs s = Some (cat, p) -> ~ (p == 0)%Q -> case_ok s -> generates upper_c rs s p.
Proof.
  intros rs m s cat p Hne Hg Hsc Hp Hcase. unfold score in Hsc.
  destruct (parse_facts m s Hne Hg) as (r & Er & Ht & Hs & Hcnt). rewrite Er in Hsc.
  destruct (nonempty (p_emails r)); [injection Hsc as _ <-; exfalso; apply Hp; reflexivity|].
  destruct (nonempty (p_urls r)); [injection Hsc as _ <-; exfalso; apply Hp; reflexivity|].
  destruct (p_supported r) eqn:Esup; [|injection Hsc as _ <-; exfalso; apply Hp; reflexivity].
  simpl in Hsc. injection Hsc as _ <-.
  apply (promise_core rs m s r Hne Hg Er); try assumption.
  - intros r' Er'. rewrite Er in Er'. injection Er' as <-. auto.
  - (* every section text is a piece of s *)
    destruct Ht as (pieces & Hc & Hf). subst s.
    assert (Hall : Forall case_ok pieces).
    { clear -Hcase. induction pieces as [|pc ps IH]; [constructor|]. simpl in Hcase. unfold case_ok in Hcase.
      apply Forall_app in Hcase. destruct Hcase. constructor; [assumption|now apply IH]. }
    clear -Hf Hall. induction Hf as [|pc x ps xs Hpm _ IH]; [constructor|]. inversion Hall; subst.
    constructor; [|now apply IH]. intros Hc. apply apply_mask_case.
    unfold DetectProofsSeg.pm in Hpm. unfold isC in Hc. destruct (snd x) as [[]|]; try discriminate. now subst.
Qed.

End Promise.
