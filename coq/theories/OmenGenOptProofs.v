(* The generated Optimizer code (gen/OmenGen_opt_gen.v: the translation of the
   Python text of Optimizer.__init__, custom_copy, lookup and update, redone on
   every run) computes what the memo table of the hand-written model (Omen.v:
   clookup / cupdate / cempty) computes.

   The Python object keeps a list indexed by the length of nested dicts
   ip_ngram -> target_level -> value; the model has one association list keyed
   by (length, ip, level).  The two are related by [crel]: every key with
   length <= max_length has the same value on both sides (a parse tree of the
   model appearing in Python as [tree_py]).  custom_copy turns an EMPTY list
   into None, so the relation also says that the model never stores Some []
   (the generator never does: [fill] returns None or a non-empty tree).

   These proofs are meant to break when one of the Python methods changes its
   meaning (a key left out or swapped, the copy dropped, ...). *)
From Coq Require Import List Arith Bool NArith ZArith Lia.
From Pcfg Require Import OmenSpec Omen OmenProofs OmenGenRt OmenGenRtProofs.
From PcfgGen Require Import OmenGen_opt_gen.
Import ListNotations.

(* ------------------------------------------------------------------ *)
(* the relation                                                         *)

(* self.tmto_lookup[k][p][l] as a partial function *)
Definition tm_find (tm : pytmto) (k : nat) (p : ostr) (l : Z) : option (option pytree) :=
  match nth_error tm k with
  | Some d1 => match dfind ostr_eqb p d1 with
               | Some d2 => dfind Z.eqb l d2
               | None => None
               end
  | None => None
  end.

Definition crel (optmax : nat) (o : pyopt) (c : cache) : Prop :=
  o_max_length o = Z.of_nat optmax /\
  length (o_tmto_lookup o) = S optmax /\
  (forall k p l, k <= optmax -> tm_find (o_tmto_lookup o) k p l = option_map otree_py (clookup c (k, p, l))) /\
  (forall key, clookup c key <> Some (Some [])).

Lemma otree_py_nil v : v <> Some [] -> otree_py v <> Some [].
Proof. destruct v as [[|r t]|]; cbn; congruence. Qed.

Lemma truthy_otree_py v : truthy (otree_py v) = match v with Some (_ :: _) => true | _ => false end.
Proof. destruct v as [[|r t]|]; reflexivity. Qed.

(* ------------------------------------------------------------------ *)
(* custom_copy                                                          *)

Lemma gen_custom_copy fuel o (v : option pytree) :
  py_opt_custom_copy fuel o v = Ok (match v with Some (_ :: _) => v | _ => None end).
Proof.
  unfold py_opt_custom_copy. destruct v as [[|r t]|]; reflexivity.
Qed.

Lemma gen_custom_copy_id fuel o (v : option pytree) : v <> Some [] -> py_opt_custom_copy fuel o v = Ok v.
Proof. intro H. rewrite gen_custom_copy. destruct v as [[|r t]|]; [exfalso; now apply H | reflexivity | reflexivity]. Qed.

(* ------------------------------------------------------------------ *)
(* __init__                                                             *)

Lemma init_loop (l : list Z) (o : pyopt) (body : Z -> pyopt -> res (lctl pyopt pyopt)) :
  (forall i s, body i s = Ok (Continue (set_o_tmto_lookup s (o_tmto_lookup s ++ [[]])))) ->
  mfor l body o (fun s => Ok s) =
  Ok (mk_pyopt (o_max_length o) (o_tmto_lookup o ++ repeat [] (length l))).
Proof.
  intros Hb. revert o. induction l as [|i r IH]; intro o; cbn [mfor length repeat].
  - rewrite app_nil_r. now destruct o.
  - rewrite Hb, IH. cbn [set_o_tmto_lookup o_max_length o_tmto_lookup].
    now rewrite <- app_assoc.
Qed.

Lemma tm_find_empties (tm : pytmto) k p l : (forall d, In d tm -> d = []) -> tm_find tm k p l = None.
Proof.
  intro H. unfold tm_find. destruct (nth_error tm k) as [d|] eqn:E; [|reflexivity].
  apply nth_error_In, H in E. now subst.
Qed.

Theorem gen_opt_init fuel optmax :
  exists o, py_opt_init fuel (Z.of_nat optmax) = Ok o /\ crel optmax o cempty.
Proof.
  unfold py_opt_init. eexists. split.
  - apply init_loop. reflexivity.
  - cbn [set_o_max_length set_o_tmto_lookup o_max_length o_tmto_lookup pyopt_blank app].
    unfold crel. cbn [o_max_length o_tmto_lookup]. unfold zrange, OmenRt.zrange.
    rewrite map_length, seq_length, repeat_length.
    replace (Z.to_nat (Z.of_nat optmax + 1 - 0)) with (S optmax) by lia.
    repeat split.
    + intros k p l _. rewrite tm_find_empties; [reflexivity|]. intros d Hd. now apply repeat_spec in Hd.
    + intros key. cbn. discriminate.
Qed.

(* ------------------------------------------------------------------ *)
(* lookup                                                               *)

Lemma tm_find_steps (tm : pytmto) k p l : k < length tm ->
  (d1 <- pyindex tm (Z.of_nat k) ;; d2 <- dict_get (dfind ostr_eqb p d1) ;; dict_get (dfind Z.eqb l d2)) =
  dict_get (tm_find tm k p l).
Proof.
  intro H. unfold tm_find. destruct (nth_error tm k) as [d1|] eqn:E.
  - rewrite (pyindex_nat _ _ _ E). cbn [bind].
    destruct (dfind ostr_eqb p d1); reflexivity.
  - apply nth_error_None in E. lia.
Qed.

Theorem gen_opt_lookup fuel optmax o c k p l : crel optmax o c -> k <= optmax ->
  py_opt_lookup fuel o p (Z.of_nat k) l =
  Ok (match clookup c (k, p, l) with Some v => (true, otree_py v) | None => (false, None) end).
Proof.
  intros (Hm & Hl & Hf & Hn) Hk. unfold py_opt_lookup.
  assert (k < length (o_tmto_lookup o)) as Hlt by lia.
  pose proof (Hf k p l Hk) as E. unfold tm_find in E.
  destruct (nth_error (o_tmto_lookup o) k) as [d1|] eqn:E1; [|apply nth_error_None in E1; lia].
  rewrite (pyindex_nat _ _ _ E1). cbn [bind].
  (* `try: return True, copy(tmto[..][..][..]) except KeyError: return False, None`, or the read alone inside the try *)
  destruct (dfind ostr_eqb p d1) as [d2|]; cbn [dict_get bind catch mtry exn_eqb].
  - destruct (dfind Z.eqb l d2) as [v|]; cbn [dict_get bind catch mtry exn_eqb].
    + destruct (clookup c (k, p, l)) as [v'|] eqn:E2; [|discriminate]. cbn in E. injection E as ->.
      rewrite gen_custom_copy_id; [reflexivity|]. apply otree_py_nil. intro Hv. subst. now apply (Hn (k, p, l)).
    + destruct (clookup c (k, p, l)); [discriminate | reflexivity].
  - destruct (clookup c (k, p, l)); [discriminate | reflexivity].
Qed.

(* ------------------------------------------------------------------ *)
(* update                                                               *)

Lemma tm_find_set (tm : pytmto) k (d : pytm1) k' p l : k < length tm ->
  tm_find (set_nth tm k d) k' p l =
  if Nat.eqb k k' then match dfind ostr_eqb p d with Some d2 => dfind Z.eqb l d2 | None => None end
  else tm_find tm k' p l.
Proof.
  intro H. unfold tm_find. rewrite nth_error_set_nth by exact H. destruct (Nat.eqb k k'); reflexivity.
Qed.

(* the object after the inner dict tmto_lookup[k][p] has been created where missing *)
Definition ensured (o : pyopt) (k : nat) (p : ostr) (d1 : pytm1) : pyopt :=
  match dfind ostr_eqb p d1 with
  | Some _ => o
  | None => set_o_tmto_lookup o (set_nth (o_tmto_lookup o) k (dset ostr_eqb p [] d1))
  end.

(* the store proper, from that object *)
Lemma update_tail fuel optmax o c k p l v d1 : crel optmax o c -> k <= optmax -> v <> Some [] ->
  nth_error (o_tmto_lookup o) k = Some d1 ->
  exists o',
    (tmp3 <- py_opt_custom_copy fuel (ensured o k p d1) (otree_py v) ;;
     tmp4 <- tm_set3 (o_tmto_lookup (ensured o k p d1)) (Z.of_nat k) p l tmp3 ;;
     Ok (tt, set_o_tmto_lookup (ensured o k p d1) tmp4)) = Ok (tt, o') /\
    crel optmax o' (cupdate c (k, p, l) v).
Proof.
  intros (Hm & Hl & Hf & Hn) Hk Hv E1.
  assert (k < length (o_tmto_lookup o)) as Hlt by lia.
  set (d1' := match dfind ostr_eqb p d1 with Some _ => d1 | None => dset ostr_eqb p [] d1 end).
  set (o1 := ensured o k p d1).
  assert (o_max_length o1 = Z.of_nat optmax /\ length (o_tmto_lookup o1) = S optmax /\
          nth_error (o_tmto_lookup o1) k = Some d1' /\
          (forall k', k' <> k -> nth_error (o_tmto_lookup o1) k' = nth_error (o_tmto_lookup o) k') /\
          (exists d2, dfind ostr_eqb p d1' = Some d2 /\
                      d2 = match dfind ostr_eqb p d1 with Some x => x | None => [] end) /\
          (forall p', p' <> p -> dfind ostr_eqb p' d1' = dfind ostr_eqb p' d1)) as (Hm1 & Hl1 & Hn1 & Ho1 & (d2 & Hd2 & Hd2') & Hp1).
  { subst o1 d1'. unfold ensured. destruct (dfind ostr_eqb p d1) as [x|] eqn:E2.
    - repeat split; auto. exists x. auto.
    - cbn [set_o_tmto_lookup o_max_length o_tmto_lookup]. rewrite set_nth_length.
      repeat split; auto.
      + rewrite nth_error_set_nth by exact Hlt. now rewrite Nat.eqb_refl.
      + intros k' Hk'. rewrite nth_error_set_nth by exact Hlt.
        destruct (Nat.eqb k k') eqn:E3; [apply Nat.eqb_eq in E3; congruence | reflexivity].
      + exists []. split; [|reflexivity]. rewrite (dfind_dset ostr_eqb ostr_eqb_eq). now rewrite ostr_eqb_refl.
      + intros p' Hp'. rewrite (dfind_dset ostr_eqb ostr_eqb_eq).
        destruct (ostr_eqb p p') eqn:E3; [apply ostr_eqb_eq in E3; congruence | reflexivity]. }
  rewrite gen_custom_copy_id by (now apply otree_py_nil).
  cbn [bind]. unfold tm_set3, tm_get1. rewrite (pyindex_nat _ _ _ Hn1). cbn [bind].
  rewrite Hd2. cbn [dict_get bind].
  rewrite pysetindex_nat by lia. cbn [bind].
  eexists. split; [reflexivity|].
  unfold crel. cbn [set_o_tmto_lookup o_max_length o_tmto_lookup]. rewrite set_nth_length.
  repeat split; auto.
  - intros k' p' l' Hk'. rewrite tm_find_set by lia. rewrite clookup_cupdate.
    destruct (Nat.eqb k k') eqn:Ek.
    + apply Nat.eqb_eq in Ek. subst k'. rewrite (dfind_dset ostr_eqb ostr_eqb_eq).
      destruct (ostr_eqb p p') eqn:Ep.
      * apply ostr_eqb_eq in Ep. subst p'. rewrite (dfind_dset Z.eqb Zeqb_eq).
        unfold ckey_eqb. rewrite Nat.eqb_refl, ostr_eqb_refl, andb_true_r. cbn [andb].
        destruct (Z.eqb l l') eqn:El; [reflexivity|].
        specialize (Hf k p l' Hk'). unfold tm_find in Hf. rewrite E1 in Hf.
        rewrite <- Hf. subst d2. destruct (dfind ostr_eqb p d1); reflexivity.
      * assert (ckey_eqb (k, p, l) (k, p', l') = false) as ->.
        { unfold ckey_eqb. rewrite Ep. apply andb_false_r. }
        rewrite Hp1 by (intro; subst; now rewrite ostr_eqb_refl in Ep).
        specialize (Hf k p' l' Hk'). unfold tm_find in Hf. now rewrite E1 in Hf.
    + assert (ckey_eqb (k, p, l) (k', p', l') = false) as ->.
      { unfold ckey_eqb. now rewrite Ek. }
      rewrite <- (Hf k' p' l' Hk'). unfold tm_find. rewrite Ho1; [reflexivity|].
      intro; subst. now rewrite Nat.eqb_refl in Ek.
  - intros key. rewrite clookup_cupdate. destruct (ckey_eqb (k, p, l) key); [congruence | apply Hn].
Qed.

Theorem gen_opt_update fuel optmax o c k p l v : crel optmax o c -> k <= optmax -> v <> Some [] ->
  exists o', py_opt_update fuel o p (Z.of_nat k) l (otree_py v) = Ok (tt, o') /\
             crel optmax o' (cupdate c (k, p, l) v).
Proof.
  intros Hrel Hk Hv. pose proof Hrel as (Hm & Hl & _ & _).
  assert (k < length (o_tmto_lookup o)) as Hlt by lia.
  destruct (nth_error (o_tmto_lookup o) k) as [d1|] eqn:E1; [|apply nth_error_None in E1; lia].
  destruct (update_tail fuel optmax o c k p l v d1 Hrel Hk Hv E1) as (o' & E & Hrel').
  exists o'. split; [|exact Hrel']. rewrite <- E. clear E Hrel' Hrel.
  (* the head: `if p not in tmto[k]: tmto[k][p] = {}`, or `tmto[k].setdefault(p, {})` *)
  unfold py_opt_update, ensured, tm_setdefault2, tm_set2, tm_get1.
  destruct o as [ml tm]. cbn [o_tmto_lookup o_max_length set_o_tmto_lookup] in *.
  rewrite ?(pyindex_nat _ _ _ E1). cbn [bind].
  rewrite ?(dmem_dfind ostr_eqb), ?negb_involutive.
  destruct (dfind ostr_eqb p d1); cbn [is_none negb bind].
  - reflexivity.
  - rewrite ?(pyindex_nat _ _ _ E1). cbn [bind]. rewrite pysetindex_nat by exact Hlt. reflexivity.
Qed.
