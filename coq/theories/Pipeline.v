(* Pipeline.v - ONE executable model of "train on a list, save the ruleset,
   load it with the guesser, generate without Markov guessing" (property C03),
   composed from the existing component models:

     trainer_file_input.check_valid           Reader.check_valid
     run_trainer.run_trainer, pass 1          Segment.train (Multiword.mw_train)
     run_trainer.run_trainer, pass 2          Segment.parse (Detect.*, Multiword.mw_parse)
     PCFGPasswordParser counters              Counters.tally / ltally / count_structs
     coverage -> Markov pseudo-count          Counters.with_markov
     save_pcfg_data, config.ini file lists    Counters.save_pcfg_data / config_lists / config_dirs
     the ruleset files on disk                a "disk" stage: lines in memory -> what the
                                              guesser's _load_from_file returns for the
                                              file written from them
                                              (TextFile.write_file / load_guesser / groups)
     grammar_io._load_terminals               load_section (below, glue)
     grammar_io._load_base_structures         Loader.load_bases (skip_brute, rewind)
     PcfgGrammar / PcfgQueue.next             Next.run (any queue with pop_ok_okb)
     PcfgGrammar._recursive_guesses           Expand.expand

   Only glue is added here: labels -> structure strings, per-password results
   -> the parser's counters, file names -> variable names, variable names ->
   the natural-number variables of Next.v, parse-tree positions -> slots of
   Expand.v.  Definitions only; proofs are in PipelineProofs.v.

   The arithmetic is a parameter: a probability algebra A (ProbAlg) with the
   few extra operations the trainer and the loader use (parith).  Instances:
   binary64 (RF, what the code computes; the disk stage is the text writer and
   the guesser's reader of TextFile.v with the interpreter's repr / float() as
   oracles) and exact rationals (RQ, ideal disk).

   Not modelled (trusted, see DESIGN.md section 8): the OMEN training and its
   files (they do not influence a run with skip_brute beyond "they load"),
   config.ini reading/writing by configparser/json (the section -> name /
   directory table is Counters.config_dirs + guesser_sections below), the
   decoding of the training file (Reader.v, property C19): [train] starts from
   the list of decoded lines. *)
From Coq Require Import String Ascii.
From Coq Require Import List NArith ZArith QArith Bool Floats.
From Pcfg Require Import ProbAlg F64 QProb Str Multiword Detect Segment TextFile Counters Reader Loader Next NextSpec Expand.
Import ListNotations.

(* ------------------------------------------------------------------ *)
(* arithmetic                                                          *)
(* ------------------------------------------------------------------ *)

(* the operations of Counters.numops on the carrier of a probability algebra *)
Record parith (A : palg) := {
  a_zero : P A;
  a_one : P A;
  a_add : P A -> P A -> P A;
  a_sub : P A -> P A -> P A;
  a_div : P A -> P A -> P A;
  a_ltb : P A -> P A -> bool;      (* Python <  *)
  a_eqb : P A -> P A -> bool;      (* Python == *)
  a_ofN : N -> P A;                (* int -> number *)
}.
Arguments a_zero {A}. Arguments a_one {A}. Arguments a_add {A}. Arguments a_sub {A}.
Arguments a_div {A}. Arguments a_ltb {A}. Arguments a_eqb {A}. Arguments a_ofN {A}.

Definition ops_of {A : palg} (R : parith A) : numops :=
  {| num := P A; nzero := a_zero R; none := a_one R; nadd := a_add R; nsub := a_sub R;
     ndiv := a_div R; nltb := a_ltb R; neqb := a_eqb R; nofN := a_ofN R |}.

(* binary64: exactly Counters.FNum *)
Definition RF : parith F64 :=
  {| a_zero := 0%float : P F64; a_one := 1%float : P F64;
     a_add := PrimFloat.add; a_sub := PrimFloat.sub; a_div := PrimFloat.div;
     a_ltb := PrimFloat.ltb; a_eqb := PrimFloat.eqb; a_ofN := float_of_N |}.

(* exact rationals: exactly Counters.QNum *)
Definition RQ : parith QProb :=
  {| a_zero := 0%Q : P QProb; a_one := 1%Q : P QProb;
     a_add := Qplus; a_sub := Qminus; a_div := Qdiv;
     a_ltb := fun a b => negb (Qle_bool b a); a_eqb := Qeq_bool;
     a_ofN := fun n => inject_Z (Z.of_N n) |}.

(* ------------------------------------------------------------------ *)
(* everything the Python runtime and the source constants decide       *)
(* ------------------------------------------------------------------ *)

Record env := {
  e_isalpha : N -> bool;  e_isdigit : N -> bool;  e_isupper : N -> bool;
  e_lower : N -> Str.str;          (* str.lower() of one character *)
  e_upper : N -> Str.str;          (* str.upper() of one character *)
  e_aligned : bool;                (* Consts_gen.seg_lower_aligned *)
  e_kbs : list board;  e_fp_words : list Str.str;  e_min_run : Z;
  e_tlds : list Str.str;  e_year_prefixes : list Str.str;  e_context : list Str.str;
  e_mw_threshold : Z;  e_mw_min_len : Z;  e_mw_max_len : Z;
  e_rejected : list N;  e_rej_empty : bool;       (* check_valid *)
  e_rewinds : bool;                (* Consts_gen.skip_brute_rewinds_without_M *)
  e_omen : Str.str -> list Str.str (* the OMEN generator per level (unused with skip_brute) *)
}.

(* ------------------------------------------------------------------ *)
(* trainer                                                             *)
(* ------------------------------------------------------------------ *)

Definition accepted_pw (E : env) (p : Str.str) : bool :=
  Reader.check_valid (e_rejected E) (e_rej_empty E) p.

Definition train_mw (E : env) (m : mwmap) (set_threshold : bool) (pw : Str.str) : mwmap :=
  Segment.train (e_isalpha E) (e_lower E) (e_mw_threshold E) (e_mw_min_len E) (e_mw_max_len E) m set_threshold pw.

(* pass 1 (after the optional pre-training list): the multi-word detector *)
Definition mw_pass (E : env) (pre pws : list Str.str) : mwmap :=
  fold_left (fun m pw => train_mw E m false pw) pws
            (fold_left (fun m w => train_mw E m true w) pre []).

Definition parse_pw (E : env) (m : mwmap) (pw : Str.str) : presult :=
  Segment.parse (e_isalpha E) (e_isdigit E) (e_isupper E) (e_lower E) (e_aligned E) (e_kbs E) (e_fp_words E)
                (e_min_run E) (e_tlds E) (e_year_prefixes E) (e_context E)
                (e_mw_threshold E) (e_mw_min_len E) (e_mw_max_len E) m pw.

(* pass 2: an exception in parse() ends the training *)
Fixpoint parse_all (f : Str.str -> presult) (pws : list Str.str) : option (list parsed) :=
  match pws with
  | [] => Some []
  | pw :: r =>
      match f pw, parse_all f r with
      | POk x, Some xs => Some (x :: xs)
      | _, _ => None
      end
  end.

(* 'K4' 'E' 'W' 'Y1' 'X1' 'A5' 'D3' 'O2' *)
Definition label_str (l : label) : Str.str :=
  match l with
  | LK n => 75%N :: dec_of_Z n
  | LE => [69%N]
  | LW => [87%N]
  | LY => [89%N; 49%N]
  | LX => [88%N; 49%N]
  | LA n => 65%N :: dec_of_Z n
  | LD n => 68%N :: dec_of_Z n
  | LO n => 79%N :: dec_of_Z n
  end.

(* str(None) is the key of count_website_prefixes when no prefix was found *)
Definition prefix_key (o : option Str.str) : Str.str :=
  match o with Some s => s | None => str_of_string "None" end.

(* the counters of PCFGPasswordParser after parsing the passwords in order
   (a Counter fed item by item is the tally of the concatenation) *)
Definition counters_of (rs : list parsed) : pcounters :=
  let cat (f : parsed -> list Str.str) := flat_map f rs in
  {| pc_keyboard := ltally (cat p_walks);
     pc_emails := Counters.tally (cat p_emails);
     pc_email_providers := Counters.tally (cat p_providers);
     pc_website_urls := Counters.tally (cat p_urls);
     pc_website_hosts := Counters.tally (cat p_hosts);
     pc_website_prefixes := Counters.tally (map prefix_key (flat_map p_prefixes rs));
     pc_years := Counters.tally (cat p_years);
     pc_context := Counters.tally (cat p_context);
     pc_alpha := ltally (cat p_alpha);
     pc_masks := ltally (cat p_masks);
     pc_digits := ltally (cat p_digits);
     pc_other := ltally (cat p_other);
     pc_structs := count_structs (map (fun r => map label_str (p_base r)) rs) |}.

Section Pipeline.
Context {A : palg}.
Variable R : parith A.
Variable E : env.
Notation OPS := (ops_of R).

Record options := {
  o_cov : P A;                     (* --coverage *)
  o_sensitive : bool;              (* --save_sensitive *)
  o_multiword : list Str.str       (* lines of the --multiword pre-training file *)
}.

Record trained := {
  t_counters : pcounters;
  t_n : N;                         (* num_valid_passwords *)
  t_cov : P A;
  t_sens : bool
}.

(* run_trainer up to "Saving Data".  [raw] = the decoded lines of the training
   file; None = the trainer stops without a ruleset *)
Definition train (o : options) (raw : list Str.str) : option trained :=
  let pws := filter (accepted_pw E) raw in
  match pws with
  | [] => None                                        (* "no valid passwords were found" *)
  | _ :: _ =>
      let m := mw_pass E (filter (accepted_pw E) (o_multiword o)) pws in
      match parse_all (parse_pw E m) pws with
      | None => None
      | Some rs => Some {| t_counters := counters_of rs; t_n := N.of_nat (length pws);
                           t_cov := o_cov o; t_sens := o_sensitive o |}
      end
  end.

(* the segmentation the second pass gives a password of the list *)
Definition segments (o : options) (raw : list Str.str) (pw : Str.str) : presult :=
  parse_pw E (mw_pass E (filter (accepted_pw E) (o_multiword o)) (filter (accepted_pw E) raw)) pw.
Definition supported_pw (o : options) (raw : list Str.str) (pw : Str.str) : bool :=
  match segments o raw pw with POk r => p_supported r | PErr => false end.

(* ------------------------------------------------------------------ *)
(* the ruleset as written: lines in memory                             *)
(* ------------------------------------------------------------------ *)

Record saved := {
  s_files : list (TextFile.str * folder OPS);        (* directory, files (name, lines) *)
  s_lists : list (TextFile.str * list TextFile.str) (* config.ini: section, filenames *)
}.

Definition save (t : trained) : saved :=
  {| s_files := save_pcfg_data OPS (t_counters t) (t_sens t) (t_cov t) (t_n t);
     s_lists := config_lists OPS (t_counters t) |}.

Definition lookup_file (s : saved) (dir fname : TextFile.str) : option (counter OPS) :=
  match dict_get dir (s_files s) with
  | Some fo => dict_get fname fo
  | None => None
  end.

(* ------------------------------------------------------------------ *)
(* guesser: loading                                                    *)
(* ------------------------------------------------------------------ *)

(* what _load_from_file returns for the file written from these lines:
   groups (values, probability); None = the load fails *)
Variable disk : list (TextFile.str * P A) -> option (list (list TextFile.str * P A)).
(* what the first lines of _load_base_structures see of Grammar/grammar.txt:
   (value, float(prob)) per line; None = an exception *)
Variable disk_base : list (TextFile.str * P A) -> option (list (TextFile.str * P A)).

(* variable name -> its groups, a Python dict *)
Definition grammar := list (TextFile.str * list (list TextFile.str * P A)).

(* config.get('name') + file.split('.')[0] *)
Definition name_of (letter fname : TextFile.str) : TextFile.str :=
  letter ++ hd [] (split_on 46%N fname).

(* _load_from_multiple_files *)
Fixpoint load_files (s : saved) (letter dir : TextFile.str) (names : list TextFile.str) (g : grammar)
  : option grammar :=
  match names with
  | [] => Some g
  | f :: r =>
      match lookup_file s dir f with
      | None => None                                  (* IOError *)
      | Some lines =>
          match disk lines with
          | None => None
          | Some gs => load_files s letter dir r (dict_set (name_of letter f) gs g)
          end
      end
  end.

(* the sections _load_terminals reads through the config, in its order, with
   the 'name' each section has in config.ini *)
Definition guesser_sections : list (TextFile.str * TextFile.str) :=
  map (fun p : string * string => (str_of_string (fst p), str_of_string (snd p)))
      [ ("BASE_A", "A"); ("CAPITALIZATION", "C"); ("BASE_D", "D"); ("BASE_O", "O");
        ("BASE_K", "K"); ("BASE_Y", "Y"); ("BASE_X", "X") ]%string.

Fixpoint load_sections (s : saved) (secs : list (TextFile.str * TextFile.str)) (g : grammar) : option grammar :=
  match secs with
  | [] => Some g
  | (sec, letter) :: r =>
      match dict_get sec (s_lists s), dict_get sec (config_dirs : list (TextFile.str * TextFile.str)) with
      | Some names, Some dir =>
          match load_files s letter dir names g with
          | Some g' => load_sections s r g'
          | None => None
          end
      | _, _ => None                                  (* KeyError *)
      end
  end.

(* _load_base_structures with skip_brute *)
Definition load_base_structures (s : saved) : option (list (P A * list TextFile.str)) :=
  match lookup_file s (str_of_string "Grammar") (str_of_string "grammar.txt") with
  | None => None
  | Some lines =>
      match disk_base lines with
      | None => None
      | Some ls =>
          Loader.load_bases (a_one R) (a_sub R) (a_div R) (fun x => a_eqb R x (a_zero R)) (e_isalpha E)
                            (e_rewinds E) true ls
      end
  end.

(* position of a variable name in the grammar: the natural-number variable of Next.v *)
Fixpoint var_of (g : grammar) (name : TextFile.str) : option nat :=
  match g with
  | [] => None
  | (k, _) :: r => if TextFile.str_eqb name k then Some O
                   else match var_of r name with Some i => Some (S i) | None => None end
  end.

Fixpoint vars_of (g : grammar) (names : list TextFile.str) : option (list nat) :=
  match names with
  | [] => Some []
  | n :: r => match var_of g n, vars_of g r with
              | Some v, Some vs => Some (v :: vs)
              | _, _ => None                          (* KeyError in _find_prob *)
              end
  end.

Fixpoint bases_of (g : grammar) (bs : list (P A * list TextFile.str)) : option (list (bstruct A)) :=
  match bs with
  | [] => Some []
  | (p, names) :: r =>
      match vars_of g names, bases_of g r with
      | Some vs, Some rest => Some ({| bprob := p; brepl := vs |} :: rest)
      | _, _ => None
      end
  end.

Record loaded := {
  l_grammar : grammar;
  l_rs : ruleset A
}.

(* PcfgGrammar(rule, skip_brute=True) *)
Definition load (s : saved) : option loaded :=
  match load_sections s guesser_sections [] with
  | None => None
  | Some g =>
      match load_base_structures s with
      | None => None
      | Some bs =>
          match bases_of g bs with
          | None => None
          | Some bl => Some {| l_grammar := g;
                               l_rs := {| tbl := map (fun e => map snd (snd e)) g; bases := bl |} |}
          end
      end
  end.

(* ------------------------------------------------------------------ *)
(* guesser: the session                                                *)
(* ------------------------------------------------------------------ *)

(* category = pt[0][0][0] *)
Definition cat_of_name (name : TextFile.str) : cat :=
  match name with
  | 77%N :: _ => CatM
  | 67%N :: _ => CatC
  | _ => CatPlain
  end.

(* one position of a parse tree resolved against the loaded grammar *)
Definition slot_of (g : grammar) (vi : var * nat) : slot :=
  match nth_error g (fst vi) with
  | Some (name, gs) => {| scat := cat_of_name name; svals := fst (nth (snd vi) gs ([], a_zero R)) |}
  | None => {| scat := CatPlain; svals := [] |}
  end.

(* create_guesses(pt): the lines printed and their number *)
Definition guesses_of (L : loaded) (it : item A) : option (list Expand.str * nat) :=
  Expand.expand (e_upper E) (e_omen E) (map (slot_of (l_grammar L)) (ipt it)) [] None.

(* the pre-terminals of a complete session, oldest first *)
Definition session (pop : queue A -> option (item A * queue A)) (L : loaded) : list (item A) :=
  rev (emitted (run pop (l_rs L) (NextSpec.total (l_rs L)) (start (l_rs L)))).

(* everything the session prints *)
Definition printed (pop : queue A -> option (item A * queue A)) (L : loaded) : list Expand.str :=
  flat_map (fun it => match guesses_of L it with Some (out, _) => out | None => [] end) (session pop L).

(* group sizes, for "the probabilities of all guesses" (QSum.count_it) *)
Definition sizes_of (g : grammar) : list (list nat) := map (fun e => map (fun gr => length (fst gr)) (snd e)) g.

(* trainer -> guesser *)
Definition pipeline (o : options) (raw : list Str.str) : option loaded :=
  match train o raw with
  | Some t => load (save t)
  | None => None
  end.

End Pipeline.

Arguments options : clear implicits.
Arguments trained : clear implicits.
Arguments loaded : clear implicits.
Arguments grammar : clear implicits.
Arguments s_files {A R}.
Arguments s_lists {A R}.

(* ------------------------------------------------------------------ *)
(* the disk stage                                                      *)
(* ------------------------------------------------------------------ *)

(* ideal disk: consecutive lines of equal probability form a group *)
Section Ideal.
Context {A : palg}.
Variable R : parith A.

Fixpoint ggroups (p : P A) (vs : list TextFile.str) (l : list (TextFile.str * P A))
  : list (list TextFile.str * P A) :=
  match l with
  | [] => [(rev vs, p)]
  | (v, q) :: r =>
      if a_eqb R q p then ggroups p (v :: vs) r
      else (rev vs, p) :: ggroups q [v] r
  end.

Definition ggroup (l : list (TextFile.str * P A)) : list (list TextFile.str * P A) :=
  match l with
  | [] => []
  | (v, p) :: r => ggroups p [v] r
  end.

Definition disk_ideal (l : list (TextFile.str * P A)) : option (list (list TextFile.str * P A)) := Some (ggroup l).
Definition disk_base_ideal (l : list (TextFile.str * P A)) : option (list (TextFile.str * P A)) := Some l.
End Ideal.

(* real disk, binary64: the text the trainer writes, read back by the guesser *)
Record fileio := {
  f_lb : N -> bool;                     (* code points the codecs line iteration splits on *)
  f_ws : N -> bool;                     (* str.rstrip() *)
  f_repr : float -> TextFile.str;       (* str(float) *)
  f_pfloat : TextFile.str -> option float;   (* float(text) *)
  f_encb : N -> bool;                   (* the ruleset encoding can encode the character *)
  f_onfail : enc_fail
}.

Definition disk_F64 (io : fileio) (l : list (TextFile.str * float)) : option (list (list TextFile.str * float)) :=
  option_map (map (fun g => (gvals g, gprob g)))
             (load_guesser (f_lb io) (f_ws io) (f_pfloat io) (f_encb io) (f_onfail io) (write_file (f_repr io) l)).

(* value.rstrip().split("\t"), float(split_values[1]) on every line of the
   file opened with the builtin open *)
Fixpoint base_lines (ws : N -> bool) (pfloat : TextFile.str -> option float) (ls : list TextFile.str)
  : option (list (TextFile.str * float)) :=
  match ls with
  | [] => Some []
  | ln :: r =>
      match parse_line ws pfloat ln, base_lines ws pfloat r with
      | Some it, Some rest => Some (it :: rest)
      | _, _ => None
      end
  end.

Definition disk_base_F64 (io : fileio) (l : list (TextFile.str * float)) : option (list (TextFile.str * float)) :=
  base_lines (f_ws io) (f_pfloat io) (lines_text (write_file (f_repr io) l)).

(* the two instances the theorems and the correspondence use *)
Definition pipeline_F64 (E : env) (io : fileio) := @pipeline F64 RF E (disk_F64 io) (disk_base_F64 io).
Definition pipeline_Q (E : env) := @pipeline QProb RQ E (disk_ideal RQ) (disk_base_ideal).
