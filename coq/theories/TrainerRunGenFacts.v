(* TrainerRunGenFacts.v - the statements of TrainerRunProofs.v about the model, transported to the translated
   run_trainer / parse_command_line of gen/TrainerRun_gen.v through the equalities of TrainerRunGenProofs.v. *)
From Coq Require Import String Ascii.
From Coq Require Import List NArith ZArith QArith Bool.
From Pcfg Require Import TextFile Counters WriterRt TrainerRunRt TrainerRunModel TrainerRunProofs TrainerRunGenProofs.
From PcfgGen Require Import TrainerRun_gen.
Import ListNotations.

Section Facts.
Context {O : numops} (C : collab O).

(* C19 / C05 / C06: a run of the translated run_trainer that returns True *)
Theorem source_run_true : forall (pi : pinfo O) (base : path) (w w' : c_W C),
  py_run_trainer C pi base w = (Ok (Some true), w') ->
  exists (t : trained_objs C) (w1 w2 : c_W C),
    passes C pi w = Ok (inr t) /\ passes_ok C pi w t /\
    let view := c_pp_view C (to_parser t) in
    let pp := c_pp_update C (to_parser t)
                (set_po_count_base_structures view
                   (with_markov (pi_coverage pi) (to_n t) (po_count_base_structures view))) in
    (neqb O (pi_coverage pi) (none O) = true \/ c_ks_counter C (to_keyspace t) <> []) /\
    c_save_config_file C base (to_pinfo t) (to_reader t) pp w = (Ok true, w1) /\
    c_save_omen_rules_to_disk C (to_omen t) (to_keyspace t) (to_levels t) (to_n t) base (to_pinfo t) w1 = (Ok true, w2) /\
    c_save_pcfg_data C base pp (pi_encoding pi) (pi_save_sensitive pi) w2 = (Ok true, w').
Proof. intros pi base w w'. rewrite py_run_trainer_is_model. apply run_true. Qed.

(* the three passes read one sequence: the reader opened with the training file, the encoding and the prefix
   option of the run yields it once; each of the five consumers is the fold of its step over that sequence *)
Theorem source_three_passes_one_sequence : forall (pi : pinfo O) (base : path) (w w' : c_W C),
  py_run_trainer C pi base w = (Ok (Some true), w') ->
  exists (seq : list str) (fi0 fiE : c_FI C) (ag0 ag1 : c_AG C) (mw0 mw1 mw2 : c_MW C) (ot0 ot1 ot2 : c_OT C)
         (pp0 pp1 : c_PP C) (lc : list (Z * N)),
    c_TrainerFileInput C (pi_training_file pi) (pi_encoding pi) (pi_prefixcount pi) w = Ok fi0 /\
    c_read_password C fi0 w = (seq, None, fiE) /\
    c_AlphabetGenerator C (pi_alphabet_size pi) (pi_ngram pi) = Ok ag0 /\
    c_MultiWordDetector C 5 4 21 = Ok mw0 /\ pretrain C pi mw0 w = Ok mw1 /\
    fold_res (c_process_password C) seq ag0 = Ok ag1 /\
    fold_res (fun m p => c_mw_train C m p false) seq mw1 = Ok mw2 /\
    c_num_passwords C fiE <> 0%N /\
    c_PCFGPasswordParser C mw2 = Ok pp0 /\
    fold_res (c_ot_parse C) seq ot0 = Ok ot1 /\
    fold_res (c_pp_parse C) seq pp0 = Ok pp1 /\
    c_apply_smoothing C ot1 = Ok ot2 /\
    fold_res (step3 C ot2) seq [] = Ok lc.
Proof.
  intros pi base w w' H. destruct (source_run_true pi base w w' H) as (t & _ & _ & _ & Hok & _).
  destruct Hok. subst. do 14 eexists. repeat (split; [eassumption|]). 
  split; [congruence|]. repeat (split; [eassumption|]). eassumption.
Qed.

(* nothing is written unless the passes completed: otherwise the world is returned as it was *)
Theorem source_untouched_without_ruleset : forall (pi : pinfo O) (base : path) (w : c_W C),
  (exists t, passes C pi w = Ok (inr t)) \/
  (exists r, py_run_trainer C pi base w = (r, w) /\ r <> Ok (Some true)).
Proof.
  intros pi base w. rewrite py_run_trainer_is_model.
  destruct (run_writes_only_after_passes C pi base w) as [(t & cbs & Hp & _) | H]; [left; exists t; exact Hp | right; exact H].
Qed.

End Facts.

(* the command line: every option lands in its key of program_info; the run is refused iff the coverage is
   below 0 or above 1 *)
Theorem source_parse_command_line : forall (O : numops) (a : cli_args O) (pi : pinfo O),
  py_parse_command_line a pi = Ok (coverage_ok (a_coverage a), cli_pinfo a pi).
Proof. exact py_parse_command_line_is_model. Qed.

Theorem source_coverage_range_Q : forall (a : cli_args QNum) (pi : pinfo QNum),
  (exists pi', py_parse_command_line a pi = Ok (true, pi')) <-> (0 <= a_coverage a /\ a_coverage a <= 1)%Q.
Proof.
  intros a pi. rewrite source_parse_command_line, <- coverage_ok_Q. split.
  - intros (pi' & H). inversion H. reflexivity.
  - intro H. rewrite H. eexists. reflexivity.
Qed.
