(* Proofs about the "next" algorithm model (Next.v) against NextSpec.v.

   FINDING (T5).  The statement  [pop_ok pop_first_max]  is FALSE for an
   arbitrary palg: pop_ok quantifies over all queues, including queues that
   hold non-ok ("NaN") probabilities, and the palg laws constrain ple only on
   ok values.  On two items whose probabilities are incomparable both ways,
   pop_first_max returns one of them although the other is "strictly more
   probable" in the sense of plt.  This is proved below as
       pop_first_max_not_pop_ok : exists A : palg, ~ pop_ok (@pop_first_max A)
   (witness: nan_alg, carrier bool, ple = andb, queue [x; x] with iprob x = false).
   The closest true statement is proved instead:
       pop_first_max_ok_partial : pop_ok_okb pop_first_max
   where [pop_ok_okb] is pop_ok with the second clause restricted to queues all
   of whose probabilities are okb.  [pop_ok pop -> pop_ok_okb pop]
   (pop_ok_weaken), and every theorem below is first proved under the WEAKER
   hypothesis pop_ok_okb (names ending in _okb), so that all of them apply to
   pop_first_max; the versions under pop_ok (names as in the plan) are
   corollaries.  No definition in ProbAlg.v / Next.v / NextSpec.v was changed.

   Main results (for every palg A, every rs with wf rs):
     T1  find_prob_child_le
     T2  C01_sorted (+ pending <= emitted)          [_okb variant]
     T3  C01_prob_is_product                        [_okb variant]
     T4  C02_exactly_once, C02_exactly_once_keys, C02_no_early_exhaustion,
         C02_frontier_nodup                         [_okb variants]
     T5  pop_first_max_ok_partial, pop_first_max_not_pop_ok
     T6  closure / closure_okb (general, for a set given by inS satisfying
         down_closed (H1) and adopter_closed (H2)), closure_below /
         closure_below_okb (thresholds), below_down_closed, below_adopter_closed.
   Auxiliary notions defined here: good (characterisation of membership in
   all_preterminals, lemma In_all_preterminals), adopts (the adopter relation
   of the Deadbeat-Dad rule; adopts_unique, adopts_exists, adopts_min,
   In_find_children), closure_set, closure_frontier, down_closed,
   adopter_closed, Inv (the state invariant; Inv_init, Inv_step, Inv_run). *)
From Coq Require Import List Arith Bool Lia Sorting.Permutation Sorting.Sorted.
From Pcfg Require Import ProbAlg Next NextSpec.
Import ListNotations.

(* ------------------------------------------------------------------ *)
(* Generic list lemmas                                                 *)
(* ------------------------------------------------------------------ *)
Section ListLemmas.

Lemma NoDup_app_intro {X} (l1 l2 : list X) :
  NoDup l1 -> NoDup l2 -> (forall x, In x l1 -> ~ In x l2) -> NoDup (l1 ++ l2).
Proof.
  induction l1 as [|a l1 IH]; simpl; intros H1 H2 H; auto.
  inversion H1; subst. constructor.
  - rewrite in_app_iff. intros [Hi|Hi]; auto. apply (H a); auto.
  - apply IH; auto.
Qed.

Lemma NoDup_app_disj {X} (l1 l2 : list X) x :
  NoDup (l1 ++ l2) -> In x l1 -> In x l2 -> False.
Proof.
  induction l1 as [|a l1 IH]; simpl; intros H H1 H2; auto.
  inversion H; subst. destruct H1 as [->|H1].
  - apply H4. apply in_app_iff. auto.
  - auto.
Qed.

Lemma NoDup_app_l {X} (l1 l2 : list X) : NoDup (l1 ++ l2) -> NoDup l1.
Proof.
  induction l1 as [|a l1 IH]; simpl; intros H; [constructor|].
  inversion H; subst. constructor; auto.
  intros Hi. apply H2. apply in_app_iff; auto.
Qed.

Lemma NoDup_flat_map_intro {X Y} (f : X -> list Y) (l : list X) :
  NoDup l ->
  (forall x, In x l -> NoDup (f x)) ->
  (forall x y z, In x l -> In y l -> x <> y -> In z (f x) -> In z (f y) -> False) ->
  NoDup (flat_map f l).
Proof.
  induction l as [|a l IH]; simpl; intros Hl Hf Hd; [constructor|].
  inversion Hl; subst.
  apply NoDup_app_intro.
  - apply Hf; auto.
  - apply IH; auto. intros x y z Hx Hy. apply Hd; auto.
  - intros z Hz Hz'. apply in_flat_map in Hz'. destruct Hz' as [y [Hy Hzy]].
    apply (Hd a y z); auto. intros ->. auto.
Qed.

Lemma NoDup_map_inj_in {X Y} (f : X -> Y) (l : list X) :
  (forall x y, In x l -> In y l -> f x = f y -> x = y) ->
  NoDup l -> NoDup (map f l).
Proof.
  induction l as [|a l IH]; simpl; intros Hinj Hl; [constructor|].
  inversion Hl; subst. constructor.
  - intros Hi. apply in_map_iff in Hi. destruct Hi as [y [Hy Hin]].
    assert (y = a) by (apply Hinj; auto). subst. auto.
  - apply IH; auto.
Qed.

Lemma map_fst_combine {X Y} (l : list X) (l' : list Y) :
  length l = length l' -> map fst (combine l l') = l.
Proof.
  revert l'. induction l as [|a l IH]; destruct l'; simpl; intros H; try discriminate; auto.
  f_equal. apply IH. lia.
Qed.

Lemma map_snd_combine {X Y} (l : list X) (l' : list Y) :
  length l = length l' -> map snd (combine l l') = l'.
Proof.
  revert l'. induction l as [|a l IH]; destruct l'; simpl; intros H; try discriminate; auto.
  f_equal. apply IH. lia.
Qed.

Lemma combine_fst_snd {X Y} (l : list (X * Y)) :
  combine (map fst l) (map snd l) = l.
Proof. induction l as [|[a b] l IH]; simpl; auto. now rewrite IH. Qed.

Lemma StronglySorted_snoc {X} (R : X -> X -> Prop) l x :
  StronglySorted R l -> Forall (fun a => R a x) l -> StronglySorted R (l ++ [x]).
Proof.
  induction l as [|a l IH]; simpl; intros Hs Hf.
  - constructor; constructor.
  - inversion Hs; subst. inversion Hf; subst. constructor; auto.
    apply Forall_app. split; auto.
Qed.

Lemma filter_true {X} (l : list X) : filter (fun _ => true) l = l.
Proof. induction l; simpl; congruence. Qed.

Lemma In_combine_seq {X} (l : list X) s k b :
  In (k, b) (combine (seq s (length l)) l) <-> (s <= k /\ nth_error l (k - s) = Some b).
Proof.
  revert s. induction l as [|a l IH]; simpl; intros s.
  - split; [tauto|]. intros [_ H]. destruct (k - s); discriminate.
  - rewrite IH. split.
    + intros [H|[H1 H2]].
      * inversion H; subst. rewrite Nat.sub_diag. simpl. auto.
      * split; [lia|]. replace (k - s) with (S (k - S s)) by lia. simpl. auto.
    + intros [H1 H2]. destruct (k - s) as [|j] eqn:E.
      * simpl in H2. inversion H2; subst. left. f_equal. lia.
      * right. split; [lia|]. simpl in H2. replace (k - S s) with j by lia. auto.
Qed.

Lemma NoDup_combine_seq {X} (l : list X) s : NoDup (combine (seq s (length l)) l).
Proof.
  apply (NoDup_map_inv fst). rewrite map_fst_combine.
  - apply seq_NoDup.
  - now rewrite seq_length.
Qed.

End ListLemmas.

(* ------------------------------------------------------------------ *)
(* upd                                                                 *)
(* ------------------------------------------------------------------ *)
Section Upd.

Lemma upd_length t pos f : length (upd t pos f) = length t.
Proof.
  revert pos. induction t as [|[v i] t IH]; intros [|pos]; simpl; auto.
Qed.

Lemma map_fst_upd t pos f : map fst (upd t pos f) = map fst t.
Proof.
  revert pos. induction t as [|[v i] t IH]; intros [|pos]; simpl; auto.
  now rewrite IH.
Qed.

Lemma nth_error_upd_same t pos f v i :
  nth_error t pos = Some (v, i) -> nth_error (upd t pos f) pos = Some (v, f i).
Proof.
  revert pos. induction t as [|[v' i'] t IH]; intros [|pos]; simpl; try discriminate.
  - intros H. inversion H; subst. reflexivity.
  - apply IH.
Qed.

Lemma nth_error_upd_other t pos f q :
  pos <> q -> nth_error (upd t pos f) q = nth_error t q.
Proof.
  revert pos q. induction t as [|[v' i'] t IH]; intros [|pos] [|q]; simpl; auto; try congruence.
Qed.

Lemma upd_inv t pos f g v i :
  nth_error t pos = Some (v, i) -> g (f i) = i -> upd (upd t pos f) pos g = t.
Proof.
  revert pos. induction t as [|[v' i'] t IH]; intros [|pos]; simpl; try discriminate.
  - intros H Hg. inversion H; subst. now rewrite Hg.
  - intros H Hg. f_equal. apply IH; auto.
Qed.

Definition rank (t : pt) : nat := fold_right (fun vi a => snd vi + a) 0 t.

Lemma rank_upd_pred t pos v i :
  nth_error t pos = Some (v, S i) -> rank (upd t pos pred) < rank t.
Proof.
  revert pos. induction t as [|[v' i'] t IH]; intros [|pos]; simpl; try discriminate.
  - intros H. inversion H; subst. simpl. lia.
  - intros H. apply IH in H. lia.
Qed.

End Upd.

Section NextProofs.
Context {A : palg}.
Notation P := (P A).
Notation ruleset := (ruleset A).
Notation item := (item A).
Notation queue := (queue A).
Notation state := (state A).

(* ------------------------------------------------------------------ *)
(* T5: pop_first_max satisfies the queue contract                      *)
(* ------------------------------------------------------------------ *)

Lemma pop_first_max_none (q : queue) : pop_first_max q = None <-> q = [].
Proof.
  destruct q as [|x r]; simpl; [tauto|].
  split; [|discriminate].
  destruct (pop_first_max r) as [[y r']|]; [|discriminate].
  destruct (plt (iprob x) (iprob y)); discriminate.
Qed.

(* The contract restricted to queues of ok (finite, non-NaN) probabilities:
   this is what every run of the algorithm on a wf ruleset needs, and what
   pop_first_max provides (see the note at the top of the file). *)
Definition pop_ok_okb (pop : queue -> option (item * queue)) : Prop :=
  (forall q, pop q = None <-> q = []) /\
  (forall q x r, Forall (fun y => okb (iprob y) = true) q -> pop q = Some (x, r) ->
     Permutation q (x :: r) /\ Forall (fun y => plt (iprob x) (iprob y) = false) r).

Lemma pop_ok_weaken pop : pop_ok pop -> pop_ok_okb pop.
Proof. intros [H1 H2]. split; auto. Qed.

Lemma pop_first_max_some (q : queue) x r :
  Forall (fun y => okb (iprob y) = true) q ->
  pop_first_max q = Some (x, r) ->
  Permutation q (x :: r) /\ Forall (fun y => plt (iprob x) (iprob y) = false) r.
Proof.
  revert x r. induction q as [|a q IH]; simpl; intros x r Hok H; [discriminate|].
  inversion Hok as [|? ? Hoka Hokq]; subst.
  destruct (pop_first_max q) as [[y r']|] eqn:E.
  - destruct (IH y r' Hokq eq_refl) as [Hp Hf].
    assert (Hoky : okb (iprob y) = true).
    { rewrite Forall_forall in Hokq. apply Hokq.
      apply (Permutation_in _ (Permutation_sym Hp)). left; auto. }
    destruct (plt (iprob a) (iprob y)) eqn:Hlt; inversion H; subst.
    + split.
      * eapply perm_trans; [apply perm_skip; apply Hp|]. apply perm_swap.
      * constructor; auto.
        apply ple_not_plt. apply plt_ple; auto.
    + split; [apply Permutation_refl|].
      rewrite Forall_forall in *. intros z Hz.
      pose proof (Permutation_in _ Hp Hz) as Hz'. destruct Hz' as [<-|Hz']; auto.
      apply ple_not_plt.
      apply (ple_trans A (iprob z) (iprob y) (iprob x)); auto.
      * apply not_plt_ple. auto.
      * apply not_plt_ple. auto.
  - apply pop_first_max_none in E. subst. inversion H; subst.
    split; [apply Permutation_refl|constructor].
Qed.

Theorem pop_first_max_ok_partial : pop_ok_okb pop_first_max.
Proof.
  split.
  - apply pop_first_max_none.
  - intros q x r. apply pop_first_max_some.
Qed.

(* ------------------------------------------------------------------ *)
(* T1: find_prob is monotone                                           *)
(* ------------------------------------------------------------------ *)

Definition okvi (rs : ruleset) (vi : var * nat) : Prop :=
  wf_groups (groups rs (fst vi)) /\ snd vi < length (groups rs (fst vi)).
Definition okpt (rs : ruleset) (t : pt) : Prop := Forall (okvi rs) t.

Lemma desc_nth (l : list P) d i :
  desc l -> S i < length l -> ple (nth (S i) l d) (nth i l d) = true.
Proof.
  revert i. induction l as [|a r IH]; intros i Hd Hl; simpl in Hl; [lia|].
  destruct Hd as [Hh Hd]. destruct i as [|j].
  - destruct r as [|b r']; simpl in *; [lia|]. auto.
  - change (ple (nth (S j) r d) (nth j r d) = true). apply IH; auto. lia.
Qed.

Lemma gp_unit (rs : ruleset) base vi : okvi rs vi -> unitb (gp rs base vi) = true.
Proof.
  intros [[_ [Hu _]] Hlt]. unfold gp. rewrite Forall_forall in Hu.
  apply Hu. apply nth_In. auto.
Qed.

Notation fstep rs base := (fun (a : P) (vi : var * nat) => pmul a (gp rs base vi)).

Lemma fp_ok (rs : ruleset) base t a :
  okpt rs t -> okb a = true -> okb (fold_left (fstep rs base) t a) = true.
Proof.
  revert a. induction t as [|vi t IH]; simpl; intros a Ht Ha; auto.
  inversion Ht; subst. apply IH; auto.
  apply pmul_ok; auto. apply gp_unit; auto.
Qed.

Lemma fp_mono (rs : ruleset) base t a a' :
  okpt rs t -> okb a = true -> okb a' = true -> ple a a' = true ->
  ple (fold_left (fstep rs base) t a) (fold_left (fstep rs base) t a') = true.
Proof.
  revert a a'. induction t as [|vi t IH]; simpl; intros a a' Ht Ha Ha' Hle; auto.
  inversion Ht; subst.
  pose proof (gp_unit rs base vi H1) as Hu.
  apply IH; auto; try (apply pmul_ok; auto).
  apply pmul_mono; auto. apply ple_refl. apply unit_ok; auto.
Qed.

Lemma okpt_upd (rs : ruleset) t pos f v i :
  okpt rs t -> nth_error t pos = Some (v, i) -> f i < length (groups rs v) ->
  okpt rs (upd t pos f).
Proof.
  revert pos. induction t as [|[v' i'] t IH]; intros [|pos]; simpl; intros Ht Hn Hf; try discriminate.
  - inversion Hn; subst. inversion Ht; subst. constructor; auto.
    destruct H1 as [Hw _]. split; auto.
  - inversion Ht; subst. constructor; auto. eapply IH; eauto.
Qed.

Lemma fp_upd_S_le (rs : ruleset) base t a pos v i :
  okpt rs t -> okb a = true -> nth_error t pos = Some (v, i) ->
  S i < length (groups rs v) ->
  ple (fold_left (fstep rs base) (upd t pos S) a) (fold_left (fstep rs base) t a) = true.
Proof.
  revert a pos. induction t as [|[v' i'] t IH]; intros a [|pos]; simpl; intros Ht Ha Hn Hlt; try discriminate.
  - inversion Hn; subst. inversion Ht; subst.
    assert (Hu1 : unitb (gp rs base (v, i)) = true) by (apply gp_unit; auto).
    assert (Hu2 : unitb (gp rs base (v, S i)) = true).
    { apply gp_unit. destruct H1 as [Hw _]. split; auto. }
    apply fp_mono; auto; try (apply pmul_ok; auto).
    apply pmul_mono; auto.
    + apply ple_refl; auto.
    + unfold gp; simpl. apply desc_nth; auto. destruct H1 as [[_ [_ Hd]] _]. auto.
  - inversion Ht; subst. apply IH; auto.
    apply pmul_ok; auto. apply gp_unit; auto.
Qed.

Lemma find_prob_ok (rs : ruleset) t base :
  okpt rs t -> okb base = true -> okb (find_prob rs t base) = true.
Proof. intros. unfold find_prob. apply fp_ok; auto. Qed.

Lemma find_prob_upd_S_le (rs : ruleset) t base pos v i :
  okpt rs t -> okb base = true -> nth_error t pos = Some (v, i) ->
  S i < length (groups rs v) ->
  ple (find_prob rs (upd t pos S) base) (find_prob rs t base) = true.
Proof. intros. unfold find_prob. eapply fp_upd_S_le; eauto. Qed.

(* ------------------------------------------------------------------ *)
(* Structure of all_preterminals                                       *)
(* ------------------------------------------------------------------ *)

Lemma In_vectors dims vec : In vec (vectors dims) <-> Forall2 lt vec dims.
Proof.
  revert vec. induction dims as [|d r IH]; intros vec; simpl.
  - split.
    + intros [<-|[]]. constructor.
    + intros H; inversion H; auto.
  - rewrite in_flat_map. split.
    + intros [i [Hi Hv]]. apply in_map_iff in Hv. destruct Hv as [w [<- Hw]].
      constructor; [apply in_seq in Hi; lia|]. apply IH; auto.
    + intros H. inversion H; subst. exists x. split; [apply in_seq; lia|].
      apply in_map. apply IH. auto.
Qed.

Lemma NoDup_vectors dims : NoDup (vectors dims).
Proof.
  induction dims as [|d r IH]; simpl.
  - constructor; [intros []|constructor].
  - apply NoDup_flat_map_intro.
    + apply seq_NoDup.
    + intros i _. apply NoDup_map_inj_in; auto. intros x y _ _ H; inversion H; auto.
    + intros i j z _ _ Hne Hi Hj. apply in_map_iff in Hi, Hj.
      destruct Hi as [w [<- _]]. destruct Hj as [w' [E _]]. inversion E. congruence.
Qed.

Lemma Forall2_len {X Y} (R : X -> Y -> Prop) l l' : Forall2 R l l' -> length l = length l'.
Proof. induction 1; simpl; auto. Qed.

Definition bound (rs : ruleset) (vi : var * nat) : Prop :=
  snd vi < length (groups rs (fst vi)).

Lemma Forall2_lt_combine (rs : ruleset) vs vec :
  Forall2 lt vec (map (fun v => length (groups rs v)) vs) ->
  Forall (bound rs) (combine vs vec).
Proof.
  revert vec. induction vs as [|v vs IH]; intros vec H; simpl; [constructor|].
  inversion H; subst. constructor; auto.
Qed.

Lemma Forall_bound_Forall2 (rs : ruleset) (t : pt) :
  Forall (bound rs) t ->
  Forall2 lt (map snd t) (map (fun v => length (groups rs v)) (map fst t)).
Proof. induction 1; simpl; constructor; auto. Qed.

Definition good (rs : ruleset) (it : item) : Prop :=
  exists b, nth_error (bases rs) (itag it) = Some b /\
    ibase it = bprob b /\ map fst (ipt it) = brepl b /\
    Forall (bound rs) (ipt it) /\
    iprob it = find_prob rs (ipt it) (ibase it).

Lemma In_all_preterminals (rs : ruleset) it : In it (all_preterminals rs) <-> good rs it.
Proof.
  unfold all_preterminals. rewrite in_flat_map. split.
  - intros [[k b] [Hkb Hit]]. apply In_combine_seq in Hkb. destruct Hkb as [_ Hn].
    rewrite Nat.sub_0_r in Hn.
    unfold preterminals_of in Hit. simpl in Hit. apply in_map_iff in Hit.
    destruct Hit as [vec [<- Hvec]].
    apply In_vectors in Hvec. exists b. simpl.
    pose proof (Forall2_len _ _ _ Hvec) as Hlen. rewrite map_length in Hlen.
    repeat split; auto.
    + apply map_fst_combine. auto.
    + apply Forall2_lt_combine. auto.
  - intros [b [Hn [Hb [Hf [Hbd Hp]]]]].
    exists (itag it, b). split.
    + apply In_combine_seq. rewrite Nat.sub_0_r. split; [lia|auto].
    + unfold preterminals_of. simpl. apply in_map_iff.
      exists (map snd (ipt it)). split.
      * rewrite <- Hf. rewrite combine_fst_snd. rewrite <- Hb.
        destruct it; simpl in *. unfold mk. subst. reflexivity.
      * apply In_vectors. rewrite <- Hf. apply Forall_bound_Forall2. auto.
Qed.

Lemma NoDup_all_preterminals (rs : ruleset) : NoDup (all_preterminals rs).
Proof.
  unfold all_preterminals. apply NoDup_flat_map_intro.
  - apply NoDup_combine_seq.
  - intros [k b] _. unfold preterminals_of. simpl.
    apply NoDup_map_inj_in; [|apply NoDup_vectors].
    intros x y Hx Hy E. apply In_vectors in Hx, Hy.
    apply Forall2_len in Hx, Hy. rewrite map_length in *.
    assert (E' : combine (brepl b) x = combine (brepl b) y) by (inversion E; auto).
    apply (f_equal (map snd)) in E'. rewrite !map_snd_combine in E'; auto.
  - intros [k b] [k' b'] z Hin Hin' Hne Hz Hz'.
    unfold preterminals_of in Hz, Hz'. simpl in *.
    apply in_map_iff in Hz, Hz'. destruct Hz as [w [<- _]]. destruct Hz' as [w' [E _]].
    assert (k' = k) by (inversion E; auto). subst.
    apply In_combine_seq in Hin, Hin'. destruct Hin as [_ Hin]. destruct Hin' as [_ Hin'].
    apply Hne. congruence.
Qed.

Lemma good_eta (rs : ruleset) it : good rs it -> mk rs (itag it) (ipt it) (ibase it) = it.
Proof.
  intros [b [_ [_ [_ [_ Hp]]]]]. destruct it; simpl in *. unfold mk. subst. reflexivity.
Qed.

Lemma bound_upd (rs : ruleset) t pos f v i :
  Forall (bound rs) t -> nth_error t pos = Some (v, i) -> f i < length (groups rs v) ->
  Forall (bound rs) (upd t pos f).
Proof.
  revert pos. induction t as [|[v' i'] t IH]; intros [|pos]; simpl; intros Ht Hn Hf; try discriminate.
  - inversion Hn; subst. inversion Ht; subst. constructor; auto.
  - inversion Ht; subst. constructor; eauto.
Qed.

Lemma good_upd (rs : ruleset) x pos f v i :
  good rs x -> nth_error (ipt x) pos = Some (v, i) -> f i < length (groups rs v) ->
  good rs (mk rs (itag x) (upd (ipt x) pos f) (ibase x)).
Proof.
  intros [b [Hn [Hb [Hf [Hbd Hp]]]]] Hnth Hlt. exists b. simpl.
  repeat split; auto.
  - rewrite map_fst_upd. auto.
  - eapply bound_upd; eauto.
Qed.

Lemma nth_error_bound (rs : ruleset) t pos v i :
  Forall (bound rs) t -> nth_error t pos = Some (v, i) -> i < length (groups rs v).
Proof.
  intros Hf Hn. apply nth_error_In in Hn. rewrite Forall_forall in Hf.
  apply (Hf _ Hn).
Qed.

Section WithWf.
Variable rs : ruleset.
Hypothesis Hwf : wf rs.

Lemma good_ok it : good rs it -> okb (ibase it) = true /\ okpt rs (ipt it).
Proof.
  intros [b [Hn [Hb [Hf [Hbd Hp]]]]].
  apply nth_error_In in Hn. unfold wf in Hwf. rewrite Forall_forall in Hwf.
  destruct (Hwf b Hn) as [Hok Hg]. split; [congruence|].
  rewrite <- Hf in Hg. rewrite Forall_map in Hg.
  unfold okpt. rewrite Forall_forall in *. intros vi Hvi. split; auto.
  apply (Hbd vi Hvi).
Qed.

Lemma good_iprob_ok it : good rs it -> okb (iprob it) = true.
Proof.
  intros Hg. destruct (good_ok it Hg) as [Hb Ht].
  destruct Hg as [b [_ [_ [_ [_ Hp]]]]]. rewrite Hp. apply find_prob_ok; auto.
Qed.

(* T1 *)
Theorem find_prob_child_le it pos v i :
  In it (all_preterminals rs) ->
  nth_error (ipt it) pos = Some (v, i) -> S i < length (groups rs v) ->
  ple (find_prob rs (upd (ipt it) pos S) (ibase it)) (find_prob rs (ipt it) (ibase it)) = true
  /\ okb (find_prob rs (upd (ipt it) pos S) (ibase it)) = true
  /\ okb (find_prob rs (ipt it) (ibase it)) = true.
Proof.
  intros Hin Hn Hlt. apply In_all_preterminals in Hin.
  destruct (good_ok it Hin) as [Hb Ht].
  split; [|split].
  - eapply find_prob_upd_S_le; eauto.
  - apply find_prob_ok; auto. eapply okpt_upd; eauto.
  - apply find_prob_ok; auto.
Qed.

(* ------------------------------------------------------------------ *)
(* Parents, children, adoption                                         *)
(* ------------------------------------------------------------------ *)

Lemma my_child_spec t base ppos pprob :
  my_child rs t base ppos pprob = true <->
  forall pos v i, pos <> ppos -> nth_error t pos = Some (v, S i) ->
     ple pprob (find_prob rs (upd t pos pred) base) = true /\
     (ple (find_prob rs (upd t pos pred) base) pprob = true -> ppos < pos).
Proof.
  unfold my_child, my_child_gen. rewrite forallb_forall. split.
  - intros H pos v i Hne Hn. specialize (H pos).
    assert (Hin : In pos (seq 0 (length t))).
    { apply in_seq. split; [lia|]. simpl. apply nth_error_Some. congruence. }
    specialize (H Hin). apply Nat.eqb_neq in Hne. rewrite Hne, Hn in H.
    unfold plt, peq in H.
    destruct (ple pprob (find_prob rs (upd t pos pred) base));
      destruct (ple (find_prob rs (upd t pos pred) base) pprob); simpl in H;
      try discriminate; split; auto; intros; try discriminate.
    apply Nat.eqb_neq in Hne.
    destruct (Nat.ltb_spec pos ppos); simpl in H; try discriminate. lia.
  - intros H pos Hin. destruct (Nat.eqb_spec pos ppos) as [|Hne]; auto.
    destruct (nth_error t pos) as [[v [|i]]|] eqn:E; auto.
    destruct (H pos v i Hne E) as [Ha Hb].
    unfold plt, peq. rewrite Ha. simpl.
    destruct (ple (find_prob rs (upd t pos pred) base) pprob) eqn:E2; simpl; auto.
    specialize (Hb eq_refl). destruct (Nat.ltb_spec pos ppos); simpl; auto. lia.
Qed.

Lemma lexmin_exists (cand : nat -> bool) (w : nat -> P) n :
  (forall k, k < n -> cand k = true -> okb (w k) = true) ->
  (exists k, k < n /\ cand k = true) ->
  exists m, m < n /\ cand m = true /\
    forall k, k < n -> cand k = true -> k <> m ->
      ple (w m) (w k) = true /\ (ple (w k) (w m) = true -> m < k).
Proof.
  induction n as [|n IH]; intros Hok Hex.
  - destruct Hex as [k [Hk _]]. lia.
  - destruct (existsb cand (seq 0 n)) eqn:Eb.
    + apply existsb_exists in Eb. destruct Eb as [k0 [Hk0 Hc0]]. apply in_seq in Hk0.
      destruct IH as [m [Hm [Hcm Hmin]]].
      { intros k Hk. apply Hok. lia. }
      { exists k0. split; [lia|auto]. }
      destruct (cand n) eqn:Ecn.
      * destruct (ple (w m) (w n)) eqn:Ele.
        -- exists m. split; [lia|]. split; auto.
           intros k Hk Hck Hne. destruct (Nat.eq_dec k n) as [->|Hkn].
           ++ split; auto.
           ++ apply Hmin; auto. lia.
        -- assert (Hokm : okb (w m) = true) by (apply Hok; auto; lia).
           assert (Hokn : okb (w n) = true) by (apply Hok; auto).
           assert (Hnm : ple (w n) (w m) = true).
           { destruct (ple_total A (w n) (w m)); auto. congruence. }
           exists n. split; [lia|]. split; auto.
           intros k Hk Hck Hne. assert (Hkn : k < n) by lia.
           assert (Hokk : okb (w k) = true) by (apply Hok; auto).
           destruct (Nat.eq_dec k m) as [->|Hkm].
           ++ split; auto. intros. congruence.
           ++ destruct (Hmin k Hkn Hck Hkm) as [Hmk _]. split.
              ** apply (ple_trans A (w n) (w m) (w k)); auto.
              ** intros Hkn'. 
                 assert (ple (w m) (w n) = true)
                   by (apply (ple_trans A (w m) (w k) (w n)); auto).
                 congruence.
      * exists m. split; [lia|]. split; auto.
        intros k Hk Hck Hne. destruct (Nat.eq_dec k n) as [->|Hkn]; [congruence|].
        apply Hmin; auto. lia.
    + assert (Hnone : forall k, k < n -> cand k = false).
      { intros k Hk. destruct (cand k) eqn:E; auto.
        assert (existsb cand (seq 0 n) = true).
        { apply existsb_exists. exists k. split; auto. apply in_seq. lia. }
        congruence. }
      destruct Hex as [k [Hk Hck]].
      assert (k = n).
      { destruct (Nat.eq_dec k n); auto. rewrite Hnone in Hck; [discriminate|lia]. }
      subst. exists n. split; [lia|]. split; auto.
      intros k Hk' Hck' Hne. rewrite Hnone in Hck'; [discriminate|lia].
Qed.

Definition adopts (p c : item) : Prop :=
  exists pos v i, nth_error (ipt c) pos = Some (v, S i) /\
    p = mk rs (itag c) (upd (ipt c) pos pred) (ibase c) /\
    my_child rs (ipt c) (ibase c) pos (iprob p) = true.

Lemma In_parents p c :
  In p (parents rs c) <->
  exists pos v i, nth_error (ipt c) pos = Some (v, S i) /\
    p = mk rs (itag c) (upd (ipt c) pos pred) (ibase c).
Proof.
  unfold parents. rewrite in_flat_map. split.
  - intros [pos [_ H]].
    destruct (nth_error (ipt c) pos) as [[v [|i]]|] eqn:E; simpl in H; try tauto.
    destruct H as [<-|[]]. eauto.
  - intros [pos [v [i [Hn ->]]]]. exists pos. split.
    + apply in_seq. split; [lia|]. simpl. apply nth_error_Some. congruence.
    + rewrite Hn. left; auto.
Qed.

Lemma adopts_parent p c : adopts p c -> In p (parents rs c).
Proof. intros [pos [v [i [Hn [Hp _]]]]]. apply In_parents. eauto. Qed.

Lemma parent_props p c :
  good rs c -> In p (parents rs c) ->
  good rs p /\ ple (iprob c) (iprob p) = true /\ rank (ipt p) < rank (ipt c).
Proof.
  intros Hg Hp. apply In_parents in Hp. destruct Hp as [pos [v [i [Hn ->]]]].
  destruct (good_ok c Hg) as [Hb Ht].
  pose proof Hg as [b [_ [_ [_ [Hbd Hpr]]]]].
  pose proof (nth_error_bound _ _ _ _ _ Hbd Hn) as Hlt.
  split; [|split].
  - eapply good_upd; eauto. simpl. lia.
  - simpl. rewrite Hpr.
    rewrite <- (upd_inv (ipt c) pos pred S v (S i) Hn eq_refl) at 1.
    eapply find_prob_upd_S_le; eauto.
    + eapply okpt_upd; eauto. simpl. lia.
    + apply (nth_error_upd_same _ _ pred _ _ Hn).
  - simpl. eapply rank_upd_pred; eauto.
Qed.

Lemma adopts_unique p p' c : adopts p c -> adopts p' c -> p = p'.
Proof.
  intros [pos [v [i [Hn [Hp Hm]]]]] [pos' [v' [i' [Hn' [Hp' Hm']]]]].
  destruct (Nat.eq_dec pos pos') as [->|Hne]; [congruence|].
  exfalso.
  rewrite my_child_spec in Hm, Hm'.
  assert (Hne' : pos' <> pos) by congruence.
  destruct (Hm pos' v' i' Hne' Hn') as [Ha Hb].
  destruct (Hm' pos v i Hne Hn) as [Ha' Hb'].
  subst p p'. simpl in *.
  specialize (Hb Ha'). specialize (Hb' Ha). lia.
Qed.

Lemma adopts_exists c : good rs c -> parents rs c <> [] -> exists p, adopts p c.
Proof.
  intros Hg Hne.
  pose (cand := fun pos => match nth_error (ipt c) pos with Some (_, S _) => true | _ => false end).
  pose (w := fun pos => find_prob rs (upd (ipt c) pos pred) (ibase c)).
  destruct (good_ok c Hg) as [Hb Ht].
  pose proof Hg as [b [_ [_ [_ [Hbd Hpr]]]]].
  destruct (lexmin_exists cand w (length (ipt c))) as [m [Hm [Hcm Hmin]]].
  - intros k Hk Hc. unfold cand in Hc.
    destruct (nth_error (ipt c) k) as [[v [|i]]|] eqn:E; try discriminate.
    unfold w. apply find_prob_ok; auto. eapply okpt_upd; eauto. simpl.
    pose proof (nth_error_bound _ _ _ _ _ Hbd E). lia.
  - destruct (parents rs c) as [|p l] eqn:E; [congruence|].
    assert (Hin : In p (parents rs c)) by (rewrite E; left; auto).
    apply In_parents in Hin. destruct Hin as [pos [v [i [Hn _]]]].
    exists pos. split.
    + apply nth_error_Some. congruence.
    + unfold cand. rewrite Hn. auto.
  - unfold cand in Hcm. destruct (nth_error (ipt c) m) as [[v [|i]]|] eqn:E; try discriminate.
    exists (mk rs (itag c) (upd (ipt c) m pred) (ibase c)), m, v, i.
    split; auto. split; auto. simpl.
    apply my_child_spec. intros pos v' i' Hne' Hn'.
    apply (Hmin pos); auto.
    + apply nth_error_Some. congruence.
    + unfold cand. rewrite Hn'. auto.
Qed.

Lemma In_find_children x c :
  good rs x -> (In c (find_children rs x) <-> good rs c /\ adopts x c).
Proof.
  intros Hgx. pose proof Hgx as [b [_ [_ [_ [Hbd Hpr]]]]].
  unfold find_children, find_children_gen. rewrite in_flat_map. split.
  - intros [pos [_ H]].
    destruct (nth_error (ipt x) pos) as [[v i]|] eqn:E; [|destruct H].
    destruct (Nat.eqb_spec (length (groups rs v)) (i + 1)) as [|Hlen]; [destruct H|].
    destruct (my_child_gen true rs (upd (ipt x) pos S) (ibase x) pos (iprob x)) eqn:Emc;
      [|destruct H].
    destruct H as [<-|[]].
    pose proof (nth_error_bound _ _ _ _ _ Hbd E) as Hlt.
    split.
    + eapply good_upd; eauto. lia.
    + exists pos, v, i. simpl. split; [|split].
      * apply (nth_error_upd_same _ _ S _ _ E).
      * rewrite (upd_inv (ipt x) pos S pred v i E eq_refl). symmetry. apply good_eta. auto.
      * exact Emc.
  - intros [Hgc [pos [v [i [Hn [Hx Hm]]]]]].
    pose proof Hgc as [b' [_ [_ [_ [Hbd' Hpr']]]]].
    pose proof (nth_error_bound _ _ _ _ _ Hbd' Hn) as Hlt.
    exists pos. split.
    + apply in_seq. split; [lia|]. simpl. rewrite Hx. simpl. rewrite upd_length.
      apply nth_error_Some. congruence.
    + assert (E : nth_error (ipt x) pos = Some (v, i)).
      { rewrite Hx. simpl. apply (nth_error_upd_same _ _ pred _ _ Hn). }
      rewrite E.
      destruct (Nat.eqb_spec (length (groups rs v)) (i + 1)) as [Hlen|Hlen]; [lia|].
      assert (Eu : upd (ipt x) pos S = ipt c).
      { rewrite Hx. simpl. apply (upd_inv (ipt c) pos pred S v (S i) Hn eq_refl). }
      rewrite Eu.
      assert (Eb : ibase x = ibase c) by (rewrite Hx; reflexivity).
      assert (Et : itag x = itag c) by (rewrite Hx; reflexivity).
      rewrite Eb, Et. unfold my_child in Hm. rewrite Hm.
      left. apply good_eta. auto.
Qed.

Lemma NoDup_find_children x : NoDup (find_children rs x).
Proof.
  unfold find_children, find_children_gen. apply NoDup_flat_map_intro.
  - apply seq_NoDup.
  - intros pos _. destruct (nth_error (ipt x) pos) as [[v i]|]; [|constructor].
    destruct (Nat.eqb _ _); [constructor|].
    destruct (my_child_gen _ _ _ _ _ _); [|constructor].
    constructor; [intros []|constructor].
  - intros p1 p2 z _ _ Hne H1 H2.
    destruct (nth_error (ipt x) p1) as [[v1 i1]|] eqn:E1; [|destruct H1].
    destruct (nth_error (ipt x) p2) as [[v2 i2]|] eqn:E2; [|destruct H2].
    destruct (Nat.eqb _ _); [destruct H1|].
    destruct (Nat.eqb _ _); [destruct H2|].
    destruct (my_child_gen _ _ _ _ _ _); [|destruct H1].
    destruct (my_child_gen _ _ _ _ _ _); [|destruct H2].
    destruct H1 as [<-|[]]. destruct H2 as [H2|[]].
    assert (E : upd (ipt x) p2 S = upd (ipt x) p1 S) by (inversion H2; auto).
    assert (E' : nth_error (upd (ipt x) p2 S) p1 = nth_error (upd (ipt x) p1 S) p1) by (rewrite E; auto).
    rewrite (nth_error_upd_same _ _ S _ _ E1) in E'.
    rewrite nth_error_upd_other in E' by congruence.
    rewrite E1 in E'. inversion E'. lia.
Qed.

(* ------------------------------------------------------------------ *)
(* T6: the closure theorem                                             *)
(* ------------------------------------------------------------------ *)

Lemma run_S_end pop n (s : state) :
  run pop rs (S n) s = step pop rs (run pop rs n s).
Proof.
  unfold run, step. revert s. induction n as [|n IH]; intros s; simpl; auto.
  rewrite <- IH. reflexivity.
Qed.

Definition closure_set (inS : item -> bool) : list item :=
  filter inS (all_preterminals rs).
Definition closure_frontier (inS : item -> bool) : list item :=
  filter (fun c => inS c && negb (existsb inS (parents rs c))) (all_preterminals rs).

(* H1 *)
Definition down_closed (inS : item -> bool) : Prop :=
  forall c p, In c (all_preterminals rs) -> In p (parents rs c) ->
    inS p = true -> inS c = true.
(* H2 *)
Definition adopter_closed (inS : item -> bool) : Prop :=
  forall c p, In c (all_preterminals rs) -> inS c = true ->
    existsb inS (parents rs c) = true -> adopts p c -> inS p = true.

Section Closure.
Variable pop : queue -> option (item * queue).
Hypothesis Hpop : pop_ok_okb pop.
Variable inS : item -> bool.
Hypothesis H1 : down_closed inS.
Hypothesis H2 : adopter_closed inS.

Local Notation SS := (closure_set inS).
Local Notation FF := (closure_frontier inS).

Record Inv (s : state) : Prop := {
  inv_nodup : NoDup (emitted s ++ pending s);
  inv_sub : forall x, In x (emitted s ++ pending s) -> In x SS;
  inv_front : forall c, In c FF -> In c (emitted s ++ pending s);
  inv_adopt : forall c, In c SS -> existsb inS (parents rs c) = true ->
       (In c (emitted s ++ pending s) <-> exists p, adopts p c /\ In p (emitted s));
  inv_sorted : nonincreasing (rev (emitted s));
  inv_le : forall e q, In e (emitted s) -> In q (pending s) ->
       ple (iprob q) (iprob e) = true
}.

Lemma SS_good x : In x SS -> good rs x /\ inS x = true.
Proof.
  unfold closure_set. rewrite filter_In. intros [H Hs]. split; auto.
  apply In_all_preterminals; auto.
Qed.

Lemma SS_intro x : good rs x -> inS x = true -> In x SS.
Proof.
  intros. unfold closure_set. apply filter_In. split; auto. apply In_all_preterminals; auto.
Qed.

Lemma NoDup_SS : NoDup SS.
Proof. apply NoDup_filter. apply NoDup_all_preterminals. Qed.

Lemma Inv_init q0 : Permutation q0 FF -> Inv {| emitted := []; pending := q0 |}.
Proof.
  intros Hp. constructor; simpl.
  - apply (Permutation_NoDup (Permutation_sym Hp)).
    apply NoDup_filter. apply NoDup_all_preterminals.
  - intros x Hx. apply (Permutation_in _ Hp) in Hx.
    unfold closure_frontier in Hx. apply filter_In in Hx. destruct Hx as [Hx Hb].
    apply andb_true_iff in Hb. destruct Hb as [Hb _].
    apply filter_In. auto.
  - intros c Hc. apply (Permutation_in _ (Permutation_sym Hp)). auto.
  - intros c Hc He. split.
    + intros Hx. apply (Permutation_in _ Hp) in Hx.
      unfold closure_frontier in Hx. apply filter_In in Hx. destruct Hx as [Hx Hb].
      rewrite He in Hb. apply andb_true_iff in Hb. destruct Hb as [_ Hb]. discriminate.
    + intros [p [_ []]].
  - constructor.
  - intros e q [].
Qed.

Lemma Inv_step s : Inv s -> Inv (step pop rs s).
Proof.
  intros HI. unfold step, step_gen.
  destruct (pop (pending s)) as [[x r]|] eqn:Ep; auto.
  destruct Hpop as [_ Hp2].
  destruct s as [E Q]. simpl in *.
  destruct HI as [Hnd Hsub Hfront Hadopt Hsorted Hle]. simpl in *.
  assert (Hokq : Forall (fun y => okb (iprob y) = true) Q).
  { apply Forall_forall. intros y Hy. apply good_iprob_ok. apply SS_good.
    apply Hsub. apply in_app_iff. auto. }
  destruct (Hp2 _ _ _ Hokq Ep) as [Hperm Hmax].
  assert (HxQ : In x Q).
  { apply (Permutation_in _ (Permutation_sym Hperm)). left; auto. }
  assert (HxSS : In x SS) by (apply Hsub; apply in_app_iff; auto).
  destruct (SS_good x HxSS) as [Hgx HSx].
  assert (Hch : forall c, In c (find_children rs x) ->
            good rs c /\ adopts x c /\ In c SS /\
            existsb inS (parents rs c) = true /\ ~ In c (E ++ Q)).
  { intros c Hc. apply (In_find_children x c Hgx) in Hc. destruct Hc as [Hgc Had].
    pose proof (adopts_parent _ _ Had) as Hpar.
    assert (HSc : inS c = true).
    { apply (H1 c x); auto. apply In_all_preterminals; auto. }
    assert (Hex : existsb inS (parents rs c) = true).
    { apply existsb_exists. exists x. auto. }
    assert (HcSS : In c SS) by (apply SS_intro; auto).
    repeat split; auto.
    intros Hin. apply (Hadopt c HcSS Hex) in Hin. destruct Hin as [p [Hp HpE]].
    assert (p = x) by (eapply adopts_unique; eauto). subst p.
    eapply NoDup_app_disj; eauto. }
  assert (Hstep_in : forall c, In c (x :: E ++ find_children rs x ++ r) <->
                               In c (find_children rs x) \/ In c (E ++ Q)).
  { intros c. simpl. rewrite !in_app_iff. split.
    - intros [<-|[H|[H|H]]]; auto.
      right; right. apply (Permutation_in _ (Permutation_sym Hperm)). right; auto.
    - intros [H|[H|H]]; auto.
      apply (Permutation_in _ Hperm) in H. destruct H as [<-|H]; auto. }
  assert (Hokall : forall y, In y (E ++ Q) -> okb (iprob y) = true).
  { intros y Hy. apply good_iprob_ok. apply SS_good. auto. }
  constructor; cbn [emitted pending app].
  - (* NoDup *)
    assert (N1 : NoDup (x :: E ++ r)).
    { apply (Permutation_NoDup (l := E ++ Q)); auto.
      eapply perm_trans; [apply Permutation_app_head; apply Hperm|].
      apply Permutation_sym. apply Permutation_middle. }
    apply (Permutation_NoDup (l := find_children rs x ++ x :: E ++ r)).
    + apply Permutation_sym.
      eapply perm_trans; [apply perm_skip; apply Permutation_app_swap_app|].
      apply Permutation_middle.
    + apply NoDup_app_intro; auto.
      * apply NoDup_find_children.
      * intros c Hc Hin. destruct (Hch c Hc) as [_ [_ [_ [_ Hn]]]]. apply Hn.
        rewrite in_app_iff. simpl in Hin. rewrite in_app_iff in Hin.
        destruct Hin as [<-|[Hin|Hin]]; auto.
        right. apply (Permutation_in _ (Permutation_sym Hperm)). right; auto.
  - (* sub *)
    intros c Hc. apply Hstep_in in Hc. destruct Hc as [Hc|Hc]; auto.
    apply Hch; auto.
  - (* front *)
    intros c Hc. apply Hstep_in. right. auto.
  - (* adopt *)
    intros c HcSS Hex. rewrite Hstep_in. split.
    + intros [Hc|Hc].
      * exists x. split; [apply Hch; auto|left; auto].
      * apply (Hadopt c HcSS Hex) in Hc. destruct Hc as [p [Hp HpE]]. exists p.
        split; [auto|right; auto].
    + intros [p [Hp [<-|HpE]]].
      * left. apply In_find_children; auto. split; auto. apply SS_good; auto.
      * right. apply (Hadopt c HcSS Hex). exists p. auto.
  - (* sorted *)
    unfold nonincreasing. simpl. apply StronglySorted_snoc; auto.
    apply Forall_forall. intros a Ha. apply in_rev in Ha. apply Hle; auto.
  - (* le *)
    assert (Hchle : forall q, In q (find_children rs x) -> ple (iprob q) (iprob x) = true).
    { intros q Hq. destruct (Hch q Hq) as [Hgq [Had _]].
      apply (parent_props x q Hgq). apply adopts_parent; auto. }
    intros e q [<-|He] Hq; apply in_app_iff in Hq; destruct Hq as [Hq|Hq].
    + auto.
    + rewrite Forall_forall in Hmax. apply not_plt_ple. auto.
    + apply (ple_trans A (iprob q) (iprob x) (iprob e)); auto.
      * apply good_iprob_ok. apply Hch; auto.
      * apply Hokall. apply in_app_iff; auto.
      * apply Hokall. apply in_app_iff; auto.
    + apply Hle; auto. apply (Permutation_in _ (Permutation_sym Hperm)). right; auto.
Qed.

Lemma Inv_run n s : Inv s -> Inv (run pop rs n s).
Proof.
  induction n as [|n IH]; intros H; [exact H|].
  rewrite run_S_end. apply Inv_step. auto.
Qed.

(* Exhaustion: when the queue is empty, everything in the set was emitted *)
Lemma Inv_exhausted s :
  Inv s -> pending s = [] -> forall c, In c SS -> In c (emitted s).
Proof.
  intros HI Hq.
  assert (Hrk : forall k c, rank (ipt c) < k -> In c SS -> In c (emitted s)).
  { induction k as [|k IH]; intros c Hk Hc; [lia|].
    destruct (SS_good c Hc) as [Hgc HSc].
    assert (Hgoal : In c (emitted s ++ pending s)).
    { destruct (existsb inS (parents rs c)) eqn:Ex.
      - assert (Hne : parents rs c <> []).
        { intros E0. rewrite E0 in Ex. discriminate. }
        destruct (adopts_exists c Hgc Hne) as [p Hp].
        apply (inv_adopt s HI c Hc Ex). exists p. split; auto.
        pose proof (adopts_parent _ _ Hp) as Hpar.
        destruct (parent_props p c Hgc Hpar) as [Hgp [_ Hr]].
        apply IH; [lia|]. apply SS_intro; auto.
        apply (H2 c p); auto. apply In_all_preterminals; auto.
      - apply (inv_front s HI). unfold closure_frontier. apply filter_In. split.
        + apply In_all_preterminals; auto.
        + rewrite HSc, Ex. reflexivity. }
    rewrite Hq, app_nil_r in Hgoal. auto. }
  intros c Hc. apply (Hrk (S (rank (ipt c)))); auto.
Qed.

Lemma Inv_length s : Inv s -> length (emitted s ++ pending s) <= length SS.
Proof.
  intros HI. apply NoDup_incl_length.
  - apply (inv_nodup s HI).
  - intros x Hx. apply (inv_sub s HI); auto.
Qed.

Lemma Inv_productive s :
  Inv s -> length (emitted s) < length SS -> pending s <> [].
Proof.
  intros HI Hlt Hq.
  assert (length SS <= length (emitted s)); [|lia].
  apply NoDup_incl_length; [apply NoDup_SS|].
  intros c Hc. apply Inv_exhausted; auto.
Qed.

Lemma run_length n s0 :
  Inv s0 -> emitted s0 = [] -> n <= length SS -> length (emitted (run pop rs n s0)) = n.
Proof.
  intros HI0 He0. induction n as [|n IH]; intros Hn.
  - unfold run. simpl. rewrite He0. reflexivity.
  - rewrite run_S_end. specialize (IH ltac:(lia)).
    pose proof (Inv_run n s0 HI0) as HI.
    assert (Hne : pending (run pop rs n s0) <> []).
    { apply Inv_productive; auto. lia. }
    unfold step, step_gen.
    destruct (pop (pending (run pop rs n s0))) as [[x r]|] eqn:Ep.
    + simpl. lia.
    + destruct Hpop as [Hp1 _]. apply Hp1 in Ep. contradiction.
Qed.

Lemma run_complete s0 :
  Inv s0 -> emitted s0 = [] ->
  let s := run pop rs (length SS) s0 in
  Permutation (emitted s) SS /\ pending s = [].
Proof.
  intros HI0 He0 s.
  pose proof (Inv_run (length SS) s0 HI0) as HI. fold s in HI.
  pose proof (run_length (length SS) s0 HI0 He0 (le_n _)) as Hlen. fold s in Hlen.
  pose proof (Inv_length s HI) as Hall. rewrite app_length in Hall.
  assert (Hq : pending s = []).
  { destruct (pending s); auto. simpl in Hall. lia. }
  split; auto.
  apply NoDup_Permutation_bis.
  - apply (NoDup_app_l _ _ (inv_nodup s HI)).
  - lia.
  - intros x Hx. apply (inv_sub s HI). apply in_app_iff. auto.
Qed.

End Closure.

(* The general closure theorem (T6), for the restricted queue contract. *)
Theorem closure_okb pop inS q0 :
  pop_ok_okb pop -> down_closed inS -> adopter_closed inS ->
  Permutation q0 (closure_frontier inS) ->
  let s := fun n => run pop rs n {| emitted := []; pending := q0 |} in
  (forall n, nonincreasing (rev (emitted (s n)))) /\
  (forall n e q, In e (emitted (s n)) -> In q (pending (s n)) ->
                 ple (iprob q) (iprob e) = true) /\
  (forall n, NoDup (emitted (s n) ++ pending (s n))) /\
  (forall n x, In x (emitted (s n) ++ pending (s n)) -> In x (closure_set inS)) /\
  (forall n, n <= length (closure_set inS) -> length (emitted (s n)) = n) /\
  Permutation (emitted (s (length (closure_set inS)))) (closure_set inS) /\
  pending (s (length (closure_set inS))) = [].
Proof.
  intros Hpop H1 H2 Hq0 s.
  pose proof (Inv_init inS q0 Hq0) as HI0.
  assert (HI : forall n, Inv inS (s n)).
  { intros n. apply Inv_run; auto. }
  split; [|split; [|split; [|split; [|split]]]].
  - intros n. apply (inv_sorted _ _ (HI n)).
  - intros n. apply (inv_le _ _ (HI n)).
  - intros n. apply (inv_nodup _ _ (HI n)).
  - intros n. apply (inv_sub _ _ (HI n)).
  - intros n Hn. apply (run_length pop Hpop inS H1 H2); auto.
  - apply (run_complete pop Hpop inS H1 H2); auto.
Qed.

Theorem closure pop inS q0 :
  pop_ok pop -> down_closed inS -> adopter_closed inS ->
  Permutation q0 (closure_frontier inS) ->
  let s := fun n => run pop rs n {| emitted := []; pending := q0 |} in
  (forall n, nonincreasing (rev (emitted (s n)))) /\
  (forall n e q, In e (emitted (s n)) -> In q (pending (s n)) ->
                 ple (iprob q) (iprob e) = true) /\
  (forall n, NoDup (emitted (s n) ++ pending (s n))) /\
  (forall n x, In x (emitted (s n) ++ pending (s n)) -> In x (closure_set inS)) /\
  (forall n, n <= length (closure_set inS) -> length (emitted (s n)) = n) /\
  Permutation (emitted (s (length (closure_set inS)))) (closure_set inS) /\
  pending (s (length (closure_set inS))) = [].
Proof. intros Hpop. apply closure_okb. apply pop_ok_weaken; auto. Qed.

(* ------------------------------------------------------------------ *)
(* Instance: thresholds (below m)                                      *)
(* ------------------------------------------------------------------ *)

Lemma adopts_min p p' c :
  good rs c -> adopts p c -> In p' (parents rs c) -> ple (iprob p) (iprob p') = true.
Proof.
  intros Hgc Had Hp'.
  destruct (parent_props p' c Hgc Hp') as [Hgp' _].
  destruct Had as [pos [v [i [Hn [Hp Hm]]]]].
  apply In_parents in Hp'. destruct Hp' as [pos' [v' [i' [Hn' Hp']]]].
  destruct (Nat.eq_dec pos' pos) as [->|Hne].
  - rewrite Hp, Hp'. apply ple_refl. rewrite <- Hp'. apply good_iprob_ok; auto.
  - rewrite my_child_spec in Hm. destruct (Hm pos' v' i' Hne Hn') as [Ha _].
    rewrite Hp'. simpl. exact Ha.
Qed.

Lemma below_down_closed m : okb m = true -> down_closed (below m).
Proof.
  intros Hm c p Hc Hp Hb. unfold below in *.
  apply In_all_preterminals in Hc.
  destruct (parent_props p c Hc Hp) as [Hgp [Hle _]].
  apply (ple_trans A (iprob c) (iprob p) m); auto; apply good_iprob_ok; auto.
Qed.

Lemma below_adopter_closed m : okb m = true -> adopter_closed (below m).
Proof.
  intros Hm c p Hc Hb Hex Had. unfold below in *.
  apply In_all_preterminals in Hc.
  apply existsb_exists in Hex. destruct Hex as [p' [Hp' Hb']].
  pose proof (adopts_min p p' c Hc Had Hp') as Hle.
  destruct (parent_props p' c Hc Hp') as [Hgp' _].
  destruct (parent_props p c Hc (adopts_parent _ _ Had)) as [Hgp _].
  apply (ple_trans A (iprob p) (iprob p') m); auto; apply good_iprob_ok; auto.
Qed.

Theorem closure_below_okb pop m q0 :
  pop_ok_okb pop -> okb m = true ->
  Permutation q0 (filter (frontierb rs m) (all_preterminals rs)) ->
  let SS := filter (below m) (all_preterminals rs) in
  let s := fun n => run pop rs n {| emitted := []; pending := q0 |} in
  (forall n, nonincreasing (rev (emitted (s n)))) /\
  (forall n e q, In e (emitted (s n)) -> In q (pending (s n)) ->
                 ple (iprob q) (iprob e) = true) /\
  (forall n, NoDup (emitted (s n) ++ pending (s n))) /\
  (forall n x, In x (emitted (s n) ++ pending (s n)) -> In x SS) /\
  (forall n, n <= length SS -> length (emitted (s n)) = n) /\
  Permutation (emitted (s (length SS))) SS /\
  pending (s (length SS)) = [].
Proof.
  intros Hpop Hm Hq0.
  apply (closure_okb pop (below m) q0 Hpop (below_down_closed m Hm)
           (below_adopter_closed m Hm)).
  exact Hq0.
Qed.

Theorem closure_below pop m q0 :
  pop_ok pop -> okb m = true ->
  Permutation q0 (filter (frontierb rs m) (all_preterminals rs)) ->
  let SS := filter (below m) (all_preterminals rs) in
  let s := fun n => run pop rs n {| emitted := []; pending := q0 |} in
  (forall n, nonincreasing (rev (emitted (s n)))) /\
  (forall n e q, In e (emitted (s n)) -> In q (pending (s n)) ->
                 ple (iprob q) (iprob e) = true) /\
  (forall n, NoDup (emitted (s n) ++ pending (s n))) /\
  (forall n x, In x (emitted (s n) ++ pending (s n)) -> In x SS) /\
  (forall n, n <= length SS -> length (emitted (s n)) = n) /\
  Permutation (emitted (s (length SS))) SS /\
  pending (s (length SS)) = [].
Proof. intros Hpop. apply closure_below_okb. apply pop_ok_weaken; auto. Qed.

(* ------------------------------------------------------------------ *)
(* Instance: the whole grammar (inS := fun _ => true)                  *)
(* ------------------------------------------------------------------ *)

Lemma all_down_closed : down_closed (fun _ => true).
Proof. intros c p _ _ _. reflexivity. Qed.

Lemma all_adopter_closed : adopter_closed (fun _ => true).
Proof. intros c p _ _ _ _. reflexivity. Qed.

Lemma closure_set_all : closure_set (fun _ => true) = all_preterminals rs.
Proof. unfold closure_set. apply filter_true. Qed.

Lemma zero_pt (t : pt) :
  Forall (fun vi => snd vi = 0) t -> t = map (fun v => (v, 0)) (map fst t).
Proof.
  induction 1 as [|[v i] t H Hf IH]; simpl; auto. simpl in H. subst. f_equal. auto.
Qed.

Lemma NoDup_init_items : NoDup (init_items rs).
Proof.
  apply (NoDup_map_inv itag). unfold init_items. rewrite map_map. simpl.
  change (NoDup (map fst (combine (seq 0 (length (bases rs))) (bases rs)))).
  rewrite map_fst_combine; [apply seq_NoDup|apply seq_length].
Qed.

Lemma In_init_items it :
  In it (init_items rs) <->
  In it (all_preterminals rs) /\ existsb (fun _ => true) (parents rs it) = false.
Proof.
  unfold init_items. rewrite in_map_iff. split.
  - intros [[k b] [<- Hkb]]. apply In_combine_seq in Hkb. destruct Hkb as [_ Hn].
    rewrite Nat.sub_0_r in Hn. simpl. split.
    + apply In_all_preterminals. exists b. simpl. repeat split; auto.
      * rewrite map_map. simpl. apply map_id.
      * apply nth_error_In in Hn. unfold wf in Hwf. rewrite Forall_forall in Hwf.
        destruct (Hwf b Hn) as [_ Hg]. rewrite Forall_forall in Hg.
        apply Forall_forall. intros vi Hvi. apply in_map_iff in Hvi.
        destruct Hvi as [v [<- Hv]]. unfold bound. simpl.
        destruct (Hg v Hv) as [Hne _]. destruct (groups rs v); [congruence|simpl; lia].
    + destruct (existsb _ _) eqn:Ex; auto.
      apply existsb_exists in Ex. destruct Ex as [p [Hp _]].
      apply In_parents in Hp. destruct Hp as [pos [v [i [Hnth _]]]]. simpl in Hnth.
      apply nth_error_In in Hnth. apply in_map_iff in Hnth.
      destruct Hnth as [v' [E _]]. discriminate.
  - intros [Hin Hex]. apply In_all_preterminals in Hin.
    pose proof Hin as [b [Hn [Hb [Hf [Hbd Hp]]]]].
    exists (itag it, b). split.
    + simpl. rewrite <- Hf, <- Hb.
      rewrite <- zero_pt; [apply good_eta; auto|].
      apply Forall_forall. intros [v i] Hvi. simpl.
      destruct i as [|i]; auto. exfalso.
      apply In_nth_error in Hvi. destruct Hvi as [pos Hpos].
      assert (existsb (fun _ : item => true) (parents rs it) = true); [|congruence].
      apply existsb_exists.
      exists (mk rs (itag it) (upd (ipt it) pos pred) (ibase it)). split; auto.
      apply In_parents. eauto.
    + apply In_combine_seq. rewrite Nat.sub_0_r. split; [lia|auto].
Qed.

Lemma roots_perm : Permutation (init_items rs) (closure_frontier (fun _ => true)).
Proof.
  apply NoDup_Permutation.
  - apply NoDup_init_items.
  - apply NoDup_filter. apply NoDup_all_preterminals.
  - intros it. rewrite In_init_items. unfold closure_frontier. rewrite filter_In.
    simpl. destruct (existsb _ _); simpl; intuition congruence.
Qed.

Theorem whole_run_okb pop :
  pop_ok_okb pop ->
  let s := fun n => run pop rs n (start rs) in
  (forall n, nonincreasing (rev (emitted (s n)))) /\
  (forall n e q, In e (emitted (s n)) -> In q (pending (s n)) ->
                 ple (iprob q) (iprob e) = true) /\
  (forall n, NoDup (emitted (s n) ++ pending (s n))) /\
  (forall n x, In x (emitted (s n) ++ pending (s n)) -> In x (all_preterminals rs)) /\
  (forall n, n <= total rs -> length (emitted (s n)) = n) /\
  Permutation (emitted (s (total rs))) (all_preterminals rs) /\
  pending (s (total rs)) = [].
Proof.
  intros Hpop.
  pose proof (closure_okb pop (fun _ => true) (init_items rs) Hpop
                all_down_closed all_adopter_closed roots_perm) as H.
  rewrite closure_set_all in H. exact H.
Qed.

(* T2 *)
Theorem C01_sorted_okb pop n :
  pop_ok_okb pop ->
  nonincreasing (rev (emitted (run pop rs n (start rs)))) /\
  (forall e q, In e (emitted (run pop rs n (start rs))) ->
               In q (pending (run pop rs n (start rs))) ->
               ple (iprob q) (iprob e) = true).
Proof.
  intros Hpop. destruct (whole_run_okb pop Hpop) as [Ha [Hb _]].
  split; [apply Ha|apply Hb].
Qed.

Theorem C01_sorted pop n :
  pop_ok pop ->
  nonincreasing (rev (emitted (run pop rs n (start rs)))) /\
  (forall e q, In e (emitted (run pop rs n (start rs))) ->
               In q (pending (run pop rs n (start rs))) ->
               ple (iprob q) (iprob e) = true).
Proof. intros Hpop. apply C01_sorted_okb. apply pop_ok_weaken; auto. Qed.

(* T3 *)
Theorem C01_prob_is_product_okb pop n it :
  pop_ok_okb pop ->
  In it (emitted (run pop rs n (start rs)) ++ pending (run pop rs n (start rs))) ->
  iprob it = find_prob rs (ipt it) (ibase it) /\ In it (all_preterminals rs).
Proof.
  intros Hpop Hin. destruct (whole_run_okb pop Hpop) as [_ [_ [_ [Hd _]]]].
  pose proof (Hd n it Hin) as Hall. split; auto.
  apply In_all_preterminals in Hall. destruct Hall as [b [_ [_ [_ [_ Hp]]]]]. exact Hp.
Qed.

Theorem C01_prob_is_product pop n it :
  pop_ok pop ->
  In it (emitted (run pop rs n (start rs)) ++ pending (run pop rs n (start rs))) ->
  iprob it = find_prob rs (ipt it) (ibase it) /\ In it (all_preterminals rs).
Proof. intros Hpop. apply C01_prob_is_product_okb. apply pop_ok_weaken; auto. Qed.

(* T4 *)
Theorem C02_exactly_once_okb pop :
  pop_ok_okb pop ->
  Permutation (emitted (run pop rs (total rs) (start rs))) (all_preterminals rs) /\
  pending (run pop rs (total rs) (start rs)) = [].
Proof.
  intros Hpop. destruct (whole_run_okb pop Hpop) as [_ [_ [_ [_ [_ H]]]]]. exact H.
Qed.

Theorem C02_exactly_once pop :
  pop_ok pop ->
  Permutation (emitted (run pop rs (total rs) (start rs))) (all_preterminals rs) /\
  pending (run pop rs (total rs) (start rs)) = [].
Proof. intros Hpop. apply C02_exactly_once_okb. apply pop_ok_weaken; auto. Qed.

Corollary C02_exactly_once_keys_okb pop :
  pop_ok_okb pop ->
  Permutation (map key (emitted (run pop rs (total rs) (start rs))))
              (map key (all_preterminals rs)).
Proof. intros Hpop. apply Permutation_map. apply C02_exactly_once_okb; auto. Qed.

Corollary C02_exactly_once_keys pop :
  pop_ok pop ->
  Permutation (map key (emitted (run pop rs (total rs) (start rs))))
              (map key (all_preterminals rs)).
Proof. intros Hpop. apply Permutation_map. apply C02_exactly_once; auto. Qed.

Theorem C02_no_early_exhaustion_okb pop n :
  pop_ok_okb pop -> n <= total rs ->
  length (emitted (run pop rs n (start rs))) = n.
Proof.
  intros Hpop. destruct (whole_run_okb pop Hpop) as [_ [_ [_ [_ [H _]]]]]. apply H.
Qed.

Theorem C02_no_early_exhaustion pop n :
  pop_ok pop -> n <= total rs ->
  length (emitted (run pop rs n (start rs))) = n.
Proof. intros Hpop. apply C02_no_early_exhaustion_okb. apply pop_ok_weaken; auto. Qed.

Theorem C02_frontier_nodup_okb pop n :
  pop_ok_okb pop ->
  NoDup (emitted (run pop rs n (start rs)) ++ pending (run pop rs n (start rs))).
Proof.
  intros Hpop. destruct (whole_run_okb pop Hpop) as [_ [_ [H _]]]. apply H.
Qed.

Theorem C02_frontier_nodup pop n :
  pop_ok pop ->
  NoDup (emitted (run pop rs n (start rs)) ++ pending (run pop rs n (start rs))).
Proof. intros Hpop. apply C02_frontier_nodup_okb. apply pop_ok_weaken; auto. Qed.

End WithWf.

End NextProofs.

(* ------------------------------------------------------------------ *)
(* T5 as literally stated is false: pop_ok quantifies over all queues, *)
(* including queues holding non-ok (NaN-like) probabilities, on which   *)
(* the palg laws say nothing.                                          *)
(* ------------------------------------------------------------------ *)

Definition nan_alg : palg.
Proof.
  refine {| P := bool; ple := andb; pmul := andb;
            okb := fun a => a; unitb := fun a => a |};
  intros; repeat match goal with b : bool |- _ => destruct b end;
  simpl in *; auto; discriminate.
Defined.

Theorem pop_first_max_not_pop_ok :
  exists A : palg, ~ pop_ok (@pop_first_max A).
Proof.
  exists nan_alg. intros [_ H].
  pose (x := @Build_item nan_alg 0 [] false false).
  destruct (H [x; x] x [x] eq_refl) as [_ Hf].
  inversion Hf; subst. discriminate.
Qed.

(* Instances for the queue the correspondence checks run. *)
Section PopFirstMax.
Context {A : palg}.
Variable rs : ruleset A.
Hypothesis Hwf : wf rs.

Theorem C01_sorted_pop_first_max n :
  nonincreasing (rev (emitted (run pop_first_max rs n (start rs)))).
Proof. apply C01_sorted_okb; auto. apply pop_first_max_ok_partial. Qed.

Theorem C02_exactly_once_pop_first_max :
  Permutation (emitted (run pop_first_max rs (total rs) (start rs))) (all_preterminals rs) /\
  pending (run pop_first_max rs (total rs) (start rs)) = [].
Proof. apply C02_exactly_once_okb; auto. apply pop_first_max_ok_partial. Qed.

End PopFirstMax.

Check @pop_first_max_ok_partial.
Check @find_prob_child_le.
Check @closure.
Check @closure_okb.
Check @closure_below.
Check @C01_sorted.
Check @C01_prob_is_product.
Check @C02_exactly_once.
Check @C02_exactly_once_keys.
Check @C02_no_early_exhaustion.
Check @C02_frontier_nodup.

Print Assumptions pop_first_max_ok_partial.
Print Assumptions find_prob_child_le.
Print Assumptions C01_sorted.
Print Assumptions C01_prob_is_product.
Print Assumptions C02_exactly_once.
Print Assumptions C02_exactly_once_keys.
Print Assumptions C02_no_early_exhaustion.
Print Assumptions C02_frontier_nodup.
Print Assumptions closure.
Print Assumptions closure_okb.
Print Assumptions closure_below.
Print Assumptions closure_below_okb.
Print Assumptions pop_first_max_not_pop_ok.
Print Assumptions C02_exactly_once_pop_first_max.
