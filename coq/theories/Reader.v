(* Reader.v - lib_trainer/trainer_file_input.TrainerFileInput.read_password over
   the decoded text of the training file: line splitting (what codecs readline
   splits on), rstrip of CR/LF only, optional count prefix (--prefixcount),
   $HEX[...] decoding, the re-encode (surrogate) check, check_valid with the
   rejected code points extracted from the source, yield n times, counters of
   valid passwords and of encoding errors.  Definitions only.

   Oracles (parameters): the probed code point classes (as in TextFile.v), the
   strict decoder of the training encoding [r_dec] (applied to the bytes of a
   $HEX payload) and the per-character encodability [r_encb]. *)
From Coq Require Import List NArith ZArith Bool.
From Pcfg Require Import TextFile.
Import ListNotations.
Open Scope N_scope.

Record rcfg := {
  r_lb : N -> bool;             (* line breaks of codecs readline / splitlines *)
  r_ws : N -> bool;             (* str.lstrip() *)
  r_iws : N -> bool;            (* int() *)
  r_dz : list N;                (* decimal digit zeros *)
  r_rej : list N;               (* code points check_valid rejects *)
  r_rej_empty : bool;           (* check_valid rejects the empty password *)
  r_dec : list N -> option str; (* bytes.decode(encoding), strict *)
  r_encb : N -> bool;           (* the encoding can encode this character *)
  r_prefix : bool;              (* --prefixcount *)
}.

(* ---------------------------------------------------------------- bytes.fromhex *)

Definition hexval (c : N) : option N :=
  if (48 <=? c) && (c <=? 57) then Some (c - 48)
  else if (97 <=? c) && (c <=? 102) then Some (c - 87)
  else if (65 <=? c) && (c <=? 70) then Some (c - 55)
  else None.

Definition is_ascii_space (c : N) : bool := memN c [32; 9; 10; 11; 12; 13].

(* ASCII white space is skipped between (not inside) pairs of hex digits *)
Fixpoint fromhex_go (s : str) : option (list N) :=
  match s with
  | [] => Some []
  | c :: r =>
      if is_ascii_space c then fromhex_go r
      else match hexval c, r with
           | Some hi, d :: r' =>
               match hexval d with
               | Some lo => option_map (cons (hi * 16 + lo)) (fromhex_go r')
               | None => None
               end
           | _, _ => None
           end
  end.

Definition fromhex (s : str) : option (list N) :=
  if existsb (fun c => 128 <=? c) s then None else fromhex_go s.

Definition hex_prefix : str := [36; 72; 69; 88; 91].      (* $HEX[ *)
Definition is_hex_shaped (s : str) : bool := starts_with hex_prefix s && ends_with [93] s.
Definition hex_payload (s : str) : str := removelast (skipn 5 s).   (* s[5:-1] *)

(* ---------------------------------------------------------------- check_valid *)

Definition is_nil {A} (l : list A) : bool := match l with [] => true | _ => false end.

Definition check_valid (rej : list N) (rej_empty : bool) (p : str) : bool :=
  negb (rej_empty && is_nil p) && forallb (fun c => negb (memN c rej)) p.

(* ---------------------------------------------------------------- one line *)

Inductive lres :=
| Yield (p : str) (n : Z)     (* a valid password, n times *)
| SkipErr (n : Z)             (* skipped, num_encoding_errors += n *)
| Skip.                       (* skipped silently *)

(* --prefixcount: n = int(clean.lstrip().split(' ')[0]);
   clean = ' '.join(clean.lstrip().split(' ')[1:]) *)
Definition take_count (C : rcfg) (clean : str) : option (Z * str) :=
  if r_prefix C then
    let parts := split_on SP (lstrip (r_ws C) clean) in
    match parse_int (r_iws C) (r_dz C) (hd [] parts) with
    | Some n => Some (n, join SP (tl parts))
    | None => None
    end
  else Some (1%Z, clean).

Definition unhex (C : rcfg) (c1 : str) : option str :=
  if is_hex_shaped c1 then
    match fromhex (hex_payload c1) with
    | Some b => r_dec C b
    | None => None
    end
  else Some c1.

Definition read_line (C : rcfg) (line : str) : lres :=
  match take_count C (rstrip is_crlf line) with
  | None => Skip
  | Some (n, c1) =>
      match unhex C c1 with
      | None => SkipErr n
      | Some c2 =>
          if negb (forallb (r_encb C) c2) then SkipErr n
          else if check_valid (r_rej C) (r_rej_empty C) c2 then Yield c2 n
          else Skip
      end
  end.

(* ---------------------------------------------------------------- the whole file *)

Record rout := { out : list str; npw : Z; nerr : Z }.

Fixpoint read_lines (C : rcfg) (lines : list str) : rout :=
  match lines with
  | [] => {| out := []; npw := 0; nerr := 0 |}
  | l :: r =>
      let o := read_lines C r in
      match read_line C l with
      | Yield p n => {| out := repeat p (Z.to_nat n) ++ out o; npw := n + npw o; nerr := nerr o |}
      | SkipErr n => {| out := out o; npw := npw o; nerr := n + nerr o |}
      | Skip => o
      end
  end.

Definition read_text (C : rcfg) (text : str) : rout := read_lines C (lines_keep (r_lb C) text).

(* ---------------------------------------------------------------- the three line forms *)

Definition hexdigit (n : N) : N := if n <? 10 then 48 + n else 87 + n.
Definition hex_of_bytes (b : list N) : str := flat_map (fun x => [hexdigit (x / 16); hexdigit (x mod 16)]) b.

Definition plain_line (p : str) : str := p ++ [LF].
Definition hex_line (enc : str -> list N) (p : str) : str := hex_prefix ++ hex_of_bytes (enc p) ++ [93; LF].
(* [ds]: the digits of the count, [pad]: leading blanks *)
Definition count_line (pad ds payload : str) : str := pad ++ ds ++ SP :: payload.
