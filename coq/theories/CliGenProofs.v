(* gen/Cli_gen.v (the translation of pcfg_guesser.py, rewritten on every run by
   harness/translate_cli.py) equals the hand-written model of CliModel.v, for every argv,
   every save file and every answer of the collaborators. *)
From Coq Require Import List NArith ZArith Bool String Lia.
From Pcfg Require Import Str CliModel CliModelProofs CliRt.
From PcfgGen Require Import Cli_gen.
Import ListNotations.

(* parser.parse_args() of the guesser's parser *)
Lemma ap_parse_args_guesser : forall (R : Type) E w,
  @ap_parse_args R E guesser_parser w =
  match m_options (e_int_of E) (e_argv E) with
  | None => (Exc SystemExit, w)
  | Some o => (Norm (ns_of_options o), w)
  end.
Proof.
  intros R E w. unfold ap_parse_args. rewrite m_options_ns.
  destruct (m_options (e_int_of E) (e_argv E)); reflexivity.
Qed.

(* parse_command_line, called on the program_info of main *)
Theorem parse_command_line_eq : forall E log,
  py_parse_command_line E {| w_pi := py_main_program_info; w_log := log |} =
  match m_parse (e_int_of E) (e_argv E) with
  | None => (Exc SystemExit, {| w_pi := py_main_program_info; w_log := log |})
  | Some (b, o) => (Retn (VBool b), {| w_pi := pi_store_options o py_main_program_info; w_log := log |})
  end.
Proof.
  intros E log. unfold py_parse_command_line.
  cbv beta iota zeta delta -[ap_parse_args m_options m_parse pi_store_options e_int_of e_argv Z.eqb Z.leb].
  match goal with |- context [ap_parse_args ?E' ?p ?w] => change p with guesser_parser end.
  rewrite ap_parse_args_guesser. unfold m_parse.
  destruct (m_options (e_int_of E) (e_argv E)) as [o|]; [|reflexivity].
  destruct o as [r s l [[|p|p]|] sb sc d m]; cbv; reflexivity.
Qed.

(* ---------------------------------------------------------------- symbolic execution *)

(* case analysis on an innermost stuck scrutinee *)
Ltac case_scrut :=
  match goal with
  | |- context [match ?x with _ => _ end] =>
    lazymatch x with
    | context [match _ with _ => _ end] => fail
    | _ => destruct x eqn:?
    end
  end.

Ltac norm_cfg := cbv beta iota zeta delta -[cfg_lookup boolean_of d_set].
Ltac finish := first [reflexivity | split; reflexivity].

(* ---------------------------------------------------------------- load_save *)

Definition load_spec (r : load_result) (w : world) (out : ctl pyval pyval * world) : Prop :=
  match r with
  | LFail => out = (Retn VNone, w)
  | LCrash e => fst out = Exc e /\ w_log (snd out) = w_log w
  | LOk c rule sb sc => out = (Retn (VCfg c), {| w_pi := pi_store_saved rule sb sc (w_pi w); w_log := w_log w |})
  end.

Theorem load_save_eq : forall E name w,
  load_spec (m_load_save (e_fs E name)) w (py_load_save E (VStr name) w).
Proof.
  intros [argv int_of now fs sd pj gr] name [pi log]. unfold py_load_save, m_load_save, load_spec.
  norm_cfg. destruct (fs name) as [| |c]; [reflexivity|reflexivity|].
  repeat (norm_cfg; first [finish | case_scrut]).
Qed.

(* ---------------------------------------------------------------- create_save_config *)

Theorem create_save_config_eq : forall E w rule sb sc,
  d_get (lit "rule_name") (w_pi w) = Some (VStr rule) ->
  d_get (lit "skip_brute") (w_pi w) = Some (VBool sb) ->
  d_get (lit "skip_case") (w_pi w) = Some (VBool sc) ->
  py_create_save_config E w = (Retn (VCfg (m_create_save_config (e_now E) rule sb sc)), w).
Proof.
  intros [argv int_of now fs sd pj gr] [pi log] rule sb sc H1 H2 H3. unfold py_create_save_config.
  cbv -[d_get] in H1, H2, H3.
  repeat (cbv -[d_get]; first [rewrite H1 | rewrite H2 | rewrite H3]).
  destruct sb; destruct sc; reflexivity.
Qed.

(* ---------------------------------------------------------------- main *)

(* program_info['version'] as main() creates it *)
Definition gen_version : pyval :=
  match d_get (lit "version") py_main_program_info with Some v => v | None => VNone end.

Theorem main_eq : forall E, run_main (py_main E) world0 = m_main E gen_version.
Proof.
  intros E. unfold run_main, py_main, m_main, world0.
  cbv beta iota zeta delta -[py_parse_command_line py_main_program_info m_parse e_int_of e_argv str_eqb str_app cfg_lookup boolean_of].
  rewrite parse_command_line_eq.
  destruct (m_parse (e_int_of E) (e_argv E)) as [[b o]|]; [|reflexivity].
  destruct b; [|reflexivity].
  destruct E as [argv int_of now fs sd pj gr]. destruct o as [r s l lim sb sc d m].
  repeat (cbv -[str_eqb str_app cfg_lookup boolean_of]; first [reflexivity | discriminate | case_scrut]).
Qed.

(* ---------------------------------------------------------------- the theorems of CliModelProofs over the translated main *)

Notation run_py_main E := (run_main (py_main E) world0).

Theorem source_load_uses_saved : forall E o c rule sb sc e log,
  m_parse (e_int_of E) (e_argv E) = Some (true, o) -> resumes o = true ->
  m_load_save (e_fs E (save_name E o)) = LOk c rule sb sc ->
  run_py_main E = (e, log) ->
  exists g rest, log = EGrammar g :: rest /\ no_grammar rest /\
    gc_rule_name g = VStr rule /\ gc_skip_brute g = VBool sb /\ gc_skip_case g = VBool sc /\
    gc_base_directory g = VStr (e_pjoin E [e_script_dir E; lit "Rules"; rule]) /\
    gc_save_file g = VStr (save_name E o).
Proof. intros E o c rule sb sc e log Hp Hr Hl H. rewrite main_eq in H. eapply main_load_uses_saved; eauto. Qed.

Theorem source_load_failure : forall E o,
  m_parse (e_int_of E) (e_argv E) = Some (true, o) -> resumes o = true ->
  match m_load_save (e_fs E (save_name E o)) with
  | LFail => run_py_main E = (MDone, [])
  | LCrash e => run_py_main E = (MRaise e, [])
  | LOk _ _ _ _ => True
  end.
Proof. intros E o Hp Hr. rewrite main_eq. apply main_load_failure; auto. Qed.

Theorem source_uses_typed : forall E o e log,
  m_parse (e_int_of E) (e_argv E) = Some (true, o) -> resumes o = false ->
  run_py_main E = (e, log) ->
  exists g rest, log = EGrammar g :: rest /\ no_grammar rest /\
    gc_rule_name g = VStr (o_rule o) /\ gc_skip_brute g = VBool (o_skip_brute o) /\
    gc_skip_case g = VBool (o_skip_case o) /\ gc_debug g = VBool (o_debug o) /\
    gc_save_file g = VStr (save_name E o).
Proof. intros E o e log Hp Hr H. rewrite main_eq in H. eapply main_uses_typed; eauto. Qed.

Theorem source_session_arguments : forall E o e log,
  m_parse (e_int_of E) (e_argv E) = Some (true, o) -> run_py_main E = (e, log) ->
  Forall (fun ev => match ev with
                    | ECrackRun s ld lim =>
                      ld = VBool (o_load o) /\ lim = v_limit (o_limit o) /\
                      cs_save_filename s = VStr (save_name E o) /\ In (EGrammar (g_call (cs_pcfg s))) log
                    | EHoneyRun s lim =>
                      lim = v_limit (o_limit o) /\ hs_mode s = VStr (o_mode o) /\ In (EGrammar (g_call (hs_pcfg s))) log
                    | _ => True
                    end) log.
Proof. intros E o e log Hp H. rewrite main_eq in H. eapply main_session_arguments; eauto. Qed.

Theorem source_refused : forall E,
  match m_parse (e_int_of E) (e_argv E) with
  | None => run_py_main E = (MRaise SystemExit, [])
  | Some (false, _) => run_py_main E = (MDone, [])
  | Some (true, _) => True
  end.
Proof. intros E. rewrite main_eq. apply main_refused. Qed.

Theorem source_no_stdout : forall E, ~ In EStdout (snd (run_py_main E)).
Proof. intros E. rewrite main_eq. apply main_no_stdout. Qed.

Theorem source_uuid : forall E o c rule sb sc e log u,
  m_parse (e_int_of E) (e_argv E) = Some (true, o) -> resumes o = true ->
  m_load_save (e_fs E (save_name E o)) = LOk c rule sb sc ->
  cfg_lookup k_rule_info (lit "uuid") c = Some u ->
  run_py_main E = (e, log) ->
  exists g, log = EGrammar g :: match e_grammar E g with
                               | None => []
                               | Some u' =>
                                 if py_eqb (VStr u) u' then
                                   [ECrackRun {| cs_pcfg := {| g_call := g; g_uuid := u' |}; cs_save_config := VCfg c;
                                                 cs_save_filename := VStr (save_name E o) |} (VBool true) (v_limit (o_limit o))]
                                 else []
                               end.
Proof. intros E o c rule sb sc e log u Hp Hr Hl Hu H. rewrite main_eq in H. eapply main_uuid; eauto. Qed.

(* (2) round trip over the translated functions: what create_save_config builds, completed by main's
   uuid, the session's last_updated and anything under guessing_info, is loaded by load_save with
   exactly the saved rule name and flags, into whatever program_info the resuming run has *)
Theorem source_save_load_round_trip : forall E w rule sb sc,
  d_get (lit "rule_name") (w_pi w) = Some (VStr rule) ->
  d_get (lit "skip_brute") (w_pi w) = Some (VBool sb) ->
  d_get (lit "skip_case") (w_pi w) = Some (VBool sc) ->
  exists cfg0, py_create_save_config E w = (Retn (VCfg cfg0), w) /\
    forall E' name uuid stamp guessing w',
      let saved := set_guessing guessing (cfg_set_in k_session_info (lit "last_updated") stamp
                                            (cfg_set_in k_rule_info (lit "uuid") uuid cfg0)) in
      e_fs E' name = FCfg saved ->
      py_load_save E' (VStr name) w' =
      (Retn (VCfg saved), {| w_pi := pi_store_saved rule sb sc (w_pi w'); w_log := w_log w' |}).
Proof.
  intros E w rule sb sc H1 H2 H3. exists (m_create_save_config (e_now E) rule sb sc). split.
  - apply create_save_config_eq; assumption.
  - intros E' name uuid stamp guessing w' saved Hfs.
    pose proof (load_save_eq E' name w') as L. rewrite Hfs in L. unfold saved in L.
    rewrite session_file_round_trip in L. exact L.
Qed.

(* non-vacuity: `--load --skip_brute -n 5 -s s1` on a session saved with rule R, skip_brute False,
   all_lower True: the grammar is built for R with skip_brute False, skip_case True, and the session
   runs with load_session True and limit 5 *)
Definition ex_saved : config :=
  cfg_set_in k_session_info (lit "last_updated") (lit "t1")
    (cfg_set_in k_rule_info (lit "uuid") (lit "u-1") (m_create_save_config (lit "t0") (lit "R") false true)).
Definition ex_env : env :=
  {| e_argv := [lit "--load"; lit "--skip_brute"; lit "-n"; lit "5"; lit "-s"; lit "s1"];
     e_int_of := int_ascii; e_now := lit "t2";
     e_fs := fun n => if str_eqb n (lit "/x/s1.sav") then FCfg ex_saved else FMissing;
     e_script_dir := lit "/x";
     e_pjoin := fun l => match l with a :: r => fold_left (fun acc b => acc ++ lit "/" ++ b) r a | [] => [] end;
     e_grammar := fun _ => Some (VStr (lit "u-1")) |}.

Example ex_resume_run :
  run_py_main ex_env =
  (MDone,
   let g := {| gc_rule_name := VStr (lit "R"); gc_base_directory := VStr (lit "/x/Rules/R"); gc_version := gen_version;
               gc_save_file := VStr (lit "/x/s1.sav"); gc_skip_brute := VBool false; gc_skip_case := VBool true;
               gc_debug := VBool false |} in
   [EGrammar g;
    ECrackRun {| cs_pcfg := {| g_call := g; g_uuid := VStr (lit "u-1") |}; cs_save_config := VCfg ex_saved;
                 cs_save_filename := VStr (lit "/x/s1.sav") |} (VBool true) (VInt 5)]).
Proof. vm_compute. reflexivity. Qed.

Example ex_hypotheses :
  m_parse (e_int_of ex_env) (e_argv ex_env) =
    Some (true, {| o_rule := lit "Default"; o_session := lit "s1"; o_load := true; o_limit := Some 5%Z;
                   o_skip_brute := true; o_skip_case := false; o_debug := false; o_mode := mode_tpo |}) /\
  m_load_save (e_fs ex_env (lit "/x/s1.sav")) = LOk ex_saved (lit "R") false true.
Proof. split; vm_compute; reflexivity. Qed.
