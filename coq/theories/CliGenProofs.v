(* gen/Cli_gen.v (the translation of pcfg_guesser.py, rewritten on every run by
   harness/translate_cli.py) equals the hand-written model of CliModel.v, for every argv,
   every save file and every answer of the collaborators. *)
From Coq Require Import List NArith ZArith Bool String Lia.
From Pcfg Require Import Str CliModel CliModelProofs CliRt.
From PcfgGen Require Import Cli_gen.
Import ListNotations.

(* parser.parse_args() of the guesser's parser *)
Lemma ap_parse_args_guesser : forall (R : Type) E w,
  @ap_parse_args R E guesser_parser w =
  match m_options (e_int_of E) (e_argv E) with
  | None => (Exc SystemExit, w)
  | Some o => (Norm (ns_of_options o), w)
  end.
Proof.
  intros R E w. unfold ap_parse_args. rewrite m_options_ns.
  destruct (m_options (e_int_of E) (e_argv E)); reflexivity.
Qed.

(* parse_command_line, called on the program_info of main *)
Theorem parse_command_line_eq : forall E log,
  py_parse_command_line E {| w_pi := py_main_program_info; w_log := log |} =
  match m_parse (e_int_of E) (e_argv E) with
  | None => (Exc SystemExit, {| w_pi := py_main_program_info; w_log := log |})
  | Some (b, o) => (Retn (VBool b), {| w_pi := pi_store_options o py_main_program_info; w_log := log |})
  end.
Proof.
  intros E log. unfold py_parse_command_line.
  cbv beta iota zeta delta -[ap_parse_args m_options m_parse pi_store_options e_int_of e_argv Z.eqb Z.leb].
  match goal with |- context [ap_parse_args ?E' ?p ?w] => change p with guesser_parser end.
  rewrite ap_parse_args_guesser. unfold m_parse.
  destruct (m_options (e_int_of E) (e_argv E)) as [o|]; [|reflexivity].
  destruct o as [r s l [[|p|p]|] sb sc d m]; cbv; reflexivity.
Qed.

(* ---------------------------------------------------------------- symbolic execution *)

(* case analysis on an innermost stuck scrutinee *)
Ltac case_scrut :=
  match goal with
  | |- context [match ?x with _ => _ end] =>
    lazymatch x with
    | context [match _ with _ => _ end] => fail
    | _ => destruct x eqn:?
    end
  end.

Ltac norm_cfg := cbv beta iota zeta delta -[cfg_lookup boolean_of d_set].
Ltac finish := first [reflexivity | split; reflexivity].

(* ---------------------------------------------------------------- load_save *)

Definition load_spec (r : load_result) (w : world) (out : ctl pyval pyval * world) : Prop :=
  match r with
  | LFail => out = (Retn VNone, w)
  | LCrash e => fst out = Exc e /\ w_log (snd out) = w_log w
  | LOk c rule sb sc => out = (Retn (VCfg c), {| w_pi := pi_store_saved rule sb sc (w_pi w); w_log := w_log w |})
  end.

Theorem load_save_eq : forall E name w,
  load_spec (m_load_save (e_fs E name)) w (py_load_save E (VStr name) w).
Proof.
  intros [argv int_of now fs sd pj gr] name [pi log]. unfold py_load_save, m_load_save, load_spec.
  norm_cfg. destruct (fs name) as [| |c]; [reflexivity|reflexivity|].
  repeat (norm_cfg; first [finish | case_scrut]).
Qed.

(* ---------------------------------------------------------------- create_save_config *)

Theorem create_save_config_eq : forall E w rule sb sc,
  d_get (lit "rule_name") (w_pi w) = Some (VStr rule) ->
  d_get (lit "skip_brute") (w_pi w) = Some (VBool sb) ->
  d_get (lit "skip_case") (w_pi w) = Some (VBool sc) ->
  py_create_save_config E w = (Retn (VCfg (m_create_save_config (e_now E) rule sb sc)), w).
Proof.
  intros [argv int_of now fs sd pj gr] [pi log] rule sb sc H1 H2 H3. unfold py_create_save_config.
  cbv -[d_get] in H1, H2, H3.
  repeat (cbv -[d_get]; first [rewrite H1 | rewrite H2 | rewrite H3]).
  destruct sb; destruct sc; reflexivity.
Qed.

(* ---------------------------------------------------------------- main *)

(* program_info['version'] as main() creates it *)
Definition gen_version : pyval :=
  match d_get (lit "version") py_main_program_info with Some v => v | None => VNone end.

Theorem main_eq : forall E, run_main (py_main E) world0 = m_main E gen_version.
Proof.
  intros E. unfold run_main, py_main, m_main, world0.
  cbv beta iota zeta delta -[py_parse_command_line py_main_program_info m_parse e_int_of e_argv str_eqb str_app cfg_lookup boolean_of].
  rewrite parse_command_line_eq.
  destruct (m_parse (e_int_of E) (e_argv E)) as [[b o]|]; [|reflexivity].
  destruct b; [|reflexivity].
  destruct E as [argv int_of now fs sd pj gr]. destruct o as [r s l lim sb sc d m].
  repeat (cbv -[str_eqb str_app cfg_lookup boolean_of]; first [reflexivity | discriminate | case_scrut]).
Qed.
