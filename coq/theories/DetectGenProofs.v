(* The generated detectors (gen/Detect_gen.v: the translation of the Python text
   of detect_digits / digit_detection, other_detection, detect_year /
   year_detection, detect_context_sensitive / context_sensitive_detection,
   detect_alpha / alpha_detection and PCFGPasswordParser.parse, redone on every
   run) equal the hand-written models of Detect.v / Segment.v that the theorems
   of C05 are about, on all strings and section lists, for the per-character
   oracles (isalpha, isdigit, isupper, lower_c) and multiword_detector.parse any
   functions.

   These proofs are meant to break when one of the Python functions changes its
   meaning: the body lemmas compare the translated loop bodies with the bodies
   of the model, comparison by comparison. *)
From Coq Require Import List ZArith NArith Bool Lia.
From Pcfg Require Import Str Multiword Detect Segment DetectRt DetectProofsStr DetectProofsDrive DetectProofsSimple.
From PcfgGen Require Import Consts_gen Detect_gen.
Import ListNotations.
Open Scope Z_scope.

(* ------------------------------------------------------------------ *)
(* a detect_* result as the model's dres                               *)
(* ------------------------------------------------------------------ *)

(* what a generated detect_* function returns for a result of the model *)
Definition py_of_dres {F : Type} (sec : section) (d : dres F) : option (pv * option F) :=
  match d with
  | DErr => None
  | DNo => Some (PSec sec, None)
  | DYes p f => Some (PList p, Some f)
  end.

(* the model's result for what a generated detect_* function returns, as its
   caller reads it: `if found:` (year, context) *)
Definition dres_if_truthy {X : Type} (r : option (pv * option (list X))) : dres (list X) :=
  match r with
  | None => DErr
  | Some (p, None) => DNo
  | Some (p, Some f) =>
      if nonempty f then match p with PList l => DYes l f | PSec _ => DErr end else DNo
  end.

(* case analysis on the conditions of the `if`s of a goal, innermost boolean
   atom first, computing the runtime combinators in between *)
Ltac bool_atom c k :=
  lazymatch c with
  | negb ?a => bool_atom a k
  | andb ?a _ => bool_atom a k
  | orb ?a _ => bool_atom a k
  | _ => k c
  end.
Ltac rt_step :=
  unfold sub_s, sub_l, call, hash_one, dres_if_truthy;
  cbn [negb orb andb bind run append extend app fst snd pv_list truthy is_none nonempty].
Ltac head_of t := lazymatch t with ?f _ => head_of f | _ => t end.
Ltac case_ifs :=
  repeat (rt_step;
          match goal with
          | |- context [if ?c then _ else _] => bool_atom c ltac:(fun a => destruct a eqn:?)
          | |- context [match getc ?s ?i with _ => _ end] => destruct (getc s i) eqn:?
          (* the result of an oracle (a variable) *)
          | |- context [match ?o with Some _ => _ | None => _ end] =>
              let h := head_of o in is_var h; destruct o eqn:?
          | |- context [match ?v with (_, _) => _ end] => is_var v; destruct v
          end);
  rt_step; try reflexivity; try congruence.

(* ------------------------------------------------------------------ *)
(* the runtime: Python list operations at the position after a prefix  *)
(* ------------------------------------------------------------------ *)
Section ListOps.
Context {X : Type}.

Lemma llen_app (a b : list X) : llen (a ++ b) = llen a + llen b.
Proof. unfold llen. rewrite app_length. lia. Qed.
Lemma llen_nonneg (a : list X) : 0 <= llen a.
Proof. unfold llen. lia. Qed.
Lemma llen_cons x (a : list X) : llen (x :: a) = 1 + llen a.
Proof. unfold llen. simpl length. lia. Qed.

Lemma skipn_mid (a : list X) x b : skipn (S (length a)) (a ++ x :: b) = b.
Proof. induction a as [|y a IH]; [reflexivity|exact IH]. Qed.
Lemma firstn_mid (a b : list X) : firstn (length a) (a ++ b) = a.
Proof. rewrite firstn_app, firstn_all, Nat.sub_diag. simpl. now rewrite app_nil_r. Qed.

Lemma lget_mid (a : list X) x b : lget (a ++ x :: b) (llen a) = Some x.
Proof.
  unfold lget. fold (llen (a ++ x :: b)). rewrite llen_app, llen_cons.
  pose proof (llen_nonneg a). pose proof (llen_nonneg b).
  destruct (llen a <? 0) eqn:E; [apply Z.ltb_lt in E; lia|].
  replace ((llen a <? 0) || (llen a + (1 + llen b) <=? llen a)) with false.
  - unfold llen. rewrite Nat2Z.id. rewrite nth_error_app2 by lia. now rewrite Nat.sub_diag.
  - symmetry. apply orb_false_iff. split; [assumption|]. apply Z.leb_gt. lia.
Qed.

Lemma lget_end (a : list X) : lget a (llen a) = None.
Proof.
  unfold lget. fold (llen a). pose proof (llen_nonneg a).
  destruct (llen a <? 0) eqn:E; [apply Z.ltb_lt in E; lia|].
  replace (llen a <=? llen a) with true by (symmetry; apply Z.leb_le; lia). now rewrite orb_true_r.
Qed.

Lemma ldel_mid (a : list X) x b : ldel (a ++ x :: b) (llen a) = Some (a ++ b).
Proof.
  unfold ldel. rewrite llen_app, llen_cons.
  pose proof (llen_nonneg a). pose proof (llen_nonneg b).
  destruct (llen a <? 0) eqn:E; [apply Z.ltb_lt in E; lia|].
  replace ((llen a <? 0) || (llen a + (1 + llen b) <=? llen a)) with false.
  - unfold llen. rewrite Nat2Z.id. f_equal. f_equal.
    + apply firstn_mid.
    + apply skipn_mid.
  - symmetry. apply orb_false_iff. split; [assumption|]. apply Z.leb_gt. lia.
Qed.

Lemma lset_mid (a : list X) x y b : lset (a ++ x :: b) (llen a) y = Some (a ++ y :: b).
Proof.
  unfold lset. rewrite llen_app, llen_cons.
  pose proof (llen_nonneg a). pose proof (llen_nonneg b).
  destruct (llen a <? 0) eqn:E; [apply Z.ltb_lt in E; lia|].
  replace ((llen a <? 0) || (llen a + (1 + llen b) <=? llen a)) with false.
  - unfold llen. rewrite Nat2Z.id. f_equal. f_equal.
    + apply firstn_mid.
    + f_equal. apply skipn_mid.
  - symmetry. apply orb_false_iff. split; [assumption|]. apply Z.leb_gt. lia.
Qed.

(* l[i:i] = p *)
Lemma lins_mid (a b p : list X) : lins (a ++ b) (llen a) (llen a) p = a ++ p ++ b.
Proof.
  unfold lins. rewrite llen_app.
  pose proof (llen_nonneg a). pose proof (llen_nonneg b).
  rewrite clip_id by lia. rewrite Z.max_id.
  unfold llen. rewrite Nat2Z.id.
  rewrite firstn_app, firstn_all, Nat.sub_diag. simpl firstn. rewrite app_nil_r.
  rewrite skipn_app, skipn_all, Nat.sub_diag. reflexivity.
Qed.

Lemma index_in_range (a b : list X) : (llen a <? llen (a ++ b)) = nonempty b.
Proof.
  rewrite llen_app. pose proof (llen_nonneg b). destruct b as [|x b]; simpl nonempty.
  - apply Z.ltb_ge. unfold llen. simpl. lia.
  - apply Z.ltb_lt. rewrite llen_cons. pose proof (llen_nonneg b). lia.
Qed.

End ListOps.

(* ------------------------------------------------------------------ *)
(* the loop `for pos, value in enumerate(working_string)` shared by       *)
(* detect_digits and detect_alpha, against Detect.run_scan                *)
(* ------------------------------------------------------------------ *)
Section RunLoop.
Variable p : N -> bool.
Variable ws : str.
Context {R L' : Type}.
Notation St := (bool * Z * list section)%type.
Variable body : Z -> N -> St -> ctl R St St.
(* what the function returns when the run [start, end] is complete (None: it raises) *)
Variable ret : Z -> Z -> option R.
Definition fin {L0 S0 : Type} (o : option R) : ctl R L0 S0 := match o with Some r => Return r | None => Raise end.
(* the loop body while no section has been appended: the run bookkeeping of
   run_scan; it returns exactly when run_scan finds the end of the run *)
Hypothesis body_spec : forall pos value is_run start_pos,
  body pos value (is_run, start_pos, []) =
    let a := p value in
    let is_run' := if a then true else is_run in
    let start' := if a && negb is_run then pos else start_pos in
    if (negb a || (pos =? len ws - 1)) && is_run' then fin (ret start' (if a then pos else pos - 1))
    else Next (is_run', start', []).

Lemma run_loop_sim : forall rest pos is_run start_pos,
  match run_scan p rest pos (len ws) is_run start_pos with
  | Some (a, b) => for_from (L' := L') pos rest (is_run, start_pos, []) body = fin (ret a b)
  | None => exists st, for_from (L' := L') pos rest (is_run, start_pos, []) body = Next st
  end.
Proof.
  induction rest as [|v r IH]; intros pos is_run start_pos; cbn [run_scan for_from].
  - now eexists.
  - rewrite body_spec. cbv zeta.
    destruct ((negb (p v) || (pos =? len ws - 1)) && (if p v then true else is_run)); [|apply IH].
    unfold fin. now destruct (ret _ _).
Qed.

End RunLoop.

(* ------------------------------------------------------------------ *)
(* detect_digits                                                       *)
(* ------------------------------------------------------------------ *)
Section Digits.
Variable isdigit : N -> bool.

Theorem py_detect_digits_eq (sec : section) :
  py_detect_digits isdigit sec = py_of_dres sec (detect_digits isdigit (fst sec)).
Proof.
  unfold py_detect_digits, detect_digits, first_run, for_enum. cbv zeta.
  match goal with |- context [for_from 0 (fst sec) _ ?b] => set (body := b) end.
  pose proof (run_loop_sim isdigit (fst sec) (L' := Empty_set) body
    (fun start_pos end_pos =>
       let s := fst sec in
       let pre := if start_pos =? 0 then [] else [(slice s 0 start_pos, None)] in
       let found := slice s start_pos (end_pos + 1) in
       let post := if end_pos =? len s - 1 then [] else [(sfrom s (end_pos + 1), None)] in
       Some (PList (pre ++ (found, Some (LD (len found))) :: post), Some found))) as H.
  match type of H with ?A -> _ => assert (Hb : A) end.
  { clear H. intros pos value is_run start_pos. subst body. cbv beta zeta.
    unfold fin. destruct (isdigit value), is_run; case_ifs. }
  specialize (H Hb (fst sec) 0 false (-1)).
  destruct (run_scan isdigit (fst sec) 0 (len (fst sec)) false (-1)) as [[a b]|].
  - rewrite H. reflexivity.
  - destruct H as (st & ->). destruct st as [[? ?] ?]. reflexivity.
Qed.

End Digits.

(* ------------------------------------------------------------------ *)
(* detect_context_sensitive                                            *)
(* ------------------------------------------------------------------ *)
Section Context.
Variable isdigit : N -> bool.

Theorem py_detect_context_sensitive_eq (sec : section) :
  dres_if_truthy (py_detect_context_sensitive isdigit sec) = detect_context isdigit context_strings (fst sec).
Proof.
  unfold py_detect_context_sensitive, for_each. cbv zeta.
  match goal with |- context [for_from 0 ?l _ ?b] => set (body := b); change l with context_strings end.
  generalize context_strings as rs, 0 as pos.
  induction rs as [|r rs IH]; intros pos; cbn [for_from detect_context]; [reflexivity|].
  unfold body at 1. cbv beta zeta.
  case_ifs; apply IH.
Qed.

End Context.

(* ------------------------------------------------------------------ *)
(* detect_year                                                         *)
(* ------------------------------------------------------------------ *)
Section Year.
Variable isdigit : N -> bool.

Theorem py_detect_year_eq (sec : section) :
  dres_if_truthy (py_detect_year isdigit sec) = detect_year isdigit year_prefixes (fst sec).
Proof.
  unfold py_detect_year, for_each. cbv zeta.
  match goal with |- context [for_from 0 ?l _ ?b] => set (body := b); change l with year_prefixes end.
  generalize year_prefixes as ps, 0 as pos.
  induction ps as [|prefix ps IH]; intros pos; cbn [for_from detect_year]; [reflexivity|].
  unfold body at 1. cbv beta.
  match goal with |- context [while_ _ _ ?wc ?wb] => set (wcond := wc); set (wbody := wb) end.
  (* the `while True` loop for one prefix, against Detect.year_loop, for every fuel *)
  pose (sim := fun (c : ctl (pv * option str) (list section) (Z * list section)) (m : option (option Z)) =>
    match m with
    | None => c = Raise
    | Some None => exists start', c = Next (start', [])
    | Some (Some i) =>
        c = Return (PList ((if i =? 0 then [] else [(slice (fst sec) 0 i, None)]) ++
                           (slice (fst sec) i (i + 4), Some LY) ::
                           (if i + 4 <? len (fst sec) then [(sfrom (fst sec) (i + 4), None)] else [])),
                    Some (slice (fst sec) i (i + 4)))
    end).
  assert (W : forall fuel start,
    sim (while_ fuel (start, []) wcond wbody) (year_loop isdigit fuel (fst sec) prefix start)).
  { induction fuel as [|f IHf]; intros start; cbn [while_ year_loop]; [reflexivity|].
    unfold wcond at 1. unfold wbody at 1. unfold sim. cbv beta zeta.
    case_ifs; try apply IHf; try (now eexists). }
  specialize (W (S (S (length (fst sec)))) 0). unfold sim in W.
  destruct (year_loop isdigit (S (S (length (fst sec)))) (fst sec) prefix 0) as [[i|]|].
  - rewrite W. case_ifs.
  - destruct W as (start' & ->). rt_step. apply IH.
  - rewrite W. reflexivity.
Qed.

End Year.

(* ------------------------------------------------------------------ *)
(* detect_alpha                                                        *)
(* ------------------------------------------------------------------ *)

(* the model's result for what the generated detect_alpha returns, as
   alpha_detection reads it: `if alphas:`, then both lists are used *)
Definition dres_alpha (r : option (pv * option (list str) * option (list str))) : dres (list str * list str) :=
  match r with
  | None => DErr
  | Some (p, None, _) => DNo
  | Some (p, Some ws, ms) =>
      if nonempty ws then match p, ms with PList l, Some m => DYes l (ws, m) | _, _ => DErr end else DNo
  end.

Section Alpha.
Variables isalpha isupper : N -> bool.
Variable lower_c : N -> str.
Variable mwparse : str -> option (bool * list str).

(* ''.join(c.lower() if len(c.lower()) == 1 else c for c in s) *)
Lemma join_lower1 (s : str) :
  flat_map (fun c => if len (lower_c c) =? 1 then lower_c c else [c]) s = map (lower1 lower_c) s.
Proof.
  induction s as [|c s IH]; [reflexivity|]. cbn [flat_map map]. rewrite IH. unfold lower1.
  destruct (lower_c c) as [|x [|y l]]; try reflexivity.
  replace (len (x :: y :: l) =? 1) with false; [reflexivity|].
  symmetry. apply Z.eqb_neq. unfold len. cbn [length]. lia.
Qed.

(* for letter in piece: mask += 'U' / 'L' *)
Lemma mask_loop_sim {R L' : Type} (mb : Z -> N -> str -> ctl R str str) :
  (forall pos letter mask, mb pos letter mask = Next (mask ++ [if isupper letter then chU else chL])) ->
  forall piece pos mask,
  for_from (L' := L') pos piece mask mb = Next (mask ++ case_mask isupper piece).
Proof.
  intros H. induction piece as [|c r IH]; intros pos mask; cbn [for_from case_mask map].
  - now rewrite app_nil_r.
  - rewrite H, IH, <- app_assoc. reflexivity.
Qed.

(* for word in word_list: one section and one mask per word *)
Lemma words_loop_sim (s : str) {R L' : Type}
  (wb : Z -> str -> Z * list section * list str -> ctl R (Z * list section * list str) (Z * list section * list str)) :
  (forall pos word parsing mask_list cs,
     wb pos word (cs, parsing, mask_list) =
     Next (cs + len word, parsing ++ [(slice s cs (cs + len word), Some (LA (len word)))],
           mask_list ++ [case_mask isupper (slice s cs (cs + len word))])) ->
  forall words pos parsing mask_list cs,
  exists cs', for_from (L' := L') pos words (cs, parsing, mask_list) wb =
    Next (cs', parsing ++ fst (alpha_words isupper s cs words), mask_list ++ snd (alpha_words isupper s cs words)).
Proof.
  intros H. induction words as [|w r IH]; intros pos parsing mask_list cs; cbn [for_from alpha_words].
  - exists cs. now rewrite !app_nil_r.
  - rewrite H. destruct (IH (pos + 1) (parsing ++ [(slice s cs (cs + len w), Some (LA (len w)))])
                           (mask_list ++ [case_mask isupper (slice s cs (cs + len w))]) (cs + len w)) as (cs' & ->).
    exists cs'. destruct (alpha_words isupper s (cs + len w) r) as [secs masks]. cbn [fst snd].
    now rewrite <- !app_assoc.
Qed.

(* the rest of the loop body once the run [start, end] is known: the call of
   multiword_detector.parse, one section and mask per word, the rest of the section *)
Ltac alpha_tail sec :=
  unfold call;
  match goal with |- context [match mwparse ?x with _ => _ end] => destruct (mwparse x) as [[im wl]|] end;
  [|reflexivity];
  unfold for_each;
  edestruct (words_loop_sim (fst sec) (R := pv * option (list str) * option (list str)) (L' := bool * Z * list section))
    as (cs' & ->);
  [ intros pos0 word parsing mask_list cs; cbv beta iota zeta;
    erewrite mask_loop_sim;
    [ cbn [bind append app]; reflexivity
    | intros ? letter mask; now destruct (isupper letter) ]
  | cbn [bind];
    match goal with |- context [alpha_words isupper ?s ?a ?w] => destruct (alpha_words isupper s a w) as [secs masks] end;
    cbn [fst snd];
    match goal with |- context [if negb (?e =? ?l) then _ else _] => destruct (e =? l) end;
    cbn [negb bind]; unfold append; rewrite <- ?app_assoc, ?app_nil_r; reflexivity ].

Theorem py_detect_alpha_eq (sec : section) :
  dres_alpha (py_detect_alpha isalpha isupper lower_c mwparse sec) =
  detect_alpha isalpha isupper lower_c true mwparse (fst sec).
Proof.
  unfold py_detect_alpha, detect_alpha, working, lower_aligned, first_run, for_enum. cbv zeta.
  (* the working string *)
  match goal with |- dres_alpha (run (bind ?c _)) = _ =>
    replace c with (Next (R := pv * option (list str) * option (list str)) (L := Empty_set)
                      (if len (lower lower_c (fst sec)) =? len (fst sec) then lower lower_c (fst sec)
                       else map (lower1 lower_c) (fst sec)))
      by (destruct (len (lower lower_c (fst sec)) =? len (fst sec)); cbn [negb]; [|rewrite join_lower1]; reflexivity)
  end.
  cbn [bind].
  set (ws := if len (lower lower_c (fst sec)) =? len (fst sec) then _ else _).
  match goal with |- context [for_from 0 ws _ ?b] => set (body := b) end.
  pose proof (run_loop_sim isalpha ws (L' := Empty_set) body
    (fun start_pos end_pos =>
       let s := fst sec in
       let pre := if start_pos =? 0 then [] else [(slice s 0 start_pos, None)] in
       match mwparse (slice ws start_pos (end_pos + 1)) with
       | None => None
       | Some (_, words) =>
           let (secs, masks) := alpha_words isupper s start_pos words in
           let post := if end_pos =? len s - 1 then [] else [(sfrom s (end_pos + 1), None)] in
           Some (PList (pre ++ secs ++ post), Some words, Some masks)
       end)) as H.
  match type of H with ?A -> _ => assert (Hb : A) end.
  { clear H. intros pos value is_run start_pos. subst body. cbv beta zeta. unfold fin.
    destruct (isalpha value), is_run; cbn [negb orb andb bind]; try reflexivity;
      destruct (pos =? len ws - 1); cbn [negb orb andb bind]; try reflexivity.
    all: match goal with |- context [if negb (?sp =? 0) then _ else _] => destruct (sp =? 0) end;
      cbn [negb bind append app]; alpha_tail sec. }
  specialize (H Hb ws 0 false (-1)).
  destruct (run_scan isalpha ws 0 (len ws) false (-1)) as [[a b]|].
  - rewrite H. unfold fin. destruct (mwparse (slice ws a (b + 1))) as [[im wl]|]; [|reflexivity].
    destruct (alpha_words isupper (fst sec) a wl) as [secs masks]. reflexivity.
  - destruct H as (st & ->). destruct st as [[? ?] ?]. reflexivity.
Qed.

End Alpha.

(* ------------------------------------------------------------------ *)
(* the loop `while index < len(section_list)` of the *_detection        *)
(* functions, against Detect.drive, for every fuel                      *)
(* ------------------------------------------------------------------ *)
Section DriverSim.
Variables (F Acc St R L' : Type).
Variable detect : str -> dres F.          (* the model of the detect_* function, as the loop reads its result *)
Variable reex : bool.                     (* `continue` after a split *)
Variable add : Acc -> F -> Acc.           (* what is appended to the found list(s) *)
(* the loop-carried variables as (section_list, found lists, index) *)
Variable get : St -> list section * Acc * Z.
Variable cond : St -> bool.
Variable body : St -> ctl R St St.
Hypothesis cond_spec : forall st sl acc i, get st = (sl, acc, i) -> cond st = (i <? llen sl).
(* one iteration with index = the position of x *)
Definition goes_on (st : St) (v : list section * Acc * Z) : Prop :=
  exists st', (body st = Next st' \/ body st = Continue st') /\ get st' = v.
Hypothesis body_spec : forall st done x rest acc, get st = (done ++ x :: rest, acc, llen done) ->
  match snd x with
  | Some _ => goes_on st (done ++ x :: rest, acc, llen done + 1)
  | None =>
      match detect (fst x) with
      | DErr => body st = Raise
      | DNo => goes_on st (done ++ x :: rest, acc, llen done + 1)
      | DYes p f => goes_on st (done ++ p ++ rest, add acc f, if reex then llen done else llen done + 1)
      end
  end.

Lemma while_done fuel st : cond st = false -> while_ (L' := L') fuel st cond body = Next st.
Proof. intros H. destruct fuel; cbn [while_]; now rewrite H. Qed.

Lemma while_step fuel st v :
  cond st = true -> goes_on st v ->
  exists st', get st' = v /\ while_ (L' := L') (S fuel) st cond body = while_ (L' := L') fuel st' cond body.
Proof.
  intros Hc (st' & Hb & Hg). exists st'. split; [assumption|]. cbn [while_]. rewrite Hc.
  destruct Hb as [-> | ->]; reflexivity.
Qed.

Lemma driver_sim : forall fuel todo done st acc, get st = (done ++ todo, acc, llen done) ->
  match drive detect reex fuel todo with
  | None => while_ (L' := L') fuel st cond body = Raise
  | Some (out, fs) =>
      exists st' i, while_ (L' := L') fuel st cond body = Next st' /\ get st' = (done ++ out, fold_left add fs acc, i)
  end.
Proof.
  assert (Hnil : forall fuel done st acc, get st = (done ++ [], acc, llen done) ->
            exists st' i, while_ (L' := L') fuel st cond body = Next st' /\ get st' = (done ++ [], acc, i)).
  { intros fuel done st acc Hg. exists st, (llen done). split; [|assumption]. apply while_done.
    rewrite (cond_spec _ _ _ _ Hg), index_in_range. reflexivity. }
  induction fuel as [|f IH]; intros todo done st acc Hg.
  - destruct todo as [|[s [l|]] rest]; cbn [drive]; [now apply Hnil| |];
      cbn [while_]; rewrite (cond_spec _ _ _ _ Hg), index_in_range; reflexivity.
  - destruct todo as [|x rest]; [cbn [drive]; now apply Hnil|].
    assert (Hc : cond st = true) by (rewrite (cond_spec _ _ _ _ Hg), index_in_range; reflexivity).
    pose proof (body_spec _ _ _ _ _ Hg) as Hb.
    assert (Hadv : forall y rest' acc', goes_on st (done ++ y :: rest', acc', llen done + 1) ->
              match drive detect reex f rest' with
              | None => while_ (L' := L') (S f) st cond body = Raise
              | Some (out, fs) => exists st' i, while_ (L' := L') (S f) st cond body = Next st' /\
                                                get st' = (done ++ y :: out, fold_left add fs acc', i)
              end).
    { intros y rest' acc' Hgo. destruct (while_step f _ _ Hc Hgo) as (st1 & Hg1 & ->).
      assert (Hg1' : get st1 = ((done ++ [y]) ++ rest', acc', llen (done ++ [y]))).
      { rewrite Hg1, <- app_assoc, llen_app. reflexivity. }
      pose proof (IH rest' (done ++ [y]) st1 acc' Hg1') as H.
      destruct (drive detect reex f rest') as [[out fs]|]; [|assumption].
      destruct H as (st' & i & -> & Hg'). exists st', i. split; [reflexivity|]. now rewrite Hg', <- app_assoc. }
    destruct x as [s [l|]]; cbn [snd fst] in Hb; cbn [drive].
    + specialize (Hadv (s, Some l) rest acc Hb). destruct (drive detect reex f rest) as [[out fs]|]; assumption.
    + destruct (detect s) as [| |p found].
      * cbn [while_]. now rewrite Hc, Hb.
      * specialize (Hadv (s, None) rest acc Hb). destruct (drive detect reex f rest) as [[out fs]|]; assumption.
      * destruct reex.
        -- destruct (while_step f _ _ Hc Hb) as (st1 & Hg1 & ->).
           pose proof (IH (p ++ rest) done st1 (add acc found) Hg1) as H.
           destruct (drive detect true f (p ++ rest)) as [[out fs]|]; assumption.
        -- destruct (p ++ rest) as [|y rest'] eqn:E.
           ++ destruct (while_step f _ _ Hc Hb) as (st1 & Hg1 & ->).
              exists st1, (llen done + 1). split; [|now rewrite Hg1]. apply while_done.
              rewrite (cond_spec _ _ _ _ Hg1), app_nil_r. apply Z.ltb_ge. lia.
           ++ specialize (Hadv y rest' (add acc found) Hb).
              destruct (drive detect false f rest') as [[out fs]|]; assumption.
Qed.

End DriverSim.

Lemma fold_append {X : Type} (fs : list X) : forall acc, fold_left (fun a f => a ++ [f]) fs acc = acc ++ fs.
Proof. induction fs as [|f fs IH]; intros acc; cbn [fold_left]; [now rewrite app_nil_r|]. now rewrite IH, <- app_assoc. Qed.

Lemma fold_extend2 {X Y : Type} (fs : list (list X * list Y)) : forall a b,
  fold_left (fun acc f => (fst acc ++ fst f, snd acc ++ snd f)) fs (a, b) = (a ++ flat_map fst fs, b ++ flat_map snd fs).
Proof.
  induction fs as [|f fs IH]; intros a b; cbn [fold_left flat_map]; [now rewrite !app_nil_r|].
  rewrite IH. cbn [fst snd]. now rewrite <- !app_assoc.
Qed.

(* the state of a *_detection loop is (section_list, found list, index) *)
Ltac driver_body_start :=
  let sl := fresh "sl" in let fl := fresh "fl" in let idx := fresh "idx" in let Hg := fresh "Hg" in
  intros [[idx sl] fl] done x rest acc Hg; cbn in Hg; injection Hg as -> -> ->;
  unfold goes_on; cbv beta iota zeta; unfold sub_l; rewrite !lget_mid;
  destruct x as [s [l|]]; cbn [snd fst is_none bind].
Ltac goes_on_now := eexists; split; [left; reflexivity|reflexivity] || (eexists; split; [right; reflexivity|reflexivity]).

Section DigitDriver.
Variable isdigit : N -> bool.

Theorem py_digit_detection_eq (sl : list section) :
  py_digit_detection isdigit sl = drive_all (detect_digits isdigit) false sl.
Proof.
  unfold py_digit_detection, drive_all. cbv zeta.
  match goal with |- context [while_ _ _ ?c ?b] => set (wcond := c); set (wbody := b) end.
  pose proof (driver_sim str (list str) _ _ Empty_set (detect_digits isdigit) false
                (fun a f => a ++ [f]) (fun '(idx, sl, fl) => (sl, fl, idx)) wcond wbody) as H.
  match type of H with ?A -> ?B -> _ => assert (Hc : A); [|assert (Hb : B)] end.
  { unfold wcond. intros [[idx sl0] fl] ? ? ? E. injection E as -> -> ->. reflexivity. }
  { unfold wbody. driver_body_start; [goes_on_now|].
    rewrite py_detect_digits_eq. cbn [fst]. destruct (detect_digits isdigit s) as [| |p f]; cbn [py_of_dres call].
    - reflexivity.
    - goes_on_now.
    - cbn [is_none negb call pv_list]. rewrite ldel_mid. cbn [call]. rewrite lins_mid. goes_on_now. }
  specialize (H Hc Hb (drive_fuel sl) sl [] (0, sl, []) [] eq_refl).
  destruct (drive (detect_digits isdigit) false (drive_fuel sl) sl) as [[out fs]|].
  - destruct H as (st' & i & -> & Hg). destruct st' as [[idx' sl'] fl']. injection Hg as -> -> _.
    cbn [bind run app]. now rewrite fold_append.
  - now rewrite H.
Qed.

End DigitDriver.

(* year_detection and context_sensitive_detection: `if found:` and `continue` after a split *)
Ltac truthy_driver py_eq py_fun :=
  match goal with |- context [py_fun ?isd (?s, None)] =>
    let E := fresh "E" in pose proof (py_eq isd (s, None)) as E; cbn [fst] in E; rewrite <- E; clear E;
    destruct (py_fun isd (s, None)) as [[pvv [[|c f]|]]|]; cbn [dres_if_truthy nonempty call truthy];
    [ goes_on_now
    | rewrite ldel_mid; destruct pvv; cbn [call pv_list bind]; [reflexivity|]; rewrite lins_mid; goes_on_now
    | goes_on_now
    | reflexivity ]
  end.

Section YearDriver.
Variable isdigit : N -> bool.

Theorem py_year_detection_eq (sl : list section) :
  py_year_detection isdigit sl = drive_all (detect_year isdigit year_prefixes) true sl.
Proof.
  unfold py_year_detection, drive_all. cbv zeta.
  match goal with |- context [while_ _ _ ?c ?b] => set (wcond := c); set (wbody := b) end.
  pose proof (driver_sim str (list str) _ _ Empty_set (detect_year isdigit year_prefixes) true
                (fun a f => a ++ [f]) (fun '(idx, sl, fl) => (sl, fl, idx)) wcond wbody) as H.
  match type of H with ?A -> ?B -> _ => assert (Hc : A); [|assert (Hb : B)] end.
  { unfold wcond. intros [[idx sl0] fl] ? ? ? E. injection E as -> -> ->. reflexivity. }
  { unfold wbody. driver_body_start; [goes_on_now|]. truthy_driver py_detect_year_eq py_detect_year. }
  specialize (H Hc Hb (drive_fuel sl) sl [] (0, sl, []) [] eq_refl).
  destruct (drive (detect_year isdigit year_prefixes) true (drive_fuel sl) sl) as [[out fs]|].
  - destruct H as (st' & i & -> & Hg). destruct st' as [[idx' sl'] fl']. injection Hg as -> -> _.
    cbn [bind run app]. now rewrite fold_append.
  - now rewrite H.
Qed.

End YearDriver.

Section ContextDriver.
Variable isdigit : N -> bool.

Theorem py_context_sensitive_detection_eq (sl : list section) :
  py_context_sensitive_detection isdigit sl = drive_all (detect_context isdigit context_strings) true sl.
Proof.
  unfold py_context_sensitive_detection, drive_all. cbv zeta.
  match goal with |- context [while_ _ _ ?c ?b] => set (wcond := c); set (wbody := b) end.
  pose proof (driver_sim str (list str) _ _ Empty_set (detect_context isdigit context_strings) true
                (fun a f => a ++ [f]) (fun '(idx, sl, fl) => (sl, fl, idx)) wcond wbody) as H.
  match type of H with ?A -> ?B -> _ => assert (Hc : A); [|assert (Hb : B)] end.
  { unfold wcond. intros [[idx sl0] fl] ? ? ? E. injection E as -> -> ->. reflexivity. }
  { unfold wbody. driver_body_start; [goes_on_now|].
    truthy_driver py_detect_context_sensitive_eq py_detect_context_sensitive. }
  specialize (H Hc Hb (drive_fuel sl) sl [] (0, sl, []) [] eq_refl).
  destruct (drive (detect_context isdigit context_strings) true (drive_fuel sl) sl) as [[out fs]|].
  - destruct H as (st' & i & -> & Hg). destruct st' as [[idx' sl'] fl']. injection Hg as -> -> _.
    cbn [bind run app]. now rewrite fold_append.
  - now rewrite H.
Qed.

End ContextDriver.

Section AlphaDriver.
Variables isalpha isupper : N -> bool.
Variable lower_c : N -> str.
Variable mwparse : str -> option (bool * list str).

Theorem py_alpha_detection_eq (sl : list section) :
  py_alpha_detection isalpha isupper lower_c mwparse sl =
  match drive_all (detect_alpha isalpha isupper lower_c true mwparse) false sl with
  | None => None
  | Some (out, fs) => Some (out, flat_map fst fs, flat_map snd fs)
  end.
Proof.
  unfold py_alpha_detection, drive_all. cbv zeta.
  match goal with |- context [while_ _ _ ?c ?b] => set (wcond := c); set (wbody := b) end.
  (* alpha_list and mask_list have the same type: their order in the tuple of loop-carried variables is the
     order in which the source binds them first; the same script for either layout *)
  first
  [
    pose proof (driver_sim (list str * list str) (list str * list str) _ _ Empty_set
                  (detect_alpha isalpha isupper lower_c true mwparse) false
                  (fun acc f => (fst acc ++ fst f, snd acc ++ snd f))
                  (fun '(index, section_list, alpha_list, mask_list) => (section_list : list section, (alpha_list : list str, mask_list : list str), index : Z)) wcond wbody) as H;
    match type of H with ?A -> ?B -> _ => assert (Hc : A); [|assert (Hb : B)] end;
    [ unfold wcond; intros [[[idx sl0] l1] l2] ? ? ? E; injection E as E1 E2 E3; subst; reflexivity
    | unfold wbody; intros [[[idx sl0] l1] l2] done x rest acc Hg; cbn in Hg; injection Hg as E1 E2 E3; subst sl0 acc idx;
      unfold goes_on; cbv beta iota zeta; unfold sub_l; rewrite !lget_mid;
      destruct x as [s [l|]]; cbn [snd fst is_none bind]; [goes_on_now|];
      pose proof (py_detect_alpha_eq isalpha isupper lower_c mwparse (s, None)) as E; cbn [fst] in E; rewrite <- E; clear E;
      destruct (py_detect_alpha isalpha isupper lower_c mwparse (s, None)) as [[[pvv [[|w ws]|]] ms]|];
        cbn [dres_alpha nonempty call truthy]; [goes_on_now| |goes_on_now|reflexivity];
      destruct ms as [m|]; cbn [call]; rewrite ?ldel_mid; destruct pvv; cbn [call pv_list bind]; rewrite ?ldel_mid;
        cbn [call pv_list bind]; try reflexivity; rewrite lins_mid; goes_on_now
    | ]
  |
    pose proof (driver_sim (list str * list str) (list str * list str) _ _ Empty_set
                  (detect_alpha isalpha isupper lower_c true mwparse) false
                  (fun acc f => (fst acc ++ fst f, snd acc ++ snd f))
                  (fun '(index, section_list, mask_list, alpha_list) => (section_list : list section, (alpha_list : list str, mask_list : list str), index : Z)) wcond wbody) as H;
    match type of H with ?A -> ?B -> _ => assert (Hc : A); [|assert (Hb : B)] end;
    [ unfold wcond; intros [[[idx sl0] l1] l2] ? ? ? E; injection E as E1 E2 E3; subst; reflexivity
    | unfold wbody; intros [[[idx sl0] l1] l2] done x rest acc Hg; cbn in Hg; injection Hg as E1 E2 E3; subst sl0 acc idx;
      unfold goes_on; cbv beta iota zeta; unfold sub_l; rewrite !lget_mid;
      destruct x as [s [l|]]; cbn [snd fst is_none bind]; [goes_on_now|];
      pose proof (py_detect_alpha_eq isalpha isupper lower_c mwparse (s, None)) as E; cbn [fst] in E; rewrite <- E; clear E;
      destruct (py_detect_alpha isalpha isupper lower_c mwparse (s, None)) as [[[pvv [[|w ws]|]] ms]|];
        cbn [dres_alpha nonempty call truthy]; [goes_on_now| |goes_on_now|reflexivity];
      destruct ms as [m|]; cbn [call]; rewrite ?ldel_mid; destruct pvv; cbn [call pv_list bind]; rewrite ?ldel_mid;
        cbn [call pv_list bind]; try reflexivity; rewrite lins_mid; goes_on_now
    | ]
  ];
  specialize (H Hc Hb (drive_fuel sl) sl [] (0, sl, [], []) ([], []) eq_refl);
  destruct (drive (detect_alpha isalpha isupper lower_c true mwparse) false (drive_fuel sl) sl) as [[out fs]|];
  [ destruct H as (st' & i & -> & Hg); destruct st' as [[[idx sl'] l1] l2]; rewrite fold_extend2 in Hg;
    injection Hg as E1 E2 E3 E4; subst; reflexivity
  | now rewrite H ].
Qed.

End AlphaDriver.

(* ------------------------------------------------------------------ *)
(* other_detection                                                     *)
(* ------------------------------------------------------------------ *)

Lemma other_detection_app (a b : list section) :
  other_detection (a ++ b) = (fst (other_detection a) ++ fst (other_detection b),
                              snd (other_detection a) ++ snd (other_detection b)).
Proof. unfold other_detection. cbn [fst snd]. now rewrite map_app, filter_app, map_app. Qed.

Lemma other_detection_cons (x : section) (l : list section) :
  other_detection (x :: l) = (fst (other_detection [x]) ++ fst (other_detection l),
                              snd (other_detection [x]) ++ snd (other_detection l)).
Proof. exact (other_detection_app [x] l). Qed.

(* what other_detection does to one section *)
Definition relabel (x : section) : section :=
  match snd x with None => (fst x, Some (LO (len (fst x)))) | Some _ => x end.
Definition unlabelled_text (x : section) : list str :=
  match snd x with None => [fst x] | Some _ => [] end.

Lemma other_detection_step (x : section) (l : list section) :
  other_detection (x :: l) = (relabel x :: fst (other_detection l), unlabelled_text x ++ snd (other_detection l)).
Proof. unfold other_detection, relabel, unlabelled_text. cbn [fst snd map filter]. destruct x as [s [l0|]]; reflexivity. Qed.

(* the loop written `index = 0; while index < len(section_list): ...; index += 1`
   (loop-carried variables: index, section_list, other_list) *)
Section OtherWhile.
Context {R L' : Type}.
Notation St := (Z * list section * list str)%type.
Variable wcond : St -> bool.
Variable wbody : St -> ctl R St St.
Hypothesis cond_spec : forall idx sl ol, wcond (idx, sl, ol) = (idx <? llen sl).
Hypothesis body_spec : forall done x rest ol,
  wbody (llen done, done ++ x :: rest, ol) = Next (llen done + 1, done ++ relabel x :: rest, ol ++ unlabelled_text x).

Lemma other_while_sim : forall todo done ol,
  while_ (L' := L') (length todo) (llen done, done ++ todo, ol) wcond wbody =
  Next (llen done + llen todo, done ++ fst (other_detection todo), ol ++ snd (other_detection todo)).
Proof.
  induction todo as [|x todo IH]; intros done ol; cbn [length while_]; rewrite cond_spec, index_in_range; cbn [nonempty].
  - change (llen (@nil section)) with 0. cbn [other_detection fst snd map filter]. now rewrite Z.add_0_r, !app_nil_r.
  - rewrite body_spec. specialize (IH (done ++ [relabel x]) (ol ++ unlabelled_text x)).
    rewrite llen_app, <- !app_assoc in IH. change (llen [relabel x]) with 1 in IH. cbn [app] in IH. rewrite IH.
    rewrite other_detection_step, llen_cons, Z.add_assoc. cbn [fst snd]. rewrite <- ?app_assoc. reflexivity.
Qed.
End OtherWhile.

(* the loop written `for index, section in enumerate(section_list): ... section_list[index] = ...`
   (loop-carried variables: section_list, other_list; the iterator reads the current list) *)
Section OtherLive.
Context {R L' : Type}.
Notation St := (list section * list str)%type.
Variable cur : St -> list section.
Variable body : Z -> section -> St -> ctl R St St.
Hypothesis cur_spec : forall sl ol, cur (sl, ol) = sl.
Hypothesis body_spec : forall done x rest ol,
  body (llen done) x (done ++ x :: rest, ol) = Next (done ++ relabel x :: rest, ol ++ unlabelled_text x).

Lemma other_live_sim : forall todo done ol,
  for_live (L' := L') (length todo) (llen done) (done ++ todo, ol) cur body =
  Next (done ++ fst (other_detection todo), ol ++ snd (other_detection todo)).
Proof.
  induction todo as [|x todo IH]; intros done ol; cbn [length for_live]; rewrite cur_spec.
  - rewrite app_nil_r, lget_end. cbn [other_detection fst snd map filter]. now rewrite !app_nil_r.
  - rewrite lget_mid, body_spec. specialize (IH (done ++ [relabel x]) (ol ++ unlabelled_text x)).
    rewrite llen_app, <- !app_assoc in IH. change (llen [relabel x]) with 1 in IH. cbn [app] in IH. rewrite IH.
    rewrite other_detection_step. cbn [fst snd]. rewrite <- ?app_assoc. reflexivity.
Qed.
End OtherLive.

(* either shape of the source *)
Ltac other_body_spec :=
  intros done x rest ol; cbv beta iota zeta; unfold sub_l; rewrite ?lget_mid;
  destruct x as [s [l|]]; unfold relabel, unlabelled_text; cbn [snd fst is_none bind];
  [ now rewrite ?app_nil_r
  | rewrite lset_mid; cbn [call]; rewrite ?lget_mid; cbn [fst bind]; unfold append; reflexivity ].

Theorem py_other_detection_eq (sl : list section) :
  py_other_detection sl = Some (other_detection sl).
Proof.
  unfold py_other_detection. cbv zeta.
  first
  [ (* while index < len(section_list) *)
    match goal with |- context [while_ _ _ ?c ?b] => set (wcond := c); set (wbody := b) end;
    assert (Hc : forall idx sl ol, wcond (idx, sl, ol) = (idx <? llen sl)) by reflexivity;
    assert (Hb : forall done x rest ol,
      wbody (llen done, done ++ x :: rest, ol) = Next (llen done + 1, done ++ relabel x :: rest, ol ++ unlabelled_text x))
      by (unfold wbody; other_body_spec);
    pose proof (other_while_sim (L' := Empty_set) wcond wbody Hc Hb sl [] []) as Hi
  | (* for index, section in enumerate(section_list) *)
    unfold for_enum_live;
    match goal with |- context [for_live _ _ _ ?c ?b] => set (cur := c); set (body := b) end;
    assert (Hc : forall sl ol, cur (sl, ol) = sl) by reflexivity;
    assert (Hb : forall done x rest ol,
      body (llen done) x (done ++ x :: rest, ol) = Next (done ++ relabel x :: rest, ol ++ unlabelled_text x))
      by (unfold body; other_body_spec);
    pose proof (other_live_sim (L' := Empty_set) cur body Hc Hb sl [] []) as Hi ];
  change (llen (@nil section)) with 0 in Hi; cbn [app] in Hi; rewrite Hi; cbn [bind run]; now destruct (other_detection sl).
Qed.

(* ------------------------------------------------------------------ *)
(* PCFGPasswordParser.parse: the detectors in the order of the source   *)
(* ------------------------------------------------------------------ *)

(* after other_detection every section is labelled: base_structure_creation does not raise *)
Lemma base_structure_after_other (sl : list section) :
  exists r, base_structure (fst (other_detection sl)) = Some r.
Proof.
  unfold other_detection. cbn [fst].
  induction sl as [|[s [l|]] sl (r & IH)]; cbn [map snd fst base_structure]; [now eexists| |]; rewrite IH;
    destruct r; now eexists.
Qed.

Section ParseOrder.
Variables isalpha isdigit isupper : N -> bool.
Variable lower_c : N -> str.
Variable kbs : list board.
Variable fp_words : list str.
Variable min_run : Z.
Variable tlds : list str.
Variables mw_threshold mw_min_len mw_max_len : Z.

(* the detectors that are not translated, as the model has them: their effect on the section list *)
Definition model_keyboard_walk (pw : str) : option (list section) :=
  option_map fst (detect_keyboard_walk isalpha isdigit lower_c kbs fp_words min_run (length pw) pw).
Definition model_email_detection (sl : list section) : option (list section) :=
  option_map fst (drive_all (detect_email lower_c true tlds) false sl).
Definition model_website_detection (sl : list section) : option (list section) :=
  option_map fst (drive_all (detect_website isalpha lower_c true tlds) false sl).

(* what the generated parse returns, for a result of the model: the section list
   given to base_structure_creation and what is fed to count_years,
   count_context_sensitive, count_alpha, count_alpha_masks, count_digits, count_other *)
Definition parse_view (r : presult) : option (list section * list str * list str * list str * list str * list str * list str) :=
  match r with
  | PErr => None
  | POk r => Some (p_sections r, p_years r, p_context r, p_alpha r, p_masks r, p_digits r, p_other r)
  end.

Theorem py_parse_eq (m : mwmap) (pw : str) :
  py_parse isalpha isdigit isupper lower_c (mwparse lower_c mw_threshold mw_min_len mw_max_len m)
           model_keyboard_walk model_email_detection model_website_detection pw =
  parse_view (parse isalpha isdigit isupper lower_c true kbs fp_words min_run tlds year_prefixes context_strings
                    mw_threshold mw_min_len mw_max_len m pw).
Proof.
  unfold py_parse, parse, model_keyboard_walk, model_email_detection, model_website_detection.
  destruct (detect_keyboard_walk isalpha isdigit lower_c kbs fp_words min_run (length pw) pw) as [[sl0 walks]|];
    cbn [option_map call fst run]; [|reflexivity].
  destruct (drive_all (detect_email lower_c true tlds) false sl0) as [[sl1 emails]|];
    cbn [option_map call fst run]; [|reflexivity].
  destruct (drive_all (detect_website isalpha lower_c true tlds) false sl1) as [[sl2 webs]|];
    cbn [option_map call fst run]; [|reflexivity].
  rewrite py_year_detection_eq.
  destruct (drive_all (detect_year isdigit year_prefixes) true sl2) as [[sl3 years]|]; cbn [call run]; [|reflexivity].
  rewrite py_context_sensitive_detection_eq.
  destruct (drive_all (detect_context isdigit context_strings) true sl3) as [[sl4 ctx]|]; cbn [call run]; [|reflexivity].
  rewrite py_alpha_detection_eq. fold (mwparse lower_c mw_threshold mw_min_len mw_max_len m).
  destruct (drive_all (detect_alpha isalpha isupper lower_c true (mwparse lower_c mw_threshold mw_min_len mw_max_len m)) false sl4)
    as [[sl5 alphas]|]; cbn [call run]; [|reflexivity].
  rewrite py_digit_detection_eq.
  destruct (drive_all (detect_digits isdigit) false sl5) as [[sl6 digits]|]; cbn [call run]; [|reflexivity].
  rewrite py_other_detection_eq. cbn [call run].
  destruct (base_structure_after_other sl6) as ([sup base] & E).
  destruct (other_detection sl6) as [sl7 others]. cbn [fst] in E. rewrite E. reflexivity.
Qed.

End ParseOrder.
