(* PipelineQ.v - the pipeline of Pipeline.v over exact rational arithmetic
   (RQ, ideal disk): the two arithmetic hypotheses of PipelineProofs.v
   (no_zero_div, wf of the loaded ruleset) are discharged, and the
   probabilities of all guesses of a complete session sum to 1. *)
From Coq Require Import String List NArith ZArith QArith Bool Lia Lqa Sorting.Permutation Sorting.Sorted.
From Pcfg Require Import ProbAlg QProb Str Detect Segment TextFile TextFileProofs Counters CountersProofs LtallyProofs IoFacts
     Loader Next NextSpec NextProofs QSum Expand Pipeline PipelineStr PipelineTrain PipelineLoad PipelineProofs.
Import ListNotations.
Local Open Scope nat_scope.

(* ------------------------------------------------------------------ *)
(* generic: grouping keeps order and membership of the probabilities   *)
(* ------------------------------------------------------------------ *)

Section GGroup.
Context {A : palg}.
Variable R : parith A.
Notation geq := (fun a b : P A => ple b a = true).

Lemma ggroups_nonempty : forall l p vs, ggroups R p vs l <> [].
Proof.
  induction l as [|[v q] r IH]; intros p vs; cbn [ggroups]; [discriminate|].
  destruct (a_eqb R q p); [apply IH|discriminate].
Qed.

Lemma ggroup_nonempty (l : list (TextFile.str * P A)) : l <> [] -> ggroup R l <> [].
Proof. destruct l as [|[v p] r]; [congruence|]. intros _. apply ggroups_nonempty. Qed.

Lemma ggroups_probs_in : forall l p vs g, In g (ggroups R p vs l) -> snd g = p \/ In (snd g) (map snd l).
Proof.
  induction l as [|[v q] r IH]; intros p vs g; cbn [ggroups].
  - intros [<-|[]]. now left.
  - destruct (a_eqb R q p).
    + intros H. destruct (IH _ _ _ H) as [H'|H']; [now left|right; now right].
    + intros [<-|H]; [now left|]. right. destruct (IH _ _ _ H) as [H'|H']; [left; now symmetry|now right].
Qed.

Lemma ggroup_probs_in (l : list (TextFile.str * P A)) g : In g (ggroup R l) -> In (snd g) (map snd l).
Proof.
  destruct l as [|[v p] r]; [intros []|]. cbn [ggroup]. intros H.
  destruct (ggroups_probs_in _ _ _ _ H) as [H'|H']; [left; now symmetry|now right].
Qed.

Lemma ggroups_sorted : forall l p vs,
  StronglySorted geq (p :: map snd l) -> StronglySorted geq (map snd (ggroups R p vs l)).
Proof.
  induction l as [|[v q] r IH]; intros p vs Hs; cbn [ggroups].
  - cbn. constructor; constructor.
  - inversion Hs as [|? ? Hs' Hf]; subst. cbn [map snd] in *.
    inversion Hs' as [|? ? Hs'' Hf']; subst. inversion Hf as [|? ? Hqp Hf'']; subst.
    destruct (a_eqb R q p).
    + apply IH. constructor; assumption.
    + cbn [map snd]. constructor; [apply IH; assumption|].
      apply Forall_forall. intros x Hx. apply in_map_iff in Hx. destruct Hx as (g & <- & Hg).
      destruct (ggroups_probs_in _ _ _ _ Hg) as [->|Hin]; [assumption|].
      rewrite Forall_forall in Hf''. now apply Hf''.
Qed.

Lemma ggroup_sorted (l : list (TextFile.str * P A)) :
  StronglySorted geq (map snd l) -> StronglySorted geq (map snd (ggroup R l)).
Proof. destruct l as [|[v p] r]; [intros _; constructor|]. apply ggroups_sorted. Qed.

Lemma sorted_desc (l : list (P A)) : StronglySorted geq l -> desc l.
Proof.
  induction 1 as [|a l Hs IH Hf]; [exact I|]. cbn [desc]. split; [|assumption].
  destruct l as [|b l]; [exact I|]. now inversion Hf.
Qed.

Lemma wf_groups_of_lines (l : list (TextFile.str * P A)) :
  l <> [] -> StronglySorted geq (map snd l) -> Forall (fun p => unitb p = true) (map snd l) ->
  wf_groups (map snd (ggroup R l)).
Proof.
  intros Hne Hs Hu. split; [|split].
  - intros H. apply map_eq_nil in H. now apply (ggroup_nonempty l Hne).
  - apply Forall_forall. intros x Hx. apply in_map_iff in Hx. destruct Hx as (g & <- & Hg).
    rewrite Forall_forall in Hu. apply Hu. now apply ggroup_probs_in.
  - apply sorted_desc. now apply ggroup_sorted.
Qed.
End GGroup.

(* ------------------------------------------------------------------ *)
(* exact rationals: the groups of one terminal file                    *)
(* ------------------------------------------------------------------ *)

Lemma count_str_le k l : count_str k l <= length l.
Proof.
  unfold count_str. induction l as [|a l IH]; cbn [filter length]; [lia|].
  destruct (TextFile.str_eqb k a); cbn [length]; lia.
Qed.

Lemma Qn_S n : (Qn (S n) == Qn n + 1)%Q.
Proof. unfold Qn. rewrite Nat2Z.inj_succ, <- Z.add_1_r, inject_Z_plus. reflexivity. Qed.

Lemma Qn_pos n : 0 < n -> (0 < Qn n)%Q.
Proof. intros H. unfold Qn. change 0%Q with (inject_Z 0). rewrite <- Zlt_Qlt. lia. Qed.

(* every line of a terminal file is a probability *)
Lemma tally_file_unit (items : list TextFile.str) : items <> [] ->
  forall v p, In (v, p) (calc_probs (@of_counts QNum (Counters.tally items))) -> (0 <= p /\ p <= 1)%Q.
Proof.
  intros Hne v p Hin. pose proof (tally_probability_Q items v p Hne Hin) as Hp.
  assert (Hlen : (0 < inject_Z (Z.of_nat (length items)))%Q).
  { destruct items as [|x r]; [congruence|]. change 0%Q with (inject_Z 0). rewrite <- Zlt_Qlt. cbn [length]. lia. }
  rewrite Hp. split.
  - apply Qle_shift_div_l; [assumption|]. rewrite Qmult_0_l. change 0%Q with (inject_Z 0). rewrite <- Zle_Qle. lia.
  - apply Qle_shift_div_r; [assumption|]. rewrite Qmult_1_l. rewrite <- Zle_Qle. pose proof (count_str_le v items). lia.
Qed.

Lemma groups_of_wf_Q : forall items, items <> [] ->
  @wf_groups QProb (map snd (groups_of RQ (Counters.tally items))).
Proof.
  intros items Hne. unfold groups_of.
  pose proof (each_once_sorted items Hne) as H. cbv zeta in H.
  destruct H as (_ & _ & _ & Hkeys & _ & Hsort & _).
  apply (wf_groups_of_lines RQ (calc_probs (@of_counts QNum (Counters.tally items)))).
  - destruct items as [|x r]; [congruence|]. intros Hnil.
    assert (Hx : In x (map fst (calc_probs (@of_counts QNum (Counters.tally (x :: r)))))) by (apply Hkeys; now left).
    rewrite Hnil in Hx. exact Hx.
  - eapply StronglySorted_map; [|exact Hsort]. intros a b Hab. cbn beta. now apply QProb_ple_iff.
  - apply Forall_forall. intros p Hp. apply in_map_iff in Hp. destruct Hp as ([v q] & <- & Hin). cbn [snd].
    apply QProb_unitb_iff. exact (tally_file_unit items Hne v q Hin).
Qed.

(* group probability times group size, summed = sum of the line probabilities *)
Lemma Qsum_cons a l : Qsum (a :: l) = (a + Qsum l)%Q.
Proof. reflexivity. Qed.

Lemma ggroups_mass : forall (l : list (TextFile.str * Q)) (p : Q) vs,
  (Qsum (map (fun g : list TextFile.str * Q => snd g * Qn (length (fst g))) (ggroups RQ p vs l))
   == p * Qn (length vs) + Qsum (map snd l))%Q.
Proof.
  induction l as [|[v q] r IH]; intros p vs; cbn [ggroups].
  - cbn [map]. rewrite Qsum_cons. cbn [fst snd]. rewrite rev_length. cbn [map]. unfold Qsum at 1 2. cbn [fold_right]. ring.
  - change (a_eqb RQ q p) with (Qeq_bool q p). destruct (Qeq_bool q p) eqn:Eq.
    + apply Qeq_bool_iff in Eq. rewrite IH. cbn [length map snd]. rewrite Qsum_cons, Qn_S, Eq. ring.
    + cbn [map]. rewrite !Qsum_cons. cbn [fst snd]. rewrite IH. rewrite rev_length. cbn [length]. rewrite Qn_S.
      unfold Qn at 2. cbn [Z.of_nat]. ring.
Qed.

Lemma ggroup_mass (l : list (TextFile.str * Q)) :
  (Qsum (map (fun g : list TextFile.str * Q => snd g * Qn (length (fst g))) (ggroup RQ l)) == Qsum (map snd l))%Q.
Proof.
  destruct l as [|[v p] r]; [reflexivity|]. cbn [ggroup]. rewrite ggroups_mass.
  cbn [length map snd]. rewrite Qsum_cons, Qn_S. unfold Qn. cbn [Z.of_nat]. ring.
Qed.

Lemma groups_of_mass_Q : forall items, items <> [] ->
  (Qsum (map (fun g : list TextFile.str * Q => snd g * Qn (length (fst g))) (groups_of RQ (Counters.tally items))) == 1)%Q.
Proof.
  intros items Hne. unfold groups_of.
  etransitivity; [exact (ggroup_mass (calc_probs (@of_counts QNum (Counters.tally items))))|].
  exact (proj2 sum_one_Q items Hne).
Qed.

(* ------------------------------------------------------------------ *)
(* small facts about lists, dictionaries and sums                      *)
(* ------------------------------------------------------------------ *)

Lemma Forall2_in_r {X Y} (P : X -> Y -> Prop) l l' y :
  Forall2 P l l' -> In y l' -> exists x, In x l /\ P x y.
Proof.
  induction 1 as [|a b l l' Hab _ IH]; intros Hy; [contradiction|].
  destruct Hy as [<-|Hy]; [exists a; split; [now left|assumption]|].
  destruct (IH Hy) as (x & Hx & Hp). exists x. split; [now right|assumption].
Qed.

Lemma vars_of_Forall2 {A} (g : grammar A) : forall names vs,
  vars_of g names = Some vs -> Forall2 (fun n v => var_of g n = Some v) names vs.
Proof.
  induction names as [|n names IH]; intros vs H; cbn [vars_of] in H.
  - injection H as <-. constructor.
  - destruct (var_of g n) as [v|] eqn:Ev; [|discriminate]. destruct (vars_of g names) as [vs'|]; [|discriminate].
    injection H as <-. constructor; [assumption|now apply IH].
Qed.

Lemma scan_M_in {T} : forall (ls : list (TextFile.str * T)) pm, Loader.scan_M ls = Some pm -> In (M_key, pm) ls.
Proof.
  induction ls as [|[s p] r IH]; intros pm H; cbn [Loader.scan_M] in H; [discriminate|].
  destruct (Loader.is_M s) eqn:Es.
  - apply is_M_iff in Es. injection H as <-. subst s. now left.
  - right. now apply IH.
Qed.

Definition isMline (l : TextFile.str * Q) : bool := Loader.is_M (fst l).

Lemma filter_M_absent : forall (ls : list (TextFile.str * Q)),
  ~ In M_key (map fst ls) -> filter isMline ls = [].
Proof.
  induction ls as [|[s p] r IH]; intros Hn; [reflexivity|]. cbn [filter]. unfold isMline at 1. cbn [fst].
  destruct (Loader.is_M s) eqn:Es.
  - apply is_M_iff in Es. exfalso. apply Hn. left. exact Es.
  - apply IH. intros H. apply Hn. now right.
Qed.

(* with distinct keys, the Markov lines are the line the first scan finds *)
Lemma Qsum_M_lines : forall (ls : list (TextFile.str * Q)), NoDup (map fst ls) ->
  (Qsum (map snd (filter isMline ls))
   == match Loader.scan_M ls with Some pm => pm | None => 0 end)%Q.
Proof.
  induction ls as [|[s p] r IH]; intros Hn; [reflexivity|].
  cbn [map fst] in Hn. inversion Hn as [|? ? Hs Hn']; subst.
  cbn [filter Loader.scan_M]. unfold isMline at 1. cbn [fst]. destruct (Loader.is_M s) eqn:Es.
  - apply is_M_iff in Es. subst s. rewrite (filter_M_absent r Hs). cbn [map snd]. rewrite Qsum_cons. cbn. ring.
  - now apply IH.
Qed.

Lemma Qsum_filter_split {X} (f : X -> bool) (w : X -> Q) : forall l,
  (Qsum (map w l) == Qsum (map w (filter f l)) + Qsum (map w (filter (fun x => negb (f x)) l)))%Q.
Proof.
  induction l as [|a l IH]; [reflexivity|]. cbn [map filter]. rewrite Qsum_cons, IH.
  destruct (f a); cbn [negb map]; rewrite Qsum_cons; ring.
Qed.

Lemma Qsum_map_div {X} (w : X -> Q) (t : Q) : forall l,
  (Qsum (map (fun x => w x / t) l) == Qsum (map w l) / t)%Q.
Proof.
  induction l as [|a l IH]; cbn [map]; [unfold Qdiv; cbn; ring|]. rewrite !Qsum_cons, IH. unfold Qdiv. ring.
Qed.

Lemma combine_map_map {X Y Z} (f : X -> Y) (g : X -> Z) : forall l, combine (map f l) (map g l) = map (fun x => (f x, g x)) l.
Proof. induction l as [|a l IH]; cbn [map combine]; [reflexivity|]. now rewrite IH. Qed.

(* the loader's divisor 1 - P(M) is positive and is the mass of the other lines *)
Lemma skip_total_generic (bf : list (TextFile.str * Q)) :
  NoDup (map fst bf) -> (forall pm, In (M_key, pm) bf -> (pm < 1)%Q) -> (Qsum (map snd bf) == 1)%Q ->
  (0 < skip_total 1%Q Qminus bf)%Q /\
  (Qsum (map snd (filter (fun x => negb (isMline x)) bf)) == skip_total 1%Q Qminus bf)%Q.
Proof.
  intros Hnd HM Hsum.
  pose proof (Qsum_filter_split isMline snd bf) as Hsplit. rewrite Hsum in Hsplit.
  pose proof (Qsum_M_lines bf Hnd) as HMl. unfold skip_total.
  set (S := Qsum (map snd (filter (fun x => negb (isMline x)) bf))) in *.
  destruct (Loader.scan_M bf) as [pm|] eqn:Es.
  - apply scan_M_in in Es. pose proof (HM pm Es) as Hlt. rewrite HMl in Hsplit. split; lra.
  - rewrite HMl in Hsplit. split; lra.
Qed.

Lemma kept_sum_generic (isalpha : N -> bool) (bf : list (TextFile.str * Q)) (tot : Q) :
  (forall l, In l bf -> nonM isalpha l = negb (isMline l)) -> (0 < tot)%Q ->
  (Qsum (map snd (filter (fun x => negb (isMline x)) bf)) == tot)%Q ->
  (Qsum (map fst (map (fun l : TextFile.str * Q => ((snd l / tot)%Q, Loader.insert_caps (toks isalpha (fst l))))
                      (filter (nonM isalpha) bf))) == 1)%Q.
Proof.
  intros Hn Hp Hs. rewrite map_map. cbn [fst]. unfold Expand.str, TextFile.str in *. rewrite (filter_ext_in _ _ _ Hn).
  etransitivity; [exact (Qsum_map_div snd tot _)|]. rewrite Hs. field.
  intros H. rewrite H in Hp. exact (Qlt_irrefl _ Hp).
Qed.

(* ------------------------------------------------------------------ *)
(* exact rationals: Grammar/grammar.txt                                *)
(* ------------------------------------------------------------------ *)

Section Q.
Variable E : env.
Hypothesis HE : env_ok E.

(* coverage: 0 < cov <= 1 *)
Definition cov_ok (o : options QProb) : Prop := (0 < (o_cov o : Q))%Q /\ ((o_cov o : Q) <= 1)%Q.

(* a structure string is not the Markov structure *)
Lemma structure_not_M r : parsed_ok E r -> structure_of r <> M_key.
Proof.
  intros Hok Heq. pose proof (toks_structure E HE r Hok) as H. rewrite Heq, (toks_M E HE) in H.
  pose proof (has_M_labels (p_base r)) as H2. rewrite <- H in H2. discriminate.
Qed.

(* the supported structures, one per password *)
Definition sup_items (rs : list parsed) : list TextFile.str :=
  map structure (filter supported (map (fun r => map label_str (p_base r)) rs)).

Lemma sup_items_in rs r : In r rs -> r_supported r = true -> In (structure_of r) (sup_items rs).
Proof.
  intros Hr Hs. unfold sup_items, structure_of. apply in_map. apply filter_In. split.
  - apply in_map_iff. now exists r.
  - rewrite supported_labels. exact Hs.
Qed.

Lemma sup_items_inv rs k : In k (sup_items rs) -> exists r, In r rs /\ k = structure_of r.
Proof.
  unfold sup_items. intros H. apply in_map_iff in H. destruct H as (ls & <- & Hls). apply filter_In in Hls.
  destruct Hls as (Hls & _). apply in_map_iff in Hls. destruct Hls as (r & <- & Hr). now exists r.
Qed.

Lemma M_not_sup rs : Forall (parsed_ok E) rs -> ~ In M_key (sup_items rs).
Proof.
  intros Hrs H. destruct (sup_items_inv rs _ H) as (r & Hr & Heq). rewrite Forall_forall in Hrs.
  apply (structure_not_M r (Hrs r Hr)). now symmetry.
Qed.

Lemma base_counter_eq (o : options QProb) raw rs :
  base_counter RQ (trained_of E o raw rs) =
  @with_markov QNum (o_cov o) (N.of_nat (length (train_pws E raw))) (@of_counts QNum (Counters.tally (sup_items rs))).
Proof.
  unfold base_counter. cbn [trained_of t_counters t_cov t_n counters_of pc_structs].
  rewrite count_structs_base_is_tally. reflexivity.
Qed.

Lemma markov_count_nonneg (n cov : Q) : (0 <= n)%Q -> (0 < cov)%Q -> (cov <= 1)%Q -> (0 <= n / cov - n)%Q.
Proof.
  intros Hn H0 H1. setoid_replace (n / cov - n)%Q with (n * ((1 - cov) * / cov))%Q.
  - apply Qmult_le_0_compat; [assumption|]. apply Qmult_le_0_compat.
    + exact (proj1 (Qle_minus_iff cov 1) H1).
    + apply Qinv_le_0_compat. now apply Qlt_le_weak.
  - field. intros H. rewrite H in H0. exact (Qlt_irrefl _ H0).
Qed.

(* the counter Grammar/grammar.txt is written from *)
Lemma base_counter_facts (o : options QProb) raw rs r :
  cov_ok o -> Forall (parsed_ok E) rs -> In r rs -> r_supported r = true ->
  let bc : counter QNum := base_counter RQ (trained_of E o raw rs) in
  (0 < Counters.total bc)%Q /\ NoDup (map fst bc) /\ (forall k n, In (k, n) bc -> (0 <= n)%Q) /\
  (forall m, In (M_key, m) bc -> (m < Counters.total bc)%Q).
Proof.
  intros (Hc0 & Hc1) Hrs Hr Hsup bc. unfold bc. rewrite base_counter_eq. clear bc.
  set (items := sup_items rs). set (c := @of_counts QNum (Counters.tally items)).
  set (n := N.of_nat (length (train_pws E raw))).
  assert (Hkeys : map fst c = map fst (Counters.tally items)).
  { unfold c, of_counts. rewrite map_map. reflexivity. }
  assert (HT : (0 < Counters.total c)%Q).
  { unfold c. rewrite total_tally_Q. pose proof (sup_items_in rs r Hr Hsup) as Hin. fold items in Hin.
    destruct items as [|x xs]; [contradiction|]. change 0%Q with (inject_Z 0). rewrite <- Zlt_Qlt. cbn [length]. lia. }
  assert (HM : ~ In M_key (map fst c)).
  { rewrite Hkeys, tally_keys_in. now apply M_not_sup. }
  assert (Hnd : NoDup (map fst c)) by (rewrite Hkeys; apply tally_keys_nodup).
  assert (Hpos : forall k q, In (k, q) c -> (0 <= q)%Q).
  { intros k q Hin. unfold c, of_counts in Hin. apply in_map_iff in Hin. destruct Hin as ([k' m] & Heq & _).
    injection Heq as _ <-. cbn. change 0%Q with (inject_Z 0). rewrite <- Zle_Qle. lia. }
  destruct (Qeq_dec (o_cov o) 1) as [H1|H1].
  - rewrite (with_markov_cov_one _ n c H1). repeat split; try assumption.
    intros m Hm. exfalso. apply HM. apply in_map_iff. now exists (M_key, m).
  - assert (H0 : ~ (o_cov o == 0)%Q) by (intros H; rewrite H in Hc0; exact (Qlt_irrefl _ Hc0)).
    destruct (with_markov_other (o_cov o) n c H1 H0) as [Hw _]. rewrite Hw, (dict_set_absent _ _ _ HM). clear Hw.
    set (m := (inject_Z (Z.of_N n) / o_cov o - inject_Z (Z.of_N n))%Q).
    assert (Hm0 : (0 <= m)%Q).
    { apply markov_count_nonneg; [|assumption|assumption]. change 0%Q with (inject_Z 0). rewrite <- Zle_Qle. lia. }
    assert (Htot : (Counters.total (c ++ [(M_key, m)]) == Counters.total c + m)%Q) by apply total_Q_snoc.
    split; [|split; [|split]].
    + rewrite Htot. apply Qlt_le_trans with (Counters.total c + 0)%Q; [now rewrite Qplus_0_r|].
      apply Qplus_le_compat; [apply Qle_refl|assumption].
    + rewrite map_app. apply NoDup_app_intro; [assumption|cbn; constructor; [intros []|constructor]|].
      intros x Hx [<-|[]]. now apply HM.
    + intros k q Hin. apply in_app_or in Hin. destruct Hin as [Hin|[Hin|[]]]; [now apply (Hpos k)|].
      injection Hin as _ <-. assumption.
    + intros m' Hin. apply in_app_or in Hin. destruct Hin as [Hin|[Hin|[]]].
      * exfalso. apply HM. apply in_map_iff. now exists (M_key, m').
      * injection Hin as <-. rewrite Htot. apply Qle_lt_trans with (0 + m)%Q; [rewrite Qplus_0_l; apply Qle_refl|].
        apply Qplus_lt_le_compat; [assumption|apply Qle_refl].
Qed.

(* Grammar/grammar.txt itself *)
Lemma base_file_facts (o : options QProb) raw rs r :
  cov_ok o -> Forall (parsed_ok E) rs -> In r rs -> r_supported r = true ->
  let bf : list (TextFile.str * Q) := base_file RQ (trained_of E o raw rs) in
  NoDup (map fst bf) /\ (forall k p, In (k, p) bf -> (0 <= p)%Q) /\
  (forall pm, In (M_key, pm) bf -> (pm < 1)%Q) /\ (Qsum (map snd bf) == 1)%Q.
Proof.
  intros Hcov Hrs Hr Hsup bf.
  pose proof (base_counter_facts o raw rs r Hcov Hrs Hr Hsup) as H. cbv zeta in H.
  destruct H as (HT & Hnd & Hpos & HM).
  unfold bf, base_file. set (bc := base_counter RQ (trained_of E o raw rs)) in *.
  split; [exact (calc_probs_keys_nodup QNum bc Hnd)|]. split; [|split].
  - intros k p Hin. destruct (calc_probs_value QNum bc k p Hin) as (n & Hn & ->). cbn [ndiv QNum].
    apply Qle_shift_div_l; [assumption|]. rewrite Qmult_0_l. now apply (Hpos k).
  - intros pm Hin. destruct (calc_probs_value QNum bc _ pm Hin) as (n & Hn & ->). cbn [ndiv QNum].
    apply Qlt_shift_div_r; [assumption|]. rewrite Qmult_1_l. now apply HM.
  - apply (calc_probs_sum_one_Q bc). intros H. rewrite H in HT. exact (Qlt_irrefl _ HT).
Qed.

Lemma skip_total_facts (o : options QProb) raw rs r :
  cov_ok o -> Forall (parsed_ok E) rs -> In r rs -> r_supported r = true ->
  let bf : list (TextFile.str * Q) := base_file RQ (trained_of E o raw rs) in
  (0 < skip_total 1%Q Qminus bf)%Q /\
  (Qsum (map snd (filter (fun x => negb (isMline x)) bf)) == skip_total 1%Q Qminus bf)%Q.
Proof.
  intros Hcov Hrs Hr Hsup bf.
  pose proof (base_file_facts o raw rs r Hcov Hrs Hr Hsup) as H. cbv zeta in H. fold bf in H.
  destruct H as (Hnd & _ & HM & Hsum). exact (skip_total_generic bf Hnd HM Hsum).
Qed.

(*  Q3  *)
Theorem no_zero_div_Q : forall (o : options QProb) raw rs r,
  cov_ok o -> Forall (parsed_ok E) rs -> In r rs -> r_supported r = true ->
  no_zero_div RQ (trained_of E o raw rs).
Proof.
  intros o raw rs r Hcov Hrs Hr Hsup. unfold no_zero_div.
  pose proof (skip_total_facts o raw rs r Hcov Hrs Hr Hsup) as H. cbv zeta in H. destruct H as (Hp & _).
  apply Qeq_bool_false. intros H. rewrite H in Hp. exact (Qlt_irrefl _ Hp).
Qed.

(* the lines the guesser keeps are the lines whose key is not "M" *)
Lemma nonM_is_M (o : options QProb) raw rs : Forall (parsed_ok E) rs ->
  forall l : TextFile.str * Q, In l (base_file RQ (trained_of E o raw rs)) -> nonM (e_isalpha E) l = negb (isMline l).
Proof.
  intros Hrs [k p] Hl.
  assert (Hk : In k (map fst (base_file RQ (trained_of E o raw rs)))) by (apply in_map_iff; now exists (k, p)).
  unfold nonM, isMline. cbn [fst].
  destruct (base_file_keys RQ E o raw rs k Hk) as [->|(r & Hr & _ & ->)].
  - rewrite (toks_M E HE). reflexivity.
  - rewrite Forall_forall in Hrs. rewrite (toks_structure E HE r (Hrs r Hr)), has_M_labels.
    destruct (Loader.is_M (structure_of r)) eqn:Es; [|reflexivity].
    apply is_M_iff in Es. exfalso. exact (structure_not_M r (Hrs r Hr) Es).
Qed.

(* the kept base probabilities sum to 1 *)
Lemma loaded_bases_sum (o : options QProb) raw rs r :
  cov_ok o -> Forall (parsed_ok E) rs -> In r rs -> r_supported r = true ->
  (Qsum (map fst (loaded_bases RQ E (trained_of E o raw rs))) == 1)%Q.
Proof.
  intros Hcov Hrs Hr Hsup.
  pose proof (skip_total_facts o raw rs r Hcov Hrs Hr Hsup) as H. cbv zeta in H. destruct H as (Hp & Hsum).
  exact (kept_sum_generic (e_isalpha E) (base_file RQ (trained_of E o raw rs)) _ (nonM_is_M o raw rs Hrs) Hp Hsum).
Qed.

Lemma loaded_bases_nonneg (o : options QProb) raw rs r :
  cov_ok o -> Forall (parsed_ok E) rs -> In r rs -> r_supported r = true ->
  forall b, In b (loaded_bases RQ E (trained_of E o raw rs)) -> (0 <= fst b)%Q.
Proof.
  intros Hcov Hrs Hr Hsup b Hb.
  pose proof (skip_total_facts o raw rs r Hcov Hrs Hr Hsup) as H. cbv zeta in H. destruct H as (Hp & _).
  pose proof (base_file_facts o raw rs r Hcov Hrs Hr Hsup) as H. cbv zeta in H. destruct H as (_ & Hpos & _).
  unfold loaded_bases in Hb. apply in_map_iff in Hb. destruct Hb as ([k p] & <- & Hl). apply filter_In in Hl.
  destruct Hl as (Hl & _). cbn [fst snd]. apply Qle_shift_div_l; [exact Hp|]. rewrite Qmult_0_l. exact (Hpos k p Hl).
Qed.

(*  Q4  *)
Theorem loaded_wf_Q : forall (o : options QProb) raw rs r bl,
  cov_ok o -> Forall (parsed_ok E) rs -> In r rs -> r_supported r = true ->
  Forall2 (fun b x => bprob x = fst b /\ vars_of (grammar_of RQ (counters_of rs)) (snd b) = Some (brepl x))
          (loaded_bases RQ E (trained_of E o raw rs)) bl ->
  @wf QProb {| tbl := map (fun e => map snd (snd e)) (grammar_of RQ (counters_of rs)); bases := bl |}.
Proof.
  intros o raw rs r bl Hcov Hrs Hr Hsup HF. unfold wf. cbn [bases]. apply Forall_forall. intros x Hx.
  destruct (Forall2_in_r _ _ _ _ HF Hx) as (b & Hb & Hp & Hv). split.
  - rewrite Hp. apply QProb_okb_iff. exact (loaded_bases_nonneg o raw rs r Hcov Hrs Hr Hsup b Hb).
  - pose proof (loaded_bases_names RQ E HE o raw rs Hrs) as Hn. rewrite Forall_forall in Hn. specialize (Hn b Hb).
    apply vars_of_Forall2 in Hv. apply Forall_forall. intros v Hvin.
    destruct (Forall2_in_r _ _ _ _ Hv Hvin) as (name & Hname & Hvar).
    rewrite Forall_forall in Hn. destruct (Hn name Hname) as (items & Hne & Hin).
    destruct (loaded_var_groups RQ rs bl name _ v Hin Hvar) as (Hg & _). rewrite Hg. now apply groups_of_wf_Q.
Qed.

(* every variable of a kept base structure has mass 1 *)
Lemma loaded_var_mass (o : options QProb) raw rs bl x v :
  Forall (parsed_ok E) rs ->
  Forall2 (fun b x => bprob x = fst b /\ vars_of (grammar_of RQ (counters_of rs)) (snd b) = Some (brepl x))
          (loaded_bases RQ E (trained_of E o raw rs)) bl ->
  In x bl -> In v (brepl x) ->
  (var_mass {| tbl := map (fun e => map snd (snd e)) (grammar_of RQ (counters_of rs)); bases := bl |}
            (sizes_of (grammar_of RQ (counters_of rs))) v == 1)%Q.
Proof.
  intros Hrs HF Hx Hvin.
  destruct (Forall2_in_r _ _ _ _ HF Hx) as (b & Hb & _ & Hv).
  pose proof (loaded_bases_names RQ E HE o raw rs Hrs) as Hn. rewrite Forall_forall in Hn. specialize (Hn b Hb).
  apply vars_of_Forall2 in Hv. destruct (Forall2_in_r _ _ _ _ Hv Hvin) as (name & Hname & Hvar).
  rewrite Forall_forall in Hn. destruct (Hn name Hname) as (items & Hne & Hin).
  destruct (loaded_var_groups RQ rs bl name _ v Hin Hvar) as (Hg & Hsz).
  rewrite var_mass_combine by (rewrite Hg, Hsz, !map_length; reflexivity).
  rewrite Hg, Hsz, combine_map_map, map_map. cbn [fst snd]. exact (groups_of_mass_Q items Hne).
Qed.

Lemma bprobs_of_bases {X} (g : X -> option (list nat)) : forall (bs : list (Q * X)) (bl : list Qbstruct),
  Forall2 (fun (b : Q * X) (x : Qbstruct) => @bprob QProb x = fst b /\ g (snd b) = Some (brepl x)) bs bl ->
  map (@bprob QProb) bl = map fst bs.
Proof. induction 1 as [|b x bs bl (Hp & _) _ IH]; [reflexivity|]. cbn [map]. now rewrite Hp, IH. Qed.

(* ------------------------------------------------------------------ *)
(* the two top theorems for exact arithmetic                           *)
(* ------------------------------------------------------------------ *)

Lemma supported_of_pw (o : options QProb) raw pw r :
  parsed_ok E r -> segments E o raw pw = POk r -> supported_pw E o raw pw = true -> r_supported r = true.
Proof.
  intros Hok Eseg Hsup. unfold supported_pw in Hsup. rewrite Eseg in Hsup. destruct Hok as (_ & _ & Hc).
  destruct Hc as (_ & _ & _ & _ & _ & _ & _ & _ & _ & _ & _ & Hps & _). rewrite Hps in Hsup. exact Hsup.
Qed.

Lemma cov_nonzero (o : options QProb) : cov_ok o -> a_eqb RQ (o_cov o) (a_zero RQ) = false.
Proof. intros (H0 & _). apply Qeq_bool_false. intros H. rewrite H in H0. exact (Qlt_irrefl _ H0). Qed.

Theorem C03_reproduced_Q : forall (o : options QProb) raw tr pw,
  train E o raw = Some tr -> In pw raw -> accepted_pw E pw = true -> supported_pw E o raw pw = true -> case_ok_pw E pw ->
  cov_ok o ->
  exists L, pipeline_Q E o raw = Some L /\
    forall pop, pop_ok_okb pop ->
      (exists it, In it (session pop L) /\ exists out k, guesses_of RQ E L it = Some (out, k) /\ In pw out) /\
      In pw (printed RQ E pop L).
Proof.
  intros o raw tr pw Htr Hin Hacc Hsup Hcase Hcov.
  destruct (train_facts E HE o raw tr Htr) as (rs & Htr_eq & Hrs & Hpw).
  destruct (Hpw pw Hin Hacc) as (r & Hr & Eseg & _).
  assert (Hrsup : r_supported r = true).
  { rewrite Forall_forall in Hrs. exact (supported_of_pw o raw pw r (Hrs r Hr) Eseg Hsup). }
  pose proof (no_zero_div_Q o raw rs r Hcov Hrs Hr Hrsup) as Hz.
  destruct (reproduced_emitted RQ E HE o raw tr pw Htr Hin Hacc Hsup Hcase (cov_nonzero o Hcov)
              ltac:(rewrite Htr_eq; exact Hz)) as (L & HL & Hall).
  exists L. split.
  - unfold pipeline_Q, pipeline. rewrite Htr. exact HL.
  - apply Hall. subst tr. destruct (load_saved RQ E HE o raw rs Hrs Hz) as (bl & Hload & HF).
    rewrite Hload in HL. injection HL as <-. cbn [l_rs]. exact (loaded_wf_Q o raw rs r bl Hcov Hrs Hr Hrsup HF).
Qed.

Theorem C03_sum_one_Q : forall (o : options QProb) raw tr pw,
  train E o raw = Some tr -> In pw raw -> accepted_pw E pw = true -> supported_pw E o raw pw = true ->
  cov_ok o ->
  exists L, pipeline_Q E o raw = Some L /\
    forall pop, pop_ok_okb pop ->
      (Qsum (map (fun it : Qitem => iprob it * count_it (sizes_of (l_grammar L)) it)
                 (emitted (run pop (l_rs L) (NextSpec.total (l_rs L)) (start (l_rs L))))) == 1)%Q.
Proof.
  intros o raw tr pw Htr Hin Hacc Hsup Hcov.
  destruct (train_facts E HE o raw tr Htr) as (rs & Htr_eq & Hrs & Hpw).
  destruct (Hpw pw Hin Hacc) as (r & Hr & Eseg & _).
  assert (Hrsup : r_supported r = true).
  { rewrite Forall_forall in Hrs. exact (supported_of_pw o raw pw r (Hrs r Hr) Eseg Hsup). }
  pose proof (no_zero_div_Q o raw rs r Hcov Hrs Hr Hrsup) as Hz.
  destruct (load_saved RQ E HE o raw rs Hrs Hz) as (bl & Hload & HF).
  eexists. split.
  - unfold pipeline_Q, pipeline. rewrite Htr, Htr_eq. exact Hload.
  - intros pop Hpop. cbn [l_rs l_grammar]. apply QSum_emitted.
    + intros b Hb v Hv. cbn [bases] in Hb. exact (loaded_var_mass o raw rs bl b v Hrs HF Hb Hv).
    + exact (loaded_wf_Q o raw rs r bl Hcov Hrs Hr Hrsup HF).
    + exact Hpop.
    + cbn [bases]. rewrite (bprobs_of_bases _ _ _ HF). exact (loaded_bases_sum o raw rs r Hcov Hrs Hr Hrsup).
Qed.

End Q.

Print Assumptions C03_reproduced_Q.
Print Assumptions C03_sum_one_Q.
