(* PipelineStr.v - the strings the pipeline passes around: decimal numbers,
   file names, label strings, and what the guesser's tokenizer / case mangling /
   Markov test make of them. *)
From Coq Require Import List NArith ZArith Bool Lia.
From Pcfg Require Import Str Detect TextFile TextFileProofs Counters Loader LtallyProofs Pipeline.
Import ListNotations.

Definition is_digit (c : N) : bool := ((48 <=? c) && (c <=? 57))%N.

(* ---------------------------------------------------------------- decimal numbers *)

Lemma dec_digits_app : forall f n acc, dec_digits f n acc = dec_digits f n [] ++ acc.
Proof.
  induction f as [|f IH]; intros n acc; [reflexivity|].
  cbn [dec_digits]. destruct (n <? 10)%N; [reflexivity|].
  rewrite (IH _ (_ :: acc)), (IH _ [_]), <- app_assoc. reflexivity.
Qed.

Lemma digit_of_mod : forall n : N, is_digit (48 + n mod 10)%N = true.
Proof.
  intro n. unfold is_digit. assert (H : (n mod 10 < 10)%N) by (apply N.mod_lt; discriminate).
  revert H. generalize (n mod 10)%N. intros r H.
  apply andb_true_iff; split; apply N.leb_le; lia.
Qed.

Lemma dec_digits_digits : forall f n acc,
  forallb is_digit acc = true -> forallb is_digit (dec_digits f n acc) = true.
Proof.
  induction f as [|f IH]; intros n acc H; [exact H|].
  cbn [dec_digits].
  assert (H' : forallb is_digit ((48 + n mod 10)%N :: acc) = true)
    by (cbn [forallb]; rewrite digit_of_mod, H; reflexivity).
  destruct (n <? 10)%N; [exact H' | apply IH; exact H'].
Qed.

Lemma dec_of_N_digits : forall n : N, forallb is_digit (dec_of_N n) = true.
Proof. intro n. unfold dec_of_N. apply dec_digits_digits. reflexivity. Qed.

Lemma dec_digits_S_nonempty : forall f n, dec_digits (S f) n [] <> [].
Proof.
  intros f n. cbn [dec_digits]. destruct (n <? 10)%N; [discriminate|].
  rewrite dec_digits_app. intro H. apply app_eq_nil in H. destruct H as [_ H]. discriminate.
Qed.

Lemma dec_of_N_nonempty : forall n : N, dec_of_N n <> [].
Proof. intro n. unfold dec_of_N. apply dec_digits_S_nonempty. Qed.

Definition dec_val (s : TextFile.str) : N := fold_left (fun a c => a * 10 + (c - 48))%N s 0%N.

Lemma dec_val_snoc : forall s c, dec_val (s ++ [c]) = (dec_val s * 10 + (c - 48))%N.
Proof. intros s c. unfold dec_val. rewrite fold_left_app. reflexivity. Qed.

Lemma dec_val_digits : forall f n, (n < 2 ^ N.of_nat f)%N -> dec_val (dec_digits f n []) = n.
Proof.
  induction f as [|f IH]; intros n H.
  - change (2 ^ N.of_nat 0)%N with 1%N in H. assert (n = 0%N) by lia. subst. reflexivity.
  - cbn [dec_digits]. destruct (n <? 10)%N eqn:E.
    + apply N.ltb_lt in E. rewrite N.mod_small by exact E.
      unfold dec_val. cbn [fold_left]. lia.
    + apply N.ltb_ge in E. rewrite dec_digits_app, dec_val_snoc, IH.
      * assert (Hdm : n = (10 * (n / 10) + n mod 10)%N) by (apply N.div_mod; discriminate).
        revert Hdm. generalize (n / 10)%N (n mod 10)%N. intros q r Hdm. lia.
      * rewrite Nat2N.inj_succ, N.pow_succ_r' in H.
        apply N.div_lt_upper_bound; [discriminate | lia].
Qed.

Lemma dec_val_of_N : forall n : N, dec_val (dec_of_N n) = n.
Proof.
  intro n. unfold dec_of_N. apply dec_val_digits.
  rewrite Nat2N.inj_succ, N2Nat.id.
  destruct n as [|p]; [reflexivity|].
  apply N.log2_spec. reflexivity.
Qed.

Lemma dec_of_N_inj : forall n m : N, dec_of_N n = dec_of_N m -> n = m.
Proof.
  intros n m H. rewrite <- (dec_val_of_N n), <- (dec_val_of_N m), H. reflexivity.
Qed.

Lemma dec_of_Z_nonneg : forall z : Z, (0 <= z)%Z -> dec_of_Z z = dec_of_N (Z.to_N z).
Proof. intros [|p|p] H; [reflexivity | reflexivity | lia]. Qed.

Lemma dec_of_Z_of_nat : forall k : nat, dec_of_Z (Z.of_nat k) = dec_of_N (N.of_nat k).
Proof.
  intro k. rewrite dec_of_Z_nonneg by lia.
  rewrite <- nat_N_Z, N2Z.id. reflexivity.
Qed.

Lemma dec_of_Z_inj_nonneg : forall a b : Z, (0 <= a)%Z -> (0 <= b)%Z -> dec_of_Z a = dec_of_Z b -> a = b.
Proof.
  intros a b Ha Hb H. rewrite !dec_of_Z_nonneg in H by assumption.
  apply dec_of_N_inj in H. apply Z2N.inj; assumption.
Qed.

Lemma dec_of_Z_digits : forall z : Z, (0 <= z)%Z -> forallb is_digit (dec_of_Z z) = true.
Proof. intros z H. rewrite dec_of_Z_nonneg by exact H. apply dec_of_N_digits. Qed.

(* ---------------------------------------------------------------- file names *)

Lemma digits_no_dot : forall k : TextFile.str,
  forallb is_digit k = true -> none_of (N.eqb 46%N) k = true.
Proof.
  induction k as [|c k IH]; intro H; [reflexivity|].
  cbn [forallb] in H. apply andb_true_iff in H. destruct H as [Hc Hk].
  rewrite none_of_cons, IH by exact Hk. rewrite andb_true_r.
  unfold is_digit in Hc. apply andb_true_iff in Hc. destruct Hc as [H1 H2].
  apply N.leb_le in H1.
  destruct (N.eqb 46 c) eqn:E; [|reflexivity]. apply N.eqb_eq in E. lia.
Qed.

(* file names: name_of letter (file_name k) = letter ++ k when k has no '.' *)
Lemma name_of_file_name : forall (letter k : TextFile.str),
  forallb is_digit k = true -> name_of letter (file_name k) = letter ++ k.
Proof.
  intros letter k H. unfold name_of, file_name, dot_txt.
  rewrite split_on_app by (apply digits_no_dot; exact H). reflexivity.
Qed.

Lemma name_of_one_txt : forall letter : TextFile.str,
  name_of letter (file_name [49%N]) = letter ++ [49%N].
Proof. intro letter. apply name_of_file_name. reflexivity. Qed.

(* ---------------------------------------------------------------- the tokenizer *)

Section Tok.
Variable isalpha : N -> bool.
(* a token of a structure string: a letter followed by non-letters *)
Definition tok_ok (t : TextFile.str) : Prop :=
  match t with
  | c :: ds => isalpha c = true /\ forallb (fun d => negb (isalpha d)) ds = true
  | [] => False
  end.

Lemma tokenize_aux_tail : forall (ds r t : TextFile.str) (acc : list TextFile.str),
  forallb (fun d => negb (isalpha d)) ds = true ->
  Loader.tokenize_aux isalpha (ds ++ r) (t :: acc) = Loader.tokenize_aux isalpha r ((t ++ ds) :: acc).
Proof.
  induction ds as [|d ds IH]; intros r t acc H.
  - rewrite app_nil_r. reflexivity.
  - cbn [forallb] in H. apply andb_true_iff in H. destruct H as [Hd Hds].
    cbn [app Loader.tokenize_aux].
    destruct (isalpha d); [discriminate|].
    rewrite IH by exact Hds. rewrite <- app_assoc. reflexivity.
Qed.

Lemma tokenize_aux_concat : forall (ls acc : list TextFile.str),
  Forall tok_ok ls -> Loader.tokenize_aux isalpha (concat ls) acc = Some (rev acc ++ ls).
Proof.
  induction ls as [|t ls IH]; intros acc H.
  - cbn [concat Loader.tokenize_aux]. rewrite app_nil_r. reflexivity.
  - inversion H as [|? ? Ht Hls]; subst.
    destruct t as [|c ds]; [destruct Ht|]. destruct Ht as [Hc Hds].
    cbn [concat app Loader.tokenize_aux]. rewrite Hc.
    rewrite tokenize_aux_tail by exact Hds.
    rewrite IH by exact Hls. cbn [rev app]. rewrite <- app_assoc. reflexivity.
Qed.

Lemma tokenize_concat : forall ls : list TextFile.str,
  Forall tok_ok ls -> Loader.tokenize isalpha (concat ls) = Some ls.
Proof. intros ls H. unfold Loader.tokenize. rewrite tokenize_aux_concat by exact H. reflexivity. Qed.

(* what the proofs need of isalpha on the characters of structure strings *)
Hypothesis letters_alpha : forallb isalpha [75; 69; 87; 89; 88; 65; 68; 79; 77]%N = true.
Hypothesis digits_not_alpha : forall d, is_digit d = true -> isalpha d = false.

(* a label whose length field is non-negative *)
Definition label_nonneg (l : label) : Prop :=
  match l with LK n | LA n | LD n | LO n => (0 <= n)%Z | _ => True end.

Lemma letter_alpha : forall c, In c [75; 69; 87; 89; 88; 65; 68; 79; 77]%N -> isalpha c = true.
Proof. intros c H. exact (proj1 (forallb_forall _ _) letters_alpha c H). Qed.

Lemma digits_none_alpha : forall s : TextFile.str,
  forallb is_digit s = true -> forallb (fun d => negb (isalpha d)) s = true.
Proof.
  induction s as [|c s IH]; intro H; [reflexivity|].
  cbn [forallb] in *. apply andb_true_iff in H. destruct H as [Hc Hs].
  rewrite (digits_not_alpha c Hc), IH by exact Hs. reflexivity.
Qed.

Lemma label_str_tok_ok : forall l, label_nonneg l -> tok_ok (label_str l).
Proof.
  intros l H.
  destruct l; cbn [label_str tok_ok label_nonneg] in *;
    (split; [apply letter_alpha; cbn [In]; tauto|]);
    try (apply digits_none_alpha, dec_of_Z_digits; exact H);
    try (apply digits_none_alpha; reflexivity).
Qed.

Lemma tokenize_labels : forall ls : list label, Forall label_nonneg ls ->
  Loader.tokenize isalpha (structure (map label_str ls)) = Some (map label_str ls).
Proof.
  intros ls H. unfold structure. apply tokenize_concat.
  induction H as [|l ls Hl Hls IH]; cbn [map]; constructor; [apply label_str_tok_ok; exact Hl | exact IH].
Qed.

Lemma tokenize_M : Loader.tokenize isalpha [77%N] = Some [[77%N]].
Proof.
  unfold Loader.tokenize. cbn [Loader.tokenize_aux].
  rewrite (letter_alpha 77%N) by (cbn [In]; tauto). reflexivity.
Qed.
End Tok.

(* ---------------------------------------------------------------- the Markov token *)

Lemma is_M_label : forall l : label, Loader.is_M (label_str l) = false.
Proof. intro l. destruct l; reflexivity. Qed.

(* the Markov token never is a label *)
Lemma has_M_labels : forall ls : list label, Loader.has_M (map label_str ls) = false.
Proof.
  unfold Loader.has_M. induction ls as [|l ls IH]; [reflexivity|].
  cbn [map existsb]. rewrite is_M_label, IH. reflexivity.
Qed.

Lemma has_M_M : Loader.has_M [[77%N]] = true.
Proof. reflexivity. Qed.

Lemma is_M_iff : forall s : TextFile.str, Loader.is_M s = true <-> s = [77%N].
Proof.
  intro s. unfold Loader.is_M, ExpandCorr.str_eqb, Loader.chM.
  destruct s as [|c [|d r]]; cbn [ExpandCorr.leqb]; split; intro H; try discriminate.
  - rewrite andb_true_r in H. apply N.eqb_eq in H. subst. reflexivity.
  - inversion H; subst. reflexivity.
  - rewrite andb_false_r in H. discriminate.
Qed.

(* ---------------------------------------------------------------- case mangling *)

(* case mangling: a C<len> after every A<len>, nothing else *)
Definition names_of_label (l : label) : list TextFile.str :=
  match l with
  | LA n => [label_str l; 67%N :: dec_of_Z n]
  | _ => [label_str l]
  end.

Lemma insert_caps_labels : forall ls : list label,
  Loader.insert_caps (map label_str ls) = flat_map names_of_label ls.
Proof.
  induction ls as [|l ls IH]; [reflexivity|].
  cbn [map flat_map]. rewrite <- IH.
  destruct l; reflexivity.
Qed.

(* ---------------------------------------------------------------- supportedness *)

(* supportedness computed on the label strings = on the labels *)
Definition supported_label' (l : label) : bool := match l with LW | LE => false | _ => true end.

Lemma supported_labels : forall ls : list label,
  Counters.supported (map label_str ls) = forallb supported_label' ls.
Proof.
  unfold Counters.supported. induction ls as [|l ls IH]; [reflexivity|].
  cbn [map forallb]. rewrite IH. f_equal.
  destruct l; reflexivity.
Qed.

(* ---------------------------------------------------------------- injectivity *)

(* label strings are injective on labels with non-negative length fields *)
Lemma label_str_inj : forall a b : label, label_nonneg a -> label_nonneg b -> label_str a = label_str b -> a = b.
Proof.
  intros a b Ha Hb H.
  destruct a, b; cbn [label_str label_nonneg] in *; try discriminate H; try reflexivity;
    injection H as H; apply dec_of_Z_inj_nonneg in H; try assumption; subst; reflexivity.
Qed.

Print Assumptions dec_of_N_inj.
Print Assumptions tokenize_labels.
Print Assumptions insert_caps_labels.
