(* PipelineCorr.v - the pipeline model of Pipeline.v instantiated with the
   constants regenerated from the source (gen/Consts_gen.v), the Unicode facts
   of the running interpreter (gen/Unicode_gen.v, extended per case with the
   characters of the case) and finite repr / float() tables, and its comparison
   with what the real trainer -> guesser produced.  Evaluated by vm_compute in
   the generated case files of C03. *)
From Coq Require Import String List NArith ZArith QArith Bool Floats.
From Pcfg Require Import ProbAlg F64 QProb Str Multiword Detect Segment SegCorr TextFile Counters Reader Loader
     Next NextSpec Expand IoCorr Pipeline PipelineSpec.
From PcfgGen Require Import Consts_gen Unicode_gen.
Import ListNotations.

(* ---- instance *)

Definition env_of (t : utable) : env :=
  {| e_isalpha := uni_alpha t; e_isdigit := uni_digit t; e_isupper := uni_upper t;
     e_lower := uni_lower t; e_upper := uni_upperc t;
     e_aligned := seg_lower_aligned; e_kbs := c_kbs; e_fp_words := kb_false_positive_words; e_min_run := c_min_run;
     e_tlds := tld_list; e_year_prefixes := year_prefixes; e_context := context_strings;
     e_mw_threshold := c_threshold; e_mw_min_len := c_min_len; e_mw_max_len := c_max_len;
     e_rejected := check_valid_rejected; e_rej_empty := check_valid_rejects_empty;
     e_rewinds := skip_brute_rewinds_without_M;
     e_omen := fun _ => [] |}.

(* the instance the theorems of Props/C03.v are stated for *)
Definition c_env : env := env_of unicode_table.

Definition io_of (rt : list (float * TextFile.str)) (pt : list (TextFile.str * option float)) (unenc : list N) (abort : bool)
  : fileio :=
  {| f_lb := LB; f_ws := WS; f_repr := tbl_repr rt; f_pfloat := tbl_pfloat pt;
     f_encb := encb_of unenc; f_onfail := onfail_of abort |}.

(* ---- comparison *)

Fixpoint sins (x : Str.str) (l : list Str.str) : list Str.str :=
  match l with
  | [] => [x]
  | y :: r => if str_ltb y x then y :: sins x r else x :: l
  end.
Definition ssort (l : list Str.str) : list Str.str := fold_right sins [] l.

Record pipe_case := {
  pk_extra : list (N * cinfo);                       (* facts of the characters of the case *)
  pk_raw : list Str.str;                             (* decoded lines of the training file *)
  pk_cov : float;
  pk_repr : list (float * TextFile.str);             (* str(p) of every probability in the rule files *)
  pk_pfloat : list (TextFile.str * option float);    (* float() of every field of the rule files *)
  pk_unenc : list N;
  pk_abort : bool;
  (* what the real trainer -> PcfgGrammar(skip_brute=True) -> session produced; None = no ruleset / not loadable *)
  pk_exp : option (list (TextFile.str * list (list TextFile.str * float))   (* grammar, dict order *)
                   * list (float * list TextFile.str)                       (* base structures *)
                   * list Str.str)                                          (* all guesses, sorted *)
}.

Definition run_case (c : pipe_case) : option (loaded F64) :=
  pipeline_F64 (env_of (utable_of (unicode_facts ++ pk_extra c)))
               (io_of (pk_repr c) (pk_pfloat c) (pk_unenc c) (pk_abort c))
               {| o_cov := pk_cov c : P F64; o_sensitive := false; o_multiword := [] |} (pk_raw c).

(* the computable hypothesis of C03_reproduced_F64 on this training run *)
Definition case_arith_ok (c : pipe_case) : bool :=
  let E := env_of (utable_of (unicode_facts ++ pk_extra c)) in
  match @train F64 E {| o_cov := pk_cov c : P F64; o_sensitive := false; o_multiword := [] |} (pk_raw c) with
  | Some tr => f64_arith_ok E tr
  | None => true
  end.

Definition group_eqb2 (a b : list TextFile.str * float) : bool :=
  leqb TextFile.str_eqb (fst a) (fst b) && fsame (snd a) (snd b).

Definition names_of (L : loaded F64) (b : bstruct F64) : list TextFile.str :=
  map (fun v => fst (nth v (l_grammar L) ([], []))) (brepl b).

Definition check_pipeline (c : pipe_case) : bool :=
  match run_case c, pk_exp c with
  | None, None => true
  | Some L, Some (g, bs, guesses) =>
      leqb (fun a b => TextFile.str_eqb (fst a) (fst b) && leqb group_eqb2 (snd a) (snd b)) (l_grammar L) g &&
      leqb (fun (a : bstruct F64) (b : float * list TextFile.str) => fsame (bprob a : float) (fst b) && leqb TextFile.str_eqb (names_of L a) (snd b)) (bases (l_rs L)) bs &&
      leqb TextFile.str_eqb
           (ssort (printed RF (env_of (utable_of (unicode_facts ++ pk_extra c))) pop_first_max L)) guesses &&
      case_arith_ok c
  | _, _ => false
  end.

(* which part differs (for the report) : 0 ok, 1 loadability, 2 grammar, 3 base structures, 4 guesses,
   5 the float sanity check f64_arith_ok is false on this run *)
Definition diagnose (c : pipe_case) : nat :=
  match run_case c, pk_exp c with
  | None, None => 0
  | Some L, Some (g, bs, guesses) =>
      if negb (leqb (fun a b => TextFile.str_eqb (fst a) (fst b) && leqb group_eqb2 (snd a) (snd b)) (l_grammar L) g) then 2
      else if negb (leqb (fun (a : bstruct F64) (b : float * list TextFile.str) => fsame (bprob a : float) (fst b) && leqb TextFile.str_eqb (names_of L a) (snd b)) (bases (l_rs L)) bs) then 3
      else if negb (leqb TextFile.str_eqb
                     (ssort (printed RF (env_of (utable_of (unicode_facts ++ pk_extra c))) pop_first_max L)) guesses) then 4
      else if negb (case_arith_ok c) then 5
      else 0
  | _, _ => 1
  end%nat.
