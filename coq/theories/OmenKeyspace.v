(* OmenKeyspace.v -- models for C18.  Definitions only.

   _rec_calc_keyspace (/repo/lib_trainer/omen/evaluate_password.py:69-118)
   with its cache (grammar[ip]['keyspace_cache'][length][level]) as an explicit
   finite map threaded through; calc_omen_keyspace (:121-187) with the level
   loop, the IP loop, the length loop and the max_keyspace cut-off; the
   probability written to pcfg_omen_prob.txt (omen_file_output.py:160-196).

   The two comparisons of calc_omen_keyspace the property depends on are
   PARAMETERS of the model; their current values are extracted from the source
   on every run (gen/Consts_gen.v: keyspace_ip_guard_strict,
   keyspace_len_skip_le):
     ip_strict = true   <->  `if level_minus_ip > 0:`   (false: `>= 0`)
     len_le    = true   <->  `if length <= omen_trainer.ngram: continue` (false: `<`) *)
From Coq Require Import List Arith Bool NArith ZArith Floats Uint63.
From Pcfg Require Import OmenSpec OmenLevel.
Import ListNotations.

(* ------------------------------------------------------------------ *)
(* the cache: (ip, length, level) -> count                              *)

Definition ckey := (ostr * nat * nat)%type.
Definition cache := list (ckey * N).

(* written with nested ifs so that vm_compute (strict) stops at the first difference *)
Definition ckey_eqb (a b : ckey) : bool :=
  match a, b with
  | (p, k, l), (p', k', l') =>
      if Nat.eqb l l' then if Nat.eqb k k' then ostr_eqb p p' else false else false
  end.

Fixpoint cache_find (c : cache) (key : ckey) : option N :=
  match c with
  | [] => None
  | (k, v) :: r => if ckey_eqb k key then Some v else cache_find r key
  end.

Definition cache_add (key : ckey) (v : N) (c : cache) : cache := (key, v) :: c.

(* the letters after prefix ip: grammar[ip]['next_letter'].items() (dict order).
   A prefix missing from the grammar is a KeyError in the code; the trainer's
   tables are closed under shifting (see [closed]), the model returns [] *)
Definition letters (T : ttab) (ip : ostr) : list (N * nat) :=
  match find_entry ip (tt_grammar T) with
  | Some e => te_next e
  | None => []
  end.

(* _rec_calc_keyspace(level, length = k, ip); recursion on the length *)
Fixpoint rec_ks (T : ttab) (k : nat) (c : cache) (lvl : nat) (ip : ostr) {struct k} : N * cache :=
  match k with
  | 0 => (0%N, c)                      (* never called with length 0 *)
  | S k' =>
      match cache_find c (ip, k, lvl) with
      | Some v => (v, c)
      | None =>
          let vc :=
            match k' with
            | 0 =>
                (* last letter: exact level *)
                (N.of_nat (length (filter (fun cl => Nat.eqb (snd cl) lvl) (letters T ip))), c)
            | S _ =>
                fold_left
                  (fun (acc : N * cache) (cl : N * nat) =>
                     if Nat.leb (snd cl) lvl then
                       let r := rec_ks T k' (snd acc) (lvl - snd cl) (shift ip (fst cl)) in
                       (N.add (fst acc) (fst r), snd r)
                     else acc)
                  (letters T ip) (0%N, c)
            end in
          (fst vc, cache_add (ip, k, lvl) (fst vc) (snd vc))
      end
  end.

(* ------------------------------------------------------------------ *)
(* calc_omen_keyspace                                                   *)

Record ks_state := mk_ks_state {
  ks_done    : list (nat * N);   (* the Counter: listed levels, insertion order *)
  ks_cache   : cache;
  ks_stopped : bool              (* the early `return keyspace` was taken *)
}.

(* state inside one level *)
Record lv_state := mk_lv_state {
  lv_sum     : N;                (* keyspace[level] so far *)
  lv_touched : bool;             (* keyspace[level] += ... was executed: level is listed *)
  lv_cache   : cache;
  lv_stop    : bool
}.

Definition ip_guard (ip_strict : bool) (lmi : Z) : bool :=
  if ip_strict then (0 <? lmi)%Z else (0 <=? lmi)%Z.

Definition len_skipped (len_le : bool) (len ngram : nat) : bool :=
  if len_le then Nat.leb len ngram else Nat.ltb len ngram.

(* the innermost loop body: one (ip, length) pair *)
Definition ks_step_len (T : ttab) (maxks : N) (len_le : bool) (ip : ostr) (lmi : nat)
           (st : lv_state) (len_lvl : nat * nat) : lv_state :=
  let (len, li) := len_lvl in
  if lv_stop st then st
  else if len_skipped len_le len (tt_ngram T) then st
  else if Nat.leb li lmi then
    let r := rec_ks T (len - tt_ngram T + 1) (lv_cache st) (lmi - li) ip in
    let s := N.add (lv_sum st) (fst r) in
    mk_lv_state s true (snd r) (N.ltb maxks s)
  else st.

(* enumerate(ln_lookup) with length += 1 *)
Definition len_levels (T : ttab) : list (nat * nat) :=
  combine (seq 1 (length (tt_ln T))) (tt_ln T).

Definition ks_step_ip (T : ttab) (maxks : N) (ip_strict len_le : bool) (level : nat)
           (st : lv_state) (e : tentry) : lv_state :=
  if lv_stop st then st
  else
    let lmi := (Z.of_nat level - Z.of_nat (te_ip e))%Z in
    if ip_guard ip_strict lmi then
      fold_left (ks_step_len T maxks len_le (te_key e) (Z.to_nat lmi)) (len_levels T) st
    else st.

Definition ks_level (T : ttab) (maxks : N) (ip_strict len_le : bool) (c : cache) (level : nat) : lv_state :=
  fold_left (ks_step_ip T maxks ip_strict len_le level) (tt_grammar T) (mk_lv_state 0%N false c false).

Definition ks_step_level (T : ttab) (maxks : N) (ip_strict len_le : bool)
           (st : ks_state) (level : nat) : ks_state :=
  if ks_stopped st then st
  else
    let r := ks_level T maxks ip_strict len_le (ks_cache st) level in
    mk_ks_state (if lv_touched r then ks_done st ++ [(level, lv_sum r)] else ks_done st)
                (lv_cache r) (lv_stop r).

(* calc_omen_keyspace(trainer, max_level, max_keyspace) started on cache c *)
Definition calc_keyspace (T : ttab) (max_level : nat) (maxks : N) (ip_strict len_le : bool) (c : cache) : ks_state :=
  fold_left (ks_step_level T maxks ip_strict len_le) (seq 1 max_level) (mk_ks_state [] c false).

Definition keyspace_of (st : ks_state) (level : nat) : option N :=
  option_map snd (find (fun e => Nat.eqb (fst e) level) (ks_done st)).

(* ------------------------------------------------------------------ *)
(* pcfg_omen_prob                                                       *)

(* int -> float as Python does for operands of `/` (exact below 2^53; the
   model is only claimed for counts below 2^63) *)
Definition float_of_N (n : N) : float := PrimFloat.of_uint63 (Uint63.of_Z (Z.of_N n)).

(* for (level, keyspace) in omen_keyspace.items(): skip keyspace 0;
   prob = (omen_levels_count[level] / num_valid_passwords) / keyspace *)
Definition omen_prob (count_at_level : nat -> nat) (nvalid : nat) (ks : list (nat * N)) : list (nat * float) :=
  flat_map (fun e =>
    if N.eqb (snd e) 0 then []
    else [(fst e,
           PrimFloat.div (PrimFloat.div (float_of_N (N.of_nat (count_at_level (fst e)))) (float_of_N (N.of_nat nvalid)))
                         (float_of_N (snd e)))])
    ks.

(* ------------------------------------------------------------------ *)
(* closure of the trainer's tables: every transition leads to a prefix that
   is a key of the grammar (AlphabetLookup.parse creates it at the next
   position); without it _rec_calc_keyspace raises KeyError *)
Definition closedb (T : ttab) : bool :=
  forallb (fun e =>
    forallb (fun cl =>
      match find_entry (shift (te_key e) (fst cl)) (tt_grammar T) with Some _ => true | None => false end)
      (te_next e))
    (tt_grammar T).
