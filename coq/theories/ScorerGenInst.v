(* C13 over the translated source: the theorems of ScorerInst.v / Props/C13.v
   restated for gen/Scorer_gen.v `py_pcfg_scorer_parse` (the line-by-line image of
   PCFGPasswordScorer.parse, regenerated on every run) with the detectors of
   Detect.v / Segment.v and the constants and Unicode facts of this run. *)
From Coq Require Import List ZArith NArith Bool Lia QArith Sorting.Permutation.
From Pcfg Require Import Str Multiword Detect Segment SegCorr Scorer ScorerCorr DetectProofsStr DetectProofsDrive DetectProofsSimple
     DetectProofsSeg DetectProofsCount DetectProofsPipe DetectProofsInst ScorerProofs ScorerInst.
From Pcfg Require Import ProbAlg Next NextSpec NextProofs QProb Expand ScorerGuesser.
From Pcfg Require Import ScorerRt ScorerGenProofs.
From PcfgGen Require Import Consts_gen Unicode_gen Scorer_gen.
Import ListNotations.
Open Scope Z_scope.

(* the detectors with the constants of the current source: exactly the chain
   of parse_s (ScorerCorr.v) *)
Definition c_detectors : detectors :=
  model_detectors c_isalpha c_isdigit c_isupper c_lower seg_lower_aligned c_kbs kb_false_positive_words c_min_run tld_list
                  year_prefixes context_strings s_threshold s_min_len s_max_len.

(* the segmentation never raises (C05 for non-empty strings; the empty string
   by evaluation) *)
Lemma parse_s_total m s : parse_s m s <> PErr.
Proof.
  destruct s as [|c s]; [vm_compute; discriminate|].
  unfold parse_s. rewrite side_lower_aligned.
  destruct (DetectProofsPipe.parse_full c_isalpha c_isdigit c_isupper c_lower c_kbs kb_false_positive_words c_min_run tld_list
              year_prefixes context_strings s_threshold s_min_len s_max_len side_scorer_min_len side_year_prefixes
              side_tlds_nonempty side_min_run m (c :: s) (good_all _) ltac:(discriminate)) as (r & Er & _).
  rewrite Er. discriminate.
Qed.

Section AnyP.
Variable P : Type.
Variable pmul : P -> P -> P.
Variables p0 p1 : P.
Variables pltb pleb peqb : P -> P -> bool.

Notation py_parse := (py_pcfg_scorer_parse P pmul p0 p1 pltb pleb peqb c_upper c_detectors).
Notation result := (ScorerRt.parse_result P pmul p0 p1 c_upper).

(* the translated parse returns, for EVERY scorer object and string, the four
   values the model determines *)
Theorem source_parse_result : forall self s,
  exists r b, parse_s (multiword_detector self) s = POk r /\ py_parse self s = Ok (result b self s r).
Proof.
  intros self s. destruct (parse_s (multiword_detector self) s) as [|r] eqn:E; [exfalso; exact (parse_s_total _ _ E)|].
  unfold parse_s in E.
  destruct (gen_ok P pmul p0 p1 pltb pleb peqb c_upper _ _ _ _ _ _ _ _ _ _ _ _ _ _ self s r E) as (b & Eb).
  exists r, b. split; [reflexivity|exact Eb].
Qed.

(* ... hence (category as e / w / other, probability) is Scorer.score, the
   model the theorems of C13 are about, with the rebuild check the source has *)
Theorem source_parse_is_model : forall self s,
  res_map (view P) (py_parse self s) =
  lift (score P pmul p0 p1 scorer_rebuild_check c_upper (parse_s (multiword_detector self)) (rs_of self) s).
Proof.
  intros self s. rewrite side_rebuild_check. unfold parse_s.
  apply gen_is_score. exact (parse_s_total _ _).
Qed.

(* the other two values and the category letters: the password itself, the
   OMEN score, one of e w o p; the classification cut-off (whatever its test
   is) chooses between o and p and never reaches the probability *)
Theorem source_parse_shape : forall self s pw c p o, py_parse self s = Ok (pw, c, p, o) ->
  pw = s /\ o = omen_parse (omen self) s /\
  score P pmul p0 p1 scorer_rebuild_check c_upper (parse_s (multiword_detector self)) (rs_of self) s = Some (cat_of_str c, p) /\
  (c = s_e \/ c = s_w \/ c = s_o \/ c = s_p).
Proof.
  intros self s pw c p o H. destruct (source_parse_result self s) as (r & b & Er & Eg). rewrite Eg in H.
  pose proof (parse_result_shape P pmul p0 p1 c_upper b self s r) as Hs.
  pose proof (parse_result_view P pmul p0 p1 c_upper _ b self s r Er) as Hv.
  injection H as H. rewrite H in Hs, Hv. rewrite side_rebuild_check. cbn [view] in Hv. tauto.
Qed.

(* e-mails and websites: classified as such, probability 0 *)
Theorem source_email_website_zero : forall self s r, parse_s (multiword_detector self) s = POk r ->
  (p_emails r <> [] -> py_parse self s = Ok (s, s_e, p0, omen_parse (omen self) s)) /\
  (p_emails r = [] -> p_urls r <> [] -> py_parse self s = Ok (s, s_w, p0, omen_parse (omen self) s)).
Proof.
  intros self s r E. destruct (source_parse_result self s) as (r' & b & Er & Eg). rewrite E in Er. injection Er as <-.
  rewrite Eg. unfold ScorerRt.parse_result. split.
  - intros H. apply nonempty_true in H. now rewrite H.
  - intros H1 H2. rewrite H1. apply nonempty_true in H2. cbn [nonempty]. now rewrite H2.
Qed.

(* the score does not depend on the cut-off, the OMEN scorer or anything else
   in the object but the tables and the multi-word detector *)
Theorem source_pure : forall self1 self2 s,
  rs_of self1 = rs_of self2 -> multiword_detector self1 = multiword_detector self2 ->
  res_map (view P) (py_parse self1 s) = res_map (view P) (py_parse self2 s).
Proof.
  intros self1 self2 s Hr Hm. rewrite !source_parse_is_model. now rewrite Hr, Hm.
Qed.

End AnyP.

(* ---- over exact rationals: the promise *)
Definition Qltb (a b : Q) : bool := match Qcompare a b with Lt => true | _ => false end.
Definition Qleb (a b : Q) : bool := match Qcompare a b with Gt => false | _ => true end.
Notation py_parse_Q := (py_pcfg_scorer_parse Q Qmult 0%Q 1%Q Qltb Qleb Qeq_bool c_upper c_detectors).

Lemma source_score_Q : forall (self : scorer_obj Q) s pw c p o, py_parse_Q self s = Ok (pw, c, p, o) ->
  score_c (parse_s (multiword_detector self)) (rs_of self) s = Some (cat_of_str c, p).
Proof. intros self s pw c p o H. exact (proj1 (proj2 (proj2 (source_parse_shape Q Qmult 0%Q 1%Q Qltb Qleb Qeq_bool self s pw c p o H)))). Qed.

Theorem source_promise_derivation : forall (self : scorer_obj Q) s pw c p o, s <> [] ->
  py_parse_Q self s = Ok (pw, c, p, o) -> ~ (p == 0)%Q -> c_generates (rs_of self) s p.
Proof.
  intros self s pw c p o Hne H Hp.
  exact (promise_c (rs_of self) (multiword_detector self) s _ p Hne (source_score_Q self s pw c p o H) Hp).
Qed.

Theorem source_promise_emitted : forall (self : scorer_obj Q) s pw c p o, s <> [] ->
  py_parse_Q self s = Ok (pw, c, p, o) -> ~ (p == 0)%Q ->
  wf (guesser_view (rs_of self)) -> forall pop, pop_ok_okb pop ->
  exists it : item QProb,
    In it (emitted (Next.run pop (guesser_view (rs_of self)) (total (guesser_view (rs_of self))) (start (guesser_view (rs_of self))))) /\
    In s (denote c_upper (segs_of (rs_of self) it)) /\ (iprob it == p)%Q.
Proof.
  intros self s pw c p o Hne H Hp.
  exact (promise_emitted_c (rs_of self) (multiword_detector self) s _ p Hne (source_score_Q self s pw c p o H) Hp).
Qed.

(* a section whose length, value, mask or base structure is missing: the
   translated parse returns probability 0 *)
Theorem source_missing_is_zero : forall (self : scorer_obj Q) s r,
  parse_s (multiword_detector self) s = POk r ->
  (base_get Q (count_base_structures self) (p_base r) = None \/
   (exists w, In w (p_walks r) /\ lookupQ (count_keyboard self) w = None) \/
   (exists w, In w (p_alpha r) /\ lookupQ (count_alpha self) w = None) \/
   (exists w, In w (p_masks r) /\ lookupQ (count_alpha_masks self) w = None) \/
   (exists w, In w (p_digits r) /\ lookupQ (count_digits self) w = None) \/
   (exists w, In w (p_other r) /\ lookupQ (count_other self) w = None)) ->
  exists pw c p o, py_parse_Q self s = Ok (pw, c, p, o) /\ (p == 0)%Q.
Proof.
  intros self s r E Hm. destruct (source_parse_result Q Qmult 0%Q 1%Q Qltb Qleb Qeq_bool self s) as (r' & b & Er & Eg).
  rewrite E in Er. injection Er as <-. rewrite Eg. unfold ScorerRt.parse_result.
  pose proof (missing_is_zero (rs_of self) r Hm) as Hz.
  destruct (nonempty (p_emails r)); [do 4 eexists; split; [reflexivity|reflexivity]|].
  destruct (nonempty (p_urls r)); [do 4 eexists; split; [reflexivity|reflexivity]|].
  destruct (negb (p_supported r)); [do 4 eexists; split; [reflexivity|reflexivity]|].
  cbv zeta. do 4 eexists. split; [reflexivity|]. destruct (negb (rebuild_ok c_upper r)); [reflexivity|exact Hz].
Qed.

(* ---- the hypotheses are satisfiable: the ruleset of ScorerInst.v in a scorer
   object with the default cut-off and no OMEN level *)
Definition self_sharp : scorer_obj Q :=
  {| count_keyboard := r_keyboard Q rs_sharp; count_years := r_years Q rs_sharp; count_context_sensitive := r_context Q rs_sharp;
     count_alpha := r_alpha Q rs_sharp; count_alpha_masks := r_masks Q rs_sharp; count_digits := r_digits Q rs_sharp;
     count_other := r_other Q rs_sharp; count_base_structures := r_bases Q rs_sharp;
     multiword_detector := scorer_mw_Q rs_sharp; limit := 0%Q;
     omen := {| omen_parse := fun _ => -1; max_omen_level := 0 |} |}.

Lemma source_demo :
  py_parse_Q self_sharp w_sharp_lower = Ok (w_sharp_lower, s_p, (1 * 1 * (1#2) * 1)%Q, -1) /\
  py_parse_Q self_sharp w_sharp = Ok (w_sharp, s_o, 0%Q, -1) /\
  c_generates (rs_of self_sharp) w_sharp_lower (1 * 1 * (1#2) * 1)%Q.
Proof.
  assert (E : py_parse_Q self_sharp w_sharp_lower = Ok (w_sharp_lower, s_p, (1 * 1 * (1#2) * 1)%Q, -1))
    by (vm_compute; reflexivity).
  split; [exact E|]. split; [vm_compute; reflexivity|].
  apply (source_promise_derivation self_sharp w_sharp_lower _ _ _ _ ltac:(discriminate) E).
  intros H. vm_compute in H. discriminate.
Qed.
