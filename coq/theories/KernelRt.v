(* Runtime of the generated kernel (gen/Kernel_gen.v, written on every run by
   harness/translate_kernel.py from the Python source of the guesser's "next"
   kernel).  The translator emits nothing but lets, ifs, record literals, calls
   of previously generated functions and the few combinators below, so that the
   generated text is a line-by-line image of the Python.  Definitions only; the
   lemmas about them are in KernelGenProofs.v.

   Conventions of the translation (see the translator's docstring):
   * Python ints are naturals; a subtraction is accepted by the translator only
     where a dominating test shows the value is positive.
   * Python lists are Coq lists; copy.copy / list() / .copy() / [:] is the
     identity; `l[i] = x` on a fresh local copy is [set_nth]; `l.append(x)` is
     [append]; a list comprehension is [map] (over [filter]).
   * A call of another method of the class is inlined: its body, translated in
     place, with the parameters let-bound to the arguments.
   * The undefined values are explicit first parameters of every generated
     function (which ones: fixed per function by the translator).
   * An exception (IndexError / KeyError of a subscript) is not modelled: the
     subscript [sub d l i] is total, [d] being an arbitrary "undefined" value
     the generated section is parameterised by.  The equalities with the
     hand-written model are therefore stated for indices in range, for every
     choice of the undefined values.
   * A for loop is a fold over the iterated list whose body says, per
     iteration, [Continue s] (next iteration, loop-carried variables s; also the
     translation of `continue`) or [Return r] (the enclosing function returns
     r); what follows the loop is the continuation [k]. *)
From Coq Require Import List Arith.
Import ListNotations.

Inductive ctl (R St : Type) : Type :=
| Continue (s : St)
| Return (r : R).
Arguments Continue {R St} s.
Arguments Return {R St} r.

Section Loops.
Context {X R St : Type}.

(* the loop proper: i is the position of the head of l in the iterated list *)
Fixpoint for_from (i : nat) (l : list X) (body : nat -> X -> St -> ctl R St) (s : St) (k : St -> R) : R :=
  match l with
  | [] => k s
  | x :: r =>
      match body i x s with
      | Continue s' => for_from (S i) r body s' k
      | Return v => v
      end
  end.

(* for pos, x in enumerate(l): body *)
Definition for_enum (l : list X) (body : nat -> X -> St -> ctl R St) (s : St) (k : St -> R) : R :=
  for_from 0 l body s k.

(* for x in l: body *)
Definition for_each (l : list X) (body : X -> St -> ctl R St) (s : St) (k : St -> R) : R :=
  for_from 0 l (fun _ => body) s k.

End Loops.

(* for pos in range(a, b): body *)
Definition for_range {R St : Type} (a b : nat) (body : nat -> St -> ctl R St) (s : St) (k : St -> R) : R :=
  for_each (seq a (b - a)) body s k.

(* l[i]   (d: the value of a subscript that raises in Python) *)
Definition sub {X : Type} (d : X) (l : list X) (i : nat) : X := nth i l d.

(* l[i] = x  on a list no other name refers to *)
Fixpoint set_nth {X : Type} (l : list X) (i : nat) (x : X) : list X :=
  match l, i with
  | [], _ => []
  | _ :: r, O => x :: r
  | y :: r, S j => y :: set_nth r j x
  end.

(* l.append(x)  on a list no other name refers to *)
Definition append {X : Type} (l : list X) (x : X) : list X := l ++ [x].

(* calls of a callback that only records its argument (save_function), and of
   a function that makes such calls: the record is extended *)
Definition extend {X : Type} (l m : list X) : list X := l ++ m.
