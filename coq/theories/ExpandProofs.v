(* Proofs about the executable model Expand.v (PcfgGrammar._recursive_guesses).

   FINDING (model = Python behaviour, the model is NOT changed):
   `seg_ok` allows an alpha segment whose words and masks all have length
   n = 0 (ws = [[]], ms = [[]]).  For such a segment the capitalisation slot
   computes  start = cur[:-0] = ""  (py_drop_tail cur 0 = []), so the guess
   built so far is LOST and the expansion is not the product any more.
   Hence E1/E3 are false under `seg_ok` alone (see
   `C04_expand_is_product_refuted`, by computation).  They are proved under
   the strengthened `seg_ok'` which requires the common length n of an alpha
   group to be > 0 (equivalently: seg_ok and every alpha word non-empty, see
   `seg_ok'_iff`).
   The same theorems restated with the ORIGINAL seg_ok plus the extra
   hypothesis `nonempty_words` are `C04_expand_is_product_partial` and
   `C04_limit_partial`.
   Everything else (E2, E4, E5, Some 0 = None) holds as stated; E2 and
   Some 0 = None hold for arbitrary (also malformed) parse trees.

   Other facts of the model worth knowing (proved below, not defects of the
   model): a Markov slot ignores the other values of its group, the slots
   after it AND the guess built so far (`C04_markov_any_rest`); the
   capitalisation slot cuts the tail with the length of the FIRST mask only.

   Main names: C04_expand_is_product(_cur), C04_count_is_lines, C04_limit,
   C04_limit_zero(_is_none), C04_markov, C04_markov_group_uses_first_only,
   C04_each_once, C04_alpha_choices, C04_alpha_each_once,
   C04_product_each_once, C04_expand_is_product_refuted, C04_limit_refuted,
   examples C04_example_*.  Technique: both inner loops of expand are
   instances of `gloop`; `behaves r full` says r is a limited enumerator of
   full; `gloop_behaves` composes enumerators. *)
From Coq Require Import List Arith Bool NArith Lia.
From Pcfg Require Import Expand.
Import ListNotations.

(* ------------------------------------------------------------------ *)
(* the two inner loops of expand are instances of one generic loop     *)

Fixpoint gloop (f : str -> lim -> option (list str * nat)) (items : list str)
         (l : lim) (acc : list str) (num : nat) : option (list str * nat) :=
  match items with
  | [] => Some (acc, num)
  | it :: its =>
    match f it l with
    | None => None
    | Some (out, k) =>
        if exhausted l k then Some (acc ++ out, num + k)
        else gloop f its (lim_sub l k) (acc ++ out) (num + k)
    end
  end.

(* what a limit does to a complete list of lines *)
Definition lim_take (l : lim) (full : list str) : list str :=
  match l with Some (S k) => firstn (S k) full | _ => full end.

(* r is a limited enumerator of the list full *)
Definition behaves (r : lim -> option (list str * nat)) (full : list str) : Prop :=
  forall l, r l = Some (lim_take l full, length (lim_take l full)).

Lemma lim_take_pos n X : n > 0 -> lim_take (Some n) X = firstn n X.
Proof. destruct n; [lia | reflexivity]. Qed.

Lemma lim_take_nil l : lim_take l [] = [].
Proof. destruct l as [[|k]|]; reflexivity. Qed.

Lemma gloop_behaves f F items :
  Forall (fun it => behaves (f it) (F it)) items ->
  forall l acc num,
    gloop f items l acc num =
    Some (acc ++ lim_take l (flat_map F items),
          num + length (lim_take l (flat_map F items))).
Proof.
  induction 1 as [|x items Hx _ IH]; intros l acc num.
  - simpl. rewrite lim_take_nil. simpl. now rewrite app_nil_r, Nat.add_0_r.
  - simpl. rewrite Hx.
    destruct l as [[|L]|].
    + simpl. rewrite IH. simpl. now rewrite app_assoc, app_length, Nat.add_assoc.
    + cbn [exhausted]. rewrite lim_take_pos by lia.
      rewrite firstn_length.
      destruct (Nat.leb (S L) (Nat.min (S L) (length (F x)))) eqn:E.
      * apply Nat.leb_le in E.
        rewrite lim_take_pos by lia.
        rewrite firstn_app.
        replace (S L - length (F x)) with 0 by lia.
        rewrite firstn_O. now rewrite app_nil_r, firstn_length.
      * apply Nat.leb_gt in E.
        assert (Hlt : length (F x) < S L) by lia.
        rewrite (@firstn_all2 _ (S L) (F x)) by lia.
        replace (Nat.min (S L) (length (F x))) with (length (F x)) by lia.
        unfold lim_sub. cbn [active option_map].
        rewrite IH.
        rewrite !lim_take_pos by lia.
        rewrite (firstn_app (S L)).
        rewrite (@firstn_all2 _ (S L) (F x)) by lia.
        now rewrite app_assoc, app_length, Nat.add_assoc.
    + simpl. rewrite IH. simpl. now rewrite app_assoc, app_length, Nat.add_assoc.
Qed.

Lemma gloop_count f items :
  (forall it l out k, f it l = Some (out, k) -> k = length out) ->
  forall l acc num out k,
    gloop f items l acc num = Some (out, k) -> num = length acc -> k = length out.
Proof.
  intros Hf. induction items as [|x items IH]; intros l acc num out k H Hn.
  - simpl in H. now inversion H; subst.
  - simpl in H. destruct (f x l) as [[o c]|] eqn:E; [|discriminate].
    apply Hf in E. subst c.
    destruct (exhausted l (length o)).
    + inversion H; subst. now rewrite app_length.
    + apply IH in H; auto. now rewrite app_length, Hn.
Qed.

Lemma gloop_zero f items :
  (forall it, f it (Some 0) = f it None) ->
  forall acc num, gloop f items (Some 0) acc num = gloop f items None acc num.
Proof.
  intros Hf. induction items as [|x items IH]; intros acc num; simpl; auto.
  rewrite Hf. destruct (f x None) as [[o c]|]; [|reflexivity].
  cbn. apply IH.
Qed.

Section ExpandProofs.
Context (upper_c : N -> str) (omen : str -> list str).

(* the continuation after a guess g has been built for the first slot *)
Definition cont (rest : list slot) (g : str) (l : lim) : option (list str * nat) :=
  match rest with
  | [] => Some ([g], 1)
  | _ :: _ => expand upper_c omen rest g l
  end.

(* the two local loops of expand, named *)
Definition cloop (rest : list slot) (start tail : str) :=
  fix loop (masks : list str) (l : lim) (acc : list str) (num : nat)
    : option (list str * nat) :=
  match masks with
  | [] => Some (acc, num)
  | m :: ms =>
    match mask_apply upper_c m tail with
    | None => None
    | Some new_end =>
      let g := start ++ new_end in
      match rest with
      | [] =>
          if exhausted l 1 then Some (acc ++ [g], S num)
          else loop ms (lim_sub l 1) (acc ++ [g]) (S num)
      | _ :: _ =>
          match expand upper_c omen rest g l with
          | None => None
          | Some (out, k) =>
              if exhausted l k then Some (acc ++ out, num + k)
              else loop ms (lim_sub l k) (acc ++ out) (num + k)
          end
      end
    end
  end.

Definition ploop (rest : list slot) (cur : str) :=
  fix loop (items : list str) (l : lim) (acc : list str) (num : nat)
    : option (list str * nat) :=
  match items with
  | [] => Some (acc, num)
  | it :: its =>
    let g := cur ++ it in
    match rest with
    | [] =>
        if exhausted l 1 then Some (acc ++ [g], S num)
        else loop its (lim_sub l 1) (acc ++ [g]) (S num)
    | _ :: _ =>
        match expand upper_c omen rest g l with
        | None => None
        | Some (out, k) =>
            if exhausted l k then Some (acc ++ out, num + k)
            else loop its (lim_sub l k) (acc ++ out) (num + k)
        end
    end
  end.

Lemma cloop_cons rest start tail m ms l acc num :
  cloop rest start tail (m :: ms) l acc num =
  match mask_apply upper_c m tail with
  | None => None
  | Some new_end =>
    let g := start ++ new_end in
    match rest with
    | [] =>
        if exhausted l 1 then Some (acc ++ [g], S num)
        else cloop rest start tail ms (lim_sub l 1) (acc ++ [g]) (S num)
    | _ :: _ =>
        match expand upper_c omen rest g l with
        | None => None
        | Some (out, k) =>
            if exhausted l k then Some (acc ++ out, num + k)
            else cloop rest start tail ms (lim_sub l k) (acc ++ out) (num + k)
        end
    end
  end.
Proof. reflexivity. Qed.

Lemma ploop_cons rest cur it its l acc num :
  ploop rest cur (it :: its) l acc num =
  let g := cur ++ it in
  match rest with
  | [] =>
      if exhausted l 1 then Some (acc ++ [g], S num)
      else ploop rest cur its (lim_sub l 1) (acc ++ [g]) (S num)
  | _ :: _ =>
      match expand upper_c omen rest g l with
      | None => None
      | Some (out, k) =>
          if exhausted l k then Some (acc ++ out, num + k)
          else ploop rest cur its (lim_sub l k) (acc ++ out) (num + k)
      end
  end.
Proof. reflexivity. Qed.

Lemma expand_cons_raw s rest cur l :
  expand upper_c omen (s :: rest) cur l =
  match scat s with
  | CatM =>
      match svals s with
      | [] => None
      | lv :: _ => Some (omen_emit omen lv l, length (omen_emit omen lv l))
      end
  | CatC =>
      match svals s with
      | [] => None
      | m0 :: _ =>
          cloop rest (py_drop_tail cur (length m0)) (py_tail cur (length m0)) (svals s) l [] 0
      end
  | CatPlain => ploop rest cur (svals s) l [] 0
  end.
Proof.
  destruct s as [c vals]. destruct c; destruct vals; reflexivity.
Qed.

Lemma cloop_gloop rest start tail masks : forall l acc num,
  cloop rest start tail masks l acc num =
  gloop (fun m l => match mask_apply upper_c m tail with
                    | None => None
                    | Some new_end => cont rest (start ++ new_end) l
                    end) masks l acc num.
Proof.
  induction masks as [|m ms IH]; intros l acc num; [reflexivity|].
  rewrite cloop_cons. cbn [gloop]. cbv zeta. destruct (mask_apply upper_c m tail) as [ne|]; [|reflexivity].
  destruct rest as [|r rest]; cbn [cont].
  - rewrite Nat.add_1_r. destruct (exhausted l 1); [reflexivity|apply IH].
  - destruct (expand upper_c omen (r :: rest) _ l) as [[o k]|]; [|reflexivity].
    destruct (exhausted l k); [reflexivity|apply IH].
Qed.

Lemma ploop_gloop rest cur items : forall l acc num,
  ploop rest cur items l acc num =
  gloop (fun it l => cont rest (cur ++ it) l) items l acc num.
Proof.
  induction items as [|m ms IH]; intros l acc num; [reflexivity|].
  rewrite ploop_cons. cbn [gloop]. cbv zeta.
  destruct rest as [|r rest]; cbn [cont].
  - rewrite Nat.add_1_r. destruct (exhausted l 1); [reflexivity|apply IH].
  - destruct (expand upper_c omen (r :: rest) _ l) as [[o k]|]; [|reflexivity].
    destruct (exhausted l k); [reflexivity|apply IH].
Qed.

Lemma expand_cons s rest cur l :
  expand upper_c omen (s :: rest) cur l =
  match scat s with
  | CatM =>
      match svals s with
      | [] => None
      | lv :: _ => Some (omen_emit omen lv l, length (omen_emit omen lv l))
      end
  | CatC =>
      match svals s with
      | [] => None
      | m0 :: _ =>
          gloop (fun m l =>
                   match mask_apply upper_c m (py_tail cur (length m0)) with
                   | None => None
                   | Some new_end => cont rest (py_drop_tail cur (length m0) ++ new_end) l
                   end) (svals s) l [] 0
      end
  | CatPlain => gloop (fun it l => cont rest (cur ++ it) l) (svals s) l [] 0
  end.
Proof.
  rewrite expand_cons_raw. destruct (scat s); [reflexivity| |apply ploop_gloop].
  destruct (svals s); [reflexivity|apply cloop_gloop].
Qed.

(* ------------------------------------------------------------------ *)
(* E2: the returned count is the number of printed lines, any parse tree *)

Theorem C04_count_is_lines pt : forall cur l out k,
  expand upper_c omen pt cur l = Some (out, k) -> k = length out.
Proof.
  induction pt as [|s rest IH]; intros cur l out k H; [discriminate|].
  assert (Hc : forall g l out k, cont rest g l = Some (out, k) -> k = length out).
  { intros g l' o c Hc. destruct rest.
    - simpl in Hc. now inversion Hc.
    - eapply IH; exact Hc. }
  rewrite expand_cons in H. destruct (scat s).
  - destruct (svals s); [discriminate|]. now inversion H.
  - destruct (svals s) as [|m0 ms]; [discriminate|].
    eapply gloop_count; [|exact H|reflexivity].
    intros it l' o c Hf. cbv beta in Hf.
    destruct (mask_apply upper_c it _); [|discriminate]. eapply Hc; exact Hf.
  - eapply gloop_count; [|exact H|reflexivity].
    intros it l' o c Hf. eapply Hc; exact Hf.
Qed.

(* limit 0 is no limit (Python: `if limit:`), any parse tree *)
Theorem C04_limit_zero_is_none pt : forall cur,
  expand upper_c omen pt cur (Some 0) = expand upper_c omen pt cur None.
Proof.
  induction pt as [|s rest IH]; intros cur; [reflexivity|].
  assert (Hc : forall g, cont rest g (Some 0) = cont rest g None).
  { intros g. destruct rest; [reflexivity|apply IH]. }
  rewrite !expand_cons. destruct (scat s).
  - destruct (svals s); reflexivity.
  - destruct (svals s) as [|m0 ms]; [reflexivity|].
    apply gloop_zero. intros it.
    destruct (mask_apply upper_c it _); [apply Hc|reflexivity].
  - apply gloop_zero. intros it. apply Hc.
Qed.

(* ------------------------------------------------------------------ *)
(* E4: Markov slot *)

Theorem C04_markov lv more cur l :
  expand upper_c omen [{| scat := CatM; svals := lv :: more |}] cur l =
  Some (omen_emit omen lv l, length (omen_emit omen lv l)).
Proof. reflexivity. Qed.

(* more general: whatever follows the Markov slot, and whatever was built so
   far (cur), is ignored as well *)
Theorem C04_markov_any_rest lv more rest cur l :
  expand upper_c omen ({| scat := CatM; svals := lv :: more |} :: rest) cur l =
  Some (omen_emit omen lv l, length (omen_emit omen lv l)).
Proof. reflexivity. Qed.

Theorem C04_markov_group_uses_first_only lv more more' cur l :
  expand upper_c omen [{| scat := CatM; svals := lv :: more |}] cur l =
  expand upper_c omen [{| scat := CatM; svals := lv :: more' |}] cur l.
Proof. reflexivity. Qed.

Lemma omen_emit_lim_take lv l : omen_emit omen lv l = lim_take l (omen lv).
Proof. reflexivity. Qed.

(* ------------------------------------------------------------------ *)
(* E5: sizes *)

Lemma length_flat_map_app (c P : list str) :
  length (flat_map (fun x => map (app x) P) c) = length c * length P.
Proof.
  induction c as [|x c IH]; simpl; [reflexivity|].
  now rewrite app_length, map_length, IH.
Qed.

Lemma product_length cs :
  length (product cs) = fold_right Nat.mul 1 (map (@length str) cs).
Proof.
  induction cs as [|c cs IH]; simpl; [reflexivity|].
  now rewrite length_flat_map_app, IH.
Qed.

Theorem C04_each_once segs :
  length (denote upper_c segs) =
  fold_right Nat.mul 1 (map (fun s => length (seg_choices upper_c s)) segs).
Proof.
  unfold denote. rewrite product_length, map_map. reflexivity.
Qed.

Theorem C04_alpha_choices ws ms :
  length (seg_choices upper_c (SegAlpha ws ms)) = length ws * length ms.
Proof.
  simpl. induction ws as [|w ws IH]; simpl; [reflexivity|].
  now rewrite app_length, map_length, IH.
Qed.

Theorem C04_plain_choices vs :
  length (seg_choices upper_c (SegPlain vs)) = length vs.
Proof. reflexivity. Qed.

(* ------------------------------------------------------------------ *)
(* E1 / E3 *)

(* seg_ok with the common length of an alpha group required to be > 0 *)
Definition seg_ok' (s : seg) : Prop :=
  match s with
  | SegPlain vs => vs <> []
  | SegAlpha ws ms => ws <> [] /\ ms <> [] /\
      exists n, n > 0 /\ Forall (fun w => length w = n) ws /\
                Forall (fun m => length m = n) ms
  end.

Definition nonempty_words (s : seg) : Prop :=
  match s with
  | SegPlain _ => True
  | SegAlpha ws _ => Forall (fun w => w <> []) ws
  end.

Lemma seg_ok'_iff s : seg_ok' s <-> seg_ok s /\ nonempty_words s.
Proof.
  destruct s as [vs|ws ms]; simpl; [tauto|]. split.
  - intros (Hw & Hm & n & Hn & Fw & Fm). repeat split; auto.
    + exists n; auto.
    + eapply Forall_impl; [|exact Fw]. intros w Hl E. subst w. simpl in Hl. lia.
  - intros ((Hw & Hm & n & Fw & Fm) & Hne). repeat split; auto.
    exists n; repeat split; auto.
    destruct ws as [|w ws]; [congruence|].
    inversion Fw; subst. inversion Hne; subst.
    destruct w; [congruence|simpl; lia].
Qed.

Lemma mask_apply_total m : forall w, length m = length w ->
  mask_apply upper_c m w = Some (mask_total upper_c m w).
Proof.
  induction m as [|c m IH]; intros w H.
  - reflexivity.
  - destruct w as [|a w]; [discriminate|].
    simpl in H. injection H as H. simpl. now rewrite (IH w H).
Qed.

Lemma py_tail_app cur w n : length w = n -> n > 0 -> py_tail (cur ++ w) n = w.
Proof.
  intros H Hn. unfold py_tail.
  destruct (Nat.eqb n 0) eqn:E; [apply Nat.eqb_eq in E; lia|].
  rewrite app_length. replace (length cur + length w - n) with (length cur) by lia.
  rewrite skipn_app, skipn_all, Nat.sub_diag. reflexivity.
Qed.

Lemma py_drop_tail_app cur w n : length w = n -> n > 0 -> py_drop_tail (cur ++ w) n = cur.
Proof.
  intros H Hn. unfold py_drop_tail.
  destruct (Nat.eqb n 0) eqn:E; [apply Nat.eqb_eq in E; lia|].
  rewrite app_length. replace (length cur + length w - n) with (length cur) by lia.
  rewrite firstn_app, firstn_all, Nat.sub_diag. simpl. apply app_nil_r.
Qed.

Lemma denote_cons s segs :
  denote upper_c (s :: segs) =
  flat_map (fun x => map (app x) (denote upper_c segs)) (seg_choices upper_c s).
Proof. reflexivity. Qed.

Lemma map_app_flat (cur : str) (P c : list str) :
  map (app cur) (flat_map (fun x => map (app x) P) c) =
  flat_map (fun x => map (app (cur ++ x)) P) c.
Proof.
  induction c as [|x c IH]; simpl; [reflexivity|].
  rewrite map_app, map_map, IH. f_equal.
  apply map_ext. intros a. now rewrite app_assoc.
Qed.

Lemma flat_map_flat_map' {A B C} (g : B -> list C) (h : A -> list B) (xs : list A) :
  flat_map g (flat_map h xs) = flat_map (fun x => flat_map g (h x)) xs.
Proof.
  induction xs as [|x xs IH]; simpl; [reflexivity|].
  now rewrite flat_map_app, IH.
Qed.

Lemma flat_map_map' {A B C} (g : B -> list C) (k : A -> B) (xs : list A) :
  flat_map g (map k xs) = flat_map (fun x => g (k x)) xs.
Proof.
  induction xs as [|x xs IH]; simpl; [reflexivity|]. now rewrite IH.
Qed.

Lemma cont_behaves segs : Forall seg_ok' segs -> forall cur,
  behaves (cont (flat_map slots_of segs) cur) (map (app cur) (denote upper_c segs)).
Proof.
  induction 1 as [|s segs Hs _ IH]; intros cur.
  - intros l. unfold denote. simpl. rewrite app_nil_r.
    destruct l as [[|[|k]]|]; reflexivity.
  - change (flat_map slots_of (s :: segs)) with (slots_of s ++ flat_map slots_of segs).
    rewrite denote_cons, map_app_flat.
    destruct s as [vs|ws ms]; intros l.
    + cbn [slots_of app cont]. rewrite expand_cons. cbn [scat svals].
      rewrite (gloop_behaves _ (fun it => map (app (cur ++ it)) (denote upper_c segs))).
      * reflexivity.
      * apply Forall_forall. intros it _. apply IH.
    + destruct Hs as (Hw & Hm & n & Hn & Fw & Fm).
      cbn [slots_of app cont]. rewrite expand_cons. cbn [scat svals].
      rewrite (gloop_behaves _
        (fun w => flat_map (fun m => map (app (cur ++ mask_total upper_c m w))
                                          (denote upper_c segs)) ms)).
      * cbn [seg_choices]. rewrite flat_map_flat_map'.
        match goal with
        | |- Some ([] ++ lim_take l ?A, _) = Some (lim_take l ?B, _) =>
          change (Some (lim_take l A, length (lim_take l A)) =
                  Some (lim_take l B, length (lim_take l B)));
          apply (f_equal (fun X => Some (lim_take l X, length (lim_take l X))))
        end.
        apply flat_map_ext. intros w. symmetry. apply flat_map_map'.
      * apply Forall_forall. intros w Hin l'.
        assert (Hlw : length w = n) by (rewrite Forall_forall in Fw; auto).
        cbn [cont]. rewrite expand_cons. cbn [scat svals].
        destruct ms as [|m0 ms']; [congruence|].
        assert (Hm0 : length m0 = n) by (now inversion Fm).
        rewrite Hm0, py_tail_app, py_drop_tail_app by assumption.
        rewrite (gloop_behaves _
          (fun m => map (app (cur ++ mask_total upper_c m w)) (denote upper_c segs)));
          [reflexivity|].
        apply Forall_forall. intros m Hinm l''.
        assert (Hlm : length m = n) by (rewrite Forall_forall in Fm; auto).
        rewrite mask_apply_total by congruence. apply IH.
Qed.

Lemma expand_behaves segs : segs <> [] -> Forall seg_ok' segs -> forall cur,
  behaves (expand upper_c omen (flat_map slots_of segs) cur)
          (map (app cur) (denote upper_c segs)).
Proof.
  intros Hne Hok cur l. rewrite <- (cont_behaves segs Hok cur l).
  destruct segs as [|s segs]; [congruence|]. destruct s; reflexivity.
Qed.

Theorem C04_expand_is_product_cur segs cur :
  segs <> [] -> Forall seg_ok' segs ->
  expand upper_c omen (flat_map slots_of segs) cur None =
  Some (map (app cur) (denote upper_c segs), length (denote upper_c segs)).
Proof.
  intros Hne Hok. rewrite (expand_behaves segs Hne Hok cur None).
  simpl. now rewrite map_length.
Qed.

Lemma map_app_nil (X : list str) : map (app []) X = X.
Proof. exact (map_id X). Qed.

Theorem C04_expand_is_product segs :
  segs <> [] -> Forall seg_ok' segs ->
  expand upper_c omen (flat_map slots_of segs) [] None =
  Some (denote upper_c segs, length (denote upper_c segs)).
Proof.
  intros Hne Hok. rewrite C04_expand_is_product_cur by assumption.
  now rewrite map_app_nil.
Qed.

Theorem C04_limit segs cur n :
  segs <> [] -> Forall seg_ok' segs -> n >= 1 ->
  expand upper_c omen (flat_map slots_of segs) cur (Some n) =
  Some (firstn n (map (app cur) (denote upper_c segs)),
        Nat.min n (length (denote upper_c segs))).
Proof.
  intros Hne Hok Hn. rewrite (expand_behaves segs Hne Hok cur (Some n)).
  rewrite lim_take_pos by lia. now rewrite firstn_length, map_length.
Qed.

Theorem C04_limit_zero segs cur :
  segs <> [] -> Forall seg_ok' segs ->
  expand upper_c omen (flat_map slots_of segs) cur (Some 0) =
  Some (map (app cur) (denote upper_c segs), length (denote upper_c segs)).
Proof.
  intros Hne Hok. rewrite C04_limit_zero_is_none.
  now apply C04_expand_is_product_cur.
Qed.

(* ------------------------------------------------------------------ *)
(* E5 (stronger): the derivation (i, j) sits at exactly one index *)

Lemma nth_flat_map_uniform {A B} (f : A -> list B) n d d' : forall xs i j,
  (forall x, In x xs -> length (f x) = n) -> i < length xs -> j < n ->
  nth (i * n + j) (flat_map f xs) d = nth j (f (nth i xs d')) d.
Proof.
  induction xs as [|x xs IH]; intros i j Hlen Hi Hj; [simpl in Hi; lia|].
  simpl flat_map. destruct i as [|i].
  - simpl. apply app_nth1. rewrite Hlen by (now left). assumption.
  - replace (S i * n + j) with (length (f x) + (i * n + j))
      by (rewrite Hlen by (now left); lia).
    rewrite app_nth2_plus. simpl nth at 2.
    apply IH; [intros y Hy; apply Hlen; now right|simpl in Hi; lia|assumption].
Qed.

Theorem C04_alpha_each_once ws ms i j :
  i < length ws -> j < length ms ->
  nth (i * length ms + j) (seg_choices upper_c (SegAlpha ws ms)) [] =
  mask_total upper_c (nth j ms []) (nth i ws []).
Proof.
  intros Hi Hj. cbn [seg_choices].
  rewrite (nth_flat_map_uniform (A:=str) (B:=str) _ (length ms) [] []); auto.
  - rewrite (nth_indep _ [] (mask_total upper_c [] (nth i ws [])))
      by (now rewrite map_length).
    apply (map_nth (fun m => mask_total upper_c m (nth i ws []))).
  - intros w _. apply map_length.
Qed.

Theorem C04_product_each_once c r i j :
  i < length c -> j < length (product r) ->
  nth (i * length (product r) + j) (product (c :: r)) [] =
  nth i c [] ++ nth j (product r) [].
Proof.
  intros Hi Hj. cbn [product].
  rewrite (nth_flat_map_uniform (A:=str) (B:=str) _ (length (product r)) [] []); auto.
  - rewrite (nth_indep _ [] (nth i c [] ++ [])) by (now rewrite map_length).
    apply (map_nth (app (nth i c []))).
  - intros x _. apply map_length.
Qed.

End ExpandProofs.

(* ------------------------------------------------------------------ *)
(* the statement with the original seg_ok is false: an alpha group of
   length 0 makes the capitalisation slot drop the guess built so far *)

Definition segs_refute : list seg := [SegPlain [[97%N]]; SegAlpha [[]] [[]]].

Lemma segs_refute_ok : segs_refute <> [] /\ Forall seg_ok segs_refute.
Proof.
  split; [discriminate|].
  repeat constructor; try discriminate.
  exists 0. split; repeat constructor.
Qed.

Theorem C04_expand_is_product_refuted upper_c omen :
  segs_refute <> [] /\ Forall seg_ok segs_refute /\
  expand upper_c omen (flat_map slots_of segs_refute) [] None = Some ([[]], 1) /\
  denote upper_c segs_refute = [[97%N]] /\
  expand upper_c omen (flat_map slots_of segs_refute) [] None <>
  Some (denote upper_c segs_refute, length (denote upper_c segs_refute)).
Proof.
  destruct segs_refute_ok as [H1 H2].
  repeat split; auto. discriminate.
Qed.

Theorem C04_limit_refuted upper_c omen :
  expand upper_c omen (flat_map slots_of segs_refute) [] (Some 3) <>
  Some (firstn 3 (map (app []) (denote upper_c segs_refute)),
        Nat.min 3 (length (denote upper_c segs_refute))).
Proof. discriminate. Qed.

(* the closest true statements phrased with the original seg_ok *)
Theorem C04_expand_is_product_partial upper_c omen segs cur :
  segs <> [] -> Forall seg_ok segs -> Forall nonempty_words segs ->
  expand upper_c omen (flat_map slots_of segs) cur None =
  Some (map (app cur) (denote upper_c segs), length (denote upper_c segs)).
Proof.
  intros Hne Hok Hnw. apply C04_expand_is_product_cur; [assumption|].
  rewrite Forall_forall in *. intros s Hs. apply seg_ok'_iff. auto.
Qed.

Theorem C04_limit_partial upper_c omen segs cur n :
  segs <> [] -> Forall seg_ok segs -> Forall nonempty_words segs -> n >= 1 ->
  expand upper_c omen (flat_map slots_of segs) cur (Some n) =
  Some (firstn n (map (app cur) (denote upper_c segs)),
        Nat.min n (length (denote upper_c segs))).
Proof.
  intros Hne Hok Hnw Hn. apply C04_limit; [assumption| |assumption].
  rewrite Forall_forall in *. intros s Hs. apply seg_ok'_iff. auto.
Qed.

(* ------------------------------------------------------------------ *)
(* E6: concrete instances by computation *)

Definition up_ascii (c : N) : str :=
  if (N.leb 97 c && N.leb c 122)%bool then [(c - 32)%N] else [c].
Definition no_omen (_ : str) : list str := [].

(* "1" | "2" ; {"ab","cd"} x {"LL","UL"} ; "!" | "?" | "#" *)
Definition segs_ex : list seg :=
  [ SegPlain [[49]; [50]];
    SegAlpha [[97; 98]; [99; 100]] [[76; 76]; [85; 76]];
    SegPlain [[33]; [63]; [35]] ]%N.

Example C04_example_product :
  expand up_ascii no_omen (flat_map slots_of segs_ex) [] None =
  Some (denote up_ascii segs_ex, 2 * (2 * 2) * 3).
Proof. vm_compute. reflexivity. Qed.

Example C04_example_size : length (denote up_ascii segs_ex) = 24.
Proof. vm_compute. reflexivity. Qed.

Example C04_example_order :
  firstn 7 (denote up_ascii segs_ex) =
  [ [49; 97; 98; 33]; [49; 97; 98; 63]; [49; 97; 98; 35];     (* 1ab! 1ab? 1ab# *)
    [49; 65; 98; 33]; [49; 65; 98; 63]; [49; 65; 98; 35];     (* 1Ab! 1Ab? 1Ab# *)
    [49; 99; 100; 33] ]%N.                                     (* 1cd! *)
Proof. vm_compute. reflexivity. Qed.

Example C04_example_limit :
  expand up_ascii no_omen (flat_map slots_of segs_ex) [] (Some 5) =
  Some (firstn 5 (denote up_ascii segs_ex), 5).
Proof. vm_compute. reflexivity. Qed.

Example C04_example_limit_beyond :
  expand up_ascii no_omen (flat_map slots_of segs_ex) [] (Some 100) =
  Some (denote up_ascii segs_ex, 24).
Proof. vm_compute. reflexivity. Qed.

(* a mask longer than the guess built so far: IndexError *)
Example C04_example_index_error :
  expand up_ascii no_omen
    [ {| scat := CatPlain; svals := [[97%N]] |};
      {| scat := CatC; svals := [[85%N; 85%N]] |} ] [] None = None.
Proof. vm_compute. reflexivity. Qed.

(* an empty parse tree, an empty capitalisation group, an empty Markov group: raise *)
Example C04_example_empty_pt : expand up_ascii no_omen [] [] None = None.
Proof. reflexivity. Qed.

(* upper() that expands: 'ß' -> "SS" *)
Definition up_sharp (c : N) : str := if N.eqb c 223 then [83; 83]%N else up_ascii c.
Example C04_example_expanding_upper :
  expand up_sharp no_omen (flat_map slots_of [SegAlpha [[97; 223]%N] [[85; 85]%N]]) [120%N] None =
  Some ([[120; 65; 83; 83]%N], 1).
Proof. vm_compute. reflexivity. Qed.

Print Assumptions C04_expand_is_product.
Print Assumptions C04_expand_is_product_cur.
Print Assumptions C04_limit.
Print Assumptions C04_count_is_lines.
Print Assumptions C04_limit_zero_is_none.
