(* Loader2RoundTrip.v - C07 for the OMEN files over the TRANSLATED readers: the text the OMEN writer
   model produces (OmenTrainer.level_text / ln_text / alphabet_text, what the translated
   save_omen_rules_to_disk of T15 writes: OmenTrainerGenInstOut.save_rules_files), read back by the
   translated per-file readers of lib_guesser/omen/input_file_io.py, gives the written tables back.
   LB / IWS / DZ are the classes probed from the running interpreter (gen/Consts_gen.v). *)
From Coq Require Import List Arith ZArith NArith Bool Lia.
From Pcfg Require Import TextFile TextFileProofs IoCorr IoFacts OmenSpec OmenLevel OmenTrainer.
From Pcfg Require Import LoaderRt Loader2Rt Loader2RtProofs Loader2Model Loader2GenProofs Loader2OmenFacts.
From PcfgGen Require Import Loader2_gen.
Import ListNotations.

(* the writer's line lists (levels as naturals) as the items the readers return *)
Definition zitems (ls : list (nat * ostr)) : list (Z * str) := map (fun e => (Z.of_nat (fst e), snd e)) ls.

Lemma level_text_is_write_levels ls : level_text ls = write_levels (zitems ls).
Proof.
  unfold level_text, write_levels, zitems. rewrite flat_map_concat_map, flat_map_concat_map, map_map. reflexivity.
Qed.

Lemma alphabet_text_is_write_alphabet a : alphabet_text a = write_alphabet (map (fun c => [c]) a).
Proof.
  unfold alphabet_text, write_alphabet. rewrite flat_map_concat_map, flat_map_concat_map, map_map. reflexivity.
Qed.

Lemma ln_text_is_write_ln ls : ln_text ls = TextFile.write_ln (map Z.of_nat ls).
Proof.
  unfold ln_text, TextFile.write_ln. rewrite flat_map_concat_map, flat_map_concat_map, map_map. reflexivity.
Qed.

(* LN.level: one level per line, read back by builtin open (universal newlines) *)
Lemma digits_no (f : N -> bool) z : (0 <= z <= 10)%Z -> (forall c, ascii_digit c = true -> f c = false) ->
  none_of f (dec_of_Z z) = true.
Proof.
  intros Hz Hf. destruct (dec_level z Hz) as (_ & Hd & _). unfold none_of. rewrite forallb_forall in *.
  intros c Hc. now rewrite Hf by (apply Hd; exact Hc).
Qed.

Lemma lines_text_write_ln (l : list Z) : Forall (fun z => (0 <= z <= 10)%Z) l ->
  lines_text (TextFile.write_ln l) = map (fun z => dec_of_Z z ++ [LF]) l.
Proof.
  intros H. unfold lines_text.
  assert (Hcr : none_of (N.eqb CR) (TextFile.write_ln l) = true).
  { unfold TextFile.write_ln. induction H as [|z r Hz Hr IH]; [reflexivity|]. cbn [flat_map]. rewrite !none_of_app, IH.
    rewrite (digits_no (N.eqb CR) z Hz) by (intros c Hc; apply ascii_digit_not; [exact Hc | left; reflexivity]).
    reflexivity. }
  rewrite univ_nl_id by exact Hcr.
  replace (TextFile.write_ln l) with (flat_map (fun s => s ++ [LF]) (map dec_of_Z l))
    by (unfold TextFile.write_ln; rewrite !flat_map_concat_map, map_map; reflexivity).
  rewrite (lines_keep_lines (N.eqb LF) (N.eqb_refl LF)).
  - now rewrite map_map.
  - apply Forall_map. eapply Forall_impl; [|exact H]. intros z Hz. cbn beta.
    apply digits_no; [exact Hz|]. intros c Hc. apply ascii_digit_not; [exact Hc | left; reflexivity].
Qed.

Lemma ln_lines_written (l : list Z) maxlvl : Forall (fun z => (0 <= z <= 10)%Z) l -> (maxlvl = None \/ maxlvl = Some 10%Z) ->
  ln_lines IWS DZ maxlvl (map (fun z => dec_of_Z z ++ [LF]) l) = inl l.
Proof.
  intros H Hm. induction H as [|z r Hz Hr IH]; cbn [map ln_lines]; [reflexivity|].
  rewrite IH. unfold ln_line. destruct (dec_level z Hz) as (Hne & Hd & Hv).
  rewrite rstrip_app_all by reflexivity.
  rewrite rstrip_none.
  2:{ apply digits_no; [exact Hz|]. intros c Hc. unfold is_crlf. rewrite (N.eqb_sym c CR), (N.eqb_sym c LF).
      rewrite (ascii_digit_not c CR Hc), (ascii_digit_not c LF Hc); [reflexivity | left; reflexivity | left; reflexivity]. }
  rewrite (parse_int_digits IWS DZ digit_DZ digit_IWS) by assumption. rewrite Hv.
  replace (z <? 0)%Z with false by (symmetry; apply Z.ltb_ge; lia).
  destruct Hm as [->| ->]; [reflexivity|]. replace (10 <? z)%Z with false by (symmetry; apply Z.ltb_ge; lia). reflexivity.
Qed.

Section RoundTrip.
Context (fo : fops) {C SS : Type} (W : world fo C SS).
Hypothesis Hpint : forall s, w_pint W s = parse_int IWS DZ s.
Notation val := (pyval (F fo) C SS).

Lemma written_level_lines (l : list (Z * str)) maxlvl :
  Forall level_item_ok l -> (maxlvl = None \/ maxlvl = Some 10%Z) ->
  level_lines IWS DZ maxlvl (lines_keep LB (write_levels l)) = inl l.
Proof.
  intros H Hm.
  assert (H' : Forall (fun it => level_ok (fst it) /\ safe_key LB (snd it) = true) l)
    by (eapply Forall_impl; [|exact H]; intros it [Hl Hs]; split; [exact Hl | exact Hs]).
  rewrite (lines_keep_write_levels LB LB_LF LB_TAB digit_LB) by exact H'.
  pose proof (level_items_written LB IWS DZ LB_LF LB_CR digit_DZ digit_IWS maxlvl l H' Hm) as Hi.
  rewrite level_lines_items in Hi. destruct (level_lines IWS DZ maxlvl (map write_level_line l)); [now inversion Hi | discriminate].
Qed.

(* IP.level *)
Theorem roundtrip_omen_ip_translated dir file (g : list (val * val)) enc (l : list (Z * str)) :
  dfind (VStr k_alphabet_encoding) g = Some (VStr enc) -> dfind (VStr k_max_level) g = Some (VInt 10) ->
  Forall level_item_ok l ->
  w_codecs_open W (w_path_join W [dir; file]) (Some enc) (Some k_strict) = XDone (lines_keep LB (write_levels l)) ->
  py_omen_load_ngrams fo W (VStr dir) (VStr file) (VDict g) (VStr k_ip) =
  XDone (VDict (dput (VStr k_ip) (enc_buckets enc_strs (ip_buckets l)) g), VNone).
Proof.
  intros He Hm Hl Ho. rewrite (omen_load_ngrams_ip fo W IWS DZ Hpint dir file g enc He Hm), Ho.
  now rewrite written_level_lines by (try exact Hl; right; reflexivity).
Qed.

(* EP.level *)
Theorem roundtrip_omen_ep_translated dir file (g : list (val * val)) enc (l : list (Z * str)) :
  dfind (VStr k_alphabet_encoding) g = Some (VStr enc) -> dfind (VStr k_max_level) g = Some (VInt 10) ->
  Forall level_item_ok l ->
  w_codecs_open W (w_path_join W [dir; file]) (Some enc) (Some k_strict) = XDone (lines_keep LB (write_levels l)) ->
  py_omen_load_ngrams fo W (VStr dir) (VStr file) (VDict g) (VStr k_ep) =
  XDone (VDict (dput (VStr k_ep) (enc_ep (ep_dict l)) g), VNone).
Proof.
  intros He Hm Hl Ho. rewrite (omen_load_ngrams_ep fo W IWS DZ Hpint dir file g enc He Hm), Ho.
  now rewrite written_level_lines by (try exact Hl; right; reflexivity).
Qed.

(* CP.level: every written n-gram has at least one character (the prefix and the next letter) *)
Theorem roundtrip_omen_cp_translated dir file (g : list (val * val)) enc (l : list (Z * str)) :
  dfind (VStr k_alphabet_encoding) g = Some (VStr enc) -> dfind (VStr k_max_level) g = Some (VInt 10) ->
  Forall level_item_ok l -> Forall (fun it => snd it <> []) l ->
  w_codecs_open W (w_path_join W [dir; file]) (Some enc) (Some k_strict) = XDone (lines_keep LB (write_levels l)) ->
  exists d, cp_dict l = Some d /\
    py_omen_load_ngrams fo W (VStr dir) (VStr file) (VDict g) (VStr k_cp) =
    XDone (VDict (dput (VStr k_cp) (enc_cp d) g), VNone).
Proof.
  intros He Hm Hl Hne Ho. rewrite (omen_load_ngrams_cp fo W IWS DZ Hpint dir file g enc He Hm), Ho.
  pose proof (cp_lines_is_cp_dict IWS DZ (Some 10%Z) (lines_keep LB (write_levels l))) as Hc.
  rewrite level_lines_items, written_level_lines in Hc by (try exact Hl; right; reflexivity).
  destruct (cp_lines IWS DZ (Some 10%Z) (lines_keep LB (write_levels l)) []) as [d|e].
  - destruct Hc as (its & Hi & Hd). inversion Hi. subst its. now exists d.
  - exfalso. clear Ho. unfold cp_dict in Hc. rewrite cp_dict_fold in Hc.
    assert (G : forall d0, fold_left cp_fold_step l (Some d0) <> None).
    { clear Hc Hl. induction Hne as [|it r Hit Hr IH]; intros d0; cbn [fold_left]; [discriminate|].
      unfold cp_fold_step at 2. unfold cp_step. destruct (rev (snd it)) as [|c pre] eqn:Er.
      - exfalso. apply Hit. rewrite <- (rev_involutive (snd it)), Er. reflexivity.
      - unfold pstr, str in *. rewrite Er. cbv beta iota. apply IH. }
    exact (G [] Hc).
Qed.

(* alphabet.txt *)
Theorem roundtrip_omen_alphabet_translated dir file (g : list (val * val)) enc (a : list str) :
  dfind (VStr k_alphabet_encoding) g = Some (VStr enc) ->
  Forall (fun c => safe c = true) a ->
  w_codecs_open W (w_path_join W [dir; file]) (Some enc) (Some k_strict) = XDone (lines_keep LB (write_alphabet a)) ->
  py_omen_load_alphabet fo W (VStr dir) (VStr file) (VDict g) =
  XDone (VDict (dput (VStr k_alphabet) (enc_strs a) g), VNone).
Proof.
  intros He Ha Ho. rewrite (omen_load_alphabet_eq fo W dir file g enc He), Ho.
  pose proof (roundtrip_alphabet_inst a Ha) as Hr. unfold load_alphabet in Hr. now rewrite Hr.
Qed.

(* LN.level *)
Theorem roundtrip_omen_ln_translated dir file (g : list (val * val)) n (l : list Z) :
  dfind (VStr k_max_level) g = Some (VInt 10) ->
  Forall (fun z => (0 <= z <= 10)%Z) l ->
  w_open W (w_path_join W [dir; file]) None None = XDone (lines_text (TextFile.write_ln l)) ->
  py_omen_load_length fo W (VStr dir) (VStr file) (VDict g) (VStr k_ln) (VInt n) =
  XDone (VDict (dput (VStr k_ln) (enc_buckets enc_ints (ln_guesser n l)) g), VNone).
Proof.
  intros Hm Hl Ho. rewrite (omen_load_length_eq fo W IWS DZ Hpint dir file g n Hm), Ho.
  rewrite lines_text_write_ln by exact Hl. now rewrite ln_lines_written by (try exact Hl; right; reflexivity).
Qed.


(* ---- the whole Omen directory, guesser: load_rules on the files the writer model produces *)
Lemma written_cp_lines (l : list (Z * str)) :
  Forall level_item_ok l -> Forall (fun it => snd it <> []) l ->
  exists d, cp_dict l = Some d /\ cp_lines IWS DZ (Some 10%Z) (lines_keep LB (write_levels l)) [] = inl d.
Proof.
  intros Hl Hne.
  pose proof (cp_lines_is_cp_dict IWS DZ (Some 10%Z) (lines_keep LB (write_levels l))) as Hc.
  rewrite level_lines_items, written_level_lines in Hc by (try exact Hl; right; reflexivity).
  destruct (cp_lines IWS DZ (Some 10%Z) (lines_keep LB (write_levels l)) []) as [d|e].
  - destruct Hc as (its & Hi & Hd). inversion Hi. subst its. now exists d.
  - exfalso. unfold cp_dict in Hc. rewrite cp_dict_fold in Hc.
    assert (G : forall d0, fold_left cp_fold_step l (Some d0) <> None).
    { clear Hc Hl. induction Hne as [|it r Hit Hr IH]; intros d0; cbn [fold_left]; [discriminate|].
      unfold cp_fold_step at 2. unfold cp_step. destruct (rev (snd it)) as [|c pre] eqn:Er.
      - exfalso. apply Hit. rewrite <- (rev_involutive (snd it)), Er. reflexivity.
      - unfold pstr, str in *. rewrite Er. cbv beta iota. apply IH. }
    exact (G [] Hc).
Qed.

Theorem roundtrip_omen_directory_translated (dir : pstr) (c : C) (enc ntext : pstr) (n : Z)
        (a : list str) (ip ep cp : list (Z * str)) (lv : list Z) :
  let pj := w_path_join W in
  cp_read (w_cfg W) (pj [dir; n_config_txt]) = XDone c ->
  cp_get (w_cfg W) c k_training_settings k_encoding = XDone enc ->
  cp_get (w_cfg W) c k_training_settings k_ngram = XDone ntext -> parse_int IWS DZ ntext = Some n ->
  Forall (fun ch => safe ch = true) a -> Forall level_item_ok ip -> Forall level_item_ok ep -> Forall level_item_ok cp ->
  Forall (fun it => snd it <> []) cp -> Forall (fun z => (0 <= z <= 10)%Z) lv ->
  w_codecs_open W (pj [dir; n_alphabet_txt]) (Some enc) (Some k_strict) = XDone (lines_keep LB (write_alphabet a)) ->
  w_codecs_open W (pj [dir; n_ip_level]) (Some enc) (Some k_strict) = XDone (lines_keep LB (write_levels ip)) ->
  w_codecs_open W (pj [dir; n_ep_level]) (Some enc) (Some k_strict) = XDone (lines_keep LB (write_levels ep)) ->
  w_codecs_open W (pj [dir; n_cp_level]) (Some enc) (Some k_strict) = XDone (lines_keep LB (write_levels cp)) ->
  w_open W (pj [dir; n_ln_level]) None None = XDone (lines_text (TextFile.write_ln lv)) ->
  exists d, cp_dict cp = Some d /\
    py_omen_load_rules fo W (VStr dir) (VDict []) =
    XDone (enc_omen_tables {| ot_encoding := enc; ot_ngram := n; ot_alphabet := a; ot_ip := ip_buckets ip;
                              ot_ep := ep_dict ep; ot_cp := d; ot_ln := ln_guesser n lv |}, VBool true).
Proof.
  intros pj Hc He Hn Hp Ha Hip Hep Hcp Hne Hlv Oa Oip Oep Ocp Oln.
  destruct (written_cp_lines cp Hcp Hne) as (d & Hd & Hcl). exists d. split; [exact Hd|].
  pose proof (omen_load_rules_cases fo W IWS DZ Hpint dir) as Hm. unfold omen_guesser_load in Hm. fold pj in Hm.
  rewrite Hc in Hm; cbn [of_xres sum_bind] in Hm. rewrite He in Hm; cbn [of_xres sum_bind] in Hm.
  rewrite Hn in Hm; cbn [of_xres sum_bind] in Hm. rewrite Hp in Hm; cbn [sum_bind] in Hm.
  rewrite Oa in Hm; cbn [of_xres sum_bind] in Hm. rewrite Oip in Hm; cbn [of_xres sum_bind] in Hm.
  rewrite written_level_lines in Hm by (try assumption; right; reflexivity). cbn [sum_bind] in Hm.
  rewrite Oep in Hm; cbn [of_xres sum_bind] in Hm.
  rewrite written_level_lines in Hm by (try assumption; right; reflexivity). cbn [sum_bind] in Hm.
  rewrite Ocp in Hm; cbn [of_xres sum_bind] in Hm. rewrite Hcl in Hm. cbn [sum_bind] in Hm.
  rewrite Oln in Hm; cbn [of_xres sum_bind] in Hm.
  rewrite lines_text_write_ln in Hm by exact Hlv.
  rewrite ln_lines_written in Hm by (try exact Hlv; right; reflexivity). cbn [sum_bind] in Hm.
  pose proof (roundtrip_alphabet_inst a Ha) as Hr. unfold load_alphabet in Hr. rewrite Hr in Hm. exact Hm.
Qed.

(* ---- ... and the scorer: OmenScorer(base, encoding, max) on the same files, opened with builtin open *)
Lemma written_level_lines_text (l : list (Z * str)) :
  Forall level_item_ok l -> level_lines IWS DZ None (lines_text (write_levels l)) = inl l.
Proof.
  intros H.
  assert (H' : Forall (fun it => level_ok (fst it) /\ safe_key LB (snd it) = true) l)
    by (eapply Forall_impl; [|exact H]; intros it [Hl Hs]; split; [exact Hl | exact Hs]).
  rewrite (lines_text_write_levels LB LB_LF LB_CR LB_TAB digit_LB) by exact H'.
  pose proof (level_items_written LB IWS DZ LB_LF LB_CR digit_DZ digit_IWS None l H' (or_introl eq_refl)) as Hi.
  rewrite level_lines_items in Hi. destruct (level_lines IWS DZ None (map write_level_line l)); [now inversion Hi | discriminate].
Qed.

Theorem roundtrip_omen_scorer_translated (base enc : pstr) (vmax : val) (ip cp : list (Z * str)) (lv : list Z) :
  let pj := w_path_join W in
  Forall level_item_ok ip -> Forall level_item_ok cp -> Forall (fun z => (0 <= z <= 10)%Z) lv ->
  w_open W (pj [base; n_omen; n_ip_level]) (Some enc) None = XDone (lines_text (write_levels ip)) ->
  w_open W (pj [base; n_omen; n_cp_level]) (Some enc) None = XDone (lines_text (write_levels cp)) ->
  w_open W (pj [base; n_omen; n_ln_level]) None None = XDone (lines_text (TextFile.write_ln lv)) ->
  py_omen_scorer_init fo W (VObj []) (VStr base) (VStr enc) vmax =
  XDone (enc_scorer (VStr enc) vmax
           {| st_ip := ep_dict ip; st_cp := ep_dict cp; st_ln := lv;
              st_ngram := match cp with it :: _ => Z.of_nat (length (snd it)) | [] => (-1)%Z end |}, VNone).
Proof.
  intros pj Hip Hcp Hlv Oip Ocp Oln.
  rewrite (omen_scorer_init_eq fo W IWS DZ Hpint). unfold omen_scorer_load. fold pj.
  rewrite Oip; cbn [of_xres sum_bind]. rewrite written_level_lines_text by assumption. cbn [sum_bind].
  rewrite Ocp; cbn [of_xres sum_bind]. rewrite written_level_lines_text by assumption. cbn [sum_bind].
  rewrite Oln; cbn [of_xres sum_bind]. rewrite lines_text_write_ln by exact Hlv.
  rewrite ln_lines_written by (try exact Hlv; left; reflexivity). reflexivity.
Qed.

End RoundTrip.
