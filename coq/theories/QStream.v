(* The statement behind property C14 over exact rational arithmetic:

     "with --skip_brute the guesser emits exactly the non-Markov pre-terminals
      of the default run, in the same order, with probabilities rescaled by
      1/(1 - P(Markov))".

   Setting.  rs : ruleset QProb, wf rs;  keepb : bstruct -> bool  (keep = the
   base structure is not the Markov structure);  c : Q, 0 < c  (the rescaling
   factor).  The grammar loaded with --skip_brute is

     rescaled rs keepb c =
       {| tbl := tbl rs;
          bases := map (fun b => {| bprob := c * bprob b; brepl := brepl b |})
                       (filter keepb (bases rs)) |}          (written rs' below)

   Results (names as exported; rs' = rescaled rs keepb c,
            kept = filter keep_item (all_preterminals rs),
            keep_item it = keepb of the base structure at position itag it):
     (a) wf_rescaled            wf rs'
     (b) find_prob_scale        in-range t:  find_prob rs' t (c*b) == c * find_prob rs t b
     (c) C14_corr               Forall2 Rel (all_preterminals rs') kept, where
                                Rel x' x := ipt x' = ipt x /\ ibase x' == c * ibase x
                                            /\ iprob x' == c * iprob x
         C14_same_pts           map ipt (all_preterminals rs') = map ipt kept
         C14_same_length, corr (same position in the two lists), corr_Rel,
         corr_total_l / corr_total_r / corr_fun / corr_inj  (corr is a bijection)
     (d) Rel_order, C14_order   corresponding items compare the same way:
                                ple (iprob x') (iprob y') = ple (iprob x) (iprob y)
     (e) C14_run_rescaled       a complete run on rs' emits a permutation of
                                all_preterminals rs', nonincreasing
         C14_stream_Q           the emitted stream of rs' is, item by item (Rel),
                                a nonincreasing rearrangement of the kept items
                                of the default run's stream
         C14_stream_Q_no_ties   if no two kept pre-terminals have the same
                                probability, it is item by item (Rel) EXACTLY the
                                default run's stream with the non-kept items
                                removed - same order.
     mass (with QSum.v; hypothesis on variables only for KEPT structures):
         kept_mass              sum of iprob*count over kept == sum of kept base probs
                                (= 1 - P(Markov): the default run's coverage)
         rescaled_mass          total of rs' == c * (sum of kept base probs)
         rescaled_sums_to_one   with c == / (sum of kept base probs) the total is 1
   Finding (recorded, no statement refuted): (b) needs the in-range restriction
   stated in the plan (gp uses the base as default for out-of-range indices);
   find_prob_scale_refuted gives the out-of-range counterexample by computation.
   The "same order" of C14 holds only up to the order inside classes of equal
   probability - which order a heap produces there depends on the heap's tie
   handling and on the tags, both of which differ between the two runs; the
   exact-order statement needs the no-ties hypothesis (C14_stream_Q_no_ties). *)
From Coq Require Import List Arith Bool Lia QArith Setoid Sorting.Permutation Sorting.Sorted.
From Pcfg Require Import ProbAlg Next NextSpec NextProofs QProb QSum.
Import ListNotations.

Local Open Scope Q_scope.

(* ------------------------------------------------------------------ *)
(* list lemmas                                                         *)
(* ------------------------------------------------------------------ *)
Section ListAux.

Lemma filter_flat_map {X Y} (p : Y -> bool) (f : X -> list Y) l :
  filter p (flat_map f l) = flat_map (fun x => filter p (f x)) l.
Proof. induction l as [|a l IH]; simpl; auto. rewrite filter_app. congruence. Qed.

Lemma flat_map_ext_in' {X Y} (f g : X -> list Y) l :
  (forall x, In x l -> f x = g x) -> flat_map f l = flat_map g l.
Proof.
  induction l as [|a l IH]; intros H; simpl; auto.
  rewrite (H a (or_introl eq_refl)), IH; auto. intros x Hx. apply H. right; auto.
Qed.

Lemma filter_const {X} (p : X -> bool) l v :
  (forall x, In x l -> p x = v) -> filter p l = if v then l else [].
Proof.
  induction l as [|a l IH]; intros H; simpl.
  - destruct v; auto.
  - rewrite (H a (or_introl eq_refl)). rewrite IH by (intros x Hx; apply H; right; auto).
    destruct v; auto.
Qed.

Lemma Forall2_map_same {X Y Z} (R : Y -> Z -> Prop) (f : X -> Y) (g : X -> Z) l :
  (forall x, In x l -> R (f x) (g x)) -> Forall2 R (map f l) (map g l).
Proof.
  induction l as [|a l IH]; intros H; simpl; constructor.
  - apply H. left; auto.
  - apply IH. intros x Hx. apply H. right; auto.
Qed.

Lemma Forall2_perm_l {X Y} (R : X -> Y -> Prop) A A' :
  Permutation A A' -> forall B, Forall2 R A B ->
  exists B', Permutation B B' /\ Forall2 R A' B'.
Proof.
  induction 1 as [|x l l' Hp IH|x y l|l l' l'' Hp1 IH1 Hp2 IH2]; intros B HF.
  - inversion HF; subst. exists []. split; constructor.
  - inversion HF as [|? b ? B0 Hxb HF0]; subst.
    destruct (IH B0 HF0) as [B0' [HpB HF']].
    exists (b :: B0'). split; constructor; auto.
  - inversion HF as [|? b1 ? B1 H1 HF1]; subst.
    inversion HF1 as [|? b2 ? B2 H2 HF2]; subst.
    exists (b2 :: b1 :: B2). split; [apply perm_swap|]. repeat constructor; auto.
  - destruct (IH1 B HF) as [B1 [HpB1 HF1]].
    destruct (IH2 B1 HF1) as [B2 [HpB2 HF2]].
    exists B2. split; auto. eapply perm_trans; eauto.
Qed.

Lemma Permutation_filter' {X} (p : X -> bool) l l' :
  Permutation l l' -> Permutation (filter p l) (filter p l').
Proof.
  induction 1 as [|x l l' Hp IH|x y l|l l' l'' Hp1 IH1 Hp2 IH2]; simpl.
  - constructor.
  - destruct (p x); auto.
  - destruct (p x), (p y); try apply Permutation_refl. apply perm_swap.
  - eapply perm_trans; eauto.
Qed.

Lemma StronglySorted_filter {X} (R : X -> X -> Prop) (p : X -> bool) l :
  StronglySorted R l -> StronglySorted R (filter p l).
Proof.
  induction 1 as [|a l Hs IH Hf]; simpl; [constructor|].
  destruct (p a); auto. constructor; auto.
  rewrite Forall_forall in *. intros x Hx. apply filter_In in Hx. apply Hf. tauto.
Qed.

Lemma StronglySorted_Forall2 {X Y} (R : X -> Y -> Prop) (S1 : X -> X -> Prop)
      (S2 : Y -> Y -> Prop) l1 l2 :
  (forall a a' b b', R a a' -> R b b' -> S1 a b -> S2 a' b') ->
  Forall2 R l1 l2 -> StronglySorted S1 l1 -> StronglySorted S2 l2.
Proof.
  intros Ht HF. induction HF as [|a a' l1 l2 Ha HF IH]; intros Hs; [constructor|].
  inversion Hs as [|? ? Hs' Hfa]; subst. constructor; auto.
  clear IH Hs Hs'. induction HF as [|b b' l1 l2 Hb HF IH]; [constructor|].
  inversion Hfa; subst. constructor; eauto.
Qed.

Lemma Forall2_nth_error {X Y} (R : X -> Y -> Prop) l1 l2 n x y :
  Forall2 R l1 l2 -> nth_error l1 n = Some x -> nth_error l2 n = Some y -> R x y.
Proof.
  intros HF. revert n. induction HF as [|a b l1 l2 Hab HF IH]; intros [|n] H1 H2;
    simpl in *; try discriminate.
  - inversion H1; inversion H2; subst; auto.
  - eapply IH; eauto.
Qed.

Lemma Forall2_length' {X Y} (R : X -> Y -> Prop) l1 l2 :
  Forall2 R l1 l2 -> length l1 = length l2.
Proof. induction 1; simpl; auto. Qed.

(* two sorted arrangements of the same duplicate-free list coincide when the
   order is antisymmetric on its elements *)
Lemma sorted_perm_unique {X} (R : X -> X -> Prop) l1 :
  forall l2, StronglySorted R l1 -> StronglySorted R l2 -> Permutation l1 l2 ->
  (forall a b, In a l1 -> In b l1 -> R a b -> R b a -> a = b) ->
  l1 = l2.
Proof.
  induction l1 as [|a t1 IH]; intros l2 H1 H2 Hp Hanti.
  - apply Permutation_nil in Hp. auto.
  - destruct l2 as [|b t2]; [apply Permutation_sym, Permutation_nil in Hp; discriminate|].
    inversion H1 as [|? ? H1s H1f]; subst. inversion H2 as [|? ? H2s H2f]; subst.
    assert (Hab : a = b).
    { assert (Ha : In a (b :: t2)) by (apply (Permutation_in _ Hp); left; auto).
      assert (Hb : In b (a :: t1))
        by (apply (Permutation_in _ (Permutation_sym Hp)); left; auto).
      destruct Ha as [Ha|Ha]; [auto|]. destruct Hb as [Hb|Hb]; [auto|].
      rewrite Forall_forall in H1f, H2f.
      apply Hanti; [left; auto | right; auto | apply H1f; auto | apply H2f; auto]. }
    subst b. f_equal. apply IH; auto.
    + eapply Permutation_cons_inv; eauto.
    + intros x y Hx Hy. apply Hanti; right; auto.
Qed.

End ListAux.

(* ------------------------------------------------------------------ *)
(* the rescaled grammar                                                *)
(* ------------------------------------------------------------------ *)

Definition scale_b (c : Q) (b : Qbstruct) : Qbstruct :=
  @Build_bstruct QProb (c * bprob b) (brepl b).

Definition rescaled (rs : Qruleset) (keepb : Qbstruct -> bool) (c : Q) : Qruleset :=
  @Build_ruleset QProb (tbl rs) (map (scale_b c) (filter keepb (bases rs))).

(* the item's base structure, through the ghost tag *)
Definition keep_item (rs : Qruleset) (keepb : Qbstruct -> bool) (it : Qitem) : bool :=
  match nth_error (bases rs) (itag it) with
  | Some b => keepb b
  | None => false
  end.

(* corresponding items: same parse tree, base and probability rescaled *)
Definition Rel (c : Q) (x' x : Qitem) : Prop :=
  ipt x' = ipt x /\ ibase x' == c * ibase x /\ iprob x' == c * iprob x.

(* (b) fails outside the table: there gp falls back on the base *)
Example find_prob_scale_refuted :
  let rs : Qruleset := @Build_ruleset QProb ([[1#2]] : list (list Q))
                         [@Build_bstruct QProb 1 [0%nat]] in
  ~ (@find_prob QProb (rescaled rs (fun _ => true) (1#2)) [(0%nat, 5%nat)] ((1#2) * 1)
     == (1#2) * @find_prob QProb rs [(0%nat, 5%nat)] 1).
Proof. vm_compute. discriminate. Qed.

Section Stream.
Variable rs : Qruleset.
Hypothesis Hwf : @wf QProb rs.
Variable keepb : Qbstruct -> bool.
Variable c : Q.
Hypothesis Hc : 0 < c.

Notation rs' := (rescaled rs keepb c).
Notation keepi := (keep_item rs keepb).
Notation kept := (filter (keep_item rs keepb) (@all_preterminals QProb rs)).
Notation R := (Rel c).

Lemma groups_rescaled v : @groups QProb rs' v = @groups QProb rs v.
Proof. reflexivity. Qed.

Lemma find_prob_rescaled t (x : Q) : @find_prob QProb rs' t x = @find_prob QProb rs t x.
Proof. reflexivity. Qed.

Lemma bound_rescaled vi : @bound QProb rs' vi <-> @bound QProb rs vi.
Proof. unfold bound. rewrite groups_rescaled. tauto. Qed.

(* (a) *)
Theorem wf_rescaled : @wf QProb rs'.
Proof.
  unfold wf. apply Forall_forall. intros b' Hin. simpl in Hin.
  apply in_map_iff in Hin. destruct Hin as [b [<- Hb]].
  apply filter_In in Hb. destruct Hb as [Hb _].
  unfold wf in Hwf. rewrite Forall_forall in Hwf. destruct (Hwf b Hb) as [Hok Hg].
  split.
  - apply QProb_okb_iff. apply QProb_okb_iff in Hok. simpl.
    apply Qmult_le_0_compat; auto. apply Qlt_le_weak; auto.
  - exact Hg.
Qed.

(* (b) *)
Theorem find_prob_scale t (b : Q) :
  Forall (@bound QProb rs) t ->
  @find_prob QProb rs' t (c * b) == c * @find_prob QProb rs t b.
Proof. intros Ht. rewrite find_prob_rescaled. apply find_prob_Q_scale; auto. Qed.

(* (c) *)
Lemma kept_flat :
  kept = flat_map (fun kb => if keepb (snd kb) then @preterminals_of QProb rs kb else [])
                  (combine (seq 0 (length (bases rs))) (bases rs)).
Proof.
  unfold all_preterminals. rewrite filter_flat_map. apply flat_map_ext_in'.
  intros [k b] Hin. apply In_combine_seq in Hin. destruct Hin as [_ Hn].
  rewrite Nat.sub_0_r in Hn. simpl snd. apply filter_const.
  intros it Hit. unfold preterminals_of in Hit. apply in_map_iff in Hit.
  destruct Hit as [vec [<- _]]. unfold keep_item. simpl. rewrite Hn. reflexivity.
Qed.

Lemma pre_rel k' k b :
  Forall2 R (@preterminals_of QProb rs' (k', scale_b c b)) (@preterminals_of QProb rs (k, b)).
Proof.
  unfold preterminals_of. cbn [fst snd].
  change (brepl (scale_b c b)) with (brepl b).
  change (bprob (scale_b c b)) with (c * bprob b).
  apply (Forall2_map_same R
           (fun vec => @mk QProb rs' k' (combine (brepl b) vec) (c * bprob b))
           (fun vec => @mk QProb rs k (combine (brepl b) vec) (bprob b))).
  intros vec Hvec. unfold Rel. simpl. split; [reflexivity|]. split; [reflexivity|].
  apply find_prob_scale. apply Forall2_lt_combine. apply In_vectors. exact Hvec.
Qed.

Lemma corr_aux l : forall s s',
  Forall2 R
    (flat_map (@preterminals_of QProb rs')
       (combine (seq s' (length (map (scale_b c) (filter keepb l))))
                (map (scale_b c) (filter keepb l))))
    (flat_map (fun kb => if keepb (snd kb) then @preterminals_of QProb rs kb else [])
       (combine (seq s (length l)) l)).
Proof.
  induction l as [|a l IH]; intros s s'.
  - simpl. constructor.
  - cbn [filter length seq combine flat_map snd].
    destruct (keepb a) eqn:E.
    + cbn [map length seq combine flat_map].
      apply Forall2_app; [apply pre_rel | apply IH].
    + simpl app. apply IH.
Qed.

Theorem C14_corr : Forall2 R (@all_preterminals QProb rs') kept.
Proof. rewrite kept_flat. exact (corr_aux (bases rs) 0%nat 0%nat). Qed.

Theorem C14_same_pts :
  map (@ipt QProb) (@all_preterminals QProb rs') = map (@ipt QProb) kept.
Proof.
  pose proof C14_corr as H. induction H as [|x' x l' l [Hx _] _ IH]; simpl; congruence.
Qed.

Theorem C14_same_length : @total QProb rs' = length kept.
Proof. unfold total. apply (Forall2_length' _ _ _ C14_corr). Qed.

(* corresponding items = same position in the two lists *)
Definition corr (x' x : Qitem) : Prop :=
  exists n, nth_error (@all_preterminals QProb rs') n = Some x' /\
            nth_error kept n = Some x.

Theorem corr_Rel x' x : corr x' x -> R x' x.
Proof. intros [n [H1 H2]]. exact (Forall2_nth_error R _ _ n x' x C14_corr H1 H2). Qed.

Theorem corr_prob x' x : corr x' x -> ipt x' = ipt x /\ iprob x' == c * iprob x.
Proof. intros H. apply corr_Rel in H. destruct H as [H1 [_ H2]]. auto. Qed.

(* corr is a bijection between the two lists *)
Theorem corr_total_l x' : In x' (@all_preterminals QProb rs') -> exists x, corr x' x /\ In x kept.
Proof.
  intros Hin. apply In_nth_error in Hin. destruct Hin as [n Hn].
  assert (Hlt : (n < length kept)%nat).
  { rewrite <- C14_same_length. unfold total. apply nth_error_Some. congruence. }
  destruct (nth_error kept n) as [x|] eqn:E.
  - exists x. split; [exists n; auto|]. eapply nth_error_In; eauto.
  - apply nth_error_None in E. lia.
Qed.

Theorem corr_total_r x : In x kept -> exists x', corr x' x /\ In x' (@all_preterminals QProb rs').
Proof.
  intros Hin. apply In_nth_error in Hin. destruct Hin as [n Hn].
  assert (Hlt : (n < @total QProb rs')%nat).
  { rewrite C14_same_length. apply nth_error_Some. congruence. }
  unfold total in Hlt.
  destruct (nth_error (@all_preterminals QProb rs') n) as [x'|] eqn:E.
  - exists x'. split; [exists n; auto|]. eapply nth_error_In; eauto.
  - apply nth_error_None in E. lia.
Qed.

Lemma NoDup_kept : NoDup kept.
Proof. apply NoDup_filter. apply NoDup_all_preterminals. Qed.

Theorem corr_fun x' x y : corr x' x -> corr x' y -> x = y.
Proof.
  intros [n [H1 H2]] [m [H3 H4]].
  assert (n = m).
  { pose proof (@NoDup_all_preterminals QProb rs') as Hnd.
    rewrite NoDup_nth_error in Hnd. apply Hnd; [|congruence].
    apply nth_error_Some. congruence. }
  subst. congruence.
Qed.

Theorem corr_inj x' y' x : corr x' x -> corr y' x -> x' = y'.
Proof.
  intros [n [H1 H2]] [m [H3 H4]].
  assert (n = m).
  { pose proof NoDup_kept as Hnd.
    rewrite NoDup_nth_error in Hnd. apply Hnd; [|congruence].
    apply nth_error_Some. congruence. }
  subst. congruence.
Qed.

(* (d) *)
Theorem Rel_order x' x y' y :
  R x' x -> R y' y ->
  @ple QProb (iprob x') (iprob y') = @ple QProb (iprob x) (iprob y).
Proof.
  intros [_ [_ Hx]] [_ [_ Hy]]. rewrite !QProb_ple.
  rewrite (Qle_bool_compat _ _ _ _ Hx Hy). apply Qle_bool_scale. exact Hc.
Qed.

Theorem C14_order x' x y' y :
  corr x' x -> corr y' y ->
  @ple QProb (iprob x') (iprob y') = @ple QProb (iprob x) (iprob y).
Proof. intros H1 H2. apply Rel_order; apply corr_Rel; auto. Qed.

(* (e) *)
Theorem C14_run_rescaled pop :
  @pop_ok_okb QProb pop ->
  Permutation (emitted (@run QProb pop rs' (@total QProb rs') (@start QProb rs')))
              (@all_preterminals QProb rs') /\
  @nonincreasing QProb (rev (emitted (@run QProb pop rs' (@total QProb rs') (@start QProb rs')))).
Proof.
  intros Hpop. split.
  - apply (@C02_exactly_once_okb QProb rs' wf_rescaled pop Hpop).
  - apply (@C01_sorted_okb QProb rs' wf_rescaled pop (@total QProb rs') Hpop).
Qed.

(* the --skip_brute stream against the default stream (both oldest first).
   pop and pop' may differ: nothing depends on how the heap breaks ties. *)
Theorem C14_stream_Q pop pop' :
  @pop_ok_okb QProb pop -> @pop_ok_okb QProb pop' ->
  let out  := rev (emitted (@run QProb pop rs (@total QProb rs) (@start QProb rs))) in
  let out' := rev (emitted (@run QProb pop' rs' (@total QProb rs') (@start QProb rs'))) in
  exists l, Permutation l (filter keepi out) /\
            @nonincreasing QProb l /\
            @nonincreasing QProb (filter keepi out) /\
            Forall2 R out' l.
Proof.
  intros Hpop Hpop' out out'.
  destruct (C14_run_rescaled pop' Hpop') as [Hperm' Hsort'].
  destruct (@C02_exactly_once_okb QProb rs Hwf pop Hpop) as [Hperm _].
  destruct (@C01_sorted_okb QProb rs Hwf pop (@total QProb rs) Hpop) as [Hsort _].
  assert (Hp1 : Permutation (@all_preterminals QProb rs') out').
  { apply Permutation_sym. eapply perm_trans; [|apply Hperm'].
    apply Permutation_sym. apply Permutation_rev. }
  destruct (Forall2_perm_l R _ _ Hp1 _ C14_corr) as [l [Hpl HF]].
  exists l. split; [|split; [|split]]; auto.
  - apply Permutation_sym. eapply perm_trans; [|apply Hpl].
    apply Permutation_filter'. eapply perm_trans; [|apply Hperm].
    apply Permutation_sym. apply Permutation_rev.
  - unfold nonincreasing in *.
    eapply (StronglySorted_Forall2 R); [|apply HF|apply Hsort'].
    intros a a' b b' Ha Hb H. cbv beta in *. rewrite <- (Rel_order _ _ _ _ Hb Ha). exact H.
  - apply StronglySorted_filter. exact Hsort.
Qed.

(* without ties among the kept pre-terminals the order is exactly the same *)
Theorem C14_stream_Q_no_ties pop pop' :
  @pop_ok_okb QProb pop -> @pop_ok_okb QProb pop' ->
  (forall x y, In x kept -> In y kept -> iprob x == iprob y -> x = y) ->
  let out  := rev (emitted (@run QProb pop rs (@total QProb rs) (@start QProb rs))) in
  let out' := rev (emitted (@run QProb pop' rs' (@total QProb rs') (@start QProb rs'))) in
  Forall2 R out' (filter keepi out) /\
  map (@ipt QProb) out' = map (@ipt QProb) (filter keepi out).
Proof.
  intros Hpop Hpop' Hties out out'.
  destruct (C14_stream_Q pop pop' Hpop Hpop') as [l [Hpl [Hsl [Hso HF]]]].
  fold out in Hpl, Hso. fold out' in HF.
  assert (El : l = filter keepi out).
  { apply (sorted_perm_unique _ l _ Hsl Hso Hpl).
    intros a b Ha Hb H1 H2.
    assert (Hk : forall z, In z l -> In z kept).
    { intros z Hz. apply (Permutation_in _ Hpl) in Hz.
      apply filter_In in Hz. destruct Hz as [Hz1 Hz2]. apply filter_In. split; auto.
      destruct (@C02_exactly_once_okb QProb rs Hwf pop Hpop) as [Hperm _].
      apply (Permutation_in _ Hperm). apply in_rev. exact Hz1. }
    apply Hties; auto.
    apply QProb_ple_iff in H1, H2. apply Qle_antisym; auto. }
  rewrite El in HF. split; auto.
  clear - HF. induction HF as [|x' x l' l0 [Hx _] _ IH]; simpl; congruence.
Qed.

End Stream.

(* ------------------------------------------------------------------ *)
(* probability mass: kept part of the default grammar, and the         *)
(* rescaled grammar (uses QSum.v)                                      *)
(* ------------------------------------------------------------------ *)
Section Mass.
Variable rs : Qruleset.
Variable keepb : Qbstruct -> bool.
Variable sizes : list (list nat).
(* only the variables of KEPT base structures need to sum to 1 *)
Hypothesis Hvar : forall b, In b (bases rs) -> keepb b = true ->
                  forall v, In v (brepl b) -> var_mass rs sizes v == 1.

Notation weight := (fun it : Qitem => iprob it * count_it sizes it).

Lemma flat_map_if_filter {X Y} (p : X -> bool) (f : X -> list Y) l :
  flat_map (fun x => if p x then f x else []) l = flat_map f (filter p l).
Proof.
  induction l as [|a l IH]; simpl; auto. destruct (p a); simpl; congruence.
Qed.

Lemma map_filter_combine_seq {X Y} (p : X -> bool) (g : X -> Y) l : forall s,
  map (fun kb => g (snd kb)) (filter (fun kb : nat * X => p (snd kb)) (combine (seq s (length l)) l))
  = map g (filter p l).
Proof.
  induction l as [|a l IH]; intros s; simpl; auto.
  destruct (p a); simpl; rewrite IH; reflexivity.
Qed.

(* the guesses of the kept structures carry exactly the kept base mass:
   the coverage of the default run without the Markov structure *)
Theorem kept_mass :
  Qsum (map weight (filter (keep_item rs keepb) (@all_preterminals QProb rs)))
  == Qsum (map (@bprob QProb) (filter keepb (bases rs))).
Proof.
  (* kept_flat does not need wf *)
  assert (E : filter (keep_item rs keepb) (@all_preterminals QProb rs)
              = flat_map (@preterminals_of QProb rs)
                  (filter (fun kb => keepb (snd kb))
                          (combine (seq 0 (length (bases rs))) (bases rs)))).
  { rewrite <- flat_map_if_filter.
    unfold all_preterminals. rewrite filter_flat_map. apply flat_map_ext_in'.
    intros [k b] Hin. apply In_combine_seq in Hin. destruct Hin as [_ Hn].
    rewrite Nat.sub_0_r in Hn. simpl snd. apply filter_const.
    intros it Hit. unfold preterminals_of in Hit. apply in_map_iff in Hit.
    destruct Hit as [vec [<- _]]. unfold keep_item. simpl. rewrite Hn. reflexivity. }
  rewrite E. rewrite (QSum_sel rs sizes (fun kb => keepb (snd kb))).
  - rewrite (map_filter_combine_seq keepb (@bprob QProb) (bases rs) 0). reflexivity.
  - intros [k b] Hin Hs v Hv. simpl in *. apply (Hvar b); auto.
    apply in_combine_r in Hin. auto.
Qed.

(* with c = 1 / (kept base mass) the rescaled grammar is a distribution *)
Theorem rescaled_mass (c : Q) :
  Qsum (map weight (@all_preterminals QProb (rescaled rs keepb c)))
  == c * Qsum (map (@bprob QProb) (filter keepb (bases rs))).
Proof.
  apply QSum_sub.
  - intros b' Hin v Hv. simpl in Hin. apply in_map_iff in Hin.
    destruct Hin as [b [<- Hb]]. apply filter_In in Hb. destruct Hb as [Hb Hk].
    change (var_mass rs sizes v == 1). apply (Hvar b); auto.
  - simpl bases. rewrite map_map.
    change (fun x => bprob (scale_b c x)) with (fun x : Qbstruct => c * bprob x).
    apply Qsum_scal.
Qed.

Corollary rescaled_sums_to_one (c s : Q) :
  Qsum (map (@bprob QProb) (filter keepb (bases rs))) == s -> ~ s == 0 -> c == / s ->
  Qsum (map weight (@all_preterminals QProb (rescaled rs keepb c))) == 1.
Proof.
  intros Hs Hnz Hcs. rewrite rescaled_mass, Hs, Hcs. field. exact Hnz.
Qed.

End Mass.

Print Assumptions wf_rescaled.
Print Assumptions find_prob_scale.
Print Assumptions C14_corr.
Print Assumptions C14_same_pts.
Print Assumptions C14_order.
Print Assumptions corr_fun.
Print Assumptions corr_inj.
Print Assumptions C14_run_rescaled.
Print Assumptions C14_stream_Q.
Print Assumptions C14_stream_Q_no_ties.
Print Assumptions kept_mass.
Print Assumptions rescaled_mass.
Print Assumptions rescaled_sums_to_one.
