(* The generated session functions (gen/Session_gen.v: the translation of the Python text of
   lib_guesser/cracking_session.py CrackingSession._save_session and CrackingSession.run,
   redone on every run by harness/translate_session.py) equal the hand-written model
   SessionModel.v (m_save, m_run = prologue + loop of m_step) for EVERY world, every choice
   of the collaborators, every load_session / limit / fuel.  SessionModelProofs.v derives
   Session.run_session, Session.limited and Omen.sess_restore / sess_quit / loop_saves from
   that model; the transported theorems are at the end of this file.

   Main names: save_session_eq, cracking_run_eq (generated = model, all inputs).

   The proofs symbolically execute the generated text against the model: every operation
   of the world met on a path is split into its outcomes ([crunch]) and the two sides must
   agree at every leaf; they do not mention the generated text, so they survive renamings,
   comments, reformatting and reorderings of independent statements, and break when a path
   changes its meaning (quit check after create_guesses, limit not decremented, save
   skipped, omen_guess_number not removed, ...). *)
From Coq Require Import List Arith ZArith NArith Bool Lia.
From Pcfg Require Import KernelRt ExpandRt Session SessionProofs SessionRt SessionRtProofs SessionModel SessionModelProofs.
From Pcfg Require Omen.
From PcfgGen Require Import Session_gen.
Import ListNotations.

(* split the first operation / test the goal branches on *)
Ltac split_innermost x :=
  lazymatch x with
  | context [match ?y with _ => _ end] => split_innermost y
  | _ => lazymatch type of x with
         | bool => let E := fresh "Ec" in destruct x eqn:E; zb E    (* a test: remember its outcome as a fact *)
         | _ => destruct x
         end
  end.
Ltac crunch1 :=
  match goal with
  | |- context [match ?x with _ => _ end] => split_innermost x
  end.
Ltac crunch_with tac :=
  repeat (cbv beta iota zeta delta [sbind if_truthy if_none fst snd extend]; tac; try crunch1);
  rewrite ?app_nil_r, ?app_nil_l.
Ltac crunch := crunch_with idtac.

Section Eq.
Context {W Item Pt G : Type}.
Context (new_queue restore_queue : W -> W).
Context (queue_next : W -> option Item * W).
Context (queue_update_save_config : W -> W).
Context (item_pt : Item -> Pt).
Context (create_guesses : Pt -> bool -> option Z -> W -> sres Z * list G * W).
Context (restore_omen : Z -> W -> sres Z * list G * W).
Context (read_should_exit : W -> bool * W).
Context (get_omen_exit : W -> bool).
Context (get_omen_guess_num : W -> Z).
Context (cfg_has_omen_number : W -> bool).
Context (cfg_omen_number : W -> Z).
Context (cfg_remove_omen_number : W -> W).
Context (cfg_set_omen_number : Z -> W -> W).
Context (write_save_file : W -> sres unit * W).
Context (start_keypress_thread : W -> W).

Notation gen_save := (py_save_session (G := G) queue_update_save_config get_omen_exit get_omen_guess_num
                                      cfg_set_omen_number write_save_file).
Notation mod_save := (m_save queue_update_save_config get_omen_exit get_omen_guess_num cfg_set_omen_number write_save_file).
Notation gen_run := (py_cracking_run new_queue restore_queue queue_next queue_update_save_config item_pt create_guesses
                                     restore_omen read_should_exit get_omen_exit get_omen_guess_num cfg_has_omen_number
                                     cfg_omen_number cfg_remove_omen_number cfg_set_omen_number write_save_file
                                     start_keypress_thread).
Notation mod_step := (m_step queue_next queue_update_save_config item_pt create_guesses read_should_exit get_omen_exit
                             get_omen_guess_num cfg_set_omen_number write_save_file).
Notation mod_loop := (m_loop queue_next queue_update_save_config item_pt create_guesses read_should_exit get_omen_exit
                             get_omen_guess_num cfg_set_omen_number write_save_file).
Notation mod_prologue := (m_prologue (G := G) new_queue restore_queue queue_update_save_config restore_omen get_omen_exit
                                     get_omen_guess_num cfg_has_omen_number cfg_omen_number cfg_remove_omen_number
                                     cfg_set_omen_number write_save_file start_keypress_thread).
Notation mod_run := (m_run new_queue restore_queue queue_next queue_update_save_config item_pt create_guesses
                           restore_omen read_should_exit get_omen_exit get_omen_guess_num cfg_has_omen_number
                           cfg_omen_number cfg_remove_omen_number cfg_set_omen_number write_save_file
                           start_keypress_thread).

Theorem save_session_eq : forall w, gen_save w = (fst (mod_save w), [], snd (mod_save w)).
Proof.
  intros w. unfold py_save_session, m_save, py_self_mode. cbn [str_eqb N.eqb Pos.eqb andb].
  crunch; reflexivity.
Qed.

(* ---- the main loop ---- *)
Section Loop.
Context (body : W * list G * option Z -> lctl (sres unit * list G * W) (W * list G * option Z)).
Context (k oof : W * list G * option Z -> sres unit * list G * W).

Definition step_ok : Prop := forall w printed limit,
  match mod_step limit w with
  | (inr l, out, w') => body (w, printed, limit) = LContinue (w', printed ++ out, l)
  | (inl r, out, w') =>
      body (w, printed, limit) = LReturn (r, printed ++ out, w') \/
      (r = SOk tt /\ exists l', body (w, printed, limit) = LBreak (w', printed ++ out, l'))
  end.

Lemma loop_eq : step_ok ->
  (forall w printed l, k (w, printed, l) = (SOk tt, printed, w)) ->
  (forall w printed l, oof (w, printed, l) = (SExc OutOfFuel, printed, w)) ->
  forall fuel w printed limit,
  while_loop fuel body (w, printed, limit) k oof =
  let '(r, out, w') := mod_loop fuel limit w in (r, printed ++ out, w').
Proof.
  intros Hs Hk Ho. induction fuel as [|fuel IH]; intros w printed limit.
  - cbn. now rewrite Ho, app_nil_r.
  - rewrite while_loop_S. cbn [m_loop]. pose proof (Hs w printed limit) as H.
    destruct (mod_step limit w) as [[[r|l] out] w'].
    + destruct H as [-> | [-> [l' ->]]]; [reflexivity|]. now rewrite Hk.
    + rewrite H, IH. destruct (mod_loop fuel l w') as [[r out'] w'']. now rewrite app_assoc.
Qed.
End Loop.

Theorem cracking_run_eq : forall fuel load_session limit w,
  gen_run fuel load_session limit w = mod_run fuel load_session limit w.
Proof.
  intros fuel load_session limit w. unfold py_cracking_run, m_run.
  match goal with |- context [while_loop fuel ?b _ ?k ?o] => set (body := b); set (kk := k); set (oo := o) end.
  assert (Hstep : step_ok body).
  { intros w0 printed l0. subst body. unfold m_step, m_save, py_save_session, py_self_mode.
    cbn [str_eqb N.eqb Pos.eqb andb].
    crunch; try reflexivity; try (left; reflexivity); try (right; split; [reflexivity|eexists; reflexivity]);
      exfalso; lia. (* the two sides may spell a test differently (`a <= 0`, `not a > 0`): mixed outcomes are impossible *) }
  pose proof (loop_eq body kk oo Hstep (fun _ _ _ => eq_refl) (fun _ _ _ => eq_refl)) as L.
  unfold m_prologue, m_save, py_save_session, py_self_mode. cbn [str_eqb N.eqb Pos.eqb andb].
  destruct load_session; cbv beta iota zeta delta [negb].
  - crunch_with ltac:(rewrite ?L); reflexivity.
  - crunch_with ltac:(rewrite ?L); reflexivity.
Qed.
End Eq.

(* ====================================================================== *)
(* The theorems of C12 / C09 / C15 transported to the translated source     *)
(* ====================================================================== *)

(* ---- C12: the translated run() in the world of Session.v ---- *)
Section SourceWorld.
Context (sch : schedule) (fresh restored : list pterm) (level_rest : nat -> nat -> list nat).

(* the translated CrackingSession.run with the collaborators of Session.v *)
Definition src_run (fuel : nat) (load_session : bool) (limit : option Z) (w : sworld) : sres unit * list nat * sworld :=
  py_cracking_run (w_new_queue fresh) (w_restore_queue restored) w_queue_next w_update_save_config w_item_pt
                  (w_create_guesses sch) (w_restore_omen sch level_rest) (w_read_should_exit sch) w_get_omen_exit
                  w_get_omen_guess_num w_cfg_has_omen_number w_cfg_omen_number w_cfg_remove_omen_number
                  w_cfg_set_omen_number w_write_save_file w_start_keypress_thread fuel load_session limit w.

Definition src_save (w : sworld) : sres bool * list nat * sworld :=
  py_save_session w_update_save_config w_get_omen_exit w_get_omen_guess_num w_cfg_set_omen_number w_write_save_file w.

Lemma src_run_is_w_run : forall fuel load limit w,
  src_run fuel load limit w = w_run sch fresh restored level_rest fuel load limit w.
Proof. intros. apply cracking_run_eq. Qed.

(* a new session without a limit IS Session.run_session, for every schedule and queue *)
Theorem source_run_is_run_session : forall l, l = None \/ l = Some 0%Z ->
  forall fuel cfg, length fresh < fuel ->
  fst (fst (src_run fuel false l (w_init cfg None))) = SOk tt /\
  w_outcome (src_run fuel false l (w_init cfg None)) = run_session true sch fresh.
Proof. intros l Hl fuel cfg Hf. rewrite src_run_is_w_run. now apply w_run_is_run_session. Qed.

Theorem source_prefix : forall l, l = None \/ l = Some 0%Z -> forall fuel cfg, length fresh < fuel ->
  exists rest, full_stream fresh = snd (fst (src_run fuel false l (w_init cfg None))) ++ rest.
Proof.
  intros l Hl fuel cfg Hf. destruct (source_run_is_run_session l Hl fuel cfg Hf) as [_ H].
  destruct (C12_prefix_partial true sch fresh (or_introl eq_refl)) as [rest Hr]. exists rest.
  rewrite Hr, <- H. destruct (src_run fuel false l (w_init cfg None)) as [[r o] w']. reflexivity.
Qed.

Theorem source_quit_boundary : forall l, l = None \/ l = Some 0%Z -> forall fuel cfg o, length fresh < fuel ->
  o = w_outcome (src_run fuel false l (w_init cfg None)) -> finished o = false ->
  exists before p after, fresh = before ++ p :: after /\ saved_at o = Some (pid p) /\
    ( (omen_saved o = None /\ out o = full_stream before) \/
      (exists b1 m j,
          before = b1 ++ [m] /\ markov m = true /\
          omen_saved o = Some (pid m, j) /\ 1 <= j <= length (guesses m) /\
          out o = full_stream b1 ++ firstn j (guesses m)) ).
Proof.
  intros l Hl fuel cfg o Hf Ho Hfin. destruct (source_run_is_run_session l Hl fuel cfg Hf) as [_ H].
  rewrite H in Ho. exact (C12_quit_boundary_polling sch fresh o Ho Hfin).
Qed.

Theorem source_schedule_independent : forall l, l = None \/ l = Some 0%Z -> forall fuel cfg, length fresh < fuel ->
  (forall t, ~ In EvQuitFlag (sch t)) ->
  snd (fst (src_run fuel false l (w_init cfg None))) = full_stream fresh.
Proof.
  intros l Hl fuel cfg Hf Hn. destruct (source_run_is_run_session l Hl fuel cfg Hf) as [_ H].
  destruct (C12_schedule_independent sch fresh Hn) as [_ [Ho _]]. rewrite <- H in Ho.
  destruct (src_run fuel false l (w_init cfg None)) as [[r o] w']. exact Ho.
Qed.

(* ---- C15 ---- *)
Context (st : nat * nat -> Omen.saved).

Theorem source_save_is_sess_quit : forall w state,
  (sw_omen_exit w = true -> option_map st (sw_om w) = Some state) ->
  fst (fst (src_save w)) = SOk true /\ snd (fst (src_save w)) = [] /\
  sv_of st (snd (src_save w)) = Omen.sess_quit (sv_of st w) (sw_omen_exit w) (sw_omen_num w) state.
Proof.
  intros w state H. unfold src_save. rewrite save_session_eq. cbn [fst snd].
  destruct (w_save_is_sess_quit st w state H) as [H1 H2]. auto.
Qed.

(* a resumed session whose restored queue is empty: what run() leaves in the configuration
   is Omen.sess_restore (the main loop returns at once, so this isolates the prologue) *)
Theorem source_resume_is_sess_restore : forall l fuel w,
  restored = [] -> (forall n, sw_cfg_omen w = Some n -> sw_om w <> None) ->
  let '(r, o, w') := src_run (S fuel) true l w in
  r = SOk tt /\
  sw_cfg_omen w' = Omen.sv_number (snd (Omen.sess_restore true (sv_of st w) (sw_omen_exit w'))) /\
  match fst (Omen.sess_restore true (sv_of st w) (sw_omen_exit w')), sw_cfg_omen w, sw_om w with
  | Some s, Some n, Some (p, j) =>
      s = st (p, j) /\ o = fst (fst (fst (emit_markov sch (sw_t w) (sw_h w) (level_rest p n) n)))
  | None, None, _ => o = []
  | _, _, _ => False
  end.
Proof.
  intros l fuel w Hr Hom. rewrite src_run_is_w_run. unfold w_run, m_run.
  pose proof (w_prologue_is_sess_restore sch fresh restored level_rest st w Hom) as H.
  match goal with |- context [m_prologue ?a ?b ?c ?d ?e ?f ?g ?h ?i ?j ?k ?m true w] =>
    destruct (m_prologue a b c d e f g h i j k m true w) as [[r o] w1] eqn:Ep end.
  destruct H as [-> [Hpend [H1 H2]]]. rewrite Hr in Hpend.
  cbn [m_loop]. unfold m_step. rewrite (w_queue_next_nil w1 Hpend). rewrite app_nil_r. auto.
Qed.

(* the no-replay requirement on the source: after a resume whose restored level ran to its
   end (omen_exit false) the configuration no longer holds a guess number *)
Theorem source_no_replay : forall l fuel w,
  restored = [] -> (forall n, sw_cfg_omen w = Some n -> sw_om w <> None) ->
  let w' := snd (src_run (S fuel) true l w) in
  sw_omen_exit w' = false -> sw_cfg_omen w' = None.
Proof.
  intros l fuel w Hr H. pose proof (source_resume_is_sess_restore l fuel w Hr H) as R.
  destruct (src_run (S fuel) true l w) as [[r o] w']. cbn [snd].
  destruct R as [_ [R _]]. intros E. rewrite R, E. unfold Omen.sess_restore, sv_of. cbn.
  destruct (sw_cfg_omen w); reflexivity.
Qed.

(* one iteration of the translated main loop (a resumed session without a saved OMEN
   position, fuel 1: the prologue only restores the queue and starts the thread) writes the
   save file exactly when Omen.loop_saves says so: the pop returned a pre-terminal AND the
   quit flag is set at that step.  A quit seen when the queue is empty is never saved (R18) *)
Theorem source_iteration_saves_is_loop_saves : forall l w, sw_cfg_omen w = None ->
  length (sw_saves (snd (src_run 1 true l w))) =
  length (sw_saves w) +
  (if Omen.loop_saves (match restored with [] => false | _ :: _ => true end)
                      (should_exit (h_steps (sw_h w) (sch (sw_t w)))) then 1 else 0).
Proof.
  intros l w Hc. rewrite src_run_is_w_run. unfold w_run, m_run, m_prologue, w_cfg_has_omen_number.
  cbn [w_start_keypress_thread w_restore_queue upd_started upd_queue sw_cfg_omen]. rewrite Hc.
  match goal with |- context [m_loop ?a ?b ?c ?d ?e ?f ?g ?h ?i 1 l ?w1] =>
    pose proof (w_step_saves_is_loop_saves sch l w1) as H; cbn [m_loop];
    destruct (m_step a b c d e f g h i l w1) as [[[r|l'] o] w'] end;
    cbn [snd app] in *; rewrite H; destruct restored; reflexivity.
Qed.
End SourceWorld.

(* ---- C09: --limit, in every quiet world ---- *)
Section SourceQuiet.
Context {W Item Pt : Type}.
Context (new_queue restore_queue : W -> W).
Context (queue_next : W -> option Item * W).
Context (queue_update_save_config : W -> W).
Context (item_pt : Item -> Pt).
Context (create_guesses : Pt -> bool -> option Z -> W -> sres Z * list nat * W).
Context (restore_omen : Z -> W -> sres Z * list nat * W).
Context (read_should_exit : W -> bool * W).
Context (get_omen_exit : W -> bool).
Context (get_omen_guess_num : W -> Z).
Context (cfg_has_omen_number : W -> bool).
Context (cfg_omen_number : W -> Z).
Context (cfg_remove_omen_number : W -> W).
Context (cfg_set_omen_number : Z -> W -> W).
Context (write_save_file : W -> sres unit * W).
Context (start_keypress_thread : W -> W).
Context (pending : W -> list Item) (expansion : Pt -> list nat).
Context (Hq : quiet_world queue_next queue_update_save_config create_guesses read_should_exit cfg_set_omen_number
                          write_save_file start_keypress_thread pending expansion).

Notation gen_run := (py_cracking_run new_queue restore_queue queue_next queue_update_save_config item_pt create_guesses
                                     restore_omen read_should_exit get_omen_exit get_omen_guess_num cfg_has_omen_number
                                     cfg_omen_number cfg_remove_omen_number cfg_set_omen_number write_save_file
                                     start_keypress_thread).

Theorem source_run_is_limited : forall (l : option nat) fuel w, length (pending (new_queue w)) < fuel ->
  exists w', gen_run fuel false (zlimit l) w = (SOk tt, limited (qgroups item_pt pending expansion (new_queue w)) l, w').
Proof.
  intros l fuel w Hf. rewrite cracking_run_eq.
  exact (m_run_is_limited new_queue restore_queue queue_next queue_update_save_config item_pt create_guesses restore_omen
           read_should_exit get_omen_exit get_omen_guess_num cfg_has_omen_number cfg_omen_number cfg_remove_omen_number
           cfg_set_omen_number write_save_file start_keypress_thread pending expansion Hq l fuel w Hf).
Qed.

(* C09_limit_exact for the translated source *)
Corollary source_limit_exact : forall n fuel w, n >= 1 -> length (pending (new_queue w)) < fuel ->
  let out := snd (fst (gen_run fuel false (Some (Z.of_nat n)) w)) in
  out = firstn n (concat (qgroups item_pt pending expansion (new_queue w))) /\
  length out = Nat.min n (length (concat (qgroups item_pt pending expansion (new_queue w)))).
Proof.
  intros n fuel w Hn Hf. destruct (source_run_is_limited (Some n) fuel w Hf) as [w' H].
  cbn [zlimit option_map] in H. cbv zeta. rewrite H. cbn [fst snd]. now apply C09_limit_exact.
Qed.
End SourceQuiet.

(* ---- the hypotheses are satisfiable and the translated functions compute ---- *)

(* a quiet world: the queue is a list of groups (a pre-terminal is its list of guesses),
   nobody asks to quit, saving does nothing *)
Definition qw_next (w : list (list nat)) : option (list nat) * list (list nat) := (hd_error w, tl w).
Definition qw_create (gs : list nat) (_ : bool) (l : option Z) (w : list (list nat)) : sres Z * list nat * list (list nat) :=
  (SOk (len (limit_take l gs)), limit_take l gs, w).
Definition qw_run (fuel : nat) (load : bool) (limit : option Z) (w : list (list nat)) :=
  py_cracking_run (fun w => w) (fun w => w) qw_next (fun w => w) (fun gs : list nat => gs) qw_create
                  (fun _ w => (SOk 0%Z, [], w)) (fun w => (false, w)) (fun _ => false) (fun _ => 0%Z) (fun _ => false)
                  (fun _ => 0%Z) (fun w => w) (fun _ w => w) (fun w => (SOk tt, w)) (fun w => w) fuel load limit w.

Lemma list_world_quiet :
  quiet_world qw_next (fun w => w) qw_create (fun w : list (list nat) => (false, w)) (fun _ w => w)
              (fun w => (SOk tt, w)) (fun w => w) (fun w => w) (fun gs : list nat => gs).
Proof. unfold quiet_world. repeat split; auto. Qed.

Example list_world_limit_example :
  qw_run 6 false (Some 4%Z) [[1;2]; []; []; [3;4;5]; [6]] = (SOk tt, [1;2;3;4], [[6]]) /\
  qw_run 6 false None [[1;2]; []; []; [3;4;5]; [6]] = (SOk tt, [1;2;3;4;5;6], []).
Proof. split; vm_compute; reflexivity. Qed.

(* the world of Session.v: a plain pre-terminal, a Markov level, a plain one; 'q' arrives
   while the second guess of the Markov level is being written (step 5) *)
Example session_world_example :
  let pts := [plainp 0 [10; 11]; markovp 1 [20; 21; 22]; plainp 2 [30]] in
  let sch := at_step 5 [EvQuitFlag] quiet in
  w_outcome (src_run sch pts [] (fun _ _ => []) 4 false None (w_init None None)) =
    {| out := [10; 11; 20; 21]; saved_at := Some 2; omen_saved := Some (1, 2); finished := false |} /\
  run_session true sch pts =
    {| out := [10; 11; 20; 21]; saved_at := Some 2; omen_saved := Some (1, 2); finished := false |} /\
  sw_saves (snd (src_run sch pts [] (fun _ _ => []) 4 false None (w_init None None))) = [(None, None); (Some 2, Some 2)].
Proof. cbv zeta. repeat split; vm_compute; reflexivity. Qed.

(* ====================================================================== *)
(* keypress: which flag a 'q' sets and when the thread ends                 *)
(* ====================================================================== *)
Definition src_keypress (fuel : nat) (w : kworld) : sres unit * list nat * kworld :=
  py_keypress k_set_should_exit k_read_input k_main_thread_is_alive k_stderr k_stderr k_stderr fuel w.

(* one iteration of the translated loop of keypress, in the world of the thread *)
Definition k_step (w : kworld) (printed : list nat) : lctl (sres unit * list nat * kworld) (kworld * list nat) :=
  match kw_inputs w with
  | [] => LReturn (SOk tt, printed, w)
  | KErr :: r => LReturn (SOk tt, printed, mkK r (kw_stderr w) (kw_main_alive w) (kw_flag w))
  | KLine s ok :: r =>
      let w1 := mkK r ok (kw_main_alive w) (kw_flag w) in
      if negb (kw_main_alive w) then LReturn (SOk tt, printed, w1)
      else if negb ok then LReturn (SOk tt, printed, w1)
      else if str_eqb s [113%N] then LReturn (SOk tt, printed, k_set_should_exit w1)
      else LContinue (w1, printed)
  end.

Lemma keypress_loop : forall (body : kworld * list nat -> lctl (sres unit * list nat * kworld) (kworld * list nat)) k oof,
  (forall w printed, body (w, printed) = k_step w printed) ->
  forall ins fuel w printed, kw_inputs w = ins -> length ins < fuel ->
  exists w', while_loop fuel body (w, printed) k oof = (SOk tt, printed, w') /\
    kw_flag w' = should_exit (h_steps {| alive := true; should_exit := kw_flag w |} (kp_trace (kw_main_alive w) ins)) /\
    alive (h_steps {| alive := true; should_exit := kw_flag w |} (kp_trace (kw_main_alive w) ins)) = false.
Proof.
  intros body k oof Hb. induction ins as [|i r IH]; intros fuel w printed Hi Hf;
    (destruct fuel as [|fuel]; [cbn in Hf; lia|]); rewrite while_loop_S, Hb; unfold k_step; rewrite Hi.
  - exists w. repeat split; reflexivity.
  - destruct i as [s ok|]; [|eexists; repeat split; reflexivity].
    cbn [kp_trace]. destruct (kw_main_alive w) eqn:Ea; cbn [negb]; [|eexists; repeat split; reflexivity].
    destruct ok; cbn [negb]; [|eexists; repeat split; reflexivity].
    destruct (str_eqb s [113%N]); [eexists; repeat split; reflexivity|].
    destruct (IH fuel (mkK r true true (kw_flag w)) printed eq_refl ltac:(cbn in Hf; lia)) as [w' [-> [H1 H2]]].
    cbn [kw_main_alive kw_flag] in H1, H2. exists w'. split; [reflexivity|].
    assert (Hs : forall e, e = EvHelp \/ e = EvStatus ->
                 h_steps {| alive := true; should_exit := kw_flag w |} (e :: kp_trace true r) =
                 h_steps {| alive := true; should_exit := kw_flag w |} (kp_trace true r)).
    { intros e [-> | ->]; reflexivity. }
    rewrite Hs by (destruct (str_eqb s [104%N]); auto). auto.
Qed.

(* the translated keypress: for every list of inputs it ends (fuel above their number is never
   exhausted), writes nothing to stdout, and leaves the quit flag exactly as the events
   [kp_trace] of Session.v say (h_step: EvQuitFlag sets it, everything else leaves it); in
   particular without a 'q' line the flag stays as it was *)
Theorem keypress_is_trace : forall fuel w, length (kw_inputs w) < fuel ->
  exists w', src_keypress fuel w = (SOk tt, [], w') /\
    kw_flag w' = should_exit (h_steps {| alive := true; should_exit := kw_flag w |}
                                      (kp_trace (kw_main_alive w) (kw_inputs w))) /\
    alive (h_steps {| alive := true; should_exit := kw_flag w |} (kp_trace (kw_main_alive w) (kw_inputs w))) = false.
Proof.
  intros fuel w Hf. unfold src_keypress, py_keypress.
  match goal with |- context [while_loop fuel ?b _ ?k ?o] => set (body := b); set (kk := k); set (oo := o) end.
  apply (keypress_loop body kk oo); [|reflexivity|exact Hf].
  (* one iteration of the generated body against k_step *)
  intros w0 printed. subst body. unfold k_step, k_read_input, k_main_thread_is_alive, k_stderr, k_set_should_exit.
  destruct w0 as [ins se ma fl]. cbn [kw_inputs kw_stderr kw_main_alive kw_flag].
  destruct ins as [|[s ok|] r]; try reflexivity.
  cbv beta iota zeta delta [sbind]. cbn [kw_inputs kw_stderr kw_main_alive kw_flag].
  destruct ma; cbn [negb]; [|reflexivity].
  destruct ok; cbv beta iota zeta delta [sbind negb]; cbn [kw_inputs kw_stderr kw_main_alive kw_flag]; [|reflexivity].
  destruct (str_eqb s [113%N]); [reflexivity|].
  destruct (str_eqb s [104%N]); reflexivity.
Qed.

Example keypress_example :
  src_keypress 5 (mkK [KLine [] true; KLine [104%N] true; KLine [113%N] true; KLine [] true] true true false)
  = (SOk tt, [], mkK [KLine [] true] true true true) /\
  src_keypress 5 (mkK [KLine [] true; KLine [113%N] false] true true false) = (SOk tt, [], mkK [] false true false) /\
  kp_trace true [KLine [] true; KLine [104%N] true; KLine [113%N] true; KLine [] true]
  = [EvStatus; EvHelp; EvQuitFlag; EvThreadEnds].
Proof. repeat split; vm_compute; reflexivity. Qed.
