(* The C05 theorems transported to the generated detectors (gen/Detect_gen.v, the
   translation of the current Python source): what DetectProofs* prove about the
   hand-written models holds of the translated functions, through the equalities
   of DetectGenProofs.v.  The instance is the one the correspondence runs
   (constants of gen/Consts_gen.v, Unicode facts of gen/Unicode_gen.v); the
   statements about one detector call hold for every oracle. *)
From Coq Require Import List ZArith NArith Bool Lia Sorting.Permutation.
From Pcfg Require Import Str Multiword Detect Segment SegCorr DetectRt DetectProofsStr DetectProofsDrive DetectProofsSimple
     DetectProofsMw DetectProofsSeg DetectProofsCount DetectProofsAdj DetectProofsPipe DetectProofsInst DetectGenProofs.
From PcfgGen Require Import Consts_gen Unicode_gen Detect_gen.
Import ListNotations.
Open Scope Z_scope.

(* ---- the pipeline as the source has it: the translated parse over the
   translated detectors; keyboard walk, e-mail and website detection (not
   translated) are the model's *)
Definition py_parse_c (m : mwmap) (pw : str) :=
  py_parse c_isalpha c_isdigit c_isupper c_lower (mwparse_c m)
           (model_keyboard_walk c_isalpha c_isdigit c_lower c_kbs kb_false_positive_words c_min_run)
           (model_email_detection c_lower tld_list)
           (model_website_detection c_isalpha c_lower tld_list) pw.

(* py_parse_c is the model pipeline parse_c, observed at base_structure_creation *)
Theorem py_parse_c_is_model (m : mwmap) (pw : str) : py_parse_c m pw = parse_view (parse_c m pw).
Proof.
  unfold py_parse_c, parse_c, parse_gen, mwparse_c. rewrite side_lower_aligned. apply py_parse_eq.
Qed.

(* C05 for the translated pipeline: no exception, tiling, every section
   labelled and soundly typed, counter feeds = tallies of the sections, digit
   sections maximal *)
Theorem py_parse_c_full : forall m pw, pw <> [] ->
  exists r, py_parse_c m pw = Some (p_sections r, p_years r, p_context r, p_alpha r, p_masks r, p_digits r, p_other r) /\
            tiles c_pm pw (p_sections r) /\ Forall c_sound (p_sections r) /\
            Forall (fun y => snd y <> None) (p_sections r) /\ c_counters_ok r /\ no_adj (isC 6) (p_sections r).
Proof.
  intros m pw H. destruct (parse_c_full m pw H) as (r & E & Hr). exists r. split; [|exact Hr].
  now rewrite py_parse_c_is_model, E.
Qed.

Theorem py_parse_c_tiling : forall m pw, pw <> [] ->
  exists sl ys cs al ms ds os, py_parse_c m pw = Some (sl, ys, cs, al, ms, ds, os) /\
    tiles c_pm pw sl /\ Forall c_sound sl /\ Forall (fun y => snd y <> None) sl.
Proof.
  intros m pw H. destruct (py_parse_c_full m pw H) as (r & E & H1 & H2 & H3 & _).
  exists (p_sections r), (p_years r), (p_context r), (p_alpha r), (p_masks r), (p_digits r), (p_other r). auto.
Qed.

Theorem py_parse_c_never_raises : forall m pw, pw <> [] -> py_parse_c m pw <> None.
Proof. intros m pw H. destruct (py_parse_c_full m pw H) as (r & E & _). now rewrite E. Qed.

(* what the translated parse feeds to count_years, count_context_sensitive,
   count_alpha, count_alpha_masks, count_digits, count_other is, up to order,
   the texts of the sections of that label (alpha: lower-cased / case mask) *)
Theorem py_parse_c_counters : forall m pw, pw <> [] ->
  exists sl ys cs al ms ds os, py_parse_c m pw = Some (sl, ys, cs, al, ms, ds, os) /\
    Permutation ys (texts 3 sl) /\ Permutation cs (texts 4 sl) /\
    al = map (map (lower1 c_lower)) (texts 5 sl) /\ ms = map (case_mask c_isupper) (texts 5 sl) /\
    Permutation ds (texts 6 sl) /\ Permutation os (texts 7 sl).
Proof.
  intros m pw H. destruct (py_parse_c_full m pw H) as (r & E & _ & _ & _ & Hc & _).
  exists (p_sections r), (p_years r), (p_context r), (p_alpha r), (p_masks r), (p_digits r), (p_other r).
  split; [exact E|]. unfold c_counters_ok, counters_ok in Hc. cbv zeta in Hc.
  destruct Hc as (_ & _ & _ & Hy & Hx & _ & _ & Hd & Ho & _ & _ & _ & _ & _ & _ & Ha & Hm). auto 10.
Qed.

Theorem py_parse_c_digit_maximal : forall m pw sl ys cs al ms ds os, pw <> [] ->
  py_parse_c m pw = Some (sl, ys, cs, al, ms, ds, os) ->
  forall a x y b, sl = a ++ x :: y :: b -> isC 6 x = true -> isC 6 y = false.
Proof.
  intros m pw sl ys cs al ms ds os Hne E a x y b Es Hx.
  destruct (py_parse_c_full m pw Hne) as (r & E' & _ & _ & _ & _ & Hn).
  rewrite E in E'. injection E' as -> _ _ _ _ _ _. rewrite Es in Hn. clear -Hn Hx.
  induction a as [|z a IH]; simpl in Hn; [|apply IH; tauto]. destruct Hn as (H & _). exact (H Hx).
Qed.

(* ---- one call of a translated detector on one section, for every oracle *)
Section OneCall.
Variables isalpha isdigit isupper : N -> bool.
Variable lower_c : N -> str.

(* detect_digits: what is returned is the first maximal digit run, cut out *)
Theorem py_detect_digits_found : forall sec p f, py_detect_digits isdigit sec = Some (p, Some f) ->
  exists l1 l2 l3, fst sec = l1 ++ l2 ++ l3 /\ forallb (fun c => negb (isdigit c)) l1 = true /\
    forallb isdigit l2 = true /\ l2 <> [] /\ stops isdigit l3 /\
    p = PList (osec l1 ++ [(l2, Some (LD (len l2)))] ++ osec l3) /\ f = l2.
Proof.
  intros sec p f. rewrite py_detect_digits_eq.
  destruct (detect_digits isdigit (fst sec)) as [| |p' f'] eqn:E; cbn [py_of_dres]; try discriminate.
  intros H. injection H as <- <-. destruct (detect_digits_spec isdigit _ _ _ E) as (l1 & l2 & l3 & H1 & H2 & H3 & H4 & H5 & -> & ->).
  exists l1, l2, l3. auto 10.
Qed.

Theorem py_detect_digits_none : forall sec p, py_detect_digits isdigit sec = Some (p, None) ->
  p = PSec sec /\ forallb (fun c => negb (isdigit c)) (fst sec) = true.
Proof.
  intros sec p. rewrite py_detect_digits_eq.
  destruct (detect_digits isdigit (fst sec)) as [| |p' f'] eqn:E; cbn [py_of_dres]; try discriminate.
  intros H. injection H as <-. split; [reflexivity|]. now apply detect_digits_none.
Qed.

Theorem py_detect_digits_never_raises : forall sec, py_detect_digits isdigit sec <> None.
Proof.
  intros sec. rewrite py_detect_digits_eq. pose proof (detect_digits_no_err isdigit (fst sec)).
  destruct (detect_digits isdigit (fst sec)); cbn [py_of_dres]; congruence.
Qed.

(* detect_year: a year that year_detection accepts (`if year:`) is '19' or
   '20' followed by two digits, cut out of the section *)
Theorem py_detect_year_found : forall sec p f, dres_if_truthy (py_detect_year isdigit sec) = DYes p f ->
  exists prefix l1 c2 c3 l3, In prefix [[49; 57]; [50; 48]]%N /\ fst sec = l1 ++ f ++ l3 /\ f = prefix ++ [c2; c3] /\
    isdigit c2 = true /\ isdigit c3 = true /\ p = osec l1 ++ [(f, Some LY)] ++ osec l3.
Proof.
  intros sec p f. rewrite py_detect_year_eq. rewrite <- side_year_prefixes_19_20.
  apply detect_year_spec. exact side_year_prefixes.
Qed.

Theorem py_detect_year_never_raises : forall sec, py_detect_year isdigit sec <> None.
Proof.
  intros sec E. apply (detect_year_no_err isdigit year_prefixes (fst sec)). rewrite <- py_detect_year_eq, E. reflexivity.
Qed.

(* detect_context_sensitive: what context_sensitive_detection accepts is one of
   the listed strings, cut out of the section *)
Theorem py_detect_context_sensitive_found : forall sec p f,
  dres_if_truthy (py_detect_context_sensitive isdigit sec) = DYes p f ->
  exists l1 l3, fst sec = l1 ++ f ++ l3 /\ In f context_strings /\ f <> [] /\ p = osec l1 ++ [(f, Some LX)] ++ osec l3.
Proof. intros sec p f. rewrite py_detect_context_sensitive_eq. apply detect_context_spec. Qed.

Theorem py_detect_context_sensitive_never_raises : forall sec, py_detect_context_sensitive isdigit sec <> None.
Proof.
  intros sec E. apply (detect_context_no_err isdigit context_strings (fst sec)).
  rewrite <- py_detect_context_sensitive_eq, E. reflexivity.
Qed.

(* detect_alpha: the first maximal letter run of the (length-preserving)
   lower-casing, cut exactly at the word lengths multiword_detector.parse
   returned for it *)
Theorem py_detect_alpha_found : forall (mwp : str -> option (bool * list str)) sec p f,
  (forall x b ws, mwp x = Some (b, ws) -> concat ws = x) -> lowne lower_c (fst sec) ->
  dres_alpha (py_detect_alpha isalpha isupper lower_c mwp sec) = DYes p f ->
  exists l1 l2 l3 pieces b, fst sec = l1 ++ l2 ++ l3 /\ l2 <> [] /\
    forallb (fun c => negb (isalpha c)) (map (lower1 lower_c) l1) = true /\
    forallb isalpha (map (lower1 lower_c) l2) = true /\
    stops isalpha (map (lower1 lower_c) l3) /\
    mwp (map (lower1 lower_c) l2) = Some (b, map (map (lower1 lower_c)) pieces) /\
    concat pieces = l2 /\ pieces <> [] /\
    p = osec l1 ++ map (fun pc => (pc, Some (LA (len pc)))) pieces ++ osec l3 /\
    f = (map (map (lower1 lower_c)) pieces, map (case_mask isupper) pieces).
Proof.
  intros mwp sec p f Hc Hl. rewrite py_detect_alpha_eq. now apply detect_alpha_spec.
Qed.

End OneCall.

(* ---- the translated stages on ANY section list, for every oracle: no
   exception (in particular the fuel of the `while` loop suffices) and the text
   is preserved *)
Definition pm_text (piece : str) (x : section) : Prop := piece = fst x.

Lemma tiles_text s sl : tiles pm_text s sl <-> s = concat (map fst sl).
Proof.
  split.
  - intros (pieces & <- & Hf). induction Hf as [|pc x ps xs Hp _ IH]; [reflexivity|]. cbn. unfold pm_text in Hp. congruence.
  - intros ->. exists (map fst sl). split; [reflexivity|]. induction sl; constructor; [reflexivity|assumption].
Qed.

Lemma stage_text {F : Type} (detect : str -> dres F) (reex : bool) :
  (forall s, detect s <> DErr) ->
  (forall s p f, detect s = DYes p f ->
     exists l1 M l3 lab, s = l1 ++ M ++ l3 /\ M <> [] /\ p = osec l1 ++ [(M, Some lab)] ++ osec l3) ->
  forall todo, exists out fs, drive_all detect reex todo = Some (out, fs) /\ concat (map fst out) = concat (map fst todo).
Proof.
  intros Hne Hsp todo.
  destruct (split_driver_tiling F detect reex pm_text (fun piece s => conj (fun H => H) (fun H => H))
              (fun _ => True) (fun _ => True)) with (todo := todo) as (out & fs & E & Ht & _).
  - intros s _. apply Hne.
  - intros s p f _ _ D. destruct (Hsp s p f D) as (l1 & M & l3 & lab & -> & HM & ->).
    apply (shape_split_ok pm_text (fun piece s => conj (fun H => H) (fun H => H)) (fun _ => True) (fun _ => True)
             l1 M l3 [(M, Some lab)]).
    + apply tiles_text. cbn. now rewrite app_nil_r.
    + assumption.
    + destruct M; [congruence|cbn; lia].
    + repeat constructor. discriminate.
    + repeat constructor.
    + intros _. split; exact I.
    + intros _. split; exact I.
  - apply Forall_forall. intros [s [l|]] _ _; exact I.
  - apply Forall_forall. intros; exact I.
  - exists out, fs. split; [assumption|]. symmetry. apply tiles_text, Ht, tiles_text. reflexivity.
Qed.

Theorem py_digit_detection_total : forall isdigit todo,
  exists out fs, py_digit_detection isdigit todo = Some (out, fs) /\ concat (map fst out) = concat (map fst todo).
Proof.
  intros isdigit todo. rewrite py_digit_detection_eq. apply stage_text.
  - apply detect_digits_no_err.
  - intros s p f D. destruct (detect_digits_spec isdigit _ _ _ D) as (l1 & l2 & l3 & -> & _ & _ & Hne & _ & -> & _).
    exists l1, l2, l3, (LD (len l2)). auto.
Qed.

Theorem py_year_detection_total : forall isdigit todo,
  exists out fs, py_year_detection isdigit todo = Some (out, fs) /\ concat (map fst out) = concat (map fst todo).
Proof.
  intros isdigit todo. rewrite py_year_detection_eq. apply stage_text.
  - apply detect_year_no_err.
  - intros s p f D. destruct (detect_year_spec isdigit _ _ _ _ side_year_prefixes D)
      as (prefix & l1 & c2 & c3 & l3 & _ & -> & Ef & _ & _ & ->).
    exists l1, f, l3, LY. repeat split. subst f. now destruct prefix.
Qed.

Theorem py_context_sensitive_detection_total : forall isdigit todo,
  exists out fs, py_context_sensitive_detection isdigit todo = Some (out, fs) /\
                 concat (map fst out) = concat (map fst todo).
Proof.
  intros isdigit todo. rewrite py_context_sensitive_detection_eq. apply stage_text.
  - apply detect_context_no_err.
  - intros s p f D. destruct (detect_context_spec isdigit _ _ _ _ D) as (l1 & l3 & -> & _ & Hne & ->).
    exists l1, f, l3, LX. auto.
Qed.

Theorem py_other_detection_total : forall todo,
  exists out fs, py_other_detection todo = Some (out, fs) /\ map fst out = map fst todo /\
                 Forall (fun y => snd y <> None) out.
Proof.
  intros todo. rewrite py_other_detection_eq. unfold other_detection. eexists _, _. split; [reflexivity|]. split.
  - rewrite map_map. apply map_ext. intros [s [l|]]; reflexivity.
  - apply Forall_forall. intros y Hy. apply in_map_iff in Hy. destruct Hy as ([s [l|]] & <- & _); discriminate.
Qed.

(* ---- the generated code runs: the hypotheses of the theorems above hold on
   non-trivial instances ('1qaz2019#1pass!', 'p2019!', 'a12b', 'a#1b', '1Pass!') *)
Lemma demo_py_parse :
  py_parse_c [] w_demo =
  Some ([([49; 113; 97; 122]%N, Some (LK 4)); ([50; 48; 49; 57]%N, Some LY); ([35; 49]%N, Some LX);
         ([112; 97; 115; 115]%N, Some (LA 4)); ([33]%N, Some (LO 1))],
        [[50; 48; 49; 57]%N], [[35; 49]%N], [[112; 97; 115; 115]%N], [[76; 76; 76; 76]%N], [], [[33]%N]) /\
  w_demo <> [].
Proof. split; [vm_compute; reflexivity|discriminate]. Qed.

Lemma demo_py_detectors :
  py_detect_year c_isdigit ([112; 50; 48; 49; 57; 33]%N, None) =
    Some (PList [([112]%N, None); ([50; 48; 49; 57]%N, Some LY); ([33]%N, None)], Some [50; 48; 49; 57]%N) /\
  py_detect_digits c_isdigit ([97; 49; 50; 98]%N, None) =
    Some (PList [([97]%N, None); ([49; 50]%N, Some (LD 2)); ([98]%N, None)], Some [49; 50]%N) /\
  py_detect_context_sensitive c_isdigit ([97; 35; 49; 98]%N, None) =
    Some (PList [([97]%N, None); ([35; 49]%N, Some LX); ([98]%N, None)], Some [35; 49]%N) /\
  py_detect_alpha c_isalpha c_isupper c_lower (mwparse_c []) ([49; 80; 97; 115; 115; 33]%N, None) =
    Some (PList [([49]%N, None); ([80; 97; 115; 115]%N, Some (LA 4)); ([33]%N, None)],
          Some [[112; 97; 115; 115]%N], Some [[85; 76; 76; 76]%N]).
Proof. repeat split; vm_compute; reflexivity. Qed.
