(* Correspondence helpers for C13 (evaluated by vm_compute): the scorer model
   over binary64 floats with the multiplication order of the code, and the
   guesser's language with pre-terminal probabilities enumerated from the same
   tables. *)
From Coq Require Import List ZArith NArith Bool Floats.
From Pcfg Require Import Str Multiword Detect Segment SegCorr Scorer.
From PcfgGen Require Import Consts_gen Unicode_gen.
Import ListNotations.
Open Scope Z_scope.

Notation rsF := (ruleset float).
Definition f0 : float := 0%float.
Definition f1 : float := 1%float.

(* the scorer's own MultiWordDetector(threshold, min_len[, max_len]) *)
Definition s_threshold : Z := Z.of_nat scorer_mw_threshold.
Definition s_min_len : Z := Z.of_nat scorer_mw_min_len.
Definition s_max_len : Z := Z.of_nat scorer_mw_max_len.

(* the segmentation pipeline with that detector *)
Definition parse_s : mwmap -> str -> presult :=
  parse c_isalpha c_isdigit c_isupper c_lower seg_lower_aligned c_kbs kb_false_positive_words c_min_run tld_list
        year_prefixes context_strings s_threshold s_min_len s_max_len.
Definition mwparse_s : mwmap -> str -> option (bool * list str) := mwparse c_lower s_threshold s_min_len s_max_len.

Definition scorer_mw_F (rs : rsF) : mwmap :=
  scorer_mw float f0 PrimFloat.ltb scorer_mw_skip c_isalpha c_lower s_threshold s_min_len s_max_len rs.

Definition score_F (rs : rsF) (m : mwmap) (s : str) : option (category * float) :=
  score float PrimFloat.mul f0 f1 scorer_rebuild_check c_upper (parse_s m) rs s.

Definition cat_code (c : category) : nat := match c with CatE => 1 | CatW => 2 | CatOther => 0 end%nat.

(* one scored string: (string, None = raised | Some (category code, probability)) *)
Definition scored := (str * option (nat * float))%type.

Definition check_scored (rs : rsF) (m : mwmap) (x : scored) : bool :=
  match score_F rs m (fst x), snd x with
  | None, None => true
  | Some (c, p), Some (c', p') => Nat.eqb (cat_code c) c' && PrimFloat.eqb p p'
  | _, _ => false
  end.

(* ---- the guesser's language from the same tables: every guess of every
   pre-terminal without a Markov variable, with the left-to-right product
   base * t1 * t2 ... *)

Definition chLc : N := 76%N.
Fixpoint apply_mask_c (mask word : str) : str :=
  match mask, word with
  | m :: mr, c :: wr => (if N.eqb m chLc then [c] else c_upper c) ++ apply_mask_c mr wr
  | _, _ => []
  end.

Definition table_of (rs : rsF) (t : list (Z * entries float)) (n : Z) : entries float :=
  match by_len float t n with Some e => e | None => [] end.

Definition g_step (rs : rsF) (l : label) (acc : list (str * float)) : list (str * float) :=
  let plain (e : entries float) :=
    flat_map (fun sp => map (fun vq => (fst sp ++ fst vq, PrimFloat.mul (snd sp) (snd vq))) e) acc in
  match l with
  | LK n => plain (table_of rs (r_keyboard float rs) n)
  | LY => plain (r_years float rs)
  | LX => plain (r_context float rs)
  | LD n => plain (table_of rs (r_digits float rs) n)
  | LO n => plain (table_of rs (r_other float rs) n)
  | LA n =>
      let words := plain (table_of rs (r_alpha float rs) n) in
      flat_map (fun sp => map (fun mq =>
                  let s := fst sp in
                  let k := len s - len (fst mq) in
                  (slice s 0 k ++ apply_mask_c (fst mq) (sfrom s k), PrimFloat.mul (snd sp) (snd mq)))
                  (table_of rs (r_masks float rs) n)) words
  | LE | LW => []
  end.

Definition g_language (rs : rsF) : list (str * float) :=
  flat_map (fun b => fold_left (fun acc l => g_step rs l acc) (fst b) [([], snd b)]) (r_bases float rs).

Definition sf_leb (a b : str * float) : bool :=
  if str_ltb (fst a) (fst b) then true else if str_ltb (fst b) (fst a) then false else PrimFloat.leb (snd a) (snd b).
Fixpoint sf_insert (x : str * float) (l : list (str * float)) : list (str * float) :=
  match l with [] => [x] | y :: r => if sf_leb x y then x :: l else y :: sf_insert x r end.
Definition sf_sort (l : list (str * float)) : list (str * float) := fold_right sf_insert [] l.
Definition sf_eqb (a b : str * float) : bool := str_eqb (fst a) (fst b) && PrimFloat.eqb (snd a) (snd b).

Definition check_language (rs : rsF) (impl_sorted : list (str * float)) : bool :=
  leqb sf_eqb (sf_sort (g_language rs)) impl_sorted.

(* a case: the loaded tables, what the real scorer returned, direct queries of
   its multi-word detector, and (small rulesets) the real guesser's language *)
Record c13case := {
  cc_rs : rsF;
  cc_scored : list scored;
  cc_mwq : list (str * (Z * (bool * list str)));
  cc_language : option (list (str * float))
}.

Definition check_c13 (c : c13case) : list nat :=
  let rs := cc_rs c in
  let m := scorer_mw_F rs in
  map fst (filter (fun kx => negb (check_scored rs m (snd kx))) (combine (seq 0 (length (cc_scored c))) (cc_scored c))) ++
  (if forallb (fun q => let '(w, (cnt, (b, ws))) := q in
                 (mwcount_c m w =? cnt) &&
                 match mwparse_s m w with Some (b', ws') => Bool.eqb b b' && leqb str_eqb ws ws' | None => false end)
              (cc_mwq c) then [] else [1000%nat]) ++
  (match cc_language c with None => [] | Some l => if check_language rs l then [] else [2000%nat] end).
