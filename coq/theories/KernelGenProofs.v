(* The generated kernel (gen/Kernel_gen.v: the translation of the Python text of
   _find_prob, _are_you_my_child, find_children, is_parent_around,
   _recursive_restore_prob_order and initalize_base_structures, redone on every run) equals the hand-written
   model of Next.v that the theorems of C02 / C08 are about.

   The equalities hold for every choice of the "undefined" values the generated
   section is parameterised by (the value of a subscript that raises in Python),
   under the hypothesis that the indices of the parse tree are in range
   ([inrange]: the only place where Python raises and the model uses a default),
   and for the restore walk that no probability met is below min_prob (the model
   has no min_prob: PcfgQueue passes 0.0).

   These proofs are meant to break when one of the Python functions changes its
   meaning: the body lemmas compare the translated loop bodies with the bodies
   of the model, comparison by comparison. *)
From Coq Require Import List Arith Bool Lia.
From Pcfg Require Import ProbAlg Next KernelRt.
From PcfgGen Require Import Kernel_gen.
Import ListNotations.

(* ------------------------------------------------------------------ *)
(* the runtime: what the loop forms compute                            *)
(* ------------------------------------------------------------------ *)
Section Runtime.
Context {X R St : Type}.

(* a loop without early return whose body is a step function: a fold *)
Lemma for_from_fold (l : list X) : forall i (body : X -> St -> ctl R St) (f : St -> X -> St) s k,
  (forall x s, In x l -> body x s = Continue (f s x)) ->
  for_from i l (fun _ => body) s k = k (fold_left f l s).
Proof.
  induction l as [|a r IH]; intros i body f s k H; simpl.
  - reflexivity.
  - rewrite (H a s (or_introl eq_refl)). apply IH. intros x s' Hx. apply H. now right.
Qed.

(* a loop without early return whose body extends a record: a flat_map *)
Lemma for_from_acc_each {Y : Type} (l : list X) :
  forall i (body : X -> list Y -> ctl R (list Y)) (h : X -> list Y) s k,
  (forall x s, In x l -> body x s = Continue (s ++ h x)) ->
  for_from i l (fun _ => body) s k = k (s ++ flat_map h l).
Proof.
  induction l as [|a r IH]; intros i body h s k H; simpl.
  - now rewrite app_nil_r.
  - rewrite (H a s (or_introl eq_refl)). rewrite (IH (S i) body h).
    + now rewrite <- app_assoc.
    + intros x s' Hx. apply H. now right.
Qed.

Lemma for_from_acc {Y : Type} (l : list X) :
  forall i (body : nat -> X -> list Y -> ctl R (list Y)) (h : nat -> list Y) s k,
  (forall j x s, nth_error l j = Some x -> body (i + j) x s = Continue (s ++ h (i + j))) ->
  for_from i l body s k = k (s ++ flat_map h (seq i (length l))).
Proof.
  induction l as [|a r IH]; intros i body h s k H; simpl.
  - now rewrite app_nil_r.
  - generalize (H 0 a s eq_refl). rewrite Nat.add_0_r. intros ->.
    rewrite (IH (S i) body h).
    + now rewrite <- app_assoc.
    + intros j x s' Hx. rewrite Nat.add_succ_comm. now apply H.
Qed.

(* a loop without early return that appends one value per element: a map over
   the enumerated list *)
Lemma for_from_map {Y : Type} (l : list X) :
  forall i (body : nat -> X -> list Y -> ctl R (list Y)) (g : nat * X -> Y) s k,
  (forall j x s, nth_error l j = Some x -> body (i + j) x s = Continue (s ++ [g (i + j, x)])) ->
  for_from i l body s k = k (s ++ map g (combine (seq i (length l)) l)).
Proof.
  induction l as [|a r IH]; intros i body g s k H; simpl.
  - now rewrite app_nil_r.
  - generalize (H 0 a s eq_refl). rewrite Nat.add_0_r. intros ->.
    rewrite (IH (S i) body g).
    + now rewrite <- app_assoc.
    + intros j x s' Hx. rewrite Nat.add_succ_comm. now apply H.
Qed.

End Runtime.

Lemma fold_append_map {X Y : Type} (f : X -> Y) (l : list X) : forall acc,
  fold_left (fun s x => append s (f x)) l acc = acc ++ map f l.
Proof.
  induction l as [|a r IH]; intros acc; simpl.
  - now rewrite app_nil_r.
  - rewrite IH. unfold append. now rewrite <- app_assoc.
Qed.

Section RuntimeBool.
Context {X : Type}.

(* a loop that returns False early and True at the end: forallb *)
Lemma for_from_forall (l : list X) : forall i (body : nat -> X -> unit -> ctl bool unit) (h : nat -> bool),
  (forall j x, nth_error l j = Some x ->
     body (i + j) x tt = if h (i + j) then Continue tt else Return false) ->
  for_from i l body tt (fun _ => true) = forallb h (seq i (length l)).
Proof.
  induction l as [|a r IH]; intros i body h H; simpl.
  - reflexivity.
  - generalize (H 0 a eq_refl). rewrite Nat.add_0_r. intros ->.
    destruct (h i) eqn:E; simpl; [|reflexivity].
    apply IH. intros j x Hx. rewrite Nat.add_succ_comm. now apply H.
Qed.

(* a loop that returns True early and False at the end: existsb *)
Lemma for_from_exists (l : list X) : forall i (body : nat -> X -> unit -> ctl bool unit) (h : nat -> bool),
  (forall j x, nth_error l j = Some x ->
     body (i + j) x tt = if h (i + j) then Return true else Continue tt) ->
  for_from i l body tt (fun _ => false) = existsb h (seq i (length l)).
Proof.
  induction l as [|a r IH]; intros i body h H; simpl.
  - reflexivity.
  - generalize (H 0 a eq_refl). rewrite Nat.add_0_r. intros ->.
    destruct (h i) eqn:E; simpl; [reflexivity|].
    apply IH. intros j x Hx. rewrite Nat.add_succ_comm. now apply H.
Qed.

End RuntimeBool.

(* for pos in range(len(l)) / range(0, len(l)): the loop over the positions of l *)
Lemma for_from_seq_enum {X R St : Type} (l : list X) : forall a i (body : nat -> St -> ctl R St) s (k : St -> R),
  for_from i (seq a (length l)) (fun _ => body) s k = for_from a l (fun pos _ => body pos) s k.
Proof.
  induction l as [|x r IH]; intros a i body s k; simpl; [reflexivity|].
  destruct (body a s); [apply IH|reflexivity].
Qed.

Lemma for_range_enum {X R St : Type} (l : list X) (body : nat -> St -> ctl R St) s (k : St -> R) :
  for_range 0 (length l) body s k = for_enum l (fun pos _ => body pos) s k.
Proof. unfold for_range, for_each, for_enum. rewrite Nat.sub_0_r. apply for_from_seq_enum. Qed.

Lemma sub_nth_error {X : Type} (d : X) (l : list X) (i : nat) (x : X) :
  nth_error l i = Some x -> sub d l i = x.
Proof. intros H. unfold sub. now apply nth_error_nth. Qed.

(* l = copy.copy(t); l[pos] = (l[pos][0], f(l[pos][1]))   is the model's [upd] *)
Lemma set_nth_upd (t : pt) : forall pos v i (f : nat -> nat),
  nth_error t pos = Some (v, i) -> set_nth t pos (v, f i) = upd t pos f.
Proof.
  induction t as [|[v0 i0] r IH]; intros pos v i f H.
  - destruct pos; discriminate.
  - destruct pos as [|p]; simpl in *.
    + now inversion H.
    + f_equal. now apply IH.
Qed.

(* the same, for whatever way the new index k is written (i + 1, 1 + i, S i, i - 1, pred i, ...) *)
Lemma set_nth_upd_gen (t : pt) pos v i k (f : nat -> nat) :
  nth_error t pos = Some (v, i) -> k = f i -> set_nth t pos (v, k) = upd t pos f.
Proof. intros H ->. now apply set_nth_upd. Qed.

(* a loop that appends one value per element to a list: a map *)
Lemma for_from_append_map {X Y R : Type} (g : X -> Y) (l : list X) : forall i (s : list Y) (k : list Y -> R),
  for_from i l (fun _ x s => Continue (append s (g x))) s k = k (s ++ map g l).
Proof.
  induction l as [|a r IH]; intros i s k; simpl.
  - now rewrite app_nil_r.
  - rewrite IH. unfold append. now rewrite <- app_assoc.
Qed.

(* ------------------------------------------------------------------ *)
(* tactics: the equalities are proved by normalising the translated    *)
(* loop body (the lets are unfolded, a subscript at the loop position   *)
(* becomes the element, `l[pos] = (v, k)` becomes the model's [upd],    *)
(* calls of translated functions become the model's functions) and by   *)
(* a case analysis on every comparison that occurs on either side.      *)
(* They do not depend on the order of the lets, on how a condition is   *)
(* split over nested ifs / `and` / `or` / `not`, on the orientation of   *)
(* a comparison or on helpers having been inlined; they fail when the   *)
(* two sides differ as functions of the comparisons.                    *)
(* ------------------------------------------------------------------ *)

(* one comparison of the condition c: case analysis (with the arithmetic fact for ints) *)
Ltac katom c :=
  lazymatch c with
  | negb ?a => katom a
  | andb ?a _ => katom a
  | orb ?a _ => katom a
  | (if ?a then _ else _) => katom a
  | Nat.eqb ?a ?b => destruct (Nat.eqb_spec a b)
  | Nat.ltb ?a ?b => destruct (Nat.ltb_spec a b)
  | Nat.leb ?a ?b => destruct (Nat.leb_spec a b)
  | _ => destruct c eqn:?
  end.

Ltac kdone :=
  unfold append, extend; rewrite ?app_nil_r; reflexivity.

Ltac kcases :=
  cbn [negb andb orb];
  try (exfalso; lia);
  first [ kdone
        | match goal with |- context [if ?c then _ else _] => katom c end; kcases ].

(* ------------------------------------------------------------------ *)
(* generated = model                                                   *)
(* ------------------------------------------------------------------ *)
Section Eq.
Context {A : palg}.
Notation P := (P A).
Notation ruleset := (ruleset A).
Notation item := (item A).
(* the undefined values: arbitrary *)
Context (up : P) (un : var * nat).

(* every (variable, index) of the parse tree names an existing group: exactly
   the condition under which self.grammar[v][i] does not raise *)
Definition inrange (rs : ruleset) (t : pt) : Prop :=
  Forall (fun vi => snd vi < length (groups rs (fst vi))) t.

Lemma inrange_upd (rs : ruleset) (f : nat -> nat) (t : pt) : forall pos,
  inrange rs t ->
  (forall v i, nth_error t pos = Some (v, i) -> f i < length (groups rs v)) ->
  inrange rs (upd t pos f).
Proof.
  induction t as [|[v0 i0] r IH]; intros pos Ht Hf; simpl.
  - destruct pos; constructor.
  - inversion Ht as [|x l H1 H2]; subst. destruct pos as [|p].
    + constructor; [|assumption]. simpl. now apply Hf.
    + constructor; [assumption|]. apply IH; [assumption|]. intros v i Hn. now apply Hf.
Qed.

Lemma inrange_nth (rs : ruleset) (t : pt) pos v i :
  inrange rs t -> nth_error t pos = Some (v, i) -> i < length (groups rs v).
Proof.
  intros Ht Hn. unfold inrange in Ht. rewrite Forall_forall in Ht.
  apply (Ht (v, i)). eapply nth_error_In; eassumption.
Qed.

Lemma inrange_pred (rs : ruleset) (t : pt) pos : inrange rs t -> inrange rs (upd t pos pred).
Proof.
  intros Ht. apply inrange_upd; [assumption|]. intros v i Hn.
  pose proof (inrange_nth rs t pos v i Ht Hn). lia.
Qed.

Lemma inrange_succ (rs : ruleset) (t : pt) pos v i :
  inrange rs t -> nth_error t pos = Some (v, i) ->
  Nat.eqb (length (groups rs v)) (i + 1) = false -> inrange rs (upd t pos S).
Proof.
  intros Ht Hn He. apply inrange_upd; [assumption|]. intros v' i' Hn'.
  rewrite Hn in Hn'. inversion Hn'; subst.
  pose proof (inrange_nth rs t pos v' i' Ht Hn). apply Nat.eqb_neq in He. lia.
Qed.

Lemma inrange_succ' (rs : ruleset) (t : pt) pos v i :
  inrange rs t -> nth_error t pos = Some (v, i) ->
  length (groups rs v) <> i + 1 -> inrange rs (upd t pos S).
Proof. intros Ht Hn He. eapply inrange_succ; [exact Ht|exact Hn|]. now apply Nat.eqb_neq. Qed.

(* the element at the loop position: t[j] is (v, i); t2 = copy.copy(t); t2[j] = (v, i -/+ 1) is upd *)
Ltac knorm t j v i Hn :=
  cbv beta zeta;
  rewrite ?(sub_nth_error un t j (v, i) Hn);
  cbn [fst snd];
  rewrite ?(set_nth_upd_gen t j v i (i - 1) pred Hn (Nat.sub_1_r i)),
          ?(set_nth_upd_gen t j v i (pred i) pred Hn eq_refl),
          ?(set_nth_upd_gen t j v i (i + 1) S Hn (Nat.add_1_r i)),
          ?(set_nth_upd_gen t j v i (1 + i) S Hn eq_refl).

(* ---- _find_prob ---- *)
Theorem kernel_find_prob_eq (rs : ruleset) (t : pt) (b : P) :
  inrange rs t -> py_find_prob up rs t b = find_prob rs t b.
Proof.
  intros Ht. unfold py_find_prob, find_prob, for_each. cbv zeta.
  rewrite (for_from_fold t 0 _ (fun a vi => pmul a (gp rs b vi))); [reflexivity|].
  intros x s Hx. f_equal. f_equal. unfold sub, gp. apply nth_indep.
  unfold inrange in Ht. rewrite Forall_forall in Ht. now apply Ht.
Qed.

(* ---- _are_you_my_child ---- *)
Theorem kernel_my_child_eq (rs : ruleset) (child : pt) (base : P) (ppos : nat) (pprob : P) :
  inrange rs child ->
  py_are_you_my_child up un rs child base ppos pprob = my_child rs child base ppos pprob.
Proof.
  intros Ht. unfold py_are_you_my_child, my_child, my_child_gen. cbv zeta.
  rewrite ?for_range_enum. unfold for_enum.
  apply for_from_forall. intros j [v i] Hn. change (0 + j) with j.
  knorm child j v i Hn. rewrite Hn.
  pose proof (inrange_nth rs _ j v i Ht Hn) as Hi.
  rewrite ?(kernel_find_prob_eq rs _ base (inrange_pred rs child j Ht)).
  unfold plt, peq. destruct i as [|i]; kcases.
Qed.

(* ---- find_children ---- *)
Theorem kernel_find_children_eq (rs : ruleset) (it : item) :
  inrange rs (ipt it) -> py_find_children up un rs it = find_children rs it.
Proof.
  intros Ht. unfold py_find_children, find_children, find_children_gen. cbv zeta.
  rewrite ?for_range_enum. unfold for_enum.
  rewrite for_from_acc with (h := fun pos =>
    match nth_error (ipt it) pos with
    | Some (v, i) =>
        if Nat.eqb (length (groups rs v)) (i + 1) then [] else
        let c := upd (ipt it) pos S in
        if my_child_gen true rs c (ibase it) pos (iprob it)
        then [mk rs (itag it) c (ibase it)] else []
    | None => []
    end); [reflexivity|].
  intros j [v i] s Hn. change (0 + j) with j.
  knorm (ipt it) j v i Hn. rewrite Hn.
  pose proof (inrange_nth rs _ j v i Ht Hn) as Hi.       (* the index is in range: i + 1 <= number of groups *)
  destruct (Nat.eqb_spec (length (groups rs v)) (i + 1)) as [El|El]; [kcases|].
  assert (Hc : inrange rs (upd (ipt it) j S)) by (eapply inrange_succ'; eassumption).
  rewrite ?(kernel_my_child_eq rs _ (ibase it) j (iprob it) Hc).
  rewrite ?(kernel_find_prob_eq rs _ (ibase it) Hc).
  unfold my_child. kcases.
Qed.

(* ---- is_parent_around: the source compares with <= (strict = false) ---- *)
Theorem kernel_parent_around_eq (rs : ruleset) (it : item) (m : P) :
  inrange rs (ipt it) -> py_is_parent_around up un rs it m = parent_around_gen false rs it m.
Proof.
  intros Ht. unfold py_is_parent_around, parent_around_gen. cbv zeta.
  rewrite ?for_range_enum. unfold for_enum.
  apply for_from_exists. intros j [v i] Hn. change (0 + j) with j.
  knorm (ipt it) j v i Hn. rewrite Hn.
  pose proof (inrange_nth rs _ j v i Ht Hn) as Hi.
  rewrite ?(kernel_find_prob_eq rs _ (ibase it) (inrange_pred rs (ipt it) j Ht)).
  unfold plt, peq. destruct i as [|i]; kcases.
Qed.

(* ---- initalize_base_structures: every variable a base structure names has a group ---- *)
Theorem kernel_init_eq (rs : ruleset) :
  (forall b, In b (bases rs) -> Forall (fun v => 0 < length (groups rs v)) (brepl b)) ->
  py_initalize_base_structures up rs = init_items rs.
Proof.
  intros Hb. unfold py_initalize_base_structures, init_items, for_enum. cbv zeta.
  rewrite for_from_map with (g := fun kb =>
    mk rs (fst kb) (map (fun v => (v, 0)) (brepl (snd kb))) (bprob (snd kb))); [reflexivity|].
  intros j b s Hn. change (0 + j) with j. cbv beta zeta. unfold for_each.
  (* the parse tree is built by a loop of appends or by a comprehension: a map either way *)
  rewrite ?for_from_append_map. cbn [app]. cbv beta.
  rewrite kernel_find_prob_eq; [reflexivity|].
  unfold inrange. apply Forall_map. simpl.
  apply (Hb b). eapply nth_error_In; eassumption.
Qed.

(* ---- _recursive_restore_prob_order ----
   mn is min_prob: the model has none; the walk agrees with the model as long as
   no probability it meets is below mn (PcfgQueue passes 0.0).  General form:
   Q is any set of parse trees closed under the walk's step on which indices are
   in range and probabilities are not below mn. *)
Lemma kernel_restore_eq_inv (rs : ruleset) (m mn b : P) (Q : pt -> Prop) :
  (forall t, Q t -> inrange rs t) ->
  (forall t, Q t -> plt (find_prob rs t b) mn = false) ->
  (forall t pos v i, Q t -> nth_error t pos = Some (v, i) ->
     Nat.eqb (length (groups rs v)) (i + 1) = false -> Q (upd t pos S)) ->
  forall (fuel : nat) (it : item) (left : nat),
  ibase it = b -> Q (ipt it) -> plt (iprob it) mn = false ->
  py_restore up un fuel rs it m mn left = restore_gen false fuel rs it m left.
Proof.
  intros Qr Qp Qs.
  induction fuel as [|f IH]; intros it left Hb Hq Hp; [reflexivity|].
  pose proof (Qr _ Hq) as Ht.
  cbn [py_restore restore_gen]. cbv zeta.
  pose proof Hp as Hp'. unfold plt in Hp'. apply negb_false_iff in Hp'.
  unfold plt, peq. rewrite ?Hp'.
  destruct (ple (iprob it) m) eqn:Ele; cbn [negb andb orb].
  - rewrite ?(kernel_parent_around_eq rs it m Ht). kcases.
  - unfold for_range, for_each.
    rewrite for_from_acc_each with (h := fun pos =>
      match nth_error (ipt it) pos with
      | Some (v, i) =>
          if Nat.eqb (length (groups rs v)) (i + 1) then [] else
          restore_gen false f rs (mk rs (itag it) (upd (ipt it) pos S) (ibase it)) m pos
      | None => []
      end); [reflexivity|].
    intros j s Hj. apply in_seq in Hj.
    destruct (nth_error (ipt it) j) as [[v i]|] eqn:Hn;
      [|apply nth_error_None in Hn; lia].
    knorm (ipt it) j v i Hn.
    pose proof (inrange_nth rs _ j v i Ht Hn) as Hi.
    destruct (Nat.eqb_spec (length (groups rs v)) (i + 1)) as [El|El]; [kcases|].
    pose proof (Qs _ _ _ _ Hq Hn (proj2 (Nat.eqb_neq _ _) El)) as Hqc.
    rewrite ?(kernel_find_prob_eq rs _ (ibase it) (Qr _ Hqc)).
    rewrite IH; [unfold mk; kcases|exact Hb|exact Hqc|].
    cbn [iprob]. rewrite Hb. now apply Qp.
Qed.

Theorem kernel_restore_eq (rs : ruleset) (m mn : P) (fuel : nat) (it : item) (left : nat) :
  inrange rs (ipt it) ->
  plt (iprob it) mn = false ->
  (forall t, inrange rs t -> plt (find_prob rs t (ibase it)) mn = false) ->
  py_restore up un fuel rs it m mn left = restore_gen false fuel rs it m left.
Proof.
  intros Ht Hp Hmn.
  apply (kernel_restore_eq_inv rs m mn (ibase it) (inrange rs)); auto.
  intros t pos v i H1 H2 H3. eapply inrange_succ; eassumption.
Qed.

End Eq.

(* ------------------------------------------------------------------ *)
(* whole runs: the queue loop and the restore of a session, with the   *)
(* generated functions in place of the model's                         *)
(* ------------------------------------------------------------------ *)
From Coq Require Import Sorting.Permutation Floats.
From Pcfg Require Import NextSpec NextProofs RestoreProofs F64 NextFacts.

Section Runs.
Context {A : palg}.
Notation P := (P A).
Notation ruleset := (ruleset A).
Notation item := (item A).
Notation state := (state A).
Notation queue := (queue A).
Context (up : P) (un : var * nat).

(* in-range indices are part of what NextProofs calls a good item / an ok tree *)
Lemma good_inrange (rs : ruleset) (it : item) : good rs it -> inrange rs (ipt it).
Proof. intros [b [_ [_ [_ [Hbd _]]]]]. exact Hbd. Qed.

Lemma okpt_inrange (rs : ruleset) (t : pt) : okpt rs t -> inrange rs t.
Proof. apply Forall_impl. intros vi [_ H]. exact H. Qed.

(* the restore walk from an ok tree, min_prob a lower bound of the ok values *)
Theorem kernel_restore_eq_ok (rs : ruleset) (m mn : P) (fuel : nat) (it : item) (left : nat) :
  (forall p, okb p = true -> ple mn p = true) ->
  okpt rs (ipt it) -> okb (ibase it) = true -> okb (iprob it) = true ->
  py_restore up un fuel rs it m mn left = restore_gen false fuel rs it m left.
Proof.
  intros Hmn Ht Hb Hp.
  apply (kernel_restore_eq_inv up un rs m mn (ibase it) (okpt rs)); auto.
  - apply okpt_inrange.
  - intros t Hq. unfold plt. rewrite Hmn; [reflexivity|]. now apply find_prob_ok.
  - intros t pos v i Hq Hn He. eapply okpt_upd; [exact Hq|exact Hn|].
    pose proof (inrange_nth rs t pos v i (okpt_inrange rs t Hq) Hn).
    apply Nat.eqb_neq in He. lia.
  - unfold plt. now rewrite Hmn.
Qed.

(* PcfgQueue.next with the generated find_children *)
Definition kernel_step (pop : queue -> option (item * queue)) (rs : ruleset) (s : state) : state :=
  match pop (pending s) with
  | None => s
  | Some (x, r) => {| emitted := x :: emitted s; pending := py_find_children up un rs x ++ r |}
  end.

Fixpoint kernel_run (pop : queue -> option (item * queue)) (rs : ruleset) (n : nat) (s : state) : state :=
  match n with
  | O => s
  | S k => kernel_run pop rs k (kernel_step pop rs s)
  end.

(* PcfgQueue.__init__ with the generated functions: new session / restored session *)
Definition kernel_start (rs : ruleset) : state :=
  {| emitted := []; pending := py_initalize_base_structures up rs |}.

Definition kernel_restored (rs : ruleset) (m mn : P) : queue :=
  flat_map (fun it => py_restore up un (restore_fuel rs it) rs it m mn 0)
           (py_initalize_base_structures up rs).

Lemma flat_map_ext_In {X Y : Type} (f g : X -> list Y) (l : list X) :
  (forall x, In x l -> f x = g x) -> flat_map f l = flat_map g l.
Proof.
  induction l as [|a r IH]; intros H; simpl; [reflexivity|].
  rewrite (H a (or_introl eq_refl)), IH; [reflexivity|]. intros x Hx. apply H. now right.
Qed.

Section WithWf.
Context (rs : ruleset) (Hwf : wf rs).

Theorem kernel_init_eq_wf : py_initalize_base_structures up rs = init_items rs.
Proof.
  apply kernel_init_eq. intros b Hb. unfold wf in Hwf. rewrite Forall_forall in Hwf.
  destruct (Hwf b Hb) as [_ Hg]. eapply Forall_impl; [|exact Hg].
  intros v [Hne _]. destruct (groups rs v); [congruence|simpl; lia].
Qed.

Lemma kernel_start_eq : kernel_start rs = start rs.
Proof. unfold kernel_start, start. now rewrite kernel_init_eq_wf. Qed.

Lemma kernel_step_eq pop (s : state) : pop_ok_okb pop ->
  (forall x, In x (pending s) -> good rs x) -> kernel_step pop rs s = step pop rs s.
Proof.
  intros [_ Hpop] Hg. unfold kernel_step, step, step_gen.
  destruct (pop (pending s)) as [[x r]|] eqn:E; [|reflexivity].
  assert (Hok : Forall (fun y => okb (iprob y) = true) (pending s)).
  { apply Forall_forall. intros y Hy. apply (good_iprob_ok rs Hwf). now apply Hg. }
  destruct (Hpop _ _ _ Hok E) as [Hperm _].
  assert (Hx : In x (pending s)).
  { eapply Permutation_in; [apply Permutation_sym; exact Hperm|now left]. }
  rewrite (kernel_find_children_eq up un rs x (good_inrange rs x (Hg x Hx))). reflexivity.
Qed.

Lemma kernel_run_eq_from pop : pop_ok_okb pop -> forall n k,
  kernel_run pop rs n (run pop rs k (start rs)) = run pop rs n (run pop rs k (start rs)).
Proof.
  intros Hpop. induction n as [|n IH]; intros k; [reflexivity|].
  simpl kernel_run. rewrite kernel_step_eq; [|exact Hpop|].
  - rewrite <- run_S_end. rewrite IH. rewrite run_S_end. reflexivity.
  - intros x Hx. apply In_all_preterminals.
    destruct (whole_run_okb rs Hwf pop Hpop) as (_ & _ & _ & Hin & _).
    apply (Hin k). apply in_or_app. now right.
Qed.

(* the queue loop calling the translated find_children goes through exactly
   the states of the model's run: C01 / C02 transfer verbatim *)
Theorem kernel_run_eq pop n : pop_ok_okb pop ->
  kernel_run pop rs n (kernel_start rs) = run pop rs n (start rs).
Proof. intros Hpop. rewrite kernel_start_eq. exact (kernel_run_eq_from pop Hpop n 0). Qed.

(* the translated restore walk rebuilds exactly the model's restored queue: C08
   transfers verbatim *)
Theorem kernel_restored_eq (m mn : P) :
  (forall p, okb p = true -> ple mn p = true) ->
  kernel_restored rs m mn = restored_gen false rs m.
Proof.
  intros Hmn. unfold kernel_restored, restored_gen. rewrite kernel_init_eq_wf. apply flat_map_ext_In.
  intros it Hit. apply (In_init_items rs Hwf) in Hit. destruct Hit as [Hit _].
  apply In_all_preterminals in Hit.
  destruct (good_ok rs Hwf it Hit) as [Hb Ht].
  apply kernel_restore_eq_ok; auto. now apply (good_iprob_ok rs Hwf).
Qed.

(* C01 (every prefix sorted, frontier below everything emitted; the reported probability is the
   left-to-right product), stated for the loop that calls the translated functions *)
Theorem kernel_sorted_every_prefix pop n : pop_ok_okb pop ->
  nonincreasing (rev (emitted (kernel_run pop rs n (kernel_start rs)))) /\
  (forall e q, In e (emitted (kernel_run pop rs n (kernel_start rs))) ->
               In q (pending (kernel_run pop rs n (kernel_start rs))) -> ple (iprob q) (iprob e) = true).
Proof. intros Hpop. rewrite (kernel_run_eq pop n Hpop). exact (C01_sorted_okb rs Hwf pop n Hpop). Qed.

Theorem kernel_prob_is_product pop n it : pop_ok_okb pop ->
  In it (emitted (kernel_run pop rs n (kernel_start rs)) ++ pending (kernel_run pop rs n (kernel_start rs))) ->
  iprob it = py_find_prob up rs (ipt it) (ibase it) /\ In it (all_preterminals rs).
Proof.
  intros Hpop. rewrite (kernel_run_eq pop n Hpop). intros Hin.
  destruct (C01_prob_is_product_okb rs Hwf pop n it Hpop Hin) as [Hp Ha]. split; [|exact Ha].
  rewrite kernel_find_prob_eq; [exact Hp|]. apply good_inrange. now apply In_all_preterminals.
Qed.

(* C02 and the frontier theorem of C08, stated for the loops that call the
   translated functions *)
Theorem kernel_exactly_once pop : pop_ok_okb pop ->
  Permutation (emitted (kernel_run pop rs (total rs) (kernel_start rs))) (all_preterminals rs) /\
  pending (kernel_run pop rs (total rs) (kernel_start rs)) = [].
Proof. intros Hpop. rewrite (kernel_run_eq pop (total rs) Hpop). exact (C02_exactly_once_okb rs Hwf pop Hpop). Qed.

Theorem kernel_restore_frontier (m mn : P) :
  okb m = true -> (forall p, okb p = true -> ple mn p = true) ->
  Permutation (kernel_restored rs m mn) (filter (frontierb rs m) (all_preterminals rs)).
Proof. intros Hm Hmn. rewrite (kernel_restored_eq m mn Hmn). exact (restore_frontier rs Hwf m Hm). Qed.

End WithWf.
End Runs.

(* binary64: 0.0 (the min_probability PcfgQueue starts with) is below every ok value *)
Lemma F64_zero_below_ok (p : ProbAlg.P F64) : okb p = true -> @ple F64 0%float p = true.
Proof. simpl. unfold okbF. intros H. apply andb_true_iff in H. exact (proj1 H). Qed.

Theorem kernel_restored_eq_F64 (up : ProbAlg.P F64) (un : var * nat) (rs : Next.ruleset F64) (m : ProbAlg.P F64) :
  wf rs -> kernel_restored up un rs m 0%float = restored_gen false rs m.
Proof. intros Hwf. apply kernel_restored_eq; [exact Hwf|exact F64_zero_below_ok]. Qed.

(* the hypotheses are satisfiable, and the generated code runs: the demo ruleset
   of NextFacts (two base structures, a duplicate line, ties, a zero), the whole
   run and a restore, with nan / (7, 7) as the undefined values *)
Example kernel_hypotheses_satisfiable :
  wf demo_rs /\ Forall (fun it => inrange demo_rs (ipt it)) (all_preterminals demo_rs) /\
  length (emitted (@kernel_run F64 nan (7, 7) pop_first_max demo_rs 44 (@kernel_start F64 nan demo_rs))) = 44 /\
  length (@kernel_restored F64 nan (7, 7) demo_rs 0x1p-5%float 0%float) = 5.
Proof.
  split; [exact demo_wf|]. split.
  - apply Forall_forall. intros it Hit. apply good_inrange. now apply In_all_preterminals.
  - split; vm_compute; reflexivity.
Qed.

(* ------------------------------------------------------------------ *)
(* For the coordinator: the blocks below are meant to be appended to
   Props/C02.v and Props/C08.v (this file does not own them).  Both need, after
   the existing imports,
     From Pcfg Require Import KernelRt KernelGenProofs.
     From PcfgGen Require Import Kernel_gen.
   They were compiled against the current Props files in a private copy.

   ===== Props/C02.v =====
(* ---- second tie to the source: gen/Kernel_gen.v is the translation of the Python
   text of _find_prob, _are_you_my_child, find_children and initalize_base_structures (harness/translate_kernel.py,
   redone on every run); it equals the model the theorems above are about, for every
   choice of the undefined values up / un and all parse trees with indices in range *)
Theorem C02_source_find_prob_is_model :
  forall (A : palg) (up : P A) (rs : ruleset A) (t : pt) (b : P A),
  inrange rs t -> py_find_prob up rs t b = find_prob rs t b.
Proof. exact (fun A up rs t b => kernel_find_prob_eq up rs t b). Qed.

Theorem C02_source_my_child_is_model :
  forall (A : palg) (up : P A) (un : var * nat) (rs : ruleset A) (child : pt) (base : P A) (ppos : nat) (pprob : P A),
  inrange rs child -> py_are_you_my_child up un rs child base ppos pprob = my_child rs child base ppos pprob.
Proof. exact (fun A up un rs child base ppos pprob => kernel_my_child_eq up un rs child base ppos pprob). Qed.

Theorem C02_source_find_children_is_model :
  forall (A : palg) (up : P A) (un : var * nat) (rs : ruleset A) (it : item A),
  inrange rs (ipt it) -> py_find_children up un rs it = find_children rs it.
Proof. exact (fun A up un rs it => kernel_find_children_eq up un rs it). Qed.

Theorem C02_source_init_is_model :
  forall (A : palg) (up : P A) (rs : ruleset A), wf rs ->
  py_initalize_base_structures up rs = init_items rs.
Proof. exact (fun A up rs H => kernel_init_eq_wf up rs H). Qed.

(* the queue loop over the translated initalize_base_structures / find_children goes
   through the model's states *)
Theorem C02_translated_run_is_model :
  forall (A : palg) (up : P A) (un : var * nat) (rs : ruleset A), wf rs -> forall pop n, pop_ok_okb pop ->
  kernel_run up un pop rs n (kernel_start up rs) = run pop rs n (start rs).
Proof. exact (fun A up un rs H pop n => kernel_run_eq up un rs H pop n). Qed.

Theorem C02_exactly_once_translated :
  forall (A : palg) (up : P A) (un : var * nat) (rs : ruleset A), wf rs -> forall pop, pop_ok_okb pop ->
  Permutation (emitted (kernel_run up un pop rs (total rs) (kernel_start up rs))) (all_preterminals rs) /\
  pending (kernel_run up un pop rs (total rs) (kernel_start up rs)) = nil.
Proof. exact (fun A up un rs H pop => kernel_exactly_once up un rs H pop). Qed.

Print Assumptions C02_exactly_once_translated.

   ===== Props/C08.v =====
(* ---- second tie to the source: gen/Kernel_gen.v is the translation of the Python
   text of is_parent_around and _recursive_restore_prob_order (harness/translate_kernel.py,
   redone on every run).  The first theorem no longer holds when the source compares
   with `<` again (it is stated for parent_around_gen false). *)
Theorem C08_source_parent_around_is_model :
  forall (A : palg) (up : P A) (un : var * nat) (rs : ruleset A) (it : item A) (m : P A),
  inrange rs (ipt it) -> py_is_parent_around up un rs it m = parent_around_gen false rs it m.
Proof. exact (fun A up un rs it m => kernel_parent_around_eq up un rs it m). Qed.

(* mn is min_prob, which the model does not have: PcfgQueue passes 0.0 *)
Theorem C08_source_restore_is_model :
  forall (A : palg) (up : P A) (un : var * nat) (rs : ruleset A) (m mn : P A) (fuel : nat) (it : item A) (left : nat),
  inrange rs (ipt it) -> plt (iprob it) mn = false ->
  (forall t, inrange rs t -> plt (find_prob rs t (ibase it)) mn = false) ->
  py_restore up un fuel rs it m mn left = restore_gen false fuel rs it m left.
Proof. exact (fun A up un rs m mn fuel it left => kernel_restore_eq up un rs m mn fuel it left). Qed.

Theorem C08_translated_restore_is_model :
  forall (A : palg) (up : P A) (un : var * nat) (rs : ruleset A), wf rs -> forall m mn : P A,
  (forall p, okb p = true -> ple mn p = true) ->
  kernel_restored up un rs m mn = restored_gen false rs m.
Proof. exact (fun A up un rs H m mn => kernel_restored_eq up un rs H m mn). Qed.

Theorem C08_restore_frontier_translated :
  forall (A : palg) (up : P A) (un : var * nat) (rs : ruleset A), wf rs -> forall m mn : P A,
  okb m = true -> (forall p, okb p = true -> ple mn p = true) ->
  Permutation (kernel_restored up un rs m mn) (filter (frontierb rs m) (all_preterminals rs)).
Proof. exact (fun A up un rs H m mn => kernel_restore_frontier up un rs H m mn). Qed.

Theorem C08_translated_restore_binary64 :
  forall (up : P F64) (un : var * nat) (rs : ruleset F64) (m : P F64), wf rs ->
  kernel_restored up un rs m 0%float = restored_gen false rs m.
Proof. exact kernel_restored_eq_F64. Qed.

Print Assumptions C08_restore_frontier_translated.
*)
