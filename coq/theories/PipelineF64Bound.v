(* PipelineF64Bound.v - the computable binary64 sanity check of C03_reproduced_F64
   (PipelineSpec.f64_arith_ok) HOLDS for every training run with coverage 1.0
   whose training list has fewer than 2^53 characters in total and at least one
   supported password: counts below 2^53 are exact in binary64, their sums are
   exact, every count is at most its total, division by 1.0 is exact.
   Corollary: C03_reproduced_F64 without the check. *)
From Coq Require Import String List NArith ZArith Bool Floats Uint63 Reals Lra Lia Sorting.Permutation Sorting.Sorted.
From Flocq Require Import Core IEEE754.BinarySingleNaN IEEE754.PrimFloat.
From Pcfg Require Import ProbAlg F64 IoFloatFacts Str Multiword Detect Segment TextFile TextFileProofs
     Counters CountersProofs LtallyProofs CountersF64 Reader Loader Next NextSpec NextProofs Expand
     DetectProofsDrive DetectProofsSeg DetectProofsPipe
     Pipeline PipelineStr PipelineTrain PipelineLoad PipelineProofs PipelineDisk PipelineF64.
Import ListNotations.

(* ------------------------------------------------------------------ *)
(* 1. integers below 2^53 are exact in binary64                        *)
(* ------------------------------------------------------------------ *)

Local Open Scope R_scope.

Lemma IZR_format (z : Z) : (Z.abs z < 2 ^ 53)%Z -> generic_format radix2 fexp (IZR z).
Proof.
  intros H. apply generic_format_FLT. apply (FLT_spec radix2 _ _ _ (Float radix2 z 0)).
  - unfold F2R. cbn [Fnum Fexp bpow]. ring.
  - exact H.
  - apply Z.leb_le. reflexivity.
Qed.

Lemma rnd_IZR (z : Z) : (Z.abs z < 2 ^ 53)%Z -> rnd (IZR z) = IZR z.
Proof. intros H. apply round_generic; [apply valid_rnd_round_mode|now apply IZR_format]. Qed.

Lemma IZR_lt_emax (z : Z) : (Z.abs z < 2 ^ 53)%Z -> Rabs (IZR z) < bpow radix2 FloatOps.emax.
Proof.
  intros H. rewrite <- abs_IZR. apply Rlt_le_trans with (IZR (2 ^ 53)); [now apply IZR_lt|].
  change (2 ^ 53)%Z with (Zpower radix2 53). rewrite (IZR_Zpower radix2 53) by lia. apply bpow_le. apply Z.leb_le. reflexivity.
Qed.

Lemma float_of_N_exact : forall n : N, (n < 2^53)%N ->
  okF (float_of_N n) /\ B2R (Prim2B (float_of_N n)) = IZR (Z.of_N n).
Proof.
  intros n Hn. unfold float_of_N, okF.
  assert (Hz : (0 <= Z.of_N n < 2 ^ 53)%Z).
  { split; [apply N2Z.is_nonneg|]. change (2 ^ 53)%Z with (Z.of_N (2 ^ 53)). now apply N2Z.inj_lt. }
  assert (Hto : Uint63.to_Z (Uint63.of_Z (Z.of_N n)) = Z.of_N n).
  { rewrite Uint63.of_Z_spec. apply Z.mod_small. split; [lia|].
    apply Z.lt_trans with (2 ^ 53)%Z; [lia|]. reflexivity. }
  rewrite of_int63_equiv, Hto.
  pose proof (binary_normalize_correct FloatOps.prec FloatOps.emax PrimFloat.Hprec PrimFloat.Hmax mode_NE (Z.of_N n) 0 false) as Hc.
  cbv zeta in Hc.
  assert (HF : F2R (Float radix2 (Z.of_N n) 0) = IZR (Z.of_N n)) by (unfold F2R; cbn [Fnum Fexp bpow]; ring).
  rewrite HF in Hc. rewrite rnd_IZR in Hc by (rewrite Z.abs_eq; lia).
  rewrite Rlt_bool_true in Hc by (apply IZR_lt_emax; rewrite Z.abs_eq; lia).
  destruct Hc as (Hr & Hf & _). split; [|exact Hr]. split; [exact Hf|]. rewrite Hr. apply IZR_le. lia.
Qed.

(* the sum of two exact counts is exact *)
Lemma add_R (x y : PrimFloat.float) (a b : N) : (a + b < 2^53)%N ->
  okF x -> B2R (Prim2B x) = IZR (Z.of_N a) -> okF y -> B2R (Prim2B y) = IZR (Z.of_N b) ->
  okF (x + y)%float /\ B2R (Prim2B (x + y)%float) = IZR (Z.of_N (a + b)).
Proof.
  intros Hn (Fx & _) Ex (Fy & _) Ey. unfold okF. rewrite add_equiv.
  assert (Hz : (0 <= Z.of_N (a + b) < 2 ^ 53)%Z).
  { split; [apply N2Z.is_nonneg|]. change (2 ^ 53)%Z with (Z.of_N (2 ^ 53)). now apply N2Z.inj_lt. }
  pose proof (Bplus_correct FloatOps.prec FloatOps.emax PrimFloat.Hprec PrimFloat.Hmax mode_NE (Prim2B x) (Prim2B y) Fx Fy) as Hc.
  rewrite Ex, Ey, <- plus_IZR, <- N2Z.inj_add in Hc.
  rewrite rnd_IZR in Hc by (rewrite Z.abs_eq; lia).
  rewrite Rlt_bool_true in Hc by (apply IZR_lt_emax; rewrite Z.abs_eq; lia).
  destruct Hc as (Hr & Hf & _). split; [|exact Hr]. split; [exact Hf|]. rewrite Hr. apply IZR_le. lia.
Qed.

Lemma Prim2B_inj (x y : PrimFloat.float) : Prim2B x = Prim2B y -> x = y.
Proof. intros H. rewrite <- (B2Prim_Prim2B x), <- (B2Prim_Prim2B y). now f_equal. Qed.

Lemma add_exact : forall a b : N, (a + b < 2^53)%N ->
  PrimFloat.add (float_of_N a) (float_of_N b) = float_of_N (a + b).
Proof.
  intros a b Hn.
  destruct (float_of_N_exact a ltac:(lia)) as (Oa & Ea). destruct (float_of_N_exact b ltac:(lia)) as (Ob & Eb).
  destruct (float_of_N_exact (a + b) Hn) as (Os & Es).
  destruct (add_R _ _ a b Hn Oa Ea Ob Eb) as (Op & Ep).
  destruct (N.eq_dec (a + b) 0) as [H0|H0].
  - assert (a = 0%N) by lia. assert (b = 0%N) by lia. subst. reflexivity.
  - apply Prim2B_inj. apply B2R_inj.
    + apply is_finite_strict_B2R. rewrite Ep. apply not_0_IZR. lia.
    + apply is_finite_strict_B2R. rewrite Es. apply not_0_IZR. lia.
    + now rewrite Ep, Es.
Qed.

(* ------------------------------------------------------------------ *)
(* 3. division by 1.0 is exact on finite floats                        *)
(* ------------------------------------------------------------------ *)

Lemma Prim2B_one : Prim2B 1%float = (Bone : B).
Proof. apply B2SF_inj. rewrite B2SF_Prim2B. reflexivity. Qed.

Lemma div_one_finite (p : PrimFloat.float) : is_finite (Prim2B p) = true -> PrimFloat.div p 1%float = p.
Proof.
  intros Hf. apply Prim2B_inj. rewrite div_equiv.
  pose proof (Bdiv_correct FloatOps.prec FloatOps.emax PrimFloat.Hprec PrimFloat.Hmax mode_NE (Prim2B p) (Prim2B 1%float)) as Hc.
  rewrite one_R in Hc. specialize (Hc ltac:(lra)).
  replace (B2R (Prim2B p) / 1) with (B2R (Prim2B p)) in Hc by lra.
  rewrite rnd_id in Hc. rewrite Rlt_bool_true in Hc by apply abs_B2R_lt_emax.
  destruct Hc as (Hr & Hfin & Hs). rewrite Hf in Hfin.
  apply B2R_Bsign_inj; [exact Hfin|exact Hf|exact Hr|].
  rewrite Hs.
  - rewrite Prim2B_one, (@Bsign_Bone FloatOps.prec FloatOps.emax Hprec Hmax). now destruct (Bsign (Prim2B p)).
  - destruct (Bdiv mode_NE (Prim2B p) (Prim2B 1%float)); try reflexivity; discriminate.
Qed.

Lemma div_one_exact : forall p, okbF p = true -> PrimFloat.div p 1%float = p.
Proof. intros p H. apply div_one_finite. now destruct (okbF_okF p H). Qed.

(* ------------------------------------------------------------------ *)
(* 2. a tally of fewer than 2^53 items meets the hypotheses of         *)
(*    calc_probs_F64_wf                                                *)
(* ------------------------------------------------------------------ *)

Lemma okF_zero : okF 0%float.
Proof. apply okbF_okF. reflexivity. Qed.

(* sum(counter.values()) of exact counts is exact *)
Lemma fold_add_exact : forall (cs : list (TextFile.str * N)) (acc : PrimFloat.float) (a : N),
  (a + nsum cs < 2^53)%N -> okF acc -> B2R (Prim2B acc) = IZR (Z.of_N a) ->
  let t := fold_left PrimFloat.add (map snd (@of_counts FNum cs)) acc in
  okF t /\ B2R (Prim2B t) = IZR (Z.of_N (a + nsum cs)).
Proof.
  induction cs as [|[k n] cs IH]; intros acc a Hb Ho Ea; cbn zeta.
  - cbn [of_counts map fold_left]. unfold nsum. cbn [map fold_right]. now rewrite N.add_0_r.
  - assert (Hn : nsum ((k, n) :: cs) = (n + nsum cs)%N) by reflexivity.
    rewrite Hn in *. cbn [of_counts map fold_left fst snd].
    destruct (float_of_N_exact n ltac:(lia)) as (On & En).
    destruct (add_R acc (float_of_N n) a n ltac:(lia) Ho Ea On En) as (O1 & E1).
    change (nofN FNum n) with (float_of_N n).
    pose proof (IH (acc + float_of_N n)%float (a + n)%N ltac:(lia) O1 E1) as IH'. cbn zeta in IH'.
    unfold of_counts in IH'. replace (a + (n + nsum cs))%N with (a + n + nsum cs)%N by lia. exact IH'.
Qed.

Lemma total_exact (cs : list (TextFile.str * N)) : (nsum cs < 2^53)%N ->
  okF (Counters.total (@of_counts FNum cs)) /\ B2R (Prim2B (Counters.total (@of_counts FNum cs))) = IZR (Z.of_N (nsum cs)).
Proof.
  intros H. unfold Counters.total.
  pose proof (fold_add_exact cs 0%float 0%N ltac:(lia) okF_zero zero_R) as G. cbn zeta in G.
  rewrite N.add_0_l in G. exact G.
Qed.

Lemma nsum_ge (cs : list (TextFile.str * N)) k n : In (k, n) cs -> (n <= nsum cs)%N.
Proof.
  induction cs as [|[k' n'] cs IH]; intros H; [contradiction|].
  assert (Hn : nsum ((k', n') :: cs) = (n' + nsum cs)%N) by reflexivity. rewrite Hn.
  destruct H as [H|H]; [injection H as -> ->; lia|]. specialize (IH H). lia.
Qed.

(* any counter of natural-number counts with a positive total below 2^53 *)
Theorem counts_f64_ok (cs : list (TextFile.str * N)) : (0 < nsum cs)%N -> (nsum cs < 2^53)%N ->
  f64_wf_hyps (@of_counts FNum cs) = true.
Proof.
  intros Hpos Hb. destruct (total_exact cs Hb) as (Ot & Et).
  unfold f64_wf_hyps. rewrite !andb_true_iff. split; [split|].
  - apply forallb_forall. intros [k p] Hin. unfold of_counts in Hin. apply in_map_iff in Hin.
    destruct Hin as ([k' n] & Heq & Hin). cbn [fst snd] in Heq. injection Heq as <- <-. cbn [snd].
    change (nofN FNum n) with (float_of_N n).
    pose proof (nsum_ge cs k' n Hin) as Hle.
    destruct (float_of_N_exact n ltac:(lia)) as (On & En).
    rewrite andb_true_iff. split; [now apply okF_okbF|].
    rewrite (leb_R _ _ On Ot), En, Et. apply Rle_bool_true. apply IZR_le. lia.
  - now apply okF_okbF.
  - rewrite (ltb_R _ _ okF_zero Ot), zero_R, Et. apply Rlt_bool_true. apply IZR_lt. lia.
Qed.

Theorem tally_f64_ok : forall items : list TextFile.str, items <> [] -> (N.of_nat (length items) < 2^53)%N ->
  f64_wf_hyps (@of_counts FNum (Counters.tally items)) = true.
Proof.
  intros items Hne Hb. apply counts_f64_ok; rewrite nsum_tally; [|exact Hb].
  destruct items; [congruence|]. cbn [length]. lia.
Qed.

(* ------------------------------------------------------------------ *)
(* 4. the check holds for coverage 1.0 under the size bound            *)
(* ------------------------------------------------------------------ *)

Local Open Scope nat_scope.

Definition chars_bound (raw : list Str.str) : Prop := (N.of_nat (length (concat raw)) < 2^53)%N.

(* ---- list lengths *)

Lemma filter_len_le {X} (f : X -> bool) (l : list X) : length (filter f l) <= length l.
Proof. induction l as [|a l IH]; [constructor|]. cbn [filter]. destruct (f a); cbn [length]; lia. Qed.

Lemma concat_filter_len_le {X} (f : list X -> bool) (l : list (list X)) :
  length (concat (filter f l)) <= length (concat l).
Proof.
  induction l as [|a l IH]; [constructor|]. simpl. destruct (f a); simpl; rewrite ?app_length; lia.
Qed.

(* total number of sections of the parsed passwords *)
Definition nsec (rs : list parsed) : nat := list_sum (map (fun r => length (p_sections r)) rs).

Lemma nsec_cons r rs : nsec (r :: rs) = length (p_sections r) + nsec rs.
Proof. reflexivity. Qed.

Lemma flat_map_len_le {X} (f : parsed -> list X) rs :
  (forall r, In r rs -> length (f r) <= length (p_sections r)) -> length (flat_map f rs) <= nsec rs.
Proof.
  induction rs as [|r rs IH]; intros H; [constructor|]. cbn [flat_map]. rewrite nsec_cons, app_length.
  pose proof (H r (or_introl eq_refl)). specialize (IH (fun r' Hr' => H r' (or_intror Hr'))). lia.
Qed.

Lemma texts_len_le k sl : length (texts k sl) <= length sl.
Proof. unfold texts. rewrite map_length. apply filter_len_le. Qed.

Lemma scan_M_none {T} : forall ls : list (TextFile.str * T), ~ In M_key (map fst ls) -> Loader.scan_M ls = None.
Proof.
  induction ls as [|[s p] r IH]; intros Hn; [reflexivity|]. cbn [Loader.scan_M].
  destruct (Loader.is_M s) eqn:Es.
  - apply is_M_iff in Es. exfalso. apply Hn. left. exact Es.
  - apply IH. intros H. apply Hn. now right.
Qed.

Section Cov1.
Variable E : env.
Hypothesis HE : env_ok E.
Notation e_pm := (pm (e_lower E)).
Notation e_sound := (sound (e_isalpha E) (e_isdigit E) (e_kbs E) (e_min_run E) (e_year_prefixes E) (e_context E)).

(* every found list of a parsed password is no longer than its section list *)
Lemma found_len_le r : parsed_ok E r ->
  length (p_walks r) <= length (p_sections r) /\ length (p_years r) <= length (p_sections r) /\
  length (p_context r) <= length (p_sections r) /\ length (p_alpha r) <= length (p_sections r) /\
  length (p_masks r) <= length (p_sections r) /\ length (p_digits r) <= length (p_sections r) /\
  length (p_other r) <= length (p_sections r).
Proof.
  intros (_ & _ & Hc). destruct Hc as (C0 & _ & _ & C3 & C4 & _ & _ & C6 & C7 & _ & _ & _ & _ & _ & _ & C5 & C5m).
  rewrite (Permutation_length C0), (Permutation_length C3), (Permutation_length C4), (Permutation_length C6),
          (Permutation_length C7), C5, C5m, !map_length.
  repeat split; apply texts_len_le.
Qed.

(* a tiling by non-empty sections has at most one section per character *)
Lemma tiles_sections_le pw sl : tiles e_pm pw sl -> Forall e_sound sl -> length sl <= length pw.
Proof.
  intros (pieces & <- & HF) Hs. induction HF as [|pc x ps xs Hpm _ IH]; [constructor|].
  inversion Hs as [|? ? (Hne & _) Hs']; subst. cbn [concat length]. rewrite app_length. specialize (IH Hs').
  destruct pc as [|c pc]; [|cbn [length]; lia].
  exfalso. apply Hne. unfold pm in Hpm. destruct (snd x) as [[]|]; cbn [map] in Hpm; now symmetry.
Qed.

(* train, keeping the correspondence between the accepted lines and their parses *)
Definition parsed_from (A : palg) (o : options A) (raw : list Str.str) (pw : Str.str) (r : parsed) : Prop :=
  parse_pw E (train_map E o raw) pw = POk r /\ pw <> [] /\ tiles e_pm pw (p_sections r) /\ parsed_ok E r.

Lemma train_tiled (A : palg) (o : options A) raw tr : train E o raw = Some tr ->
  exists rs, tr = trained_of E o raw rs /\
    Forall2 (fun pw r => parse_pw E (train_map E o raw) pw = POk r) (train_pws E raw) rs /\
    Forall2 (parsed_from A o raw) (train_pws E raw) rs.
Proof.
  intros H. destruct (train_inv E o raw tr H) as (rs & HF & _ & ->). exists rs. split; [reflexivity|]. split; [exact HF|].
  assert (Hall : Forall (fun pw => pw <> []) (train_pws E raw)).
  { apply Forall_forall. intros pw Hpw. apply filter_In in Hpw. destruct Hpw as (_ & Hacc).
    exact (accepted_nonempty E pw (ok_rej_empty E HE) Hacc). }
  clear H. induction HF as [|pw r pws rs Hpr _ IH]; [constructor|]. inversion Hall as [|? ? Hne Hall']; subst.
  constructor; [|now apply IH].
  destruct (parse_pw_facts E HE (train_map E o raw) pw Hne) as (r' & Er' & Ht & Hok).
  assert (r' = r) by congruence. subst r'. unfold parsed_from. auto.
Qed.

Lemma parsed_from_ok (A : palg) (o : options A) raw pws rs : Forall2 (parsed_from A o raw) pws rs -> Forall (parsed_ok E) rs.
Proof. induction 1 as [|pw r pws rs (_ & _ & _ & Hok) _ IH]; constructor; assumption. Qed.

Lemma parsed_from_len (A : palg) (o : options A) raw pws rs : Forall2 (parsed_from A o raw) pws rs ->
  nsec rs <= length (concat pws) /\ length rs <= length (concat pws).
Proof.
  induction 1 as [|pw r pws rs (_ & Hne & Ht & Hok) _ (IH1 & IH2)]; [split; constructor|].
  rewrite nsec_cons. cbn [concat length]. rewrite app_length.
  pose proof (tiles_sections_le pw (p_sections r) Ht (proj1 Hok)).
  destruct pw; [congruence|]. cbn [length] in *. lia.
Qed.

(* every terminal counter is the tally of at most [nsec rs] items *)
Lemma term_counter_tally rs name cnt : Forall (parsed_ok E) rs -> In (name, cnt) (term_counters (counters_of rs)) ->
  exists items, cnt = Counters.tally items /\ length items <= nsec rs.
Proof.
  intros Hrs Hin. rewrite Forall_forall in Hrs.
  assert (Hl : forall letter (f : parsed -> list Str.str),
            (forall r, In r rs -> length (f r) <= length (p_sections r)) ->
            In (name, cnt) (lnamed letter (ltally (flat_map f rs))) ->
            exists items, cnt = Counters.tally items /\ length items <= nsec rs).
  { intros letter f Hf H. unfold lnamed in H. apply in_map_iff in H. destruct H as ([n c] & Heq & Hnc). injection Heq as _ <-.
    destruct (ltally_entry _ n c Hnc) as (-> & _). eexists. split; [reflexivity|].
    eapply Nat.le_trans; [apply filter_len_le|]. now apply flat_map_len_le. }
  unfold term_counters, counters_of in Hin. cbn [pc_alpha pc_masks pc_digits pc_other pc_keyboard pc_years pc_context] in Hin.
  rewrite !in_app_iff in Hin. destruct Hin as [Hin|[Hin|[Hin|[Hin|[Hin|[Hin|Hin]]]]]].
  - apply (Hl _ _ (fun r Hr => proj1 (proj2 (proj2 (proj2 (found_len_le r (Hrs r Hr)))))) Hin).
  - apply (Hl _ _ (fun r Hr => proj1 (proj2 (proj2 (proj2 (proj2 (found_len_le r (Hrs r Hr))))))) Hin).
  - apply (Hl _ _ (fun r Hr => proj1 (proj2 (proj2 (proj2 (proj2 (proj2 (found_len_le r (Hrs r Hr)))))))) Hin).
  - apply (Hl _ _ (fun r Hr => proj2 (proj2 (proj2 (proj2 (proj2 (proj2 (found_len_le r (Hrs r Hr)))))))) Hin).
  - apply (Hl _ _ (fun r Hr => proj1 (found_len_le r (Hrs r Hr))) Hin).
  - destruct Hin as [Hin|[]]. injection Hin as _ <-. eexists. split; [reflexivity|].
    apply flat_map_len_le. intros r Hr. apply (found_len_le r (Hrs r Hr)).
  - destruct Hin as [Hin|[]]. injection Hin as _ <-. eexists. split; [reflexivity|].
    apply flat_map_len_le. intros r Hr. apply (found_len_le r (Hrs r Hr)).
Qed.

(* ---- the base-structure counter with coverage 1.0 *)

(* the supported structures, one per supported password *)
Definition sup_structs (rs : list parsed) : list TextFile.str :=
  map structure (filter supported (map (fun r => map label_str (p_base r)) rs)).

Lemma sup_structs_in rs r : In r rs -> r_supported r = true -> In (structure_of r) (sup_structs rs).
Proof.
  intros Hr Hs. unfold sup_structs, structure_of. apply in_map. apply filter_In. split.
  - apply in_map_iff. now exists r.
  - rewrite supported_labels. exact Hs.
Qed.

Lemma sup_structs_inv rs k : In k (sup_structs rs) -> exists r, In r rs /\ k = structure_of r.
Proof.
  unfold sup_structs. intros H. apply in_map_iff in H. destruct H as (ls & <- & Hls). apply filter_In in Hls.
  destruct Hls as (Hls & _). apply in_map_iff in Hls. destruct Hls as (r & <- & Hr). now exists r.
Qed.

Lemma sup_structs_len rs : length (sup_structs rs) <= length rs.
Proof. unfold sup_structs. rewrite map_length. eapply Nat.le_trans; [apply filter_len_le|]. now rewrite map_length. Qed.

(* a structure string is not the Markov structure (as PipelineQ.structure_not_M) *)
Lemma structure_not_M' r : parsed_ok E r -> structure_of r <> M_key.
Proof.
  intros Hok Heq. pose proof (toks_structure E HE r Hok) as H. rewrite Heq, (toks_M E HE) in H.
  pose proof (has_M_labels (p_base r)) as H2. rewrite <- H in H2. discriminate.
Qed.

Lemma base_counter_cov1 (o : options F64) raw rs : (o_cov o : PrimFloat.float) = 1%float ->
  base_counter RF (trained_of E o raw rs) = @of_counts FNum (Counters.tally (sup_structs rs)).
Proof.
  intros Hcov. unfold base_counter, with_markov. cbn [trained_of t_cov t_n t_counters counters_of pc_structs].
  cbn [neqb ops_of none RF a_eqb a_one]. rewrite Hcov.
  change (PrimFloat.eqb 1 1) with true. cbv iota.
  rewrite count_structs_base_is_tally. reflexivity.
Qed.

Lemma base_file_keys_cov1 (o : options F64) raw rs k : (o_cov o : PrimFloat.float) = 1%float ->
  In k (map fst (base_file RF (trained_of E o raw rs))) -> In k (sup_structs rs).
Proof.
  intros Hcov. unfold base_file. rewrite (calc_probs_keys_in (ops_of RF)), (base_counter_cov1 o raw rs Hcov).
  unfold of_counts. rewrite map_map. cbn [fst]. apply tally_keys_in.
Qed.

Lemma skip_total_cov1 (o : options F64) raw rs : (o_cov o : PrimFloat.float) = 1%float -> Forall (parsed_ok E) rs ->
  skip_total (1%float : P F64) PrimFloat.sub (base_file RF (trained_of E o raw rs)) = 1%float.
Proof.
  intros Hcov Hrs. unfold skip_total. rewrite scan_M_none; [reflexivity|].
  intros H. apply (base_file_keys_cov1 o raw rs _ Hcov) in H. destruct (sup_structs_inv rs _ H) as (r & Hr & Heq).
  rewrite Forall_forall in Hrs. apply (structure_not_M' r (Hrs r Hr)). now symmetry.
Qed.

Theorem f64_arith_ok_cov1 : forall (o : options F64) raw tr,
  train E o raw = Some tr -> (o_cov o : PrimFloat.float) = 1%float -> chars_bound raw ->
  (exists pw, In pw raw /\ accepted_pw E pw = true /\ supported_pw E o raw pw = true) ->
  f64_arith_ok E tr = true.
Proof.
  intros o raw tr Htr Hcov Hb (pw & Hin & Hacc & Hsup).
  destruct (train_tiled F64 o raw tr Htr) as (rs & -> & HF & HT).
  pose proof (parsed_from_ok F64 o raw _ _ HT) as Hrs.
  destruct (parsed_from_len F64 o raw _ _ HT) as (Hn1 & Hn2).
  assert (Hn3 : length (concat (train_pws E raw)) <= length (concat raw)) by apply concat_filter_len_le.
  unfold chars_bound in Hb.
  (* the supported password *)
  destruct (train_parsed E o raw rs pw HF Hin Hacc) as (r & Hr & Er).
  assert (Hrsup : r_supported r = true).
  { unfold supported_pw in Hsup. rewrite segments_eq, Er in Hsup. rewrite Forall_forall in Hrs.
    destruct (Hrs r Hr) as (_ & _ & Hc). destruct Hc as (_ & _ & _ & _ & _ & _ & _ & _ & _ & _ & _ & Hps & _).
    rewrite Hps in Hsup. exact Hsup. }
  (* the base-structure counter *)
  assert (Hbase : f64_wf_hyps (base_counter RF (trained_of E o raw rs)) = true).
  { rewrite (base_counter_cov1 o raw rs Hcov). apply tally_f64_ok.
    - intros Hnil. pose proof (sup_structs_in rs r Hr Hrsup) as Hi. rewrite Hnil in Hi. exact Hi.
    - pose proof (sup_structs_len rs). lia. }
  pose proof (skip_total_cov1 o raw rs Hcov Hrs) as Hskip.
  unfold f64_arith_ok. rewrite !andb_true_iff. repeat split.
  - cbn [trained_of t_cov]. rewrite Hcov. reflexivity.
  - apply forallb_forall. intros [name cnt] Hnc. cbn [trained_of t_counters] in Hnc. cbn [snd].
    destruct (term_counter_tally rs name cnt Hrs Hnc) as (items & -> & Hlen).
    destruct items as [|i items]; [reflexivity|]. apply orb_true_iff. right. apply tally_f64_ok; [discriminate|]. lia.
  - exact Hbase.
  - rewrite Hskip. reflexivity.
  - apply forallb_forall. intros b Hbin. unfold loaded_bases in Hbin. apply in_map_iff in Hbin.
    destruct Hbin as ([k p] & <- & Hl). apply filter_In in Hl. destruct Hl as (Hl & _). cbn [fst snd].
    change (skip_total (a_one RF) (a_sub RF) (base_file RF (trained_of E o raw rs)))
      with (skip_total (1%float : P F64) PrimFloat.sub (base_file RF (trained_of E o raw rs))).
    rewrite Hskip. change (a_div RF p 1%float) with (PrimFloat.div p 1%float).
    destruct (f64_wf_hyps_ok _ Hbase) as (_ & Hu). rewrite Forall_forall in Hu.
    assert (Hp : okbF p = true) by (apply (unit_ok F64 p); exact (Hu (k, p) Hl)).
    now rewrite (div_one_exact p Hp).
Qed.

End Cov1.

(* ------------------------------------------------------------------ *)
(* 5. C03 for binary64 and the real file format, without the check     *)
(* ------------------------------------------------------------------ *)

Theorem C03_reproduced_F64_cov1 : forall (E : env) (HE : env_ok E) (io : fileio) (HIO : io_env_ok E io)
  (o : options F64) raw tr pw,
  train E o raw = Some tr -> In pw raw -> accepted_pw E pw = true -> supported_pw E o raw pw = true ->
  case_ok_pw E pw -> Forall (fun p => forallb (f_encb io) p = true) raw ->
  (o_cov o : PrimFloat.float) = 1%float -> chars_bound raw ->
  exists L, pipeline_F64 E io o raw = Some L /\
    forall pop, pop_ok_okb pop ->
      (exists it, In it (session pop L) /\ exists out k, guesses_of RF E L it = Some (out, k) /\ In pw out) /\
      In pw (printed RF E pop L).
Proof.
  intros E HE io HIO o raw tr pw Htr Hin Hacc Hsup Hcase Henc Hcov Hb.
  apply (C03_reproduced_F64 E HE io HIO o raw tr pw Htr Hin Hacc Hsup Hcase Henc).
  apply (f64_arith_ok_cov1 E HE o raw tr Htr Hcov Hb). exists pw. auto.
Qed.

Print Assumptions tally_f64_ok.
Print Assumptions C03_reproduced_F64_cov1.
